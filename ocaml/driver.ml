(* Generic driver around the extracted Dispatch.dispatch.
   stdin : one case per line   <kind-hex> TAB <input-sx> TAB <impl-sx>
   stdout: one verdict sx per line (see Sx.v).
   Syntax of sx:  #<hex> number | x<hex-pairs> bytes | ( ... ) list. *)
open Dispatch

let n_of_bits (bits : bool list) : n =
  (* bits MSB first *)
  let rec go (acc : positive option) = function
    | [] -> acc
    | b :: r ->
      let acc' = match acc with
        | None -> if b then Some XH else None
        | Some p -> Some (if b then XI p else XO p) in
      go acc' r in
  match go None bits with None -> N0 | Some p -> Npos p

let hexval c = match c with
  | '0'..'9' -> Char.code c - 48
  | 'a'..'f' -> Char.code c - 87
  | 'A'..'F' -> Char.code c - 55
  | _ -> failwith "bad hex"

let n_of_hex (s : string) : n =
  let bits = ref [] in
  String.iter (fun c -> let v = hexval c in
    bits := ((v land 1) <> 0) :: ((v land 2) <> 0) :: ((v land 4) <> 0) :: ((v land 8) <> 0) :: !bits) s;
  n_of_bits (List.rev !bits)

let n_of_int (i : int) : n =
  let rec bits i acc = if i = 0 then acc else bits (i lsr 1) (((i land 1) <> 0) :: acc) in
  n_of_bits (bits i [])

let byte_tab = Array.init 256 n_of_int

let rec pos_bits_lsb (p : positive) (acc : bool list) : bool list =
  (* conses the LSB first, so the head of the result is the MSB *)
  match p with
  | XH -> true :: acc
  | XO q -> pos_bits_lsb q (false :: acc)
  | XI q -> pos_bits_lsb q (true :: acc)

let hex_of_n (x : n) : string =
  match x with
  | N0 -> "0"
  | Npos p ->
    let msb_first = pos_bits_lsb p [] in
    let len = List.length msb_first in
    let pad = (4 - len mod 4) mod 4 in
    let bits = (List.init pad (fun _ -> false)) @ msb_first in
    let buf = Buffer.create 16 in
    let rec go = function
      | a :: b :: c :: d :: r ->
        let v = (if a then 8 else 0) + (if b then 4 else 0) + (if c then 2 else 0) + (if d then 1 else 0) in
        Buffer.add_char buf "0123456789abcdef".[v]; go r
      | [] -> ()
      | _ -> failwith "bits" in
    go bits; Buffer.contents buf

let int_of_n (x : n) : int =
  match x with
  | N0 -> 0
  | Npos p ->
    let rec go p = match p with XH -> 1 | XO q -> 2 * go q | XI q -> 2 * go q + 1 in go p

(* ---- parser ---- *)
let parse (s : string) : sx =
  let n = String.length s in
  let pos = ref 0 in
  let skip () = while !pos < n && s.[!pos] = ' ' do incr pos done in
  let token_end () =
    let e = ref !pos in
    while !e < n && s.[!e] <> ' ' && s.[!e] <> ')' && s.[!e] <> '(' do incr e done; !e in
  let rec value () : sx =
    skip ();
    if !pos >= n then failwith "eof";
    match s.[!pos] with
    | '(' ->
      incr pos;
      let items = ref [] in
      let fin = ref false in
      while not !fin do
        skip ();
        if !pos >= n then failwith "unclosed";
        if s.[!pos] = ')' then (incr pos; fin := true)
        else items := value () :: !items
      done;
      SL (List.rev !items)
    | '#' ->
      incr pos; let e = token_end () in
      let t = String.sub s !pos (e - !pos) in pos := e; SN (n_of_hex t)
    | 'x' ->
      incr pos; let e = token_end () in
      let len = (e - !pos) / 2 in
      let l = ref [] in
      for i = len - 1 downto 0 do
        let v = hexval s.[!pos + 2*i] * 16 + hexval s.[!pos + 2*i + 1] in
        l := byte_tab.(v) :: !l
      done;
      pos := e; SB !l
    | c -> failwith (Printf.sprintf "bad char %c at %d" c !pos) in
  value ()

let rec print (b : Buffer.t) (v : sx) : unit =
  match v with
  | SN x -> Buffer.add_char b '#'; Buffer.add_string b (hex_of_n x)
  | SB l -> Buffer.add_char b 'x';
    List.iter (fun x -> Buffer.add_string b (Printf.sprintf "%02x" (int_of_n x land 255))) l
  | SL l -> Buffer.add_char b '(';
    List.iteri (fun i x -> if i > 0 then Buffer.add_char b ' '; print b x) l;
    Buffer.add_char b ')'

let () =
  let buf = Buffer.create 65536 in
  (try
    while true do
      let line = input_line stdin in
      (match String.split_on_char '\t' line with
       | [k; i; o] ->
         let v = (try dispatch (n_of_hex k) (parse i) (parse o)
                  with Failure m -> SL [SN (n_of_int 3); SB (List.map (fun c -> byte_tab.(Char.code c)) (List.init (String.length m) (String.get m)))]) in
         Buffer.clear buf; print buf v; print_string (Buffer.contents buf); print_newline ()
       | _ -> print_string "(#3)"; print_newline ())
    done
  with End_of_file -> ())
