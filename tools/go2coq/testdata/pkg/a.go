package pkg

import (
	"fmt"
	"strings"
)

type Kind int

const (
	KA Kind = iota
	KB
	KC
)

const mask = 1<<4 - 1

type pt struct {
	name string
	n    uint32
}

// ---- inside the subset

func okSwitch(k Kind, s string) int {
	switch k {
	case KA, KB:
		return len(s)
	case KC:
		return 2
	}
	return -1
}

func okJoin(a int, b int) int {
	x := a
	if a < b {
		x = b
	} else if a == b {
		x += 1
	}
	x *= 2
	return x
}

func okShift(v uint64) int {
	n := 0
	for v >= 1<<7 {
		v >>= 7
		n++
	}
	return n + 1
}

func okWrap(a uint32, b uint32) uint32 {
	return (a+b)<<3 - a*b&mask
}

func okStruct(p *pt) bool {
	return strings.HasPrefix(p.name, "x") && p.n&mask == KindMask
}

const KindMask = 3

func okSlice(s string) string {
	if len(s) > 2 {
		return s[1:len(s)-1] + s[:1] + s[2:]
	}
	return s
}

func okBreak(s string) int {
	n := 0
	for i := 0; i < len(s); i++ {
		if s[i] == ' ' {
			break
		}
		n += 2
	}
	return n
}

// ---- outside the subset: each must become an UNTRANSLATABLE comment

func badShadow(a int) int {
	if a > 0 {
		a := 2
		return a
	}
	return a
}

func badWhile(a int) int {
	for a > 0 {
		a--
	}
	return a
}

func badDecreasing(s string) int {
	n := 0
	for i := 0; i < len(s); i++ {
		if s[i] == 'x' {
			i--
		}
		n++
	}
	return n
}

func badBoundMoves(s string) int {
	n := len(s)
	for i := 0; i < n; i++ {
		n++
	}
	return n
}

func badFallthrough(a int) int {
	switch a {
	case 1:
		fallthrough
	case 2:
		return 2
	}
	return 0
}

func badCall(s string) string {
	return fmt.Sprint(s)
}

func badMap(m map[string]int) int {
	return len(m)
}

func badWrite(s []string) int {
	s[0] = "x"
	return 1
}

func badRangeString(s string) int {
	n := 0
	for _, r := range s {
		if r == 'x' {
			n++
		}
	}
	return n
}

func badBareReturn(a int) (r int) {
	r = a
	return
}

func badGoto(a int) int {
	goto done
done:
	return a
}

func badClosure(a int) int {
	f := func() int { return a }
	return f()
}

func badIntShift(a int) int {
	return a << 2
}

func badStringOfByte(b byte) string {
	return string(b)
}

func badBreakInSwitch(s string) int {
	n := 0
	for i := 0; i < len(s); i++ {
		switch s[i] {
		case 'a':
			break
		}
		n++
	}
	return n
}

func badDefer(a int) int {
	defer fmt.Println()
	return a
}

func badConstOverflow(b byte) bool {
	return b == 300
}
