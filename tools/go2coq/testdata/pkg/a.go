package pkg

import (
	"fmt"
	"os"
	"sort"
	"strings"

	"github.com/pkg/errors"
	"github.com/tonistiigi/fsutil/types"
)

type Kind int

const (
	KA Kind = iota
	KB
	KC
)

const mask = 1<<4 - 1

type pt struct {
	name string
	n    uint32
}

// ---- inside the subset

func okSwitch(k Kind, s string) int {
	switch k {
	case KA, KB:
		return len(s)
	case KC:
		return 2
	}
	return -1
}

func okJoin(a int, b int) int {
	x := a
	if a < b {
		x = b
	} else if a == b {
		x += 1
	}
	x *= 2
	return x
}

func okShift(v uint64) int {
	n := 0
	for v >= 1<<7 {
		v >>= 7
		n++
	}
	return n + 1
}

func okWrap(a uint32, b uint32) uint32 {
	return (a+b)<<3 - a*b&mask
}

func okStruct(p *pt) bool {
	return strings.HasPrefix(p.name, "x") && p.n&mask == KindMask
}

const KindMask = 3

func okSlice(s string) string {
	if len(s) > 2 {
		return s[1:len(s)-1] + s[:1] + s[2:]
	}
	return s
}

func okBreak(s string) int {
	n := 0
	for i := 0; i < len(s); i++ {
		if s[i] == ' ' {
			break
		}
		n += 2
	}
	return n
}

// ---- outside the subset: each must become an UNTRANSLATABLE comment

func okShadow(a int) int {
	if a > 0 {
		a := a + 2
		a++
		if a > 5 {
			return a
		}
	}
	return a
}

func okVar(s []string) (n int, last string) {
	var k int
	var seen bool
	for _, s := range s {
		if s == "" {
			s = "/"
		}
		if !seen && okHasX(s) {
			seen = true
		}
		last = s
		k++
	}
	return k, last
}

func okHasX(s string) bool {
	for i := 0; i < len(s); i++ {
		if s[i] == 'x' {
			return true
		}
	}
	return false
}

func okNil(p *pt, q *pt) int {
	if p == nil {
		return 0
	}
	if q != nil {
		return len(p.name) + len(q.name)
	}
	return len(p.name)
}

func badNilDeref(p *pt) int {
	if p == nil {
		return len(p.name)
	}
	return 1
}

func okI64(a int64) int64 {
	if a < 0 {
		return a/1e3 - a%1e3
	}
	return a * 2
}

func badWhile(a int) int {
	for a > 0 {
		a--
	}
	return a
}

func badDecreasing(s string) int {
	n := 0
	for i := 0; i < len(s); i++ {
		if s[i] == 'x' {
			i--
		}
		n++
	}
	return n
}

func badBoundMoves(s string) int {
	n := len(s)
	for i := 0; i < n; i++ {
		n++
	}
	return n
}

func badFallthrough(a int) int {
	switch a {
	case 1:
		fallthrough
	case 2:
		return 2
	}
	return 0
}

func badCall(s string) string {
	return fmt.Sprint(s)
}

func badMap(m map[string]int) int {
	return len(m)
}

func badWrite(s []string) int {
	s[0] = "x"
	return 1
}

func badRangeString(s string) int {
	n := 0
	for _, r := range s {
		if r == 'x' {
			n++
		}
	}
	return n
}

func badBareReturn(a int) (r int) {
	r = a
	return
}

func badGoto(a int) int {
	goto done
done:
	return a
}

func badClosure(a int) int {
	f := func() int { return a }
	return f()
}

func badIntShift(a int) int {
	return a << 2
}

func badStringOfByte(b byte) string {
	return string(b)
}

func badBreakInSwitch(s string) int {
	n := 0
	for i := 0; i < len(s); i++ {
		switch s[i] {
		case 'a':
			break
		}
		n++
	}
	return n
}

func badDefer(a int) int {
	defer fmt.Println()
	return a
}

func badConstOverflow(b byte) bool {
	return b == 300
}

// ---- state transformers, struct slices, closures

type ent struct {
	key string
	n   int
}

type tab struct {
	ents []ent
	hits int
}

func (t *tab) okPut(key string, fi os.FileInfo) error {
	if t.ents == nil {
		t.ents = make([]ent, 1, 4)
	}
	i := sort.Search(len(t.ents), func(i int) bool {
		return t.ents[i].key >= key
	})
	if i < len(t.ents) && t.ents[i].key == key {
		t.ents[i].n = t.ents[i].n + 1
		t.hits++
		return nil
	}
	if fi.IsDir() {
		return errors.Errorf("dir %q", key)
	}
	t.ents = append(t.ents[:i], ent{key: key})
	return nil
}

func (t *tab) badClosureWrites(key string) int {
	n := 0
	i := sort.Search(len(t.ents), func(i int) bool {
		n++
		return t.ents[i].key >= key
	})
	return i + n
}

func (t *tab) badLoopOnState() int {
	n := 0
	for i := 0; i < len(t.ents); i++ {
		n += t.ents[i].n
	}
	return n
}

// ---- maps used as sets, type assertion

type seen struct {
	names map[string]struct{}
}

func (v *seen) okSeen(name string, fi os.FileInfo, forget bool) (bool, error) {
	if v.names == nil {
		v.names = make(map[string]struct{})
	}
	st, ok := fi.Sys().(*types.Stat)
	if !ok {
		return false, errors.New("no stat")
	}
	if forget {
		delete(v.names, name)
		return false, nil
	}
	if _, ok := v.names[st.Linkname]; ok {
		return true, nil
	}
	if fi.Mode()&os.ModeDir == 0 {
		v.names[name] = struct{}{}
	}
	return false, nil
}

func (v *seen) badLenOfMap() int {
	return len(v.names)
}

func (v *seen) badRangeOverMap() int {
	n := 0
	for k := range v.names {
		n += len(k)
	}
	return n
}

func (v *seen) badUseOfFailedAssertion(fi os.FileInfo) int {
	st, ok := fi.Sys().(*types.Stat)
	if !ok {
		return len(st.Path)
	}
	return 0
}
