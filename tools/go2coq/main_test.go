package main

import (
	"os"
	"os/exec"
	"path/filepath"
	"strings"
	"testing"
)

// Every function of testdata/pkg named ok* must be translated, every one named bad* must become an
// UNTRANSLATABLE comment (never a guess); if coqc is available the output must compile.
func TestSubset(t *testing.T) {
	var wl []entry
	for _, n := range []string{"okSwitch", "okJoin", "okShift", "okWrap", "okStruct", "okSlice", "okBreak", "okShadow", "okHasX", "okVar", "okNil", "okI64", "badNilDeref",
		"badWhile", "badDecreasing", "badBoundMoves", "badFallthrough", "badCall", "badMap", "badWrite",
		"badRangeString", "badBareReturn", "badGoto", "badClosure", "badIntShift", "badStringOfByte", "badBreakInSwitch",
		"badDefer", "badConstOverflow", "missing"} {
		wl = append(wl, entry{file: "pkg/a.go", name: n})
	}
	wl = append(wl, entry{file: "pkg/a.go", name: "okPut", recv: "tab", state: true},
		entry{file: "pkg/a.go", name: "badClosureWrites", recv: "tab", state: true},
		entry{file: "pkg/a.go", name: "badLoopOnState", recv: "tab", state: true},
		entry{file: "pkg/a.go", name: "okSeen", recv: "seen", state: true},
		entry{file: "pkg/a.go", name: "badLenOfMap", recv: "seen", state: true},
		entry{file: "pkg/a.go", name: "badRangeOverMap", recv: "seen", state: true},
		entry{file: "pkg/a.go", name: "badUseOfFailedAssertion", recv: "seen", state: true})
	out := translate("testdata", wl)
	for _, e := range wl {
		label, gname := e.name, e.name
		if e.recv != "" {
			label, gname = e.recv+"."+e.name, e.recv+"_"+e.name
		}
		un := strings.Contains(out, "(* UNTRANSLATABLE "+label+":")
		def := strings.Contains(out, "Definition "+gname+" ")
		if strings.HasPrefix(e.name, "ok") && (un || !def) {
			t.Errorf("%s should be translated", e.name)
		}
		if !strings.HasPrefix(e.name, "ok") && (!un || def) {
			t.Errorf("%s should be UNTRANSLATABLE", e.name)
		}
	}
	for _, want := range []string{
		"Prims.wrap 32", "Prims.usub 32", "65%nat", // fixed width arithmetic, shift-loop fuel
		"Record pt := { pt_name : list N; pt_n : N }",
		"(k =? 0%Z)%Z || (k =? 1%Z)%Z", // iota constants
		"let a__1 := (a + 2%Z)%Z in",   // a shadowing variable gets a fresh name
		"| Some q =>",                  // nil guard
		"Prims.i64_quot a 1000%N",
		"Prims.sort_Search (Prims.slen t_ents) (fun (i : Z) =>", // closure passed to sort.Search
		"Prims.list_set t_ents i (ent_set_n",                    // element field write on the state
		"tab_hits := t_hits",
		"match (Prims.fi_Sys fi) with",                  // type assertion
		"(Prims.set_mem (Stat.st_linkname st) v_names)", // _, ok := m[k]
		"(Prims.set_add v_names name)",                  // m[k] = struct{}{}
		"(Prims.set_del v_names name)",                  // delete(m, k)                                    // the state handed back
	} {
		if !strings.Contains(out, want) {
			t.Errorf("output lacks %q", want)
		}
	}
	t.Log("\n" + out)
	coqc, err := exec.LookPath("coqc")
	theories, _ := filepath.Abs("../../coq/theories")
	if _, e2 := os.Stat(filepath.Join(theories, "Src", "Prims.vo")); err != nil || e2 != nil {
		t.Skip("coqc or compiled theories not available: output not compiled")
	}
	dir := t.TempDir()
	if err := os.WriteFile(filepath.Join(dir, "SrcFns.v"), []byte(out), 0o644); err != nil {
		t.Fatal(err)
	}
	cmd := exec.Command("timeout", "120", coqc, "-Q", theories, "FS", "SrcFns.v")
	cmd.Dir = dir
	if b, err := cmd.CombinedOutput(); err != nil {
		t.Fatalf("generated file does not compile: %v\n%s", err, b)
	}
}
