// go2coq — source-to-Gallina translator for a whitelist of pure functions of fsutil.
//
//	go run . /repo > coq/gen/SrcFns.v
//
// Purely syntactic (go/parser + go/ast + go/constant; no type checker, no third-party
// imports): every whitelisted function is type-checked by the small typer below against the
// subset described in README.md.  Anything outside the subset is NOT guessed: the function is
// replaced by a comment `(* UNTRANSLATABLE f: reason at file:line *)` and the run continues
// (exit code 0), so that only that function's equivalence proof (Proofs/Src/<Fn>Eq.v) fails.
package main

import (
	"fmt"
	"go/ast"
	"go/build"
	"go/constant"
	"go/parser"
	"go/token"
	"os"
	"path/filepath"
	"sort"
	"strconv"
	"strings"
)

// ---------------------------------------------------------------- whitelist

type entry struct {
	file    string            // relative to the repository root
	name    string            // function or method name
	recv    string            // receiver type name for a method ("" = function); the Gallina name is <recv>_<name>
	state   bool              // a method translated as a state transformer: the receiver's fields are variables, the result is (receiver', results)
	as      string            // Gallina name when the Go name is already taken by another package's function
	externs map[string]extern // functions the body calls that are NOT translated (I/O): they become leading parameters
}

// an external function: the translated function is parametric in it
type extern struct {
	params []Ty
	res    []Ty
}

// callees before callers
var whitelist = []entry{
	{file: "validator.go", name: "min"},
	{file: "validator.go", name: "ComparePath"},
	{file: "validator.go", name: "HandleChange", recv: "Validator", state: true},
	{file: "hardlinks.go", name: "HandleChange", recv: "Hardlinks", state: true},
	{file: "stat_unix.go", name: "major"},
	{file: "stat_unix.go", name: "minor"},
	{file: "filter.go", name: "patternWithoutTrailingGlob"},
	{file: "diff_containerd.go", name: "compareStat"},
	{file: "send.go", name: "fileCanRequestData"},
	{file: "followlinks.go", name: "containsWildcards"},
	{file: "followlinks.go", name: "dedupePaths"},
	{file: "stat_unix.go", name: "skipXattr"},
	{file: "copy/copy.go", name: "containsWildcards", as: "copy_containsWildcards"},
	{file: "copy/copy.go", name: "splitWildcards"},
	{file: "types/stat.go", name: "IsDir", recv: "Stat"},
	{file: "fs.go", name: "Size", recv: "StatInfo"},
	{file: "fs.go", name: "Mode", recv: "StatInfo"},
	{file: "fs.go", name: "ModTime", recv: "StatInfo"},
	{file: "fs.go", name: "IsDir", recv: "StatInfo"},
	{file: "diff_containerd.go", name: "pathChange"},
	{file: "diff_containerd.go", name: "sameFile", externs: map[string]extern{
		// reads both files: the result of sameFile is stated for every behaviour of this function
		"compareFileContent": {params: []Ty{{k: kString}, {k: kString}}, res: []Ty{{k: kBool}, {k: kError}}},
	}},
}

// ---------------------------------------------------------------- types

type kind int

const (
	kInvalid  kind = iota
	kInt           // Go int        -> Z (unbounded; see README)
	kUint          // uintN / byte  -> N, arithmetic wrapped mod 2^bits
	kI64           // int64 field   -> N (two's complement), only == and !=
	kBool          // bool
	kString        // string        -> list N
	kStrSlice      // []string      -> list (list N)
	kError         // error         -> Prims.error (only nil)
	kStat          // *types.Stat   -> Stat.stat
	kPattern       // *patternmatcher.Pattern -> list N (its String())
	kUntyped       // untyped integer constant
	kNil           // the identifier nil
	kSlice         // []T, T a struct type of the package -> list T (name = T); nil and empty are not distinguished
	kStrSet        // map[string]struct{} -> list (list N) used as a set (no iteration, no len: order and duplicates unobservable)
	kFileInfo      // os.FileInfo -> Prims.FileInfo (a record of what its methods return)
	kTime          // time.Time -> Prims.time: the (sec, nsec) pair given to time.Unix
	kStruct        // *T, T a struct type of the package whose fields are all in the subset -> a generated Record
)

type Ty struct {
	k    kind
	bits int
	name string // kStruct: the struct's name; otherwise advisory (the named type, e.g. os.FileMode, DiffType)
	opt  bool   // kStruct only: the pointer may be nil (the function compares it with nil) -> option T
}

func (t Ty) eq(u Ty) bool {
	return t.k == u.k && t.bits == u.bits && ((t.k != kStruct && t.k != kSlice) || (t.name == u.name && t.opt == u.opt)) && (t.k != kStat || t.opt == u.opt)
}

func (t Ty) coq() string {
	switch t.k {
	case kInt:
		return "Z"
	case kUint, kI64:
		return "N"
	case kBool:
		return "bool"
	case kString, kPattern:
		return "list N"
	case kStrSlice:
		return "list (list N)"
	case kError:
		return "Prims.error"
	case kStat:
		return "Stat.stat"
	case kStruct:
		if t.opt {
			return "option " + ident(t.name)
		}
		return ident(t.name)
	case kTime:
		return "Prims.time"
	case kSlice:
		return "list " + ident(t.name)
	case kFileInfo:
		return "Prims.FileInfo Stat.stat"
	case kStrSet:
		return "list (list N)"
	}
	return "?"
}

func (t Ty) String() string {
	switch t.k {
	case kInt:
		return "int"
	case kUint:
		return fmt.Sprintf("uint%d", t.bits)
	case kI64:
		return "int64"
	case kBool:
		return "bool"
	case kString:
		return "string"
	case kStrSlice:
		return "[]string"
	case kError:
		return "error"
	case kStat:
		return "*types.Stat"
	case kPattern:
		return "*patternmatcher.Pattern"
	case kUntyped:
		return "untyped constant"
	case kNil:
		return "nil"
	case kStruct:
		return "*" + t.name
	case kTime:
		return "time.Time"
	case kSlice:
		return "[]" + t.name
	case kFileInfo:
		return "os.FileInfo"
	case kStrSet:
		return "map[string]struct{}"
	}
	return "invalid"
}

var statFields = map[string]struct {
	coq string
	ty  Ty
}{
	"Path":     {"Stat.st_path", Ty{k: kString}},
	"Mode":     {"Stat.st_mode", Ty{k: kUint, bits: 32}},
	"Uid":      {"Stat.st_uid", Ty{k: kUint, bits: 32}},
	"Gid":      {"Stat.st_gid", Ty{k: kUint, bits: 32}},
	"Size":     {"Stat.st_size", Ty{k: kI64}},
	"ModTime":  {"Stat.st_mtime", Ty{k: kI64}},
	"Linkname": {"Stat.st_linkname", Ty{k: kString}},
	"Devmajor": {"Stat.st_devmajor", Ty{k: kI64}},
	"Devminor": {"Stat.st_devminor", Ty{k: kI64}},
}

// standard-library constants: meaning in Src/Prims.v (type N there), value needed for folding
var stdConsts = map[string]struct {
	sym string
	val int64
	ty  Ty // kUntyped or a typed constant
}{
	"filepath.Separator": {"Prims.filepath_Separator", 47, Ty{k: kUntyped}},
	"os.ModeType":        {"Prims.os_ModeType", 2401763328, Ty{k: kUint, bits: 32}},
	"os.ModeDir":         {"Prims.os_ModeDir", 2147483648, Ty{k: kUint, bits: 32}},
	"os.ModeSymlink":     {"Prims.os_ModeSymlink", 134217728, Ty{k: kUint, bits: 32}},
}

var stdStrings = map[string]string{
	"runtime.GOOS": "Prims.runtime_GOOS",
}

// standard-library functions: meaning in Src/Prims.v
var stdFuncs = map[string]struct {
	sym    string
	params []Ty
	res    Ty
}{
	"strings.HasPrefix":  {"Prims.strings_HasPrefix", []Ty{{k: kString}, {k: kString}}, Ty{k: kBool}},
	"strings.HasSuffix":  {"Prims.strings_HasSuffix", []Ty{{k: kString}, {k: kString}}, Ty{k: kBool}},
	"strings.TrimPrefix": {"Prims.strings_TrimPrefix", []Ty{{k: kString}, {k: kString}}, Ty{k: kString}},
	"strings.TrimSuffix": {"Prims.strings_TrimSuffix", []Ty{{k: kString}, {k: kString}}, Ty{k: kString}},
	"time.Unix":          {"Prims.time_Unix", []Ty{{k: kI64}, {k: kI64}}, Ty{k: kTime}},
	"strings.Split":      {"Prims.strings_Split", []Ty{{k: kString}, {k: kString}}, Ty{k: kStrSlice}},
	"filepath.Clean":     {"Prims.filepath_Clean", []Ty{{k: kString}}, Ty{k: kString}},
	"filepath.IsAbs":     {"Prims.filepath_IsAbs", []Ty{{k: kString}}, Ty{k: kBool}},
	"filepath.Dir":       {"Prims.filepath_Dir", []Ty{{k: kString}}, Ty{k: kString}},
	"filepath.Base":      {"Prims.filepath_Base", []Ty{{k: kString}}, Ty{k: kString}},
	"filepath.FromSlash": {"Prims.filepath_FromSlash", []Ty{{k: kString}}, Ty{k: kString}},
}

type untranslatable struct {
	pos    token.Pos
	reason string
}

func (u *untranslatable) Error() string { return u.reason }

func bad(n ast.Node, format string, a ...interface{}) error {
	return &untranslatable{n.Pos(), fmt.Sprintf(format, a...)}
}

// ---------------------------------------------------------------- environment

type variable struct {
	name string
	ty   Ty
	coq  string // Gallina name: the Go name, or name__<k> for a variable that shadows one of an enclosing scope
	kb   int    // a bool whose value is known on this path (the ok of a type assertion): 1 true, 2 false, 0 unknown
}

// env: stack of scopes, innermost last; each scope an ordered list of variables
type env struct {
	scopes [][]variable
	ctr    *int // shared by all clones: numbering of shadowing variables
}

func (e *env) clone() *env {
	n := &env{ctr: e.ctr}
	for _, s := range e.scopes {
		n.scopes = append(n.scopes, append([]variable(nil), s...))
	}
	return n
}
func (e *env) push() { e.scopes = append(e.scopes, nil) }
func (e *env) pop()  { e.scopes = e.scopes[:len(e.scopes)-1] }
func (e *env) lookup(name string) (Ty, bool) {
	for i := len(e.scopes) - 1; i >= 0; i-- {
		for j := len(e.scopes[i]) - 1; j >= 0; j-- {
			if e.scopes[i][j].name == name {
				return e.scopes[i][j].ty, true
			}
		}
	}
	return Ty{}, false
}

// coqOf: the Gallina name of the innermost variable called name
func (e *env) coqOf(name string) string {
	for i := len(e.scopes) - 1; i >= 0; i-- {
		for j := len(e.scopes[i]) - 1; j >= 0; j-- {
			if e.scopes[i][j].name == name {
				return e.scopes[i][j].coq
			}
		}
	}
	return ident(name)
}

// declare in the innermost scope.  A variable that shadows one of an enclosing scope gets a fresh Gallina
// name (name__k): the code after a block is duplicated into its branches, so the `let` of an inner variable
// stays in force there and must not capture the outer variable's name.
func (e *env) declare(n ast.Node, name string, ty Ty) error {
	if name == "_" {
		return nil
	}
	coq := ident(name)
	for i := 0; i < len(e.scopes)-1; i++ {
		for _, v := range e.scopes[i] {
			if v.name == name {
				if e.ctr == nil {
					e.ctr = new(int)
				}
				*e.ctr++
				coq = fmt.Sprintf("%s__%d", name, *e.ctr)
			}
		}
	}
	top := len(e.scopes) - 1
	for j, v := range e.scopes[top] {
		if v.name == name {
			e.scopes[top][j].ty = ty
			return nil
		}
	}
	e.scopes[top] = append(e.scopes[top], variable{name: name, ty: ty, coq: coq})
	return nil
}

// declareAs: a variable of the outermost scope with a given Gallina name (the fields of a state receiver)
func (e *env) declareAs(name string, ty Ty, coq string) {
	e.scopes[0] = append(e.scopes[0], variable{name: name, ty: ty, coq: coq})
}

// setKnown / known: the value of a bool variable that is fixed on the current path
func (e *env) setKnown(name string, kb int) {
	for i := len(e.scopes) - 1; i >= 0; i-- {
		for j := len(e.scopes[i]) - 1; j >= 0; j-- {
			if e.scopes[i][j].name == name {
				e.scopes[i][j].kb = kb
				return
			}
		}
	}
}
func (e *env) known(name string) int {
	for i := len(e.scopes) - 1; i >= 0; i-- {
		for j := len(e.scopes[i]) - 1; j >= 0; j-- {
			if e.scopes[i][j].name == name {
				return e.scopes[i][j].kb
			}
		}
	}
	return 0
}

// retype changes the type of the innermost variable called name (nil-ness refinement under a guard)
func (e *env) retype(name string, ty Ty) {
	for i := len(e.scopes) - 1; i >= 0; i-- {
		for j := len(e.scopes[i]) - 1; j >= 0; j-- {
			if e.scopes[i][j].name == name {
				e.scopes[i][j].ty = ty
				return
			}
		}
	}
}

func (e *env) all() []variable {
	var out []variable
	for _, s := range e.scopes {
		out = append(out, s...)
	}
	return out
}

// ---------------------------------------------------------------- translator state

type funcSig struct {
	name   string // Gallina name
	params []Ty
	res    []Ty
	opt    bool // returns option (contains a loop, or calls such a function)
	state  bool // state transformer: not callable from other translated functions
}

type tr struct {
	fset  *token.FileSet
	funcs map[string]*funcSig // translated so far, by Go name
	pkgs  map[string]*pkgInfo // by directory
	pkg   *pkgInfo            // package of the function being translated
	dir   string              // its directory relative to the repository root: functions are registered per package
	// calls of loop functions met inside an expression are bound in front of the statement (see hoist)
	hoisted [][2]string // (call, variable)
	nhoist  int
	noHoist bool
	iota    int // value of iota while a constant's defining expression is translated (-1 otherwise)
	// records emitted so far (struct types used by translated functions)
	records    map[string]bool
	recordZero map[string]bool // the struct has a zero value the translator can write (T_zero)
	recordDefs []string
	externs    map[string]extern
	stateRecv  string // name of the receiver of a state-transformer method ("" otherwise)
	// per function
	cur    *funcSig
	goName string
	aux    []string // Fixpoints emitted for loops
	nloop  int
}

// what the translator reads of a package besides the whitelisted functions: named basic types,
// struct types and constants (including iota groups), of the files that build on linux/amd64
type constDef struct {
	expr ast.Expr // defining expression (may mention iota)
	typ  ast.Expr // declared type or nil
	iota int
}

type pkgInfo struct {
	name    string
	named   map[string]ast.Expr // type X <ident>
	structs map[string]*ast.StructType
	consts  map[string]constDef
}

func (t *tr) scanPkg(dir string) *pkgInfo {
	if p, ok := t.pkgs[dir]; ok {
		return p
	}
	p := &pkgInfo{named: map[string]ast.Expr{}, structs: map[string]*ast.StructType{}, consts: map[string]constDef{}}
	t.pkgs[dir] = p
	ents, _ := os.ReadDir(dir)
	bctx := build.Default
	bctx.GOOS, bctx.GOARCH, bctx.CgoEnabled = "linux", "amd64", false
	for _, e := range ents {
		n := e.Name()
		if e.IsDir() || !strings.HasSuffix(n, ".go") || strings.HasSuffix(n, "_test.go") {
			continue
		}
		if ok, err := bctx.MatchFile(dir, n); err != nil || !ok {
			continue
		}
		f, err := parser.ParseFile(t.fset, filepath.Join(dir, n), nil, parser.SkipObjectResolution)
		if err != nil {
			continue
		}
		p.name = f.Name.Name
		for _, d := range f.Decls {
			g, ok := d.(*ast.GenDecl)
			if !ok {
				continue
			}
			switch g.Tok {
			case token.TYPE:
				for _, sp := range g.Specs {
					ts := sp.(*ast.TypeSpec)
					if ts.TypeParams != nil || ts.Assign != token.NoPos {
						continue
					}
					switch x := ts.Type.(type) {
					case *ast.Ident:
						p.named[ts.Name.Name] = x
					case *ast.StructType:
						p.structs[ts.Name.Name] = x
					}
				}
			case token.CONST:
				var cur constDef
				for i, sp := range g.Specs {
					vs := sp.(*ast.ValueSpec)
					if len(vs.Values) > 0 {
						if len(vs.Values) != len(vs.Names) {
							cur = constDef{}
							continue
						}
						for j, n := range vs.Names {
							p.consts[n.Name] = constDef{vs.Values[j], vs.Type, i}
						}
						if len(vs.Names) == 1 {
							cur = constDef{vs.Values[0], vs.Type, i}
						} else {
							cur = constDef{}
						}
						continue
					}
					// implicit repetition of the previous expression (iota groups)
					if cur.expr != nil && len(vs.Names) == 1 {
						p.consts[vs.Names[0].Name] = constDef{cur.expr, cur.typ, i}
					}
				}
			}
		}
	}
	return p
}

// record makes sure the Record for struct type name has been emitted
func (t *tr) record(n ast.Node, name string) error {
	if t.records[name] {
		return nil
	}
	st := t.pkg.structs[name]
	var fields []string
	for _, f := range st.Fields.List {
		ty, err := t.typeOf(f.Type)
		if err != nil {
			return bad(n, "struct %s has a field outside the subset", name)
		}
		if len(f.Names) == 0 {
			// an embedded *types.Stat is the field named Stat; promoted fields and methods are outside the subset
			if ty.k != kStat {
				return bad(n, "struct %s has an embedded field other than *types.Stat", name)
			}
			fields = append(fields, fmt.Sprintf("%s_Stat : %s", name, ty.coq()))
		}
		for _, fn := range f.Names {
			fields = append(fields, fmt.Sprintf("%s_%s : %s", name, fn.Name, ty.coq()))
		}
	}
	t.records[name] = true
	def := fmt.Sprintf("(* struct %s (a pointer to it is the record itself unless the function tests it against nil) *)\nRecord %s := { %s }.\n", name, ident(name), strings.Join(fields, "; "))
	// zero value and one setter per field (for x.f = e on a translated state)
	var fnames []string
	var ftys []Ty
	for _, f := range st.Fields.List {
		ty, _ := t.typeOf(f.Type)
		if len(f.Names) == 0 {
			fnames, ftys = append(fnames, "Stat"), append(ftys, ty)
		}
		for _, fn := range f.Names {
			fnames, ftys = append(fnames, fn.Name), append(ftys, ty)
		}
	}
	var zs []string
	allZero := true
	for i, fn := range fnames {
		z, ok := zeroOf(ftys[i])
		if ftys[i].k == kSlice {
			z, ok = "(@nil "+ident(ftys[i].name)+")", true
		}
		if ftys[i].k == kStrSet {
			z, ok = "(@nil (list N))", true
		}
		if !ok {
			allZero = false
			break
		}
		zs = append(zs, fmt.Sprintf("%s_%s := %s", name, fn, z))
	}
	if allZero {
		def += fmt.Sprintf("Definition %s_zero : %s := {| %s |}.\n", name, ident(name), strings.Join(zs, "; "))
	}
	for i, fn := range fnames {
		var fs []string
		for _, g := range fnames {
			if g == fn {
				fs = append(fs, fmt.Sprintf("%s_%s := x__", name, g))
			} else {
				fs = append(fs, fmt.Sprintf("%s_%s := %s_%s r__", name, g, name, g))
			}
		}
		def += fmt.Sprintf("Definition %s_set_%s (r__ : %s) (x__ : %s) : %s := {| %s |}.\n", name, fn, ident(name), ftys[i].coq(), ident(name), strings.Join(fs, "; "))
	}
	t.recordZero[name] = allZero
	t.recordDefs = append(t.recordDefs, def)
	return nil
}

func (t *tr) structField(name, field string) (Ty, bool) {
	st := t.pkg.structs[name]
	if st == nil {
		return Ty{}, false
	}
	for _, f := range st.Fields.List {
		if len(f.Names) == 0 && field == "Stat" {
			if ty, err := t.typeOf(f.Type); err == nil && ty.k == kStat {
				return ty, true
			}
		}
		for _, fn := range f.Names {
			if fn.Name == field {
				ty, err := t.typeOf(f.Type)
				return ty, err == nil
			}
		}
	}
	return Ty{}, false
}

var reserved = map[string]bool{
	"in": true, "fix": true, "match": true, "end": true, "at": true, "as": true, "if": true, "then": true, "else": true,
	"let": true, "fun": true, "forall": true, "exists": true, "return": true, "with": true, "Type": true, "Set": true, "Prop": true,
	"mod": true, "true": true, "false": true, "Some": true, "None": true, "S": true, "O": true, "N": true, "Z": true, "nil": true,
	"cons": true, "cofix": true, "struct": true, "where": true, "using": true, "for": true, "by": true, "tt": true, "unit": true,
	"bool": true, "list": true, "option": true, "nat": true, "negb": true, "andb": true, "orb": true, "fst": true, "snd": true,
	"length": true, "rev": true, "firstn": true, "skipn": true, "nth": true, "pair": true, "Prims": true, "Stat": true, "List": true,
}

func ident(name string) string {
	if reserved[name] || strings.Contains(name, "__") {
		return name + "_"
	}
	return name
}

// ---------------------------------------------------------------- expressions

type val struct {
	code string
	ty   Ty
	c    constant.Value // untyped integer constant (ty.k == kUntyped) or typed constant value
	sym  string         // Prims symbol (of Coq type N) denoting the constant, if any
}

func (t *tr) typeOf(e ast.Expr) (Ty, error) {
	switch x := e.(type) {
	case *ast.Ident:
		switch x.Name {
		case "int":
			return Ty{k: kInt}, nil
		case "string":
			return Ty{k: kString}, nil
		case "bool":
			return Ty{k: kBool}, nil
		case "byte", "uint8":
			return Ty{k: kUint, bits: 8}, nil
		case "uint16":
			return Ty{k: kUint, bits: 16}, nil
		case "uint32":
			return Ty{k: kUint, bits: 32}, nil
		case "uint64":
			return Ty{k: kUint, bits: 64}, nil
		case "error":
			return Ty{k: kError}, nil
		case "int64":
			return Ty{k: kI64}, nil
		}
		if t.pkg != nil {
			if u, ok := t.pkg.named[x.Name]; ok {
				ty, err := t.typeOf(u)
				ty.name = x.Name
				return ty, err
			}
			// a struct used by value (element of a slice, composite literal): same Record as through a pointer
			if _, ok := t.pkg.structs[x.Name]; ok {
				if err := t.record(e, x.Name); err != nil {
					return Ty{}, err
				}
				return Ty{k: kStruct, name: x.Name}, nil
			}
		}
	case *ast.ArrayType:
		if x.Len == nil {
			if id, ok := x.Elt.(*ast.Ident); ok && id.Name == "string" {
				return Ty{k: kStrSlice}, nil
			}
			if id, ok := x.Elt.(*ast.Ident); ok && t.pkg != nil {
				if _, ok := t.pkg.structs[id.Name]; ok {
					if err := t.record(e, id.Name); err != nil {
						return Ty{}, err
					}
					return Ty{k: kSlice, name: id.Name}, nil
				}
			}
		}
	case *ast.SelectorExpr:
		if p, ok := x.X.(*ast.Ident); ok && p.Name == "os" && x.Sel.Name == "FileMode" {
			return Ty{k: kUint, bits: 32, name: "os.FileMode"}, nil
		}
		if p, ok := x.X.(*ast.Ident); ok && p.Name == "time" && x.Sel.Name == "Time" {
			return Ty{k: kTime}, nil
		}
		if p, ok := x.X.(*ast.Ident); ok && p.Name == "os" && x.Sel.Name == "FileInfo" {
			return Ty{k: kFileInfo}, nil
		}
	case *ast.MapType:
		if k, ok := x.Key.(*ast.Ident); ok && k.Name == "string" {
			if st, ok := x.Value.(*ast.StructType); ok && (st.Fields == nil || len(st.Fields.List) == 0) {
				return Ty{k: kStrSet}, nil
			}
		}
	case *ast.StarExpr:
		if id, ok := x.X.(*ast.Ident); ok && t.pkg != nil {
			if id.Name == "Stat" && t.pkg.name == "types" {
				return Ty{k: kStat}, nil
			}
			if _, ok := t.pkg.structs[id.Name]; ok {
				if err := t.record(e, id.Name); err != nil {
					return Ty{}, err
				}
				return Ty{k: kStruct, name: id.Name}, nil
			}
		}
		if s, ok := x.X.(*ast.SelectorExpr); ok {
			if p, ok := s.X.(*ast.Ident); ok {
				if p.Name == "types" && s.Sel.Name == "Stat" {
					return Ty{k: kStat}, nil
				}
				if p.Name == "patternmatcher" && s.Sel.Name == "Pattern" {
					return Ty{k: kPattern}, nil
				}
			}
		}
	}
	return Ty{}, bad(e, "type outside the subset")
}

func zlit(c constant.Value) string {
	s := c.ExactString()
	if strings.HasPrefix(s, "-") {
		return "(" + s + ")%Z"
	}
	return s + "%Z"
}

// convert v to type ty (only untyped constants and nil convert implicitly)
func (t *tr) conv(n ast.Node, v val, ty Ty) (string, error) {
	if v.ty.k == kUntyped {
		switch ty.k {
		case kInt:
			if v.sym != "" {
				return "(Z.of_N " + v.sym + ")", nil
			}
			return zlit(v.c), nil
		case kUint:
			if constant.Sign(v.c) < 0 || constant.Compare(v.c, token.GEQ, constant.Shift(constant.MakeInt64(1), token.SHL, uint(ty.bits))) {
				return "", bad(n, "constant %s overflows %s", v.c.ExactString(), ty)
			}
			if v.sym != "" {
				return v.sym, nil
			}
			return v.c.ExactString() + "%N", nil
		case kI64:
			c := v.c
			lim := constant.Shift(constant.MakeInt64(1), token.SHL, 63)
			if constant.Compare(c, token.GEQ, lim) || constant.Compare(c, token.LSS, constant.UnaryOp(token.SUB, lim, 0)) {
				return "", bad(n, "constant %s overflows int64", c.ExactString())
			}
			if constant.Sign(c) < 0 {
				c = constant.BinaryOp(c, token.ADD, constant.Shift(constant.MakeInt64(1), token.SHL, 64))
			}
			return c.ExactString() + "%N", nil
		}
		return "", bad(n, "constant used as %s", ty)
	}
	if v.ty.k == kNil {
		switch ty.k {
		case kStrSlice:
			return "(@nil (list N))", nil
		case kSlice:
			return "(@nil " + ident(ty.name) + ")", nil
		case kStrSet:
			return "(@nil (list N))", nil
		case kError:
			return "(@None (list N))", nil
		}
		return "", bad(n, "nil used as %s", ty)
	}
	if !v.ty.eq(ty) {
		return "", bad(n, "type mismatch: %s used as %s", v.ty, ty)
	}
	return v.code, nil
}

func (t *tr) selName(e ast.Expr) string {
	if s, ok := e.(*ast.SelectorExpr); ok {
		if p, ok := s.X.(*ast.Ident); ok {
			return p.Name + "." + s.Sel.Name
		}
	}
	return ""
}

func strLit(s string) string {
	if len(s) == 0 {
		return "(@nil N)"
	}
	var parts []string
	for i := 0; i < len(s); i++ {
		parts = append(parts, strconv.Itoa(int(s[i])))
	}
	return "[" + strings.Join(parts, "; ") + "]%N"
}

func (t *tr) expr(e ast.Expr, ev *env) (val, error) {
	switch x := e.(type) {
	case *ast.ParenExpr:
		return t.expr(x.X, ev)
	case *ast.BasicLit:
		switch x.Kind {
		case token.INT, token.CHAR, token.FLOAT: // a float literal is accepted when its value is an integer (1e9)
			c := constant.MakeFromLiteral(x.Value, x.Kind, 0)
			c = constant.ToInt(c)
			if c.Kind() != constant.Int {
				return val{}, bad(e, "literal outside the subset")
			}
			return val{ty: Ty{k: kUntyped}, c: c}, nil
		case token.STRING:
			s, err := strconv.Unquote(x.Value)
			if err != nil {
				return val{}, bad(e, "string literal: %v", err)
			}
			return val{code: strLit(s), ty: Ty{k: kString}}, nil
		}
		return val{}, bad(e, "literal outside the subset")
	case *ast.Ident:
		switch x.Name {
		case "true", "false":
			if _, ok := ev.lookup(x.Name); !ok {
				return val{code: x.Name, ty: Ty{k: kBool}}, nil
			}
		case "nil":
			return val{ty: Ty{k: kNil}}, nil
		}
		if ty, ok := ev.lookup(x.Name); ok {
			return val{code: ev.coqOf(x.Name), ty: ty}, nil
		}
		if x.Name == "iota" && t.iota >= 0 {
			return val{ty: Ty{k: kUntyped}, c: constant.MakeInt64(int64(t.iota))}, nil
		}
		if cd, ok := t.pkg.consts[x.Name]; ok {
			// package-level constant: its defining expression is translated in place
			saved := t.iota
			t.iota = cd.iota
			v, err := t.expr(cd.expr, &env{scopes: [][]variable{nil}})
			t.iota = saved
			if err != nil || cd.typ == nil {
				return v, err
			}
			ty, err := t.typeOf(cd.typ)
			if err != nil {
				return val{}, err
			}
			code, err := t.conv(e, v, ty)
			if err != nil {
				return val{}, err
			}
			return val{code: code, ty: ty, c: v.c}, nil
		}
		return val{}, bad(e, "identifier %s is neither a local variable nor a constant of the package", x.Name)
	case *ast.SelectorExpr:
		name := t.selName(x)
		if p, ok := x.X.(*ast.Ident); ok && t.stateRecv != "" && p.Name == t.stateRecv {
			if ty, ok := ev.lookup(p.Name + "." + x.Sel.Name); ok {
				return val{code: ev.coqOf(p.Name + "." + x.Sel.Name), ty: ty}, nil
			}
		}
		if p, ok := x.X.(*ast.Ident); ok {
			if _, isVar := ev.lookup(p.Name); !isVar {
				if c, ok := stdConsts[name]; ok {
					return val{code: c.sym, ty: c.ty, c: constant.MakeInt64(c.val), sym: c.sym}, nil
				}
				if s, ok := stdStrings[name]; ok {
					return val{code: s, ty: Ty{k: kString}}, nil
				}
				return val{}, bad(e, "%s is not in the table of standard-library meanings", name)
			}
		}
		r, err := t.expr(x.X, ev)
		if err != nil {
			return val{}, err
		}
		if r.ty.k == kStat && r.ty.opt {
			return val{}, bad(e, "field read through %s, which is nil here (failed type assertion)", r.code)
		}
		if r.ty.k == kStat {
			if f, ok := statFields[x.Sel.Name]; ok {
				return val{code: "(" + f.coq + " " + r.code + ")", ty: f.ty}, nil
			}
		}
		if r.ty.k == kStruct && r.ty.opt {
			return val{}, bad(e, "field read through %s, which may be nil here (no enclosing `== nil` / `!= nil` test of exactly this variable)", r.code)
		}
		if r.ty.k == kStruct {
			if fty, ok := t.structField(r.ty.name, x.Sel.Name); ok {
				return val{code: "(" + r.ty.name + "_" + x.Sel.Name + " " + r.code + ")", ty: fty}, nil
			}
		}
		return val{}, bad(e, "field %s of %s outside the subset", x.Sel.Name, r.ty)
	case *ast.UnaryExpr:
		a, err := t.expr(x.X, ev)
		if err != nil {
			return val{}, err
		}
		switch x.Op {
		case token.NOT:
			if a.ty.k == kBool {
				return val{code: "(negb " + a.code + ")", ty: a.ty}, nil
			}
		case token.SUB:
			if a.ty.k == kUntyped {
				return val{ty: a.ty, c: constant.UnaryOp(token.SUB, a.c, 0)}, nil
			}
			if a.ty.k == kInt {
				return val{code: "(- " + a.code + ")%Z", ty: a.ty}, nil
			}
		case token.ADD:
			if a.ty.k == kUntyped || a.ty.k == kInt {
				return a, nil
			}
		}
		return val{}, bad(e, "unary %s on %s outside the subset", x.Op, a.ty)
	case *ast.BinaryExpr:
		return t.binary(x, ev)
	case *ast.IndexExpr:
		s, err := t.expr(x.X, ev)
		if err != nil {
			return val{}, err
		}
		i, err := t.expr(x.Index, ev)
		if err != nil {
			return val{}, err
		}
		ic, err := t.conv(x.Index, i, Ty{k: kInt})
		if err != nil {
			return val{}, err
		}
		if s.ty.k == kSlice && t.recordZero[s.ty.name] {
			// s[i] on a slice of structs; out of range (a panic in Go, not modelled) yields the zero value
			return val{code: "(Prims.nth_d " + s.code + " " + ic + " " + s.ty.name + "_zero)", ty: Ty{k: kStruct, name: s.ty.name}}, nil
		}
		if s.ty.k != kString {
			return val{}, bad(e, "indexing of %s outside the subset", s.ty)
		}
		return val{code: "(Prims.idx " + s.code + " " + ic + ")", ty: Ty{k: kUint, bits: 8}}, nil
	case *ast.SliceExpr:
		if x.Slice3 {
			return val{}, bad(e, "3-index slice")
		}
		s, err := t.expr(x.X, ev)
		if err != nil {
			return val{}, err
		}
		if s.ty.k != kString && s.ty.k != kSlice && s.ty.k != kStrSlice {
			return val{}, bad(e, "slicing of %s outside the subset", s.ty)
		}
		sl := "Prims.slice"
		if s.ty.k != kString {
			sl = "Prims.lslice" // the same on lists of any element type
		}
		var lo, hi string
		if x.Low != nil {
			v, err := t.expr(x.Low, ev)
			if err != nil {
				return val{}, err
			}
			if lo, err = t.conv(x.Low, v, Ty{k: kInt}); err != nil {
				return val{}, err
			}
		}
		if x.High != nil {
			v, err := t.expr(x.High, ev)
			if err != nil {
				return val{}, err
			}
			if hi, err = t.conv(x.High, v, Ty{k: kInt}); err != nil {
				return val{}, err
			}
		}
		switch {
		case lo != "" && hi != "":
			return val{code: "(" + sl + " " + s.code + " " + lo + " " + hi + ")", ty: s.ty}, nil
		case lo != "":
			return val{code: "(" + sl + "_from " + s.code + " " + lo + ")", ty: s.ty}, nil
		case hi != "":
			return val{code: "(" + sl + "_to " + s.code + " " + hi + ")", ty: s.ty}, nil
		}
		return s, nil
	case *ast.CallExpr:
		return t.call(x, ev, false)
	case *ast.CompositeLit:
		id, ok := x.Type.(*ast.Ident)
		if !ok {
			return val{}, bad(e, "composite literal of a type outside the subset")
		}
		ty, err := t.typeOf(id)
		if err != nil || ty.k != kStruct {
			return val{}, bad(e, "composite literal of a type outside the subset")
		}
		st := t.pkg.structs[id.Name]
		given := map[string]string{}
		for _, el := range x.Elts {
			kv, ok := el.(*ast.KeyValueExpr)
			if !ok {
				return val{}, bad(el, "positional composite literal")
			}
			k, ok := kv.Key.(*ast.Ident)
			if !ok {
				return val{}, bad(el, "composite literal key")
			}
			fty, ok := t.structField(id.Name, k.Name)
			if !ok {
				return val{}, bad(el, "field %s of %s", k.Name, id.Name)
			}
			v, err := t.expr(kv.Value, ev)
			if err != nil {
				return val{}, err
			}
			c, err := t.conv(kv.Value, v, fty)
			if err != nil {
				return val{}, err
			}
			given[k.Name] = c
		}
		var fs []string
		for _, f := range st.Fields.List {
			fty, _ := t.typeOf(f.Type)
			for _, fn := range f.Names {
				c, ok := given[fn.Name]
				if !ok {
					z, zok := zeroOf(fty)
					if !zok {
						return val{}, bad(e, "field %s left out of the literal has no zero value in the subset", fn.Name)
					}
					c = z
				}
				fs = append(fs, fmt.Sprintf("%s_%s := %s", id.Name, fn.Name, c))
			}
		}
		return val{code: "{| " + strings.Join(fs, "; ") + " |}", ty: ty}, nil
	}
	return val{}, bad(e, "expression form %T outside the subset", e)
}

func (t *tr) binary(x *ast.BinaryExpr, ev *env) (val, error) {
	a, err := t.expr(x.X, ev)
	if err != nil {
		return val{}, err
	}
	b, err := t.expr(x.Y, ev)
	if err != nil {
		return val{}, err
	}
	op := x.Op
	// shifts: the count is any unsigned/untyped value; the result has the type of the left operand
	if op == token.SHL || op == token.SHR {
		var cnt string
		switch {
		case b.ty.k == kUntyped:
			if constant.Sign(b.c) < 0 {
				return val{}, bad(x, "negative shift count")
			}
			cnt = b.c.ExactString() + "%N"
		case b.ty.k == kUint:
			cnt = b.code
		default:
			return val{}, bad(x, "shift count of type %s outside the subset", b.ty)
		}
		if a.ty.k == kUntyped && b.ty.k == kUntyped {
			n, _ := constant.Uint64Val(b.c)
			if n > 4096 {
				return val{}, bad(x, "shift count too large")
			}
			return val{ty: a.ty, c: constant.Shift(a.c, op, uint(n))}, nil
		}
		if a.ty.k != kUint {
			return val{}, bad(x, "shift of %s outside the subset (only unsigned fixed-width operands)", a.ty)
		}
		if op == token.SHR {
			return val{code: "(N.shiftr " + a.code + " " + cnt + ")", ty: a.ty}, nil
		}
		return val{code: fmt.Sprintf("(Prims.wrap %d (N.shiftl %s %s))", a.ty.bits, a.code, cnt), ty: a.ty}, nil
	}
	// both untyped: fold
	if a.ty.k == kUntyped && b.ty.k == kUntyped {
		switch op {
		case token.ADD, token.SUB, token.MUL, token.AND, token.OR, token.XOR, token.AND_NOT:
			return val{ty: a.ty, c: constant.BinaryOp(a.c, op, b.c)}, nil
		case token.QUO:
			if constant.Sign(b.c) == 0 {
				return val{}, bad(x, "constant division by zero")
			}
			return val{ty: a.ty, c: constant.BinaryOp(a.c, token.QUO_ASSIGN, b.c)}, nil
		case token.EQL, token.NEQ, token.LSS, token.LEQ, token.GTR, token.GEQ:
			if constant.Compare(a.c, op, b.c) {
				return val{code: "true", ty: Ty{k: kBool}}, nil
			}
			return val{code: "false", ty: Ty{k: kBool}}, nil
		}
		return val{}, bad(x, "constant operator %s outside the subset", op)
	}
	// operand type
	ty := a.ty
	if ty.k == kUntyped || ty.k == kNil {
		ty = b.ty
	}
	if ty.k == kNil {
		return val{}, bad(x, "nil compared with nil")
	}
	ac, err := t.conv(x.X, a, ty)
	if err != nil {
		return val{}, err
	}
	bc, err := t.conv(x.Y, b, ty)
	if err != nil {
		return val{}, err
	}
	boolT := Ty{k: kBool}
	switch ty.k {
	case kBool:
		switch op {
		case token.LAND:
			return val{code: "(" + ac + " && " + bc + ")%bool", ty: boolT}, nil
		case token.LOR:
			return val{code: "(" + ac + " || " + bc + ")%bool", ty: boolT}, nil
		case token.EQL:
			return val{code: "(Bool.eqb " + ac + " " + bc + ")", ty: boolT}, nil
		case token.NEQ:
			return val{code: "(negb (Bool.eqb " + ac + " " + bc + "))", ty: boolT}, nil
		}
	case kInt:
		switch op {
		case token.ADD:
			return val{code: "(" + ac + " + " + bc + ")%Z", ty: ty}, nil
		case token.SUB:
			return val{code: "(" + ac + " - " + bc + ")%Z", ty: ty}, nil
		case token.MUL:
			return val{code: "(" + ac + " * " + bc + ")%Z", ty: ty}, nil
		case token.QUO: // Go truncates towards zero
			return val{code: "(Z.quot " + ac + " " + bc + ")", ty: ty}, nil
		case token.REM:
			return val{code: "(Z.rem " + ac + " " + bc + ")", ty: ty}, nil
		case token.EQL:
			return val{code: "(" + ac + " =? " + bc + ")%Z", ty: boolT}, nil
		case token.NEQ:
			return val{code: "(negb (" + ac + " =? " + bc + ")%Z)", ty: boolT}, nil
		case token.LSS:
			return val{code: "(" + ac + " <? " + bc + ")%Z", ty: boolT}, nil
		case token.LEQ:
			return val{code: "(" + ac + " <=? " + bc + ")%Z", ty: boolT}, nil
		case token.GTR:
			return val{code: "(" + bc + " <? " + ac + ")%Z", ty: boolT}, nil
		case token.GEQ:
			return val{code: "(" + bc + " <=? " + ac + ")%Z", ty: boolT}, nil
		}
	case kUint:
		w := func(s string) string { return fmt.Sprintf("(Prims.wrap %d %s)", ty.bits, s) }
		switch op {
		case token.ADD:
			return val{code: w("(" + ac + " + " + bc + ")%N"), ty: ty}, nil
		case token.SUB:
			return val{code: fmt.Sprintf("(Prims.usub %d %s %s)", ty.bits, ac, bc), ty: ty}, nil
		case token.MUL:
			return val{code: w("(" + ac + " * " + bc + ")%N"), ty: ty}, nil
		case token.QUO:
			return val{code: "(N.div " + ac + " " + bc + ")", ty: ty}, nil
		case token.REM:
			return val{code: "(N.modulo " + ac + " " + bc + ")", ty: ty}, nil
		case token.AND:
			return val{code: "(N.land " + ac + " " + bc + ")", ty: ty}, nil
		case token.OR:
			return val{code: "(N.lor " + ac + " " + bc + ")", ty: ty}, nil
		case token.XOR:
			return val{code: "(N.lxor " + ac + " " + bc + ")", ty: ty}, nil
		case token.AND_NOT:
			return val{code: "(N.ldiff " + ac + " " + bc + ")", ty: ty}, nil
		case token.EQL:
			return val{code: "(N.eqb " + ac + " " + bc + ")", ty: boolT}, nil
		case token.NEQ:
			return val{code: "(negb (N.eqb " + ac + " " + bc + "))", ty: boolT}, nil
		case token.LSS:
			return val{code: "(N.ltb " + ac + " " + bc + ")", ty: boolT}, nil
		case token.LEQ:
			return val{code: "(N.leb " + ac + " " + bc + ")", ty: boolT}, nil
		case token.GTR:
			return val{code: "(N.ltb " + bc + " " + ac + ")", ty: boolT}, nil
		case token.GEQ:
			return val{code: "(N.leb " + bc + " " + ac + ")", ty: boolT}, nil
		}
	case kI64:
		// two's complement in N; arithmetic through the signed value, wrapped back to 64 bits (Prims.i64_*)
		switch op {
		case token.EQL:
			return val{code: "(N.eqb " + ac + " " + bc + ")", ty: boolT}, nil
		case token.NEQ:
			return val{code: "(negb (N.eqb " + ac + " " + bc + "))", ty: boolT}, nil
		case token.ADD:
			return val{code: "(Prims.i64_add " + ac + " " + bc + ")", ty: ty}, nil
		case token.SUB:
			return val{code: "(Prims.i64_sub " + ac + " " + bc + ")", ty: ty}, nil
		case token.MUL:
			return val{code: "(Prims.i64_mul " + ac + " " + bc + ")", ty: ty}, nil
		case token.QUO: // truncates towards zero
			return val{code: "(Prims.i64_quot " + ac + " " + bc + ")", ty: ty}, nil
		case token.REM: // sign of the dividend
			return val{code: "(Prims.i64_rem " + ac + " " + bc + ")", ty: ty}, nil
		case token.LSS:
			return val{code: "(Prims.i64_ltb " + ac + " " + bc + ")", ty: boolT}, nil
		case token.LEQ:
			return val{code: "(Prims.i64_leb " + ac + " " + bc + ")", ty: boolT}, nil
		case token.GTR:
			return val{code: "(Prims.i64_ltb " + bc + " " + ac + ")", ty: boolT}, nil
		case token.GEQ:
			return val{code: "(Prims.i64_leb " + bc + " " + ac + ")", ty: boolT}, nil
		}
	case kStrSet:
		// m == nil: nil and empty maps are not distinguished (a write to a nil map panics in Go: not modelled)
		if a.ty.k == kNil || b.ty.k == kNil {
			e := ac
			if a.ty.k == kNil {
				e = bc
			}
			switch op {
			case token.EQL:
				return val{code: "(Prims.map_is_nil " + e + ")", ty: boolT}, nil
			case token.NEQ:
				return val{code: "(negb (Prims.map_is_nil " + e + "))", ty: boolT}, nil
			}
		}
	case kSlice, kStrSlice:
		// s == nil: nil and empty slices are not distinguished by the representation (README)
		if a.ty.k == kNil || b.ty.k == kNil {
			e := ac
			if a.ty.k == kNil {
				e = bc
			}
			switch op {
			case token.EQL:
				return val{code: "(Prims.slice_is_nil " + e + ")", ty: boolT}, nil
			case token.NEQ:
				return val{code: "(negb (Prims.slice_is_nil " + e + "))", ty: boolT}, nil
			}
		}
	case kError:
		// only comparison with nil
		if a.ty.k == kNil || b.ty.k == kNil {
			e := ac
			if a.ty.k == kNil {
				e = bc
			}
			switch op {
			case token.EQL:
				return val{code: "(Prims.err_is_nil " + e + ")", ty: boolT}, nil
			case token.NEQ:
				return val{code: "(negb (Prims.err_is_nil " + e + "))", ty: boolT}, nil
			}
		}
	case kString:
		switch op {
		case token.ADD:
			return val{code: "(" + ac + " ++ " + bc + ")", ty: ty}, nil
		case token.EQL:
			return val{code: "(Prims.bytes_eqb " + ac + " " + bc + ")", ty: boolT}, nil
		case token.NEQ:
			return val{code: "(negb (Prims.bytes_eqb " + ac + " " + bc + "))", ty: boolT}, nil
		case token.LSS:
			return val{code: "(Prims.bytes_ltb " + ac + " " + bc + ")", ty: boolT}, nil
		case token.LEQ:
			return val{code: "(Prims.bytes_leb " + ac + " " + bc + ")", ty: boolT}, nil
		case token.GTR:
			return val{code: "(Prims.bytes_ltb " + bc + " " + ac + ")", ty: boolT}, nil
		case token.GEQ:
			return val{code: "(Prims.bytes_leb " + bc + " " + ac + ")", ty: boolT}, nil
		}
	}
	return val{}, bad(x, "operator %s on %s outside the subset", op, ty)
}

// isOptCall: e is directly a call of a translated function that returns option
func (t *tr) isOptCall(e ast.Expr, ev *env) bool {
	c, ok := e.(*ast.CallExpr)
	if !ok {
		return false
	}
	if t.selName(c.Fun) == "sort.Search" {
		_, isVar := ev.lookup("sort")
		return !isVar
	}
	id, ok := c.Fun.(*ast.Ident)
	if !ok {
		return false
	}
	if _, isVar := ev.lookup(id.Name); isVar {
		return false
	}
	f, ok := t.funcs[t.dir+":"+id.Name]
	return ok && f.opt
}

// closure translates a func literal that is passed directly to a higher-order function of Src/Prims.v
// (it cannot escape): parameters of the given types, one result; it may read the variables around it but
// not assign them, and contains no loop.  The Gallina function returns option (None = a loop function
// called inside ran out of fuel).
func (t *tr) closure(fl *ast.FuncLit, ev *env, params []Ty, res Ty, d int) (string, error) {
	var names []*ast.Ident
	for _, f := range fl.Type.Params.List {
		ty, err := t.typeOf(f.Type)
		if err != nil {
			return "", err
		}
		for _, n := range f.Names {
			if len(names) >= len(params) || !ty.eq(params[len(names)]) {
				return "", bad(fl, "func literal: parameter types")
			}
			names = append(names, n)
		}
	}
	if len(names) != len(params) || fl.Type.Results == nil || len(fl.Type.Results.List) != 1 || len(fl.Type.Results.List[0].Names) != 0 {
		return "", bad(fl, "func literal: signature")
	}
	if rty, err := t.typeOf(fl.Type.Results.List[0].Type); err != nil || !rty.eq(res) {
		return "", bad(fl, "func literal: result type")
	}
	local := map[string]bool{}
	for _, n := range names {
		local[n.Name] = true
	}
	var perr error
	ast.Inspect(fl.Body, func(m ast.Node) bool {
		switch s := m.(type) {
		case *ast.ForStmt, *ast.RangeStmt, *ast.FuncLit, *ast.GoStmt, *ast.DeferStmt:
			perr = bad(m, "loop, nested func literal, go or defer inside a func literal")
		case *ast.AssignStmt:
			for _, l := range s.Lhs {
				id, ok := l.(*ast.Ident)
				if !ok {
					perr = bad(s, "memory write inside a func literal")
				} else if s.Tok == token.DEFINE {
					local[id.Name] = true
				} else if !local[id.Name] {
					perr = bad(s, "func literal assigns %s, a variable of the enclosing function", id.Name)
				}
			}
		case *ast.IncDecStmt:
			if id, ok := s.X.(*ast.Ident); !ok || !local[id.Name] {
				perr = bad(s, "func literal modifies a variable of the enclosing function")
			}
		}
		return true
	})
	if perr != nil {
		return "", perr
	}
	cev := ev.clone()
	cev.push()
	binders := ""
	for i, n := range names {
		if err := cev.declare(n, n.Name, params[i]); err != nil {
			return "", err
		}
		b := "_"
		if n.Name != "_" {
			b = cev.coqOf(n.Name)
		}
		binders += fmt.Sprintf(" (%s : %s)", b, params[i].coq())
	}
	savedCur := t.cur
	t.cur = &funcSig{name: "func literal", params: params, res: []Ty{res}, opt: true}
	c := &ctx{ret: func(code string) string { return "Some (" + code + ")" }, oof: "None"}
	body, err := t.stmts(fl.Body.List, c, cev, d+1)
	t.cur = savedCur
	if err != nil {
		return "", err
	}
	return fmt.Sprintf("(fun%s =>\n%s)", binders, body), nil
}

// callMulti: a call of a translated or external function with several results; code is a tuple
func (t *tr) callMulti(x *ast.CallExpr, ev *env) (string, []Ty, bool, error) {
	id, ok := x.Fun.(*ast.Ident)
	if !ok {
		return "", nil, false, nil
	}
	if _, isVar := ev.lookup(id.Name); isVar {
		return "", nil, false, nil
	}
	var params, res []Ty
	name := ""
	if ex, ok := t.externs[id.Name]; ok {
		params, res, name = ex.params, ex.res, ident(id.Name)
	} else if sig, ok := t.funcs[t.dir+":"+id.Name]; ok && !sig.opt {
		params, res, name = sig.params, sig.res, sig.name
	} else {
		return "", nil, false, nil
	}
	if len(res) < 2 {
		return "", nil, false, nil
	}
	if len(params) != len(x.Args) || x.Ellipsis != token.NoPos {
		return "", nil, false, bad(x, "argument count")
	}
	code := "(" + name
	for i, a := range x.Args {
		v, err := t.expr(a, ev)
		if err != nil {
			return "", nil, false, err
		}
		c, err := t.conv(a, v, params[i])
		if err != nil {
			return "", nil, false, err
		}
		code += " " + c
	}
	return code + ")", res, true, nil
}

func (t *tr) call(x *ast.CallExpr, ev *env, allowOpt bool) (val, error) {
	// filepath.Join(a, b, ..) and filepath.Join(s...): the list of elements
	if t.selName(x.Fun) == "filepath.Join" {
		if _, isVar := ev.lookup("filepath"); !isVar {
			if x.Ellipsis != token.NoPos {
				if len(x.Args) != 1 {
					return val{}, bad(x, "variadic call")
				}
				v, err := t.expr(x.Args[0], ev)
				if err != nil {
					return val{}, err
				}
				if v.ty.k != kStrSlice {
					return val{}, bad(x, "filepath.Join(x...) with x of type %s", v.ty)
				}
				return val{code: "(Prims.filepath_Join " + v.code + ")", ty: Ty{k: kString}}, nil
			}
			var parts []string
			for _, a := range x.Args {
				v, err := t.expr(a, ev)
				if err != nil {
					return val{}, err
				}
				if v.ty.k != kString {
					return val{}, bad(a, "filepath.Join argument of type %s", v.ty)
				}
				parts = append(parts, v.code)
			}
			return val{code: "(Prims.filepath_Join [" + strings.Join(parts, "; ") + "])", ty: Ty{k: kString}}, nil
		}
	}
	if x.Ellipsis != token.NoPos {
		return val{}, bad(x, "variadic call")
	}
	args := func(params []Ty) (string, error) {
		if len(params) != len(x.Args) {
			return "", bad(x, "argument count")
		}
		s := ""
		for i, a := range x.Args {
			v, err := t.expr(a, ev)
			if err != nil {
				return "", err
			}
			c, err := t.conv(a, v, params[i])
			if err != nil {
				return "", err
			}
			s += " " + c
		}
		return s, nil
	}
	switch f := x.Fun.(type) {
	case *ast.Ident:
		if _, isVar := ev.lookup(f.Name); isVar {
			return val{}, bad(x, "call of a function value")
		}
		if ex, ok := t.externs[f.Name]; ok {
			if len(ex.res) != 1 {
				return val{}, bad(x, "call of multi-result function %s inside an expression", f.Name)
			}
			a, err := args(ex.params)
			if err != nil {
				return val{}, err
			}
			return val{code: "(" + ident(f.Name) + a + ")", ty: ex.res[0]}, nil
		}
		if sig, ok := t.funcs[t.dir+":"+f.Name]; ok {
			if sig.opt && !allowOpt {
				// a loop function called inside an expression: its call is bound in front of the statement
				// (the function is total apart from running out of fuel, so evaluating it early — even where
				// Go's && / || would skip it — changes nothing but a None into a None)
				if t.noHoist || len(sig.res) != 1 {
					return val{}, bad(x, "call of loop function %s inside a loop condition", f.Name)
				}
				a, err := args(sig.params)
				if err != nil {
					return val{}, err
				}
				t.nhoist++
				v := fmt.Sprintf("c__%d", t.nhoist)
				t.hoisted = append(t.hoisted, [2]string{"(" + sig.name + a + ")", v})
				return val{code: v, ty: sig.res[0]}, nil
			}
			if len(sig.res) != 1 {
				return val{}, bad(x, "call of multi-result function %s", f.Name)
			}
			a, err := args(sig.params)
			if err != nil {
				return val{}, err
			}
			return val{code: "(" + sig.name + a + ")", ty: sig.res[0]}, nil
		}
		switch f.Name {
		case "len":
			if len(x.Args) != 1 {
				return val{}, bad(x, "len arity")
			}
			v, err := t.expr(x.Args[0], ev)
			if err != nil {
				return val{}, err
			}
			switch v.ty.k {
			case kString:
				return val{code: "(Prims.len " + v.code + ")", ty: Ty{k: kInt}}, nil
			case kStrSlice, kSlice:
				return val{code: "(Prims.slen " + v.code + ")", ty: Ty{k: kInt}}, nil
			}
			return val{}, bad(x, "len of %s", v.ty)
		case "append":
			if len(x.Args) != 2 {
				return val{}, bad(x, "append with %d arguments", len(x.Args))
			}
			s, err := t.expr(x.Args[0], ev)
			if err != nil {
				return val{}, err
			}
			e, err := t.expr(x.Args[1], ev)
			if err != nil {
				return val{}, err
			}
			if s.ty.k == kStrSlice && e.ty.k == kString {
				return val{code: "(" + s.code + " ++ [" + e.code + "])", ty: s.ty}, nil
			}
			if s.ty.k == kSlice && e.ty.k == kStruct && e.ty.name == s.ty.name && !e.ty.opt {
				return val{code: "(" + s.code + " ++ [" + e.code + "])", ty: s.ty}, nil
			}
			return val{}, bad(x, "append on %s", s.ty)
		case "make":
			if len(x.Args) >= 1 {
				if ty, err := t.typeOf(x.Args[0]); err == nil && ty.k == kStrSet {
					return val{code: "(@nil (list N))", ty: ty}, nil // the empty map (a size hint is irrelevant)
				}
			}
			if len(x.Args) >= 2 {
				ty, err := t.typeOf(x.Args[0])
				if err != nil {
					return val{}, err
				}
				n, err := t.expr(x.Args[1], ev)
				if err != nil {
					return val{}, err
				}
				if ty.k == kStrSlice && n.ty.k == kUntyped && constant.Sign(n.c) == 0 {
					return val{code: "(@nil (list N))", ty: ty}, nil
				}
				if ty.k == kSlice && t.recordZero[ty.name] {
					// make([]T, n[, cap]): n zero values
					nc, err := t.conv(x.Args[1], n, Ty{k: kInt})
					if err != nil {
						return val{}, err
					}
					return val{code: "(Prims.make_slice " + nc + " " + ty.name + "_zero)", ty: ty}, nil
				}
			}
			return val{}, bad(x, "make outside the subset (only make([]string, 0[, cap]))")
		case "string", "byte", "uint8", "uint16", "uint32", "uint64", "int":
			if len(x.Args) != 1 {
				return val{}, bad(x, "conversion arity")
			}
			to, _ := t.typeOf(f)
			v, err := t.expr(x.Args[0], ev)
			if err != nil {
				return val{}, err
			}
			return t.convert(x, v, to)
		}
		return val{}, bad(x, "call of %s, which is not whitelisted", f.Name)
	case *ast.SelectorExpr:
		name := t.selName(f)
		if p, ok := f.X.(*ast.Ident); ok {
			if _, isVar := ev.lookup(p.Name); !isVar {
				if name == "os.FileMode" && len(x.Args) == 1 {
					v, err := t.expr(x.Args[0], ev)
					if err != nil {
						return val{}, err
					}
					r, err := t.convert(x, v, Ty{k: kUint, bits: 32})
					r.ty.name = "os.FileMode"
					return r, err
				}
				switch name {
				case "sort.Search":
					// sort.Search(n, func(i int) bool {..}): Go's binary search itself (Prims.sort_Search), the
					// predicate translated as a function to option bool
					if len(x.Args) != 2 {
						return val{}, bad(x, "sort.Search arity")
					}
					fl, ok := x.Args[1].(*ast.FuncLit)
					if !ok {
						return val{}, bad(x, "sort.Search with a predicate that is not a func literal")
					}
					nv, err := t.expr(x.Args[0], ev)
					if err != nil {
						return val{}, err
					}
					nc, err := t.conv(x.Args[0], nv, Ty{k: kInt})
					if err != nil {
						return val{}, err
					}
					cl, err := t.closure(fl, ev, []Ty{{k: kInt}}, Ty{k: kBool}, 2)
					if err != nil {
						return val{}, err
					}
					code := "(Prims.sort_Search " + nc + " " + cl + ")"
					if allowOpt {
						return val{code: code, ty: Ty{k: kInt}}, nil
					}
					if t.noHoist {
						return val{}, bad(x, "sort.Search inside a loop condition")
					}
					t.nhoist++
					v := fmt.Sprintf("c__%d", t.nhoist)
					t.hoisted = append(t.hoisted, [2]string{code, v})
					return val{code: v, ty: Ty{k: kInt}}, nil
				case "errors.Errorf", "errors.New":
					// a non-nil error; its text is not modelled (the arguments are not looked at)
					return val{code: "Prims.some_error", ty: Ty{k: kError}}, nil
				case "errors.WithStack", "errors.Wrap", "errors.Wrapf", "errors.WithMessage":
					// nil for nil, otherwise a non-nil error
					if len(x.Args) < 1 {
						return val{}, bad(x, "%s arity", name)
					}
					if u, ok := x.Args[0].(*ast.UnaryExpr); ok && u.Op == token.AND {
						if _, ok := u.X.(*ast.CompositeLit); ok {
							return val{code: "Prims.some_error", ty: Ty{k: kError}}, nil // &T{..} is never nil
						}
					}
					v, err := t.expr(x.Args[0], ev)
					if err != nil {
						return val{}, err
					}
					if v.ty.k != kError {
						return val{}, bad(x, "%s of a value of type %s", name, v.ty)
					}
					return val{code: "(Prims.errors_WithStack " + v.code + ")", ty: Ty{k: kError}}, nil
				}
				sf, ok := stdFuncs[name]
				if !ok {
					return val{}, bad(x, "%s is not in the table of standard-library meanings", name)
				}
				a, err := args(sf.params)
				if err != nil {
					return val{}, err
				}
				return val{code: "(" + sf.sym + a + ")", ty: sf.res}, nil
			}
		}
		r, err := t.expr(f.X, ev)
		if err != nil {
			return val{}, err
		}
		if r.ty.k == kFileInfo && f.Sel.Name == "IsDir" && len(x.Args) == 0 {
			return val{code: "(Prims.fi_IsDir " + r.code + ")", ty: Ty{k: kBool}}, nil
		}
		if r.ty.k == kFileInfo && f.Sel.Name == "Mode" && len(x.Args) == 0 {
			return val{code: "(Prims.fi_Mode " + r.code + ")", ty: Ty{k: kUint, bits: 32, name: "os.FileMode"}}, nil
		}
		if r.ty.k == kUint && r.ty.name == "os.FileMode" && f.Sel.Name == "IsDir" && len(x.Args) == 0 {
			return val{code: "(Prims.FileMode_IsDir " + r.code + ")", ty: Ty{k: kBool}}, nil
		}
		recvName := ""
		switch r.ty.k {
		case kStat:
			recvName = "Stat"
		case kStruct:
			recvName = r.ty.name
		}
		if recvName != "" {
			if sig, ok := t.funcs[recvName+"."+f.Sel.Name]; ok && len(sig.res) == 1 && !sig.opt && len(sig.params) == 1+len(x.Args) {
				a, err := args(sig.params[1:])
				if err != nil {
					return val{}, err
				}
				return val{code: "(" + sig.name + " " + r.code + a + ")", ty: sig.res[0]}, nil
			}
		}
		if r.ty.k == kPattern && f.Sel.Name == "String" && len(x.Args) == 0 {
			return val{code: "(Prims.Pattern_String " + r.code + ")", ty: Ty{k: kString}}, nil
		}
		return val{}, bad(x, "method %s on %s outside the subset", f.Sel.Name, r.ty)
	}
	return val{}, bad(x, "call form outside the subset")
}

// explicit conversions T(v)
func (t *tr) convert(n ast.Node, v val, to Ty) (val, error) {
	switch to.k {
	case kString:
		// string(c) for a constant c < 128: the one-byte string (UTF-8 of an ASCII rune)
		if v.c != nil && constant.Sign(v.c) >= 0 && constant.Compare(v.c, token.LSS, constant.MakeInt64(128)) {
			if v.sym != "" {
				return val{code: "[" + v.sym + "]", ty: to}, nil
			}
			return val{code: "[" + v.c.ExactString() + "%N]", ty: to}, nil
		}
		if v.ty.k == kString {
			return v, nil
		}
		return val{}, bad(n, "string(x) only for strings and constants below 128 (other values need UTF-8 encoding)")
	case kInt:
		switch v.ty.k {
		case kUntyped:
			c, err := t.conv(n, v, to)
			return val{code: c, ty: to}, err
		case kInt:
			return v, nil
		case kUint:
			if v.ty.bits < 64 {
				return val{code: "(Z.of_N " + v.code + ")", ty: to}, nil
			}
			return val{code: "(Prims.u_to_int " + v.code + ")", ty: to}, nil
		}
	case kUint:
		switch v.ty.k {
		case kUntyped:
			c, err := t.conv(n, v, to)
			return val{code: c, ty: to}, err
		case kUint:
			if v.ty.bits <= to.bits {
				return val{code: v.code, ty: to}, nil
			}
			return val{code: fmt.Sprintf("(Prims.wrap %d %s)", to.bits, v.code), ty: to}, nil
		case kInt:
			return val{code: fmt.Sprintf("(Prims.z_to_u %d %s)", to.bits, v.code), ty: to}, nil
		case kI64:
			if to.bits == 64 {
				return val{code: v.code, ty: to}, nil
			}
			return val{code: fmt.Sprintf("(Prims.wrap %d %s)", to.bits, v.code), ty: to}, nil
		}
	}
	return val{}, bad(n, "conversion of %s to %s outside the subset", v.ty, to)
}

// ---------------------------------------------------------------- statements

type popScope struct{ *ast.EmptyStmt } // marker: leave the innermost scope

type ctx struct {
	ret      func(code string) string // code of `return <code>` (code already packed as a tuple)
	oof      string                   // value when a loop runs out of fuel
	fall     string                   // code when control falls off the end ("" = not allowed)
	cont     string                   // `continue` ("" = not inside a loop)
	brk      string                   // `break`
	inSwitch bool                     // an unlabeled break would leave a switch: outside the subset
	label    string                   // label of the loop this body belongs to
	outerLbl string                   // label of the loop around the current loop (for labeled jumps, one level)
	nlCont   string                   // code of `continue outerLbl`
	nlBrk    string                   // code of `break outerLbl`
}

func (t *tr) pos(n ast.Node) string {
	p := t.fset.Position(n.Pos())
	return fmt.Sprintf("%s:%d", filepath.Base(p.Filename), p.Line)
}

func ind(n int) string { return strings.Repeat("  ", n) }

func concat(a []ast.Stmt, b ...[]ast.Stmt) []ast.Stmt {
	out := append([]ast.Stmt(nil), a...)
	for _, x := range b {
		out = append(out, x...)
	}
	return out
}

var popMark = []ast.Stmt{popScope{&ast.EmptyStmt{}}}

// stmts translates a statement list into one Gallina expression.  The code after an if/switch
// is duplicated into the branches that can reach it (no join points: mutation = shadowing let).
func (t *tr) stmts(list []ast.Stmt, c *ctx, ev *env, d int) (string, error) {
	saved := t.hoisted
	t.hoisted = nil
	code, err := t.stmts1(list, c, ev, d)
	hs := t.hoisted
	t.hoisted = saved
	if err != nil {
		return "", err
	}
	for i := len(hs) - 1; i >= 0; i-- {
		code = ind(d) + "match " + hs[i][0] + " with None => " + c.oof + " | Some " + hs[i][1] + " =>\n" + code + "\n" + ind(d) + "end"
	}
	return code, nil
}

func (t *tr) stmts1(list []ast.Stmt, c *ctx, ev *env, d int) (string, error) {
	if len(list) == 0 {
		if c.fall == "" {
			return "", &untranslatable{token.NoPos, "control reaches the end of the function without return"}
		}
		return ind(d) + c.fall, nil
	}
	s, rest := list[0], list[1:]
	switch x := s.(type) {
	case popScope:
		ev.pop()
		return t.stmts(rest, c, ev, d)
	case ctxSwitch:
		return t.stmts(rest, x.c, ev, d)
	case *ast.EmptyStmt:
		return t.stmts(rest, c, ev, d)
	case *ast.BlockStmt:
		ev.push()
		return t.stmts(concat(x.List, popMark, rest), c, ev, d)
	case *ast.LabeledStmt:
		switch x.Stmt.(type) {
		case *ast.ForStmt, *ast.RangeStmt:
			return t.loop(x.Stmt, x.Label.Name, rest, c, ev, d)
		}
		return "", bad(x, "label on a non-loop statement")
	case *ast.ReturnStmt:
		if len(x.Results) == 1 && len(t.cur.res) > 1 {
			if ce, ok := x.Results[0].(*ast.CallExpr); ok {
				code, res, ok, err := t.callMulti(ce, ev)
				if err != nil {
					return "", err
				}
				if ok && len(res) == len(t.cur.res) {
					for i := range res {
						if !res[i].eq(t.cur.res[i]) {
							return "", bad(x, "type mismatch in return")
						}
					}
					return ind(d) + c.ret(code), nil
				}
			}
		}
		if len(x.Results) != len(t.cur.res) {
			return "", bad(x, "return with %d values in a function with %d results (a bare return of named results is outside the subset)", len(x.Results), len(t.cur.res))
		}
		if len(x.Results) == 1 && t.isOptCall(x.Results[0], ev) {
			v, err := t.call(x.Results[0].(*ast.CallExpr), ev, true)
			if err != nil {
				return "", err
			}
			if !v.ty.eq(t.cur.res[0]) {
				return "", bad(x, "type mismatch in return")
			}
			return fmt.Sprintf("%smatch %s with\n%s| None => %s\n%s| Some r__ => %s\n%send", ind(d), v.code, ind(d), c.oof, ind(d), c.ret("r__"), ind(d)), nil
		}
		var parts []string
		for i, r := range x.Results {
			v, err := t.expr(r, ev)
			if err != nil {
				return "", err
			}
			code, err := t.conv(r, v, t.cur.res[i])
			if err != nil {
				return "", err
			}
			parts = append(parts, code)
		}
		code := parts[0]
		if len(parts) > 1 {
			code = "(" + strings.Join(parts, ", ") + ")"
		}
		return ind(d) + c.ret(code), nil
	case *ast.BranchStmt:
		switch x.Tok {
		case token.CONTINUE:
			if x.Label != nil && x.Label.Name != c.label {
				if x.Label.Name == c.outerLbl && c.nlCont != "" {
					return ind(d) + c.nlCont, nil
				}
				return "", bad(x, "continue to label %s (only the current loop or the loop immediately around it)", x.Label.Name)
			}
			if c.cont == "" {
				return "", bad(x, "continue outside a loop")
			}
			return ind(d) + c.cont, nil
		case token.BREAK:
			if x.Label != nil && x.Label.Name != c.label {
				if x.Label.Name == c.outerLbl && c.nlBrk != "" {
					return ind(d) + c.nlBrk, nil
				}
				return "", bad(x, "break to label %s (only the current loop or the loop immediately around it)", x.Label.Name)
			}
			if x.Label == nil && c.inSwitch {
				return "", bad(x, "unlabeled break inside a switch")
			}
			if c.brk == "" {
				return "", bad(x, "break outside a loop")
			}
			return ind(d) + c.brk, nil
		}
		return "", bad(x, "%s outside the subset", x.Tok)
	case *ast.IncDecStmt:
		op := token.ADD
		if x.Tok == token.DEC {
			op = token.SUB
		}
		id, ok := x.X.(*ast.Ident)
		if !ok && t.stateRecv != "" {
			// a place inside the receiver of a state transformer: x++  is  x = x + 1
			as := &ast.AssignStmt{Lhs: []ast.Expr{x.X}, TokPos: x.TokPos, Tok: token.ASSIGN,
				Rhs: []ast.Expr{&ast.BinaryExpr{X: x.X, OpPos: x.TokPos, Op: op, Y: &ast.BasicLit{ValuePos: x.TokPos, Kind: token.INT, Value: "1"}}}}
			return t.stmts(concat([]ast.Stmt{as}, rest), c, ev, d)
		}
		if !ok {
			return "", bad(x, "++/-- on a non-variable")
		}
		be := &ast.BinaryExpr{X: id, OpPos: x.TokPos, Op: op, Y: &ast.BasicLit{ValuePos: x.TokPos, Kind: token.INT, Value: "1"}}
		return t.assign(x, id, be, false, rest, c, ev, d)
	case *ast.AssignStmt:
		if len(x.Lhs) == 2 && len(x.Rhs) == 1 && x.Tok == token.DEFINE {
			v0, ok0 := x.Lhs[0].(*ast.Ident)
			v1, ok1 := x.Lhs[1].(*ast.Ident)
			// _, ok := m[k] on a set
			if ie, ok := x.Rhs[0].(*ast.IndexExpr); ok && ok0 && ok1 {
				m, err := t.expr(ie.X, ev)
				if err != nil {
					return "", err
				}
				if m.ty.k == kStrSet {
					if v0.Name != "_" {
						return "", bad(x, "the value of a map[string]struct{} element")
					}
					kv, err := t.expr(ie.Index, ev)
					if err != nil {
						return "", err
					}
					kc, err := t.conv(ie.Index, kv, Ty{k: kString})
					if err != nil {
						return "", err
					}
					if inTop(ev, v1.Name) {
						return "", bad(x, "%s redeclared", v1.Name)
					}
					if err := ev.declare(x, v1.Name, Ty{k: kBool}); err != nil {
						return "", err
					}
					r, err := t.stmts(rest, c, ev, d)
					if err != nil {
						return "", err
					}
					if v1.Name == "_" {
						return r, nil
					}
					return fmt.Sprintf("%slet %s := (Prims.set_mem %s %s) in\n%s", ind(d), ev.coqOf(v1.Name), kc, m.code, r), nil
				}
			}
			// stat, ok := fi.Sys().(*types.Stat): a match on the Sys field of the FileInfo record; where the
			// assertion fails ok is false and stat is nil (any use of it there is untranslatable)
			if ta, ok := x.Rhs[0].(*ast.TypeAssertExpr); ok && ok0 && ok1 && ta.Type != nil {
				aty, err := t.typeOf(ta.Type)
				ce, isCall := ta.X.(*ast.CallExpr)
				if err == nil && aty.k == kStat && isCall && len(ce.Args) == 0 {
					if se, ok := ce.Fun.(*ast.SelectorExpr); ok && se.Sel.Name == "Sys" {
						fv, err := t.expr(se.X, ev)
						if err != nil {
							return "", err
						}
						if fv.ty.k == kFileInfo && v0.Name != "_" && v1.Name != "_" && !inTop(ev, v0.Name) && !inTop(ev, v1.Name) {
							evS, evN := ev.clone(), ev.clone()
							for _, e2 := range []*env{evS, evN} {
								if err := e2.declare(x, v0.Name, Ty{k: kStat, opt: e2 == evN}); err != nil {
									return "", err
								}
								if err := e2.declare(x, v1.Name, Ty{k: kBool}); err != nil {
									return "", err
								}
							}
							evS.setKnown(v1.Name, 1)
							evN.setKnown(v1.Name, 2)
							a, err := t.stmts(rest, c, evS, d+1)
							if err != nil {
								return "", err
							}
							b, err := t.stmts(rest, c, evN, d+1)
							if err != nil {
								return "", err
							}
							return fmt.Sprintf("%smatch (Prims.fi_Sys %s) with\n%s| Some %s =>\n%s  let %s := true in\n%s\n%s| None =>\n%s  let %s := false in\n%s\n%send",
								ind(d), fv.code, ind(d), evS.coqOf(v0.Name), ind(d), evS.coqOf(v1.Name), a, ind(d), ind(d), evN.coqOf(v1.Name), b, ind(d)), nil
						}
					}
				}
				return "", bad(x, "type assertion outside the subset (only x, ok := fi.Sys().(*types.Stat))")
			}
		}
		if len(x.Lhs) > 1 && len(x.Rhs) == 1 && (x.Tok == token.DEFINE || x.Tok == token.ASSIGN) {
			if ce, ok := x.Rhs[0].(*ast.CallExpr); ok {
				code, res, ok, err := t.callMulti(ce, ev)
				if err != nil {
					return "", err
				}
				if ok && len(res) == len(x.Lhs) {
					var pats []string
					for i, l := range x.Lhs {
						id, ok := l.(*ast.Ident)
						if !ok {
							return "", bad(x, "assignment to a non-variable (memory writes are outside the subset)")
						}
						if id.Name == "_" {
							pats = append(pats, "_")
							continue
						}
						if old, ok := ev.lookup(id.Name); ok && (x.Tok == token.ASSIGN || inTop(ev, id.Name)) {
							if !old.eq(res[i]) {
								return "", bad(x, "type mismatch in assignment to %s", id.Name)
							}
						} else if x.Tok == token.ASSIGN {
							return "", bad(x, "assignment to %s, which is not a local variable", id.Name)
						} else if err := ev.declare(x, id.Name, res[i]); err != nil {
							return "", err
						}
						pats = append(pats, ev.coqOf(id.Name))
					}
					r, err := t.stmts(rest, c, ev, d)
					if err != nil {
						return "", err
					}
					return fmt.Sprintf("%slet '(%s) := %s in\n%s", ind(d), strings.Join(pats, ", "), code, r), nil
				}
			}
		}
		if len(x.Lhs) != 1 || len(x.Rhs) != 1 {
			return "", bad(x, "multiple assignment outside the subset")
		}
		id, ok := x.Lhs[0].(*ast.Ident)
		if !ok && t.stateRecv != "" && x.Tok == token.ASSIGN {
			// a write into the receiver of a state-transformer method: the field variable is rebuilt
			if ie, ok := x.Lhs[0].(*ast.IndexExpr); ok {
				if m, err := t.expr(ie.X, ev); err == nil && m.ty.k == kStrSet {
					cl, ok := x.Rhs[0].(*ast.CompositeLit)
					if st, ok2 := func() (*ast.StructType, bool) {
						if !ok {
							return nil, false
						}
						s, ok := cl.Type.(*ast.StructType)
						return s, ok
					}(); !ok2 || (st.Fields != nil && len(st.Fields.List) != 0) || len(cl.Elts) != 0 {
						return "", bad(x, "value stored in a map[string]struct{} is not struct{}{}")
					}
					pseudo, code, err := t.stateLhs(x.Lhs[0], "", ev)
					if err != nil {
						return "", err
					}
					r, err := t.stmts(rest, c, ev, d)
					if err != nil {
						return "", err
					}
					return fmt.Sprintf("%slet %s := %s in\n%s", ind(d), ev.coqOf(pseudo), code, r), nil
				}
			}
			lt, err := t.expr(x.Lhs[0], ev)
			if err != nil {
				return "", err
			}
			rv, err := t.expr(x.Rhs[0], ev)
			if err != nil {
				return "", err
			}
			rc, err := t.conv(x.Rhs[0], rv, lt.ty)
			if err != nil {
				return "", err
			}
			pseudo, code, err := t.stateLhs(x.Lhs[0], rc, ev)
			if err != nil {
				return "", err
			}
			r, err := t.stmts(rest, c, ev, d)
			if err != nil {
				return "", err
			}
			return fmt.Sprintf("%slet %s := %s in\n%s", ind(d), ev.coqOf(pseudo), code, r), nil
		}
		if !ok {
			return "", bad(x, "assignment to a non-variable (memory writes are outside the subset)")
		}
		switch x.Tok {
		case token.DEFINE:
			return t.assign(x, id, x.Rhs[0], true, rest, c, ev, d)
		case token.ASSIGN:
			return t.assign(x, id, x.Rhs[0], false, rest, c, ev, d)
		}
		ops := map[token.Token]token.Token{token.ADD_ASSIGN: token.ADD, token.SUB_ASSIGN: token.SUB, token.MUL_ASSIGN: token.MUL,
			token.QUO_ASSIGN: token.QUO, token.REM_ASSIGN: token.REM, token.AND_ASSIGN: token.AND, token.OR_ASSIGN: token.OR,
			token.XOR_ASSIGN: token.XOR, token.SHL_ASSIGN: token.SHL, token.SHR_ASSIGN: token.SHR, token.AND_NOT_ASSIGN: token.AND_NOT}
		if op, ok := ops[x.Tok]; ok {
			be := &ast.BinaryExpr{X: id, OpPos: x.TokPos, Op: op, Y: &ast.ParenExpr{Lparen: x.TokPos, X: x.Rhs[0]}}
			return t.assign(x, id, be, false, rest, c, ev, d)
		}
		return "", bad(x, "assignment operator %s", x.Tok)
	case *ast.IfStmt:
		ev.push()
		pre := ""
		if x.Init != nil {
			// the init statement is translated in front of the `if`; its scope ends after the if statement
			var body []ast.Stmt
			body = append(body, x.Init, &ast.IfStmt{If: x.If, Cond: x.Cond, Body: x.Body, Else: x.Else})
			return t.stmts(concat(body, popMark, rest), c, ev, d)
		}
		// a condition `ok` / `!ok` whose value is fixed on this path (the ok of a type assertion): only the
		// branch that is taken is translated
		{
			var cid *ast.Ident
			neg := false
			switch ce := x.Cond.(type) {
			case *ast.Ident:
				cid = ce
			case *ast.UnaryExpr:
				if id, ok := ce.X.(*ast.Ident); ok && ce.Op == token.NOT {
					cid, neg = id, true
				}
			}
			if cid != nil {
				if kb := ev.known(cid.Name); kb != 0 {
					if _, sh := ev.lookup("true"); !sh {
						taken := (kb == 1) != neg
						if taken {
							return t.stmts(concat([]ast.Stmt{x.Body}, popMark, rest), c, ev, d)
						}
						var els []ast.Stmt
						if x.Else != nil {
							els = []ast.Stmt{x.Else}
						}
						return t.stmts(concat(els, popMark, rest), c, ev, d)
					}
				}
			}
		}
		// nil test of a possibly-nil struct pointer: a match that rebinds the variable, as the struct itself, in
		// the branch where it is not nil (there, and in the copy of the following code, fields can be read)
		nilVar, nilIsThen := "", false
		if be, ok := x.Cond.(*ast.BinaryExpr); ok && (be.Op == token.EQL || be.Op == token.NEQ) {
			l, lok := be.X.(*ast.Ident)
			r, rok := be.Y.(*ast.Ident)
			if lok && rok {
				if l.Name == "nil" {
					l, r = r, l
				}
				if vt, isVar := ev.lookup(l.Name); isVar && r.Name == "nil" && vt.k == kStruct && vt.opt {
					if _, shadowed := ev.lookup("nil"); !shadowed {
						nilVar, nilIsThen = l.Name, be.Op == token.EQL
					}
				}
			}
		}
		var cv val
		if nilVar == "" {
			var err error
			cv, err = t.expr(x.Cond, ev)
			if err != nil {
				return "", err
			}
			if cv.ty.k != kBool {
				return "", bad(x.Cond, "condition of type %s", cv.ty)
			}
		}
		var els []ast.Stmt
		switch e := x.Else.(type) {
		case nil:
		case *ast.BlockStmt:
			els = []ast.Stmt{e}
		case *ast.IfStmt:
			els = []ast.Stmt{e}
		default:
			return "", bad(x, "else form")
		}
		ev1, ev2 := ev.clone(), ev.clone()
		if nilVar != "" {
			vt, _ := ev.lookup(nilVar)
			vt.opt = false
			if nilIsThen {
				ev2.retype(nilVar, vt)
			} else {
				ev1.retype(nilVar, vt)
			}
		}
		a, err := t.stmts(concat([]ast.Stmt{x.Body}, popMark, rest), c, ev1, d+1)
		if err != nil {
			return "", err
		}
		b, err := t.stmts(concat(els, popMark, rest), c, ev2, d+1)
		if err != nil {
			return "", err
		}
		if nilVar != "" {
			if !nilIsThen {
				a, b = b, a
			}
			return fmt.Sprintf("%smatch %s with\n%s| None =>\n%s\n%s| Some %s =>\n%s\n%send", ind(d), ev.coqOf(nilVar), ind(d), a, ind(d), ev.coqOf(nilVar), b, ind(d)), nil
		}
		return fmt.Sprintf("%s%sif %s then\n%s\n%selse\n%s", pre, ind(d), cv.code, a, ind(d), b), nil
	case *ast.DeclStmt:
		// var x, y T  /  var x T = e  /  var x = e
		g, ok := x.Decl.(*ast.GenDecl)
		if !ok || g.Tok != token.VAR {
			return "", bad(x, "declaration outside the subset (only var)")
		}
		var pre []ast.Stmt
		lets := ""
		for _, sp := range g.Specs {
			vs := sp.(*ast.ValueSpec)
			if len(vs.Values) != 0 {
				if len(vs.Values) != len(vs.Names) || vs.Type != nil {
					return "", bad(x, "var with initialiser and type, or a multi-value initialiser")
				}
				for i, n := range vs.Names {
					pre = append(pre, &ast.AssignStmt{Lhs: []ast.Expr{n}, TokPos: n.Pos(), Tok: token.DEFINE, Rhs: []ast.Expr{vs.Values[i]}})
				}
				continue
			}
			ty, err := t.typeOf(vs.Type)
			if err != nil {
				return "", err
			}
			z, ok := zeroOf(ty)
			if !ok {
				return "", bad(x, "var of type %s", ty)
			}
			for _, n := range vs.Names {
				if inTop(ev, n.Name) {
					return "", bad(x, "%s redeclared", n.Name)
				}
				if err := ev.declare(n, n.Name, ty); err != nil {
					return "", err
				}
				if n.Name != "_" {
					lets += fmt.Sprintf("%slet %s := %s in\n", ind(d), ev.coqOf(n.Name), z)
				}
			}
		}
		r, err := t.stmts(concat(pre, rest), c, ev, d)
		if err != nil {
			return "", err
		}
		return lets + r, nil
	case *ast.ExprStmt:
		// panic(..): the function has no result on this path
		if ce, ok := x.X.(*ast.CallExpr); ok {
			if id, ok := ce.Fun.(*ast.Ident); ok && id.Name == "panic" {
				if _, isVar := ev.lookup("panic"); !isVar && c.oof != "" {
					return ind(d) + c.oof, nil
				}
			}
		}
		if ce, ok := x.X.(*ast.CallExpr); ok && t.stateRecv != "" && len(ce.Args) == 2 {
			if id, ok := ce.Fun.(*ast.Ident); ok && id.Name == "delete" {
				if _, isVar := ev.lookup("delete"); !isVar {
					m, err := t.expr(ce.Args[0], ev)
					if err != nil {
						return "", err
					}
					if m.ty.k != kStrSet {
						return "", bad(s, "delete on %s", m.ty)
					}
					kv, err := t.expr(ce.Args[1], ev)
					if err != nil {
						return "", err
					}
					kc, err := t.conv(ce.Args[1], kv, Ty{k: kString})
					if err != nil {
						return "", err
					}
					pseudo, code, err := t.stateLhs(ce.Args[0], "(Prims.set_del "+m.code+" "+kc+")", ev)
					if err != nil {
						return "", err
					}
					r, err := t.stmts(rest, c, ev, d)
					if err != nil {
						return "", err
					}
					return fmt.Sprintf("%slet %s := %s in\n%s", ind(d), ev.coqOf(pseudo), code, r), nil
				}
			}
		}
		return "", bad(s, "expression statement outside the subset (only panic(..), delete on a state map)")
	case *ast.SwitchStmt:
		return t.switchStmt(x, rest, c, ev, d)
	case *ast.ForStmt, *ast.RangeStmt:
		return t.loop(x, "", rest, c, ev, d)
	}
	return "", bad(s, "statement form %T outside the subset", s)
}

// stateLhs: the new value of the receiver field that the assignment lhs = newVal writes into
// (lhs is recv.f, or x[i] / x.g with x such a place)
func (t *tr) stateLhs(lhs ast.Expr, newVal string, ev *env) (string, string, error) {
	switch l := lhs.(type) {
	case *ast.ParenExpr:
		return t.stateLhs(l.X, newVal, ev)
	case *ast.SelectorExpr:
		if id, ok := l.X.(*ast.Ident); ok && id.Name == t.stateRecv {
			name := id.Name + "." + l.Sel.Name
			if _, ok := ev.lookup(name); ok {
				return name, newVal, nil
			}
			return "", "", bad(lhs, "no field %s in the receiver", l.Sel.Name)
		}
		cur, err := t.expr(l.X, ev)
		if err != nil {
			return "", "", err
		}
		if cur.ty.k != kStruct || cur.ty.opt {
			return "", "", bad(lhs, "write through %s", cur.ty)
		}
		if _, ok := t.structField(cur.ty.name, l.Sel.Name); !ok {
			return "", "", bad(lhs, "field %s of %s", l.Sel.Name, cur.ty)
		}
		return t.stateLhs(l.X, "("+cur.ty.name+"_set_"+l.Sel.Name+" "+cur.code+" "+newVal+")", ev)
	case *ast.IndexExpr:
		cur, err := t.expr(l.X, ev)
		if err != nil {
			return "", "", err
		}
		if cur.ty.k == kStrSet {
			// m[k] = struct{}{}: k joins the set
			kv, err := t.expr(l.Index, ev)
			if err != nil {
				return "", "", err
			}
			kc, err := t.conv(l.Index, kv, Ty{k: kString})
			if err != nil {
				return "", "", err
			}
			return t.stateLhs(l.X, "(Prims.set_add "+cur.code+" "+kc+")", ev)
		}
		if cur.ty.k != kSlice {
			return "", "", bad(lhs, "element write on %s", cur.ty)
		}
		iv, err := t.expr(l.Index, ev)
		if err != nil {
			return "", "", err
		}
		ic, err := t.conv(l.Index, iv, Ty{k: kInt})
		if err != nil {
			return "", "", err
		}
		// out of range is a panic in Go (not modelled): the list is then unchanged
		return t.stateLhs(l.X, "(Prims.list_set "+cur.code+" "+ic+" "+newVal+")", ev)
	}
	return "", "", bad(lhs, "assignment to a place that is not part of the receiver (memory writes are outside the subset)")
}

func (t *tr) assign(n ast.Node, id *ast.Ident, rhs ast.Expr, define bool, rest []ast.Stmt, c *ctx, ev *env, d int) (string, error) {
	isOpt := t.isOptCall(rhs, ev)
	var v val
	var err error
	if isOpt {
		v, err = t.call(rhs.(*ast.CallExpr), ev, true)
	} else {
		v, err = t.expr(rhs, ev)
	}
	if err != nil {
		return "", err
	}
	var code string
	var ty Ty
	if old, ok := ev.lookup(id.Name); ok && (!define || inTop(ev, id.Name)) {
		// assignment (or := re-using a variable of the same scope)
		ev.setKnown(id.Name, 0)
		ty = old
		if code, err = t.conv(rhs, v, ty); err != nil {
			return "", err
		}
	} else {
		if !define {
			return "", bad(n, "assignment to %s, which is not a local variable", id.Name)
		}
		ty = v.ty
		switch ty.k {
		case kUntyped:
			ty = Ty{k: kInt}
		case kNil:
			return "", bad(n, "x := nil")
		}
		if code, err = t.conv(rhs, v, ty); err != nil {
			return "", err
		}
		if err = ev.declare(n, id.Name, ty); err != nil {
			return "", err
		}
	}
	name := ev.coqOf(id.Name)
	if id.Name == "_" {
		name = "_"
	}
	r, err := t.stmts(rest, c, ev, d)
	if err != nil {
		return "", err
	}
	if isOpt {
		return fmt.Sprintf("%smatch %s with\n%s| None => %s\n%s| Some %s =>\n%s\n%send", ind(d), code, ind(d), c.oof, ind(d), name, r, ind(d)), nil
	}
	return fmt.Sprintf("%slet %s := %s in\n%s", ind(d), name, code, r), nil
}

func inTop(ev *env, name string) bool {
	for _, v := range ev.scopes[len(ev.scopes)-1] {
		if v.name == name {
			return true
		}
	}
	return false
}

func (t *tr) switchStmt(x *ast.SwitchStmt, rest []ast.Stmt, c *ctx, ev *env, d int) (string, error) {
	ev.push()
	if x.Init != nil {
		sw := &ast.SwitchStmt{Switch: x.Switch, Tag: x.Tag, Body: x.Body}
		// the scope pushed above holds the init variable; the nested call pushes its own
		return t.stmts(concat([]ast.Stmt{x.Init, sw}, popMark, rest), c, ev, d)
	}
	var tag *val
	if x.Tag != nil {
		v, err := t.expr(x.Tag, ev)
		if err != nil {
			return "", err
		}
		if _, ok := x.Tag.(*ast.Ident); !ok && v.c == nil {
			return "", bad(x.Tag, "switch tag must be a variable (it would be evaluated once per case)")
		}
		tag = &v
	}
	type arm struct {
		cond string
		body []ast.Stmt
	}
	var arms []arm
	var deflt []ast.Stmt
	hasDefault := false
	for _, cs := range x.Body.List {
		cc := cs.(*ast.CaseClause)
		for _, s := range cc.Body {
			if b, ok := s.(*ast.BranchStmt); ok && b.Tok == token.FALLTHROUGH {
				return "", bad(b, "fallthrough")
			}
		}
		if cc.List == nil {
			if hasDefault {
				return "", bad(cc, "two defaults")
			}
			hasDefault = true
			deflt = cc.Body
			// Go evaluates default last wherever it is written; the arms keep their order
			continue
		}
		var conds []string
		for _, e := range cc.List {
			var ce ast.Expr = e
			if tag != nil {
				ce = &ast.BinaryExpr{X: x.Tag, OpPos: e.Pos(), Op: token.EQL, Y: e}
			}
			v, err := t.expr(ce, ev)
			if err != nil {
				return "", err
			}
			if v.ty.k != kBool {
				return "", bad(e, "case of type %s", v.ty)
			}
			conds = append(conds, v.code)
		}
		cond := conds[0]
		for _, o := range conds[1:] {
			cond = "(" + cond + " || " + o + ")%bool"
		}
		arms = append(arms, arm{cond, cc.Body})
	}
	c2 := *c
	c2.inSwitch = true
	var gen func(i int, ev *env, d int) (string, error)
	gen = func(i int, ev *env, d int) (string, error) {
		if i == len(arms) {
			e := ev.clone()
			e.push()
			// after the default body: leave its scope, leave the switch scope, go on (outside the switch) with rest
			return t.switchBody(deflt, rest, c, &c2, e, d)
		}
		e := ev.clone()
		e.push()
		a, err := t.switchBody(arms[i].body, rest, c, &c2, e, d+1)
		if err != nil {
			return "", err
		}
		b, err := gen(i+1, ev, d+1)
		if err != nil {
			return "", err
		}
		return fmt.Sprintf("%sif %s then\n%s\n%selse\n%s", ind(d), arms[i].cond, a, ind(d), b), nil
	}
	return gen(0, ev, d)
}

// ctxSwitch marks the statements that belong to a switch body, so that the context reverts
// to the enclosing one for the code after the switch
type ctxSwitch struct {
	*ast.EmptyStmt
	c *ctx
}

func (t *tr) switchBody(body, rest []ast.Stmt, outer, inner *ctx, ev *env, d int) (string, error) {
	// body runs in the inner context (unlabeled break forbidden); rest in the outer one
	list := concat(body, popMark, popMark, []ast.Stmt{ctxSwitch{&ast.EmptyStmt{}, outer}}, rest)
	return t.stmtsCtx(list, inner, ev, d)
}

// stmtsCtx is stmts, except that a ctxSwitch marker switches the context back
func (t *tr) stmtsCtx(list []ast.Stmt, c *ctx, ev *env, d int) (string, error) {
	return t.stmts(list, c, ev, d)
}

// ---------------------------------------------------------------- loops

// assignedIn: names assigned (=, op=, ++, --) anywhere inside the nodes, in order of first occurrence
func assignedIn(nodes ...ast.Node) []string {
	seen := map[string]bool{}
	var out []string
	add := func(e ast.Expr) {
		if id, ok := e.(*ast.Ident); ok && id.Name != "_" && !seen[id.Name] {
			seen[id.Name] = true
			out = append(out, id.Name)
		}
	}
	for _, n := range nodes {
		if n == nil {
			continue
		}
		ast.Inspect(n, func(m ast.Node) bool {
			switch s := m.(type) {
			case *ast.AssignStmt:
				if s.Tok != token.DEFINE {
					for _, l := range s.Lhs {
						add(l)
					}
				}
			case *ast.IncDecStmt:
				add(s.X)
			}
			return true
		})
	}
	return out
}

func identsIn(nodes ...ast.Node) map[string]bool {
	out := map[string]bool{}
	for _, n := range nodes {
		if n == nil {
			continue
		}
		ast.Inspect(n, func(m ast.Node) bool {
			if id, ok := m.(*ast.Ident); ok {
				out[id.Name] = true
			}
			return true
		})
	}
	return out
}

// jumpsTo: the node contains `continue lbl` or `break lbl`
func jumpsTo(n ast.Node, lbl string) bool {
	found := false
	ast.Inspect(n, func(m ast.Node) bool {
		if b, ok := m.(*ast.BranchStmt); ok && b.Label != nil && b.Label.Name == lbl {
			found = true
		}
		return true
	})
	return found
}

func isNil(n ast.Node) bool {
	if n == nil {
		return true
	}
	switch x := n.(type) {
	case ast.Stmt:
		return x == nil
	}
	return false
}

func (t *tr) loop(s ast.Stmt, label string, rest []ast.Stmt, c *ctx, ev *env, d int) (string, error) {
	if t.stateRecv != "" && identsIn(s)[t.stateRecv] {
		return "", bad(s, "loop that mentions the receiver of a state-transformer method")
	}
	switch x := s.(type) {
	case *ast.ForStmt:
		if x.Init != nil {
			// init runs once, in a scope of its own around the loop
			ev.push()
			loopOnly := &ast.ForStmt{For: x.For, Cond: x.Cond, Post: x.Post, Body: x.Body}
			var l ast.Stmt = loopOnly
			if label != "" {
				l = &ast.LabeledStmt{Label: &ast.Ident{NamePos: x.For, Name: label}, Stmt: loopOnly}
			}
			return t.stmts(concat([]ast.Stmt{x.Init, l}, popMark, rest), c, ev, d)
		}
		return t.forLoop(x, label, rest, c, ev, d)
	case *ast.RangeStmt:
		return t.rangeLoop(x, label, rest, c, ev, d)
	}
	return "", bad(s, "loop form")
}

// loopParts computes the state (variables assigned in the loop, declared outside it) and the
// read-only free variables of a loop
func loopParts(ev *env, nodes ...ast.Node) (state, free []variable) {
	asg := map[string]bool{}
	for _, n := range assignedIn(nodes...) {
		asg[n] = true
	}
	used := identsIn(nodes...)
	vars := ev.all()
	// the innermost declaration of a name is the one the loop can refer to
	last := map[string]int{}
	for i, v := range vars {
		last[v.name] = i
	}
	for i, v := range vars {
		if last[v.name] != i || !used[v.name] {
			continue
		}
		if asg[v.name] {
			state = append(state, v)
		} else {
			free = append(free, v)
		}
	}
	return
}

func tupleOf(vs []variable) (pat, ty string) {
	if len(vs) == 0 {
		return "tt", "unit"
	}
	var ns, ts []string
	for _, v := range vs {
		ns = append(ns, v.coq)
		ts = append(ts, v.ty.coq())
	}
	if len(vs) == 1 {
		return ns[0], paren(ts[0])
	}
	return "(" + strings.Join(ns, ", ") + ")", "(" + strings.Join(ts, " * ") + ")"
}

func paren(s string) string {
	if strings.Contains(s, " ") && !strings.HasPrefix(s, "(") {
		return "(" + s + ")"
	}
	return s
}

func (t *tr) resCoq() string {
	if len(t.cur.res) == 1 {
		return paren(t.cur.res[0].coq())
	}
	var ts []string
	for _, r := range t.cur.res {
		ts = append(ts, r.coq())
	}
	return "(" + strings.Join(ts, " * ") + ")"
}

// fuelFor: a bound on the number of iterations that is justified syntactically, or an error
func (t *tr) fuelFor(x *ast.ForStmt, ev *env) (code, why string, err error) {
	asg := assignedIn(x.Body, x.Post)
	isAsg := map[string]bool{}
	for _, a := range asg {
		isAsg[a] = true
	}
	// rule 1: `i < n` / `i <= n`, i an int variable only ever increased (i++, i += positive constant)
	// inside the loop, no variable of n assigned inside the loop
	if be, ok := x.Cond.(*ast.BinaryExpr); ok && (be.Op == token.LSS || be.Op == token.LEQ) {
		if id, ok := be.X.(*ast.Ident); ok {
			if ty, ok := ev.lookup(id.Name); ok && ty.k == kInt {
				okInc := true
				incs := 0
				ast.Inspect(&ast.BlockStmt{List: append(append([]ast.Stmt(nil), x.Body.List...), postList(x)...)}, func(m ast.Node) bool {
					switch s := m.(type) {
					case *ast.IncDecStmt:
						if l, ok := s.X.(*ast.Ident); ok && l.Name == id.Name {
							if s.Tok != token.INC {
								okInc = false
							}
							incs++
						}
					case *ast.AssignStmt:
						for _, l := range s.Lhs {
							if li, ok := l.(*ast.Ident); ok && li.Name == id.Name && s.Tok != token.DEFINE {
								lit, isLit := s.Rhs[0].(*ast.BasicLit)
								if s.Tok != token.ADD_ASSIGN || !isLit || lit.Kind != token.INT || lit.Value == "0" || strings.HasPrefix(lit.Value, "-") {
									okInc = false
								}
							}
						}
					}
					return true
				})
				// the post statement must increase i on every iteration
				postInc := false
				if p, ok := x.Post.(*ast.IncDecStmt); ok && p.Tok == token.INC {
					if l, ok := p.X.(*ast.Ident); ok && l.Name == id.Name {
						postInc = true
					}
				}
				boundFixed := true
				for n := range identsIn(be.Y) {
					if isAsg[n] {
						boundFixed = false
					}
				}
				if okInc && postInc && boundFixed {
					bv, err := t.expr(be.Y, ev)
					if err != nil {
						return "", "", err
					}
					bc, err := t.conv(be.Y, bv, Ty{k: kInt})
					if err != nil {
						return "", "", err
					}
					extra := ""
					if be.Op == token.LEQ {
						extra = " + 1"
					}
					return fmt.Sprintf("(Datatypes.S (Z.to_nat (%s - %s%s)%%Z))", bc, ev.coqOf(id.Name), extra),
						fmt.Sprintf("%s is only ever increased, by at least 1 per iteration (post statement %s++), and the bound is not assigned in the loop: at most bound - %s iterations, plus one for the final test", id.Name, id.Name, id.Name), nil
				}
			}
		}
	}
	// rule 2: shift loop — an unsigned variable v is shifted right by a positive constant at the top
	// level of the body (unconditionally), never assigned otherwise, and the condition is false for v = 0
	if x.Cond != nil && x.Post == nil {
		if be, ok := x.Cond.(*ast.BinaryExpr); ok {
			if id, ok := be.X.(*ast.Ident); ok {
				if ty, ok := ev.lookup(id.Name); ok && ty.k == kUint {
					falseAtZero := false
					if cv, err := t.expr(be.Y, ev); err == nil && cv.c != nil {
						switch be.Op {
						case token.GEQ:
							falseAtZero = constant.Sign(cv.c) > 0
						case token.GTR:
							falseAtZero = constant.Sign(cv.c) >= 0
						case token.NEQ:
							falseAtZero = constant.Sign(cv.c) == 0
						}
					}
					shifts, others := 0, 0
					for _, s := range x.Body.List {
						if a, ok := s.(*ast.AssignStmt); ok && a.Tok == token.SHR_ASSIGN && len(a.Lhs) == 1 {
							if l, ok := a.Lhs[0].(*ast.Ident); ok && l.Name == id.Name {
								if lit, ok := a.Rhs[0].(*ast.BasicLit); ok && lit.Kind == token.INT && lit.Value != "0" {
									shifts++
								}
							}
						}
					}
					ast.Inspect(x.Body, func(m ast.Node) bool {
						switch s := m.(type) {
						case *ast.IncDecStmt:
							if l, ok := s.X.(*ast.Ident); ok && l.Name == id.Name {
								others++
							}
						case *ast.AssignStmt:
							for _, l := range s.Lhs {
								if li, ok := l.(*ast.Ident); ok && li.Name == id.Name && s.Tok != token.DEFINE {
									others++
								}
							}
						case *ast.BranchStmt:
							if s.Tok == token.CONTINUE {
								others += 100 // a continue could skip the shift
							}
						}
						return true
					})
					if falseAtZero && shifts >= 1 && others == shifts {
						return fmt.Sprintf("%d%%nat", ty.bits+1),
							fmt.Sprintf("%s (uint%d) is shifted right by a positive constant on every iteration and never assigned otherwise, the condition is false for 0: at most %d iterations, plus one for the final test", id.Name, ty.bits, ty.bits), nil
					}
				}
			}
		}
	}
	return "", "", bad(x, "no syntactic bound on the number of iterations of this loop (supported: `i < n` with i only increased and n fixed; `for v >= c { ...; v >>= k }`)")
}

func postList(x *ast.ForStmt) []ast.Stmt {
	if x.Post == nil {
		return nil
	}
	return []ast.Stmt{x.Post}
}

func (t *tr) forLoop(x *ast.ForStmt, label string, rest []ast.Stmt, c *ctx, ev *env, d int) (string, error) {
	if x.Cond == nil {
		return "", bad(x, "loop without condition")
	}
	t.noHoist = true
	fuel, why, err := t.fuelFor(x, ev)
	t.noHoist = false
	if err != nil {
		return "", err
	}
	var nodes []ast.Node
	nodes = append(nodes, x.Cond, x.Body)
	if x.Post != nil {
		nodes = append(nodes, x.Post)
	}
	state, free := loopParts(ev, nodes...)
	t.nloop++
	name := fmt.Sprintf("%s_loop%d", ident(t.goName), t.nloop)
	spat, sty := tupleOf(state)
	usesNL := c.label != "" && jumpsTo(x.Body, c.label)
	rty := t.resCoq()
	if usesNL {
		rty = "(Prims.nl " + rty + ")"
	}
	params, callArgs := "", ""
	for _, v := range append(append([]variable(nil), free...), state...) {
		params += fmt.Sprintf(" (%s : %s)", v.coq, v.ty.coq())
		callArgs += " " + v.coq
	}
	// body context
	bev := ev.clone()
	t.noHoist = true
	cv, err := t.expr(x.Cond, bev)
	t.noHoist = false
	if err != nil {
		return "", err
	}
	if cv.ty.k != kBool {
		return "", bad(x.Cond, "condition of type %s", cv.ty)
	}
	rec := name + " fuel1__" + callArgs
	contCode := rec
	if x.Post != nil {
		pc := &ctx{ret: func(string) string { return "" }, fall: rec}
		pe := bev.clone()
		code, err := t.stmts([]ast.Stmt{x.Post}, pc, pe, 0)
		if err != nil {
			return "", err
		}
		contCode = strings.Join(strings.Fields(strings.ReplaceAll(code, "\n", " ")), " ")
	}
	bc := &ctx{
		ret:   func(code string) string { return "Prims.Ret (" + code + ")" },
		oof:   "Prims.OutOfFuel",
		fall:  contCode,
		cont:  contCode,
		brk:   "Prims.Done " + spat,
		label: label,
	}
	if usesNL {
		bc.ret = func(code string) string { return "Prims.Ret (Prims.NLRet (" + code + "))" }
	}
	if usesNL {
		bc.outerLbl, bc.nlCont, bc.nlBrk = c.label, "Prims.Ret Prims.NLCont", "Prims.Ret Prims.NLBrk"
	}
	bev.push()
	body, err := t.stmts(x.Body.List, bc, bev, 3)
	if err != nil {
		return "", err
	}
	fix := fmt.Sprintf("(* loop %s.  Fuel %s: %s. *)\nFixpoint %s (fuel__ : nat)%s {struct fuel__} : Prims.ctl %s %s :=\n  match fuel__ with\n  | O => Prims.OutOfFuel\n  | Datatypes.S fuel1__ =>\n    if %s then\n%s\n    else Prims.Done %s\n  end.\n",
		name, fuel, why, name, params, rty, sty, cv.code, body, spat)
	t.aux = append(t.aux, fix)
	return t.loopCall(name+" "+fuel+callArgs, spat, usesNL, rest, c, ev, d)
}

func (t *tr) loopCall(call, spat string, usesNL bool, rest []ast.Stmt, c *ctx, ev *env, d int) (string, error) {
	r, err := t.stmts(rest, c, ev, d+1)
	if err != nil {
		return "", err
	}
	var b strings.Builder
	fmt.Fprintf(&b, "%smatch %s with\n", ind(d), call)
	fmt.Fprintf(&b, "%s| Prims.OutOfFuel => %s\n", ind(d), c.oof)
	if usesNL {
		fmt.Fprintf(&b, "%s| Prims.Ret (Prims.NLRet r__) => %s\n", ind(d), c.ret("r__"))
		fmt.Fprintf(&b, "%s| Prims.Ret Prims.NLCont => %s\n", ind(d), c.cont)
		fmt.Fprintf(&b, "%s| Prims.Ret Prims.NLBrk => %s\n", ind(d), c.brk)
	} else {
		fmt.Fprintf(&b, "%s| Prims.Ret r__ => %s\n", ind(d), c.ret("r__"))
	}
	fmt.Fprintf(&b, "%s| Prims.Done %s =>\n%s\n%send", ind(d), spat, r, ind(d))
	return b.String(), nil
}

func (t *tr) rangeLoop(x *ast.RangeStmt, label string, rest []ast.Stmt, c *ctx, ev *env, d int) (string, error) {
	if x.Tok != token.DEFINE {
		return "", bad(x, "range without :=")
	}
	if k, ok := x.Key.(*ast.Ident); !ok || k.Name != "_" {
		return "", bad(x, "range with an index variable (only `for _, v := range slice`)")
	}
	vid, ok := x.Value.(*ast.Ident)
	if !ok {
		return "", bad(x, "range value")
	}
	rv, err := t.expr(x.X, ev)
	if err != nil {
		return "", err
	}
	if rv.ty.k != kStrSlice {
		return "", bad(x.X, "range over %s (only []string; ranging over a string decodes UTF-8, which is outside the subset)", rv.ty)
	}
	state, free := loopParts(ev, x.Body)
	// inside the body the value variable's name means the range variable, not an outer variable of that name
	drop := func(vs []variable) []variable {
		var out []variable
		for _, v := range vs {
			if v.name != vid.Name {
				out = append(out, v)
			}
		}
		return out
	}
	state, free = drop(state), drop(free)
	t.nloop++
	name := fmt.Sprintf("%s_loop%d", ident(t.goName), t.nloop)
	spat, sty := tupleOf(state)
	usesNL := c.label != "" && jumpsTo(x.Body, c.label)
	rty := t.resCoq()
	if usesNL {
		rty = "(Prims.nl " + rty + ")"
	}
	fparams, fargs, sparams, sargs := "", "", "", ""
	for _, v := range free {
		fparams += fmt.Sprintf(" (%s : %s)", v.coq, v.ty.coq())
		fargs += " " + v.coq
	}
	for _, v := range state {
		sparams += fmt.Sprintf(" (%s : %s)", v.coq, v.ty.coq())
		sargs += " " + v.coq
	}
	rec := name + fargs + " l1__" + sargs
	bc := &ctx{
		ret:   func(code string) string { return "Prims.Ret (" + code + ")" },
		oof:   "Prims.OutOfFuel",
		fall:  rec,
		cont:  rec,
		brk:   "Prims.Done " + spat,
		label: label,
	}
	if usesNL {
		bc.ret = func(code string) string { return "Prims.Ret (Prims.NLRet (" + code + "))" }
		bc.outerLbl, bc.nlCont, bc.nlBrk = c.label, "Prims.Ret Prims.NLCont", "Prims.Ret Prims.NLBrk"
	}
	bev := ev.clone()
	bev.push()
	if err := bev.declare(x, vid.Name, Ty{k: kString}); err != nil {
		return "", err
	}
	bev.push()
	body, err := t.stmts(x.Body.List, bc, bev, 2)
	if err != nil {
		return "", err
	}
	vname := bev.coqOf(vid.Name)
	if vid.Name == "_" {
		vname = "_"
	}
	fix := fmt.Sprintf("(* range loop %s: structural recursion on the slice (evaluated once), no fuel needed. *)\nFixpoint %s%s (l__ : list (list N))%s {struct l__} : Prims.ctl %s %s :=\n  match l__ with\n  | nil => Prims.Done %s\n  | %s :: l1__ =>\n%s\n  end.\n",
		name, name, fparams, sparams, rty, sty, spat, vname, body)
	t.aux = append(t.aux, fix)
	return t.loopCall(name+fargs+" "+rv.code+sargs, spat, usesNL, rest, c, ev, d)
}

// ---------------------------------------------------------------- functions

func hasLoopOrOptCall(t *tr, fd *ast.FuncDecl) bool {
	found := false
	ast.Inspect(fd.Body, func(m ast.Node) bool {
		switch x := m.(type) {
		case *ast.ForStmt, *ast.RangeStmt:
			found = true
		case *ast.CallExpr:
			if id, ok := x.Fun.(*ast.Ident); ok {
				if f, ok := t.funcs[t.dir+":"+id.Name]; ok && f.opt {
					found = true
				}
				if id.Name == "panic" {
					found = true
				}
			}
			if t.selName(x.Fun) == "sort.Search" {
				found = true
			}
		}
		return true
	})
	return found
}

// comparedWithNil: the body contains `name == nil` or `name != nil` (either order)
func comparedWithNil(body ast.Node, name string) bool {
	found := false
	ast.Inspect(body, func(m ast.Node) bool {
		if be, ok := m.(*ast.BinaryExpr); ok && (be.Op == token.EQL || be.Op == token.NEQ) {
			l, lok := be.X.(*ast.Ident)
			r, rok := be.Y.(*ast.Ident)
			if lok && rok && ((l.Name == name && r.Name == "nil") || (l.Name == "nil" && r.Name == name)) {
				found = true
			}
		}
		return true
	})
	return found
}

func zeroOf(ty Ty) (string, bool) {
	switch ty.k {
	case kInt:
		return "0%Z", true
	case kUint, kI64:
		return "0%N", true
	case kBool:
		return "false", true
	case kString:
		return "(@nil N)", true
	case kStrSlice:
		return "(@nil (list N))", true
	case kError:
		return "(@None (list N))", true
	}
	return "", false
}

func (t *tr) function(fd *ast.FuncDecl, e entry) (string, error) {
	if fd.Type.TypeParams != nil {
		return "", bad(fd, "generic function")
	}
	_ = e
	if fd.Body == nil {
		return "", bad(fd, "no body")
	}
	sig := &funcSig{name: ident(fd.Name.Name)}
	key := t.dir + ":" + fd.Name.Name
	if e.recv != "" {
		sig.name = ident(e.recv + "_" + fd.Name.Name)
		key = e.recv + "." + fd.Name.Name
	}
	if e.as != "" {
		// registered per package under its Go name; only the Gallina name differs
		sig.name = ident(e.as)
	}
	ev := &env{}
	ev.push()
	params := ""
	t.externs = e.externs
	var exNames []string
	for n := range e.externs {
		exNames = append(exNames, n)
	}
	sort.Strings(exNames)
	for _, n := range exNames {
		ex := e.externs[n]
		var ts []string
		for _, p := range ex.params {
			ts = append(ts, paren(p.coq()))
		}
		var rs []string
		for _, r := range ex.res {
			rs = append(rs, paren(r.coq()))
		}
		params += fmt.Sprintf(" (%s : %s -> %s)", ident(n), strings.Join(ts, " -> "), strings.Join(rs, " * "))
	}
	plist := fd.Type.Params.List
	if fd.Recv != nil {
		if len(fd.Recv.List) != 1 || len(fd.Recv.List[0].Names) != 1 {
			return "", bad(fd, "receiver form")
		}
		plist = append(append([]*ast.Field(nil), fd.Recv.List...), plist...)
	}
	for _, f := range plist {
		ty, err := t.typeOf(f.Type)
		if err != nil {
			return "", err
		}
		if len(f.Names) == 0 {
			return "", bad(f, "unnamed parameter")
		}
		for _, n := range f.Names {
			ty := ty
			if ty.k == kStruct && comparedWithNil(fd.Body, n.Name) {
				ty.opt = true // the function tests this pointer against nil: it is an option
			}
			sig.params = append(sig.params, ty)
			pn := ident(n.Name)
			if n.Name == "_" {
				pn = "_"
			} else if err := ev.declare(n, n.Name, ty); err != nil {
				return "", err
			}
			params += fmt.Sprintf(" (%s : %s)", pn, ty.coq())
		}
	}
	if fd.Type.Results == nil {
		return "", bad(fd, "function without result")
	}
	for _, f := range fd.Type.Results.List {
		ty, err := t.typeOf(f.Type)
		if err != nil {
			return "", err
		}
		n := len(f.Names)
		if n == 0 {
			n = 1
		}
		for i := 0; i < n; i++ {
			sig.res = append(sig.res, ty)
		}
	}
	// named results are variables of the function's outermost scope, initialised to their zero value;
	// every return must list its values (checked where the return is translated)
	namedInit := ""
	for _, f := range fd.Type.Results.List {
		ty, _ := t.typeOf(f.Type)
		for _, n := range f.Names {
			z, ok := zeroOf(ty)
			if !ok {
				return "", bad(f, "named result of type %s", ty)
			}
			if err := ev.declare(n, n.Name, ty); err != nil {
				return "", err
			}
			if n.Name != "_" {
				namedInit += fmt.Sprintf("  let %s := %s in\n", ident(n.Name), z)
			}
		}
	}
	sig.opt = hasLoopOrOptCall(t, fd)
	t.stateRecv = ""
	stateInit, stateVal, stateTy := "", "", ""
	if e.state {
		if fd.Recv == nil || e.recv == "" {
			return "", bad(fd, "state transformer without receiver")
		}
		rn := fd.Recv.List[0].Names[0].Name
		st := t.pkg.structs[e.recv]
		if st == nil {
			return "", bad(fd, "receiver type")
		}
		var fs []string
		for _, f := range st.Fields.List {
			fty, err := t.typeOf(f.Type)
			if err != nil {
				return "", err
			}
			for _, fn := range f.Names {
				coq := ident(rn + "_" + fn.Name)
				ev.declareAs(rn+"."+fn.Name, fty, coq)
				stateInit += fmt.Sprintf("  let %s := (%s_%s %s) in\n", coq, e.recv, fn.Name, ident(rn))
				fs = append(fs, fmt.Sprintf("%s_%s := %s", e.recv, fn.Name, coq))
			}
		}
		t.stateRecv, stateVal, stateTy = rn, "{| "+strings.Join(fs, "; ")+" |}", ident(e.recv)
		sig.state = true
	}
	t.cur, t.goName, t.aux, t.nloop = sig, fd.Name.Name, nil, 0
	t.hoisted, t.nhoist, t.noHoist = nil, 0, false
	if e.as != "" {
		t.goName = e.as
	}
	c := &ctx{ret: func(code string) string { return code }}
	rty := t.resCoq()
	if e.state {
		// every return hands back the receiver as it is at that point, with the results
		c.ret = func(code string) string { return "(" + stateVal + ", " + code + ")" }
		rty = "(" + stateTy + " * " + rty + ")"
	}
	if sig.opt {
		inner := c.ret
		c.ret = func(code string) string { return "Some (" + inner(code) + ")" }
		c.oof = "None"
		rty = "option " + rty
	}
	// Go: parameters, results and the statements of the body share one scope
	body, err := t.stmts(fd.Body.List, c, ev, 1)
	if err != nil {
		return "", err
	}
	body = stateInit + namedInit + body
	t.stateRecv = ""
	var b strings.Builder
	for _, a := range t.aux {
		b.WriteString(a + "\n")
	}
	optNote := ""
	if sig.opt {
		optNote = "  Result in option: None = a loop ran out of its fuel, or an explicit panic(..) was reached."
	}
	exNote := ""
	if len(exNames) > 0 {
		exNote = "  Parametric in the untranslated (I/O) function(s) " + strings.Join(exNames, ", ") + "."
	}
	fmt.Fprintf(&b, "(* %s, func %s.%s%s *)\nDefinition %s%s : %s :=\n%s.\n", e.file, strings.TrimPrefix(key, t.dir+":"), optNote, exNote, sig.name, params, rty, body)
	t.funcs[key] = sig
	return b.String(), nil
}

func main() {
	if len(os.Args) < 2 {
		fmt.Fprintln(os.Stderr, "usage: go2coq <repo>")
		os.Exit(2)
	}
	fmt.Print(translate(os.Args[1], whitelist))
}

// translate never fails: whatever cannot be translated becomes an UNTRANSLATABLE comment
func translate(root string, whitelist []entry) string {
	t := &tr{fset: token.NewFileSet(), funcs: map[string]*funcSig{}, pkgs: map[string]*pkgInfo{}, records: map[string]bool{}, recordZero: map[string]bool{}, iota: -1}
	files := map[string]*ast.File{}
	var out strings.Builder
	out.WriteString("(* GENERATED by tools/go2coq from the Go sources on every run of ./check — do not edit.\n")
	out.WriteString("   One Gallina definition per whitelisted pure function; Proofs/Src/<Fn>Eq.v proves it equal to the\n")
	out.WriteString("   hand-written model.  Meaning of Prims.*: theories/Src/Prims.v (trusted). *)\n")
	out.WriteString("From Coq Require Import List NArith ZArith Bool.\nFrom FS Require Src.Prims.\nFrom FS Require Model.Stat.\nImport ListNotations.\nLocal Open Scope list_scope.\n\n")
	for _, e := range whitelist {
		label := e.name
		if e.recv != "" {
			label = e.recv + "." + e.name
		}
		if e.as != "" {
			label = e.as
		}
		f, ok := files[e.file]
		if !ok {
			var err error
			f, err = parser.ParseFile(t.fset, filepath.Join(root, e.file), nil, parser.SkipObjectResolution)
			if err != nil {
				fmt.Fprintf(&out, "(* UNTRANSLATABLE %s: cannot parse %s: %v *)\n\n", label, e.file, strings.ReplaceAll(err.Error(), "*)", "* )"))
				continue
			}
			files[e.file] = f
		}
		var fd *ast.FuncDecl
		for _, d := range f.Decls {
			x, ok := d.(*ast.FuncDecl)
			if !ok || x.Name.Name != e.name {
				continue
			}
			if e.recv == "" && x.Recv == nil {
				fd = x
			}
			if e.recv != "" && x.Recv != nil && len(x.Recv.List) == 1 {
				rt := x.Recv.List[0].Type
				if st, ok := rt.(*ast.StarExpr); ok {
					if id, ok := st.X.(*ast.Ident); ok && id.Name == e.recv {
						fd = x
					}
				}
			}
		}
		if fd == nil {
			fmt.Fprintf(&out, "(* UNTRANSLATABLE %s: no such function at %s:0 *)\n\n", label, e.file)
			continue
		}
		t.pkg = t.scanPkg(filepath.Dir(filepath.Join(root, e.file)))
		t.dir = filepath.Dir(e.file)
		nrec := len(t.recordDefs)
		code, err := t.function(fd, e)
		if err != nil {
			where := t.pos(fd)
			if u, ok := err.(*untranslatable); ok && u.pos != token.NoPos {
				p := t.fset.Position(u.pos)
				where = fmt.Sprintf("%s:%d", filepath.Base(p.Filename), p.Line)
			}
			fmt.Fprintf(&out, "(* UNTRANSLATABLE %s: %s at %s *)\n\n", label, strings.ReplaceAll(err.Error(), "*)", "* )"), where)
			// records first needed by a function that is not emitted are not emitted either
			for _, r := range t.recordDefs[nrec:] {
				for n := range t.records {
					if strings.Contains(r, "Record "+ident(n)+" ") {
						delete(t.records, n)
					}
				}
			}
			t.recordDefs = t.recordDefs[:nrec]
			continue
		}
		for _, r := range t.recordDefs[nrec:] {
			out.WriteString(r + "\n")
		}
		out.WriteString(code + "\n")
	}
	return out.String()
}
