module verif/go2coq

go 1.21
