#!/bin/bash
# tools/seedtest.sh <patch.diff> <Cxx> [<Cyy> ...]   — run checks against a scratch copy of /repo with the patch applied.
# Uses a separate worktree of /verif (so concurrent work in /verif and /repo is not disturbed) and VERIF_REPO.
set -u
PATCH=$(realpath "$1"); shift
ST=${SEEDTEST_WT:-/root/wk/seedtest}
R=$(mktemp -d /tmp/seedrepo.XXXXXX)
rmdir "$R"
git -C /repo worktree add -q --detach "$R" HEAD || exit 2
if ! git -C "$R" apply "$PATCH" 2>/dev/null && ! git -C "$R" apply --3way "$PATCH" 2>/dev/null; then echo "PATCH DOES NOT APPLY"; git -C /repo worktree remove --force "$R"; exit 2; fi
if [ ! -d "$ST" ]; then git -C /verif worktree add -q --detach "$ST" main; else git -C "$ST" reset -q --hard; git -C "$ST" clean -fdq -e "*.vo" -e "*.glob" -e "*.vos" -e "*.vok" -e ".*.aux" -e "ocaml/" -e "coq/Makefile*" -e "coq/.Makefile.d" -e "harness/vh"; git -C "$ST" checkout -q --detach main; fi
cd "$ST"
export VERIF_REPO="$R"
rc=0
for p in "$@"; do
  timeout ${SEEDTEST_TIMEOUT:-1800} ./check "$p" --tier ${SEEDTEST_TIER:-quick} 2>&1 | grep -E "^(OK|VIOLATION|KNOWN-FINDING|setup)" | sed "s/^/[$p] /"
done
git -C /repo worktree remove --force "$R"
git -C /repo worktree prune
