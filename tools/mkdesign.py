#!/usr/bin/env python3
"""Regenerate the generated tails of DESIGN.md: section 11 (status by property) and section 12 (seed matrix)."""
import glob, json, os, subprocess
ROOT = os.path.dirname(os.path.dirname(os.path.abspath(__file__)))
p = os.path.join(ROOT, "DESIGN.md")
s = open(p).read()
i = s.find("\n## 11. Status by property")
if i >= 0:
    s = s[:i]
s = s.rstrip("\n") + "\n\n\n"
s += subprocess.check_output(["python3", os.path.join(ROOT, "tools", "propsummary.py")], text=True)
# seeds
rows = []
matrix = {}
mp = os.path.join(ROOT, "seeded", "MATRIX.txt")
if os.path.exists(mp):
    for l in open(mp):
        t = l.split()
        if len(t) >= 2 and t[0].startswith("C"):
            matrix[t[0]] = t[1]
for d in sorted(glob.glob(os.path.join(ROOT, "seeded", "C*-*"))):
    name = os.path.basename(d)
    try:
        m = json.load(open(os.path.join(d, "meta.json")))
    except Exception:
        m = {}
    what = (m.get("what") or m.get("description") or "").replace("\n", " ").replace("|", "/")
    needs = (m.get("needs") or m.get("what_it_needs") or "").replace("\n", " ").replace("|", "/")
    first = m.get("detected")
    rows.append("| %s | %s | %s | %s | %s |" % (name, what[:260], needs[:200],
                {True: "detected", False: "MISSED", None: "-"}[first], matrix.get(name, "-")))
s += "\n\n## 12. Seeded changes (generated from seeded/*/meta.json and seeded/MATRIX.txt)\n\n"
s += "`first run` = result of the property's own quick check when the seed was adopted (before any strengthening); `now` = last full matrix run (tools/seedmatrix.sh). What was added after each miss is described in section 10.2.\n\n"
s += "| seed | change | needs | first run | now |\n|---|---|---|---|---|\n" + "\n".join(rows) + "\n"
open(p, "w").write(s)
print("DESIGN.md regenerated: %d seeds" % len(rows))
