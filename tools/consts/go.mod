module verif/consts

go 1.21
