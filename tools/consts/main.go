// consts — the small source-to-Coq translator of the secondary tie (DESIGN section 1):
// parses /repo with go/parser on every run and emits gen/FromSource.v with the numeric
// constants, field lists and wire tags the theorems are parametric in.  Properties files
// contain Examples that the models' parameters equal these (re-checked by coqc each run).
package main

import (
	"fmt"
	"go/ast"
	"go/parser"
	"go/token"
	"os"
	"path/filepath"
	"reflect"
	"sort"
	"strconv"
	"strings"
)

var fset = token.NewFileSet()

func parse(path string) *ast.File {
	f, err := parser.ParseFile(fset, path, nil, parser.ParseComments)
	if err != nil {
		fmt.Fprintln(os.Stderr, "parse error:", err)
		os.Exit(1)
	}
	return f
}

// evalInt evaluates small constant integer expressions (literals, *, +, <<, parentheses).
func evalInt(e ast.Expr) (int64, bool) {
	switch x := e.(type) {
	case *ast.BasicLit:
		v, err := strconv.ParseInt(x.Value, 0, 64)
		return v, err == nil
	case *ast.ParenExpr:
		return evalInt(x.X)
	case *ast.BinaryExpr:
		a, ok1 := evalInt(x.X)
		b, ok2 := evalInt(x.Y)
		if !ok1 || !ok2 {
			return 0, false
		}
		switch x.Op {
		case token.MUL:
			return a * b, true
		case token.ADD:
			return a + b, true
		case token.SHL:
			return a << uint(b), true
		}
	}
	return 0, false
}

func findFunc(f *ast.File, recv, name string) *ast.FuncDecl {
	for _, d := range f.Decls {
		fd, ok := d.(*ast.FuncDecl)
		if !ok || fd.Name.Name != name {
			continue
		}
		if recv == "" && fd.Recv == nil {
			return fd
		}
		if recv != "" && fd.Recv != nil && len(fd.Recv.List) == 1 {
			t := fd.Recv.List[0].Type
			if s, ok := t.(*ast.StarExpr); ok {
				t = s.X
			}
			if id, ok := t.(*ast.Ident); ok && id.Name == recv {
				return fd
			}
		}
	}
	return nil
}

// chanCaps returns the capacities of all make(chan T, n) inside node, in source order.
func chanCaps(n ast.Node) []int64 {
	var out []int64
	ast.Inspect(n, func(x ast.Node) bool {
		c, ok := x.(*ast.CallExpr)
		if !ok {
			return true
		}
		if id, ok := c.Fun.(*ast.Ident); ok && id.Name == "make" && len(c.Args) == 2 {
			if _, ok := c.Args[0].(*ast.ChanType); ok {
				if v, ok := evalInt(c.Args[1]); ok {
					out = append(out, v)
				}
			}
		}
		return true
	})
	return out
}

func constValue(f *ast.File, name string) ast.Expr {
	for _, d := range f.Decls {
		gd, ok := d.(*ast.GenDecl)
		if !ok || gd.Tok != token.CONST {
			continue
		}
		for _, s := range gd.Specs {
			vs := s.(*ast.ValueSpec)
			for i, n := range vs.Names {
				if n.Name == name && i < len(vs.Values) {
					return vs.Values[i]
				}
			}
		}
	}
	return nil
}

// selectorsCompared collects X.<Field> == Y.<Field> / != field names in node.
func selectorsCompared(n ast.Node) []string {
	seen := map[string]bool{}
	ast.Inspect(n, func(x ast.Node) bool {
		b, ok := x.(*ast.BinaryExpr)
		if !ok || (b.Op != token.EQL && b.Op != token.NEQ) {
			return true
		}
		l, ok1 := b.X.(*ast.SelectorExpr)
		r, ok2 := b.Y.(*ast.SelectorExpr)
		if ok1 && ok2 && l.Sel.Name == r.Sel.Name {
			seen[l.Sel.Name] = true
		}
		return true
	})
	var out []string
	for k := range seen {
		out = append(out, k)
	}
	sort.Strings(out)
	return out
}

func coqBytes(s string) string {
	parts := make([]string, len(s))
	for i := 0; i < len(s); i++ {
		parts[i] = strconv.Itoa(int(s[i]))
	}
	return "[" + strings.Join(parts, "; ") + "]%N"
}

func coqStrList(l []string) string {
	parts := make([]string, len(l))
	for i, s := range l {
		parts[i] = coqBytes(s) + " (* " + s + " *)"
	}
	return "[" + strings.Join(parts, ";\n   ") + "]"
}

type pbField struct {
	num  int
	wire string
	name string
	goN  string
}

func pbFields(f *ast.File, typ string) []pbField {
	var out []pbField
	ast.Inspect(f, func(x ast.Node) bool {
		ts, ok := x.(*ast.TypeSpec)
		if !ok || ts.Name.Name != typ {
			return true
		}
		st, ok := ts.Type.(*ast.StructType)
		if !ok {
			return true
		}
		for _, fl := range st.Fields.List {
			if fl.Tag == nil || len(fl.Names) == 0 {
				continue
			}
			tag, _ := strconv.Unquote(fl.Tag.Value)
			pb := reflect.StructTag(tag).Get("protobuf")
			if pb == "" {
				continue
			}
			parts := strings.Split(pb, ",")
			num, _ := strconv.Atoi(parts[1])
			name := ""
			for _, p := range parts {
				if strings.HasPrefix(p, "name=") {
					name = p[5:]
				}
			}
			out = append(out, pbField{num, parts[0], name, fl.Names[0].Name})
		}
		return false
	})
	sort.Slice(out, func(a, b int) bool { return out[a].num < out[b].num })
	return out
}

func wireCode(w string) int {
	switch w {
	case "varint":
		return 0
	case "fixed64":
		return 1
	case "bytes":
		return 2
	case "fixed32":
		return 5
	}
	return 99
}

func main() {
	repo := os.Args[1]
	p := func(s string) *ast.File { return parse(filepath.Join(repo, s)) }
	send, recv, diff, buf, val := p("send.go"), p("receive.go"), p("diff_containerd.go"), p("buffer.go"), p("validator.go")
	statpb, wirepb := p("types/stat.pb.go"), p("types/wire.pb.go")

	fmt.Println("(* GENERATED on every run by tools/consts from /repo's sources — do not edit *)")
	fmt.Println("From Coq Require Import List NArith Bool.\nImport ListNotations.\nOpen Scope N_scope.\n")

	// number of sender workers: the bound of the `for i := 0; i < N; i++` loop in (*sender).run
	workers := int64(-1)
	if fd := findFunc(send, "sender", "run"); fd != nil {
		ast.Inspect(fd, func(x ast.Node) bool {
			fs, ok := x.(*ast.ForStmt)
			if !ok || fs.Cond == nil {
				return true
			}
			if b, ok := fs.Cond.(*ast.BinaryExpr); ok && b.Op == token.LSS {
				if v, ok := evalInt(b.Y); ok && workers < 0 {
					workers = v
				}
			}
			return true
		})
	}
	fmt.Printf("Definition send_workers : N := %d.\n", workers)
	pc := chanCaps(findFunc(send, "", "Send"))
	fmt.Printf("Definition send_pipeline_cap : N := %d.\n", first(pc))
	fmt.Printf("Definition dynwalker_cap : N := %d.\n", first(chanCaps(findFunc(recv, "", "newDynamicWalker"))))
	dc := chanCaps(findFunc(diff, "", "doubleWalkDiff"))
	fmt.Printf("Definition diff_chan_caps : list N := [%s].\n", joinInts(dc))
	if v, ok := evalInt(constValue(buf, "chunkSize")); ok {
		fmt.Printf("Definition buffer_chunk_size : N := %d.\n", v)
	} else {
		fmt.Println("Definition buffer_chunk_size : N := 0. (* not found *)")
	}
	if bl, ok := constValue(recv, "metadataPath").(*ast.BasicLit); ok {
		s, _ := strconv.Unquote(bl.Value)
		fmt.Printf("Definition metadata_path : list N := %s. (* %s *)\n", coqBytes(s), s)
	}
	// identity key: fields compared by compareStat, and by sameFile for non-directories
	fmt.Printf("Definition compare_stat_fields : list (list N) :=\n  %s.\n", coqStrList(selectorsCompared(findFunc(diff, "", "compareStat"))))
	fmt.Printf("Definition same_file_fields : list (list N) :=\n  %s.\n", coqStrList(selectorsCompared(findFunc(diff, "", "sameFile"))))
	// fileCanRequestData: m&os.ModeType == 0
	mask := ""
	if fd := findFunc(send, "", "fileCanRequestData"); fd != nil {
		ast.Inspect(fd, func(x ast.Node) bool {
			b, ok := x.(*ast.BinaryExpr)
			if ok && b.Op == token.AND {
				if s, ok := b.Y.(*ast.SelectorExpr); ok {
					mask = s.Sel.Name
				}
			}
			return true
		})
	}
	fmt.Printf("Definition can_request_mask : list N := %s. (* %s *)\n", coqBytes(mask), mask)
	// validator: string literals compared against p in HandleChange (".", "..", "../")
	var lits []string
	if fd := findFunc(val, "Validator", "HandleChange"); fd != nil {
		ast.Inspect(fd, func(x ast.Node) bool {
			if bl, ok := x.(*ast.BasicLit); ok && bl.Kind == token.STRING {
				s, _ := strconv.Unquote(bl.Value)
				if s == "." || s == ".." || s == "../" {
					lits = append(lits, s)
				}
			}
			return true
		})
	}
	sort.Strings(lits)
	fmt.Printf("Definition validator_literals : list (list N) :=\n  %s.\n", coqStrList(lits))
	// protobuf fields: (number, wire type code, name)
	for _, t := range []struct {
		f    *ast.File
		typ  string
		name string
	}{{statpb, "Stat", "stat_pb_fields"}, {wirepb, "Packet", "packet_pb_fields"}} {
		var parts []string
		for _, fl := range pbFields(t.f, t.typ) {
			parts = append(parts, fmt.Sprintf("(%d, %d, %s) (* %s %s *)", fl.num, wireCode(fl.wire), coqBytes(fl.name), fl.goN, fl.wire))
		}
		fmt.Printf("Definition %s : list (N * N * list N) :=\n  [%s].\n", t.name, strings.Join(parts, ";\n   "))
	}
}

func first(l []int64) int64 {
	if len(l) == 0 {
		return -1
	}
	return l[0]
}

func joinInts(l []int64) string {
	parts := make([]string, len(l))
	for i, v := range l {
		parts[i] = strconv.FormatInt(v, 10)
	}
	return strings.Join(parts, "; ")
}
