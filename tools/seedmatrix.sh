#!/bin/bash
# tools/seedmatrix.sh [J]  — run every seeded change against the check of its own property (J parallel lanes, default 4).
# Output: seeded/MATRIX.txt  (one line per seed: DETECTED / MISSED / NOT-CLAIMED + first verdict lines)
J=${1:-4}
cd /verif
claimed=$(python3 -c "import json; print(' '.join(c['property_id'] for c in json.load(open('MANIFEST.json'))['checks']))")
ls -d seeded/C*-* | sort > /tmp/seedlist.$$
lane() {
  i=$1
  export SEEDTEST_WT=/root/wk/seedtest$i
  awk -v n=$J -v i=$i 'NR%n==i%n' /tmp/seedlist.$$ | while read d; do
    pid=$(basename $d | cut -d- -f1)
    if ! echo " $claimed " | grep -q " $pid "; then echo "$(basename $d) NOT-CLAIMED"; continue; fi
    r=$(SEEDTEST_TIMEOUT=1500 tools/seedtest.sh $d/patch.diff $pid 2>&1 | grep -v KNOWN-FINDING)
    if echo "$r" | grep -q "VIOLATION"; then v=DETECTED; elif echo "$r" | grep -q "^\[$pid\] OK"; then v=MISSED; else v="ERROR"; fi
    echo "$(basename $d) $v $(echo "$r" | head -2 | tr '\n' ' ' | cut -c1-220)"
  done > /tmp/seedmatrix.$$.$i
}
for i in $(seq 1 $J); do lane $i & done; wait
{ echo "# seeded change x check of its own property, quick tier, $(git -C /verif rev-parse --short HEAD) on /repo $(git -C /repo rev-parse --short HEAD)"; cat /tmp/seedmatrix.$$.* | sort; } > seeded/MATRIX.txt
rm -f /tmp/seedmatrix.$$.* /tmp/seedlist.$$
cat seeded/MATRIX.txt
