#!/usr/bin/env python3
"""Append to seeded/MATRIX.txt a line for every seed that has no line yet, from the checks recorded in its meta.json
(checks_run = the property's own quick check at adoption; after_strengthening = re-run after a generator/model change)."""
import glob, json, os, subprocess
ROOT = os.path.dirname(os.path.dirname(os.path.abspath(__file__)))
mp = os.path.join(ROOT, "seeded", "MATRIX.txt")
lines = open(mp).read().splitlines()
have = {l.split()[0] for l in lines if l and not l.startswith("#")}
head = subprocess.check_output(["git", "-C", ROOT, "rev-parse", "--short", "HEAD"], text=True).strip()
new = []
for d in sorted(glob.glob(os.path.join(ROOT, "seeded", "C*-*"))):
    name = os.path.basename(d)
    if name in have:
        continue
    m = json.load(open(os.path.join(d, "meta.json")))
    src = m.get("after_strengthening") or m
    runs = [l for l in src.get("checks_run", []) if "KNOWN-FINDING" not in l]
    pid = name.split("-")[0]
    if any("VIOLATION" in l for l in runs):
        v = "DETECTED"
    elif any(l.startswith("[%s] OK" % pid) for l in runs):
        v = "MISSED"
    else:
        v = "ERROR"
    new.append("%s %s %s" % (name, v, " ".join(runs[:2])[:220]))
if new:
    lines.append("# appended at %s (single runs at adoption / after strengthening, tools/seedadopt.sh + tools/seedtest.sh)" % head)
    lines += new
    open(mp, "w").write("\n".join(lines) + "\n")
print("\n".join(new))
