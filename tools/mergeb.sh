#!/bin/bash
# tools/mergeb.sh wip-cXX ...   (coordinator helper: merge agent branches; evidence conflicts -> theirs; known_findings -> ours)
cd /verif
for b in "$@"; do
  git merge -q --no-edit $b 2>&1 | grep -iE "conflict|error|overwritten" 
  for f in $(git diff --name-only --diff-filter=U); do case $f in evidence/*) git checkout --theirs $f 2>/dev/null || git rm -q --cached $f; git add $f 2>/dev/null;; known_findings.json) git checkout --ours $f; git add $f;; *) echo "UNRESOLVED $f";; esac; done
  if [ -n "$(git diff --name-only --diff-filter=U)" ]; then echo "STOP: unresolved in $b"; exit 1; fi
  git commit -qm "Merge $b" 2>/dev/null
  echo "merged $b -> $(git rev-parse --short HEAD)"
done
