#!/usr/bin/env python3
"""Validate MANIFEST.json and evidence/*.json against the given schemas (uses the tooling venv's jsonschema)."""
import glob, json, sys
import jsonschema
jsonschema.validate(json.load(open('/verif/MANIFEST.json')), json.load(open('/root/.vp/MANIFEST.schema.json')))
es = json.load(open('/root/.vp/EVIDENCE.schema.json'))
for f in sorted(glob.glob('/verif/evidence/*.json')):
    jsonschema.validate(json.load(open(f)), es)
print("manifest + %d evidence files valid" % len(glob.glob('/verif/evidence/*.json')))
