#!/bin/bash
# tools/seedverify.sh <dir with patch.diff + demo *_test.go>  — confirm independently: suite green with patch, demo fails with patch, passes without
set -u
D=$(realpath "$1")
export GOFLAGS=-mod=mod GOPROXY=off GOSUMDB=off GOTOOLCHAIN=local
R=$(mktemp -d /tmp/seedver.XXXXXX); rmdir "$R"
git -C /repo worktree add -q --detach "$R" HEAD || exit 2
ok=1
demos=$(ls "$D"/*_test.go "$D"/*_test.go.txt 2>/dev/null)
[ -z "$demos" ] && { echo "NO DEMO TEST FILE"; ok=0; }
place() { for f in $demos; do pkg=$(grep -m1 '^package ' "$f" | awk '{print $2}'); b=$(basename "$f" .txt); case "$pkg" in fs|fs_test) cp "$f" "$R/copy/$b";; fsutil|fsutil_test) cp "$f" "$R/$b";; types|types_test) cp "$f" "$R/types/$b";; util|util_test) cp "$f" "$R/util/$b";; *) echo "unknown package $pkg"; ok=0;; esac; done; }
unplace() { (cd "$R" && git clean -fdq); }
names() { grep -ho '^func Test[A-Za-z0-9_]*' $demos | sed 's/func //' | paste -sd'|'; }
RUN="^($(names))\$"
place
echo "--- demo on pinned tree (must pass)"; (cd "$R" && timeout 600 go test -vet=off -count=1 -run "$RUN" ./... 2>&1 | tail -4); [ ${PIPESTATUS[0]} -eq 0 ] || true
(cd "$R" && timeout 600 go test -vet=off -count=1 -run "$RUN" ./... >/dev/null 2>&1) && echo "PINNED: demo PASS" || { echo "PINNED: demo FAIL (bad)"; ok=0; }
unplace
git -C "$R" apply "$D/patch.diff" || { echo "PATCH DOES NOT APPLY"; ok=0; }
(cd "$R" && go build ./... && { timeout 900 go test -vet=off -count=1 ./... >/tmp/seedver.$$.log 2>&1 || timeout 900 go test -vet=off -count=1 ./... >/tmp/seedver.$$.log 2>&1; }) && echo "PATCHED: suite PASS" || { echo "PATCHED: suite FAIL (bad)"; tail -5 /tmp/seedver.$$.log; ok=0; }
place
(cd "$R" && timeout 600 go test -vet=off -count=1 -run "$RUN" ./... >/tmp/seedver.$$.log 2>&1) && { echo "PATCHED: demo PASS (bad)"; ok=0; } || { echo "PATCHED: demo FAIL (good)"; grep -m3 -E "^\s+---|FAIL:|panic" /tmp/seedver.$$.log; }
rm -f /tmp/seedver.$$.log
git -C /repo worktree remove --force "$R"; git -C /repo worktree prune
[ $ok -eq 1 ] && echo "SEED CONFIRMED" || echo "SEED REJECTED"
