#!/usr/bin/env python3
"""Pretty-print an sx value (replay debugging aid): tools/showcase.py '<sx>' or a replay file."""
import json, sys
def parse(s):
    pos = 0
    def val():
        nonlocal pos
        while s[pos] == " ": pos += 1
        if s[pos] == "(":
            pos += 1; items = []
            while True:
                while s[pos] == " ": pos += 1
                if s[pos] == ")":
                    pos += 1; return items
                items.append(val())
        e = pos
        while e < len(s) and s[e] not in " ()": e += 1
        t = s[pos:e]; pos = e
        if t.startswith("x"):
            return bytes.fromhex(t[1:])
        return int(t[1:], 16)
    return val()
def short(v, n=24):
    if isinstance(v, bytes):
        return repr(v[:n]) + ("..%d" % len(v) if len(v) > n else "")
    if isinstance(v, list):
        return "(" + " ".join(short(x, n) for x in v) + ")"
    return hex(v) if v > 4096 else str(v)
def show_view(nodes, ind=0):
    for n in nodes:
        st = n[1]
        print(" " * ind + "%r mode=%o uid=%d gid=%d size=%d mtime=%d link=%r dev=%d,%d xattrs=%s content=%s" % (
            n[0], st[1], st[2], st[3], st[4], st[5], st[6], st[7], st[8], short(st[9]), short(n[2])))
        show_view(n[3], ind + 2)
def show_raw(l):
    for d in l:
        print("%r mode=%o uid=%d gid=%d size=%d mtime=%d rdev=%x ino=%x nlink=%d target=%r xattrs=%s content=%s" % (
            d[0], d[1], d[2], d[3], d[4], d[5], d[6], d[7], d[8], d[9], short(d[10]), short(d[11])))
if __name__ == "__main__":
    a = sys.argv[1]
    r = json.load(open(a))
    inp, out = parse(r["input"]), parse(r["impl"])
    if r["kind"] == "101":
        print("SRC"); show_view(inp[0]); print("PRIOR"); show_view(inp[1]); print("opts", inp[2:])
        print("OUT errs", out[0:3]); show_raw(out[3]); print("reqs", out[4]); print("notifs", short(out[5], 40))
    else:
        print(short(inp, 60)); print(short(out, 60))
    print("verdict tail:", r["verdict"][-300:])
