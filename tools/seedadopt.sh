#!/bin/bash
# tools/seedadopt.sh <pid> <x> <srcdir> [extra props...] — verify a seeded change independently, run the checks against it, store under seeded/<pid>-<x>/
pid=$1; x=$2; src=$3; shift 3
dst=/verif/seeded/$pid-$x
mkdir -p $dst
cp $src/patch.diff $src/meta.json $dst/ 2>/dev/null
for f in $src/*_test.go $src/*.go; do [ -f "$f" ] && cp "$f" $dst/$(basename $f).txt; done
v=$(/verif/tools/seedverify.sh $src 2>&1 | grep -E "PINNED|PATCHED:|SEED")
echo "$v"
if echo "$v" | grep -q "SEED CONFIRMED"; then
  r=$(/verif/tools/seedtest.sh $dst/patch.diff $pid "$@" 2>&1)
  echo "$r"
else r="not run (seed rejected)"; fi
python3 - "$dst" "$v" "$r" <<'PY'
import json,sys
d,v,r=sys.argv[1:4]
try: m=json.load(open(d+'/meta.json'))
except Exception: m={}
m['coordinator_verification']=v.splitlines()
m['checks_run']=r.splitlines()
m['detected']=any(l.split('] ',1)[-1].startswith('VIOLATION') for l in r.splitlines())
json.dump(m,open(d+'/meta.json','w'),indent=1)
PY
