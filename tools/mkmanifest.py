#!/usr/bin/env python3
"""Regenerates MANIFEST.json from props/*.json (field "manifest") — run by hand after adding a property."""
import glob, json, os
ROOT = os.path.dirname(os.path.dirname(os.path.abspath(__file__)))
allids = ["C%02d" % i for i in range(1, 21)]
props = {}
for f in sorted(glob.glob(os.path.join(ROOT, "props", "C*.json"))):
    d = json.load(open(f)); props[d["id"]] = d
old = json.load(open(os.path.join(ROOT, "MANIFEST.json")))
checks, na = [], []
for pid in allids:
    d = props.get(pid)
    if not d or not d.get("manifest"):
        na.append({"property_id": pid, "reason": (d or {}).get("not_claimed_reason", "not yet built in this commit (work in progress; planned per DESIGN.md)")})
        continue
    m = d["manifest"]
    checks.append({
        "property_id": pid,
        "quick_cmd": "./check %s --tier quick" % pid,
        "thorough_cmd": "./check %s --tier thorough" % pid,
        "evidence_file": "evidence/%s.json" % pid,
        "replay_cmd_template": "./check %s --replay {path}" % pid,
        "engine": "coq-proof+correspondence",
        "level_claimed": {"category": "proof", "text": m["level_text"], "design_ref": "DESIGN.md section 4, " + pid},
        "level_note": m["level_note"],
        "technique": m.get("technique", "Coq proof about a Gallina model + extraction-based differential correspondence with the real Go code"),
    })
old["checks"] = checks
old["not_applicable"] = na
old["engines"][0]["serves_properties"] = [c["property_id"] for c in checks]
json.dump(old, open(os.path.join(ROOT, "MANIFEST.json"), "w"), indent=1)
print("claimed:", [c["property_id"] for c in checks])
