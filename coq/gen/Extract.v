(* GENERATED *)
Require Extraction.
Require ExtrOcamlBasic.
From FSGen Require Import Dispatch.
Extraction Language OCaml.
Extraction "dispatch.ml" dispatch.
