(* C09 — order of SubDirFS / nested-composite walks of ANY target (closes the gap left by
   nested_walk_spec, which states sortedness only for the whole walk): the listing of every
   sub-target walk of a SubDirFS, and of every target walk of a nested composite, is strictly
   ascending in protocol path order (hence duplicate-free), and every callback path is the
   sub-root name followed by well-formed components. *)
From Coq Require Import List NArith Bool Lia Sorting.Permutation Sorting.Sorted.
From FS Require Import Sx Model.Path Model.Stat Model.Tree Model.Walk
  Proofs.Lex Proofs.PathP Proofs.WalkP Proofs.WalkHL Proofs.WalkSD Proofs.WalkNest.
Import ListNotations.
Open Scope N_scope.
Open Scope bool_scope.

(* ---- the inner walk of a sub-target ---- *)
Theorem walk_at_sorted_proof t target : wf_tree t ->
  StronglySorted path_lt (map st_path (walk_at t target)).
Proof.
  intros Hwf. unfold walk_at. destruct (target_comps target) as [|c0 cs] eqn:E.
  - apply walk_sorted_proof. exact Hwf.
  - destruct (lookup (sort_tree t) (c0 :: cs)) as [k|] eqn:El; [|constructor].
    rewrite scan_paths. apply (entries_at_sorted t (c0 :: cs) k Hwf); [discriminate|exact El].
Qed.

Lemma wf_path_nosep p : wf_path p -> exists cs, cs <> [] /\ Forall nosep cs /\ p = joinc cs.
Proof.
  intros (cs & Hne & Hw & ->). exists cs. split; [exact Hne|]. split; [|reflexivity].
  eapply Forall_impl; [|exact Hw]. apply wf_name_nosep.
Qed.

(* ---- one sub-root's block at a remainder ---- *)
Lemma block_at_paths d rest :
  map fst (sd_block_at d rest) = sd_name d :: map (fun p => sd_name d ++ sep :: p) (map st_path (walk_at (sd_tree d) rest)).
Proof. unfold sd_block_at. cbn [map fst]. rewrite !map_map. reflexivity. Qed.

Lemma block_at_sorted d rest : sd_ok d -> StronglySorted path_lt (map fst (sd_block_at d rest)).
Proof.
  intros (Hn & _ & Hw). rewrite block_at_paths. apply prefix_sorted.
  - apply wf_name_nosep. exact Hn.
  - intros p Hp. apply in_map_iff in Hp. destruct Hp as (st & <- & Hst).
    apply wf_path_nosep. apply (walk_at_shape _ _ _ Hw Hst).
  - apply walk_at_sorted_proof. exact Hw.
Qed.

Lemma block_at_shape d rest a : sd_ok d -> In a (map fst (sd_block_at d rest)) ->
  exists c, a = joinc (sd_name d :: c) /\ Forall nosep (sd_name d :: c).
Proof.
  intros (Hn & _ & Hw) Hi. rewrite block_at_paths in Hi. destruct Hi as [<-|Hi].
  - exists []. split; [reflexivity|]. constructor; [apply wf_name_nosep; exact Hn|constructor].
  - apply in_map_iff in Hi. destruct Hi as (p & <- & Hp). apply in_map_iff in Hp. destruct Hp as (st & <- & Hst).
    destruct (wf_path_nosep _ (proj1 (walk_at_shape _ _ _ Hw Hst))) as (cs & Hne & Hns & ->).
    exists cs. split; [rewrite <- joinc_cons by exact Hne; reflexivity|].
    constructor; [apply wf_name_nosep; exact Hn|exact Hns].
Qed.

(* ---- any selection of blocks of sub-roots in name order ---- *)
Lemma selected_blocks_sorted (f : subdir -> bool) rest l : StronglySorted sd_lt l -> Forall sd_ok l ->
  StronglySorted path_lt (map fst (flat_map (fun d => if f d then sd_block_at d rest else []) l)).
Proof.
  induction l as [|d l IH]; intros HS Hok; [constructor|].
  inversion HS as [|? ? HS' Hlt]; subst. inversion Hok as [|? ? Hd Hok']; subst.
  cbn [flat_map]. rewrite map_app. apply SS_app; auto.
  - destruct (f d); [apply block_at_sorted; exact Hd|constructor].
  - intros a b Ha Hb. destruct (f d); [|destruct Ha].
    destruct (block_at_shape _ _ _ Hd Ha) as (ca & -> & Hna).
    rewrite map_flat_map in Hb. apply in_flat_map in Hb. destruct Hb as (d2 & Hi2 & Hb).
    destruct (f d2); [|destruct Hb].
    rewrite Forall_forall in Hok', Hlt.
    destruct (block_at_shape _ _ _ (Hok' _ Hi2) Hb) as (cb & -> & Hnb).
    unfold path_lt. rewrite compare_path_joinc by (auto; discriminate).
    rewrite lex_cons. specialize (Hlt _ Hi2). unfold sd_lt in Hlt.
    rewrite cmpb_is_cmp_bytes, Hlt. reflexivity.
Qed.

Lemma select_as_filter first rest l :
  flat_map (sd_select first rest) l =
  flat_map (fun d => if bytes_eqb first [] || bytes_eqb first (sd_name d) then sd_block_at d rest else []) l.
Proof. reflexivity. Qed.

Lemma select_paths_shape first rest l p : Forall sd_ok l ->
  In p (map fst (flat_map (sd_select first rest) l)) ->
  exists cs, cs <> [] /\ Forall nosep cs /\ p = joinc cs.
Proof.
  intros Hok Hp. rewrite map_flat_map in Hp. apply in_flat_map in Hp. destruct Hp as (d & Hd & Hp).
  unfold sd_select in Hp. destruct (bytes_eqb first [] || bytes_eqb first (sd_name d)); [|destruct Hp].
  rewrite Forall_forall in Hok. destruct (block_at_shape _ _ _ (Hok _ Hd) Hp) as (c & -> & Hns).
  exists (sd_name d :: c). split; [discriminate|]. split; [exact Hns|reflexivity].
Qed.

(* ---- SubDirFS, any target: the exact listing, no error, strictly ascending ---- *)
Theorem subdir_walk_any_sorted_proof ds target : sd_wf ds ->
  exists cbs, walk_subdirs ds target = Some (cbs, false)
    /\ StronglySorted path_lt (map fst cbs)
    /\ forall p, In p (map fst cbs) -> exists cs, cs <> [] /\ Forall nosep cs /\ p = joinc cs.
Proof.
  intros Hsd. eexists. split; [apply subdir_walk_any_proof; exact Hsd|].
  destruct (sd_wf_sorted ds Hsd) as (Hok & Hnd & _). split.
  - rewrite select_as_filter. apply selected_blocks_sorted; [|exact Hok].
    apply isort_sd_sorted. destruct Hsd as [_ H]. exact H.
  - intros p Hp. eapply select_paths_shape; eauto.
Qed.

(* ---- nested composite, any target ---- *)
Theorem nested_walk_any_sorted_proof ost inner target :
  sd_wf inner -> no_linkname inner -> wf_name (st_path ost) -> st_is_dir ost = true ->
  walk_nested ost inner target = Some (nested_listing ost inner target, false)
  /\ StronglySorted path_lt (map fst (nested_listing ost inner target)).
Proof.
  intros Hsd Hnl Ho Hd. split; [apply nested_walk_any_proof; assumption|].
  unfold nested_listing. destruct (sd_wf_sorted inner Hsd) as (Hok & Hnd & _).
  destruct (bytes_eqb (fst (cut_sep target)) [] || bytes_eqb (fst (cut_sep target)) (st_path ost)); [|constructor].
  cbn [map fst]. rewrite map_map. unfold nest_rewrite. cbn [fst].
  rewrite <- (map_map fst (fun p => st_path ost ++ sep :: p)).
  apply prefix_sorted.
  - apply wf_name_nosep. exact Ho.
  - intros p Hp. eapply select_paths_shape; eauto.
  - rewrite select_as_filter. apply selected_blocks_sorted; [|exact Hok].
    apply isort_sd_sorted. destruct Hsd as [_ H]. exact H.
Qed.

(* ---- a directory precedes everything below it, in every target walk ---- *)
Lemma path_lt_below cs c : cs <> [] -> c <> [] -> Forall nosep (cs ++ c) ->
  path_lt (joinc cs) (joinc (cs ++ c)).
Proof.
  intros Hne Hc Hns. apply Forall_app in Hns. destruct Hns as [H1 H2]. unfold path_lt.
  rewrite compare_path_joinc; auto.
  - apply lex_prefix_lt. exact Hc.
  - destruct cs; [congruence|discriminate].
  - apply Forall_app. split; assumption.
Qed.

Lemma sorted_occurs_before P a b : StronglySorted path_lt P -> In a P -> In b P -> path_lt a b ->
  exists pre post, P = pre ++ b :: post /\ In a pre.
Proof.
  intros HS Ha Hb Hab. destruct (in_split b P Hb) as (pre & post & E). exists pre, post. split; [exact E|].
  rewrite E in HS, Ha. apply in_app_or in Ha. destruct Ha as [Ha|[Ha|Ha]]; [exact Ha| |].
  - subst a. exfalso. unfold path_lt in Hab. rewrite compare_path_refl in Hab. discriminate.
  - exfalso. clear E. induction pre as [|x pre IH]; cbn [app] in HS.
    + inversion HS as [|? ? _ Hall]; subst. rewrite Forall_forall in Hall. specialize (Hall a Ha).
      pose proof (compare_path_trans _ _ _ Hab Hall) as Haa. rewrite compare_path_refl in Haa. discriminate.
    + inversion HS; subst. auto.
Qed.

Theorem nested_any_dir_first_proof ost inner target cs c :
  sd_wf inner -> no_linkname inner -> wf_name (st_path ost) -> st_is_dir ost = true ->
  cs <> [] -> c <> [] -> Forall nosep (cs ++ c) ->
  let P := map fst (nested_listing ost inner target) in
  In (joinc cs) P -> In (joinc (cs ++ c)) P ->
  exists pre post, P = pre ++ joinc (cs ++ c) :: post /\ In (joinc cs) pre.
Proof.
  intros Hsd Hnl Ho Hd Hne Hc Hns P Ha Hb.
  apply sorted_occurs_before; auto.
  - apply (proj2 (nested_walk_any_sorted_proof ost inner target Hsd Hnl Ho Hd)).
  - apply path_lt_below; auto.
Qed.

Theorem subdir_any_dir_first_proof ds target cs c cbs e :
  sd_wf ds -> walk_subdirs ds target = Some (cbs, e) ->
  cs <> [] -> c <> [] -> Forall nosep (cs ++ c) ->
  In (joinc cs) (map fst cbs) -> In (joinc (cs ++ c)) (map fst cbs) ->
  exists pre post, map fst cbs = pre ++ joinc (cs ++ c) :: post /\ In (joinc cs) pre.
Proof.
  intros Hsd Hw Hne Hc Hns Ha Hb.
  destruct (subdir_walk_any_sorted_proof ds target Hsd) as (cbs' & Hw' & HS & _).
  rewrite Hw in Hw'. inversion Hw'; subst cbs'.
  apply sorted_occurs_before; auto. apply path_lt_below; auto.
Qed.
