From Coq Require Import List Arith Bool PeanoNat Lia ZifyBool Permutation.
From FS Require Import Model.Lts Model.LtsExplore Proofs.LtsInv Proofs.LtsSafe Proofs.LtsTerm Proofs.LtsC08 Proofs.LtsTok Proofs.LtsContent Proofs.LtsContent2 Proofs.LtsContent3.
From FS Require Import Proofs.LtsClean1 Proofs.LtsClean2 Proofs.LtsClean3 Proofs.LtsClean4.
Import ListNotations.

Lemma inv_rs_reachable : forall p st, reachable p st -> inv_rs st.
Proof. induction 1. unfold inv_rs; cbn. apply Nat.le_refl. eapply inv_rs_step; eauto. Qed.

(* a call that returned an error has its error flag set *)
Definition inv_ret (st : state) : Prop :=
  (send_ret st = Some false -> s_err st = true) /\ (recv_ret st = Some false -> r_err st = true).
Lemma inv_ret_step : forall p st l st', inv_ret st -> step p st l = Some st' -> inv_ret st'.
Proof.
  intros p st l st' (A & B) H. unfold inv_ret.
  destruct l; unfold_steps H; step_split H; inv_some; subst;
  repeat match goal with w : writer |- _ => destruct w; cbn in * end; subst; cbn;
  split; intro X; auto; try discriminate X;
  try (injection X as X; destruct (s_err st); cbn in *; congruence);
  try (injection X as X; destruct (r_err st); cbn in *; congruence).
  all: try (apply A; congruence); try (apply B; congruence).
Qed.
Lemma inv_ret_reachable : forall p st, reachable p st -> inv_ret st.
Proof. induction 1. split; intro X; discriminate X. eapply inv_ret_step; eauto. Qed.

Lemma scal_init : forall p, scal (init p).
Proof. intro p. constructor; cbn; auto; intro X; discriminate X. Qed.

Lemma sumf_wsel_nil : forall c id, sumf (wsel c id) [] = 0.
Proof. reflexivity. Qed.

Lemma wq_init : forall p id, wq p id (init p).
Proof.
  intros p id. constructor; unfold wsum, tok, down, sw_bound, dl_bound; cbn;
  rewrite ?sumf_repeat_idle; unfold cnt, cntE, cntQ; cbn; intros; try lia; try reflexivity;
  try (destruct (is_file p id); reflexivity);
  unfold sumf in *; cbn in *; lia.
Qed.

Definition fault_free (ls : list label) : Prop := forallb fault_free_label ls = true.

Lemma ff_run_from : forall p ls st st', wf_params p ->
  reachable p st -> scal st -> (forall id, wq p id st) ->
  fault_free ls -> run p st ls = Some st' -> scal st' /\ (forall id, wq p id st').
Proof.
  induction ls; intros st st' WF R K W F H; cbn in H.
  - injection H as H. subst. auto.
  - destruct (step p st a) as [s1|] eqn:E; try discriminate.
    unfold fault_free in F. change (forallb fault_free_label (a :: ls)) with (fault_free_label a && forallb fault_free_label ls) in F.
    apply andb_prop in F. destruct F as [F1 F2].
    pose proof (inv_reachable _ _ R) as J. destruct J.
    pose proof (inv7_reachable _ _ R) as J7. destruct J7.
    assert (K1: scal s1).
    { exact (scal_step p st WF K i_1 i_2 i_3 (inv_fin_reachable _ _ R) (inv9a_reachable _ _ R)
                (inv_rs_reachable _ _ R) i_7a (tokinv_reachable _ _ R) W
                (fun id => cinv_reachable p id st R) (fun id N => ninv_reachable p id st N R) a s1 F1 E). }
    apply (IHls s1 st' WF); auto.
    + econstructor; eauto.
    + intro id. exact (wq_step p id st a s1 K K1 (inv9a_reachable _ _ R) i_1 i_3 (W id) E).
Qed.

(* every fault-free run keeps the "no error" invariant ... *)
Lemma fault_free_clean : forall p ls st, wf_params p -> fault_free ls -> run p (init p) ls = Some st -> scal st.
Proof.
  intros p ls st WF F H.
  destruct (ff_run_from p ls (init p) st WF (reach_init p) (scal_init p) (wq_init p) F H). auto.
Qed.

(* ... hence a complete fault-free run returns nil on both sides *)
Lemma fault_free_success_proof : forall p ls st, wf_params p -> fault_free ls ->
  run p (init p) ls = Some st -> final st = true ->
  send_ret st = Some true /\ recv_ret st = Some true.
Proof.
  intros p ls st WF F H Fin.
  pose proof (fault_free_clean p ls st WF F H) as K.
  assert (R: reachable p st) by (eapply run_reachable; [apply reach_init | exact H]).
  destruct (inv_ret_reachable _ _ R) as [A B].
  unfold final in Fin. apply andb_prop in Fin. destruct Fin as [Fin R2]. apply andb_prop in Fin. destruct Fin as [_ R1].
  split.
  - destruct (send_ret st) as [[]|]; auto; [|discriminate R1]. rewrite (k_se st K) in A. specialize (A eq_refl). discriminate.
  - destruct (recv_ret st) as [[]|]; auto; [|discriminate R2]. rewrite (k_re st K) in B. specialize (B eq_refl). discriminate.
Qed.

Lemma fault_free_not_open : forall ls, fault_free ls -> forallb not_open_err ls = true.
Proof.
  induction ls; intro F; auto. unfold fault_free in *.
  change (forallb fault_free_label (a :: ls)) with (fault_free_label a && forallb fault_free_label ls) in F.
  apply andb_prop in F. destruct F as [F1 F2].
  change (forallb not_open_err (a :: ls)) with (not_open_err a && forallb not_open_err ls).
  rewrite (IHls F2), andb_true_r. destruct a; try reflexivity; discriminate F1.
Qed.

(* outcome_deterministic, in full *)
Lemma outcome_deterministic_proof : forall p ls1 ls2 st1 st2,
  wf_params p -> fault_free ls1 -> fault_free ls2 ->
  run p (init p) ls1 = Some st1 -> run p (init p) ls2 = Some st2 ->
  final st1 = true -> final st2 = true ->
  send_ret st1 = send_ret st2 /\ recv_ret st1 = recv_ret st2 /\
  Permutation (completed st1) (completed st2) /\
  Permutation (reqs st1) (reqs st2) /\
  Permutation (written st1) (written st2).
Proof.
  intros p ls1 ls2 st1 st2 WF F1 F2 R1 R2 E1 E2.
  destruct (fault_free_success_proof p ls1 st1 WF F1 R1 E1) as [S1 O1].
  destruct (fault_free_success_proof p ls2 st2 WF F2 R2 E2) as [S2 O2].
  split; [congruence|]. split; [congruence|].
  apply (outcome_deterministic_runs_proof p ls1 ls2); auto using fault_free_not_open.
Qed.
