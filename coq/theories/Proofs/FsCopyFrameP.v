(* C14 — frame facts about the Model/Fs.v primitives and system calls the copier uses:
   which inode records an operation can change, and what it does to directory entries. *)
From Coq Require Import List NArith Lia Bool ZifyN ZifyNat ZifyBool.
From FS Require Import Sx Model.Path Model.Fs Model.RootPath Model.CopyFs Model.CopyFsSpec
  Proofs.Lex Proofs.PathP Proofs.FsP.
Import ListNotations.
Open Scope N_scope.
Open Scope bool_scope.

Lemma dents_ents f i : dents f i = ents f i. Proof. reflexivity. Qed.

Lemma is_dir_tag f i : is_dir f i = true <-> itag (get f i) = Some 0.
Proof.
  unfold is_dir, dir_of. destruct (get f i) as [[k m]|]; simpl; [|split; discriminate].
  destruct k; simpl; split; congruence.
Qed.

Lemma dents_nil_not_dir f i : is_dir f i = false -> dents f i = [].
Proof. unfold is_dir, dents. destruct (dir_of f i) as [[p es]|]; [discriminate|reflexivity]. Qed.

Lemma dents_get f i p es m : get f i = Some {| i_kind := KDir p es; i_meta := m |} -> dents f i = es.
Proof. intros H. unfold dents, dir_of. rewrite H. reflexivity. Qed.

Lemma dents_get_nondir f i n : get f i = Some n -> (forall p es, i_kind n <> KDir p es) -> dents f i = [].
Proof.
  intros H Hk. unfold dents, dir_of. rewrite H. destruct n as [[p es|d|t|ty rd] m]; auto.
  exfalso. apply (Hk p es). reflexivity.
Qed.

(* ---------------- set_ents / add_ent / del_ent / create_at ---------------- *)
Lemma set_ents_other f d es j : j <> d -> get (set_ents f d es) j = get f j.
Proof.
  intros H. unfold set_ents. destruct (get f d) as [[[p es0|x|t|ty rd] m]|]; auto.
  apply get_put_other; auto.
Qed.

Lemma set_ents_same f d es p es0 m :
  get f d = Some {| i_kind := KDir p es0; i_meta := m |} ->
  get (set_ents f d es) d = Some {| i_kind := KDir p es; i_meta := with_mtime m now_mark |}.
Proof. intros H. unfold set_ents. rewrite H. apply get_put_same. Qed.

Lemma set_ents_nondir f d es : is_dir f d = false -> set_ents f d es = f.
Proof.
  unfold is_dir, dir_of, set_ents. destruct (get f d) as [[[p es0|x|t|ty rd] m]|]; auto. discriminate.
Qed.

Lemma set_ents_next f d es : f_next (set_ents f d es) = f_next f.
Proof. unfold set_ents. destruct (get f d) as [[[p es0|x|t|ty rd] m]|]; reflexivity. Qed.

Lemma set_ents_tag f d es j : itag (get (set_ents f d es) j) = itag (get f j).
Proof.
  destruct (N.eq_dec j d) as [->|H]; [|rewrite set_ents_other; auto].
  unfold set_ents. destruct (get f d) as [[[p es0|x|t|ty rd] m]|] eqn:E; rewrite ?E; auto.
  rewrite get_put_same. reflexivity.
Qed.

Lemma set_ents_dents f d es j : is_dir f d = true ->
  dents (set_ents f d es) j = if N.eqb j d then es else dents f j.
Proof.
  intros Hd. destruct (N.eqb_spec j d) as [->|H].
  - unfold is_dir, dir_of in Hd. destruct (get f d) as [[[p es0|x|t|ty rd] m]|] eqn:E; try discriminate.
    eapply dents_get. eapply set_ents_same; eauto.
  - unfold dents, dir_of. rewrite set_ents_other; auto.
Qed.

Lemma is_dir_set_ents f d es j : is_dir (set_ents f d es) j = is_dir f j.
Proof.
  pose proof (set_ents_tag f d es j) as H.
  destruct (is_dir (set_ents f d es) j) eqn:E1, (is_dir f j) eqn:E2; auto.
  - apply is_dir_tag in E1. rewrite H in E1. apply is_dir_tag in E1. congruence.
  - apply is_dir_tag in E2. rewrite <- H in E2. apply is_dir_tag in E2. congruence.
Qed.

(* the record of an inode other than d is untouched; d keeps kind, parent and metadata but mtime *)
Definition add_ent_eq f d name i : add_ent f d name i =
  match dir_of f d with Some (_, es) => set_ents f d (es ++ [(name, i)]) | None => f end := eq_refl.
Definition del_ent_eq f d name : del_ent f d name =
  match dir_of f d with Some (_, es) => set_ents f d (bremove name es) | None => f end := eq_refl.

Lemma add_ent_other f d name i j : j <> d -> get (add_ent f d name i) j = get f j.
Proof. intros H. rewrite add_ent_eq. destruct (dir_of f d) as [[p es]|]; auto. apply set_ents_other; auto. Qed.
Lemma del_ent_other f d name j : j <> d -> get (del_ent f d name) j = get f j.
Proof. intros H. rewrite del_ent_eq. destruct (dir_of f d) as [[p es]|]; auto. apply set_ents_other; auto. Qed.
Lemma add_ent_next f d name i : f_next (add_ent f d name i) = f_next f.
Proof. rewrite add_ent_eq. destruct (dir_of f d) as [[p es]|]; auto. apply set_ents_next. Qed.
Lemma del_ent_next f d name : f_next (del_ent f d name) = f_next f.
Proof. rewrite del_ent_eq. destruct (dir_of f d) as [[p es]|]; auto. apply set_ents_next. Qed.
Lemma add_ent_tag f d name i j : itag (get (add_ent f d name i) j) = itag (get f j).
Proof. rewrite add_ent_eq. destruct (dir_of f d) as [[p es]|]; auto. apply set_ents_tag. Qed.
Lemma del_ent_tag f d name j : itag (get (del_ent f d name) j) = itag (get f j).
Proof. rewrite del_ent_eq. destruct (dir_of f d) as [[p es]|]; auto. apply set_ents_tag. Qed.

Lemma add_ent_dents f d name i j : is_dir f d = true ->
  dents (add_ent f d name i) j = if N.eqb j d then dents f d ++ [(name, i)] else dents f j.
Proof.
  intros Hd. rewrite add_ent_eq. unfold dents at 2. unfold is_dir in Hd.
  destruct (dir_of f d) as [[p es]|] eqn:E; [|discriminate].
  apply set_ents_dents. unfold is_dir. rewrite E. reflexivity.
Qed.
Lemma del_ent_dents f d name j : is_dir f d = true ->
  dents (del_ent f d name) j = if N.eqb j d then bremove name (dents f d) else dents f j.
Proof.
  intros Hd. rewrite del_ent_eq. unfold dents at 2. unfold is_dir in Hd.
  destruct (dir_of f d) as [[p es]|] eqn:E; [|discriminate].
  apply set_ents_dents. unfold is_dir. rewrite E. reflexivity.
Qed.
Lemma add_ent_nondir f d name i : is_dir f d = false -> add_ent f d name i = f.
Proof. intros H. rewrite add_ent_eq. unfold is_dir in H. destruct (dir_of f d); [discriminate|reflexivity]. Qed.
Lemma del_ent_nondir f d name : is_dir f d = false -> del_ent f d name = f.
Proof. intros H. rewrite del_ent_eq. unfold is_dir in H. destruct (dir_of f d); [discriminate|reflexivity]. Qed.

Lemma is_dir_add_ent f d name i j : is_dir (add_ent f d name i) j = is_dir f j.
Proof. rewrite add_ent_eq. destruct (dir_of f d) as [[p es]|]; auto. apply is_dir_set_ents. Qed.
Lemma is_dir_del_ent f d name j : is_dir (del_ent f d name) j = is_dir f j.
Proof. rewrite del_ent_eq. destruct (dir_of f d) as [[p es]|]; auto. apply is_dir_set_ents. Qed.

(* a kind that has no entries: what create_at is called with *)
Definition leaf_kind (k : ikind) : Prop := match k with KDir _ es => es = [] | _ => True end.
Definition kind_dirb (k : ikind) : bool := match k with KDir _ _ => true | _ => false end.

Section CreateAt.
  Variables (f : fs) (r : lres) (isdir : bool) (k : ikind) (mode : N).
  Let nw := f_next f.
  Let f' := fst (create_at f r isdir k mode).
  Hypothesis Hfresh : alloc_ok f.
  Hypothesis Hd : is_dir f (l_dir r) = true.

  Lemma create_at_eq : create_at f r isdir k mode =
    (add_ent (fst (alloc f {| i_kind := k; i_meta := new_meta f (l_dir r) isdir mode |})) (l_dir r) (l_name r) nw, nw).
  Proof. reflexivity. Qed.

  Lemma dir_lt_next : l_dir r < f_next f.
  Proof.
    destruct (N.lt_ge_cases (l_dir r) (f_next f)) as [|H]; auto.
    apply Hfresh in H. unfold is_dir, dir_of in Hd. rewrite H in Hd. discriminate.
  Qed.

  Lemma create_at_snd : snd (create_at f r isdir k mode) = nw. Proof. reflexivity. Qed.

  Lemma create_at_next : f_next f' = f_next f + 1.
  Proof. unfold f'. rewrite create_at_eq. cbn [fst]. rewrite add_ent_next. reflexivity. Qed.

  Lemma create_at_other j : j <> l_dir r -> j <> nw -> get f' j = get f j.
  Proof.
    intros H1 H2. unfold f'. rewrite create_at_eq. cbn [fst]. rewrite add_ent_other by auto.
    apply get_alloc_other. exact H2.
  Qed.

  Lemma create_at_new : get f' nw = Some {| i_kind := k; i_meta := new_meta f (l_dir r) isdir mode |}.
  Proof.
    unfold f'. rewrite create_at_eq. cbn [fst]. pose proof dir_lt_next.
    rewrite add_ent_other by (unfold nw; lia). apply (get_alloc_new f).
  Qed.

  Lemma create_at_tag j : j <> nw -> itag (get f' j) = itag (get f j).
  Proof.
    intros H. unfold f'. rewrite create_at_eq. cbn [fst]. rewrite add_ent_tag.
    rewrite get_alloc_other; auto.
  Qed.

  Lemma create_at_is_dir j : is_dir f' j = if N.eqb j nw then kind_dirb k else is_dir f j.
  Proof.
    destruct (N.eqb_spec j nw) as [->|H].
    - unfold is_dir, dir_of. rewrite create_at_new. destruct k; reflexivity.
    - pose proof (create_at_tag j H) as Ht.
      destruct (is_dir f' j) eqn:E1, (is_dir f j) eqn:E2; auto.
      + apply is_dir_tag in E1. rewrite Ht in E1. apply is_dir_tag in E1. congruence.
      + apply is_dir_tag in E2. rewrite <- Ht in E2. apply is_dir_tag in E2. congruence.
  Qed.

  Lemma create_at_dents j : leaf_kind k ->
    dents f' j = if N.eqb j (l_dir r) then dents f (l_dir r) ++ [(l_name r, nw)]
                 else if N.eqb j nw then [] else dents f j.
  Proof.
    intros Hleaf. pose proof dir_lt_next as Hlt.
    unfold f'. rewrite create_at_eq. cbn [fst].
    set (f1 := fst (alloc f {| i_kind := k; i_meta := new_meta f (l_dir r) isdir mode |})).
    assert (Hd1 : is_dir f1 (l_dir r) = true).
    { unfold is_dir, dir_of, f1. rewrite get_alloc_other by (unfold nw in *; lia). exact Hd. }
    rewrite add_ent_dents by auto.
    assert (Hsame : forall j, j <> nw -> dents f1 j = dents f j).
    { intros j0 H0. unfold dents, dir_of, f1. rewrite get_alloc_other; auto. }
    destruct (N.eqb_spec j (l_dir r)) as [->|H1].
    - rewrite Hsame by (unfold nw; lia). reflexivity.
    - destruct (N.eqb_spec j nw) as [->|H2]; [|apply Hsame; auto].
      unfold dents, dir_of, f1. rewrite (get_alloc_new f). cbn [i_kind].
      destruct k; simpl in *; subst; auto.
  Qed.
End CreateAt.

(* ---------------- metadata / content updates ---------------- *)
Lemma put_meta_tag f i n m j : get f i = Some n -> itag (get (put f i (set_meta n m)) j) = itag (get f j).
Proof.
  intros H. destruct (N.eq_dec j i) as [->|Hne]; [|rewrite get_put_other; auto].
  rewrite get_put_same, H. reflexivity.
Qed.
Lemma put_meta_dents f i n m j : get f i = Some n -> dents (put f i (set_meta n m)) j = dents f j.
Proof.
  intros H. unfold dents, dir_of. destruct (N.eq_dec j i) as [->|Hne]; [|rewrite get_put_other; auto].
  rewrite get_put_same, H. destruct n as [[p es|x|t|ty rd] m0]; reflexivity.
Qed.
Lemma put_meta_is_dir f i n m j : get f i = Some n -> is_dir (put f i (set_meta n m)) j = is_dir f j.
Proof. intros H. unfold is_dir, dir_of. fold (dir_of f j).
  pose proof (put_meta_dents f i n m j H). unfold dents, dir_of in *.
  destruct (N.eq_dec j i) as [->|Hne]; [|rewrite get_put_other; auto].
  rewrite get_put_same, H. destruct n as [[p es|x|t|ty rd] m0]; reflexivity.
Qed.

(* ---------------- inversion of the system calls ----------------
   Each lemma says: the call left the file system alone, or its lookup succeeded with [r] and the
   new file system is one primitive applied at [r]. *)
Ltac inv_pair H := injection H as <- <-.

Lemma sys_mkdir_inv c f p mode f' res : sys_mkdir c f p mode = (f', res) ->
  (f' = f /\ exists e, res = RErr e) \/
  exists r, resolve c f p false = inl r /\ l_ino r = None /\ res = ROk /\
            f' = fst (create_at f r true (KDir (l_dir r) []) (N.land mode mkdir_mask)).
Proof.
  unfold sys_mkdir. destruct (resolve c f p false) as [r|e]; [|intros H; inv_pair H; left; split; [auto|eexists; reflexivity]].
  destruct (l_ino r) eqn:E; intros H; inv_pair H; [left; split; [auto|eexists; reflexivity]|].
  right. exists r. repeat split; auto.
Qed.

Lemma sys_mknod_inv c f p typ mode rdev f' res : sys_mknod c f p typ mode rdev = (f', res) ->
  (f' = f /\ exists e, res = RErr e) \/
  exists r a b, resolve c f p false = inl r /\ l_ino r = None /\ res = ROk /\
            f' = fst (create_at f r false (KSpecial a b) (N.land mode perm_mask)).
Proof.
  unfold sys_mknod. destruct (resolve c f p false) as [r|e]; [|intros H; inv_pair H; left; split; [auto|eexists; reflexivity]].
  destruct (l_ino r) eqn:E; intros H; inv_pair H; [left; split; [auto|eexists; reflexivity]|].
  right. eexists r, _, _. repeat split; eauto.
Qed.

Lemma sys_mknod_reg_inv c f p mode f' res : sys_mknod_reg c f p mode = (f', res) ->
  (f' = f /\ exists e, res = RErr e) \/
  exists r, resolve c f p false = inl r /\ l_ino r = None /\ res = ROk /\
            f' = fst (create_at f r false (KFile []) (N.land mode perm_mask)).
Proof.
  unfold sys_mknod_reg. destruct (resolve c f p false) as [r|e]; [|intros H; inv_pair H; left; split; [auto|eexists; reflexivity]].
  destruct (l_ino r) eqn:E; intros H; inv_pair H; [left; split; [auto|eexists; reflexivity]|].
  right. exists r. repeat split; auto.
Qed.

Lemma sys_symlink_inv c f t p f' res : sys_symlink c f t p = (f', res) ->
  (f' = f /\ exists e, res = RErr e) \/
  exists r, resolve c f p false = inl r /\ l_ino r = None /\ res = ROk /\
            f' = fst (create_at f r false (KLink t) 511).
Proof.
  unfold sys_symlink. destruct t as [|t0 t1]; [intros H; inv_pair H; left; split; [auto|eexists; reflexivity]|].
  destruct (has_nul (t0 :: t1)); [intros H; inv_pair H; left; split; [auto|eexists; reflexivity]|].
  destruct (resolve c f p false) as [r|e]; [|intros H; inv_pair H; left; split; [auto|eexists; reflexivity]].
  destruct (l_ino r) eqn:E; intros H; inv_pair H; [left; split; [auto|eexists; reflexivity]|].
  right. exists r. repeat split; auto.
Qed.

Lemma sys_link_inv c f o p f' res : sys_link c f o p = (f', res) ->
  (f' = f /\ exists e, res = RErr e) \/
  exists i r, resolve_ino c f o false = inl i /\ resolve c f p false = inl r /\ l_ino r = None /\
              is_dir f i = false /\ res = ROk /\ f' = add_ent f (l_dir r) (l_name r) i.
Proof.
  unfold sys_link. destruct (resolve_ino c f o false) as [i|e]; [|intros H; inv_pair H; left; split; [auto|eexists; reflexivity]].
  destruct (resolve c f p false) as [r|e]; [|intros H; inv_pair H; left; split; [auto|eexists; reflexivity]].
  destruct (l_ino r) eqn:E; [intros H; inv_pair H; left; split; [auto|eexists; reflexivity]|].
  destruct (is_dir f i) eqn:Ed; intros H; inv_pair H; [left; split; [auto|eexists; reflexivity]|].
  right. exists i, r. repeat split; auto.
Qed.

Lemma sys_open_wronly_inv c f p creat mode f' res : sys_open_wronly c f p creat mode = (f', res) ->
  (f' = f /\ (forall i, res <> RFd i)) \/
  (exists r i d, resolve c f p true = inl r /\ l_ino r = Some i /\ get f i = Some d /\
                 (exists x, i_kind d = KFile x) /\ res = RFd i /\ f' = f) \/
  (exists r, resolve c f p true = inl r /\ l_ino r = None /\ creat = true /\ res = RFd (f_next f) /\
             f' = fst (create_at f r false (KFile []) (N.land mode perm_mask))).
Proof.
  unfold sys_open_wronly. destruct (resolve c f p true) as [r|e]; [|intros H; inv_pair H; left; split; [auto|discriminate]].
  destruct (l_ino r) as [i|] eqn:E.
  - destruct (get f i) as [[[p0 es|x|t|ty rd] m]|] eqn:Eg; intros H; inv_pair H;
      try (left; split; [auto|discriminate]).
    right. left. exists r, i, {| i_kind := KFile x; i_meta := m |}. repeat split; auto. exists x. reflexivity.
  - destruct creat.
    + intros H. right. right. exists r. unfold create_at in *. cbn in H. inv_pair H. auto.
    + intros H; inv_pair H. left; split; [auto|discriminate].
Qed.

Lemma sys_unlink_inv c f p f' res : sys_unlink c f p = (f', res) ->
  (f' = f /\ exists e, res = RErr e) \/
  exists r i, resolve c f p false = inl r /\ l_ino r = Some i /\ is_dir f i = false /\ res = ROk /\
              f' = del_ent f (l_dir r) (l_name r).
Proof.
  unfold sys_unlink. destruct (resolve c f p false) as [r|e]; [|intros H; inv_pair H; left; split; [auto|eexists; reflexivity]].
  destruct (l_ino r) as [i|] eqn:E; [|intros H; inv_pair H; left; split; [auto|eexists; reflexivity]].
  destruct (is_dir f i) eqn:Ed; intros H; inv_pair H; [left; split; [auto|eexists; reflexivity]|].
  right. exists r, i. repeat split; auto.
Qed.

Lemma sys_rmdir_inv c f p f' res : sys_rmdir c f p = (f', res) ->
  (f' = f /\ exists e, res = RErr e) \/
  exists r i, resolve c f p false = inl r /\ l_ino r = Some i /\ l_name r <> [] /\ res = ROk /\
              f' = del_ent f (l_dir r) (l_name r).
Proof.
  unfold sys_rmdir. destruct (resolve c f p false) as [r|e]; [|intros H; inv_pair H; left; split; [auto|eexists; reflexivity]].
  destruct (l_ino r) as [i|] eqn:E; [|intros H; inv_pair H; left; split; [auto|eexists; reflexivity]].
  destruct (dir_of f i) as [[pp es]|]; [|intros H; inv_pair H; left; split; [auto|eexists; reflexivity]].
  destruct (l_name r) eqn:En; simpl; [intros H; inv_pair H; left; split; [auto|eexists; reflexivity]|].
  destruct (is_nil es); intros H; inv_pair H; [|left; split; [auto|eexists; reflexivity]].
  right. exists r, i. rewrite En. repeat split; auto. discriminate.
Qed.

Lemma sys_remove_all_inv c f p f' res : sys_remove_all c f p = (f', res) ->
  f' = f \/
  exists r i, resolve c f p false = inl r /\ l_ino r = Some i /\ l_name r <> [] /\ res = ROk /\
              f' = del_ent f (l_dir r) (l_name r).
Proof.
  unfold sys_remove_all. destruct p as [|a p]; [intros H; inv_pair H; auto|].
  destruct (ends_with_dot (a :: p)); [intros H; inv_pair H; auto|].
  destruct (resolve c f (a :: p) false) as [r|e].
  - destruct (l_ino r) as [i|] eqn:E; [|intros H; inv_pair H; auto].
    destruct (l_name r) eqn:En; simpl; intros H; inv_pair H; auto.
    right. exists r, i. rewrite En. repeat split; auto. discriminate.
  - destruct e; intros H; inv_pair H; auto.
Qed.

Lemma sys_chmod_inv c f p mode f' res : sys_chmod c f p mode = (f', res) ->
  (f' = f /\ exists e, res = RErr e) \/
  exists i n m, resolve_ino c f p true = inl i /\ get f i = Some n /\ res = ROk /\ f' = put f i (set_meta n m).
Proof.
  unfold sys_chmod. destruct (resolve_ino c f p true) as [i|e]; [|intros H; inv_pair H; left; split; [auto|eexists; reflexivity]].
  destruct (get f i) as [n|] eqn:E; intros H; inv_pair H; [|left; split; [auto|eexists; reflexivity]].
  right. eexists i, n, _. eauto.
Qed.

Lemma sys_lchown_inv c f p u g f' res : sys_lchown c f p u g = (f', res) ->
  (f' = f /\ exists e, res = RErr e) \/
  exists i n m, resolve_ino c f p false = inl i /\ get f i = Some n /\ res = ROk /\ f' = put f i (set_meta n m).
Proof.
  unfold sys_lchown. destruct (resolve_ino c f p false) as [i|e]; [|intros H; inv_pair H; left; split; [auto|eexists; reflexivity]].
  destruct (get f i) as [n|] eqn:E; intros H; inv_pair H; [|left; split; [auto|eexists; reflexivity]].
  right. eexists i, n, _. eauto.
Qed.

Lemma sys_utimens_inv c f p t f' res : sys_utimens c f p t = (f', res) ->
  (f' = f /\ exists e, res = RErr e) \/
  exists i n m, resolve_ino c f p false = inl i /\ get f i = Some n /\ res = ROk /\ f' = put f i (set_meta n m).
Proof.
  unfold sys_utimens. destruct (resolve_ino c f p false) as [i|e]; [|intros H; inv_pair H; left; split; [auto|eexists; reflexivity]].
  destruct (get f i) as [n|] eqn:E; intros H; inv_pair H; [|left; split; [auto|eexists; reflexivity]].
  right. eexists i, n, _. eauto.
Qed.

Lemma sys_lsetxattr_inv c f p k v f' res : sys_lsetxattr c f p k v = (f', res) ->
  (f' = f /\ exists e, res = RErr e) \/
  exists i n m, resolve_ino c f p false = inl i /\ get f i = Some n /\ res = ROk /\ f' = put f i (set_meta n m).
Proof.
  unfold sys_lsetxattr. destruct (resolve_ino c f p false) as [i|e]; [|intros H; inv_pair H; left; split; [auto|eexists; reflexivity]].
  destruct (get f i) as [n|] eqn:E; [|intros H; inv_pair H; left; split; [auto|eexists; reflexivity]].
  destruct (negb (has_prefix pfx_user k) && negb (has_prefix pfx_trusted k)); [intros H; inv_pair H; left; split; [auto|eexists; reflexivity]|].
  destruct (has_prefix pfx_user k && _); intros H; inv_pair H; [left; split; [auto|eexists; reflexivity]|].
  right. eexists i, n, _. eauto.
Qed.

(* reads never change anything *)
Lemma sys_lstat_fs c f p : fst (sys_lstat c f p) = f.
Proof. unfold sys_lstat. destruct (resolve_ino c f p false); [destruct (get f n)|]; reflexivity. Qed.
Lemma sys_stat_fs c f p : fst (sys_stat c f p) = f.
Proof. unfold sys_stat. destruct (resolve_ino c f p true); [destruct (get f n)|]; reflexivity. Qed.
Lemma sys_readlink_fs c f p : fst (sys_readlink c f p) = f.
Proof.
  unfold sys_readlink. destruct (resolve_ino c f p false); [|reflexivity].
  destruct (get f n) as [[[p0 es|x|t|ty rd] m]|]; reflexivity.
Qed.
Lemma sys_readdir_fs c f p : fst (sys_readdir c f p) = f.
Proof. unfold sys_readdir. destruct (resolve_ino c f p true); [destruct (dir_of f n) as [[? ?]|]|]; reflexivity. Qed.
