(* Assembly of the C04 statements from LtsInv / LtsSafe / LtsTerm, and the regression
   witness for fix 6c5966d (queue() without the ctx.Done branch: Send never returns). *)
From Coq Require Import List Arith Bool PeanoNat Lia.
From FS Require Import Model.Lts Model.LtsExplore Proofs.LtsInv Proofs.LtsSafe Proofs.LtsTerm.
Import ListNotations.

(* every label that can move is one of the enumerated candidates *)
Lemma step_in_all_labels : forall p st l st', step p st l = Some st' -> In l (all_labels st).
Proof.
  intros p st l st' H. unfold all_labels.
  destruct l; try (apply in_or_app; left; cbn; tauto).
  - apply in_or_app; right. apply in_or_app; left. apply in_flat_map. exists j. split; [|cbn; tauto].
    apply in_seq. cbn in H. unfold step_worker in H.
    destruct (nth_error (wks st) j) eqn:E; try discriminate. apply nth_error_some_lt in E. lia.
  - apply in_or_app; right. apply in_or_app; left. apply in_flat_map. exists j. split; [|cbn; tauto].
    apply in_seq. cbn in H. unfold step_worker_openerr in H.
    destruct (nth_error (wks st) j) eqn:E; try discriminate. apply nth_error_some_lt in E. lia.
  - apply in_or_app; right. apply in_or_app; left. apply in_flat_map. exists j. split; [|cbn; tauto].
    apply in_seq. cbn in H. unfold step_worker_readerr in H.
    destruct (nth_error (wks st) j) eqn:E; try discriminate. apply nth_error_some_lt in E. lia.
  - apply in_or_app; right. apply in_or_app; right. apply in_flat_map. exists j. split; [|cbn; tauto].
    apply in_seq. cbn in H. unfold step_writer in H.
    destruct (nth_error (wrs st) j) eqn:E; try discriminate. apply nth_error_some_lt in E. lia.
  - apply in_or_app; right. apply in_or_app; right. apply in_flat_map. exists j. split; [|cbn; tauto].
    apply in_seq. cbn in H. unfold step_writer_ctx in H.
    destruct (nth_error (wrs st) j) eqn:E; try discriminate. apply nth_error_some_lt in E. lia.
  - apply in_or_app; right. apply in_or_app; right. apply in_flat_map. exists j. split; [|cbn; tauto].
    apply in_seq. cbn in H. unfold step_writer_cberr in H.
    destruct (nth_error (wrs st) j) eqn:E; try discriminate. apply nth_error_some_lt in E. lia.
Qed.

Lemma enabled_nil_no_step : forall p st, enabled p st = [] -> forall l, step p st l = None.
Proof.
  intros p st E l. destruct (step p st l) eqn:S; auto. exfalso.
  assert (In l (enabled p st)).
  { unfold enabled. apply filter_In. split. eapply step_in_all_labels; eauto. rewrite S. reflexivity. }
  rewrite E in H. contradiction.
Qed.

(* torn_down_terminates: for every W >= 1, P, C, C2, stream capacities, entry list, and every
   reachable state in which the stream is torn down *)
Lemma torn_down_terminates_proof : forall p st,
  p_W p >= 1 -> p_old_queue p = false -> reachable p st -> torn_down st = true ->
  (* (a) every step strictly decreases the measure and stays torn down *)
  (forall l st', step p st l = Some st' -> mu st' < mu st /\ torn_down st' = true) /\
  (* (b) unless both calls have returned and every goroutine has ended, a goroutine can move *)
  (final st = false -> exists l, is_env l = false /\ step p st l <> None) /\
  (* hence: every execution from st has at most mu st steps ... *)
  (forall ls st', run p st ls = Some st' -> length ls <= mu st) /\
  (* ... and an execution that cannot be extended has ended with both calls returned and
     no goroutine live *)
  (forall ls st', run p st ls = Some st' -> enabled p st' = [] -> final st' = true).
Proof.
  intros p st HW HQ R T. repeat split.
  - eapply mu_decreases_proof; eauto.
  - eapply torn_down_step; eauto.
  - intro NF. apply progress_proof; auto.
  - intros ls st' H. destruct (run_bounded_proof _ _ _ _ T H). lia.
  - intros ls st' H E. destruct (run_bounded_proof _ _ _ _ T H) as [_ T'].
    pose proof (run_reachable _ _ _ _ R H) as R'.
    destruct (final st') eqn:F; auto. exfalso.
    destruct (progress_proof p st' HW HQ R' T' F) as (l & _ & S).
    apply S. apply enabled_nil_no_step. exact E.
Qed.

Lemma fault_reaches_peer_proof : forall p st, reachable p st ->
  (* sender: a walk error / cancelled walk / failed STAT send puts the walker on the error path,
     on which its next stream operation is SendMsg(ERR) *)
  ((forall st', step p st LSWalkErr = Some st' -> err_path_s st') /\
   (sw_pc st = SW_Next -> sw_i st < nentries p -> s_cancel st = true -> forall st', step p st LSWalk = Some st' -> err_path_s st') /\
   (forall k, sw_pc st = SW_Send k -> s_broken st = true -> forall st', step p st LSWalk = Some st' ->
      err_path_s st' \/ k = KErr) /\
   (err_path_s st ->
      step p st LSWalkErr = None /\
      (forall l st', step p st l = Some st' -> l <> LSWalk -> sw_pc st' = sw_pc st) /\
      (forall st', step p st LSWalk = Some st' ->
         (sw_pc st = SW_Lock KErr /\ sw_pc st' = SW_Send KErr /\ buf_sr st' = buf_sr st) \/
         (sw_pc st = SW_Send KErr /\ sw_pc st' = SW_Done /\
          (s_broken st = false -> buf_sr st' = buf_sr st ++ [PErr]))))) /\
  (* receiver: an error of the diff / a callback / a writer puts the first goroutine of
     receiver.run on the error path, which ends with SendMsg(ERR) *)
  ((forall st', step p st LDiffCbErr = Some st' -> err_path_r st') /\
   (err_path_r st ->
      (forall l st', step p st l = Some st' -> l <> LDiffOuter -> err_path_r st') /\
      (forall st', step p st LDiffOuter = Some st' ->
         err_path_r st' \/
         (do_pc st = DO_SendErr /\ do_pc st' = DO_Done /\
          (r_broken st = false -> buf_rs st' = buf_rs st ++ [PErr]))))).
Proof.
  intros p st R. split.
  - apply fault_reaches_peer_sender.
  - apply fault_reaches_peer_receiver. exact R.
Qed.

(* ---------- regression witness for fix 6c5966d ---------- *)
(* W = 1, cap(sendpipeline) = 0, two files whose content is requested.  The worker takes
   file 0 and is inside SendMsg(DATA) when the stream is torn down; the request loop has
   received REQ 1 and sits in queue() on the pipeline send.  The worker returns the stream
   error and exits; nobody will ever receive from the pipeline.  With the old queue()
   (unconditional channel send) no label is enabled in the resulting state although Send has
   not returned. *)
Definition oldq_params : params :=
  {| p_W := 1; p_P := 0; p_C := 1; p_C2 := 1; p_capSR := 1; p_capRS := 2;
     p_entries := [ {| e_file := true; e_chunks := 1; e_kind := ENeed |};
                    {| e_file := true; e_chunks := 1; e_kind := ENeed |} ];
     p_old_queue := true |}.
Definition oldq_trace : list label :=
  [LReq; LSWalk; LSWalk; LSWalk; LRecvLoop; LRecvLoop; LRecvLoop;
   LFill; LFill; LDiff; LDiff; LWriter 0; LWriter 0;
   LWriter 0; LSWalk; LSWalk; LSWalk; LRecvLoop; LRecvLoop; LRecvLoop;
   LFill; LFill; LDiff; LDiff; LWriter 1; LWriter 1;
   LWriter 1; LReq; LReq; LWorker 0; LWorker 0;
   LWorker 0; LWorker 0; LWorker 0; LReq; LReq; LSWalk; LEnvTearDown;
   LWorker 0; LRecvLoop; LWriterCtx 1; LWriterCtx 0; LDiffCtx;
   LFillCtx; LFill; LFill; LDiffOuter; LDiffOuter; LDiffOuter;
   LRecvRet; LSWalk; LSWalk; LSWalk; LSWalk].

Definition stuck_b (p : params) (st : state) : bool :=
  forallb (fun l => is_none (step p st l)) (all_labels st).

Lemma stuck_b_sound : forall p st, stuck_b p st = true -> forall l, step p st l = None.
Proof.
  intros p st H l. destruct (step p st l) eqn:S; auto. exfalso.
  unfold stuck_b in H. rewrite forallb_forall in H.
  specialize (H l (step_in_all_labels _ _ _ _ S)). rewrite S in H. discriminate.
Qed.

Lemma old_queue_deadlock_proof :
  exists p ls st,
    p_W p >= 1 /\ p_old_queue p = true /\ run p (init p) ls = Some st /\ reachable p st /\
    torn_down st = true /\ send_ret st = None /\ final st = false /\
    (forall l, step p st l = None).
Proof.
  exists oldq_params, oldq_trace.
  destruct (run oldq_params (init oldq_params) oldq_trace) as [st|] eqn:E.
  2:{ vm_compute in E. discriminate E. }
  exists st. split; [cbn; lia|]. split; [reflexivity|]. split; [reflexivity|].
  split; [eapply run_reachable; [apply reach_init | exact E]|].
  assert (X: torn_down st = true /\ send_ret st = None /\ final st = false /\ stuck_b oldq_params st = true).
  { vm_compute in E. injection E as E. subst st. vm_compute. repeat split; reflexivity. }
  destruct X as (X1 & X2 & X3 & X4). repeat split; auto. apply stuck_b_sound. exact X4.
Qed.

(* ---------- without tear-down a receiver-side error can stop everything ---------- *)
(* W = 1, every capacity 0, three requested files and a directory whose NotifyHashed fails,
   two more entries behind it.  File 0 is with the worker (waiting for the stream mutex that
   the walker holds), REQ 1 has been received and the request loop sits in queue(), the writer
   of file 2 is inside SendMsg(REQ) holding the receiver's stream mutex, the receive loop is
   parked in dynamicWalker.update.  The callback error closes the walker: the receive loop
   returns, the goroutine that has to send ERR waits for the mutex, the walker is inside
   SendMsg(end of walk) with nobody receiving.  Neither call has returned, so nobody tears the
   stream down; no goroutine can move.  (3 outstanding requests > P + W + cap(r->s) = 1.) *)
Definition nt_params : params :=
  {| p_W := 1; p_P := 0; p_C := 0; p_C2 := 0; p_capSR := 0; p_capRS := 0;
     p_entries := [ {| e_file := true; e_chunks := 1; e_kind := ENeed |};
                    {| e_file := true; e_chunks := 1; e_kind := ENeed |};
                    {| e_file := true; e_chunks := 1; e_kind := ENeed |};
                    {| e_file := false; e_chunks := 0; e_kind := EMeta |};
                    {| e_file := false; e_chunks := 0; e_kind := ESame |};
                    {| e_file := false; e_chunks := 0; e_kind := ESame |} ];
     p_old_queue := false |}.
Definition nt_trace : list label :=
  [LSWalk; LSWalk; LSWalk; LSWalk; LSWalk; LRecvLoop; LRecvLoop;
   LRecvLoop; LSWalk; LSWalk; LSWalk; LRecvLoop; LRecvLoop; LFill;
   LFill; LRecvLoop; LSWalk; LSWalk; LSWalk; LRecvLoop; LRecvLoop;
   LFill; LDiff; LDiff; LFill; LRecvLoop; LSWalk; LSWalk; LSWalk;
   LRecvLoop; LRecvLoop; LFill; LDiff; LDiff; LFill; LRecvLoop; LSWalk;
   LSWalk; LSWalk; LRecvLoop; LRecvLoop; LFill; LDiff; LDiff; LFill;
   LRecvLoop; LSWalk; LSWalk; LSWalk; LRecvLoop; LRecvLoop; LFill;
   LDiff; LWriter 0; LWriter 0; LWriter 1; LWriter 2; LReq;
   LWriter 0; LWriter 1; LReq; LReq; LReq; LWriter 1;
   LWriter 2; LReq; LWorker 0; LWorker 0; LWorker 0;
   LWorker 0; LDiffCbErr; LFillCtx; LFill; LFill; LRecvLoopClosed;
   LWriterCtx 0; LWriterCtx 1; LDiffOuter].

Definition prog_stuck_b (p : params) (st : state) : bool :=
  forallb (fun l => is_env l || is_none (step p st l)) (all_labels st).

Lemma prog_stuck_b_sound : forall p st, prog_stuck_b p st = true ->
  forall l, is_env l = false -> step p st l = None.
Proof.
  intros p st H l E. destruct (step p st l) eqn:S; auto. exfalso.
  unfold prog_stuck_b in H. rewrite forallb_forall in H.
  specialize (H l (step_in_all_labels _ _ _ _ S)). rewrite E, S in H. discriminate.
Qed.

Lemma no_teardown_deadlock_proof :
  exists p ls st,
    p_W p >= 1 /\ p_old_queue p = false /\ run p (init p) ls = Some st /\
    filter is_env ls = [LDiffCbErr] /\
    torn_down st = false /\ s_broken st = false /\ r_broken st = false /\
    send_ret st = None /\ recv_ret st = None /\ final st = false /\
    length (reqs st) + length (filter (fun w => match wr_pc w with WR_Send => true | _ => false end) (wrs st))
      > p_P p + p_W p + p_capRS p /\
    (forall l, is_env l = false -> step p st l = None).
Proof.
  exists nt_params, nt_trace.
  destruct (run nt_params (init nt_params) nt_trace) as [st|] eqn:E.
  2:{ vm_compute in E. discriminate E. }
  exists st. split; [cbn; lia|]. split; [reflexivity|]. split; [reflexivity|]. split; [reflexivity|].
  assert (X: torn_down st = false /\ s_broken st = false /\ r_broken st = false /\
             send_ret st = None /\ recv_ret st = None /\ final st = false /\
             (p_P nt_params + p_W nt_params + p_capRS nt_params <?
              length (reqs st) + length (filter (fun w => match wr_pc w with WR_Send => true | _ => false end) (wrs st))) = true /\
             prog_stuck_b nt_params st = true).
  { vm_compute in E. injection E as E. subst st. vm_compute. repeat split; reflexivity. }
  destruct X as (X1 & X2 & X3 & X4 & X5 & X6 & X7 & X8). repeat split; auto.
  - apply Nat.ltb_lt in X7. exact X7.
  - apply prog_stuck_b_sound. exact X8.
Qed.
