(* Refinement LTS (sender side) -> sender acceptor, part 5: the request loop, the return of
   Send, and the theorem. *)
From Coq Require Import List NArith Bool Arith PeanoNat Lia ZifyN ZifyNat ZifyBool Permutation.
From FS Require Import Model.Lts Proofs.LtsInv.
From FS Require Import Sx Model.Path Model.Stat Model.Tree Model.AccEvents Model.SenderAcc Model.LtsAcc
     Proofs.AccEventsP Proofs.LtsAccP1 Proofs.LtsAccP2 Proofs.LtsAccP3 Proofs.LtsAccP4.
Import ListNotations.
Local Open Scope nat_scope.

Lemma N_ltb_of_nat : forall a b, N.ltb (N.of_nat a) (N.of_nat b) = (a <? b).
Proof. intros. destruct (N.ltb_spec (N.of_nat a) (N.of_nat b)), (Nat.ltb_spec a b); try lia; reflexivity. Qed.
Lemma N_eqb_of_nat : forall a b, N.eqb (N.of_nat a) (N.of_nat b) = (a =? b).
Proof. intros. destruct (N.eqb_spec (N.of_nat a) (N.of_nat b)), (Nat.eqb_spec a b); try lia; reflexivity. Qed.

Section SimR.
  Variable p : Lts.params.
  Variable exp : list Tree.entry.
  Variable ch : nat -> list bytes.
  Variable emsg rmsg : bytes.
  Variable fprog : N.
  Hypothesis Habs : abs_ok p exp ch.

  Notation arun := (AccEvents.run (sender_acc exp)).
  Notation evs := (sender_events exp ch emsg rmsg fprog).
  Notation INV := (inv p exp ch).

  Lemma is_file_regular : forall id, is_file p id = true -> exists c, regular_at exp id = Some c /\ concat (ch id) = c.
  Proof.
    intros id H. destruct Habs as (_ & Hf & Hc & _). rewrite Hf in H.
    destruct (regular_at exp id) as [c|] eqn:E; [|discriminate]. exists c. split; [reflexivity|]. apply Hc. exact E.
  Qed.
  Lemma not_file_not_regular : forall id, is_file p id = false -> regular_at exp id = None.
  Proof.
    intros id H. destruct Habs as (_ & Hf & _). rewrite Hf in H. destruct (regular_at exp id); [discriminate|reflexivity].
  Qed.

  (* the LTS accepts REQ id (files[id] exists): the acceptor takes it too *)
  Lemma on_req_accept : forall a id,
    nlookup (N.of_nat id) (s_req a) = None -> is_file p id = true -> id <= s_k a ->
    let r := (N.of_nat id, Sending (concat (ch id))) :: s_req a in
    on_req exp a (N.of_nat id) = set_req a r \/ on_req exp a (N.of_nat id) = set_soft (set_req a r).
  Proof.
    intros a id Hn Hf Hle r. unfold on_req. rewrite Hn, N_ltb_of_nat, N_eqb_of_nat, Nat2N.id.
    destruct (is_file_regular _ Hf) as (c & Hr & Hc).
    destruct (Nat.ltb_spec id (s_k a)).
    - rewrite Hr. left. unfold r. rewrite Hc. reflexivity.
    - assert (id = s_k a) by lia. subst id. rewrite Nat.eqb_refl, Hr. right. unfold r. rewrite Hc. reflexivity.
  Qed.

  (* the LTS refuses REQ id (no files[id]): the acceptor fails, or - the id is the STAT being
     sent - treats it as a request that raced its STAT *)
  Lemma on_req_refuse : forall a id k reg,
    s_k a = k -> k <= reg ->
    (id <? reg) && is_file p id && unrequested a id = false ->
    on_req exp a (N.of_nat id) = set_fail a \/
    (nlookup (N.of_nat id) (s_req a) = None /\
     exists c, on_req exp a (N.of_nat id) = set_soft (set_req a ((N.of_nat id, Sending c) :: s_req a))).
  Proof.
    intros a id k rg Hk Hle Hm. unfold on_req, unrequested in *. rewrite N_ltb_of_nat, N_eqb_of_nat, Nat2N.id, Hk.
    destruct (nlookup (N.of_nat id) (s_req a)) eqn:En; [left; reflexivity|].
    rewrite andb_true_r in Hm.
    destruct (Nat.ltb_spec id k).
    - destruct (Nat.ltb_spec id rg); [|lia]. cbn in Hm. rewrite (not_file_not_regular _ Hm). left; reflexivity.
    - destruct (Nat.eqb_spec id k); [|left; reflexivity].
      subst id. destruct (regular_at exp k) as [c|]; [|left; reflexivity].
      right. split; [reflexivity|]. exists c. reflexivity.
  Qed.

  Lemma unrequested_cons : forall a id f x,
    unrequested (set_req a ((N.of_nat id, f) :: s_req a)) x = negb (id =? x) && unrequested a x.
  Proof.
    intros. unfold unrequested. cbn. rewrite N_eqb_of_nat, Nat.eqb_sym.
    destruct (id =? x); reflexivity.
  Qed.
  Lemma unrequested_soft : forall a x, unrequested (set_soft a) x = unrequested a x.
  Proof. reflexivity. Qed.

  Ltac start_inv Hb Eret := split; [exact Hb|]; cbn; rewrite Eret.

  Lemma req_sim : forall st st' a, INV st a -> step_req p st = Some st' ->
    exists a', arun a (evs st LReq) = Some a' /\ INV st' a'.
  Proof.
    intros st st' a HI H.
    destruct (send_ret st) eqn:Eret.
    { destruct (returned_quiet _ _ _ _ _ _ HI Eret) as (_ & E & _). unfold step_req in H. rewrite E in H. discriminate. }
    destruct HI as [Hb HI]. rewrite Eret in HI. li_destruct HI. destruct Hwalk as [Hle Hw].
    unfold step_req in H. cbn [sender_events].
    destruct (rq_pc st) eqn:Erq.
    - (* RQ_Top *)
      exists a. split; [reflexivity|]. inv_some. subst st'.
      destruct (s_cancel st) eqn:Ec; start_inv Hb Eret; constructor; unf_all; cbn; rewrite ?Erq in *; fin.
    - (* RQ_Recv *)
      rewrite Hb in *. destruct (buf_rs st) as [|pk r] eqn:Ebuf; [discriminate|]. inv_some. subst st'.
      unfold req_rel in Hreq. rewrite Erq in Hreq. destruct Hreq as (Hrd & Hfi & Hfo).
      destruct pk; cbn [abs_in AccEvents.run]; unfold sender_acc; rewrite Hret, Hfin, Hrd.
      + (* a STAT from the receiver: ignored *)
        eexists. split; [reflexivity|]. start_inv Hb Eret.
        constructor; unf_all; cbn; rewrite ?Erq in *; fin.
      + eexists. split; [reflexivity|]. start_inv Hb Eret.
        constructor; unf_all; cbn; rewrite ?Erq in *; fin.
      + eexists. split; [reflexivity|]. start_inv Hb Eret.
        constructor; unf_all; cbn; rewrite ?Erq in *; fin.
      + eexists. split; [reflexivity|]. start_inv Hb Eret.
        constructor; unf_all; cbn; rewrite ?Erq in *; fin.
      + (* REQ id *)
        eexists. split; [reflexivity|].
        assert (Hlive : rq_live st = true) by (unfold rq_live; rewrite Erq; reflexivity).
        destruct (Hfiles Hlive) as [HF HG].
        assert (Hkr : acc_k st <= reg st) by (clear; unfold acc_k, reg; destruct (sw_pc st) as [|[]|[]|]; lia).
        destruct (memb id (sfiles st)) eqn:Em.
        * (* files[id] exists: queued *)
          rewrite HF in Em. apply andb_true_iff in Em. destruct Em as [Em Hu].
          apply andb_true_iff in Em. destruct Em as [Hlt Hf]. apply Nat.ltb_lt in Hlt.
          assert (Hn : nlookup (N.of_nat id) (s_req a) = None)
            by (unfold unrequested in Hu; destruct (nlookup (N.of_nat id) (s_req a)); [discriminate|reflexivity]).
          assert (Hidk : id <= s_k a)
            by (clear - Hk Hlt; rewrite Hk; unfold acc_k, reg in *; destruct (sw_pc st) as [|[]|[]|]; lia).
          assert (HT : tasks (set_sfiles (remb id (sfiles st)) (set_rq_pc (RQ_Push id) (set_buf_rs r st))) = (id, Full) :: tasks st)
            by (unfold tasks; cbn; rewrite Erq; reflexivity).
          assert (HF' : forall a', s_req a' = (N.of_nat id, Sending (concat (ch id))) :: s_req a ->
                    (forall x, unrequested a' x = negb (id =? x) && unrequested a x) ->
                    (forall x, memb x (remb id (sfiles st)) = (x <? reg st) && is_file p x && unrequested a' x) /\
                    (forall x, reg st <= x -> nlookup (N.of_nat x) (s_req a') = None)).
          { intros a' Ea' Hu'. split.
            - intros x. rewrite memb_remb, HF, Hu'. ring.
            - intros x Hx. rewrite Ea'. cbn. rewrite N_eqb_of_nat.
              destruct (Nat.eqb_spec x id); [clear - Hlt Hx e; lia|]. apply HG. exact Hx. }
          assert (HS' : forall n rem, nlookup n ((N.of_nat id, Sending (concat (ch id))) :: s_req a) = Some (Sending rem) ->
                    (exists id0, n = N.of_nat id0 /\ In id0 (map fst ((id, Full) :: tasks st))) \/ lts_bad st).
          { intros n rem Hn'. cbn in Hn'. destruct (N.eqb_spec n (N.of_nat id)).
            - left. exists id. split; [assumption|]. left. reflexivity.
            - destruct (Hsend n rem Hn') as [(id0 & E0 & Hin)|Hbad]; [left; exists id0; split; [exact E0|right; exact Hin]|right; exact Hbad]. }
          assert (HK' : NoDup (map fst ((N.of_nat id, Sending (concat (ch id))) :: s_req a)))
            by (cbn; constructor; [apply nlookup_none_notin; exact Hn|exact Hkeys]).
          assert (HTK : tasks_ok ch ((N.of_nat id, Sending (concat (ch id))) :: s_req a) ((id, Full) :: tasks st))
            by (apply tasks_ok_add; auto).
          destruct (on_req_accept a id Hn Hf Hidk) as [E|E]; rewrite E; start_inv Hb Eret.
          -- specialize (HF' (set_req a ((N.of_nat id, Sending (concat (ch id))) :: s_req a)) eq_refl (unrequested_cons a id _)).
             constructor; rewrite ?HT; unf_w; cbn; rewrite ?Erq in *; fin.
          -- specialize (HF' (set_soft (set_req a ((N.of_nat id, Sending (concat (ch id))) :: s_req a))) eq_refl (unrequested_cons a id _)).
             constructor; rewrite ?HT; unf_w; cbn; rewrite ?Erq in *; fin.
             all: try (intros; right; reflexivity).
             destruct (sw_pc st) as [|[]|[]|]; auto; right; reflexivity.
        * (* no files[id]: the reader fails *)
          rewrite HF in Em.
          destruct (on_req_refuse a id _ _ Hk Hkr Em) as [E|(Hn & c & E)]; rewrite E; start_inv Hb Eret.
          -- constructor; unf_all; cbn; rewrite ?Erq in *; fin.
             all: try (intros; left; reflexivity).
             destruct (sw_pc st) as [|[]|[]|]; auto; left; reflexivity.
          -- constructor; unf_all; cbn; rewrite ?Erq in *; fin.
             all: try (intros; right; reflexivity).
             ++ destruct (sw_pc st) as [|[]|[]|]; auto; right; reflexivity.
             ++ apply tasks_ok_cons_other; [exact Htasks|exact Hn].
             ++ constructor; [apply nlookup_none_notin; exact Hn|exact Hkeys].
      + (* FIN *)
        eexists. split; [reflexivity|]. start_inv Hb Eret.
        constructor; unf_all; cbn; rewrite ?Erq in *; fin.
      + (* ERR *)
        eexists. split; [reflexivity|]. start_inv Hb Eret.
        constructor; unf_all; cbn; rewrite ?Erq in *; fin.
        all: try (intros; left; reflexivity).
        destruct (sw_pc st) as [|[]|[]|]; auto; left; reflexivity.
    - (* RQ_Push id: queue() *)
      exists a. split; [reflexivity|].
      destruct (room_pipe p st); [|discriminate]. inv_some. subst st'.
      assert (PT : Permutation (tasks st) (tasks (set_pipe (pipe st ++ [id]) (set_rq_pc RQ_Top st)))).
      { unfold tasks. cbn. rewrite Erq. cbn. unfold pipe_tasks. rewrite map_app, <- app_assoc. cbn.
        apply Permutation_middle. }
      start_inv Hb Eret.
      constructor; unf_w; cbn; rewrite ?Erq in *; fin.
      + eapply tasks_ok_perm; [exact PT|exact Htasks].
      + eapply sending_mono; [exact Hsend| |auto].
        intros id0 Hin. eapply Permutation_in; [apply Permutation_map; exact PT|exact Hin].
      + intros Hex. destruct (Hwdone Hex) as [[_ E]|E]; [exfalso; auto|right; exact E].
    - (* RQ_LockFin: the mutex is taken, SendMsg(FIN) is called *)
      unfold lock_s in H. cbn in H. destruct (s_mu st); [discriminate|]. inv_some. subst st'.
      unfold req_rel in Hreq. rewrite Erq in Hreq. destruct Hreq as (Hfi & Hfo).
      cbn [AccEvents.run]. unfold sender_acc. rewrite Hret, Hfin, Hfi, Hfo. cbn [andb negb].
      eexists. split; [reflexivity|]. start_inv Hb Eret.
      constructor; unf_all; cbn; rewrite ?Erq in *; fin.
    - (* RQ_SendFin: SendMsg(FIN) completes *)
      unfold send_s in H. rewrite Hb in H. destruct (room_sr p st); [|discriminate]. inv_some. subst st'.
      exists a. split; [reflexivity|]. start_inv Hb Eret.
      constructor; unf_all; cbn; rewrite ?Erq in *; fin.
    - (* RQ_Close ok: close(sendpipeline) *)
      exists a. split; [reflexivity|]. inv_some. subst st'. start_inv Hb Eret.
      destruct ok; constructor; unf_all; cbn; rewrite ?Erq in *; fin.
      all: intros Hex; destruct (Hwdone Hex) as [[E _]|E]; [left; split; [exact E|reflexivity]|right; exact E].
    - (* RQ_Ret ok: the goroutine returns to the errgroup *)
      exists a. split; [reflexivity|]. inv_some. subst st'.
      destruct ok; start_inv Hb Eret; constructor; unf_all; unfold s_fail; cbn; rewrite ?Erq in *; fin.
      mono_w st.
    - (* RQ_Done *) discriminate.
  Qed.

  (* queue(): the ctx.Done branch *)
  Lemma reqctx_sim : forall st st' a, INV st a -> step_req_ctx p st = Some st' ->
    exists a', arun a (evs st LReqCtx) = Some a' /\ INV st' a'.
  Proof.
    intros st st' a HI H.
    destruct (send_ret st) eqn:Eret.
    { destruct (returned_quiet _ _ _ _ _ _ HI Eret) as (_ & E & _). unfold step_req_ctx in H. rewrite E in H. discriminate. }
    destruct HI as [Hb HI]. rewrite Eret in HI. li_destruct HI. destruct Hwalk as [Hle Hw].
    unfold step_req_ctx in H. cbn [sender_events]. exists a. split; [reflexivity|].
    destruct (rq_pc st) eqn:Erq; try discriminate.
    destruct (s_cancel st) eqn:Ec; [|discriminate]. destruct (p_old_queue p); [discriminate|]. cbn in H. inv_some. subst st'.
    assert (HT : tasks st = (id, Full) :: tasks (set_rq_pc (RQ_Close false) st))
      by (unfold tasks; cbn; rewrite Erq; reflexivity).
    rewrite HT in Htasks.
    start_inv Hb Eret.
    constructor; unf_w; cbn; rewrite ?Erq in *; fin.
    apply (tasks_ok_remove ch _ [] _ _ Htasks).
  Qed.

  Lemma all_done_no_tasks : forall l, forallb wk_done l = true -> flat_map wk_task l = [].
  Proof.
    induction l as [|w l IH]; [reflexivity|]. unfold forallb. fold (forallb wk_done l). intros H.
    apply andb_true_iff in H. destruct H as [H1 H2]. destruct w; try discriminate. cbn. apply IH. exact H2.
  Qed.

  (* g.Wait() returns: the deferred final progress call, then Send returns *)
  Lemma sendret_sim : forall st st' a, INV st a -> step_send_ret st = Some st' ->
    exists a', arun a (evs st LSendRet) = Some a' /\ INV st' a'.
  Proof.
    intros st st' a HI H. unfold step_send_ret in H.
    destruct (sender_quiet st) eqn:Hq; [|discriminate].
    destruct (send_ret st) eqn:Eret; [discriminate|]. cbn in H. inv_some. subst st'.
    destruct HI as [Hb HI]. rewrite Eret in HI. li_destruct HI. destruct Hwalk as [Hle Hw].
    pose proof Hq as Hq'. unfold sender_quiet, sw_is_done, rq_is_done in Hq'.
    apply andb_true_iff in Hq'. destruct Hq' as [Hq' Hwk]. apply andb_true_iff in Hq'. destruct Hq' as [Hsw Hrq].
    destruct (sw_pc st) eqn:Epc; try discriminate. destruct (rq_pc st) eqn:Erq; try discriminate.
    unfold req_rel in Hreq. rewrite Erq in Hreq.
    cbn [sender_events AccEvents.run].
    assert (Hle0 : N.leb (s_prog a) fprog = true) by (rewrite Hp0; apply N.leb_le; lia).
    unfold sender_acc at 1. rewrite Hret, Hfin, Hle0.
    unfold sender_acc. cbn [s_ret s_final set_prog].
    rewrite Hret.
    destruct (Lts.s_err st) eqn:Ee; cbn [negb].
    - (* Send fails *)
      assert (Hbad : SenderAcc.s_err a || s_soft a = true)
        by (destruct (Herr eq_refl) as [E|E]; rewrite E; auto using orb_true_r).
      cbn [SenderAcc.s_err s_soft set_prog]. rewrite Hbad.
      eexists. split; [reflexivity|]. split; [exact Hb|]. cbn. split; [reflexivity|].
      unfold sender_quiet, sw_is_done, rq_is_done. cbn. rewrite Epc, Erq, Hwk. reflexivity.
    - (* Send succeeds *)
      assert (He : SenderAcc.s_err a = false).
      { destruct (SenderAcc.s_err a) eqn:E; [|reflexivity].
        destruct (Haerr eq_refl) as [X|X]; [congruence|]. unfold rq_failed in X. rewrite Erq in X. discriminate. }
      assert (Hendm : s_endm a = true) by (destruct Hw as [X|X]; [exact X|congruence]).
      destruct Hreq as [[Hfi Hfo]|X]; [|congruence].
      assert (Hpipe : pipe st = []).
      { destruct (wks st) as [|w l] eqn:Ewks; [cbn in Hnwk; destruct Habs as (_ & _ & _ & _ & _ & HW); lia|].
        assert (Hw0 : w = WK_Done).
        { unfold forallb in Hwk. apply andb_true_iff in Hwk. destruct Hwk as [X _]. destruct w; try discriminate. reflexivity. }
        destruct (Hwdone (ex_intro _ 0 (f_equal Some Hw0))) as [[X _]|X]; [exact X|congruence]. }
      assert (HT : tasks st = []).
      { unfold tasks. rewrite Erq, Hpipe, (all_done_no_tasks _ Hwk). reflexivity. }
      assert (Hall : SenderAcc.all_done (s_req a) = true).
      { apply nlookup_all_done; [exact Hkeys|]. intros n rem Hn.
        destruct (Hsend n rem Hn) as [(id & _ & Hin)|[X|X]].
        - rewrite HT in Hin. exact Hin.
        - congruence.
        - unfold rq_failed in X. rewrite Erq in X. discriminate. }
      cbn [SenderAcc.s_err s_fin_in s_fin_out s_endm s_req set_prog]. rewrite He, Hfi, Hfo, Hendm, Hall. cbn [negb andb].
      eexists. split; [reflexivity|]. split; [exact Hb|]. cbn. split; [reflexivity|].
      unfold sender_quiet, sw_is_done, rq_is_done. cbn. rewrite Epc, Erq, Hwk. reflexivity.
  Qed.
End SimR.

Section Main.
  Variable p : Lts.params.
  Variable exp : list Tree.entry.
  Variable ch : nat -> list bytes.
  Variable emsg rmsg : bytes.
  Variable fprog : N.
  Hypothesis Habs : abs_ok p exp ch.

  Notation arun := (AccEvents.run (sender_acc exp)).
  Notation evs := (sender_events exp ch emsg rmsg fprog).
  Notation INV := (inv p exp ch).

  Lemma idle_no_tasks : forall n, flat_map wk_task (repeat WK_Idle n) = [].
  Proof. induction n; cbn; auto. Qed.

  Lemma inv_init : INV (init p) sinit.
  Proof.
    split; [reflexivity|]. cbn [send_ret init].
    assert (HT : tasks (init p) = []) by (unfold tasks; cbn; apply idle_no_tasks).
    constructor; rewrite ?HT; unf_w; cbn; fin.
    - split; [constructor|constructor].
    - constructor.
    - intros [j Hj]. apply nth_error_repeat in Hj. discriminate.
    - apply repeat_length.
  Qed.

  Lemma step_sim : forall st l st' a, INV st a -> sender_fault l = false -> Lts.step p st l = Some st' ->
    exists a', arun a (evs st l) = Some a' /\ INV st' a'.
  Proof.
    intros st l st' a HI Hf H.
    destruct l; try discriminate Hf;
      try (exists a; split; [reflexivity|]; eapply inv_frame; [eapply other_step_same_sender; [|exact H]; reflexivity|exact HI]);
      cbn [Lts.step] in H.
    - eapply walker_sim; eauto.
    - eapply worker_sim; eauto.
    - eapply req_sim; eauto.
    - eapply reqctx_sim; eauto.
    - eapply sendret_sim; eauto.
  Qed.

  Lemma run_sim : forall ls st0 a0 st, INV st0 a0 -> sender_fault_free ls = true -> Lts.run p st0 ls = Some st ->
    exists a, arun a0 (lts_trace p exp ch emsg rmsg fprog st0 ls) = Some a /\ INV st a.
  Proof.
    induction ls as [|l ls IH]; intros st0 a0 st HI Hff H; cbn in H.
    - inversion H; subst. exists a0. split; [reflexivity|exact HI].
    - cbn [lts_trace]. destruct (Lts.step p st0 l) as [st1|] eqn:E; [|discriminate].
      cbn in Hff. apply andb_true_iff in Hff. destruct Hff as [Hf Hff]. apply negb_true_iff in Hf.
      destruct (step_sim _ _ _ _ HI Hf E) as (a1 & R1 & HI1).
      destruct (IH _ _ _ HI1 Hff H) as (a & R & HIa).
      exists a. split; [|exact HIa]. rewrite run_app, R1. exact R.
  Qed.

  (* every boundary trace of a run of the LTS without sender-side faults is followed by the
     acceptor, and when Send has returned in the LTS the acceptor has seen the same return *)
  Lemma sender_lts_refines_acc_proof : forall ls st,
    sender_fault_free ls = true -> Lts.run p (init p) ls = Some st ->
    exists a, sender_run exp (lts_trace p exp ch emsg rmsg fprog (init p) ls) = Some a /\ s_ret a = send_ret st.
  Proof.
    intros ls st Hff H. destruct (run_sim ls _ _ _ inv_init Hff H) as (a & R & [_ HI]).
    exists a. split; [exact R|]. destruct (send_ret st).
    - apply HI.
    - destruct HI. tauto.
  Qed.
End Main.
