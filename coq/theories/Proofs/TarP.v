(* Proofs about the tar export model (Model/TarHdr.v). *)
From Coq Require Import List NArith ZArith Bool Lia ZifyN ZifyNat ZifyBool.
From FS Require Import Sx Model.Path Model.Stat Model.Tree Model.Hardlinks Model.TarHdr Proofs.Lex.
Import ListNotations.
Open Scope N_scope.

(* ------------------------------------------------------------------ *)
(* Bits: everything above the nine permission bits is handled on m / 512 *)

Lemma land_high : forall m k, N.land m (512 * k) = 512 * N.land (m / 512) k.
Proof.
  intros m k.
  change 512 with (2 ^ 9).
  rewrite (N.mul_comm (2 ^ 9) k), (N.mul_comm (2 ^ 9) (N.land _ _)).
  rewrite <- !N.shiftl_mul_pow2, <- N.shiftr_div_pow2.
  apply N.bits_inj; intro n.
  rewrite N.land_spec.
  destruct (N.ltb_spec n 9) as [Hlt | Hge].
  - rewrite !N.shiftl_spec_low by assumption. apply andb_false_r.
  - rewrite !N.shiftl_spec_high' by assumption.
    rewrite N.land_spec, N.shiftr_spec'.
    replace (n - 9 + 9) with n by lia. reflexivity.
Qed.

Lemma land_perm : forall m, N.land m 511 = m mod 512.
Proof. intro m. change 511 with (N.ones 9). rewrite N.land_ones. reflexivity. Qed.

Lemma has_bits_high : forall m k, has_bits m (512 * k) = has_bits (m / 512) k.
Proof.
  intros m k. unfold has_bits. rewrite land_high.
  destruct (N.eqb_spec (N.land (m / 512) k) 0) as [E | E].
  - rewrite E. reflexivity.
  - destruct (N.eqb_spec (512 * N.land (m / 512) k) 0); [lia | reflexivity].
Qed.

Lemma lor_low_high : forall p c, p < 512 -> N.lor p (512 * c) = p + 512 * c.
Proof.
  intros p c Hp.
  assert (H0 : N.land p (512 * c) = 0).
  { rewrite land_high. rewrite (N.div_small p 512 Hp). rewrite N.land_0_l. reflexivity. }
  rewrite (N.add_nocarry_lxor _ _ H0). symmetry. apply N.lxor_lor. exact H0.
Qed.

Lemma lor_512 : forall a b, N.lor (512 * a) (512 * b) = 512 * N.lor a b.
Proof.
  intros. change 512 with (2 ^ 9). rewrite !(N.mul_comm (2 ^ 9)).
  rewrite <- !N.shiftl_mul_pow2. symmetry. apply N.shiftl_lor.
Qed.

Lemma lor_acc : forall p c d, p < 512 -> N.lor (p + 512 * c) (512 * d) = p + 512 * N.lor c d.
Proof.
  intros p c d Hp.
  rewrite <- (lor_low_high p c Hp), <- N.lor_assoc, lor_512. apply lor_low_high. exact Hp.
Qed.

Lemma split_mod : forall p c, p < 512 -> (p + 512 * c) mod 512 = p.
Proof. intros p c Hp. pose proof (N.mod_small p 512 Hp). lia. Qed.
Lemma split_div : forall p c, p < 512 -> (p + 512 * c) / 512 = c.
Proof. intros p c Hp. lia. Qed.
Lemma mod512_lt : forall m, m mod 512 < 512.
Proof. intro. apply N.mod_lt. discriminate. Qed.
Lemma split_eq : forall m, m = m mod 512 + 512 * (m / 512).
Proof. intro m. pose proof (N.div_mod m 512). lia. Qed.

Lemma if_512 : forall (b : bool) k, (if b then 512 * k else 0) = 512 * (if b then k else 0).
Proof. destruct b; reflexivity. Qed.

(* ---- tar_mode, on the high part ---- *)
Definition tm_hi (h : N) : N :=
  N.lor (N.lor (N.lor 0 (if has_bits h 16384 then 4 else 0)) (if has_bits h 8192 then 2 else 0))
        (if has_bits h 2048 then 1 else 0).

Lemma tar_mode_split : forall m, tar_mode m = m mod 512 + 512 * tm_hi (m / 512).
Proof.
  intro m. unfold tar_mode, tm_hi.
  change ModePerm with 511. rewrite land_perm.
  change ModeSetuid with (512 * 16384). change ModeSetgid with (512 * 8192). change ModeSticky with (512 * 2048).
  rewrite !has_bits_high.
  change c_ISUID with (512 * 4). change c_ISGID with (512 * 2). change c_ISVTX with (512 * 1).
  rewrite !if_512.
  pose proof (mod512_lt m) as Hp.
  replace (m mod 512) with (m mod 512 + 512 * 0) at 1 by lia.
  rewrite !lor_acc by exact Hp. reflexivity.
Qed.

(* ---- go_mode_of_tar, on the high part ---- *)
Definition tb_hi (t : N) : N := type_bits_of_flag t / 512.
Lemma type_bits_512 : forall t, type_bits_of_flag t = 512 * tb_hi t.
Proof.
  intro t. unfold tb_hi, type_bits_of_flag.
  repeat match goal with |- context [if ?b then _ else _] => destruct b end; reflexivity.
Qed.

Definition gm_hi (t x : N) : N :=
  N.lor (N.lor (N.lor (N.lor 0 (if has_bits x 4 then 16384 else 0)) (if has_bits x 2 then 8192 else 0))
               (if has_bits x 1 then 2048 else 0)) (tb_hi t).

Lemma go_mode_split : forall t tm, go_mode_of_tar t tm = tm mod 512 + 512 * gm_hi t (tm / 512).
Proof.
  intros t tm. unfold go_mode_of_tar, gm_hi.
  change ModePerm with 511. rewrite land_perm.
  change c_ISUID with (512 * 4). change c_ISGID with (512 * 2). change c_ISVTX with (512 * 1).
  rewrite !has_bits_high.
  change ModeSetuid with (512 * 16384). change ModeSetgid with (512 * 8192). change ModeSticky with (512 * 2048).
  rewrite !if_512. rewrite type_bits_512.
  pose proof (mod512_lt tm) as Hp.
  replace (tm mod 512) with (tm mod 512 + 512 * 0) at 1 by lia.
  rewrite !lor_acc by exact Hp. reflexivity.
Qed.

(* ---- the type switch, on the high part ---- *)
Lemma eqb_512 : forall x, N.eqb (512 * x) 0 = N.eqb x 0.
Proof. intro x. destruct (N.eqb_spec x 0), (N.eqb_spec (512 * x) 0); try reflexivity; lia. Qed.

Definition TypeHi : N := ModeType / 512.
Definition reg_hi (h : N) : bool := N.eqb (N.land h TypeHi) 0.
Lemma mode_is_regular_hi : forall m, mode_is_regular m = reg_hi (m / 512).
Proof.
  intro m. unfold mode_is_regular, reg_hi.
  change ModeType with (512 * TypeHi). rewrite land_high. apply eqb_512.
Qed.
Lemma mode_is_dir_hi : forall m, mode_is_dir m = has_bits (m / 512) (ModeDir / 512).
Proof. intro m. unfold mode_is_dir. change ModeDir with (512 * (ModeDir / 512)) at 1. apply has_bits_high. Qed.
Lemma mode_is_symlink_hi : forall m, mode_is_symlink m = has_bits (m / 512) (ModeSymlink / 512).
Proof. intro m. unfold mode_is_symlink. change ModeSymlink with (512 * (ModeSymlink / 512)) at 1. apply has_bits_high. Qed.

Definition fih_hi (h : N) : option N :=
  if reg_hi h then Some TypeReg
  else if has_bits h (ModeDir / 512) then Some TypeDir
  else if has_bits h (ModeSymlink / 512) then Some TypeSymlink
  else if has_bits h (ModeDevice / 512) then Some (if has_bits h (ModeCharDevice / 512) then TypeChar else TypeBlock)
  else if has_bits h (ModeNamedPipe / 512) then Some TypeFifo
  else None.

Lemma fih_typeflag_hi : forall m, fih_typeflag m = fih_hi (m / 512).
Proof.
  intro m. unfold fih_typeflag, fih_hi.
  rewrite mode_is_regular_hi, mode_is_dir_hi, mode_is_symlink_hi.
  change ModeDevice with (512 * (ModeDevice / 512)) at 1.
  change ModeCharDevice with (512 * (ModeCharDevice / 512)) at 1.
  change ModeNamedPipe with (512 * (ModeNamedPipe / 512)) at 1.
  rewrite !has_bits_high. reflexivity.
Qed.

Definition tf_hi (h : N) (ln : bytes) : N :=
  if is_nil ln then match fih_hi h with Some t => t | None => 0 end
  else if has_bits h (ModeSymlink / 512) then TypeSymlink else TypeLink.
Lemma hdr_typeflag_hi : forall m ln, hdr_typeflag m ln = tf_hi (m / 512) ln.
Proof. intros. unfold hdr_typeflag, tf_hi. rewrite fih_typeflag_hi, mode_is_symlink_hi. reflexivity. Qed.

(* ---- the 48 well-formed high parts ---- *)
Definition link_ok_hi (h : N) (ln : bytes) : bool :=
  is_nil ln || has_bits h (ModeSymlink / 512) || reg_hi h.

Definition hi_facts (h : N) (ln : bytes) : bool :=
  N.eqb (gm_hi (tf_hi h ln) (tm_hi h)) h
  && Bool.eqb (N.eqb (tf_hi h ln) TypeDir) (has_bits h (ModeDir / 512))
  && match fih_hi h with Some _ => true | None => false end.

Lemma wf_high_parts_facts :
  forallb (fun h => hi_facts h [] && (negb (link_ok_hi h [0]) || hi_facts h [0])) wf_high_parts = true.
Proof. vm_compute. reflexivity. Qed.

Lemma hi_facts_ln : forall h c r, hi_facts h (c :: r) = hi_facts h [0].
Proof. reflexivity. Qed.
Lemma link_ok_hi_ln : forall h c r, link_ok_hi h (c :: r) = link_ok_hi h [0].
Proof. reflexivity. Qed.

Definition link_ok (m : N) (ln : bytes) : bool := is_nil ln || mode_is_symlink m || mode_is_regular m.
Lemma link_ok_hi_eq : forall m ln, link_ok m ln = link_ok_hi (m / 512) ln.
Proof. intros. unfold link_ok, link_ok_hi. rewrite mode_is_symlink_hi, mode_is_regular_hi. reflexivity. Qed.

Lemma hi_facts_of_wf : forall m ln,
  mode_okb m = true -> link_ok m ln = true -> hi_facts (m / 512) ln = true.
Proof.
  intros m ln Hm Hl. unfold mode_okb in Hm.
  apply existsb_exists in Hm. destruct Hm as [x [Hin Hx]].
  apply N.eqb_eq in Hx. rewrite Hx. rewrite link_ok_hi_eq, Hx in Hl.
  pose proof wf_high_parts_facts as F. rewrite forallb_forall in F. specialize (F x Hin).
  apply andb_true_iff in F. destruct F as [F1 F2].
  destruct ln as [| c r]; [exact F1 |].
  rewrite hi_facts_ln. rewrite link_ok_hi_ln in Hl. rewrite Hl in F2. exact F2.
Qed.

Lemma mode_roundtrip : forall m ln,
  mode_okb m = true -> link_ok m ln = true ->
  go_mode_of_tar (hdr_typeflag m ln) (tar_mode m) = m.
Proof.
  intros m ln Hm Hl. pose proof (hi_facts_of_wf m ln Hm Hl) as F.
  unfold hi_facts in F. apply andb_true_iff in F. destruct F as [F _].
  apply andb_true_iff in F. destruct F as [F _]. apply N.eqb_eq in F.
  rewrite go_mode_split, hdr_typeflag_hi, tar_mode_split.
  rewrite split_mod, split_div by apply mod512_lt.
  rewrite F. symmetry. apply split_eq.
Qed.

Lemma typeflag_dir_iff : forall m ln,
  mode_okb m = true -> link_ok m ln = true ->
  N.eqb (hdr_typeflag m ln) TypeDir = mode_is_dir m.
Proof.
  intros m ln Hm Hl. pose proof (hi_facts_of_wf m ln Hm Hl) as F.
  unfold hi_facts in F. apply andb_true_iff in F. destruct F as [F _].
  apply andb_true_iff in F. destruct F as [_ F]. apply eqb_prop in F.
  rewrite hdr_typeflag_hi, mode_is_dir_hi. exact F.
Qed.

Lemma fih_ok_of_wf : forall m, mode_okb m = true -> fih_ok m = true.
Proof.
  intros m Hm. pose proof (hi_facts_of_wf m [] Hm eq_refl) as F.
  unfold hi_facts in F. apply andb_true_iff in F. destruct F as [_ F].
  unfold fih_ok. rewrite fih_typeflag_hi. exact F.
Qed.

(* ------------------------------------------------------------------ *)
(* names *)
Lemma ends_with_sep_snoc : forall p, ends_with_sep (p ++ [sep]) = true.
Proof. intro p. unfold ends_with_sep. rewrite last_last. reflexivity. Qed.

Lemma name_roundtrip : forall m ln p,
  mode_okb m = true -> link_ok m ln = true -> ends_with_sep p = false ->
  strip_dir_slash (hdr_typeflag m ln) (tar_name m p) = p.
Proof.
  intros m ln p Hm Hl Hp. unfold strip_dir_slash, tar_name.
  rewrite (typeflag_dir_iff m ln Hm Hl). rewrite Hp. simpl negb. rewrite andb_true_r.
  destruct (mode_is_dir m); simpl.
  - rewrite ends_with_sep_snoc. apply removelast_last.
  - reflexivity.
Qed.

(* ------------------------------------------------------------------ *)
(* the header round trip *)
Lemma wf_stat_parts : forall s, wf_stat s ->
  mode_okb (st_mode s) = true /\ link_ok (st_mode s) (st_linkname s) = true /\ ends_with_sep (st_path s) = false.
Proof.
  intros s H. unfold wf_stat, wf_stat_b in H.
  apply andb_true_iff in H. destruct H as [H H3]. apply andb_true_iff in H. destruct H as [H1 H2].
  repeat split; try assumption. apply negb_true_iff. exact H3.
Qed.

Lemma hdr_roundtrip_proof : forall s, wf_stat s ->
  stat_of_hdr (archived (hdr_of_stat s)) = round_mtime_to_second (header_size_only s).
Proof.
  intros s H. destruct (wf_stat_parts s H) as [Hm [Hl Hp]].
  unfold stat_of_hdr, archived, hdr_of_stat, round_mtime_to_second, header_size_only, set_mtime, set_size, carries_size.
  cbn [h_name h_typeflag h_mode h_uid h_gid h_size h_mtime h_linkname h_devmajor h_devminor h_xattrs
       st_path st_mode st_uid st_gid st_size st_mtime st_linkname st_devmajor st_devminor st_xattrs].
  rewrite (name_roundtrip _ _ _ Hm Hl Hp), (mode_roundtrip _ _ Hm Hl).
  unfold hdr_size. reflexivity.
Qed.

Lemma header_size_only_id : forall s, carries_size s = true -> header_size_only s = s.
Proof. intros s H. unfold header_size_only. rewrite H. destruct s; reflexivity. Qed.

Lemma hdr_roundtrip_plain_file_proof : forall s, wf_stat s -> carries_size s = true ->
  stat_of_hdr (archived (hdr_of_stat s)) = round_mtime_to_second s.
Proof. intros s H C. rewrite (hdr_roundtrip_proof s H), (header_size_only_id s C). reflexivity. Qed.

(* ------------------------------------------------------------------ *)
(* payload *)
Lemma fih_reg_iff : forall m,
  N.eqb (match fih_typeflag m with Some t => t | None => 0 end) TypeReg = mode_is_regular m.
Proof.
  intro m. unfold fih_typeflag.
  destruct (mode_is_regular m); [reflexivity |].
  repeat match goal with |- context [if ?b then _ else _] => destruct b end; reflexivity.
Qed.

Lemma has_payload_spec : forall s,
  has_payload (hdr_of_stat s) = carries_size s && Z.ltb 0 (sint (st_size s)).
Proof.
  intro s. unfold has_payload, hdr_of_stat, carries_size, hdr_typeflag, hdr_size.
  cbn [h_typeflag h_size h_linkname].
  destruct (st_linkname s) as [| c r]; cbn [is_nil].
  - rewrite fih_reg_iff. destruct (mode_is_regular (st_mode s)); cbn.
    + rewrite andb_true_r. reflexivity.
    + reflexivity.
  - rewrite andb_false_r. reflexivity.
Qed.

Lemma payload_iff_proof : forall s,
  has_payload (hdr_of_stat s) = true <->
  (mode_is_regular (st_mode s) = true /\ st_linkname s = [] /\ (0 < sint (st_size s))%Z).
Proof.
  intro s. rewrite has_payload_spec. unfold carries_size.
  rewrite !andb_true_iff, Z.ltb_lt.
  destruct (st_linkname s); cbn [is_nil]; split; intros; intuition congruence.
Qed.

Lemma sint_small : forall n, n < two63 -> sint n = Z.of_N n.
Proof. intros n H. unfold sint. destruct (N.ltb_spec n two63); [reflexivity | lia]. Qed.

Lemma wf_entry_parts : forall e, wf_entry_b e = true ->
  wf_stat (fst e) /\
  (carries_size (fst e) = true -> st_size (fst e) < two63 /\ st_size (fst e) = blen (snd e)) /\
  tar_encodable (hdr_of_stat (fst e)) = true.
Proof.
  intros e H. unfold wf_entry_b in H.
  apply andb_true_iff in H. destruct H as [H H3]. apply andb_true_iff in H. destruct H as [H1 H2].
  split; [exact H1 |]. split; [| exact H3].
  intro C. rewrite C in H2. apply andb_true_iff in H2. destruct H2 as [A B].
  apply N.ltb_lt in A. apply N.eqb_eq in B. split; assumption.
Qed.

(* ---- the wider write domain (link names also on fifos and devices) ---- *)
Definition link_ok_w (m : N) (ln : bytes) : bool := is_nil ln || negb (mode_is_dir m).
Definition link_ok_w_hi (h : N) (ln : bytes) : bool := is_nil ln || negb (has_bits h (ModeDir / 512)).
Lemma link_ok_w_hi_eq : forall m ln, link_ok_w m ln = link_ok_w_hi (m / 512) ln.
Proof. intros. unfold link_ok_w, link_ok_w_hi. rewrite mode_is_dir_hi. reflexivity. Qed.

Lemma wf_high_parts_narrow_wide :
  forallb (fun h => negb (link_ok_hi h [0]) || link_ok_w_hi h [0]) wf_high_parts = true.
Proof. vm_compute. reflexivity. Qed.

Lemma link_ok_narrow_wide : forall m ln,
  mode_okb m = true -> link_ok m ln = true -> link_ok_w m ln = true.
Proof.
  intros m ln Hm Hl. destruct ln as [| c r]; [reflexivity |].
  unfold mode_okb in Hm. apply existsb_exists in Hm. destruct Hm as [x [Hin Hx]].
  apply N.eqb_eq in Hx. rewrite link_ok_hi_eq, Hx, link_ok_hi_ln in Hl. rewrite link_ok_w_hi_eq, Hx.
  pose proof wf_high_parts_narrow_wide as F. rewrite forallb_forall in F. specialize (F x Hin).
  rewrite Hl in F. exact F.
Qed.

Lemma wf_entry_w_parts : forall e, wf_entry_wb e = true ->
  (mode_okb (st_mode (fst e)) = true /\ link_ok_w (st_mode (fst e)) (st_linkname (fst e)) = true
   /\ ends_with_sep (st_path (fst e)) = false) /\
  (carries_size (fst e) = true -> st_size (fst e) < two63 /\ st_size (fst e) = blen (snd e)) /\
  tar_encodable (hdr_of_stat (fst e)) = true.
Proof.
  intros e H. unfold wf_entry_wb in H.
  apply andb_true_iff in H. destruct H as [H H3]. apply andb_true_iff in H. destruct H as [H1 H2].
  unfold wf_stat_wb in H1. apply andb_true_iff in H1. destruct H1 as [H1 Hp].
  apply andb_true_iff in H1. destruct H1 as [Hm Hl]. apply negb_true_iff in Hp.
  split; [repeat split; assumption |]. split; [| exact H3].
  intro C. rewrite C in H2. apply andb_true_iff in H2. destruct H2 as [A B].
  apply N.ltb_lt in A. apply N.eqb_eq in B. split; assumption.
Qed.

Lemma wf_entry_narrow_wide : forall e, wf_entry_b e = true -> wf_entry_wb e = true.
Proof.
  intros e H. destruct (wf_entry_parts e H) as [Hst _]. destruct (wf_stat_parts _ Hst) as [Hm [Hl Hp]].
  unfold wf_entry_b in H. unfold wf_entry_wb.
  apply andb_true_iff in H. destruct H as [H H3]. apply andb_true_iff in H. destruct H as [_ H2].
  rewrite H2, H3, !andb_true_r. unfold wf_stat_wb. rewrite Hm, Hp. cbn [andb negb]. rewrite andb_true_r.
  exact (link_ok_narrow_wide _ _ Hm Hl).
Qed.

Lemma wf_listing_narrow_wide : forall l, wf_listing_b l = true -> wf_listing_wb l = true.
Proof.
  intros l H. unfold wf_listing_b in H. unfold wf_listing_wb. rewrite forallb_forall in *.
  intros e He. apply wf_entry_narrow_wide. apply H. exact He.
Qed.

(* declared size = bytes handed to the archive writer, for every member *)
Lemma payload_size_entry_w : forall e, wf_entry_wb e = true ->
  h_size (fst (member_of_entry e)) = blen (snd (member_of_entry e)).
Proof.
  intros e H. destruct (wf_entry_w_parts e H) as [_ [Hsz _]].
  unfold member_of_entry. cbn [fst snd].
  rewrite has_payload_spec.
  unfold hdr_of_stat at 1. cbn [h_size]. unfold hdr_size.
  destruct (carries_size (fst e)) eqn:C.
  - destruct (Hsz eq_refl) as [Hlt Heq].
    unfold carries_size in C. rewrite C. cbn [andb].
    destruct (Z.ltb_spec 0 (sint (st_size (fst e)))) as [Hpos | Hnpos].
    + exact Heq.
    + rewrite (sint_small _ Hlt) in Hnpos. unfold blen. simpl length. lia.
  - unfold carries_size in C. rewrite C. reflexivity.
Qed.

Lemma payload_size_entry : forall e, wf_entry_b e = true ->
  h_size (fst (member_of_entry e)) = blen (snd (member_of_entry e)).
Proof. intros e H. apply payload_size_entry_w. apply wf_entry_narrow_wide. exact H. Qed.

(* ------------------------------------------------------------------ *)
(* the sequential writer on a well-formed listing *)
Lemma write_loop_wf_w : forall l idx acc,
  wf_listing_wb l = true -> write_loop l false idx acc = TarOk (rev acc ++ tar_of_listing l).
Proof.
  induction l as [| e r IH]; intros idx acc H.
  - cbn. rewrite app_nil_r. reflexivity.
  - cbn [wf_listing_wb forallb] in H. apply andb_true_iff in H. destruct H as [He Hr].
    fold (wf_listing_wb r) in Hr.
    destruct (wf_entry_w_parts e He) as [[Hm _] [_ Henc]].
    pose proof (payload_size_entry_w e He) as Hps.
    cbn [write_loop tar_of_listing map].
    rewrite (fih_ok_of_wf _ Hm), Henc. cbn [negb].
    unfold member_of_entry in *. cbn [fst snd] in Hps.
    destruct (has_payload (hdr_of_stat (fst e))) eqn:P.
    + rewrite Hps. rewrite N.ltb_irrefl.
      rewrite IH by exact Hr. cbn [rev]. rewrite <- app_assoc. reflexivity.
    + rewrite IH by exact Hr. cbn [rev]. rewrite <- app_assoc. reflexivity.
Qed.

Lemma write_listing_wf_w : forall l, wf_listing_wb l = true -> write_listing l = TarOk (tar_of_listing l).
Proof. intros l H. unfold write_listing. rewrite (write_loop_wf_w l O [] H). reflexivity. Qed.
Lemma write_listing_wf : forall l, wf_listing_b l = true -> write_listing l = TarOk (tar_of_listing l).
Proof. intros l H. apply write_listing_wf_w. apply wf_listing_narrow_wide. exact H. Qed.

(* member i is the header of entry i; its name is the path, plus '/' exactly for directories *)
Definition dir_slash_name (s : stat) : bytes :=
  if mode_is_dir (st_mode s) then st_path s ++ [sep] else st_path s.
Definition member_of (e : entry) (m : member) : Prop :=
  m = member_of_entry e /\ h_name (fst m) = dir_slash_name (fst e).

Lemma members_forall2_w : forall l, wf_listing_wb l = true -> Forall2 member_of l (tar_of_listing l).
Proof.
  induction l as [| e r IH]; intro H; cbn [tar_of_listing map]; constructor.
  - cbn [wf_listing_wb forallb] in H. apply andb_true_iff in H. destruct H as [He _].
    destruct (wf_entry_w_parts e He) as [[_ [_ Hp]] _].
    split; [reflexivity |].
    unfold member_of_entry, hdr_of_stat, dir_slash_name, tar_name. cbn [fst h_name].
    rewrite Hp. cbn [negb]. rewrite andb_true_r. reflexivity.
  - apply IH. cbn [wf_listing_wb forallb] in H. apply andb_true_iff in H. apply H.
Qed.
Lemma members_forall2 : forall l, wf_listing_b l = true -> Forall2 member_of l (tar_of_listing l).
Proof. intros l H. apply members_forall2_w. apply wf_listing_narrow_wide. exact H. Qed.

(* ------------------------------------------------------------------ *)
(* the hard-link reset is the identity on listings whose links are closed *)
Lemma land_submask : forall m big small, N.land big small = small -> N.land m big = 0 -> N.land m small = 0.
Proof. intros m big small Hs H. rewrite <- Hs, N.land_assoc, H. apply N.land_0_l. Qed.

Lemma regular_plain : forall s, mode_is_regular (st_mode s) = true -> hl_plain s = true.
Proof.
  intros s H. unfold mode_is_regular in H. apply N.eqb_eq in H.
  unfold hl_plain, mode_is_dir, mode_is_symlink, has_bits.
  rewrite (land_submask _ ModeType ModeDir eq_refl H), (land_submask _ ModeType ModeSymlink eq_refl H).
  reflexivity.
Qed.

Lemma plain_not_symlink : forall s, hl_plain s = true -> mode_is_symlink (st_mode s) = false.
Proof. intros s H. unfold hl_plain in H. apply andb_true_iff in H. destruct H as [_ H]. apply negb_true_iff in H. exact H. Qed.

Lemma set_linkname_same : forall s, set_linkname s (st_linkname s) = s.
Proof. destruct s; reflexivity. Qed.

Lemma has_link_nil : forall s, has_link s = negb (is_nil (st_linkname s)).
Proof. intro s. unfold has_link. destruct (st_linkname s); reflexivity. Qed.

Lemma find_entry_some : forall p l t, find_entry p l = Some t -> In t l /\ st_path (fst t) = p.
Proof.
  intros p l t H. unfold find_entry in H. apply find_some in H. destruct H as [Hin Hp].
  apply bytes_eqb_eq in Hp. split; assumption.
Qed.

Definition map_id (m : list (bytes * bytes)) : Prop := forall k v, lookup_b k m = Some v -> v = k.
Definition covers (m : list (bytes * bytes)) (done : list entry) : Prop :=
  forall t, In t done -> carries_size (fst t) = true -> lookup_b (st_path (fst t)) m <> None.

Lemma map_id_cons : forall m p, map_id m -> map_id ((p, p) :: m).
Proof.
  intros m p H k v. cbn [lookup_b]. destruct (bytes_eqb k p) eqn:E.
  - intro X. inversion X. apply bytes_eqb_eq in E. congruence.
  - apply H.
Qed.
Lemma covers_cons : forall m done p, covers m done -> covers ((p, p) :: m) done.
Proof.
  intros m done p H t Hin C. cbn [lookup_b]. destruct (bytes_eqb _ p); [discriminate | apply H; assumption].
Qed.
Lemma covers_snoc : forall m done e,
  covers m done -> (carries_size (fst e) = true -> lookup_b (st_path (fst e)) m <> None) -> covers m (done ++ [e]).
Proof.
  intros m done e H He t Hin C. apply in_app_or in Hin. destruct Hin as [Hin | [Heq | []]].
  - apply H; assumption.
  - subst t. apply He. exact C.
Qed.

Definition links_wf (l : list entry) : Prop :=
  forall e, In e l -> link_ok (st_mode (fst e)) (st_linkname (fst e)) = true.

Lemma reset_run_id : forall l done m,
  map_id m -> covers m done -> links_wf l -> links_closed_from done l = true ->
  reset_run m (map fst l) = map fst l.
Proof.
  induction l as [| e r IH]; intros done m Hid Hcov Hwf Hcl; [reflexivity |].
  cbn [links_closed_from] in Hcl. apply andb_true_iff in Hcl. destruct Hcl as [Ht Hcl].
  assert (Hwf' : links_wf r) by (intros x Hx; apply Hwf; right; exact Hx).
  pose proof (Hwf e (or_introl eq_refl)) as Hlk.
  cbn [map reset_run]. set (s := fst e) in *.
  unfold reset_step.
  destruct (hl_plain s) eqn:Hpl; cbn [negb].
  - (* plain *)
    rewrite has_link_nil.
    destruct (is_nil (st_linkname s)) eqn:Hnil; cbn [negb].
    + (* no link: recorded under its own path *)
      f_equal. apply (IH (done ++ [e])); try assumption.
      * apply map_id_cons. exact Hid.
      * apply covers_snoc; [apply covers_cons; exact Hcov |].
        intros _. cbn [lookup_b]. fold s. rewrite bytes_eqb_refl. discriminate.
    + (* link member: its source is an earlier plain file, recorded under its own path *)
      unfold link_ok in Hlk. fold s in Hlk. rewrite Hnil, (plain_not_symlink s Hpl) in Hlk. cbn [orb] in Hlk.
      unfold link_target_ok in Ht. fold s in Ht. unfold carries_size at 1 in Ht. rewrite Hnil, Hlk in Ht. cbn [andb] in Ht.
      destruct (find_entry (st_linkname s) done) as [t |] eqn:Hf; [| discriminate].
      apply andb_true_iff in Ht. destruct Ht as [Ht _]. apply andb_true_iff in Ht. destruct Ht as [Ct _].
      destruct (find_entry_some _ _ _ Hf) as [Hin Hp].
      pose proof (Hcov t Hin Ct) as Hlook. rewrite Hp in Hlook.
      destruct (lookup_b (st_linkname s) m) as [v |] eqn:Hl; [| congruence].
      pose proof (Hid _ _ Hl) as Hv. subst v.
      assert (Hs : (if bytes_eqb (st_linkname s) (st_path s) then (m, s) else (m, set_linkname s (st_linkname s))) = (m, s)).
      { rewrite set_linkname_same. destruct (bytes_eqb _ _); reflexivity. }
      rewrite Hs. f_equal. apply (IH (done ++ [e])); try assumption.
      * apply map_id_cons. exact Hid.
      * apply covers_snoc; [apply covers_cons; exact Hcov |].
        intro C. unfold carries_size in C. fold s in C. rewrite Hnil in C. discriminate.
  - (* directories and symlinks pass through *)
    f_equal. apply (IH (done ++ [e])); try assumption.
    apply covers_snoc; [exact Hcov |].
    intro C. unfold carries_size in C. apply andb_true_iff in C. destruct C as [_ C].
    fold s in C. rewrite (regular_plain s C) in Hpl. discriminate.
Qed.

Lemma combine_fst_snd : forall (l : list entry), combine (map fst l) (map snd l) = l.
Proof. induction l as [| [a b] r IH]; [reflexivity |]. cbn. rewrite IH. reflexivity. Qed.

Lemma reset_entries_closed : forall l,
  links_wf l -> links_closed l = true -> reset_entries l = l.
Proof.
  intros l Hwf Hcl. unfold reset_entries, hardlink_reset.
  rewrite (reset_run_id l [] []); try assumption.
  - apply combine_fst_snd.
  - intros k v H. discriminate.
  - intros t [].
Qed.

(* ------------------------------------------------------------------ *)
(* the view-level statements *)
Lemma wf_links_wf : forall l, wf_listing_b l = true -> links_wf l.
Proof.
  intros l H e Hin. unfold wf_listing_b in H. rewrite forallb_forall in H.
  destruct (wf_entry_parts e (H e Hin)) as [Hst _]. destruct (wf_stat_parts _ Hst) as [_ [Hl _]]. exact Hl.
Qed.

Lemma members_are_view_proof : forall v, wf_view v ->
  write_tar v = TarOk (tar_members v)
  /\ Forall2 member_of (reset_entries (walk_root v)) (tar_members v).
Proof.
  intros v H. unfold wf_view in H. split.
  - unfold write_tar, write_tar_listing, tar_members, tar_members_listing. apply write_listing_wf. exact H.
  - unfold tar_members, tar_members_listing. apply members_forall2. exact H.
Qed.

Lemma members_are_view_closed_proof : forall v,
  wf_listing_b (walk_root v) = true -> links_closed (walk_root v) = true ->
  wf_view v
  /\ write_tar v = TarOk (tar_members v)
  /\ Forall2 member_of (walk_root v) (tar_members v).
Proof.
  intros v H C.
  pose proof (reset_entries_closed _ (wf_links_wf _ H) C) as R.
  assert (W : wf_view v) by (unfold wf_view; rewrite R; exact H).
  destruct (members_are_view_proof v W) as [A B]. rewrite R in B. auto.
Qed.

Lemma payload_size_matches_proof : forall v, wf_view v ->
  Forall (fun m : member => h_size (fst m) = blen (snd m)) (tar_members v).
Proof.
  intros v H. unfold wf_view in H. unfold tar_members, tar_members_listing, tar_of_listing.
  apply Forall_forall. intros m Hin. apply in_map_iff in Hin. destruct Hin as [e [Hm He]]. subst m.
  apply payload_size_entry. unfold wf_listing_b in H. rewrite forallb_forall in H. apply H. exact He.
Qed.

(* the same for any listing handed to WriteTar (a filtered walk) *)
Lemma members_are_listing_proof : forall l, wf_listing_b (reset_entries l) = true ->
  write_tar_listing l = TarOk (tar_members_listing l)
  /\ Forall2 member_of (reset_entries l) (tar_members_listing l)
  /\ Forall (fun m : member => h_size (fst m) = blen (snd m)) (tar_members_listing l).
Proof.
  intros l H. unfold write_tar_listing, tar_members_listing. split; [| split].
  - apply write_listing_wf. exact H.
  - apply members_forall2. exact H.
  - unfold tar_of_listing. apply Forall_forall. intros m Hin. apply in_map_iff in Hin.
    destruct Hin as [e [Hm He]]. subst m. apply payload_size_entry.
    unfold wf_listing_b in H. rewrite forallb_forall in H. apply H. exact He.
Qed.

(* ... and on the wider write domain (link names also on fifos and devices) *)
Lemma members_are_listing_wide_proof : forall l, wf_listing_wb (reset_entries l) = true ->
  write_tar_listing l = TarOk (tar_members_listing l)
  /\ Forall2 member_of (reset_entries l) (tar_members_listing l)
  /\ Forall (fun m : member => h_size (fst m) = blen (snd m)) (tar_members_listing l).
Proof.
  intros l H. unfold write_tar_listing, tar_members_listing. split; [| split].
  - apply write_listing_wf_w. exact H.
  - apply members_forall2_w. exact H.
  - unfold tar_of_listing. apply Forall_forall. intros m Hin. apply in_map_iff in Hin.
    destruct Hin as [e [Hm He]]. subst m. apply payload_size_entry_w.
    unfold wf_listing_wb in H. rewrite forallb_forall in H. apply H. exact He.
Qed.

(* ------------------------------------------------------------------ *)
(* small facts shared by TarExtractP.v and TarSpecP.v *)
Lemma typeflag_link_iff : forall m ln,
  N.eqb (hdr_typeflag m ln) TypeLink = negb (is_nil ln) && negb (mode_is_symlink m).
Proof.
  intros m ln. unfold hdr_typeflag. destruct ln as [| c r]; cbn [is_nil negb andb].
  - unfold fih_typeflag.
    repeat match goal with |- context [if ?b then _ else _] => destruct b end; reflexivity.
  - destruct (mode_is_symlink m); reflexivity.
Qed.

Lemma regular_not_symlink : forall m, mode_is_regular m = true -> mode_is_symlink m = false.
Proof.
  intros m H. unfold mode_is_regular in H. apply N.eqb_eq in H.
  unfold mode_is_symlink, has_bits. rewrite (land_submask _ ModeType ModeSymlink eq_refl H). reflexivity.
Qed.

Lemma blen_0 : forall c, blen c = 0 -> c = [].
Proof. intros c H. destruct c; [reflexivity |]. unfold blen in H. simpl length in H. lia. Qed.
