(* Proofs about the tar export model (Model/TarHdr.v). *)
From Coq Require Import List NArith ZArith Bool Lia ZifyN ZifyNat ZifyBool.
From FS Require Import Sx Model.Path Model.Stat Model.Tree Model.TarHdr.
Import ListNotations.
Open Scope N_scope.

(* ------------------------------------------------------------------ *)
(* Bits: everything above the nine permission bits is handled on m / 512 *)

Lemma land_high : forall m k, N.land m (512 * k) = 512 * N.land (m / 512) k.
Proof.
  intros m k.
  change 512 with (2 ^ 9).
  rewrite (N.mul_comm (2 ^ 9) k), (N.mul_comm (2 ^ 9) (N.land _ _)).
  rewrite <- !N.shiftl_mul_pow2, <- N.shiftr_div_pow2.
  apply N.bits_inj; intro n.
  rewrite N.land_spec.
  destruct (N.ltb_spec n 9) as [Hlt | Hge].
  - rewrite !N.shiftl_spec_low by assumption. apply andb_false_r.
  - rewrite !N.shiftl_spec_high' by assumption.
    rewrite N.land_spec, N.shiftr_spec'.
    replace (n - 9 + 9) with n by lia. reflexivity.
Qed.

Lemma land_perm : forall m, N.land m 511 = m mod 512.
Proof. intro m. change 511 with (N.ones 9). rewrite N.land_ones. reflexivity. Qed.

Lemma has_bits_high : forall m k, has_bits m (512 * k) = has_bits (m / 512) k.
Proof.
  intros m k. unfold has_bits. rewrite land_high.
  destruct (N.eqb_spec (N.land (m / 512) k) 0) as [E | E].
  - rewrite E. reflexivity.
  - destruct (N.eqb_spec (512 * N.land (m / 512) k) 0); [lia | reflexivity].
Qed.

Lemma lor_low_high : forall p c, p < 512 -> N.lor p (512 * c) = p + 512 * c.
Proof.
  intros p c Hp.
  assert (H0 : N.land p (512 * c) = 0).
  { rewrite land_high. rewrite (N.div_small p 512 Hp). rewrite N.land_0_l. reflexivity. }
  rewrite (N.add_nocarry_lxor _ _ H0). symmetry. apply N.lxor_lor. exact H0.
Qed.

Lemma lor_512 : forall a b, N.lor (512 * a) (512 * b) = 512 * N.lor a b.
Proof.
  intros. change 512 with (2 ^ 9). rewrite !(N.mul_comm (2 ^ 9)).
  rewrite <- !N.shiftl_mul_pow2. symmetry. apply N.shiftl_lor.
Qed.

Lemma lor_acc : forall p c d, p < 512 -> N.lor (p + 512 * c) (512 * d) = p + 512 * N.lor c d.
Proof.
  intros p c d Hp.
  rewrite <- (lor_low_high p c Hp), <- N.lor_assoc, lor_512. apply lor_low_high. exact Hp.
Qed.

