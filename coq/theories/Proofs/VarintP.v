(* Proofs about Model/Varint.v *)
From Coq Require Import List NArith ZArith Bool Lia ZifyN ZifyNat ZifyBool.
From FS Require Import Sx Model.Varint.
Import ListNotations.
Open Scope N_scope.

Ltac Zify.zify_post_hook ::= Z.div_mod_to_equations.

Lemma len_length l : len l = N.of_nat (length l).
Proof. induction l; cbn [len length]; [reflexivity|]. rewrite IHl. lia. Qed.

Lemma len_app a b : len (a ++ b) = len a + len b.
Proof. rewrite !len_length, app_length. lia. Qed.

Lemma len_cons x l : len (x :: l) = 1 + len l.
Proof. cbn [len]. lia. Qed.

Lemma len_nil : len [] = 0. Proof. reflexivity. Qed.

Lemma len_zero l : len l = 0 -> l = [].
Proof. destruct l; [auto|]. rewrite len_cons. lia. Qed.

(* number of base-128 digits at most f+1 *)
Fixpoint digits_le (f : nat) (n : N) : Prop :=
  match f with
  | O => n < two7
  | S f' => digits_le f' (n / two7)
  end.

Lemma digits_le_64 n : n < two64 -> digits_le 9 n.
Proof.
  unfold two64. intros H. cbn [digits_le]. unfold two7.
  repeat rewrite N.div_div by lia.
  apply N.div_lt_upper_bound; [lia|]. cbn. lia.
Qed.

Lemma get_raw_put f : forall n g rest,
  digits_le f n -> (f < g)%nat ->
  get_varint_raw g (put_varint_f f n ++ rest) = Some (n, rest).
Proof.
  induction f; intros n g rest Hd Hg; destruct g as [|g]; try lia.
  - cbn [digits_le] in Hd. cbn [put_varint_f app get_varint_raw].
    destruct (N.ltb_spec n two7); [reflexivity|lia].
  - cbn [digits_le] in Hd. cbn [put_varint_f].
    destruct (N.ltb_spec n two7) as [Hn|Hn].
    + cbn [app get_varint_raw]. destruct (N.ltb_spec n two7); [reflexivity|lia].
    + cbn [app get_varint_raw].
      destruct (N.ltb_spec (n mod two7 + two7) two7) as [H1|H1]; [unfold two7 in *; lia|].
      rewrite (IHf (n / two7) g rest Hd) by lia.
      f_equal. f_equal. unfold two7 in *. lia.
Qed.

Theorem get_put_varint n rest :
  n < two64 -> get_varint (put_varint n ++ rest) = Some (n, rest).
Proof.
  intros H. unfold get_varint, put_varint.
  rewrite (get_raw_put 9 n 10 rest (digits_le_64 n H)) by lia.
  rewrite N.mod_small by exact H. reflexivity.
Qed.

Lemma put_varint_f_len f : forall n, len (put_varint_f f n) = size_varint_f f n.
Proof.
  induction f; intros n; cbn [put_varint_f size_varint_f]; [reflexivity|].
  destruct (n <? two7); [reflexivity|]. rewrite len_cons, IHf. lia.
Qed.
Lemma put_varint_len n : len (put_varint n) = size_varint n.
Proof. apply put_varint_f_len. Qed.

Lemma size_varint_f_pos f n : 1 <= size_varint_f f n.
Proof. destruct f; cbn [size_varint_f]; [lia|]. destruct (n <? two7); lia. Qed.
Lemma size_varint_pos n : 1 <= size_varint n.
Proof. apply size_varint_f_pos. Qed.

(* a successful read consumes at least one byte *)
Lemma get_raw_shorter f : forall l v r, get_varint_raw f l = Some (v, r) -> (length r < length l)%nat.
Proof.
  induction f; intros l v r H; cbn [get_varint_raw] in H; [discriminate|].
  destruct l as [|b l']; [discriminate|].
  destruct (b <? two7).
  - inversion H; subst. cbn [length]. lia.
  - destruct (get_varint_raw f l') as [[v' r']|] eqn:E; [|discriminate].
    inversion H; subst. apply IHf in E. cbn [length]. lia.
Qed.
Lemma get_varint_shorter l v r : get_varint l = Some (v, r) -> (length r < length l)%nat.
Proof.
  unfold get_varint. destruct (get_varint_raw 10 l) as [[v' r']|] eqn:E; [|discriminate].
  intros H; inversion H; subst. eapply get_raw_shorter; eauto.
Qed.

(* the rest is a suffix of the input *)
Lemma get_raw_suffix f : forall l v r, get_varint_raw f l = Some (v, r) -> exists p, l = p ++ r.
Proof.
  induction f; intros l v r H; cbn [get_varint_raw] in H; [discriminate|].
  destruct l as [|b l']; [discriminate|].
  destruct (b <? two7).
  - inversion H; subst. eexists [_]; reflexivity.
  - destruct (get_varint_raw f l') as [[v' r']|] eqn:E; [|discriminate].
    inversion H; subst. apply IHf in E. destruct E as [p ->]. exists (b :: p); reflexivity.
Qed.
Lemma get_varint_suffix l v r : get_varint l = Some (v, r) -> exists p, l = p ++ r.
Proof.
  unfold get_varint. destruct (get_varint_raw 10 l) as [[v' r']|] eqn:E; [|discriminate].
  intros H; inversion H; subst. eapply get_raw_suffix; eauto.
Qed.
Lemma get_varint_lt l v r : get_varint l = Some (v, r) -> v < two64.
Proof.
  unfold get_varint. destruct (get_varint_raw 10 l) as [[v' r']|]; [|discriminate].
  intros H; inversion H; subst. apply N.mod_lt. unfold two64; lia.
Qed.

(* big-endian header *)
Lemma be32_roundtrip n : n < two32 -> be32_dec (be32 n) = n.
Proof. unfold two32, be32, be32_dec. intros H. lia. Qed.
Lemma be32_length n : length (be32 n) = 4%nat.
Proof. reflexivity. Qed.

(* SizeOfVarint's closed formula (bits.Len64(x|1)+6)/7 is the digit count *)
Lemma size_lor1 v : N.size (N.lor v 1) = N.succ (N.log2 (N.lor v 1)).
Proof. destruct (N.lor v 1) eqn:E; [|apply N.size_log2; discriminate].
  exfalso. assert (N.testbit (N.lor v 1) 0 = true) by (rewrite N.lor_spec; cbn; apply orb_true_r).
  rewrite E in H. discriminate. Qed.

(* ------------------------------------------------------------------ SizeOfVarint *)
Lemma log2_lor1 v : N.log2 (N.lor v 1) = N.log2 v.
Proof. rewrite N.log2_lor. change (N.log2 1) with 0. lia. Qed.

Lemma sov_log2 v : sov v = 1 + N.log2 v / 7.
Proof.
  unfold sov. rewrite size_lor1, log2_lor1.
  replace (N.succ (N.log2 v) + 6) with (N.log2 v + 1 * 7) by lia.
  rewrite N.div_add by lia. lia.
Qed.

Lemma log2_small v : v < two7 -> N.log2 v / 7 = 0.
Proof.
  unfold two7. intros H. apply N.div_small.
  destruct (N.eq_dec v 0) as [->|Hz]; [cbn; lia|].
  apply N.log2_lt_pow2; [lia|]. change (2 ^ 7) with 128. exact H.
Qed.

Lemma log2_div128 v : two7 <= v -> N.log2 v / 7 = 1 + N.log2 (v / two7) / 7.
Proof.
  unfold two7. intros H.
  change 128 with (2 ^ 7). rewrite <- N.shiftr_div_pow2, N.log2_shiftr.
  assert (7 <= N.log2 v) by (apply N.log2_le_pow2; [lia|exact H]).
  replace (N.log2 v) with ((N.log2 v - 7) + 1 * 7) at 1 by lia.
  rewrite N.div_add by lia. lia.
Qed.

Lemma size_varint_f_log2 f : forall v, digits_le f v -> size_varint_f f v = 1 + N.log2 v / 7.
Proof.
  induction f; intros v Hd; cbn [size_varint_f digits_le] in *.
  - rewrite log2_small by exact Hd. reflexivity.
  - destruct (N.ltb_spec v two7) as [H|H].
    + rewrite log2_small by exact H. reflexivity.
    + rewrite (IHf _ Hd), (log2_div128 v H). lia.
Qed.

(* protohelpers.SizeOfVarint's closed formula is the number of bytes EncodeVarint writes *)
Theorem sov_is_size_varint v : v < two64 -> sov v = size_varint v.
Proof.
  intros H. unfold size_varint. rewrite (size_varint_f_log2 9 v (digits_le_64 v H)). apply sov_log2.
Qed.
