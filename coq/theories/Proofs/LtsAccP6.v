(* Refinement LTS (sender side) -> sender acceptor, part 6: the abstraction exists for every
   expectation (one chunk per non-empty file). *)
From Coq Require Import List NArith Bool Arith PeanoNat Lia.
From FS Require Import Model.Lts.
From FS Require Import Sx Model.Path Model.Stat Model.Tree Model.AccEvents Model.SenderAcc Model.LtsAcc.
Import ListNotations.
Local Open Scope nat_scope.

Lemma nth_lts_entries_from : forall exp l i0 k,
  nth_error (lts_entries_from exp i0 l) k =
  match nth_error l k with Some e => Some (lts_entry_of exp (i0 + k) e) | None => None end.
Proof.
  induction l as [|e l IH]; intros i0 k; destruct k; cbn; try reflexivity.
  - rewrite Nat.add_0_r. reflexivity.
  - rewrite IH. replace (S i0 + k) with (i0 + S k) by lia. reflexivity.
Qed.

Lemma length_lts_entries_from : forall exp l i0, length (lts_entries_from exp i0 l) = length l.
Proof. induction l; intros; cbn; auto. Qed.

Lemma abs_ok_params_of_proof : forall exp capSR capRS, abs_ok (lts_params_of exp capSR capRS) exp (one_chunk exp).
Proof.
  intros exp cs cr. unfold abs_ok.
  assert (Hnth : forall i, entry_at (lts_params_of exp cs cr) i =
            match nth_error exp i with Some e => Some (lts_entry_of exp i e) | None => None end)
    by (intros i; unfold entry_at; cbn; apply nth_lts_entries_from).
  repeat split.
  - cbn. apply length_lts_entries_from.
  - intros i. unfold is_file. rewrite Hnth. unfold regular_at.
    destruct (nth_error exp i) as [e|]; [|reflexivity]. cbn. destruct (mode_is_regular (st_mode (fst e))); reflexivity.
  - intros i c H. unfold one_chunk. rewrite H. destruct c; cbn; [reflexivity|]. rewrite app_nil_r. reflexivity.
  - intros i. unfold Lts.chunks_of. rewrite Hnth. destruct (nth_error exp i) as [e|] eqn:E; [reflexivity|].
    unfold one_chunk, regular_at. rewrite E. reflexivity.
  - intros i c H. unfold one_chunk in H. destruct (regular_at exp i) as [[|b r]|]; cbn in H; try tauto.
    destruct H as [H|[]]. subst c. discriminate.
  - cbn. lia.
Qed.
