(* C14 — the deferred fixCreatedParentDirs, Copy's loop over the sources, Copy. *)
From Coq Require Import List Arith NArith Lia Bool ZifyN ZifyNat ZifyBool.
From FS Require Import Sx Model.Path Model.Fs Model.RootPath Model.CopyFs Model.CopyFsSpec
  Proofs.Lex Proofs.PathP Proofs.FsP Proofs.RootPathStrP Proofs.FsCopyFrameP Proofs.FsCopyInvP
  Proofs.FsCopySafeP Proofs.FsCopyLinksP Proofs.FsCopySysP Proofs.CopyFsP Proofs.CopyFsNrP Proofs.CopyRecP Proofs.CopyFsRec2P Proofs.CopyFsTopP
  Proofs.CopyFsTop2P.
From FS Require Proofs.RootPathP.
Import ListNotations.
Open Scope N_scope.
Open Scope bool_scope.

Local Opaque rfuel.

(* a successful no-follow lookup along a symlink-free path: the parent is a chain *)
Lemma link_free_walk_parent f : forall fuel cs a x rt n r i,
  link_free f a (cs ++ [x]) = true -> Forall nm cs -> nm x ->
  walk fuel f rt a (cs ++ [x]) false n = inl r -> l_ino r = Some i ->
  exists d', chain f a cs d' /\ blookup x (dents f d') = Some i.
Proof.
  induction fuel as [|fuel IH]; intros cs a x rt n r i Hlf Hcs Hx H Hi; [discriminate|].
  destruct cs as [|y rest]; simpl app in *; cbn [walk] in H;
    (destruct (dir_of f a) as [[par ents]|] eqn:Ed; [|discriminate]);
    assert (Ha : is_dir f a = true) by (unfold is_dir; rewrite Ed; reflexivity).
  - destruct Hx as [(N1 & N2 & N3) _]. apply bytes_eqb_neq in N2, N3. rewrite N2, N3 in H.
    destruct (blookup x ents) as [i0|] eqn:Eb.
    + assert (Hb : blookup x (dents f a) = Some i0) by (unfold dents; rewrite Ed; auto).
      destruct (get f i0) as [[[? ?|?|?|? ?] ?]|]; cbn [is_nil andb negb] in H; inversion H; subst; simpl in Hi; inversion Hi; subst;
        exists a; split; auto; constructor; auto.
    + cbn [is_nil] in H. inversion H; subst. simpl in Hi. discriminate.
  - inversion Hcs as [|? ? Hy Hrest]; subst. destruct Hy as [(N1 & N2 & N3) _].
    apply bytes_eqb_neq in N2, N3. rewrite N2, N3 in H.
    cbn [link_free] in Hlf. rewrite Ed in Hlf.
    destruct (blookup y ents) as [i0|] eqn:Eb.
    + assert (Hb : blookup y (dents f a) = Some i0) by (unfold dents; rewrite Ed; auto).
      replace (is_nil (rest ++ [x])) with false in H by (destruct rest; reflexivity).
      destruct (get f i0) as [[[p0 es0|dd|t|ty rd] m]|] eqn:Eg; try discriminate.
      * assert (Hi0 : is_dir f i0 = true) by (unfold is_dir, dir_of; rewrite Eg; reflexivity).
        destruct (IH rest i0 x rt n r i Hlf Hrest Hx H Hi) as (d' & Hc & Hbx).
        exists d'. split; auto. econstructor; eauto.
      * destruct fuel; [discriminate|]. cbn [walk] in H. unfold dir_of in H. rewrite Eg in H. discriminate.
      * destruct fuel; [discriminate|]. cbn [walk] in H. unfold dir_of in H. rewrite Eg in H. discriminate.
      * destruct fuel; [discriminate|]. cbn [walk] in H. unfold dir_of in H. rewrite Eg in H. discriminate.
    + replace (is_nil (rest ++ [x])) with false in H by (destruct rest; reflexivity). discriminate.
Qed.

(* filepath.Rel of a path below the root *)
Lemma render_app_sep l r : l <> [] -> r <> [] -> render (l ++ r) = render l ++ sep :: joinc r.
Proof. intros Hl Hr. unfold render. rewrite joinc_app by auto. reflexivity. Qed.

Lemma skipn_app_len {A} (a b : list A) : skipn (length a) (a ++ b) = b.
Proof. induction a; simpl; auto. Qed.

Lemma rel_below_render dcs l : Forall nm dcs -> Forall nm l -> l <> [] ->
  rel_below (render dcs) (render (dcs ++ l)) = Some (joinc l).
Proof.
  intros Hd Hl Hne. unfold rel_below. destruct dcs as [|y dcs'].
  - simpl app. change (render []) with [sep]. rewrite bytes_eqb_refl.
    destruct (bytes_eqb (render l) [sep]) eqn:E.
    + apply render_eq_sep in E; auto. congruence.
    + reflexivity.
  - destruct (bytes_eqb (render (y :: dcs')) [sep]) eqn:E.
    { apply render_eq_sep in E; auto. discriminate. }
    rewrite render_app_sep by (auto; discriminate).
    replace (render (y :: dcs') ++ sep :: joinc l) with ((render (y :: dcs') ++ [sep]) ++ joinc l) by (rewrite <- app_assoc; reflexivity).
    rewrite has_prefix_self_app. f_equal.
    replace (length (render (y :: dcs')) + 1)%nat with (length (render (y :: dcs') ++ [sep])) by (rewrite app_length; reflexivity).
    apply skipn_app_len.
Qed.

Section Top3.
  Variables (c : ctx) (f0 : fs) (dr : N) (dcs : list bytes).
  Notation Ctx := (Ctx c f0 dr dcs).
  Notation tpath := (tpath dcs).
  Notation SS := (SS f0 dr).
  Notation Tgt := (Tgt c f0 dr dcs).
  Notation stays := (stays c f0 dr dcs).
  Notation stays_ok := (stays_ok c f0 dr dcs).
  Notation meta_post := (meta_post c f0 dr dcs).
  Notation lok := (lok f0 dr dcs).
  Notation keeps_new := (keeps_new dr (f_next f0)).
  Notation gnew := (gnew dr (f_next f0)).
  Notation created_ok := (created_ok f0 dr dcs).
  Notation tdesc := (tdesc c f0 dr dcs).
  Let rt := c_root c.
  Let b := f_next f0.

  Lemma ctx_plain_dir f : Ctx f -> forallb name_ok dcs = true /\ plain_dir f (c_root c) dcs = Some dr.
  Proof.
    intros C. split.
    - apply forallb_name_ok. split; [apply (cx_dcs _ _ _ _ _ C)|apply (cx_dnul _ _ _ _ _ C)].
    - apply chain_plain_dir. apply (cx_root _ _ _ _ _ C).
  Qed.

  (* what RootPath returns for the destination root *)
  Lemma root_path_dst f p out : Ctx f -> root_path c f (render dcs) p = inl out ->
    exists cs, out = render (dcs ++ cs) /\ Forall nm cs /\ Forall nonul cs /\ link_free f dr cs = true.
  Proof.
    intros C H. destruct (ctx_plain_dir f C) as [H1 H2].
    destruct (RootPathP.rootpath_result_link_free_proof c f dcs dr p out H1 H2 H) as (cs & E & Hn & Hlf).
    apply forallb_name_ok in Hn. destruct Hn. exists cs. auto.
  Qed.

  (* ---- fixCreatedParentDirs ---- *)
  Lemma still_below_safe f p t f' res : Ctx f -> created_ok f p ->
    still_below c f (render dcs) p = true -> sys_utimens c f p t = (f', res) -> meta_post f f'.
  Proof.
    intros C (cs & x & -> & Hcs & Hnul & Hx & Hxn & G) Hsb H.
    pose proof (cx_dcs _ _ _ _ _ C) as Hd. pose proof (cx_dnul _ _ _ _ _ C) as Hdn.
    destruct (sys_utimens_inv _ _ _ _ _ _ H) as [[-> _]|(i & n & m & E & Hg & -> & ->)]; [apply meta_post_refl; auto|].
    unfold still_below in Hsb. change (is_nil (render dcs)) with false in Hsb.
    unfold FsCopySafeP.tpath in Hsb. rewrite rel_below_render in Hsb; auto;
      [|apply Forall_app; split; auto|destruct cs; discriminate].
    destruct (root_path c f (render dcs) (joinc (cs ++ [x]))) as [out|e] eqn:Er; [|discriminate].
    apply bytes_eqb_eq in Hsb. subst out.
    destruct (root_path_dst f _ _ C Er) as (cs2 & E2 & Hn2 & Hnul2 & Hlf).
    assert (Ecs : cs2 = cs ++ [x]).
    { apply render_inj in E2; [apply app_inv_head in E2; auto| |];
        repeat (apply Forall_app; split; auto). }
    subst cs2.
    (* the lookup of utimensat goes along real directories *)
    unfold resolve_ino in E. destruct (resolve c f (FsCopySafeP.tpath dcs cs x) false) as [r|e] eqn:Eres; [|discriminate].
    destruct (l_ino r) as [j|] eqn:Ej; inversion E; subst j.
    unfold FsCopySafeP.tpath in Eres. rewrite resolve_render in Eres;
      [|repeat (apply Forall_app; split; auto)|repeat (apply Forall_app; split; auto)|destruct dcs; [destruct cs|]; discriminate].
    pose proof (cx_len _ _ _ _ _ C) as Hl.
    replace rfuel with (length dcs + (rfuel - length dcs))%nat in Eres by lia.
    rewrite (walk_chain_prefix f dcs (c_root c) dr (cx_root _ _ _ _ _ C) Hd (cs ++ [x])) in Eres by (destruct cs; discriminate).
    destruct (link_free_walk_parent f _ cs dr x _ _ r i Hlf Hcs Hx Eres Ej) as (d' & Hc & Hb).
    specialize (G d' Hc). unfold bind_new in G. rewrite Hb in G.
    apply t_put_meta; auto. right. exact G.
  Qed.

  Lemma fix_created_spec tm : forall dirs s, Ctx (s_fs s) -> Forall (created_ok (s_fs s)) dirs ->
    let s' := fst (fix_created c (render dcs) tm dirs s) in
    Ctx (s_fs s') /\ keeps_new (s_fs s) (s_fs s').
  Proof.
    induction dirs as [|d dirs IH]; intros s C Hc; cbn [fix_created].
    - cbn [ret fst]. split; auto. apply keeps_new_refl.
    - destruct tm as [t|]; [|cbn [ret fst]; split; auto; apply keeps_new_refl].
      inversion Hc as [|? ? Hd Hrest]; subst.
      destruct (still_below c (s_fs s) (render dcs) d) eqn:Esb; [|apply IH; auto].
      rewrite sys_run. cbn [fst snd].
      destruct (sys_utimens c (s_fs s) d t) as [f1 r1] eqn:E1. cbn [fst snd].
      pose proof (still_below_safe (s_fs s) d t f1 r1 C Hd Esb E1) as M1.
      pose proof (k_meta c f0 dr dcs _ _ M1) as K1.
      assert (C1 : Ctx f1) by apply M1.
      destruct r1; cbn [fst]; try (split; auto; fail).
      set (s1 := {| s_fs := f1; s_links := s_links s; s_parents := s_parents s; s_reads := s_reads s |}).
      destruct (IH s1 C1) as (C2 & K2).
      { eapply Forall_impl; [|exact Hrest]. intros p. apply created_ok_keeps. exact K1. }
      split; auto. eapply keeps_new_trans; eauto.
  Qed.

  Lemma run_fixes_spec tm : forall batches s, Ctx (s_fs s) -> Forall (Forall (created_ok (s_fs s))) batches ->
    Ctx (s_fs (fst (run_fixes c (render dcs) tm batches s))).
  Proof.
    induction batches as [|bt batches IH]; intros s C Hc; cbn [run_fixes]; [exact C|].
    inversion Hc as [|? ? Hb Hrest]; subst. rewrite bind_run.
    destruct (fix_created_spec tm (rev bt) s C) as (C1 & K1); [apply Forall_rev; auto|].
    destruct (fix_created c (render dcs) tm (rev bt) s) as [s1 [[]|e]] eqn:E1; cbn [fst] in *; [|exact C1].
    apply IH; auto. eapply Forall_impl; [|exact Hrest]. intros l Hl.
    eapply Forall_impl; [|exact Hl]. intros p. apply created_ok_keeps. exact K1.
  Qed.

  (* ---- Copy's loop ---- *)
  Variable src_root : bytes.
  (* srcRoot names a directory in every state the copier goes through (it is not replaced) *)
  Hypothesis Hsr : forall f, Ctx f -> forall ino fi, snd (sys_lstat c f src_root) = RStat ino fi -> kind_is_dir fi = true.

  Definition batches_ok (f : fs) (bs : list (list bytes)) : Prop := Forall (Forall (created_ok f)) bs.

  Lemma batches_ok_keeps f f' bs : keeps_new f f' -> batches_ok f bs -> batches_ok f' bs.
  Proof.
    intros K H. eapply Forall_impl; [|exact H]. intros l Hl.
    eapply Forall_impl; [|exact Hl]. intros p. apply created_ok_keeps. exact K.
  Qed.

  Lemma copy_root_path_root f src follow sf : join2 [sep] src = [sep] ->
    copy_root_path c f src_root src follow = inl sf -> sf = src_root.
  Proof. intros E H. unfold copy_root_path in H. rewrite E in H. simpl in H. inversion H; auto. Qed.

  Section Reads.
    Variable R : N -> Prop.
    Variables SP SPN : bytes -> Prop.
    Hypothesis HA : forall f p i, Ctx f -> SP p -> resolve_ino c f p false = inl i -> R i.
    Hypothesis HB : forall f p i n, Ctx f -> SP p -> resolve_ino c f p false = inl i -> get f i = Some n ->
      kind_is_link n = false -> SPN p.
    Hypothesis HC : forall f p j, Ctx f -> SPN p -> resolve_ino c f p true = inl j -> R j.
    Hypothesis HD : forall f p j pp es n, Ctx f -> SPN p -> resolve_ino c f p true = inl j ->
      dir_of f j = Some (pp, es) -> In n (map fst es) -> SP (join2 p n).
    Hypothesis HN : forall p, SPN p -> SP p.
    (* which source arguments (with which FollowLinks) are considered *)
    Variable Psrc : bytes -> bool -> Prop.
    Hypothesis HE : forall f src follow sf, Ctx f -> Psrc src follow -> copy_root_path c f src_root src follow = inl sf -> SP sf.
    Notation rok := (CopyRecP.rok R).
    Notation pok := (CopyRecP.pok SPN).

  (* prepareTargetDir: os.Lstat(srcFollowed) *)
  Lemma ptd_reads k o sf src dest s s' r : Ctx (s_fs s) -> SP sf ->
    prepare_target_dir k c o sf src dest s = (s', r) -> rok s -> rok s'.
  Proof.
    intros C Hsp H Rk. unfold prepare_target_dir in H.
    rewrite bind_run, sys_run in H. cbn [fst snd] in H. rewrite sys_lstat_fs in H.
    destruct (snd (sys_lstat c (s_fs s) sf)) as [|e|sino sfi| | |] eqn:Esf;
      try (unfold fail in H; injection H as <- <-; exact Rk).
    destruct (sys_lstat_ino c _ _ _ _ Esf) as [Elr _].
    rewrite bind_run, log_read_run in H. cbn [s_fs s_links s_parents s_reads] in H.
    match type of H with bind _ _ ?sx = _ => assert (Rx : rok sx) end.
    { eapply rok_cons; [reflexivity| |exact Rk]. eapply HA; eauto. }
    revert H. match goal with |- ?m ?sx = _ -> _ => intros H; eapply (rok_nr R m); [|exact H|exact Rx] end.
    apply NR_bind; [apply NR_stat_opt|]. intros dfi. cbv zeta. apply NR_bind; [apply NR_mkdir_all|]. intros. apply NR_ret.
  Qed.

  Lemma copy_sources_spec_r fuel o sl dst : forall srcs batches s s' res batches',
    Ctx (s_fs s) -> lok s -> s_parents s = [] -> batches_ok (s_fs s) batches -> Forall (fun src => has_nul src = false) srcs ->
    Forall (fun src => Psrc src (o_follow o)) srcs ->
    rok s ->
    copy_sources fuel c o sl src_root (render dcs) dst srcs batches s = (s', res, batches') ->
    (Ctx (s_fs s') /\ batches_ok (s_fs s') batches') /\ rok s'.
  Proof.
    induction srcs as [|src srcs IH]; intros batches s s' res batches' C L Pa Hb Hs Hps Rk H.
    - cbn [copy_sources] in H. inversion H; subst. auto.
    - cbn [copy_sources] in H. inversion Hs as [|? ? Hsn Hrest]; subst. inversion Hps as [|? ? Hp1 Hprest]; subst.
      (* the step: two RootPath calls (reads only), then prepareTargetDir *)
      rewrite bind_run in H. unfold get_fs at 1 in H.
      destruct (copy_root_path c (s_fs s) src_root src (o_follow o)) as [sf|e] eqn:Esf;
        [|cbn [lift_rp fail] in H; inversion H; subst; auto].
      pose proof (HE _ _ _ _ C Hp1 Esf) as Hsp.
      cbn [lift_rp] in H. rewrite bind_run in H. cbn [ret] in H. rewrite bind_run in H. unfold get_fs at 1 in H.
      destruct (root_path c (s_fs s) (render dcs) (clean dst)) as [dest|e] eqn:Ed;
        [|cbn [lift_rp fail] in H; inversion H; subst; auto].
      cbn [lift_rp] in H. rewrite bind_run in H. cbn [ret] in H. rewrite bind_run in H.
      destruct (root_path_dst (s_fs s) _ _ C Ed) as (cs & -> & Hcs & Hnul & Hlf).
      assert (Hsrc : join2 [sep] src = [sep] -> forall ino fi, snd (sys_lstat c (s_fs s) sf) = RStat ino fi -> kind_is_dir fi = true).
      { intros E. rewrite (copy_root_path_root _ _ _ _ E Esf). apply Hsr; auto. }
      destruct (prepare_target_dir fuel c o sf src (render (dcs ++ cs)) s) as [s1 [[d1 created]|e]] eqn:Ep.
      2:{ destruct (ptd_spec c f0 dr dcs fuel o sf src cs s s1 _ C Hcs Hnul Hlf Hsn Hsrc Ep) as (S1 & _ & _).
          inversion H; subst. split; [|eapply ptd_reads; eauto].
          split; [apply S1|]. eapply batches_ok_keeps; [eapply stays_keeps; exact S1|exact Hb]. }
      destruct (ptd_spec c f0 dr dcs fuel o sf src cs s s1 _ C Hcs Hnul Hlf Hsn Hsrc Ep) as (S1 & EL1 & P1).
      assert (Rk1 : rok s1) by (eapply ptd_reads; eauto).
      destruct (P1 d1 created eq_refl) as (Td & Hcr).
      cbn [ret fst snd] in H.
      assert (C1 : Ctx (s_fs s1)) by apply S1.
      assert (L1 : lok s1) by (apply S1; auto).
      assert (Pa1 : s_parents s1 = []) by (destruct S1 as (_ & _ & _ & _ & Q); rewrite Q; exact Pa).
      assert (Hb1 : batches_ok (s_fs s1) (created :: batches)).
      { constructor; auto. eapply batches_ok_keeps; [eapply stays_keeps; exact S1|exact Hb]. }
      (* copier.copy *)
      assert (Hcopy : forall s2 r2, copy_rec fuel c o sl sf [] d1 false [] [] s1 = (s2, r2) ->
                (stays_ok dr s1 s2 r2 /\ (ok_res r2 -> s_parents s2 = [])) /\ rok s2).
      { intros s2 r2 E2. destruct Td as [-> Hdir|cs1 x dd -> H1 H2 H3 H4 Hc].
        - destruct fuel as [|k].
          + cbn [copy_rec] in E2. unfold fail in E2. inversion E2; subst.
            split; [|exact Rk1]. split; [apply stays_stays_ok, stays_refl; auto|intros _; exact Pa1].
          + eapply (copy_rec_root_spec_r c f0 dr dcs R SP SPN HA HB HC HD HN); eauto.
        - change (FsCopySafeP.tpath dcs cs1 x) with (render (dcs ++ cs1 ++ [] ++ [x])) in E2.
          destruct (copy_rec_spec_r c f0 dr dcs R SP SPN HA HB HC HD HN fuel o sl sf [] cs1 dd [] x false [] [] s1 s2 r2 C1 Hc) as ((S2 & P2) & Rk2); auto.
          { rewrite Pa1. reflexivity. }
          { rewrite Pa1. constructor. }
          split; [|exact Rk2].
          split; [eapply stays_ok_below; [exact Hc|exact S2]|].
          intros Hr. destruct (P2 Hr) as [Eq|[Eq _]]; rewrite Eq, Pa1; reflexivity. }
      destruct (copy_rec fuel c o sl sf [] d1 false [] [] s1) as [s2 [[]|e]] eqn:E2.
      + destruct (Hcopy s2 _ eq_refl) as (((C2 & _ & L2 & K2) & P2) & Rk2).
        eapply (IH (created :: batches) s2); eauto.
        * apply L2; auto. exists tt. reflexivity.
        * apply P2. exists tt. reflexivity.
        * eapply batches_ok_keeps; eauto.
      + destruct (Hcopy s2 _ eq_refl) as (((C2 & _ & _ & K2) & _) & Rk2). inversion H; subst.
        split; [|exact Rk2]. split; auto. eapply batches_ok_keeps; eauto.
  Qed.

  (* ---- Copy ---- *)
  Lemma copy_top_spec_r fuel o osl src dst matches s s' res :
    Ctx (s_fs s) -> lok s -> s_parents s = [] -> has_nul src = false ->
    (forall l, matches = Some l -> Forall (fun m => has_nul m = false) l) ->
    (matches = None -> Psrc src (o_follow o)) -> (forall l, matches = Some l -> Forall (fun m => Psrc m (o_follow o)) l) ->
    rok s ->
    copy_top fuel c o osl src_root src (render dcs) dst matches s = (s', res) -> Ctx (s_fs s') /\ rok s'.
  Proof.
    intros C L Pa Hsn Hm Hp0 Hpm Rk H. unfold copy_top in H.
    set (ensure := match split_path dst with (d, fl) => if nonempty fl && negb (bytes_eqb fl s_dot) && negb (bytes_eqb fl s_dotdot) then d else dst end) in H.
    (* the first MkdirAll *)
    assert (Hpre : forall s1 r1,
              (if nonempty ensure then
                 f1 <~ get_fs ;; p <~ lift_rp (root_path c f1 (render dcs) ensure) ;;
                 created <~ mkdir_all fuel c o p ;; ret [created]
               else ret []) s = (s1, r1) ->
              Ctx (s_fs s1) /\ (lok s -> lok s1) /\ s_parents s1 = s_parents s /\ (forall bs, r1 = inl bs -> batches_ok (s_fs s1) bs)).
    { intros s1 r1 E. destruct (nonempty ensure).
      - rewrite bind_run in E. unfold get_fs at 1 in E.
        destruct (root_path c (s_fs s) (render dcs) ensure) as [p|e] eqn:Ep;
          [|cbn [lift_rp fail] in E; inversion E; subst; split; [exact C|split; [auto|split; [reflexivity|discriminate]]]].
        cbn [lift_rp] in E. rewrite bind_run in E. cbn [ret] in E. rewrite bind_run in E.
        destruct (root_path_dst (s_fs s) _ _ C Ep) as (cs & -> & Hcs & Hnul & Hlf).
        destruct (mkdir_all fuel c o (render (dcs ++ cs)) s) as [s2 [created|e]] eqn:Em.
        + destruct (mkdir_all_spec c f0 dr dcs fuel o cs s s2 _ C Hcs Hnul Hlf Em) as (S2 & _ & P2).
          cbn [ret] in E. inversion E; subst. split; [apply S2|]. split; [apply S2|]. split; [apply S2|].
          intros bs Hbs. inversion Hbs; subst. constructor; [apply (P2 created eq_refl)|constructor].
        + destruct (mkdir_all_spec c f0 dr dcs fuel o cs s s2 _ C Hcs Hnul Hlf Em) as (S2 & _ & _).
          inversion E; subst. split; [apply S2|]. split; [apply S2|]. split; [apply S2|]. discriminate.
      - cbn [ret] in E. inversion E; subst. split; [exact C|split; [auto|split; [reflexivity|]]]. intros bs Hbs. inversion Hbs; subst. constructor. }
    assert (Hprer : NR (if nonempty ensure then
                 f1 <~ get_fs ;; p <~ lift_rp (root_path c f1 (render dcs) ensure) ;;
                 created <~ mkdir_all fuel c o p ;; ret [created]
               else ret [])).
    { destruct (nonempty ensure); [|apply NR_ret]. apply NR_bind; [apply NR_get_fs|]. intros f1.
      apply NR_bind; [unfold lift_rp; destruct (root_path c f1 (render dcs) ensure); [apply NR_ret|apply NR_fail]|]. intros p.
      apply NR_bind; [apply NR_mkdir_all|]. intros. apply NR_ret. }
    destruct ((if nonempty ensure then
                 f1 <~ get_fs ;; p <~ lift_rp (root_path c f1 (render dcs) ensure) ;;
                 created <~ mkdir_all fuel c o p ;; ret [created]
               else ret []) s) as [s1 [batches0|e]] eqn:Epre.
    2:{ destruct (Hpre s1 _ eq_refl) as (Cx & _). inversion H; subst. split; [exact Cx|]. eapply rok_nr; eauto. }
    assert (Rk1 : rok s1) by (eapply rok_nr; eauto).
    destruct (Hpre s1 _ eq_refl) as (C1 & L1 & Pa1 & B1). specialize (B1 batches0 eq_refl). specialize (L1 L).
    rewrite Pa in Pa1.
    assert (Hfix : forall bs2 s2, Ctx (s_fs s2) -> batches_ok (s_fs s2) bs2 -> rok s2 ->
              Ctx (s_fs (fst (run_fixes c (render dcs) (o_utime o) bs2 s2))) /\ rok (fst (run_fixes c (render dcs) (o_utime o) bs2 s2))).
    { intros bs2 s2 C2 B2 Rk2. split; [apply run_fixes_spec; auto|].
      destruct (run_fixes c (render dcs) (o_utime o) bs2 s2) as [s3 r3] eqn:E3. cbn [fst].
      eapply rok_nr; [apply NR_run_fixes|exact E3|exact Rk2]. }
    assert (Hloop : forall sl srcs, Forall (fun m => has_nul m = false) srcs -> Forall (fun m => Psrc m (o_follow o)) srcs -> forall s2 res2 bs2,
              copy_sources fuel c o sl src_root (render dcs) dst srcs batches0 s1 = (s2, res2, bs2) ->
              Ctx (s_fs (fst (run_fixes c (render dcs) (o_utime o) bs2 s2))) /\ rok (fst (run_fixes c (render dcs) (o_utime o) bs2 s2))).
    { intros sl srcs Hs Hps s2 res2 bs2 E.
      destruct (copy_sources_spec_r fuel o sl dst srcs batches0 s1 s2 res2 bs2 C1 L1 Pa1 B1 Hs Hps Rk1 E) as ((C2 & B2) & Rk2).
      apply Hfix; auto. }
    destruct osl as [sl|].
    2:{ (* invalid patterns *) destruct matches as [[|m ms]|]; inversion H; subst; apply Hfix; auto. }
    destruct matches as [[|m ms]|].
    - (* no match *) inversion H; subst. apply Hfix; auto.
    - destruct (copy_sources fuel c o sl src_root (render dcs) dst (m :: ms) batches0 s1) as [[s2 res2] bs2] eqn:E2.
      inversion H; subst. eapply (Hloop sl (m :: ms)); [apply Hm; reflexivity|apply Hpm; reflexivity|exact E2].
    - destruct (copy_sources fuel c o sl src_root (render dcs) dst [src] batches0 s1) as [[s2 res2] bs2] eqn:E2.
      inversion H; subst. eapply (Hloop sl [src]); [constructor; auto|constructor; auto|exact E2].
  Qed.
  End Reads.

  Lemma copy_top_spec fuel o osl src dst matches s s' res :
    Ctx (s_fs s) -> lok s -> s_parents s = [] -> has_nul src = false ->
    (forall l, matches = Some l -> Forall (fun m => has_nul m = false) l) ->
    copy_top fuel c o osl src_root src (render dcs) dst matches s = (s', res) -> Ctx (s_fs s').
  Proof.
    intros C L Pa Hsn Hm H.
    pose proof (copy_top_spec_r (fun _ => True) (fun _ => True) (fun _ => True)) as G.
    eapply G with (Psrc := fun _ _ => True); eauto; try (intros; exact I).
    - intros l _. apply Forall_forall. intros; exact I.
    - intros i _. exact I.
  Qed.
End Top3.
