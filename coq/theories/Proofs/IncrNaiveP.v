(* MatchesUsingParentResults handed down a path vs MatchesOrParentMatches on the path:
   equal under the computable condition no_late_shadow; the "skip" of
   MatchesOrParentMatches is unobservable. *)
From Coq Require Import List NArith Lia Bool.
From FS Require Import Sx Model.Path Model.Pattern Proofs.Lex Proofs.PathP Proofs.ValidatorP Proofs.PatternP.
Import ListNotations.
Open Scope bool_scope.

Lemma prefixes_snoc {A} (d : list A) b : prefixes (d ++ [b]) = prefixes d ++ [d ++ [b]].
Proof.
  induction d as [|a d IH]; [reflexivity|]. cbn [prefixes app]. rewrite IH, map_app. reflexivity.
Qed.

Lemma eqb_neg_eq (a b : bool) : negb (eqb a b) = true -> b = negb a.
Proof. destruct a, b; simpl; congruence. Qed.

Section IncrNaive.
Variable pmatch : bytes -> bytes -> bool.

(* ---- the skip of MatchesOrParentMatches does nothing ---- *)
Lemma naive_step_noskip file m P : naive_step pmatch file m P = naive_noskip_step pmatch file m P.
Proof.
  unfold naive_step, naive_noskip_step. destruct (negb (eqb (p_excl P) m)) eqn:E; auto.
  apply eqb_neg_eq in E. destruct (pmatch (p_str P) file || anc_match pmatch (p_str P) file); auto.
Qed.

Theorem naive_skip_irrelevant_proof pats file : naive pmatch pats file = naive_noskip pmatch pats file.
Proof.
  unfold naive, naive_noskip. generalize false. induction pats as [|P ps IH]; intros m; [reflexivity|].
  simpl. rewrite naive_step_noskip. apply IH.
Qed.

(* ---- ancestors of a clean relative path ---- *)
Lemma ancestors_of_joinc d b : okc (d ++ [b]) -> ancestors_of (joinc (d ++ [b])) = map joinc (prefixes d).
Proof.
  intros H. unfold ancestors_of. rewrite dir_joinc by auto.
  destruct d as [|x d]; [reflexivity|].
  assert (Hd : okc (x :: d)) by (apply (okc_prefix (x :: d) b); [discriminate|exact H]).
  destruct (okc_not_special _ Hd) as (_ & Hdot & _).
  apply bytes_eqb_neq in Hdot. rewrite Hdot.
  destruct Hd as (Hne & _ & Hs). rewrite comps_joinc by auto. reflexivity.
Qed.

Lemma incr_chain_snoc pats d b :
  incr_chain pmatch pats (d ++ [b]) = incr_eval pmatch pats (joinc (d ++ [b])) (snd (incr_chain pmatch pats d)).
Proof. unfold incr_chain. rewrite prefixes_snoc, fold_left_app. reflexivity. Qed.

Lemma incr_go_cons P ps parent hi file m :
  incr_go pmatch (P :: ps) parent hi file m =
  let mm := incr_m pmatch P (hi && hd false parent) hi file m in
  let r := incr_go pmatch ps (tl parent) hi file (if mm then negb (p_excl P) else m) in
  (fst r, mm :: snd r).
Proof. cbn [incr_go]. cbv zeta. destruct (incr_go pmatch ps (tl parent) hi file _); reflexivity. Qed.

(* ---- top level: no info, no ancestors ---- *)
Lemma incr_go_noinfo file : ancestors_of file = [] -> forall pats parent m,
  fst (incr_go pmatch pats parent false file m) = fold_left (naive_step pmatch file) pats m.
Proof.
  intros Ha. induction pats as [|P ps IH]; intros parent m; [reflexivity|].
  rewrite incr_go_cons. cbv zeta. cbn [fst fold_left andb]. rewrite IH. f_equal.
  unfold incr_m, naive_step. cbn [negb andb].
  destruct (negb (eqb (p_excl P) m)); auto.
Qed.

(* ---- soundness of the recorded infos ---- *)
Definition sound (anc : list bytes) (pats : list pat) (info : list bool) : Prop :=
  Forall2 (fun P m => m = true -> existsb (pmatch (p_str P)) anc = true) pats info.

Lemma sound_weaken anc anc' pats info : (forall q, In q anc -> In q anc') -> sound anc pats info -> sound anc' pats info.
Proof.
  intros Hsub H. induction H; constructor; auto. intros Hm. specialize (H Hm).
  apply existsb_exists in H. destruct H as (q & Hq & Hp). apply existsb_exists. eauto.
Qed.

Lemma incr_go_sound_info anc file pats : forall parent m,
  sound anc pats parent ->
  sound (anc ++ [file]) pats (snd (incr_go pmatch pats parent true file m)).
Proof.
  induction pats as [|P ps IH]; intros parent m H; [constructor|].
  inversion H as [|? pm ? ptl HP Hrest]; subst. rewrite incr_go_cons. cbv zeta. cbn [snd hd tl andb].
  constructor.
  - unfold incr_m. intros Hm. rewrite existsb_app. destruct pm.
    + rewrite HP by auto. reflexivity.
    + destruct (negb (eqb (p_excl P) m)); [discriminate|]. cbn [negb andb] in Hm. rewrite orb_false_r in Hm.
      simpl. rewrite Hm. rewrite orb_true_r. reflexivity.
  - apply IH. exact Hrest.
Qed.

Lemma incr_go_sound_noinfo file pats : ancestors_of file = [] -> forall parent m,
  sound [file] pats (snd (incr_go pmatch pats parent false file m)).
Proof.
  intros Ha. induction pats as [|P ps IH]; intros parent m; [constructor|].
  rewrite incr_go_cons. cbv zeta. cbn [snd andb].
  constructor.
  - unfold incr_m, anc_match. rewrite Ha. cbn [negb andb existsb]. intros Hm.
    destruct (negb (eqb (p_excl P) m)); [discriminate|]. rewrite !orb_false_r in *. exact Hm.
  - apply IH.
Qed.

Lemma sound_length anc pats info : sound anc pats info -> length info = length pats.
Proof. induction 1; simpl; auto. Qed.

(* the info recorded for the directory with components cs is sound w.r.t. its prefixes *)
Lemma incr_chain_sound pats : forall cs, cs = [] \/ okc cs ->
  cs <> [] -> sound (map joinc (prefixes cs)) pats (snd (incr_chain pmatch pats cs)).
Proof.
  induction cs as [|b d IH] using rev_ind; intros Hok Hne; [congruence|].
  destruct Hok as [Hok|Hok]; [destruct d; discriminate|].
  rewrite incr_chain_snoc, prefixes_snoc, map_app. cbn [map].
  destruct d as [|x d].
  - (* top level *)
    cbn [app]. unfold incr_chain. cbn [prefixes fold_left snd]. unfold incr_eval. cbn [is_nil negb].
    apply incr_go_sound_noinfo. rewrite <- (app_nil_l [b]). rewrite ancestors_of_joinc by exact Hok. reflexivity.
  - assert (Hd : okc (x :: d)) by (apply (okc_prefix (x :: d) b); [discriminate|exact Hok]).
    specialize (IH (or_intror Hd) ltac:(discriminate)).
    unfold incr_eval. destruct pats as [|P ps]; [constructor|].
    assert (Hnn : is_nil (snd (incr_chain pmatch (P :: ps) (x :: d))) = false).
    { pose proof (sound_length _ _ _ IH) as L. destruct (snd (incr_chain pmatch (P :: ps) (x :: d))); [discriminate|reflexivity]. }
    rewrite Hnn. cbn [negb]. apply incr_go_sound_info. exact IH.
Qed.

(* ---- with info: equal to the naive loop unless a late shadow is hit ---- *)
Lemma incr_go_naive anc file : ancestors_of file = anc -> forall pats parent m,
  sound anc pats parent ->
  nls_go pmatch pats parent anc file m = true ->
  fst (incr_go pmatch pats parent true file m) = fold_left (naive_step pmatch file) pats m.
Proof.
  intros Ha. induction pats as [|P ps IH]; intros parent m Hs Hn; [reflexivity|].
  inversion Hs as [|? pm ? ptl HP Hrest]; subst parent. subst.
  rewrite incr_go_cons. cbv zeta. cbn [fst fold_left hd tl andb]. cbn [nls_go hd tl] in Hn.
  apply andb_true_iff in Hn. destruct Hn as [Hbad Hn].
  rewrite (IH ptl _ Hrest Hn). f_equal.
  unfold incr_m, naive_step, anc_match.
  destruct pm.
  - rewrite (HP eq_refl). rewrite orb_true_r.
    destruct (negb (eqb (p_excl P) m)) eqn:Esk; auto. apply eqb_neg_eq in Esk. auto.
  - cbn [negb andb] in *. destruct (negb (eqb (p_excl P) m)) eqn:Esk; auto.
    rewrite negb_false_iff in Esk. rewrite Esk in Hbad. rewrite orb_false_r.
    destruct (pmatch (p_str P) file); auto.
    destruct (existsb (pmatch (p_str P)) (ancestors_of file)); [discriminate|reflexivity].
Qed.

Theorem incr_eq_naive_proof pats cs : okc cs -> no_late_shadow pmatch pats cs = true ->
  incr_path pmatch pats cs = naive pmatch pats (joinc cs).
Proof.
  intros Hok Hn. destruct (okc_snoc_split cs Hok) as (d & b & ->).
  unfold incr_path, naive. rewrite incr_chain_snoc. unfold incr_eval.
  unfold no_late_shadow in Hn. rewrite removelast_last in Hn.
  destruct d as [|x d].
  - unfold incr_chain. cbn [prefixes fold_left snd is_nil negb].
    apply incr_go_noinfo. rewrite ancestors_of_joinc by exact Hok. reflexivity.
  - cbn [is_nil] in Hn.
    assert (Hd : okc (x :: d)) by (apply (okc_prefix (x :: d) b); [discriminate|exact Hok]).
    pose proof (incr_chain_sound pats (x :: d) (or_intror Hd) ltac:(discriminate)) as Hs.
    destruct pats as [|P ps]; [reflexivity|].
    assert (Hnn : is_nil (snd (incr_chain pmatch (P :: ps) (x :: d))) = false).
    { pose proof (sound_length _ _ _ Hs) as L. destruct (snd (incr_chain pmatch (P :: ps) (x :: d))); [discriminate|reflexivity]. }
    rewrite Hnn. cbn [negb].
    apply (incr_go_naive (map joinc (prefixes (x :: d)))); auto.
    apply ancestors_of_joinc. exact Hok.
Qed.

End IncrNaive.
