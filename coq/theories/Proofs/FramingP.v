(* Proofs about Model/Framing.v and Model/MetaBuffer.v *)
From Coq Require Import List NArith ZArith Bool Lia ZifyN ZifyNat ZifyBool Permutation.
From FS Require Import Sx Model.Stat Model.Varint Model.Codec Model.Framing Model.MetaBuffer
  Proofs.VarintP Proofs.CodecP.
Import ListNotations.
Open Scope N_scope.

(* ------------------------------------------------------------------ ReadFull over chunks *)
Lemma read_full_from_ok cs : forall got a rest,
  concat cs = a ++ rest ->
  exists cs', read_full_from got (len a) cs = RF_ok a cs' /\ concat cs' = rest.
Proof.
  induction cs as [|c r IH]; intros got a rest H.
  - cbn [concat] in H. symmetry in H. apply app_eq_nil in H. destruct H; subst.
    exists []. split; reflexivity.
  - cbn [read_full_from]. destruct (N.eqb_spec (len a) 0) as [E|E].
    { apply len_zero in E. subst a. exists (c :: r). split; [reflexivity|exact H]. }
    cbn [concat] in H. apply app_eq_app in H. destruct H as [l [[Hc Hr]|[Ha Hr]]].
    + (* the chunk extends beyond the request: c = a ++ l *)
      subst c. destruct l as [|x l].
      * rewrite app_nil_r in *. rewrite N.leb_refl.
        destruct (IH (got || negb (len a =? 0)) [] rest) as [cs' [H1 H2]]; [cbn; auto|].
        replace (len a - len a) with (len (@nil N)) by (cbn [len]; lia). rewrite H1.
        exists cs'. rewrite app_nil_r. auto.
      * destruct (N.leb_spec (len (a ++ x :: l)) (len a)) as [Hle|Hle].
        { rewrite len_app, len_cons in Hle. lia. }
        rewrite firstn_len_app, skipn_len_app. exists ((x :: l) :: r). split; [reflexivity|].
        cbn [concat]. symmetry. exact Hr.
    + (* the chunk is a prefix of the request: a = c ++ l *)
      subst a. destruct (N.leb_spec (len c) (len (c ++ l))) as [Hle|Hle]; [|rewrite len_app in Hle; lia].
      replace (len (c ++ l) - len c) with (len l) by (rewrite len_app; lia).
      destruct (IH (got || negb (len c =? 0)) l rest Hr) as [cs' [H1 H2]].
      rewrite H1. exists cs'. auto.
Qed.

Lemma read_full_eof cs n : concat cs = [] -> n <> 0 -> read_full_from false n cs = RF_eof.
Proof.
  induction cs as [|c r IH]; intros H Hn; cbn [read_full_from].
  - destruct (N.eqb_spec n 0); [contradiction|reflexivity].
  - destruct (N.eqb_spec n 0); [contradiction|].
    cbn [concat] in H. apply app_eq_nil in H. destruct H as [Hc Hr]. subst c.
    cbn [len]. destruct (N.leb_spec 0 n); [|lia].
    change (0 =? 0) with true. cbn [negb orb]. rewrite N.sub_0_r, (IH Hr Hn). reflexivity.
Qed.

(* ------------------------------------------------------------------ streams of frames *)

Lemma decode_packet_nil : decode_packet_u [] = Some (empty_packet, [], []).
Proof. reflexivity. Qed.

Lemma recv_frames msgs : forall frames fuel cs,
  Forall sendable msgs -> Forall2 frame_of msgs frames ->
  concat cs = concat frames -> (length msgs < fuel)%nat ->
  recv_msgs_f fuel cs = map Some msgs.
Proof.
  induction msgs as [|p msgs IH]; intros frames fuel cs Hs Hf Hc Hfuel.
  - inversion Hf; subst. destruct fuel as [|fuel]; [cbn in Hfuel; lia|].
    cbn [recv_msgs_f]. unfold read_full. rewrite read_full_eof; [reflexivity|exact Hc|discriminate].
  - inversion Hf as [|? fr ? frs (xs & HP & Hfr) Hf']; subst.
    inversion Hs as [|? ? (Hwf & Hlt) Hs']; subst.
    destruct fuel as [|fuel]; [lia|]. cbn [length] in Hfuel.
    cbn [recv_msgs_f]. unfold read_full.
    set (body := encode_packet_ord xs p) in *.
    assert (Hlen : len body = size_packet p) by (apply encode_packet_ord_len; exact HP).
    cbn [concat] in Hc. unfold frame in Hc. rewrite <- app_assoc in Hc.
    destruct (read_full_from_ok cs false (be32 (len body)) (body ++ concat frs) Hc) as [cs1 [H1 Hc1]].
    change (len (be32 (len body))) with 4 in H1. rewrite H1.
    rewrite be32_roundtrip by (rewrite Hlen; exact Hlt).
    pose proof (packet_roundtrip_any_order p xs Hwf HP) as Hrt. fold body in Hrt.
    destruct (N.eqb_spec (len body) 0) as [E|E].
    + apply len_zero in E. rewrite E in Hrt, Hc1. rewrite decode_packet_nil in Hrt.
      inversion Hrt; subst. cbn [map]. f_equal.
      apply (IH frs); auto. lia.
    + destruct (read_full_from_ok cs1 false body (concat frs) Hc1) as [cs2 [H2 Hc2]].
      rewrite H2. unfold decode_packet. rewrite Hrt. cbn [option_map fst map]. f_equal.
      apply (IH frs); auto. lia.
Qed.

Lemma frames_length msgs frames :
  Forall2 frame_of msgs frames -> (length msgs <= length (concat frames))%nat.
Proof.
  induction 1 as [|p fr msgs frs (xs & _ & Hfr) _ IH]; [cbn; lia|].
  cbn [concat length]. rewrite app_length. subst fr. unfold frame. rewrite app_length, be32_length. lia.
Qed.

Theorem recv_all_fragmentation_any_order msgs frames chunks :
  Forall sendable msgs -> Forall2 frame_of msgs frames ->
  concat chunks = concat frames -> recv_msgs chunks = map Some msgs.
Proof.
  intros Hs Hf Hc. unfold recv_msgs. apply (recv_frames msgs frames); auto.
  rewrite Hc. pose proof (frames_length msgs frames Hf). lia.
Qed.

Theorem recv_all_fragmentation msgs chunks :
  Forall sendable msgs -> concat chunks = concat (map send_msg msgs) ->
  recv_msgs chunks = map Some msgs.
Proof.
  intros Hs Hc. apply (recv_all_fragmentation_any_order msgs (map send_msg msgs)); auto.
  clear. induction msgs as [|p msgs IH]; cbn [map]; constructor; [|exact IH].
  exists (pxattrs p). split; [apply Permutation_refl|reflexivity].
Qed.

(* ------------------------------------------------------------------ buffer.go *)
Lemma write_to_cons c cap b : write_to ((c, cap) :: b) = write_to b ++ c.
Proof. unfold write_to. cbn [map fst rev]. rewrite concat_app. cbn [concat]. rewrite app_nil_r. reflexivity. Qed.

Lemma write_to_alloc b r : write_to (alloc_write b r) = write_to b ++ r.
Proof.
  unfold alloc_write. destruct (chunk_size <? len r).
  - apply write_to_cons.
  - destruct b as [|[c cap] b'].
    + apply write_to_cons.
    + destruct (len c + len r <=? cap).
      * rewrite !write_to_cons, app_assoc. reflexivity.
      * apply write_to_cons.
Qed.

Lemma write_to_fold recs : forall b, write_to (fold_left alloc_write recs b) = write_to b ++ concat recs.
Proof.
  induction recs as [|r recs IH]; intros b; cbn [fold_left concat].
  - rewrite app_nil_r. reflexivity.
  - rewrite IH, write_to_alloc, app_assoc. reflexivity.
Qed.

Theorem buffer_is_concat recs : write_to (alloc_all recs) = concat recs.
Proof. unfold alloc_all. rewrite write_to_fold. reflexivity. Qed.

(* no chunk is ever longer than its capacity (the slices handed out never overlap or spill) *)
Lemma alloc_write_fit b r : chunks_fit b -> chunks_fit (alloc_write b r).
Proof.
  unfold chunks_fit, alloc_write. intros H.
  destruct (N.ltb_spec chunk_size (len r)).
  - constructor; [cbn; lia|exact H].
  - destruct b as [|[c cap] b'].
    + constructor; [cbn [fst snd]; lia|constructor].
    + destruct (N.leb_spec (len c + len r) cap).
      * inversion H; subst. constructor; [cbn [fst snd]; rewrite len_app; lia|assumption].
      * constructor; [cbn [fst snd]; lia|exact H].
Qed.
Theorem buffer_chunks_fit recs : chunks_fit (alloc_all recs).
Proof.
  unfold alloc_all. assert (G : forall b, chunks_fit b -> chunks_fit (fold_left alloc_write recs b)).
  { induction recs as [|r recs IH]; intros b Hb; cbn [fold_left]; [exact Hb|]. apply IH, alloc_write_fit, Hb. }
  apply G. constructor.
Qed.

(* ================================================================== readers that report errors with data *)
Lemma xdata_cons c f r : xdata ((c, f) :: r) = c ++ xdata r.
Proof. reflexivity. Qed.
Lemma xdata_quiet cs : xdata (quiet cs) = concat cs.
Proof. induction cs as [|c r IH]; [reflexivity|]. cbn [quiet map]. rewrite xdata_cons. cbn [concat]. f_equal. exact IH. Qed.

Lemma tail_flagged_tl c f r : tail_flagged ((c, f) :: r) -> tail_flagged r.
Proof. intros H. inversion H; subst; [constructor|assumption]. Qed.
Lemma tail_flagged_split c l f r : l <> [] -> tail_flagged ((c, f) :: r) -> tail_flagged ((l, f) :: r).
Proof. intros Hl H. inversion H; subst; [constructor; intros _; exact Hl|constructor; assumption]. Qed.
Lemma tail_flagged_quiet cs : tail_flagged (quiet cs).
Proof. induction cs as [|c r IH]; [constructor|]. cbn [quiet map]. constructor. exact IH. Qed.

(* ReadFull of [len a] bytes from a reader whose data starts with [a]: succeeds with [a],
   whatever error the completing Read reports *)
Lemma read_fullx_ok cs : forall got a rest,
  tail_flagged cs -> xdata cs = a ++ rest ->
  exists cs', read_fullx_from got (len a) cs = RFX_ok a cs' /\ xdata cs' = rest /\ tail_flagged cs'.
Proof.
  induction cs as [|[c f] r IH]; intros got a rest Htf H.
  - unfold xdata in H. cbn [map concat] in H. symmetry in H. apply app_eq_nil in H. destruct H; subst.
    exists []. split; [reflexivity|]. split; [reflexivity|constructor].
  - cbn [read_fullx_from]. destruct (N.eqb_spec (len a) 0) as [E|E].
    { apply len_zero in E. subst a. exists ((c, f) :: r). split; [reflexivity|]. split; [exact H|exact Htf]. }
    rewrite xdata_cons in H. apply app_eq_app in H. destruct H as [l [[Hc Hr]|[Ha Hr]]].
    + (* the chunk reaches the end of the request: c = a ++ l *)
      subst c. destruct l as [|x l].
      * rewrite app_nil_r in *. rewrite N.ltb_irrefl, N.eqb_refl.
        exists r. split; [reflexivity|]. split; [symmetry; exact Hr|eapply tail_flagged_tl; exact Htf].
      * assert (Hlen : len a < len (a ++ x :: l)) by (rewrite len_app, len_cons; lia).
        destruct (N.ltb_spec (len (a ++ x :: l)) (len a)); [lia|].
        destruct (N.eqb_spec (len (a ++ x :: l)) (len a)); [lia|].
        rewrite firstn_len_app, skipn_len_app. exists ((x :: l, f) :: r). split; [reflexivity|].
        split; [rewrite xdata_cons; symmetry; exact Hr|].
        eapply tail_flagged_split; [discriminate|exact Htf].
    + (* the chunk ends inside the request: a = c ++ l *)
      subst a. destruct l as [|x l].
      * rewrite app_nil_r in *. rewrite N.ltb_irrefl, N.eqb_refl.
        exists r. split; [reflexivity|]. split; [exact Hr|eapply tail_flagged_tl; exact Htf].
      * assert (Hlen : len c < len (c ++ x :: l)) by (rewrite len_app, len_cons; lia).
        destruct (N.ltb_spec (len c) (len (c ++ x :: l))); [|lia].
        inversion Htf as [|? ? Hf|? ? Htr]; subst.
        { unfold xdata in Hr. cbn [map concat] in Hr. discriminate. }
        replace (len (c ++ x :: l) - len c) with (len (x :: l)) by (rewrite len_app; lia).
        destruct (IH (got || negb (len c =? 0)) (x :: l) rest Htr Hr) as [cs' [H1 [H2 H3]]].
        rewrite H1. exists cs'. auto.
Qed.

(* after the data: a clean io.EOF *)
Lemma read_fullx_eof cs n : tail_flagged cs -> xdata cs = [] -> n <> 0 -> read_fullx_from false n cs = RFX_eof.
Proof.
  intros Htf. induction Htf as [|c f Hf|c r Htr IH]; intros H Hn; cbn [read_fullx_from];
    destruct (N.eqb_spec n 0); try contradiction.
  - reflexivity.
  - rewrite xdata_cons in H. apply app_eq_nil in H. destruct H as [-> _]. cbn [len].
    destruct (N.ltb_spec 0 n); [|lia]. change (0 =? 0) with true. cbn [negb orb].
    destruct f; [|reflexivity|exfalso; apply Hf; reflexivity].
    rewrite N.sub_0_r. cbn [read_fullx_from]. destruct (N.eqb_spec n 0); [contradiction|reflexivity].
  - rewrite xdata_cons in H. apply app_eq_nil in H. destruct H as [-> Hr]. cbn [len].
    destruct (N.ltb_spec 0 n); [|lia]. change (0 =? 0) with true. cbn [negb orb].
    rewrite N.sub_0_r, (IH Hr Hn). reflexivity.
Qed.

Lemma recv_frames_x msgs : forall frames fuel cs,
  Forall sendable msgs -> Forall2 frame_of msgs frames -> tail_flagged cs ->
  xdata cs = concat frames -> (length msgs < fuel)%nat ->
  recv_msgs_xf fuel cs = map Some msgs.
Proof.
  induction msgs as [|p msgs IH]; intros frames fuel cs Hs Hf Htf Hc Hfuel.
  - inversion Hf; subst. destruct fuel as [|fuel]; [cbn in Hfuel; lia|].
    cbn [recv_msgs_xf]. unfold read_fullx. rewrite read_fullx_eof; [reflexivity|exact Htf|exact Hc|discriminate].
  - inversion Hf as [|? fr ? frs (xs & HP & Hfr) Hf']; subst.
    inversion Hs as [|? ? (Hwf & Hlt) Hs']; subst.
    destruct fuel as [|fuel]; [lia|]. cbn [length] in Hfuel.
    cbn [recv_msgs_xf]. unfold read_fullx.
    set (body := encode_packet_ord xs p) in *.
    assert (Hlen : len body = size_packet p) by (apply encode_packet_ord_len; exact HP).
    cbn [concat] in Hc. unfold frame in Hc. rewrite <- app_assoc in Hc.
    destruct (read_fullx_ok cs false (be32 (len body)) (body ++ concat frs) Htf Hc) as [cs1 [H1 [Hc1 Htf1]]].
    change (len (be32 (len body))) with 4 in H1. rewrite H1.
    rewrite be32_roundtrip by (rewrite Hlen; exact Hlt).
    pose proof (packet_roundtrip_any_order p xs Hwf HP) as Hrt. fold body in Hrt.
    destruct (N.eqb_spec (len body) 0) as [E|E].
    + apply len_zero in E. rewrite E in Hrt, Hc1. rewrite decode_packet_nil in Hrt.
      inversion Hrt; subst. cbn [map]. f_equal.
      apply (IH frs); auto. lia.
    + destruct (read_fullx_ok cs1 false body (concat frs) Htf1 Hc1) as [cs2 [H2 [Hc2 Htf2]]].
      rewrite H2. unfold decode_packet. rewrite Hrt. cbn [option_map fst map]. f_equal.
      apply (IH frs); auto. lia.
Qed.

(* every fragmentation, and the final Read may deliver its bytes together with io.EOF (or
   with any other error): nothing is lost *)
Theorem recv_all_fragmentation_x_any_order msgs frames chunks :
  Forall sendable msgs -> Forall2 frame_of msgs frames -> tail_flagged chunks ->
  xdata chunks = concat frames -> recv_msgs_x chunks = map Some msgs.
Proof.
  intros Hs Hf Htf Hc. unfold recv_msgs_x. apply (recv_frames_x msgs frames); auto.
  rewrite Hc. pose proof (frames_length msgs frames Hf). lia.
Qed.

Theorem recv_all_fragmentation_x msgs chunks :
  Forall sendable msgs -> tail_flagged chunks ->
  xdata chunks = concat (map send_msg msgs) -> recv_msgs_x chunks = map Some msgs.
Proof.
  intros Hs Htf Hc. apply (recv_all_fragmentation_x_any_order msgs (map send_msg msgs)); auto.
  clear. induction msgs as [|p msgs IH]; cbn [map]; constructor; [|exact IH].
  exists (pxattrs p). split; [apply Permutation_refl|reflexivity].
Qed.

(* ------------------------------------------------------------------ the extension is conservative *)
Lemma read_full_from_0 got cs : read_full_from got 0 cs = RF_ok [] cs.
Proof. destruct cs; reflexivity. Qed.

Lemma read_full_sim cs : forall got n,
  read_fullx_from got n (quiet cs) =
  match read_full_from got n cs with
  | RF_ok b cs' => RFX_ok b (quiet cs')
  | RF_eof => RFX_eof
  | RF_short => RFX_err
  end.
Proof.
  induction cs as [|c r IH]; intros got n.
  - cbn [quiet map read_fullx_from read_full_from]. destruct (n =? 0); [reflexivity|]. destruct got; reflexivity.
  - cbn [quiet map read_fullx_from read_full_from]. fold (quiet r).
    destruct (N.eqb_spec n 0) as [E|E]; [reflexivity|].
    destruct (N.ltb_spec (len c) n) as [H|H].
    + destruct (N.leb_spec (len c) n); [|lia]. rewrite IH.
      destruct (read_full_from (got || negb (len c =? 0)) (n - len c) r); reflexivity.
    + destruct (N.eqb_spec (len c) n) as [E2|E2].
      * destruct (N.leb_spec (len c) n); [|lia].
        replace (n - len c) with 0 by lia. rewrite read_full_from_0, app_nil_r. reflexivity.
      * destruct (N.leb_spec (len c) n); [lia|]. reflexivity.
Qed.

Lemma recv_msgs_sim fuel : forall cs, recv_msgs_xf fuel (quiet cs) = recv_msgs_f fuel cs.
Proof.
  induction fuel; intros cs; [reflexivity|]. cbn [recv_msgs_xf recv_msgs_f]. unfold read_fullx, read_full.
  rewrite read_full_sim. destruct (read_full_from false 4 cs) as [h cs1| |]; try reflexivity.
  destruct (be32_dec h =? 0); [rewrite IHfuel; reflexivity|].
  rewrite read_full_sim. destruct (read_full_from false (be32_dec h) cs1) as [b cs2| |]; try reflexivity.
  destruct (decode_packet b); [rewrite IHfuel|]; reflexivity.
Qed.

Theorem recv_msgs_quiet cs : recv_msgs_x (quiet cs) = recv_msgs cs.
Proof. unfold recv_msgs_x, recv_msgs. rewrite xdata_quiet. apply recv_msgs_sim. Qed.
