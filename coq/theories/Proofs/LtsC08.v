(* C08 on the goroutine LTS: what a run that ends in success has requested and completed
   is a function of the parameters alone (the ids whose content the diff needs), whatever
   the interleaving. *)
From Coq Require Import List Arith Bool PeanoNat Lia Permutation.
From FS Require Import Model.Lts Model.LtsExplore Proofs.LtsInv Proofs.LtsSafe.
Import ListNotations.

Lemma memb_true_iff : forall x l, memb x l = true <-> In x l.
Proof.
  intros. unfold memb. rewrite existsb_exists. split.
  - intros (y & A & B). apply Nat.eqb_eq in B. subst. auto.
  - intro. exists x. split; auto. apply Nat.eqb_refl.
Qed.
Lemma memb_remb : forall x y l, memb x (remb y l) = true -> memb x l = true.
Proof.
  intros x y l H. apply memb_true_iff in H. apply memb_true_iff.
  unfold remb in H. apply filter_In in H. tauto.
Qed.
Lemma memb_cons_true : forall x y l, memb x (y :: l) = true -> x = y \/ memb x l = true.
Proof.
  intros x y l H. rewrite memb_cons in H. apply orb_prop in H. destruct H; auto.
  left. apply Nat.eqb_eq. auto.
Qed.

(* ---------- writers exist only for entries whose content is needed ---------- *)
Definition inv7a (p : params) (st : state) : Prop :=
  forall j w, nth_error (wrs st) j = Some w -> kind_of p (wr_id w) = ENeed.

Lemma inv7a_step : forall p st l st', inv7a p st -> step p st l = Some st' -> inv7a p st'.
Proof.
  intros p st l st' I H. unfold inv7a in *.
  destruct l; unfold_steps H; step_split H; inv_some; subst;
  repeat match goal with w : writer |- _ => destruct w; cbn in * end; subst;
  intros j' w' Hn; cbn in Hn; unfold setwr in Hn; cbn in Hn.
  all: try (apply I in Hn; exact Hn).
  all: try (match type of Hn with context [set_nth ?j _ _] =>
              match goal with E : nth_error _ j = Some _ |- _ =>
                rewrite (nth_error_set_nth _ _ _ j' _ _ E) in Hn; pose proof (I _ _ E) as IE end end;
            destruct (Nat.eqb_spec j j');
            [ inv_some; subst; cbn in *; auto | apply I in Hn; auto ]; fail).
  rewrite nth_error_snoc in Hn. destruct (j' <? length (wrs st)).
  - apply I in Hn. auto.
  - destruct (j' =? length (wrs st)); inv_some; subst; try discriminate. cbn. auto.
Qed.

(* ---------- every id in pipes / completed / reqs / being written belongs to a writer ---------- *)
Definition inv7b (st : state) : Prop :=
  (forall id, memb id (pipes st) = true -> has_writer (wrs st) id) /\
  (forall id, memb id (completed st) = true -> has_writer (wrs st) id) /\
  (forall id, memb id (reqs st) = true -> has_writer (wrs st) id) /\
  (match rl_pc st with RL_Write id | RL_CloseP id => has_writer (wrs st) id | _ => True end).

Lemma has_writer_self : forall l j w, nth_error l j = Some w -> has_writer l (wr_id w).
Proof. intros. exists j, w. auto. Qed.

Lemma has_writer_step : forall p st l st' id,
  step p st l = Some st' -> has_writer (wrs st) id -> has_writer (wrs st') id.
Proof.
  intros p st l st' id H W.
  destruct l; unfold_steps H; step_split H; inv_some; subst;
  repeat match goal with w : writer |- _ => destruct w; cbn in * end; subst;
  cbn; unfold setwr; cbn; auto;
  try (match goal with E : nth_error (wrs _) _ = Some _ |- _ =>
         eapply has_writer_set_nth; [exact E | reflexivity | exact W] end).
  apply has_writer_snoc_old; auto.
Qed.

Ltac fin7b M :=
  repeat match goal with |- _ /\ _ => split end;
  intros;
  try (match goal with |- match rl_pc ?s with _ => _ end => destruct (rl_pc s) end);
  try exact Logic.I;
  try (apply M);
  repeat match goal with Hm : memb _ (remb _ _) = true |- _ => apply memb_remb in Hm end;
  try match goal with Hm : memb _ (_ :: _) = true |- _ =>
        apply memb_cons_true in Hm; destruct Hm as [Hm|Hm]; [subst|] end;
  auto;
  try (match goal with E : nth_error (wrs _) _ = Some _ |- _ => apply (has_writer_self _ _ _ E) end).

Lemma inv7b_step : forall p st l st', inv7b st -> step p st l = Some st' -> inv7b st'.
Proof.
  intros p st l st' I H.
  assert (M: forall id, has_writer (wrs st) id -> has_writer (wrs st') id)
    by (intros; eapply has_writer_step; eauto).
  unfold inv7b in I. destruct I as (I1 & I2 & I3 & I4).
  destruct l; unfold_steps H; step_split H; inv_some; subst;
  repeat match goal with w : writer |- _ => destruct w; cbn in * end; subst;
  unfold inv7b; cbn in M |- *; unfold setwr in *; cbn in M |- *;
  repeat match goal with E : rl_pc _ = _ |- _ => rewrite E in * end;
  fin7b M.
Qed.

Lemma inv7b_init : forall p, inv7b (init p).
Proof. intro p. unfold inv7b; cbn. repeat split; intros; discriminate. Qed.

(* ---------- a writer past SendMsg(REQ) has its id in the request set ---------- *)
Definition wr_req_ok (st : state) (w : writer) : Prop :=
  match wr_pc w with
  | WR_Wait | WR_Notify => memb (wr_id w) (reqs st) = true
  | WR_Done => eg_err st = true \/ memb (wr_id w) (reqs st) = true
  | _ => True
  end.
Definition inv7c (st : state) : Prop :=
  forall j w, nth_error (wrs st) j = Some w -> wr_req_ok st w.

Lemma inv7c_step : forall p st l st', inv7c st -> step p st l = Some st' -> inv7c st'.
Proof.
  intros p st l st' I H. unfold inv7c in *.
  destruct l; unfold_steps H; step_split H; inv_some; subst;
  repeat match goal with w : writer |- _ => destruct w; cbn in * end; subst;
  intros j' w' Hn; cbn in Hn; unfold setwr in Hn; cbn in Hn.
  all: try (apply I in Hn; unfold wr_req_ok in *; cbn; destruct (wr_pc w'); cbn in *;
            rewrite ?memb_cons; intuition (auto with bool); fail).
  all: try (match type of Hn with context [set_nth ?j _ _] =>
              match goal with E : nth_error _ j = Some _ |- _ =>
                rewrite (nth_error_set_nth _ _ _ j' _ _ E) in Hn; pose proof (I _ _ E) as IE end end;
            destruct (Nat.eqb_spec j j');
            [ inv_some; subst; unfold wr_req_ok in *; cbn in *; rewrite ?memb_cons, ?Nat.eqb_refl; intuition (auto with bool)
            | apply I in Hn; unfold wr_req_ok in *; cbn; destruct (wr_pc w'); cbn in *; rewrite ?memb_cons; intuition (auto with bool)]; fail).
  rewrite nth_error_snoc in Hn. destruct (j' <? length (wrs st)).
  - apply I in Hn. unfold wr_req_ok in *; cbn. destruct (wr_pc w'); auto.
  - destruct (j' =? length (wrs st)); inv_some; subst; try discriminate. unfold wr_req_ok; cbn. auto.
Qed.

Record inv7 (p : params) (st : state) : Prop := { i_7a : inv7a p st; i_7b : inv7b st; i_7c : inv7c st }.

Lemma inv7_reachable : forall p st, reachable p st -> inv7 p st.
Proof.
  induction 1.
  - constructor.
    + intros j w H. destruct j; discriminate H.
    + apply inv7b_init.
    + intros j w H. destruct j; discriminate H.
  - destruct IHreachable. constructor.
    + eapply inv7a_step; eauto.
    + eapply inv7b_step; eauto.
    + eapply inv7c_step; eauto.
Qed.

(* ---------- the sequential function ---------- *)
Lemma need_ids_from_spec : forall l i id,
  In id (need_ids_from i l) <->
  exists k e, nth_error l k = Some e /\ id = i + k /\ e_kind e = ENeed.
Proof.
  induction l; intros i id; cbn [need_ids_from].
  - split; [intros [] | intros (k & e & A & _)]. destruct k; discriminate A.
  - assert (R: In id (need_ids_from (S i) l) <->
               exists k e, nth_error (a :: l) (S k) = Some e /\ id = i + S k /\ e_kind e = ENeed).
    { rewrite IHl. split; intros (k & e & A & B & C); exists k, e; repeat split; auto; lia. }
    destruct (e_kind a) eqn:K.
    + rewrite R. split.
      * intros (k & e & A & B & C). exists (S k), e. auto.
      * intros (k & e & A & B & C). destruct k.
        -- cbn in A. injection A as A. subst. congruence.
        -- exists k, e. auto.
    + rewrite R. split.
      * intros (k & e & A & B & C). exists (S k), e. auto.
      * intros (k & e & A & B & C). destruct k.
        -- cbn in A. injection A as A. subst. congruence.
        -- exists k, e. auto.
    + cbn [In]. rewrite R. split.
      * intros [E|(k & e & A & B & C)].
        -- exists 0, a. repeat split; auto. lia.
        -- exists (S k), e. auto.
      * intros (k & e & A & B & C). destruct k.
        -- left. lia.
        -- right. exists k, e. auto.
Qed.

Lemma need_ids_spec : forall p id, In id (need_ids p) <-> kind_of p id = ENeed.
Proof.
  intros p id. unfold need_ids. rewrite need_ids_from_spec. unfold kind_of, entry_at. split.
  - intros (k & e & A & B & C). cbn in B. subst. rewrite A. exact C.
  - intro H. destruct (nth_error (p_entries p) id) as [e|] eqn:E; try discriminate.
    exists id, e. auto.
Qed.

Lemma kind_need_lt : forall p id, kind_of p id = ENeed -> id < nentries p.
Proof.
  intros p id H. unfold kind_of, entry_at in H. unfold nentries.
  destruct (nth_error (p_entries p) id) eqn:E; try discriminate.
  eapply nth_error_some_lt; eauto.
Qed.

(* In every reachable state in which Receive has returned nil -- whatever the interleaving,
   the capacities, the number of workers, and whatever faults happened on the way -- the set
   of completed files and the set of requests are exactly the ids the diff needs. *)
Lemma success_outcome_proof : forall p st, reachable p st -> recv_ret st = Some true ->
  forall id, (memb id (completed st) = true <-> In id (need_ids p)) /\
             (memb id (reqs st) = true <-> In id (need_ids p)).
Proof.
  intros p st R Ok id.
  destruct (no_false_success_proof _ _ R) as [NF _]. specialize (NF Ok).
  destruct NF as (_ & Hc & (Dl & De & Di) & Frs).
  destruct (inv7_reachable _ _ R) as [Ia (_ & Ib2 & Ib3 & _) Ic].
  destruct (inv_reachable _ _ R) as [_ _ _ J3 _ J5 _].
  destruct J3 as (_ & _ & _ & B4 & _). destruct (B4 Frs) as (_ & _ & Ee & Wd).
  rewrite need_ids_spec. repeat split.
  - intro M. destruct (Ib2 _ M) as (j & w & A & B). subst id. eapply Ia; eauto.
  - intro K. apply Hc; auto. apply kind_need_lt; auto.
  - intro M. destruct (Ib3 _ M) as (j & w & A & B). subst id. eapply Ia; eauto.
  - intro K. pose proof (kind_need_lt _ _ K) as Lt. rewrite <- Di in Lt.
    destruct (J5 De id Lt K) as [X|(j & w & A & B)]; [congruence|].
    pose proof (Ic _ _ A) as Q. pose proof (forallb_nth _ _ _ _ _ Wd A) as Dn.
    unfold wr_req_ok in Q. unfold wr_done in Dn. destruct (wr_pc w); try discriminate.
    subst id. destruct Q; [congruence | auto].
Qed.

Lemma outcome_deterministic_partial_proof : forall p st1 st2,
  reachable p st1 -> reachable p st2 -> recv_ret st1 = Some true -> recv_ret st2 = Some true ->
  (forall id, memb id (completed st1) = memb id (completed st2)) /\
  (forall id, memb id (reqs st1) = memb id (reqs st2)).
Proof.
  intros p st1 st2 R1 R2 O1 O2. split; intro id;
  destruct (success_outcome_proof _ _ R1 O1 id) as [A1 B1];
  destruct (success_outcome_proof _ _ R2 O2 id) as [A2 B2].
  - destruct (memb id (completed st1)) eqn:X, (memb id (completed st2)) eqn:Y; auto.
    + assert (false = true) by (apply A2; apply A1; auto). discriminate.
    + assert (false = true) by (apply A1; apply A2; auto). discriminate.
  - destruct (memb id (reqs st1)) eqn:X, (memb id (reqs st2)) eqn:Y; auto.
    + assert (false = true) by (apply B2; apply B1; auto). discriminate.
    + assert (false = true) by (apply B1; apply B2; auto). discriminate.
Qed.

(* ---------- every file is requested at most once ---------- *)
Definition dl_bound (st : state) : nat := match dl_pc st with DL_Handle i => i | _ => dl_i st end.
Definition wr_ids (st : state) : list nat := map wr_id (wrs st).

Definition inv9a (st : state) : Prop :=
  (match dl_pc st with DL_Handle i => dl_i st = S i | _ => True end) /\
  (forall id, In id (wr_ids st) -> id < dl_bound st) /\
  NoDup (wr_ids st).

Lemma NoDup_snoc : forall (l : list nat) a, NoDup l -> ~ In a l -> NoDup (l ++ [a]).
Proof.
  induction l; intros b H N; cbn.
  - constructor; auto.
  - inversion H; subst. constructor.
    + intro X. apply in_app_or in X. destruct X as [X|[X|[]]]; auto. subst. apply N. left; auto.
    + apply IHl; auto. intro; apply N; right; auto.
Qed.

Lemma map_set_nth_same : forall (l : list writer) j w x,
  nth_error l j = Some w -> wr_id x = wr_id w -> map wr_id (set_nth j x l) = map wr_id l.
Proof.
  induction l; destruct j; intros w x H E.
  - unfold nth_error in H; discriminate.
  - unfold nth_error in H; discriminate.
  - unfold nth_error in H. injection H as H. subst. change (set_nth 0 x (w :: l)) with (x :: l). cbn. congruence.
  - change (nth_error l j = Some w) in H. change (set_nth (S j) x (a :: l)) with (a :: set_nth j x l).
    cbn. f_equal. eapply IHl; eauto.
Qed.

Lemma wr_ids_step : forall p st l st', step p st l = Some st' ->
  wr_ids st' = wr_ids st \/
  (exists i, dl_pc st = DL_Handle i /\ kind_of p i = ENeed /\ wr_ids st' = wr_ids st ++ [i] /\
             dl_pc st' = DL_Next /\ dl_i st' = dl_i st).
Proof.
  intros p st l st' H. unfold wr_ids.
  destruct l; unfold_steps H; step_split H; inv_some; subst;
  repeat match goal with w : writer |- _ => destruct w; cbn in * end; subst;
  cbn; unfold setwr; cbn; auto;
  try (left; match goal with E : nth_error (wrs _) _ = Some _ |- _ =>
         eapply map_set_nth_same; [exact E | reflexivity] end).
  right. exists i. repeat split; auto. rewrite map_app. reflexivity.
Qed.


Lemma inv9a_step : forall p st l st', inv9a st -> step p st l = Some st' -> inv9a st'.
Proof.
  intros p st l st' (I1 & I2 & I3) H.
  destruct (wr_ids_step _ _ _ _ H) as [E|(i & D & K & E & B1 & B2)].
  - unfold inv9a. rewrite E.
    assert (B: (match dl_pc st' with DL_Handle i => dl_i st' = S i | _ => True end) /\ dl_bound st <= dl_bound st').
    { unfold dl_bound in *. clear E I2 I3.
      destruct l; unfold_steps H; step_split H; inv_some; subst;
      repeat match goal with w : writer |- _ => destruct w; cbn in * end; subst; cbn;
      repeat match goal with E : dl_pc _ = _ |- _ => rewrite E in * end; cbn; auto; try lia. }
    destruct B as [B1 B2]. repeat split; auto. intros id Hin. apply I2 in Hin. lia.
  - unfold inv9a. rewrite E. rewrite D in I1.
    unfold dl_bound in *. rewrite B1, B2. rewrite D in I2. repeat split; auto.
    + intros id Hin. apply in_app_or in Hin. destruct Hin as [Hin|[Hin|[]]].
      * apply I2 in Hin. lia.
      * subst. lia.
    + apply NoDup_snoc; auto. intro Hin. apply I2 in Hin. lia.
Qed.

Lemma inv9a_reachable : forall p st, reachable p st -> inv9a st.
Proof.
  induction 1.
  - unfold inv9a, wr_ids, dl_bound; cbn. repeat split; auto. intros id []. constructor.
  - eapply inv9a_step; eauto.
Qed.

Definition pre_send (pc : wrpc) : bool := match pc with WR_Start | WR_Lock | WR_Send => true | _ => false end.

(* what one step does to the writers and to the request set *)
Lemma wrs_reqs_step : forall p st l st', step p st l = Some st' ->
  (wrs st' = wrs st /\ reqs st' = reqs st) \/
  (exists j id pc pc', nth_error (wrs st) j = Some {| wr_id := id; wr_pc := pc |} /\
     wrs st' = set_nth j {| wr_id := id; wr_pc := pc' |} (wrs st) /\ reqs st' = reqs st /\
     (pre_send pc' = true -> pre_send pc = true)) \/
  (exists j id, nth_error (wrs st) j = Some {| wr_id := id; wr_pc := WR_Send |} /\
     wrs st' = set_nth j {| wr_id := id; wr_pc := WR_Wait |} (wrs st) /\ reqs st' = id :: reqs st) \/
  (exists i, dl_pc st = DL_Handle i /\ wrs st' = wrs st ++ [{| wr_id := i; wr_pc := WR_Start |}] /\ reqs st' = reqs st).
Proof.
  intros p st l st' H.
  destruct l; unfold_steps H; step_split H; inv_some; subst;
  repeat match goal with w : writer |- _ => destruct w; cbn in * end; subst;
  cbn; unfold setwr; cbn; auto.
  all: try (right; left; do 4 eexists; split; [eassumption|]; split; [reflexivity|]; split; [reflexivity|];
            cbn; intro X; try discriminate X; reflexivity).
  all: try (right; right; left; do 2 eexists; split; [eassumption|]; split; reflexivity).
  all: try (right; right; right; eexists; split; [first [eassumption | reflexivity]|]; split; reflexivity).
Qed.

Lemma wr_ids_inj : forall st j j' w w',
  NoDup (wr_ids st) -> nth_error (wrs st) j = Some w -> nth_error (wrs st) j' = Some w' ->
  wr_id w = wr_id w' -> j = j'.
Proof.
  intros st j j' w w' N A B E. unfold wr_ids in N.
  apply (proj1 (NoDup_nth_error _) N j j').
  - rewrite map_length. eapply nth_error_some_lt; eauto.
  - rewrite (map_nth_error wr_id _ _ A), (map_nth_error wr_id _ _ B). congruence.
Qed.

Definition inv9b (st : state) : Prop :=
  NoDup (reqs st) /\
  (forall j w, nth_error (wrs st) j = Some w -> pre_send (wr_pc w) = true -> ~ In (wr_id w) (reqs st)).

Lemma inv9b_step : forall p st l st',
  inv7b st -> inv9a st -> inv9b st -> step p st l = Some st' -> inv9b st'.
Proof.
  intros p st l st' (_ & _ & B3 & _) (A1 & A2 & A3) (I1 & I2) H.
  destruct (wrs_reqs_step _ _ _ _ H) as [(E1 & E2)|[(j & id & pc & pc' & N & E1 & E2 & M)|[(j & id & N & E1 & E2)|(i & D & E1 & E2)]]];
  unfold inv9b; rewrite E1, E2.
  - split; auto.
  - split; auto. intros j' w' Hn P.
    rewrite (nth_error_set_nth _ _ _ j' _ _ N) in Hn. destruct (Nat.eqb_spec j j').
    + inv_some. subst. cbn in *. apply (I2 _ _ N). cbn. auto.
    + eapply I2; eauto.
  - assert (Nid: ~ In id (reqs st)) by (apply (I2 _ _ N); reflexivity).
    split. constructor; auto.
    intros j' w' Hn P. rewrite (nth_error_set_nth _ _ _ j' _ _ N) in Hn. destruct (Nat.eqb_spec j j').
    + inv_some. subst. cbn in P. discriminate.
    + intros [X|X].
      * apply n. eapply wr_ids_inj; eauto; cbn; auto.
      * eapply I2; eauto.
  - split; auto. intros j' w' Hn P. rewrite nth_error_snoc in Hn.
    destruct (j' <? length (wrs st)).
    + eapply I2; eauto.
    + destruct (j' =? length (wrs st)); inv_some; subst; try discriminate. cbn.
      intro X. apply memb_true_iff in X. apply B3 in X. destruct X as (j0 & w0 & X1 & X2).
      assert (In i (wr_ids st)). { unfold wr_ids. subst i. apply in_map. eapply nth_error_In; eauto. }
      apply A2 in H0. unfold dl_bound in H0. rewrite D in H0. lia.
Qed.

Lemma inv9b_reachable : forall p st, reachable p st -> inv9b st.
Proof.
  induction 1.
  - unfold inv9b; cbn. split. constructor. intros j w X. destruct j; discriminate X.
  - eapply inv9b_step; eauto.
    + apply (inv7_reachable _ _ H).
    + eapply inv9a_reachable; eauto.
Qed.

(* no file is requested twice; with success_outcome_proof: in a state in which Receive returned
   nil the request list is a permutation of need_ids p *)
Lemma reqs_nodup_proof : forall p st, reachable p st -> NoDup (reqs st).
Proof. intros p st R. apply (inv9b_reachable _ _ R). Qed.

Lemma need_ids_from_nodup : forall l i, NoDup (need_ids_from i l).
Proof.
  induction l; intro i; cbn [need_ids_from].
  - constructor.
  - destruct (e_kind a); try apply IHl. constructor; [|apply IHl].
    intro X. apply need_ids_from_spec in X. destruct X as (k & e & _ & B & _). lia.
Qed.

Lemma success_requests_permutation_proof : forall p st, reachable p st -> recv_ret st = Some true ->
  Permutation (reqs st) (need_ids p).
Proof.
  intros p st R Ok. apply NoDup_Permutation.
  - eapply reqs_nodup_proof; eauto.
  - apply need_ids_from_nodup.
  - intro id. destruct (success_outcome_proof _ _ R Ok id) as [_ B].
    rewrite <- B. symmetry. apply memb_true_iff.
Qed.
