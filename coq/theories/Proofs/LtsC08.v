(* C08 on the goroutine LTS: what a run that ends in success has requested and completed
   is a function of the parameters alone (the ids whose content the diff needs), whatever
   the interleaving. *)
From Coq Require Import List Arith Bool PeanoNat Lia.
From FS Require Import Model.Lts Model.LtsExplore Proofs.LtsInv Proofs.LtsSafe.
Import ListNotations.

Lemma memb_true_iff : forall x l, memb x l = true <-> In x l.
Proof.
  intros. unfold memb. rewrite existsb_exists. split.
  - intros (y & A & B). apply Nat.eqb_eq in B. subst. auto.
  - intro. exists x. split; auto. apply Nat.eqb_refl.
Qed.
Lemma memb_remb : forall x y l, memb x (remb y l) = true -> memb x l = true.
Proof.
  intros x y l H. apply memb_true_iff in H. apply memb_true_iff.
  unfold remb in H. apply filter_In in H. tauto.
Qed.
Lemma memb_cons_true : forall x y l, memb x (y :: l) = true -> x = y \/ memb x l = true.
Proof.
  intros x y l H. rewrite memb_cons in H. apply orb_prop in H. destruct H; auto.
  left. apply Nat.eqb_eq. auto.
Qed.

(* ---------- writers exist only for entries whose content is needed ---------- *)
Definition inv7a (p : params) (st : state) : Prop :=
  forall j w, nth_error (wrs st) j = Some w -> kind_of p (wr_id w) = ENeed.

Lemma inv7a_step : forall p st l st', inv7a p st -> step p st l = Some st' -> inv7a p st'.
Proof.
  intros p st l st' I H. unfold inv7a in *.
  destruct l; unfold_steps H; step_split H; inv_some; subst;
  repeat match goal with w : writer |- _ => destruct w; cbn in * end; subst;
  intros j' w' Hn; cbn in Hn; unfold setwr in Hn; cbn in Hn.
  all: try (apply I in Hn; exact Hn).
  all: try (match type of Hn with context [set_nth ?j _ _] =>
              match goal with E : nth_error _ j = Some _ |- _ =>
                rewrite (nth_error_set_nth _ _ _ j' _ _ E) in Hn; pose proof (I _ _ E) as IE end end;
            destruct (Nat.eqb_spec j j');
            [ inv_some; subst; cbn in *; auto | apply I in Hn; auto ]; fail).
  rewrite nth_error_snoc in Hn. destruct (j' <? length (wrs st)).
  - apply I in Hn. auto.
  - destruct (j' =? length (wrs st)); inv_some; subst; try discriminate. cbn. auto.
Qed.

(* ---------- every id in pipes / completed / reqs / being written belongs to a writer ---------- *)
Definition inv7b (st : state) : Prop :=
  (forall id, memb id (pipes st) = true -> has_writer (wrs st) id) /\
  (forall id, memb id (completed st) = true -> has_writer (wrs st) id) /\
  (forall id, memb id (reqs st) = true -> has_writer (wrs st) id) /\
  (match rl_pc st with RL_Write id | RL_CloseP id => has_writer (wrs st) id | _ => True end).

Lemma has_writer_self : forall l j w, nth_error l j = Some w -> has_writer l (wr_id w).
Proof. intros. exists j, w. auto. Qed.

Lemma has_writer_step : forall p st l st' id,
  step p st l = Some st' -> has_writer (wrs st) id -> has_writer (wrs st') id.
Proof.
  intros p st l st' id H W.
  destruct l; unfold_steps H; step_split H; inv_some; subst;
  repeat match goal with w : writer |- _ => destruct w; cbn in * end; subst;
  cbn; unfold setwr; cbn; auto;
  try (match goal with E : nth_error (wrs _) _ = Some _ |- _ =>
         eapply has_writer_set_nth; [exact E | reflexivity | exact W] end).
  apply has_writer_snoc_old; auto.
Qed.

Ltac fin7b M :=
  repeat match goal with |- _ /\ _ => split end;
  intros;
  try (match goal with |- match rl_pc ?s with _ => _ end => destruct (rl_pc s) end);
  try exact Logic.I;
  try (apply M);
  repeat match goal with Hm : memb _ (remb _ _) = true |- _ => apply memb_remb in Hm end;
  try match goal with Hm : memb _ (_ :: _) = true |- _ =>
        apply memb_cons_true in Hm; destruct Hm as [Hm|Hm]; [subst|] end;
  auto;
  try (match goal with E : nth_error (wrs _) _ = Some _ |- _ => apply (has_writer_self _ _ _ E) end).

Lemma inv7b_step : forall p st l st', inv7b st -> step p st l = Some st' -> inv7b st'.
Proof.
  intros p st l st' I H.
  assert (M: forall id, has_writer (wrs st) id -> has_writer (wrs st') id)
    by (intros; eapply has_writer_step; eauto).
  unfold inv7b in I. destruct I as (I1 & I2 & I3 & I4).
  destruct l; unfold_steps H; step_split H; inv_some; subst;
  repeat match goal with w : writer |- _ => destruct w; cbn in * end; subst;
  unfold inv7b; cbn in M |- *; unfold setwr in *; cbn in M |- *;
  repeat match goal with E : rl_pc _ = _ |- _ => rewrite E in * end;
  fin7b M.
Qed.

Lemma inv7b_init : forall p, inv7b (init p).
Proof. intro p. unfold inv7b; cbn. repeat split; intros; discriminate. Qed.

(* ---------- a writer past SendMsg(REQ) has its id in the request set ---------- *)
Definition wr_req_ok (st : state) (w : writer) : Prop :=
  match wr_pc w with
  | WR_Wait | WR_Notify => memb (wr_id w) (reqs st) = true
  | WR_Done => eg_err st = true \/ memb (wr_id w) (reqs st) = true
  | _ => True
  end.
Definition inv7c (st : state) : Prop :=
  forall j w, nth_error (wrs st) j = Some w -> wr_req_ok st w.

Lemma inv7c_step : forall p st l st', inv7c st -> step p st l = Some st' -> inv7c st'.
Proof.
  intros p st l st' I H. unfold inv7c in *.
  destruct l; unfold_steps H; step_split H; inv_some; subst;
  repeat match goal with w : writer |- _ => destruct w; cbn in * end; subst;
  intros j' w' Hn; cbn in Hn; unfold setwr in Hn; cbn in Hn.
  all: try (apply I in Hn; unfold wr_req_ok in *; cbn; destruct (wr_pc w'); cbn in *;
            rewrite ?memb_cons; intuition (auto with bool); fail).
  all: try (match type of Hn with context [set_nth ?j _ _] =>
              match goal with E : nth_error _ j = Some _ |- _ =>
                rewrite (nth_error_set_nth _ _ _ j' _ _ E) in Hn; pose proof (I _ _ E) as IE end end;
            destruct (Nat.eqb_spec j j');
            [ inv_some; subst; unfold wr_req_ok in *; cbn in *; rewrite ?memb_cons, ?Nat.eqb_refl; intuition (auto with bool)
            | apply I in Hn; unfold wr_req_ok in *; cbn; destruct (wr_pc w'); cbn in *; rewrite ?memb_cons; intuition (auto with bool)]; fail).
  rewrite nth_error_snoc in Hn. destruct (j' <? length (wrs st)).
  - apply I in Hn. unfold wr_req_ok in *; cbn. destruct (wr_pc w'); auto.
  - destruct (j' =? length (wrs st)); inv_some; subst; try discriminate. unfold wr_req_ok; cbn. auto.
Qed.

Record inv7 (p : params) (st : state) : Prop := { i_7a : inv7a p st; i_7b : inv7b st; i_7c : inv7c st }.

Lemma inv7_reachable : forall p st, reachable p st -> inv7 p st.
Proof.
  induction 1.
  - constructor.
    + intros j w H. destruct j; discriminate H.
    + apply inv7b_init.
    + intros j w H. destruct j; discriminate H.
  - destruct IHreachable. constructor.
    + eapply inv7a_step; eauto.
    + eapply inv7b_step; eauto.
    + eapply inv7c_step; eauto.
Qed.

(* ---------- the sequential function ---------- *)
Lemma need_ids_from_spec : forall l i id,
  In id (need_ids_from i l) <->
  exists k e, nth_error l k = Some e /\ id = i + k /\ e_kind e = ENeed.
Proof.
  induction l; intros i id; cbn [need_ids_from].
  - split; [intros [] | intros (k & e & A & _)]. destruct k; discriminate A.
  - assert (R: In id (need_ids_from (S i) l) <->
               exists k e, nth_error (a :: l) (S k) = Some e /\ id = i + S k /\ e_kind e = ENeed).
    { rewrite IHl. split; intros (k & e & A & B & C); exists k, e; repeat split; auto; lia. }
    destruct (e_kind a) eqn:K.
    + rewrite R. split.
      * intros (k & e & A & B & C). exists (S k), e. auto.
      * intros (k & e & A & B & C). destruct k.
        -- cbn in A. injection A as A. subst. congruence.
        -- exists k, e. auto.
    + rewrite R. split.
      * intros (k & e & A & B & C). exists (S k), e. auto.
      * intros (k & e & A & B & C). destruct k.
        -- cbn in A. injection A as A. subst. congruence.
        -- exists k, e. auto.
    + cbn [In]. rewrite R. split.
      * intros [E|(k & e & A & B & C)].
        -- exists 0, a. repeat split; auto. lia.
        -- exists (S k), e. auto.
      * intros (k & e & A & B & C). destruct k.
        -- left. lia.
        -- right. exists k, e. auto.
Qed.

Lemma need_ids_spec : forall p id, In id (need_ids p) <-> kind_of p id = ENeed.
Proof.
  intros p id. unfold need_ids. rewrite need_ids_from_spec. unfold kind_of, entry_at. split.
  - intros (k & e & A & B & C). cbn in B. subst. rewrite A. exact C.
  - intro H. destruct (nth_error (p_entries p) id) as [e|] eqn:E; try discriminate.
    exists id, e. auto.
Qed.

Lemma kind_need_lt : forall p id, kind_of p id = ENeed -> id < nentries p.
Proof.
  intros p id H. unfold kind_of, entry_at in H. unfold nentries.
  destruct (nth_error (p_entries p) id) eqn:E; try discriminate.
  eapply nth_error_some_lt; eauto.
Qed.

(* In every reachable state in which Receive has returned nil -- whatever the interleaving,
   the capacities, the number of workers, and whatever faults happened on the way -- the set
   of completed files and the set of requests are exactly the ids the diff needs. *)
Lemma success_outcome_proof : forall p st, reachable p st -> recv_ret st = Some true ->
  forall id, (memb id (completed st) = true <-> In id (need_ids p)) /\
             (memb id (reqs st) = true <-> In id (need_ids p)).
Proof.
  intros p st R Ok id.
  destruct (no_false_success_proof _ _ R) as [NF _]. specialize (NF Ok).
  destruct NF as (_ & Hc & (Dl & De & Di) & Frs).
  destruct (inv7_reachable _ _ R) as [Ia (_ & Ib2 & Ib3 & _) Ic].
  destruct (inv_reachable _ _ R) as [_ _ _ J3 _ J5 _].
  destruct J3 as (_ & _ & _ & B4 & _). destruct (B4 Frs) as (_ & _ & Ee & Wd).
  rewrite need_ids_spec. repeat split.
  - intro M. destruct (Ib2 _ M) as (j & w & A & B). subst id. eapply Ia; eauto.
  - intro K. apply Hc; auto. apply kind_need_lt; auto.
  - intro M. destruct (Ib3 _ M) as (j & w & A & B). subst id. eapply Ia; eauto.
  - intro K. pose proof (kind_need_lt _ _ K) as Lt. rewrite <- Di in Lt.
    destruct (J5 De id Lt K) as [X|(j & w & A & B)]; [congruence|].
    pose proof (Ic _ _ A) as Q. pose proof (forallb_nth _ _ _ _ _ Wd A) as Dn.
    unfold wr_req_ok in Q. unfold wr_done in Dn. destruct (wr_pc w); try discriminate.
    subst id. destruct Q; [congruence | auto].
Qed.

Lemma outcome_deterministic_partial_proof : forall p st1 st2,
  reachable p st1 -> reachable p st2 -> recv_ret st1 = Some true -> recv_ret st2 = Some true ->
  (forall id, memb id (completed st1) = memb id (completed st2)) /\
  (forall id, memb id (reqs st1) = memb id (reqs st2)).
Proof.
  intros p st1 st2 R1 R2 O1 O2. split; intro id;
  destruct (success_outcome_proof _ _ R1 O1 id) as [A1 B1];
  destruct (success_outcome_proof _ _ R2 O2 id) as [A2 B2].
  - destruct (memb id (completed st1)) eqn:X, (memb id (completed st2)) eqn:Y; auto.
    + assert (false = true) by (apply A2; apply A1; auto). discriminate.
    + assert (false = true) by (apply A1; apply A2; auto). discriminate.
  - destruct (memb id (reqs st1)) eqn:X, (memb id (reqs st2)) eqn:Y; auto.
    + assert (false = true) by (apply B2; apply B1; auto). discriminate.
    + assert (false = true) by (apply B1; apply B2; auto). discriminate.
Qed.
