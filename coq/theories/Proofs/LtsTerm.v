(* Termination after tear-down (DESIGN A.7): in every torn-down state each step
   strictly decreases a measure; every reachable torn-down state that is not final
   has an enabled program step.  Hence every execution from a torn-down state is
   finite and ends with both calls returned and every goroutine ended. *)
From Coq Require Import List Arith Bool PeanoNat Lia.
From FS Require Import Model.Lts Proofs.LtsInv Proofs.LtsSafe.
Import ListNotations.

(* ---------- the measure: a weighted sum (degenerate lexicographic order) ---------- *)
Definition sw_m (pc : swpc) : nat :=
  match pc with
  | SW_Next => 5 | SW_Lock KErr => 2 | SW_Send KErr => 1
  | SW_Lock _ => 4 | SW_Send _ => 3 | SW_Done => 0 end.
Definition wk_m (w : wkpc) : nat :=
  match w with
  | WK_Idle => 7 | WK_Ctx _ => 6 | WK_Open _ => 5 | WK_Read _ _ => 4
  | WK_Lock _ _ | WK_LockFin _ => 3 | WK_Send _ _ | WK_SendFin _ => 2 | WK_Done => 0 end.
Definition rq_m (pc : rqpc) : nat :=
  match pc with
  | RQ_Push _ => 6 | RQ_Top => 5 | RQ_LockFin => 5 | RQ_Recv => 4 | RQ_SendFin => 4
  | RQ_Close _ => 2 | RQ_Ret _ => 1 | RQ_Done => 0 end.
Definition w_c2 : nat := 12.       (* an entry queued in c2: two diff-loop steps + one writer *)
Definition w_walk : nat := 14.     (* an entry queued in walkChan: two fill steps + a c2 entry *)
Definition rl_m (pc : rlpc) : nat :=
  match pc with
  | RL_Upd => 18 | RL_Push => 17 | RL_UpdEnd | RL_Write _ | RL_CloseP _ => 3
  | RL_Recv | RL_Drain => 2 | RL_Done => 0 end.
Definition fl_m (pc : flpc) : nat :=
  match pc with FL_Push => 17 | FL_Sel => 4 | FL_Close _ => 2 | FL_Ret _ => 1 | FL_Done => 0 end.
Definition dl_m (pc : dlpc) : nat :=
  match pc with DL_Handle _ => 11 | DL_Next => 1 | DL_Done => 0 end.
Definition do_m (pc : dopc) : nat :=
  match pc with
  | DO_WaitDiff => 4 | DO_WaitW => 3 | DO_LockFin | DO_LockErr => 2
  | DO_SendFin | DO_SendErr => 1 | DO_Done => 0 end.
Definition wr_m (w : writer) : nat :=
  match wr_pc w with
  | WR_Start => 5 | WR_Lock => 4 | WR_Send => 3 | WR_Wait => 2 | WR_Notify => 1 | WR_Done => 0 end.
Definition sumf {A} (f : A -> nat) (l : list A) : nat := fold_right (fun x a => f x + a) 0 l.

Definition mu (st : state) : nat :=
  sw_m (sw_pc st) + sumf wk_m (wks st) + rq_m (rq_pc st)
  + b2n (is_none (send_ret st)) + b2n (negb (s_cancel st))
  + rl_m (rl_pc st) + w_walk * walk_n st + fl_m (fl_pc st) + w_c2 * c2_n st + dl_m (dl_pc st)
  + do_m (do_pc st) + sumf wr_m (wrs st)
  + b2n (is_none (recv_ret st)) + b2n (negb (r_cancel st)) + b2n (negb (sr_closed st)).

Lemma sumf_set_nth : forall A (f : A -> nat) l j w x,
  nth_error l j = Some w -> sumf f (set_nth j x l) + f w = sumf f l + f x.
Proof.
  induction l; destruct j; intros w x H.
  - unfold nth_error in H; discriminate.
  - unfold nth_error in H; discriminate.
  - unfold nth_error in H. injection H as H. subst. change (set_nth 0 x (w :: l)) with (x :: l). unfold sumf; cbn. lia.
  - change (nth_error l j = Some w) in H.
    change (set_nth (S j) x (a :: l)) with (a :: set_nth j x l). unfold sumf in *; cbn.
    specialize (IHl j w x H). lia.
Qed.
Lemma sumf_snoc : forall A (f : A -> nat) l x, sumf f (l ++ [x]) = sumf f l + f x.
Proof. unfold sumf. induction l; intros; cbn; auto. rewrite IHl. lia. Qed.

Arguments sumf : simpl never.
Arguments Nat.mul : simpl never.

Lemma mu_decreases_proof : forall p st l st',
  torn_down st = true -> step p st l = Some st' -> mu st' < mu st.
Proof.
  intros p st l st' T H. unfold torn_down in T. apply andb_prop in T. destruct T as [Ts Tr].
  destruct l; unfold_steps H; rewrite ?Ts, ?Tr in H; cbn in H; step_split H; inv_some; subst;
  repeat match goal with w : writer |- _ => destruct w; cbn in * end; subst;
  unfold mu, setw, setwr, s_fail, r_fail, d_fail, eg_fail, rl_fail, dl_fail, wr_fail; cbn;
  repeat match goal with E : ?f ?s = ?v |- context [?f ?s] => rewrite E end; cbn;
  try match goal with E : nth_error ?l ?j = Some ?w |- context [sumf ?f (set_nth ?j ?x ?l)] =>
        let X := fresh "X" in pose proof (sumf_set_nth _ f l j w x E) as X; cbn [wk_m wr_m wr_pc] in X end;
  rewrite ?sumf_snoc; cbn; unfold w_c2, w_walk;
  try lia; try (destruct k; lia); try (destruct ok; lia).
Qed.

(* ---------- who can be blocked on whom: invariants used by the progress proof ---------- *)
Definition inv8 (p : params) (st : state) : Prop :=
  (match rq_pc st with RQ_Ret _ | RQ_Done => pipe_closed st = true | _ => pipe_closed st = false end) /\
  (forall j, nth_error (wks st) j = Some WK_Done -> pipe_closed st = true \/ s_cancel st = true) /\
  length (wks st) = p_W p /\
  (match fl_pc st with
   | FL_Close false | FL_Ret false => close_ch st = true
   | FL_Done => close_ch st = true \/ (walk_closed st = true /\ walk_n st = 0)
   | _ => True end) /\
  (r_err st = true -> r_cancel st = true) /\
  (dl_pc st = DL_Done -> d_canc st = true \/ c2_closed st = true).

Lemma inv8_step : forall p st l st',
  inv2 p st -> inv3 st -> inv8 p st -> step p st l = Some st' -> inv8 p st'.
Proof.
  intros p st l st' J2 J3 I H. unfold inv8 in I.
  destruct J2 as (_ & _ & _ & _ & _ & K6 & K7 & _ & _).
  destruct J3 as (_ & _ & _ & _ & F1 & _ & _ & _).
  destruct I as (I1 & I2 & I3 & I4 & I5 & I6).
  destruct l; unfold_steps H; step_split H; inv_some; subst; unfold inv8;
  repeat match goal with w : writer |- _ => destruct w; cbn in * end; subst; cbn;
  unfold d_canc in *; cbn;
  repeat match goal with E : _ = _ |- _ => rewrite E in * end; cbn in *;
  rewrite ?length_set_nth, ?orb_true_r in *.
  all: try (intuition (try discriminate; try congruence; try lia; auto); fail).
  all: try (split; [assumption|]; split; [|intuition (try discriminate; try congruence; auto)]; intros j0 Hj;
       match goal with E : nth_error (wks _) ?j = Some _ |- _ =>
         rewrite (nth_error_set_nth _ _ _ j0 _ _ E) in Hj;
         destruct (j =? j0); [inv_some; try discriminate; auto | apply I2 in Hj; intuition auto] end; fail).
  all: try (destruct (fl_pc st) as [| |[]|[]|]; intuition (try discriminate; try congruence; try lia; auto); fail).
Qed.

Lemma inv8_init : forall p, inv8 p (init p).
Proof.
  intro p. unfold inv8, d_canc; cbn. repeat split; auto; try discriminate.
  - intros j H. apply nth_error_repeat in H. discriminate.
  - apply repeat_length.
Qed.

Lemma inv8_reachable : forall p st, reachable p st -> inv8 p st.
Proof.
  induction 1. apply inv8_init.
  pose proof (inv_reachable _ _ H) as J. destruct J. eapply inv8_step; eauto.
Qed.

(* ---------- progress ---------- *)
Definition can (p : params) (st : state) : Prop :=
  exists l, is_env l = false /\ step p st l <> None.

Ltac unfold_goal_steps :=
  unfold step, step_walker, step_worker, step_req, step_req_ctx, step_send_ret, step_recvloop,
    step_recvloop_closed, step_fill, step_fill_ctx, step_diff, step_diff_ctx, step_diffouter,
    step_writer, step_writer_ctx, step_recv_ret, send_s, send_r, lock_s, lock_r,
    sender_quiet, sw_is_done, rq_is_done, fl_is_done, dl_is_done, do_is_done, rl_is_done.
Ltac rw_goal := repeat match goal with E : ?f ?s = ?v |- context [?f ?s] => rewrite E end.
Ltac can_by l :=
  exists l; split; [reflexivity|]; unfold_goal_steps; rw_goal; cbn; rw_goal; cbn;
  repeat match goal with |- context [match ?x with _ => _ end] => destruct x eqn:?; rw_goal; cbn end;
  try discriminate.

Lemma find_or_all : forall A (f : A -> bool) l,
  (exists j w, nth_error l j = Some w /\ f w = true) \/ forallb (fun w => negb (f w)) l = true.
Proof.
  induction l.
  - right. reflexivity.
  - destruct (f a) eqn:E.
    + left. exists 0, a. split; auto.
    + destruct IHl as [(j & w & A1 & A2)|B].
      * left. exists (S j), w. split; auto.
      * right. unfold forallb. rewrite E. cbn. exact B.
Qed.

Lemma idle_pos : forall l j, nth_error l j = Some WK_Idle -> 1 <= length (filter wk_idle l).
Proof.
  induction l; destruct j; intros H.
  - unfold nth_error in H; discriminate.
  - unfold nth_error in H; discriminate.
  - unfold nth_error in H. injection H as H. subst. cbn. lia.
  - change (nth_error l j = Some WK_Idle) in H. apply IHl in H. cbn. destruct (wk_idle a); cbn; lia.
Qed.

Lemma sender_progress : forall p st,
  p_W p >= 1 -> p_old_queue p = false ->
  mutex_inv st -> inv8 p st -> s_broken st = true ->
  (sender_quiet st && negb (is_none (send_ret st))) = false ->
  can p st.
Proof.
  intros p st HW HQ [Ms _] (T1 & T2 & T3 & _) B NF.
  destruct (s_mu st) as [g|] eqn:M.
  { (* the mutex owner is inside SendMsg: it completes with an error *)
    pose proof (proj2 (Ms g) eq_refl) as M'. clear M. rename M' into M. destruct g; cbn in M; try discriminate.
    - destruct (sw_pc st) eqn:?; try discriminate. can_by LSWalk.
    - destruct (nth_error (wks st) j) as [w|] eqn:?; try discriminate.
      destruct w; try discriminate; can_by (LWorker j).
    - destruct (rq_pc st) eqn:?; try discriminate. can_by LReq. }
  destruct (sw_pc st) eqn:SW; try (can_by LSWalk; fail).
  (* a worker that is neither done nor idle can move *)
  destruct (find_or_all _ (fun w => negb (wk_done w) && negb (wk_idle w)) (wks st)) as [(j & w & A1 & A2)|AllDI].
  { destruct w; try discriminate; can_by (LWorker j). }
  destruct (rq_pc st) eqn:RQ; try (can_by LReq; fail).
  - (* RQ_Push: queue() *)
    destruct (find_or_all _ wk_idle (wks st)) as [(j & w & A1 & A2)|AllD].
    + destruct w; try discriminate.
      destruct (pipe st) eqn:PI.
      * exists LReq. split; [reflexivity|]. unfold_goal_steps. rw_goal.
        unfold room_pipe, idle_workers. rewrite PI. cbn.
        pose proof (idle_pos _ _ A1).
        destruct (0 <? p_P p + length (filter wk_idle (wks st))) eqn:X; try discriminate.
        apply Nat.ltb_ge in X. lia.
      * can_by (LWorker j).
    + (* every worker is done: one of them returned an error, so ctx is cancelled *)
      destruct (nth_error (wks st) 0) as [w|] eqn:W0.
      2:{ apply nth_error_None in W0. lia. }
      assert (w = WK_Done).
      { pose proof (forallb_nth _ _ _ _ _ AllDI W0) as X1. pose proof (forallb_nth _ _ _ _ _ AllD W0) as X2.
        destruct w; try discriminate; reflexivity. }
      subst w. destruct (T2 _ W0) as [X|X]; [congruence|].
      exists LReqCtx. split; [reflexivity|]. unfold_goal_steps. rw_goal. cbn. discriminate.
  - (* RQ_Done: the pipeline is closed *)
    destruct (find_or_all _ (fun w => negb (wk_done w)) (wks st)) as [(j & w & A1 & A2)|AllD].
    + pose proof (forallb_nth _ _ _ _ _ AllDI A1) as X. cbn in X. rewrite A2 in X. cbn in X.
      destruct w; try discriminate. can_by (LWorker j).
    + exists LSendRet. split; [reflexivity|].
      assert (Q: sender_quiet st = true).
      { unfold sender_quiet, sw_is_done, rq_is_done. rewrite SW, RQ. cbn.
        rewrite forallb_forall in *. intros x Hx. apply AllD in Hx. destruct (wk_done x); auto. }
      rewrite Q in NF. cbn in NF. unfold step, step_send_ret. rewrite Q. cbn.
      destruct (send_ret st); cbn in *; discriminate.
Qed.

Definition receiver_quiet (st : state) : bool :=
  fl_is_done st && dl_is_done st && do_is_done st && rl_is_done st && forallb wr_done (wrs st).

Lemma writer_can : forall p st j w,
  nth_error (wrs st) j = Some w -> wr_done w = false -> r_mu st = None -> r_broken st = true ->
  r_cancel st = true -> can p st.
Proof.
  intros p st j w E ND M B RC. destruct w as [id pc]. unfold wr_done in ND. cbn in ND.
  destruct pc; try discriminate.
  - can_by (LWriter j).
  - can_by (LWriter j).
  - can_by (LWriter j).
  - exists (LWriterCtx j). split; [reflexivity|]. unfold_goal_steps. rewrite E. cbn.
    unfold eg_canc. rewrite RC. cbn. discriminate.
  - can_by (LWriter j).
Qed.

Lemma receiver_progress : forall p st,
  mutex_inv st -> inv1 st -> inv2 p st -> inv3 st -> inv8 p st -> r_broken st = true ->
  (receiver_quiet st && negb (is_none (recv_ret st))) = false ->
  can p st.
Proof.
  intros p st [_ Mr] J1 J2 J3 (_ & _ & _ & T4 & T5 & T6) B NF.
  destruct J1 as (_ & _ & _ & A4 & A5 & _ & _ & A8 & A9 & _ & _).
  destruct J2 as (_ & _ & _ & _ & _ & K6 & K7 & _ & _).
  destruct J3 as (B1 & _ & _ & B4 & _ & B6 & _ & _).
  destruct (r_mu st) as [g|] eqn:M.
  { pose proof (proj2 (Mr g) eq_refl) as M'. clear M. destruct g; cbn in M'; try discriminate.
    - destruct (do_pc st) eqn:?; try discriminate; can_by LDiffOuter.
    - destruct (nth_error (wrs st) j) as [w|] eqn:?; try discriminate.
      destruct w as [id pc]. cbn in M'. destruct pc; try discriminate. can_by (LWriter j). }
  destruct (rl_pc st) eqn:RL; try (can_by LRecvLoop; fail).
  - (* RL_Push: blocked on walkChan unless fill, the diff loop or closeCh help *)
    destruct (fl_pc st) eqn:FL; try (can_by LFill; fail).
    + destruct (walk_n st) eqn:WN.
      * exists LRecvLoop. split; [reflexivity|]. unfold_goal_steps. rw_goal.
        unfold room_walk, fl_in_sel. rw_goal. cbn.
        destruct (0 <? p_C p + 1) eqn:X; try discriminate. apply Nat.ltb_ge in X. lia.
      * can_by LFill.
    + destruct (dl_pc st) eqn:DL.
      * destruct (c2_n st) eqn:CN.
        -- exists LFill. split; [reflexivity|]. unfold_goal_steps. rw_goal.
           unfold room_c2, dl_in_next. rw_goal. cbn.
           destruct (0 <? p_C2 p + 1) eqn:X; try discriminate. apply Nat.ltb_ge in X. lia.
        -- can_by LDiff.
      * can_by LDiff.
      * destruct (T6 eq_refl) as [X|X].
        -- exists LFillCtx. split; [reflexivity|]. unfold_goal_steps. rw_goal. try rewrite X. discriminate.
        -- apply B6 in X. contradiction.
    + destruct T4 as [X|[X _]].
      * exists LRecvLoopClosed. split; [reflexivity|]. unfold_goal_steps. rw_goal. discriminate.
      * apply K7 in X. congruence.
  - (* RL_Done *)
    destruct (r_cancel st) eqn:RC.
    2:{ (* returned nil: FIN handshake completed, so everything else is done *)
      destruct (r_err st) eqn:RE; [specialize (T5 eq_refl); congruence|].
      destruct A9 as [X|X]; [congruence|].
      destruct (B4 (A5 (A4 (A8 X)))) as (D1 & _ & _ & W1).
      rewrite D1 in B1. destruct B1 as [F1 L1].
      exists LRecvRet. split; [reflexivity|].
      assert (Q: receiver_quiet st = true).
      { unfold receiver_quiet, fl_is_done, dl_is_done, do_is_done, rl_is_done. rw_goal. cbn. reflexivity. }
      rewrite Q in NF. cbn in NF. unfold step, step_recv_ret, do_is_done, rl_is_done. rw_goal. cbn.
      destruct (recv_ret st); cbn in *; discriminate. }
    assert (DC: d_canc st = true) by (unfold d_canc; rewrite RC; reflexivity).
    destruct (fl_pc st) eqn:FL; try (can_by LFill; fail);
      try (exists LFillCtx; split; [reflexivity|]; unfold_goal_steps; rw_goal; discriminate).
    destruct (dl_pc st) eqn:DL; try (can_by LDiff; fail);
      try (exists LDiffCtx; split; [reflexivity|]; unfold_goal_steps; rw_goal; discriminate).
    destruct (find_or_all _ (fun w => negb (wr_done w)) (wrs st)) as [(j & w & A1 & A2)|AllD].
    { eapply writer_can; eauto. destruct (wr_done w); auto; discriminate. }
    assert (AD: forallb wr_done (wrs st) = true).
    { rewrite forallb_forall in *. intros x Hx. apply AllD in Hx. destruct (wr_done x); auto. }
    destruct (do_pc st) eqn:DO; try (can_by LDiffOuter; fail).
    exists LRecvRet. split; [reflexivity|].
    assert (Q: receiver_quiet st = true).
    { unfold receiver_quiet, fl_is_done, dl_is_done, do_is_done, rl_is_done. rw_goal. cbn. reflexivity. }
    rewrite Q in NF. cbn in NF. unfold step, step_recv_ret, do_is_done, rl_is_done. rw_goal. cbn.
    destruct (recv_ret st); cbn in *; discriminate.
Qed.

Lemma torn_down_step : forall p st l st',
  torn_down st = true -> step p st l = Some st' -> torn_down st' = true.
Proof.
  intros p st l st' T H. unfold torn_down in *. apply andb_prop in T. destruct T as [Ts Tr].
  destruct l; unfold_steps H; rewrite ?Ts, ?Tr in H; cbn in H; step_split H; inv_some; subst;
  repeat match goal with w : writer |- _ => destruct w; cbn in * end; subst; cbn; rewrite ?Ts, ?Tr; reflexivity.
Qed.

Lemma progress_proof : forall p st,
  p_W p >= 1 -> p_old_queue p = false -> reachable p st -> torn_down st = true ->
  final st = false -> can p st.
Proof.
  intros p st HW HQ R T NF.
  pose proof (inv_reachable _ _ R) as J. pose proof (inv8_reachable _ _ R) as J8. destruct J.
  unfold torn_down in T. apply andb_prop in T. destruct T as [Ts Tr].
  destruct (sender_quiet st && negb (is_none (send_ret st))) eqn:S.
  - apply receiver_progress; auto.
    unfold final, all_done in NF. unfold receiver_quiet.
    apply andb_prop in S. destruct S as [S1 S2]. rewrite S1, S2 in NF. cbn in NF.
    destruct (fl_is_done st), (dl_is_done st), (do_is_done st), (rl_is_done st),
      (forallb wr_done (wrs st)), (is_none (recv_ret st)); cbn in *; auto; discriminate.
  - apply sender_progress; auto.
Qed.

Lemma run_bounded_proof : forall p ls st st',
  torn_down st = true -> run p st ls = Some st' -> length ls + mu st' <= mu st /\ torn_down st' = true.
Proof.
  induction ls; intros st st' T H; cbn in H.
  - injection H as H. subst. cbn. split; auto.
  - destruct (step p st a) as [st1|] eqn:E; try discriminate.
    pose proof (mu_decreases_proof _ _ _ _ T E). pose proof (torn_down_step _ _ _ _ T E) as T1.
    destruct (IHls _ _ T1 H). split; auto. cbn. lia.
Qed.
