(* Termination after tear-down (DESIGN A.7): in every torn-down state each step
   strictly decreases a measure; every reachable torn-down state that is not final
   has an enabled program step.  Hence every execution from a torn-down state is
   finite and ends with both calls returned and every goroutine ended. *)
From Coq Require Import List Arith Bool PeanoNat Lia.
From FS Require Import Model.Lts Proofs.LtsInv Proofs.LtsSafe.
Import ListNotations.

(* ---------- the measure: a weighted sum (degenerate lexicographic order) ---------- *)
Definition sw_m (pc : swpc) : nat :=
  match pc with
  | SW_Next => 5 | SW_Lock KErr => 2 | SW_Send KErr => 1
  | SW_Lock _ => 4 | SW_Send _ => 3 | SW_Done => 0 end.
Definition wk_m (w : wkpc) : nat :=
  match w with
  | WK_Idle => 7 | WK_Ctx _ => 6 | WK_Open _ => 5 | WK_Read _ _ => 4
  | WK_Lock _ _ | WK_LockFin _ => 3 | WK_Send _ _ | WK_SendFin _ => 2 | WK_Done => 0 end.
Definition rq_m (pc : rqpc) : nat :=
  match pc with
  | RQ_Push _ => 6 | RQ_Top => 5 | RQ_LockFin => 5 | RQ_Recv => 4 | RQ_SendFin => 4
  | RQ_Close _ => 2 | RQ_Ret _ => 1 | RQ_Done => 0 end.
Definition w_c2 : nat := 12.       (* an entry queued in c2: two diff-loop steps + one writer *)
Definition w_walk : nat := 14.     (* an entry queued in walkChan: two fill steps + a c2 entry *)
Definition rl_m (pc : rlpc) : nat :=
  match pc with
  | RL_Upd => 18 | RL_Push => 17 | RL_UpdEnd | RL_Write _ | RL_CloseP _ => 3
  | RL_Recv | RL_Drain => 2 | RL_Done => 0 end.
Definition fl_m (pc : flpc) : nat :=
  match pc with FL_Push => 17 | FL_Sel => 4 | FL_Close _ => 2 | FL_Ret _ => 1 | FL_Done => 0 end.
Definition dl_m (pc : dlpc) : nat :=
  match pc with DL_Handle _ => 11 | DL_Next => 1 | DL_Done => 0 end.
Definition do_m (pc : dopc) : nat :=
  match pc with
  | DO_WaitDiff => 4 | DO_WaitW => 3 | DO_LockFin | DO_LockErr => 2
  | DO_SendFin | DO_SendErr => 1 | DO_Done => 0 end.
Definition wr_m (w : writer) : nat :=
  match wr_pc w with
  | WR_Start => 5 | WR_Lock => 4 | WR_Send => 3 | WR_Wait => 2 | WR_Notify => 1 | WR_Done => 0 end.
Definition sumf {A} (f : A -> nat) (l : list A) : nat := fold_right (fun x a => f x + a) 0 l.

Definition mu (st : state) : nat :=
  sw_m (sw_pc st) + sumf wk_m (wks st) + rq_m (rq_pc st)
  + b2n (is_none (send_ret st)) + b2n (negb (s_cancel st))
  + rl_m (rl_pc st) + w_walk * walk_n st + fl_m (fl_pc st) + w_c2 * c2_n st + dl_m (dl_pc st)
  + do_m (do_pc st) + sumf wr_m (wrs st)
  + b2n (is_none (recv_ret st)) + b2n (negb (r_cancel st)) + b2n (negb (sr_closed st)).

Lemma sumf_set_nth : forall A (f : A -> nat) l j w x,
  nth_error l j = Some w -> sumf f (set_nth j x l) + f w = sumf f l + f x.
Proof.
  induction l; destruct j; intros w x H.
  - unfold nth_error in H; discriminate.
  - unfold nth_error in H; discriminate.
  - unfold nth_error in H. injection H as H. subst. change (set_nth 0 x (w :: l)) with (x :: l). unfold sumf; cbn. lia.
  - change (nth_error l j = Some w) in H.
    change (set_nth (S j) x (a :: l)) with (a :: set_nth j x l). unfold sumf in *; cbn.
    specialize (IHl j w x H). lia.
Qed.
Lemma sumf_snoc : forall A (f : A -> nat) l x, sumf f (l ++ [x]) = sumf f l + f x.
Proof. unfold sumf. induction l; intros; cbn; auto. rewrite IHl. lia. Qed.

Arguments sumf : simpl never.
Arguments Nat.mul : simpl never.

Lemma mu_decreases_proof : forall p st l st',
  torn_down st = true -> step p st l = Some st' -> mu st' < mu st.
Proof.
  intros p st l st' T H. unfold torn_down in T. apply andb_prop in T. destruct T as [Ts Tr].
  destruct l; unfold_steps H; rewrite ?Ts, ?Tr in H; cbn in H; step_split H; inv_some; subst;
  repeat match goal with w : writer |- _ => destruct w; cbn in * end; subst;
  unfold mu, setw, setwr, s_fail, r_fail, d_fail, eg_fail, rl_fail, dl_fail, wr_fail; cbn;
  repeat match goal with E : ?f ?s = ?v |- context [?f ?s] => rewrite E end; cbn;
  try match goal with E : nth_error ?l ?j = Some ?w |- context [sumf ?f (set_nth ?j ?x ?l)] =>
        let X := fresh "X" in pose proof (sumf_set_nth _ f l j w x E) as X; cbn [wk_m wr_m wr_pc] in X end;
  rewrite ?sumf_snoc; cbn; unfold w_c2, w_walk;
  try lia; try (destruct k; lia); try (destruct ok; lia).
Qed.

(* ---------- who can be blocked on whom: invariants used by the progress proof ---------- *)
Definition inv8 (p : params) (st : state) : Prop :=
  (match rq_pc st with RQ_Ret _ | RQ_Done => pipe_closed st = true | _ => pipe_closed st = false end) /\
  (forall j, nth_error (wks st) j = Some WK_Done -> pipe_closed st = true \/ s_cancel st = true) /\
  length (wks st) = p_W p /\
  (match fl_pc st with
   | FL_Close false | FL_Ret false => close_ch st = true
   | FL_Done => close_ch st = true \/ (walk_closed st = true /\ walk_n st = 0)
   | _ => True end) /\
  (r_err st = true -> r_cancel st = true) /\
  (dl_pc st = DL_Done -> d_canc st = true \/ c2_closed st = true).

Lemma inv8_step : forall p st l st',
  inv2 p st -> inv3 st -> inv8 p st -> step p st l = Some st' -> inv8 p st'.
Proof.
  intros p st l st' J2 J3 I H. unfold inv8 in I.
  destruct J2 as (_ & _ & _ & _ & _ & K6 & K7 & _ & _).
  destruct J3 as (_ & _ & _ & _ & F1 & _ & _ & _).
  destruct I as (I1 & I2 & I3 & I4 & I5 & I6).
  destruct l; unfold_steps H; step_split H; inv_some; subst; unfold inv8;
  repeat match goal with w : writer |- _ => destruct w; cbn in * end; subst; cbn;
  unfold d_canc in *; cbn;
  repeat match goal with E : _ = _ |- _ => rewrite E in * end; cbn in *;
  rewrite ?length_set_nth, ?orb_true_r in *.
  all: try (intuition (try discriminate; try congruence; try lia; auto); fail).
  all: try (split; [assumption|]; split; [|intuition (try discriminate; try congruence; auto)]; intros j0 Hj;
       match goal with E : nth_error (wks _) ?j = Some _ |- _ =>
         rewrite (nth_error_set_nth _ _ _ j0 _ _ E) in Hj;
         destruct (j =? j0); [inv_some; try discriminate; auto | apply I2 in Hj; intuition auto] end; fail).
  all: try (destruct (fl_pc st) as [| |[]|[]|]; intuition (try discriminate; try congruence; try lia; auto); fail).
Qed.

Lemma inv8_init : forall p, inv8 p (init p).
Proof.
  intro p. unfold inv8, d_canc; cbn. repeat split; auto; try discriminate.
  - intros j H. apply nth_error_repeat in H. discriminate.
  - apply repeat_length.
Qed.

Lemma inv8_reachable : forall p st, reachable p st -> inv8 p st.
Proof.
  induction 1. apply inv8_init.
  pose proof (inv_reachable _ _ H) as J. destruct J. eapply inv8_step; eauto.
Qed.
