(* Refinement LTS (receiver side) -> receiver acceptor, part 3: the simulation invariant,
   steps that do not touch the receiver's part of the state, the diff loop, Receive's return. *)
From Coq Require Import List NArith Bool Arith PeanoNat Lia ZifyBool.
From FS Require Import Model.Lts Proofs.LtsInv Proofs.LtsSafe Proofs.LtsTerm Proofs.LtsC08 Proofs.LtsTok
     Proofs.LtsContent Proofs.LtsContent2 Proofs.LtsContent3 Proofs.LtsClean1 Proofs.LtsClean3 Proofs.LtsClean5.
From FS Require Import Sx Model.Path Model.Stat Model.AccEvents Model.ReceiverAcc Model.LtsRAcc
     Proofs.AccEventsP Proofs.LtsRAccP1 Proofs.LtsRAccP2.
Import ListNotations.
Local Open Scope nat_scope.

(* a regular entry is registered / its REQ has not been sent yet *)
Definition FKP (st : Lts.state) (i : nat) : Prop := 1 <= cnt i (rfiles st) + wsum cLk i st.
(* its REQ has been sent and its terminator has not been received *)
Definition OPP (st : Lts.state) (i : nat) : Prop := 1 <= wsum cSd i st + wsum cW i st /\ latec i st = 0.

Section RInv.
  Variable stats : list stat.

  Definition fval (i : nat) (s : stat) : Prop := nth_error stats i = Some s.
  Definition oval (i : nat) (cs : list bytes) : Prop := True.

  Record RI (st : Lts.state) (a : rstate) : Prop := {
    ri_i : r_i a = rl_i st;
    ri_endm : r_endm a = g_got_end_r st;
    ri_rl : match rl_pc st with
            | RL_Drain => r_fin_in a = true /\ r_rdclosed a = false /\ r_eof a = false
            | RL_Done => r_fin_in a = true /\ r_rdclosed a = true /\ r_eof a = true
            | _ => r_fin_in a = false /\ r_rdclosed a = false /\ r_eof a = false
            end;
    ri_err : ReceiverAcc.r_err a = false;
    ri_fo : r_fin_out a = match do_pc st with DO_SendFin | DO_Done => true | _ => false end;
    ri_ret : r_ret a = recv_ret st;
    ri_live : recv_ret st <> None -> rl_pc st = RL_Done /\ do_pc st = DO_Done;
    ri_files : keyed stat fval (FKP st) (r_files a);
    ri_open : keyed (list bytes) oval (OPP st) (r_open a)
  }.

  Definition same_receiver (st st' : Lts.state) : Prop :=
    rl_i st' = rl_i st /\ g_got_end_r st' = g_got_end_r st /\ rl_pc st' = rl_pc st /\ do_pc st' = do_pc st /\
    recv_ret st' = recv_ret st /\ rfiles st' = rfiles st /\ wrs st' = wrs st /\ completed st' = completed st.

  Lemma RI_frame : forall st st' a, same_receiver st st' -> RI st a -> RI st' a.
  Proof.
    intros st st' a (E1 & E2 & E3 & E4 & E5 & E6 & E7 & E8) [].
    constructor; rewrite ?E1, ?E2, ?E3, ?E4, ?E5; try assumption.
    - eapply keyed_iff; [|eassumption]. intros i. unfold FKP, wsum. rewrite E6, E7. tauto.
    - eapply keyed_iff; [|eassumption]. intros i. unfold OPP, wsum, latec. rewrite E3, E7, E8. tauto.
  Qed.
End RInv.

Definition receiver_frame_label (l : label) : bool :=
  match l with
  | LSWalk | LWorker _ | LReq | LReqCtx | LSendRet | LFill | LFillCtx | LDiffCtx | LEnvCloseSend => true
  | _ => false
  end.

Lemma frame_step_same_receiver : forall p st l st',
  receiver_frame_label l = true -> Lts.step p st l = Some st' -> same_receiver st st'.
Proof.
  intros p st l st' Hl H.
  destruct l; try discriminate Hl; unfold_steps H; step_split H; inv_some; subst;
    unfold same_receiver, s_fail, setw, dl_fail, d_fail; cbn; repeat split; reflexivity.
Qed.

(* ---------- how FKP / OPP change ---------- *)
Lemma FKP_same : forall st st', rfiles st' = rfiles st -> wrs st' = wrs st -> forall i, FKP st' i <-> FKP st i.
Proof. intros st st' E1 E2 i. unfold FKP, wsum. rewrite E1, E2. tauto. Qed.

Lemma FKP_reg : forall st st' i0, rfiles st' = i0 :: rfiles st -> wrs st' = wrs st ->
  forall i, FKP st' i <-> FKP st i \/ i = i0.
Proof.
  intros st st' i0 E1 E2 i. unfold FKP, wsum. rewrite E1, E2, cnt_cons.
  destruct (Nat.eqb_spec i i0); cbn; [subst; split; [auto|lia]|].
  split; [intros X; left; lia|intros [X|X]; [lia|contradiction]].
Qed.

Lemma OPP_same : forall st st', wrs st' = wrs st -> completed st' = completed st ->
  (forall i, rl_h i (rl_pc st') = rl_h i (rl_pc st)) -> forall i, OPP st' i <-> OPP st i.
Proof. intros st st' E1 E2 E3 i. unfold OPP, wsum, latec. rewrite E1, E2, E3. tauto. Qed.
