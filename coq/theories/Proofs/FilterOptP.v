(* C11 — the include list NewFilterFS assembles IS the list the property reads: the user's
   patterns in order, then the follow targets; in particular it keeps the order of what it was
   given, and without FollowPaths it is the user's list. *)
From Coq Require Import List NArith Bool.
From FS Require Import Sx Model.Path Model.Stat Model.Tree Model.Pattern Model.FilterWalk Model.FilterOpt
  Proofs.RefValidP.
From FS Require Model.FollowLinks.
Import ListNotations.

Lemma rsub_refl {A} (l : list A) : rsub eq l l.
Proof. induction l; [constructor|apply rs_keep; auto]. Qed.

Theorem assemble_is_stated view inc follow :
  assemble_includes view inc follow = stated_includes view inc follow.
Proof. reflexivity. Qed.

Theorem assemble_keeps_order view inc follow l :
  assemble_includes view inc follow = FollowLinks.Ok l ->
  (follow = [] /\ l = inc) \/
  (follow_targets view follow = FollowLinks.Ok None /\ l = inc) \/
  (exists ts, follow_targets view follow = FollowLinks.Ok (Some ts) /\ rsub eq l (inc ++ ts)).
Proof.
  unfold assemble_includes. destruct follow as [|f fs]; [intros H; inversion H; auto|].
  destruct (follow_targets view (f :: fs)) as [[ts|]|]; intros H; inversion H; subst; [|auto].
  right. right. exists ts. split; auto. apply rsub_refl.
Qed.
