(* C11 — the include list NewFilterFS assembles keeps the order of what it was given: it is a
   sub-sequence of (user patterns ++ follow targets); without FollowPaths it is the user's list. *)
From Coq Require Import List NArith Bool.
From FS Require Import Sx Model.Path Model.Stat Model.Tree Model.Pattern Model.FilterWalk Model.FilterOpt
  Proofs.RefValidP.
From FS Require Model.FollowLinks.
Import ListNotations.

Lemma dedupe_from_sub l : forall kept r, FollowLinks.dedupe_from kept l = Some r -> rsub eq r l.
Proof.
  induction l as [|s l IH]; intros kept r H; cbn [FollowLinks.dedupe_from] in H.
  - inversion H. constructor.
  - destruct (bytes_eqb s s_dot); [discriminate|].
    destruct (existsb _ kept).
    + apply rs_skip. eauto.
    + destruct (FollowLinks.dedupe_from (s :: kept) l) as [r'|] eqn:E; [|discriminate].
      inversion H; subst. apply rs_keep; [reflexivity|]. eauto.
Qed.

Theorem assemble_keeps_order view inc follow l :
  assemble_includes view inc follow = FollowLinks.Ok l ->
  (follow = [] /\ l = inc) \/
  (follow_targets view follow = FollowLinks.Ok None /\ l = inc) \/
  (exists ts, follow_targets view follow = FollowLinks.Ok (Some ts) /\ rsub eq l (inc ++ ts)).
Proof.
  unfold assemble_includes. destruct follow as [|f fs]; [intros H; inversion H; auto|].
  destruct (follow_targets view (f :: fs)) as [[ts|]|]; intros H; inversion H; subst; [|auto].
  right. right. exists ts. split; auto.
  destruct (FollowLinks.dedupe_paths (inc ++ ts)) as [r|] eqn:E.
  - eapply dedupe_from_sub; eauto.
  - apply rsub_nil_l.
Qed.
