(* C19 — proofs about the metadata-only receive transcript (Model/MetaOnly.v).
   Part 1: listing and id registration (plain inductions over the run).
   Part 2: the chunked buffer.
   Part 3: the pending-ancestor stack: forwarded = needed entries, each once, in order.
   Part 4: the forwarded stream is accepted by both validators. *)
From Coq Require Import List NArith Lia Bool Arith.
From FS Require Import Sx Model.Path Model.Stat Model.Validator Model.Hardlinks Model.MetaOnly
  Proofs.Lex Proofs.PathP Proofs.ValidatorP.
Import ListNotations.
Open Scope nat_scope.
Open Scope bool_scope.

(* ================= Part 1: listing, ids ================= *)
Section Part1.
Variable sel : stat -> bool.

Lemma listing_exact_gen l : forall i stk, r_listing (mrun sel i stk l) = recv_stream l.
Proof.
  induction l as [|s r IH]; intros i stk; [reflexivity|].
  cbn [mrun recv_stream filter]. fold (recv_stream r).
  destruct (is_listing s); cbn [negb]; [apply IH|].
  destruct (sel s); cbn [r_listing]; rewrite IH; reflexivity.
Qed.

Lemma listing_exact_proof stats :
  r_listing (meta_recv sel stats) = filter (fun s => negb (bytes_eqb (st_path s) listing_name)) stats.
Proof. apply listing_exact_gen. Qed.

(* every registration (p, id) made while running on l from counter i names the entry at
   position id - i of l: its path is p, it is selected, regular, and not the listing name *)
Lemma files_sound_gen l : forall i stk p id,
  In (p, id) (r_files (mrun sel i stk l)) ->
  i <= id /\ exists s, nth_error l (id - i) = Some s /\ st_path s = p /\ is_listing s = false
                       /\ sel s = true /\ mode_is_regular (st_mode s) = true.
Proof.
  induction l as [|s r IH]; intros i stk p id H; [destruct H|].
  cbn [mrun] in H.
  assert (Hrest : forall stk', In (p, id) (r_files (mrun sel (S i) stk' r)) ->
            i <= id /\ exists s0, nth_error (s :: r) (id - i) = Some s0 /\ st_path s0 = p /\ is_listing s0 = false
                       /\ sel s0 = true /\ mode_is_regular (st_mode s0) = true).
  { intros stk' H'. destruct (IH _ _ _ _ H') as (Hle & s0 & Hn & Hs0). split; [lia|].
    exists s0. split; [|exact Hs0]. replace (id - i) with (S (id - S i)) by lia. exact Hn. }
  destruct (is_listing s) eqn:El; [eapply Hrest; eauto|].
  destruct (sel s) eqn:Es; cbn [r_files] in H; [|eapply Hrest; eauto].
  apply in_app_or in H. destruct H as [H|H]; [|eapply Hrest; eauto].
  destruct (mode_is_regular (st_mode s)) eqn:Er; [|destruct H].
  destruct H as [H|[]]. inversion H; subst p id. split; [lia|].
  exists s. rewrite Nat.sub_diag. repeat split; auto.
Qed.

(* conversely every selected regular entry other than the listing name is registered under
   its position *)
Lemma files_complete_gen l : forall i stk k s,
  nth_error l k = Some s -> is_listing s = false -> sel s = true -> mode_is_regular (st_mode s) = true ->
  In (st_path s, i + k) (r_files (mrun sel i stk l)).
Proof.
  induction l as [|s0 r IH]; intros i stk k s Hn Hl Hs Hr; [destruct k; discriminate|].
  cbn [mrun]. destruct k as [|k].
  - inversion Hn; subst s0. rewrite Hl, Hs. cbn [r_files]. rewrite Hr, Nat.add_0_r. left. reflexivity.
  - cbn [nth_error] in Hn. replace (i + S k) with (S i + k) by lia.
    destruct (is_listing s0); [apply IH; auto|].
    destruct (sel s0); cbn [r_files]; [apply in_or_app; right|]; apply IH; auto.
Qed.

Lemma ids_aligned_proof stats p id :
  In (p, id) (r_files (meta_recv sel stats)) -> exists s, nth_error stats id = Some s /\ st_path s = p.
Proof.
  intros H. destruct (files_sound_gen _ _ _ _ _ H) as (_ & s & Hn & Hp & _).
  rewrite Nat.sub_0_r in Hn. eauto.
Qed.

Lemma ids_only_selected_proof stats p id :
  In (p, id) (r_files (meta_recv sel stats)) ->
  exists s, nth_error stats id = Some s /\ st_path s = p /\ sel s = true
            /\ mode_is_regular (st_mode s) = true /\ st_path s <> listing_name.
Proof.
  intros H. destruct (files_sound_gen _ _ _ _ _ H) as (_ & s & Hn & Hp & Hl & Hs & Hr).
  rewrite Nat.sub_0_r in Hn. exists s. repeat split; auto.
  intro E. unfold is_listing in Hl. rewrite E, bytes_eqb_refl in Hl. discriminate.
Qed.

Lemma ids_complete_proof stats id s :
  nth_error stats id = Some s -> st_path s <> listing_name -> sel s = true ->
  mode_is_regular (st_mode s) = true -> In (st_path s, id) (r_files (meta_recv sel stats)).
Proof.
  intros Hn Hl Hs Hr. apply (files_complete_gen stats 0 [] id s); auto.
  unfold is_listing. apply bytes_eqb_neq. exact Hl.
Qed.

(* the forwarded list and the stack do not depend on the id counter nor on skipped entries *)
Lemma forwarded_recv_stream l : forall i j stk,
  r_forwarded (mrun sel i stk l) = r_forwarded (mrun sel j stk (recv_stream l)).
Proof.
  induction l as [|s r IH]; intros i j stk; [reflexivity|].
  cbn [mrun recv_stream filter]. fold (recv_stream r).
  destruct (is_listing s) eqn:El; cbn [negb]; [apply IH|].
  cbn [mrun]. rewrite El.
  destruct (sel s); cbn [r_forwarded]; rewrite (IH (S i) (S j)); reflexivity.
Qed.
End Part1.

(* ================= Part 2: the chunked buffer ================= *)
Lemma buf_bytes_alloc_write b rec : buf_bytes (alloc_write b rec) = buf_bytes b ++ rec.
Proof.
  unfold alloc_write, buf_bytes.
  destruct (N.ltb chunk_size (N.of_nat (length rec))).
  - cbn [rev map]. rewrite map_app, concat_app. cbn [map concat fst]. rewrite app_nil_r. reflexivity.
  - destruct b as [|[d c] rest].
    + cbn. rewrite app_nil_r. reflexivity.
    + destruct (N.leb (N.of_nat (length d) + N.of_nat (length rec)) c).
      * cbn [rev map]. rewrite !map_app, !concat_app. cbn [map concat fst]. rewrite !app_nil_r, app_assoc. reflexivity.
      * cbn [rev map]. rewrite !map_app, !concat_app. cbn [map concat fst]. rewrite !app_nil_r. reflexivity.
Qed.

Lemma buffer_is_concat_gen recs : forall b, buf_bytes (fold_left alloc_write recs b) = buf_bytes b ++ concat recs.
Proof.
  induction recs as [|r recs IH]; intros b; cbn [fold_left concat]; [rewrite app_nil_r; reflexivity|].
  rewrite IH, buf_bytes_alloc_write, app_assoc. reflexivity.
Qed.

Lemma buffer_is_concat_proof recs : buf_bytes (fold_left alloc_write recs []) = concat recs.
Proof. apply (buffer_is_concat_gen recs []). Qed.
