(* C19 — proofs about the metadata-only receive transcript (Model/MetaOnly.v).
   Part 1: listing and id registration (plain inductions over the run).
   Part 2: the chunked buffer.
   Part 3: the pending-ancestor stack: forwarded = needed entries, each once, in order.
   Part 4: the forwarded stream is accepted by both validators.
   Part 5: exact contents of the pending stack after any accepted prefix. *)
From Coq Require Import List NArith Lia Bool Arith.
From FS Require Import Sx Model.Path Model.Stat Model.Validator Model.Hardlinks Model.MetaOnly
  Proofs.Lex Proofs.PathP Proofs.ValidatorP.
Import ListNotations.
Open Scope nat_scope.
Open Scope bool_scope.

(* ================= Part 1: listing, ids ================= *)
Section Part1.
Variable sel : stat -> bool.

Lemma listing_exact_gen l : forall i stk, r_listing (mrun sel i stk l) = recv_stream l.
Proof.
  induction l as [|s r IH]; intros i stk; [reflexivity|].
  cbn [mrun recv_stream filter]. fold (recv_stream r).
  destruct (is_listing s); cbn [negb]; [apply IH|].
  destruct (sel s); cbn [r_listing]; rewrite IH; reflexivity.
Qed.

Lemma listing_exact_proof stats :
  r_listing (meta_recv sel stats) = filter (fun s => negb (bytes_eqb (st_path s) listing_name)) stats.
Proof. apply listing_exact_gen. Qed.

(* every registration (p, id) made while running on l from counter i names the entry at
   position id - i of l: its path is p, it is selected, regular, and not the listing name *)
Lemma files_sound_gen l : forall i stk p id,
  In (p, id) (r_files (mrun sel i stk l)) ->
  i <= id /\ exists s, nth_error l (id - i) = Some s /\ st_path s = p /\ is_listing s = false
                       /\ sel s = true /\ mode_is_regular (st_mode s) = true.
Proof.
  induction l as [|s r IH]; intros i stk p id H; [destruct H|].
  cbn [mrun] in H.
  assert (Hrest : forall stk', In (p, id) (r_files (mrun sel (S i) stk' r)) ->
            i <= id /\ exists s0, nth_error (s :: r) (id - i) = Some s0 /\ st_path s0 = p /\ is_listing s0 = false
                       /\ sel s0 = true /\ mode_is_regular (st_mode s0) = true).
  { intros stk' H'. destruct (IH _ _ _ _ H') as (Hle & s0 & Hn & Hs0). split; [lia|].
    exists s0. split; [|exact Hs0]. replace (id - i) with (S (id - S i)) by lia. exact Hn. }
  destruct (is_listing s) eqn:El; [eapply Hrest; eauto|].
  destruct (sel s) eqn:Es; cbn [r_files] in H; [|eapply Hrest; eauto].
  apply in_app_or in H. destruct H as [H|H]; [|eapply Hrest; eauto].
  destruct (mode_is_regular (st_mode s)) eqn:Er; [|destruct H].
  destruct H as [H|[]]. inversion H; subst p id. split; [lia|].
  exists s. rewrite Nat.sub_diag. repeat split; auto.
Qed.

(* conversely every selected regular entry other than the listing name is registered under
   its position *)
Lemma files_complete_gen l : forall i stk k s,
  nth_error l k = Some s -> is_listing s = false -> sel s = true -> mode_is_regular (st_mode s) = true ->
  In (st_path s, i + k) (r_files (mrun sel i stk l)).
Proof.
  induction l as [|s0 r IH]; intros i stk k s Hn Hl Hs Hr; [destruct k; discriminate|].
  cbn [mrun]. destruct k as [|k].
  - inversion Hn; subst s0. rewrite Hl, Hs. cbn [r_files]. rewrite Hr, Nat.add_0_r. left. reflexivity.
  - cbn [nth_error] in Hn. replace (i + S k) with (S i + k) by lia.
    destruct (is_listing s0); [apply IH; auto|].
    destruct (sel s0); cbn [r_files]; [apply in_or_app; right|]; apply IH; auto.
Qed.

Lemma ids_aligned_proof stats p id :
  In (p, id) (r_files (meta_recv sel stats)) -> exists s, nth_error stats id = Some s /\ st_path s = p.
Proof.
  intros H. destruct (files_sound_gen _ _ _ _ _ H) as (_ & s & Hn & Hp & _).
  rewrite Nat.sub_0_r in Hn. eauto.
Qed.

Lemma ids_only_selected_proof stats p id :
  In (p, id) (r_files (meta_recv sel stats)) ->
  exists s, nth_error stats id = Some s /\ st_path s = p /\ sel s = true
            /\ mode_is_regular (st_mode s) = true /\ st_path s <> listing_name.
Proof.
  intros H. destruct (files_sound_gen _ _ _ _ _ H) as (_ & s & Hn & Hp & Hl & Hs & Hr).
  rewrite Nat.sub_0_r in Hn. exists s. repeat split; auto.
  intro E. unfold is_listing in Hl. rewrite E, bytes_eqb_refl in Hl. discriminate.
Qed.

Lemma ids_complete_proof stats id s :
  nth_error stats id = Some s -> st_path s <> listing_name -> sel s = true ->
  mode_is_regular (st_mode s) = true -> In (st_path s, id) (r_files (meta_recv sel stats)).
Proof.
  intros Hn Hl Hs Hr. apply (files_complete_gen stats 0 [] id s); auto.
  unfold is_listing. apply bytes_eqb_neq. exact Hl.
Qed.

(* the forwarded list and the stack do not depend on the id counter nor on skipped entries *)
Lemma forwarded_recv_stream l : forall i j stk,
  r_forwarded (mrun sel i stk l) = r_forwarded (mrun sel j stk (recv_stream l)).
Proof.
  induction l as [|s r IH]; intros i j stk; [reflexivity|].
  cbn [mrun recv_stream filter]. fold (recv_stream r).
  destruct (is_listing s) eqn:El; cbn [negb]; [apply IH|].
  cbn [mrun]. rewrite El.
  destruct (sel s); cbn [r_forwarded]; rewrite (IH (S i) (S j)); reflexivity.
Qed.
End Part1.

(* ================= Part 2: the chunked buffer ================= *)
Lemma buf_bytes_alloc_write b rec : buf_bytes (alloc_write b rec) = buf_bytes b ++ rec.
Proof.
  unfold alloc_write, buf_bytes.
  destruct (N.ltb chunk_size (N.of_nat (length rec))).
  - cbn [rev map]. rewrite map_app, concat_app. cbn [map concat fst]. rewrite app_nil_r. reflexivity.
  - destruct b as [|[d c] rest].
    + cbn. rewrite app_nil_r. reflexivity.
    + destruct (N.leb (N.of_nat (length d) + N.of_nat (length rec)) c).
      * cbn [rev map]. rewrite !map_app, !concat_app. cbn [map concat fst]. rewrite !app_nil_r, app_assoc. reflexivity.
      * cbn [rev map]. rewrite !map_app, !concat_app. cbn [map concat fst]. rewrite !app_nil_r. reflexivity.
Qed.

Lemma buffer_is_concat_gen recs : forall b, buf_bytes (fold_left alloc_write recs b) = buf_bytes b ++ concat recs.
Proof.
  induction recs as [|r recs IH]; intros b; cbn [fold_left concat]; [rewrite app_nil_r; reflexivity|].
  rewrite IH, buf_bytes_alloc_write, app_assoc. reflexivity.
Qed.

Lemma buffer_is_concat_proof recs : buf_bytes (fold_left alloc_write recs []) = concat recs.
Proof. apply (buffer_is_concat_gen recs []). Qed.

(* ================= Part 3: the pending-ancestor stack ================= *)

(* ---- component-level facts ---- *)
Definition cp (s : stat) : cpath := comps (st_path s).

Lemma lex_cons x a z s : lex (x :: a) (z :: s) = match cmpb x z with Eq => lex a s | c => c end.
Proof. reflexivity. Qed.

Lemma lex_nil_l (s : cpath) : lex [] s <> Gt.
Proof. destruct s; discriminate. Qed.

(* the entries below a directory form an interval of the path order *)
Lemma prefix_interval (a : cpath) : forall s t,
  is_prefix a t -> lex a s <> Gt -> lex s t <> Gt -> is_prefix a s.
Proof.
  induction a as [|x a IH]; intros s t [y Hy] H1 H2; [exists s; reflexivity|].
  subst t. destruct s as [|z s]; [exfalso; apply H1; reflexivity|].
  cbn [app] in H2. rewrite lex_cons in H1, H2.
  destruct (cmpb x z) eqn:E.
  - apply cmpb_eq in E. subst z. rewrite cmpb_refl in H2.
    destruct (IH s (a ++ y)) as [w Hw]; auto; [exists y; reflexivity|].
    exists w. rewrite Hw. reflexivity.
  - rewrite (cmpb_opp x z), E in H2. exfalso. apply H2. reflexivity.
  - exfalso. apply H1. reflexivity.
Qed.

Lemma prefix_refl (a : cpath) : is_prefix a a.
Proof. exists []. rewrite app_nil_r. reflexivity. Qed.

Lemma removelast_prefix (l : cpath) : is_prefix (removelast l) l.
Proof.
  destruct l as [|x l]; [apply prefix_refl|].
  exists [last (x :: l) []]. apply app_removelast_last. discriminate.
Qed.

Lemma prefix_len (a b : cpath) : is_prefix a b -> length a <= length b.
Proof. intros [y ->]. rewrite app_length. lia. Qed.

Lemma removelast_len (l : cpath) : l <> [] -> S (length (removelast l)) = length l.
Proof.
  intros H. rewrite (app_removelast_last [] H) at 2. rewrite app_length. cbn. lia.
Qed.

(* a proper prefix of p is a prefix of its parent *)
Lemma proper_prefix_parent (a y : cpath) : y <> [] -> removelast (a ++ y) = a ++ removelast y.
Proof. apply removelast_app. Qed.

(* ---- strings <-> components ---- *)
Lemma comps_joinc_app_sep cs r : cs <> [] -> Forall nosep cs -> comps (joinc cs ++ sep :: r) = cs ++ comps r.
Proof.
  induction cs as [|c cs IH]; intros Hne Hf; [congruence|].
  inversion Hf as [|? ? Hc Hcs]; subst. destruct cs as [|c2 cs].
  - cbn [joinc app]. apply comps_app_sep. exact Hc.
  - rewrite joinc_cons by discriminate. rewrite <- app_assoc. cbn [app].
    rewrite comps_app_sep by exact Hc. rewrite IH by (auto; discriminate). reflexivity.
Qed.

Lemma joinc_app (a y : cpath) : a <> [] -> y <> [] -> joinc (a ++ y) = joinc a ++ sep :: joinc y.
Proof.
  induction a as [|c a IH]; intros Ha Hy; [congruence|].
  destruct a as [|c2 a].
  - cbn [app]. rewrite joinc_cons by exact Hy. reflexivity.
  - change ((c :: c2 :: a) ++ y) with (c :: ((c2 :: a) ++ y)).
    rewrite joinc_cons by (cbn; discriminate). rewrite IH by (auto; discriminate).
    rewrite (joinc_cons c (c2 :: a)) by discriminate. rewrite <- app_assoc. reflexivity.
Qed.

Lemma has_prefix_self p r : has_prefix p (p ++ r) = true.
Proof. induction p as [|a p IH]; [reflexivity|]. cbn. rewrite N.eqb_refl. exact IH. Qed.

(* [under a t]: t's components strictly extend a's *)
Lemma under_prefix a t : under a t = true <-> exists y, y <> [] /\ comps t = comps a ++ y.
Proof.
  unfold under. split.
  - intros H. apply has_prefix_app in H. destruct H as [r Hr]. rewrite <- app_assoc in Hr. cbn [app] in Hr.
    exists (comps r). split; [apply comps_nonempty|].
    rewrite Hr. rewrite <- (joinc_comps a) at 1.
    apply comps_joinc_app_sep; [apply comps_nonempty|apply comps_all_nosep].
  - intros (y & Hy & E).
    assert (Ht : t = a ++ sep :: joinc y).
    { rewrite <- (joinc_comps t), E, joinc_app, joinc_comps; auto. apply comps_nonempty. }
    rewrite Ht. replace (a ++ sep :: joinc y) with ((a ++ [sep]) ++ joinc y) by (rewrite <- app_assoc; reflexivity).
    apply has_prefix_self.
Qed.

(* "parent == last.path" in terms of components, for admissible paths *)
Lemma dir_eq_parent p h : okc (comps p) -> okc (comps h) ->
  (bytes_eqb (dir p) h = true <-> comps h = removelast (comps p)).
Proof.
  intros Hp Hh. destruct (okc_snoc_split _ Hp) as (d & b & Ed).
  assert (Ep : p = joinc (d ++ [b])) by (rewrite <- Ed, joinc_comps; reflexivity).
  rewrite Ed in Hp. rewrite Ed, removelast_last.
  assert (Hdir : dir p = match d with [] => s_dot | _ => joinc d end) by (rewrite Ep; apply dir_joinc; auto).
  rewrite Hdir. rewrite bytes_eqb_eq. destruct d as [|c d'].
  - split; intros H.
    + exfalso. destruct (okc_not_special _ Hh) as (_ & H1 & _). apply H1. rewrite joinc_comps. auto.
    + exfalso. eapply comps_nonempty; eauto.
  - assert (Hd : okc (c :: d')) by (eapply okc_prefix; eauto; discriminate).
    split; intros H.
    + rewrite <- H. apply comps_joinc; [discriminate|apply Hd].
    + rewrite <- H. apply joinc_comps.
Qed.

(* ---- the validity facts the proof uses, in component form ---- *)
Definition step_ok (acc : list stat) (s : stat) : Prop :=
  okc (cp s) /\ (forall q, In q acc -> lex (cp q) (cp s) = Lt) /\
  (removelast (cp s) = [] \/ exists q, In q acc /\ cp q = removelast (cp s) /\ st_is_dir q = true).

Fixpoint cvalid (acc l : list stat) : Prop :=
  match l with
  | [] => True
  | s :: r => step_ok acc s /\ cvalid (acc ++ [s]) r
  end.

Lemma spec_run_cvalid l : forall acc i,
  spec_run (map vitem_of acc) (map vitem_of l) i = None -> cvalid acc l.
Proof.
  induction l as [|s r IH]; intros acc i H; [exact I|].
  cbn [map spec_run] in H. destruct (spec_ok_b (map vitem_of acc) (vitem_of s)) eqn:E; [|discriminate].
  assert (Hok : okitem (vitem_of s)).
  { unfold okitem. unfold spec_ok_b in E. apply andb_true_iff in E. destruct E as [E _].
    apply andb_true_iff in E. destruct E as [E _]. exact E. }
  cbn [cvalid]. split.
  - apply (spec_reflect _ _ Hok) in E. destruct E as (_ & Hlt & Hpar).
    split; [apply ok_path_okc; exact Hok|]. split.
    + intros q Hq. apply (Hlt (citem_of (vitem_of q))). apply in_map, in_map. exact Hq.
    + destruct Hpar as [Hpar|(q & Hq & Hq1 & _ & Hq3)]; [left; exact Hpar|right].
      apply in_map_iff in Hq. destruct Hq as (q1 & <- & Hq).
      apply in_map_iff in Hq. destruct Hq as (q0 & <- & Hq).
      exists q0. split; [exact Hq|]. split; [exact Hq1|exact Hq3].
  - apply (IH _ (S i)). rewrite map_app. exact H.
Qed.

Lemma valid_stream_cvalid l : valid_stream l -> cvalid [] l.
Proof.
  unfold valid_stream. rewrite validator_accepts_iff_spec_proof. unfold spec_first_bad.
  apply (spec_run_cvalid l [] 0).
Qed.

Lemma cvalid_later l : forall acc, cvalid acc l ->
  forall x, In x l -> okc (cp x) /\ forall q, In q acc -> lex (cp q) (cp x) = Lt.
Proof.
  induction l as [|s r IH]; intros acc H x Hx; [destruct Hx|].
  destruct H as [(Hok & Hlt & _) Hr]. destruct Hx as [<-|Hx]; [split; auto|].
  destruct (IH _ Hr x Hx) as [H1 H2]. split; auto.
  intros q Hq. apply H2. apply in_or_app. left. exact Hq.
Qed.

Lemma cvalid_head_lt acc s r : cvalid acc (s :: r) -> forall x, In x r -> lex (cp s) (cp x) = Lt.
Proof.
  intros [_ Hr] x Hx. destruct (cvalid_later _ _ Hr x Hx) as [_ H]. apply H. apply in_or_app. right. left. reflexivity.
Qed.

(* ---- mpop ---- *)
Lemma mpop_split p stk : exists popped,
  stk = popped ++ mpop p stk /\
  (forall d, In d popped -> bytes_eqb p (st_path d) = false) /\
  (mpop p stk = [] \/ exists h r, mpop p stk = h :: r /\ bytes_eqb p (st_path h) = true).
Proof.
  induction stk as [|t r IH].
  { exists []. cbn. split; [reflexivity|]. split; [intros d []|left; reflexivity]. }
  cbn [mpop]. destruct (bytes_eqb p (st_path t)) eqn:E.
  - exists []. cbn. split; auto. split; [intros d []|]. right. eauto.
  - destruct IH as (popped & H1 & H2 & H3). exists (t :: popped). split; [cbn; congruence|].
    split; [|exact H3]. intros d [<-|Hd]; auto.
Qed.

(* ---- chains: each stack element is the parent of the one above it ---- *)
Fixpoint chain_ok (stk : list stat) : Prop :=
  match stk with
  | x :: r => match r with y :: _ => cp y = removelast (cp x) | [] => True end /\ chain_ok r
  | [] => True
  end.

Lemma chain_app_r xs ys : chain_ok (xs ++ ys) -> chain_ok ys.
Proof. induction xs as [|x xs IH]; [auto|]. cbn [app chain_ok]. intros [_ H]. auto. Qed.

Lemma prefix_trans' (a b c : cpath) : is_prefix a b -> is_prefix b c -> is_prefix a c.
Proof. apply prefix_trans. Qed.

Lemma chain_below_prefix r : forall h, chain_ok (h :: r) ->
  forall d, In d r -> is_prefix (cp d) (removelast (cp h)).
Proof.
  induction r as [|y r IH]; intros h H d Hd; [destruct Hd|].
  destruct H as [Hy Hr]. destruct Hd as [<-|Hd]; [rewrite Hy; apply prefix_refl|].
  eapply prefix_trans; [apply (IH y Hr d Hd)|]. rewrite <- Hy. apply removelast_prefix.
Qed.

Lemma chain_app_prefix xs ys : chain_ok (xs ++ ys) ->
  forall x y, In x xs -> In y ys -> is_prefix (cp y) (removelast (cp x)).
Proof.
  induction xs as [|x0 xs IH]; intros H x y Hx Hy; [destruct Hx|].
  destruct Hx as [<-|Hx].
  - apply (chain_below_prefix (xs ++ ys) x0 H). apply in_or_app. right. exact Hy.
  - apply IH; auto. destruct H as [_ H]. exact H.
Qed.

Section Part3.
Variable sel : stat -> bool.

(* Invariant between the entries handled so far [acc], the current position [c] (components
   of the last handled path, [] before the first) and the pending stack (top first):
   the stack holds unselected directories of [acc], each the parent of the one above it, and
   it is closed upwards: every directory of [acc] that lies between a stack element and the
   current position is on the stack too.  Hence (with validity of the next entry) the stack
   is exactly the not-yet-forwarded ancestor directories of the current position. *)
Record Inv (acc : list stat) (c : cpath) (stk : list stat) : Prop := {
  inv_mem : forall d, In d stk -> In d acc /\ sel d = false /\ st_is_dir d = true;
  inv_chain : chain_ok stk;
  inv_le : forall q, In q acc -> lex (cp q) c <> Gt;
  inv_okc : forall q, In q acc -> okc (cp q);
  inv_c : c = [] \/ exists q, In q acc /\ cp q = c;
  inv_compl : forall d q, In d stk -> In q acc -> st_is_dir q = true ->
              is_prefix (cp d) (cp q) -> is_prefix (cp q) c -> In q stk
}.

Lemma inv_init : Inv [] [] [].
Proof.
  constructor.
  - intros d []. - exact I. - intros q []. - intros q []. - left; reflexivity. - intros d q [].
Qed.

Lemma okc_nonempty (p : cpath) : okc p -> p <> [].
Proof. intros (H & _). exact H. Qed.

(* what one step does to the stack *)
Lemma step_facts acc c stk s :
  Inv acc c stk -> step_ok acc s ->
  exists popped,
    stk = popped ++ mpop (dir (st_path s)) stk /\
    (* S1: what stays on the stack are proper ancestors of s, its parent on top *)
    (forall d, In d (mpop (dir (st_path s)) stk) -> exists y, y <> [] /\ cp s = cp d ++ y) /\
    (match mpop (dir (st_path s)) stk with h :: _ => cp h = removelast (cp s) | [] => True end) /\
    (* S2: what is popped is not an ancestor of s *)
    (forall d, In d popped -> ~ is_prefix (cp d) (cp s)).
Proof.
  intros I (Hok & Hlt & Hpar).
  destruct (mpop_split (dir (st_path s)) stk) as (popped & Hsplit & Hpop & Htop).
  exists popped. split; [exact Hsplit|].
  set (stk1 := mpop (dir (st_path s)) stk) in *.
  assert (Hne : cp s <> []) by (apply okc_nonempty; exact Hok).
  assert (Hin1 : forall d, In d stk1 -> In d stk) by (intros d Hd; rewrite Hsplit; apply in_or_app; right; exact Hd).
  assert (Hinp : forall d, In d popped -> In d stk) by (intros d Hd; rewrite Hsplit; apply in_or_app; left; exact Hd).
  assert (Hokd : forall d, In d stk -> okc (cp d)).
  { intros d Hd. apply (inv_okc _ _ _ I). apply (inv_mem _ _ _ I). exact Hd. }
  assert (Htop' : match stk1 with h :: _ => cp h = removelast (cp s) | [] => True end).
  { destruct Htop as [E|(h & r & E & Hb)]; rewrite E; [exact Logic.I|].
    apply (dir_eq_parent (st_path s) (st_path h)); auto. apply Hokd, Hin1. rewrite E. left. reflexivity. }
  split; [|split; [exact Htop'|]].
  - (* S1 *)
    intros d Hd. destruct stk1 as [|h r] eqn:E1; [destruct Hd|].
    assert (Hch : chain_ok (h :: r)) by (apply (chain_app_r popped); rewrite <- Hsplit; apply (inv_chain _ _ _ I)).
    assert (Es : cp s = removelast (cp s) ++ [last (cp s) []]) by (apply app_removelast_last; exact Hne).
    destruct Hd as [<-|Hd].
    + exists [last (cp s) []]. split; [discriminate|]. rewrite Htop'. exact Es.
    + pose proof (chain_below_prefix r h Hch d Hd) as Hp.
      assert (Hp2 : is_prefix (cp d) (cp h)) by (eapply prefix_trans; [exact Hp|apply removelast_prefix]).
      destruct Hp2 as [w Hw]. exists (w ++ [last (cp s) []]). split; [destruct w; discriminate|].
      rewrite Es at 1. rewrite <- Htop', Hw, <- app_assoc. reflexivity.
  - (* S2 *)
    intros d Hd [y Hy].
    assert (Hdacc : In d acc) by (apply (inv_mem _ _ _ I), Hinp, Hd).
    assert (Hy0 : y <> []).
    { intro E. subst y. rewrite app_nil_r in Hy. specialize (Hlt d Hdacc). rewrite Hy, lex_refl in Hlt. discriminate. }
    assert (HP : removelast (cp s) = cp d ++ removelast y) by (rewrite Hy; apply removelast_app; exact Hy0).
    assert (Hnb : bytes_eqb (dir (st_path s)) (st_path d) = false) by (apply Hpop, Hd).
    assert (Hdne : cp d <> removelast (cp s)).
    { intro E. assert (bytes_eqb (dir (st_path s)) (st_path d) = true).
      { apply dir_eq_parent; auto. apply Hokd, Hinp, Hd. }
      congruence. }
    assert (Hry : removelast y <> []) by (intro E; apply Hdne; rewrite HP, E, app_nil_r; reflexivity).
    destruct Hpar as [Hpar|(q & Hq & Hq1 & Hq2)].
    { rewrite HP in Hpar. apply app_eq_nil in Hpar. destruct Hpar. contradiction. }
    (* the parent q of s is a directory of acc strictly below d and above-or-at c: on the stack *)
    assert (Hcs : lex c (cp s) <> Gt).
    { destruct (inv_c _ _ _ I) as [->|(q0 & Hq0 & <-)]; [apply lex_nil_l|]. rewrite (Hlt q0 Hq0). discriminate. }
    assert (Hqc : is_prefix (cp q) c).
    { apply (prefix_interval (cp q) c (cp s)); [rewrite Hq1; apply removelast_prefix|apply (inv_le _ _ _ I); exact Hq|exact Hcs]. }
    assert (Hqstk : In q stk).
    { apply (inv_compl _ _ _ I d q); auto. exists (removelast y). rewrite Hq1. exact HP. }
    assert (Hq1' : In q stk1).
    { rewrite Hsplit in Hqstk. apply in_app_or in Hqstk. destruct Hqstk as [Hqp|Hqs]; [|exact Hqs].
      exfalso. assert (bytes_eqb (dir (st_path s)) (st_path q) = true).
      { apply dir_eq_parent; [exact Hok|apply (inv_okc _ _ _ I); exact Hq|exact Hq1]. }
      rewrite (Hpop q Hqp) in H. discriminate. }
    (* q is below d in the chain, hence shorter than d; but cp q extends cp d *)
    assert (Hch : chain_ok (popped ++ stk1)) by (rewrite <- Hsplit; apply (inv_chain _ _ _ I)).
    pose proof (chain_app_prefix popped stk1 Hch d q Hd Hq1') as Hpq.
    apply prefix_len in Hpq.
    assert (Hdn : cp d <> []) by (apply okc_nonempty, Hokd, Hinp, Hd).
    pose proof (removelast_len (cp d) Hdn) as Hl.
    rewrite Hq1, HP, app_length in Hpq. lia.
Qed.

(* the invariant after the step, for the three possible new stacks *)
Lemma inv_step acc c stk s stk' :
  Inv acc c stk -> step_ok acc s ->
  let stk1 := mpop (dir (st_path s)) stk in
  (stk' = [] \/ (stk' = stk1 /\ st_is_dir s = false) \/ (stk' = s :: stk1 /\ sel s = false /\ st_is_dir s = true)) ->
  Inv (acc ++ [s]) (cp s) stk'.
Proof.
  intros I Hstep stk1 Hcase.
  destruct (step_facts acc c stk s I Hstep) as (popped & Hsplit & S1 & Htop & S2).
  fold stk1 in Hsplit, S1, Htop.
  pose proof Hstep as (Hok & Hlt & Hpar).
  assert (Hin1 : forall d, In d stk1 -> In d stk) by (intros d Hd; rewrite Hsplit; apply in_or_app; right; exact Hd).
  assert (Hcs : lex c (cp s) <> Gt).
  { destruct (inv_c _ _ _ I) as [->|(q0 & Hq0 & <-)]; [apply lex_nil_l|]. rewrite (Hlt q0 Hq0). discriminate. }
  (* completeness restricted to stk1, shared by the last two cases *)
  assert (Hcompl1 : forall d q, In d stk1 -> In q acc -> st_is_dir q = true ->
            is_prefix (cp d) (cp q) -> is_prefix (cp q) (cp s) -> In q stk1).
  { intros d q Hd Hq Hqd Hdq Hqs.
    assert (Hqc : is_prefix (cp q) c).
    { apply (prefix_interval (cp q) c (cp s)); [exact Hqs|apply (inv_le _ _ _ I); exact Hq|exact Hcs]. }
    pose proof (inv_compl _ _ _ I d q (Hin1 d Hd) Hq Hqd Hdq Hqc) as Hqstk.
    rewrite Hsplit in Hqstk. apply in_app_or in Hqstk. destruct Hqstk as [Hqp|]; [|assumption].
    exfalso. exact (S2 q Hqp Hqs). }
  assert (Hmem1 : forall d, In d stk1 -> In d (acc ++ [s]) /\ sel d = false /\ st_is_dir d = true).
  { intros d Hd. destruct (inv_mem _ _ _ I d (Hin1 d Hd)) as (H1 & H2 & H3). split; [apply in_or_app; left; exact H1|auto]. }
  assert (Hch1 : chain_ok stk1) by (apply (chain_app_r popped); rewrite <- Hsplit; apply (inv_chain _ _ _ I)).
  assert (Hle' : forall q, In q (acc ++ [s]) -> lex (cp q) (cp s) <> Gt).
  { intros q Hq. apply in_app_or in Hq. destruct Hq as [Hq|[<-|[]]]; [rewrite (Hlt q Hq)|rewrite lex_refl]; discriminate. }
  assert (Hokc' : forall q, In q (acc ++ [s]) -> okc (cp q)).
  { intros q Hq. apply in_app_or in Hq. destruct Hq as [Hq|[<-|[]]]; [apply (inv_okc _ _ _ I); exact Hq|exact Hok]. }
  assert (Hc' : cp s = [] \/ exists q, In q (acc ++ [s]) /\ cp q = cp s).
  { right. exists s. split; [apply in_or_app; right; left; reflexivity|reflexivity]. }
  destruct Hcase as [->|[[-> Hnd]|(-> & Hns & Hd)]].
  - constructor; auto; try exact Logic.I; try (intros ? []); try (intros ? ? []).
  - constructor; auto.
    intros d q Hd Hq Hqd Hdq Hqs. apply in_app_or in Hq. destruct Hq as [Hq|[<-|[]]].
    + eapply Hcompl1; eauto.
    + congruence.
  - constructor; auto.
    + intros d [<-|Hd0]; [split; [apply in_or_app; right; left; reflexivity|auto]|apply Hmem1; exact Hd0].
    + cbn [chain_ok]. split; [|exact Hch1]. destruct stk1; [exact Logic.I|exact Htop].
    + intros d q Hd0 Hq Hqd Hdq Hqs. apply in_app_or in Hq. destruct Hq as [Hq|[<-|[]]]; [|left; reflexivity].
      right. destruct Hd0 as [<-|Hd0].
      * exfalso. apply prefix_le in Hdq. apply Hdq. rewrite lex_opp, (Hlt q Hq). reflexivity.
      * eapply Hcompl1; eauto.
Qed.

(* ---- filters ---- *)
Lemma filter_none {A} (f : A -> bool) l : (forall x, In x l -> f x = false) -> filter f l = [].
Proof.
  induction l as [|a l IH]; intros H; [reflexivity|]. cbn [filter]. rewrite (H a (or_introl eq_refl)).
  apply IH. intros x Hx. apply H. right. exact Hx.
Qed.

Lemma filter_all {A} (f : A -> bool) l : (forall x, In x l -> f x = true) -> filter f l = l.
Proof.
  induction l as [|a l IH]; intros H; [reflexivity|]. cbn [filter]. rewrite (H a (or_introl eq_refl)).
  f_equal. apply IH. intros x Hx. apply H. right. exact Hx.
Qed.

Lemma nd_cons_unsel s l x : sel s = false -> needed sel (s :: l) x = needed sel l x.
Proof. intros H. unfold needed. cbn [existsb]. rewrite H. reflexivity. Qed.

Lemma nd_no_desc l d : sel d = false ->
  (forall t, In t l -> under (st_path d) (st_path t) = false) -> needed sel l d = false.
Proof.
  intros Hs H. unfold needed. rewrite Hs. cbn [orb].
  destruct (existsb (fun t => sel t && under (st_path d) (st_path t)) l) eqn:E; [|apply andb_false_r].
  apply existsb_exists in E. destruct E as (t & Ht & E). rewrite (H t Ht), andb_false_r in E. discriminate.
Qed.

Lemma nd_anc l d s : st_is_dir d = true -> In s l -> sel s = true ->
  under (st_path d) (st_path s) = true -> needed sel l d = true.
Proof.
  intros Hd Hin Hs Hu. unfold needed. rewrite Hd. cbn [andb].
  apply orb_true_iff. right. apply existsb_exists. exists s. rewrite Hs, Hu. auto.
Qed.

(* ---- the run, from any reachable state ---- *)
Lemma fwd_gen l : forall acc c stk i,
  cvalid acc l -> Inv acc c stk -> (forall x, In x l -> is_listing x = false) ->
  r_forwarded (mrun sel i stk l) = filter (needed sel l) (rev stk) ++ filter (needed sel l) l.
Proof.
  induction l as [|s l' IH]; intros acc c stk i Hv HI Hnl.
  - cbn [mrun r_forwarded res_nil filter]. rewrite app_nil_r. symmetry. apply filter_none.
    intros d Hd. apply in_rev in Hd. apply nd_no_desc; [apply (inv_mem _ _ _ HI d Hd)|intros t []].
  - pose proof Hv as [Hstep Hv'].
    destruct (step_facts acc c stk s HI Hstep) as (popped & Hsplit & S1 & Htop & S2).
    set (stk1 := mpop (dir (st_path s)) stk) in *.
    pose proof Hstep as (Hok & Hlt & Hpar).
    assert (Hnl' : forall x, In x l' -> is_listing x = false) by (intros; apply Hnl; right; auto).
    assert (Hinp : forall d, In d popped -> In d stk) by (intros d Hd; rewrite Hsplit; apply in_or_app; left; exact Hd).
    assert (Hin1 : forall d, In d stk1 -> In d stk) by (intros d Hd; rewrite Hsplit; apply in_or_app; right; exact Hd).
    assert (F1 : forall d, In d popped -> forall t, In t (s :: l') -> under (st_path d) (st_path t) = false).
    { intros d Hd t Ht. destruct (under (st_path d) (st_path t)) eqn:E; [|reflexivity]. exfalso.
      apply under_prefix in E. destruct E as (y & _ & Ey).
      apply (S2 d Hd). apply (prefix_interval (cp d) (cp s) (cp t)).
      - exists y. exact Ey.
      - rewrite (Hlt d); [discriminate|]. apply (inv_mem _ _ _ HI). apply Hinp. exact Hd.
      - destruct Ht as [<-|Ht]; [rewrite lex_refl; discriminate|]. rewrite (cvalid_head_lt _ _ _ Hv t Ht). discriminate. }
    assert (F2 : forall x, In x l' -> under (st_path x) (st_path s) = false).
    { intros x Hx. destruct (under (st_path x) (st_path s)) eqn:E; [|reflexivity]. exfalso.
      apply under_prefix in E. destruct E as (y & _ & Ey).
      assert (Hp : is_prefix (cp x) (cp s)) by (exists y; exact Ey). apply prefix_le in Hp. apply Hp.
      rewrite lex_opp, (cvalid_head_lt _ _ _ Hv x Hx). reflexivity. }
    assert (Hrev : rev stk = rev stk1 ++ rev popped) by (rewrite Hsplit at 1; apply rev_app_distr).
    assert (Hpopped_none : forall l0, (forall t, In t l0 -> In t (s :: l')) ->
              filter (needed sel l0) (rev popped) = []).
    { intros l0 Hsub. apply filter_none. intros d Hd. apply in_rev in Hd. apply nd_no_desc.
      - apply (inv_mem _ _ _ HI). apply Hinp. exact Hd.
      - intros t Ht. apply (F1 d Hd t (Hsub t Ht)). }
    cbn [mrun]. rewrite (Hnl s (or_introl eq_refl)). fold stk1.
    destruct (sel s) eqn:Es.
    + (* selected: the whole remaining stack is replayed, then s *)
      assert (HI' : Inv (acc ++ [s]) (cp s) []) by (apply (inv_step acc c stk s [] HI Hstep); left; reflexivity).
      cbn [r_forwarded]. rewrite (IH (acc ++ [s]) (cp s) [] (S i) Hv' HI' Hnl').
      rewrite Hrev, filter_app, (Hpopped_none (s :: l')) by auto. rewrite app_nil_r.
      rewrite (filter_all (needed sel (s :: l')) (rev stk1)).
      2:{ intros d Hd. apply in_rev in Hd. apply (nd_anc (s :: l') d s).
          - apply (inv_mem _ _ _ HI). apply Hin1. exact Hd.
          - left; reflexivity.
          - exact Es.
          - apply under_prefix. destruct (S1 d Hd) as (y & Hy & E). exists y. split; auto. }
      assert (Hns : needed sel (s :: l') s = true) by (unfold needed; rewrite Es; reflexivity).
      cbn [rev filter app]. rewrite Hns. f_equal. f_equal.
      apply filter_ext_in. intros x Hx. unfold needed. cbn [existsb]. rewrite (F2 x Hx), andb_false_r. reflexivity.
    + (* unselected: nothing is forwarded now *)
      assert (Hext : forall x, needed sel (s :: l') x = needed sel l' x) by (intro; apply nd_cons_unsel; exact Es).
      rewrite (filter_ext _ _ Hext (rev stk)), (filter_ext _ _ Hext (s :: l')).
      rewrite Hrev, filter_app, (Hpopped_none l') by (intros; right; auto). rewrite app_nil_r.
      destruct (st_is_dir s) eqn:Ed.
      * assert (HI' : Inv (acc ++ [s]) (cp s) (s :: stk1)).
        { apply (inv_step acc c stk s (s :: stk1) HI Hstep). right. right. auto. }
        cbn [r_forwarded]. rewrite (IH (acc ++ [s]) (cp s) (s :: stk1) (S i) Hv' HI' Hnl').
        cbn [rev]. rewrite filter_app. cbn [filter].
        destruct (needed sel l' s); rewrite <- app_assoc; reflexivity.
      * assert (HI' : Inv (acc ++ [s]) (cp s) stk1).
        { apply (inv_step acc c stk s stk1 HI Hstep). right. left. auto. }
        cbn [r_forwarded]. rewrite (IH (acc ++ [s]) (cp s) stk1 (S i) Hv' HI' Hnl').
        cbn [filter]. assert (Hns : needed sel l' s = false) by (unfold needed; rewrite Es, Ed; reflexivity).
        rewrite Hns. reflexivity.
Qed.

Lemma recv_stream_no_listing stats x : In x (recv_stream stats) -> is_listing x = false.
Proof. unfold recv_stream. intros H. apply filter_In in H. destruct H as [_ H]. apply negb_true_iff. exact H. Qed.

Theorem forwarded_exact_proof stats :
  valid_stream (recv_stream stats) ->
  r_forwarded (meta_recv sel stats) = filter (needed sel (recv_stream stats)) (recv_stream stats).
Proof.
  intros Hv. unfold meta_recv. rewrite (forwarded_recv_stream sel stats 0 0 []).
  rewrite (fwd_gen (recv_stream stats) [] [] [] 0 (valid_stream_cvalid _ Hv) inv_init (recv_stream_no_listing stats)).
  reflexivity.
Qed.

End Part3.

(* ================= Part 4: what is forwarded is again an accepted stream ================= *)

(* dropping entries from an accepted stream keeps it accepted as long as no kept entry loses
   its parent directory *)
Lemma spec_filter (f : stat -> bool) l : forall acc i j,
  spec_run (map vitem_of acc) (map vitem_of l) i = None ->
  (forall x q, In x l -> f x = true -> In q (acc ++ l) ->
     st_path q = parent_of (st_path x) -> st_is_dir q = true -> f q = true) ->
  spec_run (map vitem_of (filter f acc)) (map vitem_of (filter f l)) j = None.
Proof.
  induction l as [|s r IH]; intros acc i j H Hcl; [reflexivity|].
  cbn [map spec_run] in H. destruct (spec_ok_b (map vitem_of acc) (vitem_of s)) eqn:E; [|discriminate].
  assert (Hcl' : forall x q, In x r -> f x = true -> In q ((acc ++ [s]) ++ r) ->
            st_path q = parent_of (st_path x) -> st_is_dir q = true -> f q = true).
  { intros x q Hx Hfx Hq. apply Hcl; [right; exact Hx|exact Hfx|]. rewrite <- app_assoc in Hq. exact Hq. }
  change [vitem_of s] with (map vitem_of [s]) in H. rewrite <- map_app in H.
  cbn [filter]. destruct (f s) eqn:Ef.
  - cbn [map spec_run].
    assert (E' : spec_ok_b (map vitem_of (filter f acc)) (vitem_of s) = true).
    { unfold spec_ok_b in *. apply andb_true_iff in E. destruct E as [E E3].
      apply andb_true_iff in E. destruct E as [E1 E2]. rewrite E1. cbn [andb].
      apply andb_true_iff. split.
      - apply forallb_forall. intros q Hq. rewrite forallb_forall in E2. apply E2.
        apply in_map_iff in Hq. destruct Hq as (q0 & <- & Hq0). apply in_map. apply filter_In in Hq0. apply Hq0.
      - apply orb_true_iff in E3. destruct E3 as [E3|E3]; [rewrite E3; reflexivity|].
        apply orb_true_iff. right. apply existsb_exists in E3. destruct E3 as (q & Hq & E3).
        apply in_map_iff in Hq. destruct Hq as (q0 & <- & Hq0).
        apply existsb_exists. exists (vitem_of q0). split; [|exact E3].
        apply in_map. apply filter_In. split; [exact Hq0|].
        apply andb_true_iff in E3. destruct E3 as [E3 E5]. apply andb_true_iff in E3. destruct E3 as [E3 _].
        cbn [vpath visdir vitem_of] in E3, E5. apply bytes_eqb_eq in E3.
        apply (Hcl s q0); auto; [left; reflexivity|apply in_or_app; left; exact Hq0]. }
    rewrite E'. replace (map vitem_of (filter f acc) ++ [vitem_of s]) with (map vitem_of (filter f (acc ++ [s]))).
    + apply (IH (acc ++ [s]) (S i) (S j) H Hcl').
    + rewrite filter_app, map_app. cbn [filter]. rewrite Ef. reflexivity.
  - replace (filter f acc) with (filter f (acc ++ [s])).
    + apply (IH (acc ++ [s]) (S i) j H Hcl').
    + rewrite filter_app. cbn [filter]. rewrite Ef. apply app_nil_r.
Qed.

Lemma valid_filter (f : stat -> bool) l :
  valid_stream l ->
  (forall x q, In x l -> f x = true -> In q l -> st_path q = parent_of (st_path x) -> st_is_dir q = true -> f q = true) ->
  valid_stream (filter f l).
Proof.
  unfold valid_stream. rewrite !validator_accepts_iff_spec_proof. unfold spec_first_bad. intros H Hcl.
  apply (spec_filter f l [] 0 0 H). exact Hcl.
Qed.

Lemma valid_okc l : valid_stream l -> forall x, In x l -> okc (cp x).
Proof. intros H x Hx. apply (cvalid_later l [] (valid_stream_cvalid l H) x Hx). Qed.

(* an admissible path lies strictly below its parent (and the parent is not the root) *)
Lemma under_parent q x : okc (cp q) -> okc (cp x) -> st_path q = parent_of (st_path x) ->
  exists b, cp x = cp q ++ [b].
Proof.
  intros Hq Hx E.
  assert (Hok : ok_path (st_path x) = true) by (rewrite <- (joinc_comps (st_path x)); apply okc_ok_path; exact Hx).
  destruct (vsplit_ok _ Hok) as (d & b & Ec & Hokc & _ & _ & _ & Hpar).
  exists b. unfold cp. rewrite Ec, E, Hpar. f_equal.
  destruct d as [|c d']; [|symmetry; apply comps_joinc; [discriminate|]; eapply okc_prefix; eauto; discriminate].
  exfalso. unfold cp in Hq. rewrite E, Hpar in Hq. cbn in Hq. destruct Hq as (_ & Hn & _).
  inversion Hn as [|? ? (Hn1 & _) _]. congruence.
Qed.

Section Part4.
Variable sel : stat -> bool.

Lemma needed_parent_closed l : valid_stream l ->
  forall x q, In x l -> needed sel l x = true -> In q l ->
    st_path q = parent_of (st_path x) -> st_is_dir q = true -> needed sel l q = true.
Proof.
  intros Hv x q Hx Hn Hq E Hd.
  destruct (under_parent q x (valid_okc l Hv q Hq) (valid_okc l Hv x Hx) E) as [b Hb].
  unfold needed in Hn. apply orb_true_iff in Hn. destruct Hn as [Hs|Hn].
  - apply (nd_anc sel l q x); auto. apply under_prefix. exists [b]. split; [discriminate|exact Hb].
  - apply andb_true_iff in Hn. destruct Hn as [_ Hn]. apply existsb_exists in Hn.
    destruct Hn as (t & Ht & Hn). apply andb_true_iff in Hn. destruct Hn as [Hst Hu].
    apply (nd_anc sel l q t); auto. apply under_prefix. apply under_prefix in Hu.
    destruct Hu as (y & Hy & Ey). exists ([b] ++ y). split; [discriminate|].
    rewrite Ey. unfold cp in Hb. rewrite Hb, <- app_assoc. reflexivity.
Qed.

(* ---- hard links ---- *)
Lemma hl_filter (f : stat -> bool) (L : list stat) :
  (forall s, In s L -> f s = true -> hl_plain s = true -> has_link s = true ->
     forall t, In t L -> st_path t = st_linkname s -> f t = true) ->
  forall l seen seen' i j,
  (forall x, In x l -> In x L) ->
  (forall p, mem_bytes p seen = true -> (forall t, In t L -> st_path t = p -> f t = true) -> mem_bytes p seen' = true) ->
  hl_run seen l i = None -> hl_run seen' (filter f l) j = None.
Proof.
  intros Hlc. induction l as [|s r IH]; intros seen seen' i j Hsub HR H; [reflexivity|].
  cbn [hl_run] in H. destruct (hl_step seen s) as [seen1|] eqn:E; [|discriminate].
  assert (Hsub' : forall x, In x r -> In x L) by (intros; apply Hsub; right; auto).
  cbn [filter]. destruct (f s) eqn:Ef.
  - cbn [hl_run]. unfold hl_step in *. destruct (negb (hl_plain s)) eqn:Ep.
    + inversion E; subst seen1. apply (IH seen seen' (S i) (S j)); auto.
    + apply negb_false_iff in Ep. destruct (has_link s) eqn:El.
      * destruct (mem_bytes (st_linkname s) seen) eqn:Em; [|discriminate]. inversion E; subst seen1.
        rewrite (HR _ Em).
        -- apply (IH seen seen' (S i) (S j)); auto.
        -- intros t Ht Et. apply (Hlc s); auto. apply Hsub. left. reflexivity.
      * inversion E; subst seen1. apply (IH (st_path s :: seen) (st_path s :: seen') (S i) (S j)); auto.
        intros p Hp Hall. cbn [mem_bytes] in *. apply orb_true_iff in Hp. apply orb_true_iff.
        destruct Hp as [Hp|Hp]; [left; exact Hp|right; apply HR; auto].
  - apply (IH seen1 seen' (S i) j); auto.
    intros p Hp Hall. unfold hl_step in E. destruct (negb (hl_plain s)).
    + inversion E; subst seen1. apply HR; auto.
    + destruct (has_link s).
      * destruct (mem_bytes (st_linkname s) seen); [|discriminate]. inversion E; subst seen1. apply HR; auto.
      * inversion E; subst seen1. cbn [mem_bytes] in Hp. apply orb_true_iff in Hp. destruct Hp as [Hp|Hp]; [|apply HR; auto].
        exfalso. apply bytes_eqb_eq in Hp. subst p.
        rewrite (Hall s (Hsub s (or_introl eq_refl)) eq_refl) in Ef. discriminate.
Qed.

Lemma needed_plain l s : hl_plain s = true -> needed sel l s = sel s.
Proof.
  unfold hl_plain, needed, st_is_dir. intros H. apply andb_true_iff in H. destruct H as [H _].
  apply negb_true_iff in H. rewrite H. cbn [andb]. apply orb_false_r.
Qed.

Lemma hl_needed l : hardlink_check l = None -> link_closed sel l = true ->
  hardlink_check (filter (needed sel l) l) = None.
Proof.
  intros H Hlc. unfold hardlink_check in *. apply (hl_filter (needed sel l) l) with (seen := []) (i := 0); auto;
    try (intros p Hp; cbn in Hp; discriminate).
  intros s Hs Hf Hp Hl t Ht Et. unfold link_closed in Hlc. rewrite forallb_forall in Hlc.
    specialize (Hlc s Hs). rewrite (needed_plain l s Hp) in Hf. rewrite Hf, Hp, Hl in Hlc. cbn in Hlc.
    rewrite forallb_forall in Hlc. specialize (Hlc t Ht).
    assert (Eb : bytes_eqb (st_path t) (st_linkname s) = true) by (apply bytes_eqb_eq; exact Et).
    rewrite Eb in Hlc. cbn in Hlc. unfold needed. rewrite Hlc. reflexivity.
Qed.

Theorem forwarded_valid_proof stats :
  valid_stream (recv_stream stats) -> hardlink_check (recv_stream stats) = None ->
  link_closed sel (recv_stream stats) = true ->
  valid_stream (r_forwarded (meta_recv sel stats)) /\ hardlink_check (r_forwarded (meta_recv sel stats)) = None.
Proof.
  intros Hv Hh Hlc. rewrite (forwarded_exact_proof sel stats Hv). split.
  - apply valid_filter; [exact Hv|]. intros x q Hx Hn Hq. apply (needed_parent_closed _ Hv x q); auto.
  - apply hl_needed; auto.
Qed.
End Part4.

(* ---- the skipped listing-name entry: when nothing depends on it, what the receiver's
        validator sees is accepted whenever the announced sequence is ---- *)
Lemma recv_valid_of_valid_proof stats :
  valid_stream stats ->
  (forall t, In t stats -> under listing_name (st_path t) = false) ->
  valid_stream (recv_stream stats).
Proof.
  intros Hv Hdep. unfold recv_stream. apply valid_filter; [exact Hv|].
  intros x q Hx Hfx Hq E Hd. apply negb_true_iff. destruct (is_listing q) eqn:El; [|reflexivity]. exfalso.
  unfold is_listing in El. apply bytes_eqb_eq in El.
  destruct (under_parent q x (valid_okc _ Hv q Hq) (valid_okc _ Hv x Hx) E) as [b Hb].
  assert (Hu : under listing_name (st_path x) = true).
  { apply under_prefix. exists [b]. split; [discriminate|]. rewrite <- El. exact Hb. }
  rewrite (Hdep x Hx) in Hu. discriminate.
Qed.

Lemma recv_stream_id stats : (forall s, In s stats -> st_path s <> listing_name) -> recv_stream stats = stats.
Proof.
  intros H. unfold recv_stream. apply filter_all. intros x Hx. apply negb_true_iff.
  unfold is_listing. apply bytes_eqb_neq. apply H. exact Hx.
Qed.

Theorem forwarded_exact_plain_proof sel stats :
  valid_stream stats -> (forall s, In s stats -> st_path s <> listing_name) ->
  r_forwarded (meta_recv sel stats) = filter (needed sel stats) stats.
Proof.
  intros Hv Hn. pose proof (forwarded_exact_proof sel stats) as H.
  rewrite (recv_stream_id stats Hn) in H. apply H. exact Hv.
Qed.

(* ================= Part 5: the stack, exactly ================= *)
Section Part5.
Variable sel : stat -> bool.

Record Inv2 (acc : list stat) (c : cpath) (stk : list stat) : Prop := {
  i2_pre : forall d, In d stk -> is_prefix (cp d) c;
  i2_nosel : forall d t, In d stk -> In t acc -> sel t = true -> ~ is_prefix (cp d) (cp t);
  i2_all : forall q, In q acc -> sel q = false -> st_is_dir q = true -> is_prefix (cp q) c ->
           (forall t, In t acc -> sel t = true -> ~ is_prefix (cp q) (cp t)) -> In q stk
}.

Definition next_stack (stk : list stat) (s : stat) : list stat :=
  let stk1 := mpop (dir (st_path s)) stk in
  if sel s then [] else if st_is_dir s then s :: stk1 else stk1.

Lemma next_stack_cases stk s :
  let stk1 := mpop (dir (st_path s)) stk in
  (next_stack stk s = [] /\ (sel s = true \/ stk1 = [])) \/ (next_stack stk s = stk1 /\ sel s = false /\ st_is_dir s = false)
  \/ (next_stack stk s = s :: stk1 /\ sel s = false /\ st_is_dir s = true).
Proof.
  unfold next_stack. cbv zeta. destruct (sel s); [left; auto|]. destruct (st_is_dir s); [right; right; auto|right; left; auto].
Qed.

Lemma inv_next acc c stk s : Inv sel acc c stk -> step_ok acc s -> Inv sel (acc ++ [s]) (cp s) (next_stack stk s).
Proof.
  intros HI Hs. apply (inv_step sel acc c stk s (next_stack stk s) HI Hs).
  destruct (next_stack_cases stk s) as [[-> _]|[(-> & H1 & H2)|(-> & H1 & H2)]]; auto.
Qed.

Lemma inv2_next acc c stk s :
  Inv sel acc c stk -> Inv2 acc c stk -> step_ok acc s -> Inv2 (acc ++ [s]) (cp s) (next_stack stk s).
Proof.
  intros HI H2 Hstep.
  destruct (step_facts sel acc c stk s HI Hstep) as (popped & Hsplit & S1 & Htop & S2).
  set (stk1 := mpop (dir (st_path s)) stk) in *.
  pose proof Hstep as (Hok & Hlt & Hpar).
  assert (Hin1 : forall d, In d stk1 -> In d stk) by (intros d Hd; rewrite Hsplit; apply in_or_app; right; exact Hd).
  assert (Hcs : lex c (cp s) <> Gt).
  { destruct (inv_c _ _ _ _ HI) as [->|(q0 & Hq0 & <-)]; [apply lex_nil_l|]. rewrite (Hlt q0 Hq0). discriminate. }
  unfold next_stack. fold stk1. destruct (sel s) eqn:Es.
  - (* selected: empty stack; nothing qualifies any more *)
    constructor; [intros d []|intros d t []|].
    intros q Hq Hsq Hdq Hpq Hno. exfalso. apply (Hno s); [apply in_or_app; right; left; reflexivity|exact Es|exact Hpq].
  - (* unselected *)
    assert (Hno1 : forall d t, In d stk1 -> In t (acc ++ [s]) -> sel t = true -> ~ is_prefix (cp d) (cp t)).
    { intros d t Hd Ht Hst. apply in_app_or in Ht. destruct Ht as [Ht|[<-|[]]]; [|congruence].
      apply (i2_nosel _ _ _ H2 d t (Hin1 d Hd) Ht Hst). }
    assert (Hall1 : forall q, In q acc -> sel q = false -> st_is_dir q = true -> is_prefix (cp q) (cp s) ->
              (forall t, In t (acc ++ [s]) -> sel t = true -> ~ is_prefix (cp q) (cp t)) -> In q stk1).
    { intros q Hq Hsq Hdq Hpq Hno.
      assert (Hqc : is_prefix (cp q) c).
      { apply (prefix_interval (cp q) c (cp s)); [exact Hpq|apply (inv_le _ _ _ _ HI); exact Hq|exact Hcs]. }
      assert (Hqs : In q stk).
      { apply (i2_all _ _ _ H2 q Hq Hsq Hdq Hqc). intros t Ht. apply Hno. apply in_or_app. left. exact Ht. }
      rewrite Hsplit in Hqs. apply in_app_or in Hqs. destruct Hqs as [Hqp|]; [|assumption].
      exfalso. exact (S2 q Hqp Hpq). }
    assert (Hpre1 : forall d, In d stk1 -> is_prefix (cp d) (cp s)).
    { intros d Hd. destruct (S1 d Hd) as (y & _ & E). exists y. exact E. }
    destruct (st_is_dir s) eqn:Ed.
    + constructor.
      * intros d [<-|Hd]; [apply prefix_refl|apply Hpre1; exact Hd].
      * intros d t [<-|Hd] Ht Hst; [|apply Hno1; auto].
        apply in_app_or in Ht. destruct Ht as [Ht|[<-|[]]]; [|congruence].
        intro Hp. apply prefix_le in Hp. apply Hp. rewrite lex_opp, (Hlt t Ht). reflexivity.
      * intros q Hq Hsq Hdq Hpq Hno. apply in_app_or in Hq. destruct Hq as [Hq|[<-|[]]]; [right|left; reflexivity].
        apply Hall1; auto.
    + constructor; [exact Hpre1|exact Hno1|].
      intros q Hq Hsq Hdq Hpq Hno. apply in_app_or in Hq. destruct Hq as [Hq|[<-|[]]]; [|congruence].
      apply Hall1; auto.
Qed.

Lemma inv2_init : Inv2 [] [] [].
Proof. constructor; [intros d []|intros d t []|intros q []]. Qed.

Lemma mstack_cons stk s l : is_listing s = false -> mstack sel stk (s :: l) = mstack sel (next_stack stk s) l.
Proof.
  intros H. cbn [mstack]. rewrite H. unfold next_stack. cbv zeta.
  destruct (sel s); [reflexivity|]. destruct (st_is_dir s); reflexivity.
Qed.

Lemma last_cons_default {A} (l : list A) : forall x d, last (x :: l) d = last l x.
Proof.
  induction l as [|y l IH]; intros x d; [reflexivity|].
  change (last (x :: y :: l) d) with (last (y :: l) d). rewrite (IH y d), (IH y x). reflexivity.
Qed.

Lemma mstack_inv l : forall acc c stk,
  cvalid acc l -> Inv sel acc c stk -> Inv2 acc c stk -> (forall x, In x l -> is_listing x = false) ->
  Inv sel (acc ++ l) (last (map cp l) c) (mstack sel stk l) /\ Inv2 (acc ++ l) (last (map cp l) c) (mstack sel stk l).
Proof.
  induction l as [|s r IH]; intros acc c stk Hv HI H2 Hnl.
  - cbn [map last mstack]. rewrite app_nil_r. auto.
  - destruct Hv as [Hstep Hv'].
    rewrite (mstack_cons stk s r (Hnl s (or_introl eq_refl))).
    cbn [map]. rewrite last_cons_default.
    replace (acc ++ s :: r) with ((acc ++ [s]) ++ r) by (rewrite <- app_assoc; reflexivity).
    apply IH; auto.
    + apply (inv_next acc c stk s); auto.
    + apply (inv2_next acc c stk s); auto.
    + intros x Hx. apply Hnl. right. exact Hx.
Qed.

(* after an accepted prefix pre ++ [cur] of the stream the pending stack is a parent chain and
   holds exactly the unselected directories of the prefix that are ancestors-or-self of the
   current entry and have no selected entry at or below them so far (= not yet forwarded) *)
Theorem stack_exact_proof pre cur :
  valid_stream (pre ++ [cur]) -> (forall x, In x (pre ++ [cur]) -> is_listing x = false) ->
  chain_ok (mstack sel [] (pre ++ [cur])) /\
  forall d, In d (mstack sel [] (pre ++ [cur])) <->
    (In d (pre ++ [cur]) /\ sel d = false /\ st_is_dir d = true /\ is_prefix (cp d) (cp cur)
     /\ forall t, In t (pre ++ [cur]) -> sel t = true -> ~ is_prefix (cp d) (cp t)).
Proof.
  intros Hv Hnl.
  destruct (mstack_inv (pre ++ [cur]) [] [] [] (valid_stream_cvalid _ Hv) (inv_init sel) inv2_init Hnl) as [HI H2].
  cbn [app] in HI, H2. rewrite map_app in HI, H2. cbn [map] in HI, H2. rewrite last_last in HI, H2.
  split; [apply (inv_chain _ _ _ _ HI)|].
  intros d. split.
  - intros Hd. destruct (inv_mem _ _ _ _ HI d Hd) as (H1 & H3 & H4).
    repeat split; auto; [apply (i2_pre _ _ _ H2 d Hd)|].
    intros t Ht Hst. apply (i2_nosel _ _ _ H2 d t Hd Ht Hst).
  - intros (H1 & H3 & H4 & H5 & H6). apply (i2_all _ _ _ H2 d); auto.
Qed.
End Part5.
