(* Third part of the content invariants: files whose content is not needed are never
   served, so nothing is ever written for them. *)
From Coq Require Import List Arith Bool PeanoNat Lia ZifyBool Permutation.
From FS Require Import Model.Lts Model.LtsExplore Proofs.LtsInv Proofs.LtsSafe Proofs.LtsTerm Proofs.LtsC08 Proofs.LtsTok Proofs.LtsContent Proofs.LtsContent2.
Import ListNotations.

(* every REQ in flight names an entry whose content is needed *)
Definition req_ok (p : params) (pk : packet) : bool :=
  match pk with PReq x => match kind_of p x with ENeed => true | _ => false end | _ => true end.
Definition invR (p : params) (st : state) : Prop := forallb (req_ok p) (buf_rs st) = true.

Lemma forallb_snoc : forall A (f : A -> bool) l x, forallb f (l ++ [x]) = forallb f l && f x.
Proof. intros. rewrite forallb_app. unfold forallb at 2. rewrite andb_true_r. reflexivity. Qed.

Lemma invR_step : forall p st l st', inv7a p st -> invR p st -> step p st l = Some st' -> invR p st'.
Proof.
  intros p st l st' I7 I H. unfold invR in *.
  destruct l; unfold_steps H; step_split H; inv_some; subst;
  repeat match goal with w : writer |- _ => destruct w; cbn in * end; subst; cbn;
  repeat match goal with E : buf_rs _ = _ |- _ => rewrite E in * end;
  rewrite ?forallb_snoc; cbn in *; rewrite ?I; auto;
  try (apply andb_prop in I; destruct I; assumption).
  match goal with E : nth_error (wrs st) _ = Some _ |- _ => pose proof (I7 _ _ E) as K; cbn in K; rewrite K end.
  reflexivity.
Qed.

Lemma invR_reachable : forall p st, reachable p st -> invR p st.
Proof.
  induction 1.
  - reflexivity.
  - eapply invR_step; eauto. apply (inv7_reachable _ _ H).
Qed.

Record ninv (id : nat) (st : state) : Prop := {
  n_w : Wc id st + Fc id st = 0;
  n_t : rq_h id (rq_pc st) + cnt id (pipe st) + heldc id st + donec id st = 0
}.

Ltac ninv_prep p id :=
  constructor;
  unfold Wc, Fc, early, heldc, donec, setw, setwr, s_fail, r_fail, d_fail, eg_fail, rl_fail, dl_fail, wr_fail; cbn;
  repeat match goal with E : ?f ?s = ?v |- _ => match type of s with state => rewrite E in * end end; cbn in *;
  try match goal with E : nth_error (wks ?s) ?j = Some ?w |- _ =>
        let Y := fresh "Y" in pose proof (sumf_ge_nth _ (held id) _ _ _ E) as Y; cbn [held] in Y end;
  try match goal with E : nth_error ?l ?j = Some ?w |- context [set_nth ?j ?x ?l] =>
        let X1 := fresh "X" in pose proof (sumf_set_nth _ (held id) l j w x E) as X1; cbn [held] in X1 end;
  rewrite ?cnt_cons, ?cnt_app, ?cntE_cons, ?cntE_app, ?cntD_cons, ?cntD_app in *; cbn [is_dend is_data b2n] in *.

Ltac ninv_fin id :=
  try lia;
  try (split_eqb id; cbn [b2n] in *; lia).

Lemma ninv_step : forall p id st l st',
  kind_of p id <> ENeed -> invR p st -> ninv id st -> step p st l = Some st' -> ninv id st'.
Proof.
  intros p id st l st' K IR [Nw Nt] H. unfold invR in IR.
  unfold Wc, Fc, heldc, donec in *.
  destruct l; unfold_steps H; step_split H; inv_some; subst;
  repeat match goal with w : writer |- _ => destruct w; cbn in * end; subst;
  [> ninv_prep p id ..]; ninv_fin id.
  destruct (Nat.eqb_spec id id0).
  - exfalso. subst id0.
    change (forallb (req_ok p) (PReq id :: l)) with (req_ok p (PReq id) && forallb (req_ok p) l) in IR.
    apply andb_prop in IR. destruct IR as [IR _]. unfold req_ok in IR.
    destruct (kind_of p id); try discriminate IR. apply K. reflexivity.
  - cbn [b2n]. lia.
Qed.

Lemma ninv_init : forall p id, ninv id (init p).
Proof.
  intros p id. constructor; unfold Wc, Fc, heldc, donec; cbn; rewrite ?sumf_repeat_idle; reflexivity.
Qed.

Lemma ninv_reachable : forall p id st, kind_of p id <> ENeed -> reachable p st -> ninv id st.
Proof.
  intros p id st K. induction 1.
  - apply ninv_init.
  - eapply ninv_step; eauto. eapply invR_reachable; eauto.
Qed.

(* the number of chunks written for each id when Receive has returned nil (no Open error):
   all of its chunks if its content is needed, none otherwise *)
Definition expected_chunks (p : params) (id : nat) : nat :=
  match kind_of p id with ENeed => chunks_of p id | _ => 0 end.

Lemma success_written_proof : forall p st, reachable p st ->
  recv_ret st = Some true -> g_open_err st = false ->
  forall id, cnt id (written st) = expected_chunks p id.
Proof.
  intros p st R Ok Oe id. unfold expected_chunks.
  destruct (kind_of p id) eqn:K.
  - assert (N: kind_of p id <> ENeed) by congruence.
    destruct (ninv_reachable p id st N R) as [Nw _]. unfold Wc in Nw. lia.
  - assert (N: kind_of p id <> ENeed) by congruence.
    destruct (ninv_reachable p id st N R) as [Nw _]. unfold Wc in Nw. lia.
  - apply success_content_proof; auto. apply need_ids_spec. exact K.
Qed.

Lemma cnt_count_occ : forall id l, cnt id l = count_occ Nat.eq_dec l id.
Proof.
  intros. unfold cnt. induction l; cbn; auto.
  destruct (Nat.eq_dec a id); destruct (Nat.eqb_spec id a); subst; try congruence; cbn; auto.
Qed.

(* outcome_deterministic for executions that end with Receive returning nil and without an
   injected Open error: request sequence, completion sequence (up to order) and the number of
   chunks written per file are determined by the parameters *)
Lemma outcome_deterministic_success_proof : forall p st1 st2,
  reachable p st1 -> reachable p st2 ->
  recv_ret st1 = Some true -> recv_ret st2 = Some true ->
  g_open_err st1 = false -> g_open_err st2 = false ->
  Permutation (completed st1) (completed st2) /\
  Permutation (reqs st1) (reqs st2) /\
  Permutation (written st1) (written st2).
Proof.
  intros p st1 st2 R1 R2 O1 O2 E1 E2. repeat split.
  - eapply perm_trans. eapply success_completed_permutation_proof; eauto.
    apply Permutation_sym. eapply success_completed_permutation_proof; eauto.
  - eapply perm_trans. eapply success_requests_permutation_proof; eauto.
    apply Permutation_sym. eapply success_requests_permutation_proof; eauto.
  - apply (Permutation_count_occ Nat.eq_dec). intro id. rewrite <- !cnt_count_occ.
    rewrite (success_written_proof p st1 R1 O1 E1 id), (success_written_proof p st2 R2 O2 E2 id). reflexivity.
Qed.

(* ---------- in terms of executions ---------- *)
Definition not_open_err (l : label) : bool := match l with LWorkerOpenErr _ => false | _ => true end.

Lemma open_err_step : forall p st l st', step p st l = Some st' -> not_open_err l = true ->
  g_open_err st' = g_open_err st.
Proof.
  intros p st l st' H N.
  destruct l; try discriminate N; unfold_steps H; step_split H; inv_some; subst;
  repeat match goal with w : writer |- _ => destruct w; cbn in * end; subst; reflexivity.
Qed.

Lemma open_err_run : forall p ls st st', run p st ls = Some st' -> forallb not_open_err ls = true ->
  g_open_err st' = g_open_err st.
Proof.
  induction ls; intros st st' H F; cbn in H.
  - injection H as H. subst. reflexivity.
  - destruct (step p st a) as [s1|] eqn:E; try discriminate.
    change (forallb not_open_err (a :: ls)) with (not_open_err a && forallb not_open_err ls) in F.
    apply andb_prop in F. destruct F as [F1 F2].
    rewrite (IHls _ _ H F2). eapply open_err_step; eauto.
Qed.

Lemma outcome_deterministic_runs_proof : forall p ls1 ls2 st1 st2,
  forallb not_open_err ls1 = true -> forallb not_open_err ls2 = true ->
  run p (init p) ls1 = Some st1 -> run p (init p) ls2 = Some st2 ->
  recv_ret st1 = Some true -> recv_ret st2 = Some true ->
  Permutation (completed st1) (completed st2) /\
  Permutation (reqs st1) (reqs st2) /\
  Permutation (written st1) (written st2).
Proof.
  intros p ls1 ls2 st1 st2 F1 F2 R1 R2 O1 O2.
  apply (outcome_deterministic_success_proof p); auto.
  - eapply run_reachable; eauto. constructor.
  - eapply run_reachable; eauto. constructor.
  - rewrite (open_err_run _ _ _ _ R1 F1). reflexivity.
  - rewrite (open_err_run _ _ _ _ R2 F2). reflexivity.
Qed.

Lemma success_written_count_occ_proof : forall p st, reachable p st ->
  recv_ret st = Some true -> g_open_err st = false ->
  forall id, count_occ Nat.eq_dec (written st) id = expected_chunks p id.
Proof. intros p st R O E id. rewrite <- cnt_count_occ. exact (success_written_proof p st R O E id). Qed.
