(* C03 — containment for metadata transfers (ReceiveOpt.MetadataOnly, Model/RecvMeta.v):
   the epilogue that writes dest/.fsutil-metadata, and the branch of the receive loop that
   decides which entries reach the walker. *)
From Coq Require Import List Arith NArith Bool Lia ZifyN ZifyNat ZifyBool.
From FS Require Model.MetaOnly Model.Listing.
From FS Require Import Sx Model.Path Model.Stat Model.Validator Model.Fs Model.DiskWriterFs Model.RecvMeta.
From FS Require Import Proofs.Lex Proofs.PathP Proofs.ValidatorP Proofs.FsP Proofs.FsReachP Proofs.FsFrameP
     Proofs.FsSysP Proofs.FsTreeP Proofs.DwP Proofs.RecvP Proofs.FsWfP Proofs.OldListP Proofs.RecvOldP.
Import ListNotations.
Open Scope N_scope.
Open Scope bool_scope.

(* ================= the epilogue ================= *)
Lemma listing_relpath : relpath listing_name [listing_name].
Proof.
  unfold relpath. split; [discriminate|]. split; [reflexivity|]. split; [reflexivity|].
  split; [vm_compute; reflexivity|]. split; [discriminate|].
  constructor; [|constructor]. apply okname_b_ok. vm_compute. reflexivity.
Qed.

Section Epilogue.
Variables (D root : N).
Let c : ctx := {| c_root := root; c_cwd := D |}.
Notation step := (step D).
Notation wf := (wf D).

(* a single name below the destination directory *)
Lemma rfuel_S : exists k, rfuel = S k.
Proof. exists (pred rfuel). reflexivity. Qed.

Lemma walk_one fuel f n follow : normal n -> is_dir f D = true ->
  match blookup n (ents f D) with
  | None => walk (S fuel) f root D [n] follow 0 = inl {| l_dir := D; l_name := n; l_ino := None |}
  | Some i => (is_link f i = false \/ follow = false) ->
              walk (S fuel) f root D [n] follow 0 = inl {| l_dir := D; l_name := n; l_ino := Some i |}
  end.
Proof.
  intros Hnn HD. destruct (normal_not_dot n Hnn) as [E1 E2].
  unfold ents. unfold is_dir in HD. cbn [walk].
  destruct (dir_of f D) as [[par es]|]; [|discriminate].
  rewrite E1, E2. destruct (blookup n es) as [i|]; [|reflexivity].
  intros H. unfold is_link in H. destruct (get f i) as [[kd m]|]; [|reflexivity].
  destruct kd; try reflexivity. cbn [is_nil andb].
  destruct H as [H|H]; [discriminate|]. rewrite H. reflexivity.
Qed.

Lemma resolve_one f p n follow : relpath p [n] -> has_nul p = false -> is_dir f D = true ->
  match blookup n (ents f D) with
  | None => resolve c f p follow = inl {| l_dir := D; l_name := n; l_ino := None |}
  | Some i => (is_link f i = false \/ follow = false) ->
              resolve c f p follow = inl {| l_dir := D; l_name := n; l_ino := Some i |}
  end.
Proof.
  intros (Hp & Habs & Hsep & Hpcs & Hne & Hok) Hnul HD.
  apply okname_forall in Hok. destruct Hok as [Hn _].
  assert (Hnn : normal n) by (inversion Hn; auto).
  destruct rfuel_S as [k Hk].
  pose proof (walk_one k f n follow Hnn HD) as Hw.
  unfold resolve. destruct p as [|a p']; [congruence|].
  rewrite Hnul, Hsep, Habs, Hpcs, orb_false_r, Hk. cbn [c c_cwd c_root].
  destruct (blookup n (ents f D)) as [i|].
  - intros H. rewrite (Hw H). reflexivity.
  - rewrite Hw. reflexivity.
Qed.

Lemma listing_nul : has_nul listing_name = false.
Proof. vm_compute. reflexivity. Qed.

Lemma safe_absent f n : blookup n (ents f D) = None -> safe f D [n].
Proof. intros H. apply safe_unfold. rewrite H. exact I. Qed.

Lemma rwalk_nil f : rwalk f D [] = Some D.
Proof. reflexivity. Qed.

(* os.Remove of the name: afterwards nothing is under it, or a directory that was there is still there *)
Lemma os_remove_step_gen b f p n : relpath p [n] -> has_nul p = false -> wf f -> b <= f_next f ->
  let f1 := os_remove c f p in
  step TAll b f f1 /\
  (blookup n (ents f1 D) = None \/
   (f1 = f /\ exists i, blookup n (ents f D) = Some i /\ is_dir f i = true)).
Proof.
  intros listing_relpath listing_nul W Hb. cbv zeta. unfold os_remove.
  assert (HT : forall dd, rwalk f D [] = Some dd -> is_dir f dd = true -> TAll dd n) by (intros; exact I).
  destruct (sys_unlink_step D TAll b c f p [] n W Hb eq_refl listing_relpath I HT) as [S1 A1].
  destruct (sys_rmdir_step D TAll b c f p [] n W Hb eq_refl listing_relpath I HT) as [S2 A2].
  pose proof (resolve_one f p n false listing_relpath listing_nul (wf_dir D f W)) as Hr.
  destruct (sys_unlink c f p) as [g r] eqn:Eu. cbn [fst snd] in *.
  destruct r as [|e| | | |].
  - split; [exact S1|]. left. apply (A1 eq_refl D (rwalk_nil f)).
  - (* unlink refused *)
    destruct (blookup n (ents f D)) as [i|] eqn:Eb.
    + specialize (Hr (or_intror eq_refl)).
      unfold sys_unlink in Eu. rewrite Hr in Eu. cbn [l_ino l_dir l_name] in Eu.
      destruct (is_dir f i) eqn:Edi; [|inversion Eu].
      destruct (sys_rmdir c f p) as [g2 r2] eqn:Er. cbn [fst snd] in *.
      split; [exact S2|].
      destruct (rerr r2) eqn:E2.
      * right. unfold sys_rmdir in Er. rewrite Hr in Er. cbn [l_ino l_dir l_name] in Er.
        destruct (dir_of f i) as [[pp es]|]; [|inversion Er; subst; split; [reflexivity|exists i; auto]].
        destruct (is_nil n); [inversion Er; subst; split; [reflexivity|exists i; auto]|].
        destruct (is_nil es); [inversion Er; subst; discriminate|].
        inversion Er; subst. split; [reflexivity|exists i; auto].
      * left. apply (A2 eq_refl D (rwalk_nil f)).
    + (* nothing there *)
      destruct (sys_rmdir c f p) as [g2 r2] eqn:Er. cbn [fst snd] in *.
      split; [exact S2|]. left.
      unfold sys_rmdir in Er. rewrite Hr in Er. cbn [l_ino] in Er. inversion Er; subst. exact Eb.
  - exfalso. unfold sys_unlink in Eu. destruct (resolve c f p false) as [lr|]; [|inversion Eu].
    destruct (l_ino lr) as [j|]; [|inversion Eu]. destruct (is_dir f j); inversion Eu.
  - exfalso. unfold sys_unlink in Eu. destruct (resolve c f p false) as [lr|]; [|inversion Eu].
    destruct (l_ino lr) as [j|]; [|inversion Eu]. destruct (is_dir f j); inversion Eu.
  - exfalso. unfold sys_unlink in Eu. destruct (resolve c f p false) as [lr|]; [|inversion Eu].
    destruct (l_ino lr) as [j|]; [|inversion Eu]. destruct (is_dir f j); inversion Eu.
  - exfalso. unfold sys_unlink in Eu. destruct (resolve c f p false) as [lr|]; [|inversion Eu].
    destruct (l_ino lr) as [j|]; [|inversion Eu]. destruct (is_dir f j); inversion Eu.
Qed.

Lemma os_remove_step b f : wf f -> b <= f_next f ->
  let f1 := os_remove c f listing_name in
  step TAll b f f1 /\
  (blookup listing_name (ents f1 D) = None \/
   (f1 = f /\ exists i, blookup listing_name (ents f D) = Some i /\ is_dir f i = true)).
Proof. apply os_remove_step_gen; [exact listing_relpath|exact listing_nul]. Qed.

End Epilogue.
