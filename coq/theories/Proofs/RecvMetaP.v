(* C03 — containment for metadata transfers (ReceiveOpt.MetadataOnly, Model/RecvMeta.v):
   the epilogue that writes dest/.fsutil-metadata, and the branch of the receive loop that
   decides which entries reach the walker. *)
From Coq Require Import List Arith NArith Bool Lia ZifyN ZifyNat ZifyBool.
From FS Require Model.MetaOnly Model.Listing.
From FS Require Import Sx Model.Path Model.Stat Model.Validator Model.Fs Model.DiskWriterFs Model.RecvMeta.
From FS Require Import Proofs.Lex Proofs.PathP Proofs.ValidatorP Proofs.FsP Proofs.FsReachP Proofs.FsFrameP
     Proofs.FsSysP Proofs.FsTreeP Proofs.DwP Proofs.RecvP Proofs.FsWfP Proofs.OldListP Proofs.RecvOldP.
Import ListNotations.
Open Scope N_scope.
Open Scope bool_scope.

(* ================= the epilogue ================= *)
Lemma listing_relpath : relpath listing_name [listing_name].
Proof.
  unfold relpath. split; [discriminate|]. split; [reflexivity|]. split; [reflexivity|].
  split; [vm_compute; reflexivity|]. split; [discriminate|].
  constructor; [|constructor]. apply okname_b_ok. vm_compute. reflexivity.
Qed.

Section Epilogue.
Variables (D root : N).
Let c : ctx := {| c_root := root; c_cwd := D |}.
Notation step := (step D).
Notation wf := (wf D).

(* a single name below the destination directory *)
Lemma rfuel_S : exists k, rfuel = S k.
Proof. exists (pred rfuel). reflexivity. Qed.

Lemma walk_one fuel f n follow : normal n -> is_dir f D = true ->
  match blookup n (ents f D) with
  | None => walk (S fuel) f root D [n] follow 0 = inl {| l_dir := D; l_name := n; l_ino := None |}
  | Some i => (is_link f i = false \/ follow = false) ->
              walk (S fuel) f root D [n] follow 0 = inl {| l_dir := D; l_name := n; l_ino := Some i |}
  end.
Proof.
  intros Hnn HD. destruct (normal_not_dot n Hnn) as [E1 E2].
  unfold ents. unfold is_dir in HD. cbn [walk].
  destruct (dir_of f D) as [[par es]|]; [|discriminate].
  rewrite E1, E2. destruct (blookup n es) as [i|]; [|reflexivity].
  intros H. unfold is_link in H. destruct (get f i) as [[kd m]|]; [|reflexivity].
  destruct kd; try reflexivity. cbn [is_nil andb].
  destruct H as [H|H]; [discriminate|]. rewrite H. reflexivity.
Qed.

Lemma resolve_one f p n follow : relpath p [n] -> has_nul p = false -> is_dir f D = true ->
  match blookup n (ents f D) with
  | None => resolve c f p follow = inl {| l_dir := D; l_name := n; l_ino := None |}
  | Some i => (is_link f i = false \/ follow = false) ->
              resolve c f p follow = inl {| l_dir := D; l_name := n; l_ino := Some i |}
  end.
Proof.
  intros (Hp & Habs & Hsep & Hpcs & Hne & Hok) Hnul HD.
  apply okname_forall in Hok. destruct Hok as [Hn _].
  assert (Hnn : normal n) by (inversion Hn; auto).
  destruct rfuel_S as [k Hk].
  pose proof (walk_one k f n follow Hnn HD) as Hw.
  unfold resolve. destruct p as [|a p']; [congruence|].
  rewrite Hnul, Hsep, Habs, Hpcs, orb_false_r, Hk. cbn [c c_cwd c_root].
  destruct (blookup n (ents f D)) as [i|].
  - intros H. rewrite (Hw H). reflexivity.
  - rewrite Hw. reflexivity.
Qed.

End Epilogue.
