(* C03 — containment for metadata transfers (ReceiveOpt.MetadataOnly, Model/RecvMeta.v):
   the epilogue that writes dest/.fsutil-metadata, and the branch of the receive loop that
   decides which entries reach the walker. *)
From Coq Require Import List Arith NArith Bool Lia ZifyN ZifyNat ZifyBool.
From FS Require Model.MetaOnly Model.Listing Proofs.MetaOnlyP.
From FS Require Import Sx Model.Path Model.Stat Model.Validator Model.Fs Model.DiskWriterFs Model.RecvMeta.
From FS Require Import Proofs.Lex Proofs.PathP Proofs.ValidatorP Proofs.FsP Proofs.FsReachP Proofs.FsFrameP
     Proofs.FsSysP Proofs.FsTreeP Proofs.DwP Proofs.RecvP Proofs.FsWfP Proofs.OldListP Proofs.RecvOldP.
Import ListNotations.
Open Scope N_scope.
Open Scope bool_scope.

(* ================= the epilogue ================= *)
Lemma listing_relpath : relpath listing_name [listing_name].
Proof.
  unfold relpath. split; [discriminate|]. split; [reflexivity|]. split; [reflexivity|].
  split; [vm_compute; reflexivity|]. split; [discriminate|].
  constructor; [|constructor]. apply okname_b_ok. vm_compute. reflexivity.
Qed.

Section Epilogue.
Variables (D root : N).
Let c : ctx := {| c_root := root; c_cwd := D |}.
Notation step := (step D).
Notation wf := (wf D).

(* a single name below the destination directory *)
Lemma rfuel_S : exists k, rfuel = S k.
Proof. exists (pred rfuel). reflexivity. Qed.

Lemma walk_one fuel f n follow : normal n -> is_dir f D = true ->
  match blookup n (ents f D) with
  | None => walk (S fuel) f root D [n] follow 0 = inl {| l_dir := D; l_name := n; l_ino := None |}
  | Some i => (is_link f i = false \/ follow = false) ->
              walk (S fuel) f root D [n] follow 0 = inl {| l_dir := D; l_name := n; l_ino := Some i |}
  end.
Proof.
  intros Hnn HD. destruct (normal_not_dot n Hnn) as [E1 E2].
  unfold ents. unfold is_dir in HD. cbn [walk].
  destruct (dir_of f D) as [[par es]|]; [|discriminate].
  rewrite E1, E2. destruct (blookup n es) as [i|]; [|reflexivity].
  intros H. unfold is_link in H. destruct (get f i) as [[kd m]|]; [|reflexivity].
  destruct kd; try reflexivity. cbn [is_nil andb].
  destruct H as [H|H]; [discriminate|]. rewrite H. reflexivity.
Qed.

Lemma resolve_one f p n follow : relpath p [n] -> has_nul p = false -> is_dir f D = true ->
  match blookup n (ents f D) with
  | None => resolve c f p follow = inl {| l_dir := D; l_name := n; l_ino := None |}
  | Some i => (is_link f i = false \/ follow = false) ->
              resolve c f p follow = inl {| l_dir := D; l_name := n; l_ino := Some i |}
  end.
Proof.
  intros (Hp & Habs & Hsep & Hpcs & Hne & Hok) Hnul HD.
  apply okname_forall in Hok. destruct Hok as [Hn _].
  assert (Hnn : normal n) by (inversion Hn; auto).
  destruct rfuel_S as [k Hk].
  pose proof (walk_one k f n follow Hnn HD) as Hw.
  unfold resolve. destruct p as [|a p']; [congruence|].
  rewrite Hnul, Hsep, Habs, Hpcs, orb_false_r, Hk. cbn [c c_cwd c_root].
  destruct (blookup n (ents f D)) as [i|].
  - intros H. rewrite (Hw H). reflexivity.
  - rewrite Hw. reflexivity.
Qed.

Lemma listing_nul : has_nul listing_name = false.
Proof. vm_compute. reflexivity. Qed.

Lemma safe_absent f n : blookup n (ents f D) = None -> safe f D [n].
Proof. intros H. apply safe_unfold. rewrite H. exact I. Qed.

Lemma rwalk_nil f : rwalk f D [] = Some D.
Proof. reflexivity. Qed.

(* os.Remove of the name: afterwards nothing is under it, or a directory that was there is still there *)
Lemma os_remove_step_gen b f p n : relpath p [n] -> has_nul p = false -> wf f -> b <= f_next f ->
  let f1 := os_remove c f p in
  step TAll b f f1 /\
  (blookup n (ents f1 D) = None \/
   (f1 = f /\ exists i, blookup n (ents f D) = Some i /\ is_dir f i = true)).
Proof.
  intros listing_relpath listing_nul W Hb. cbv zeta. unfold os_remove.
  assert (HT : forall dd, rwalk f D [] = Some dd -> is_dir f dd = true -> TAll dd n) by (intros; exact I).
  destruct (sys_unlink_step D TAll b c f p [] n W Hb eq_refl listing_relpath I HT) as [S1 A1].
  destruct (sys_rmdir_step D TAll b c f p [] n W Hb eq_refl listing_relpath I HT) as [S2 A2].
  pose proof (resolve_one f p n false listing_relpath listing_nul (wf_dir D f W)) as Hr.
  destruct (sys_unlink c f p) as [g r] eqn:Eu. cbn [fst snd] in *.
  destruct r as [|e| | | |].
  - split; [exact S1|]. left. apply (A1 eq_refl D (rwalk_nil f)).
  - (* unlink refused *)
    destruct (blookup n (ents f D)) as [i|] eqn:Eb.
    + specialize (Hr (or_intror eq_refl)).
      unfold sys_unlink in Eu. rewrite Hr in Eu. cbn [l_ino l_dir l_name] in Eu.
      destruct (is_dir f i) eqn:Edi; [|inversion Eu].
      destruct (sys_rmdir c f p) as [g2 r2] eqn:Er. cbn [fst snd] in *.
      split; [exact S2|].
      destruct (rerr r2) eqn:E2.
      * right. unfold sys_rmdir in Er. rewrite Hr in Er. cbn [l_ino l_dir l_name] in Er.
        destruct (dir_of f i) as [[pp es]|]; [|inversion Er; subst; split; [reflexivity|exists i; auto]].
        destruct (is_nil n); [inversion Er; subst; split; [reflexivity|exists i; auto]|].
        destruct (is_nil es); [inversion Er; subst; discriminate|].
        inversion Er; subst. split; [reflexivity|exists i; auto].
      * left. apply (A2 eq_refl D (rwalk_nil f)).
    + (* nothing there *)
      destruct (sys_rmdir c f p) as [g2 r2] eqn:Er. cbn [fst snd] in *.
      split; [exact S2|]. left.
      unfold sys_rmdir in Er. rewrite Hr in Er. cbn [l_ino] in Er. inversion Er; subst. exact Eb.
  - exfalso. unfold sys_unlink in Eu. destruct (resolve c f p false) as [lr|]; [|inversion Eu].
    destruct (l_ino lr) as [j|]; [|inversion Eu]. destruct (is_dir f j); inversion Eu.
  - exfalso. unfold sys_unlink in Eu. destruct (resolve c f p false) as [lr|]; [|inversion Eu].
    destruct (l_ino lr) as [j|]; [|inversion Eu]. destruct (is_dir f j); inversion Eu.
  - exfalso. unfold sys_unlink in Eu. destruct (resolve c f p false) as [lr|]; [|inversion Eu].
    destruct (l_ino lr) as [j|]; [|inversion Eu]. destruct (is_dir f j); inversion Eu.
  - exfalso. unfold sys_unlink in Eu. destruct (resolve c f p false) as [lr|]; [|inversion Eu].
    destruct (l_ino lr) as [j|]; [|inversion Eu]. destruct (is_dir f j); inversion Eu.
Qed.

Lemma os_remove_step b f : wf f -> b <= f_next f ->
  let f1 := os_remove c f listing_name in
  step TAll b f f1 /\
  (blookup listing_name (ents f1 D) = None \/
   (f1 = f /\ exists i, blookup listing_name (ents f D) = Some i /\ is_dir f i = true)).
Proof. apply os_remove_step_gen; [exact listing_relpath|exact listing_nul]. Qed.

Lemma is_dir_not_link f i : is_dir f i = true -> is_link f i = false.
Proof.
  unfold is_dir, is_link, dir_of. destruct (get f i) as [[k m]|]; [|discriminate]. destruct k; try discriminate. reflexivity.
Qed.

(* open(O_WRONLY|O_CREAT|O_TRUNC) of the name and the write: a fresh file, or no change at all *)
Lemma open_write_step_gen b f p n content : relpath p [n] -> wf f -> b <= f_next f ->
  (blookup n (ents f D) = None \/ exists i, blookup n (ents f D) = Some i /\ is_dir f i = true) ->
  step TAll b f (match sys_open_trunc c f p 420 with
                 | (f2, RFd i) => fst (fd_pwrite f2 i 0 content)
                 | (f2, _) => f2
                 end).
Proof.
  intros Hrel W Hb Hcase.
  assert (HT : forall dd, rwalk f D [] = Some dd -> is_dir f dd = true -> TAll dd n) by (intros; exact I).
  assert (Hsafe : safe f D ([] ++ [n])).
  { cbn [app]. apply safe_unfold. destruct Hcase as [E|(i & E & Hd)]; rewrite E; [exact I|].
    split; [apply is_dir_not_link; exact Hd|exact I]. }
  destruct (sys_open_creat_step D TAll b c f p [] n W Hb eq_refl Hrel HT 420 Hsafe) as [S P].
  unfold sys_open_trunc. destruct (sys_open_wronly c f p true 420) as [f1 r] eqn:E. cbn [fst snd] in S, P.
  destruct r as [| | | | |i]; try exact S.
  destruct (P eq_refl) as (i' & Ei & [(Ef & dd & nd & Hw & Hbl & Hg & Ht)|(Hi & dd & m & Hw & Hd & Hb0 & Hb1 & Hg)]).
  - (* an existing file under the name: excluded *)
    exfalso. inversion Ei; subst i'. cbn [rwalk] in Hw. inversion Hw; subst dd.
    destruct Hcase as [E0|(i0 & E0 & Hd0)]; rewrite E0 in Hbl; [discriminate|]. inversion Hbl; subst i0.
    unfold is_dir, dir_of in Hd0. rewrite Hg in Hd0. destruct nd as [k m]. simpl in Ht. destruct k; simpl in Ht; try discriminate.
  - inversion Ei; subst i'. subst i.
    pose proof (st_wf _ _ _ _ _ S) as W1. pose proof (st_next _ _ _ _ _ S) as Hn1.
    assert (Hlt : f_next f < f_next f1).
    { destruct (N.lt_ge_cases (f_next f) (f_next f1)) as [H|H]; auto.
      rewrite (wf_alloc D f1 W1 (f_next f) H) in Hg. discriminate. }
    assert (HneD : f_next f <> D).
    { pose proof (reach_lt D f D W (reach_refl D f)). lia. }
    pose proof (fd_truncate_step D TAll b f1 (f_next f) W1 ltac:(lia) Hlt HneD Hb) as S2.
    pose proof (st_wf _ _ _ _ _ S2) as W2. pose proof (st_next _ _ _ _ _ S2) as Hn2.
    pose proof (fd_pwrite_step D TAll b (fd_truncate f1 (f_next f)) (f_next f) 0 content W2 ltac:(lia) ltac:(lia) HneD Hb) as S3.
    apply (step_trans D TAll b f f1 _ S). apply (step_trans D TAll b f1 _ _ S2 S3).
Qed.

Lemma spend_fs st st1 : spend st = Some st1 -> r_fs st1 = r_fs st.
Proof. unfold spend. destruct (r_budget st) as [[|k]|]; intros H; inversion H; reflexivity. Qed.

(* the epilogue of a metadata transfer changes one entry of the destination directory *)
Definition epilogue_at (p : bytes) (idx : nat) (content : bytes) (st : rstate) : rstate :=
  if recv_succeeds st then
    match spend st with
    | None => set_out st Halted
    | Some st1 =>
      let st2 := upd st1 (os_remove c (r_fs st1) p) in
      match spend st2 with
      | None => set_out st2 Halted
      | Some st3 =>
        match sys_open_trunc c (r_fs st3) p 420 with
        | (f2, RFd i) => upd st3 (fst (fd_pwrite f2 i 0 content))
        | (f2, _) => set_out (upd st3 f2) (Failed idx)
        end
      end
    end
  else st.

Lemma epilogue_at_step b p n idx content st : relpath p [n] -> has_nul p = false ->
  wf (r_fs st) -> b <= f_next (r_fs st) ->
  step TAll b (r_fs st) (r_fs (epilogue_at p idx content st)).
Proof.
  intros Hrel Hnul W Hb. unfold epilogue_at. destruct (recv_succeeds st); [|apply step_refl; auto].
  destruct (spend st) as [st1|] eqn:E1; [|apply step_refl; auto].
  pose proof (spend_fs st st1 E1) as Ef1.
  destruct (os_remove_step_gen b (r_fs st) p n Hrel Hnul W Hb) as [S1 Hcase]. rewrite <- Ef1 in S1, Hcase.
  set (f1 := os_remove c (r_fs st1) p) in *.
  set (st2 := upd st1 f1).
  destruct (spend st2) as [st3|] eqn:E3; [|simpl; rewrite <- Ef1; exact S1].
  pose proof (spend_fs st2 st3 E3) as Ef3. cbn [r_fs st2 upd] in Ef3.
  pose proof (st_wf _ _ _ _ _ S1) as W1. pose proof (st_next _ _ _ _ _ S1) as Hn1.
  assert (Hcase' : blookup n (ents f1 D) = None \/
                   exists i, blookup n (ents f1 D) = Some i /\ is_dir f1 i = true).
  { destruct Hcase as [H|(E & i & H1 & H2)]; [left; exact H|right]. rewrite E. exists i. auto. }
  assert (Hb1 : b <= f_next f1) by (rewrite Ef1 in Hn1; lia).
  pose proof (open_write_step_gen b f1 p n content Hrel W1 Hb1 Hcase') as S2.
  rewrite Ef3. apply (step_trans D TAll b (r_fs st) f1); [rewrite <- Ef1; exact S1|].
  destruct (sys_open_trunc c f1 p 420) as [f2 r]. destruct r; simpl; exact S2.
Qed.

Lemma epilogue_step b idx content st : wf (r_fs st) -> b <= f_next (r_fs st) ->
  step TAll b (r_fs st) (r_fs (epilogue c idx content st)).
Proof.
  intros W Hb. change (epilogue c idx content st) with (epilogue_at listing_name idx content st).
  apply (epilogue_at_step b listing_name listing_name idx content st listing_relpath listing_nul W Hb).
Qed.

End Epilogue.


(* ================= which entries reach the walker: the pending-parent stack ================= *)
(* Model/MetaOnly.v (C19) describes the same stack over the whole announced sequence;
   Proofs/MetaOnlyP.v has its invariant (each stack element the parent of the one above, closed
   upwards below the current position).  Added here: the entries handed to the walker so far
   ([fedS]) all sort before everything still pending, and every accepted directory above the
   current position has been handed over or is pending — so that the pending chain followed by
   the entry itself is a sequence the validators would accept after [fedS]. *)
Section Link.
Variable sel : stat -> bool.
Notation cp := MetaOnlyP.cp.
Notation step_ok := MetaOnlyP.step_ok.
Notation cvalid := MetaOnlyP.cvalid.
Notation chain_ok := MetaOnlyP.chain_ok.

Record Link (accA fedS P : list stat) (c : list bytes) : Prop := {
  lk_inv : MetaOnlyP.Inv sel accA c P;
  lk_sub : forall q, In q fedS -> In q accA;
  lk_lt : forall q x, In q fedS -> In x P -> lex (cp q) (cp x) = Lt;
  lk_anc : forall q, In q accA -> st_is_dir q = true -> is_prefix (cp q) c -> In q fedS \/ In q P;
  lk_par : forall x, In x accA ->
           removelast (cp x) = [] \/ exists q, In q accA /\ cp q = removelast (cp x) /\ st_is_dir q = true;
  lk_pre : forall x, In x P -> is_prefix (cp x) c
}.

Lemma link_init : Link [] [] [] [].
Proof.
  constructor.
  - apply MetaOnlyP.inv_init.
  - intros q [].
  - intros q x [].
  - intros q [].
  - intros x [].
  - intros x [].
Qed.

Lemma pos_le accA fedS P c s : Link accA fedS P c -> step_ok accA s -> lex c (cp s) <> Gt.
Proof.
  intros L (_ & Hlt & _). destruct (MetaOnlyP.inv_c _ _ _ _ (lk_inv _ _ _ _ L)) as [->|(q0 & Hq0 & <-)].
  - apply MetaOnlyP.lex_nil_l.
  - rewrite (Hlt q0 Hq0). discriminate.
Qed.

Lemma anc_prefix accA fedS P c s q : Link accA fedS P c -> step_ok accA s -> In q accA ->
  is_prefix (cp q) (cp s) -> is_prefix (cp q) c.
Proof.
  intros L Hs Hq Hp. apply (MetaOnlyP.prefix_interval (cp q) c (cp s) Hp).
  - apply (MetaOnlyP.inv_le _ _ _ _ (lk_inv _ _ _ _ L) q Hq).
  - apply (pos_le accA fedS P c s L Hs).
Qed.

Lemma prefix_removelast_lt (a b : list bytes) : b <> [] -> is_prefix a (removelast b) -> lex a b = Lt.
Proof.
  intros Hb Hp.
  assert (Hab : is_prefix a b) by (eapply prefix_trans; [exact Hp|apply MetaOnlyP.removelast_prefix]).
  pose proof (prefix_le a b Hab) as Hle.
  destruct (lex a b) eqn:E; [|reflexivity|congruence].
  exfalso. apply lex_eq in E. subst a. apply MetaOnlyP.prefix_len in Hp.
  pose proof (MetaOnlyP.removelast_len b Hb). lia.
Qed.

Lemma cvalid_app acc l1 : forall l2 acc', acc' = acc -> cvalid acc l1 -> cvalid (acc ++ l1) l2 -> cvalid acc' (l1 ++ l2).
Proof.
  revert acc. induction l1 as [|x l1 IH]; intros acc l2 acc' -> H1 H2.
  - rewrite app_nil_r in H2. exact H2.
  - cbn [app MetaOnlyP.cvalid] in *. destruct H1 as [Hx H1]. split; [exact Hx|].
    apply (IH (acc ++ [x]) l2 _ eq_refl H1). rewrite <- app_assoc. exact H2.
Qed.

(* a pending chain, bottom first, is acceptable after [base] *)
Lemma cvalid_rev_chain base : forall stk,
  chain_ok stk -> (forall x, In x stk -> PathP.okc (cp x) /\ st_is_dir x = true) ->
  (forall q x, In q base -> In x stk -> lex (cp q) (cp x) = Lt) ->
  (forall x pre, stk = pre ++ [x] ->
     removelast (cp x) = [] \/ exists q, In q base /\ cp q = removelast (cp x) /\ st_is_dir q = true) ->
  cvalid base (rev stk).
Proof.
  induction stk as [|x r IH]; intros Hch Hok Hlt Hbot; [exact I|].
  cbn [rev]. apply (cvalid_app base (rev r) [x] base eq_refl).
  - apply IH.
    + destruct Hch as [_ H]. exact H.
    + intros y Hy. apply Hok. right. exact Hy.
    + intros q y Hq Hy. apply Hlt; auto. right. exact Hy.
    + intros y pre E. apply (Hbot y (x :: pre)). rewrite E. reflexivity.
  - cbn [MetaOnlyP.cvalid]. split; [|exact I].
    destruct (Hok x (or_introl eq_refl)) as [Hokx _].
    split; [exact Hokx|]. split.
    + intros q Hq. apply in_app_or in Hq. destruct Hq as [Hq|Hq]; [apply Hlt; auto; left; reflexivity|].
      apply in_rev in Hq. apply prefix_removelast_lt; [apply MetaOnlyP.okc_nonempty; exact Hokx|].
      apply (MetaOnlyP.chain_below_prefix r x Hch q Hq).
    + destruct r as [|y r'].
      * destruct (Hbot x [] eq_refl) as [H|(q & Hq & E1 & E2)]; [left; exact H|right].
        exists q. split; [apply in_or_app; left; exact Hq|auto].
      * right. exists y. destruct Hch as [Hy _]. split; [apply in_or_app; right; apply in_rev; rewrite rev_involutive; left; reflexivity|].
        split; [exact Hy|]. apply (Hok y). right. left. reflexivity.
Qed.

Section Step.
Variables (accA fedS P : list stat) (c : list bytes) (s : stat).
Hypothesis L : Link accA fedS P c.
Hypothesis Hs : step_ok accA s.
Let stk1 := MetaOnly.mpop (dir (st_path s)) P.

Lemma lk_par_step : forall x, In x (accA ++ [s]) ->
  removelast (cp x) = [] \/ exists q, In q (accA ++ [s]) /\ cp q = removelast (cp x) /\ st_is_dir q = true.
Proof.
  intros x Hx. apply in_app_or in Hx. destruct Hx as [Hx|[<-|[]]].
  - destruct (lk_par _ _ _ _ L x Hx) as [H|(q & Hq & H)]; [left; exact H|right]. exists q. split; [apply in_or_app; left; exact Hq|exact H].
  - destruct Hs as (_ & _ & [H|(q & Hq & H)]); [left; exact H|right]. exists q. split; [apply in_or_app; left; exact Hq|exact H].
Qed.

(* an accepted directory above s that is still pending stays on the stack *)
Lemma pending_anc q : In q accA -> st_is_dir q = true -> is_prefix (cp q) (cp s) -> In q fedS \/ In q stk1.
Proof.
  intros Hq Hd Hp.
  destruct (MetaOnlyP.step_facts sel accA c P s (lk_inv _ _ _ _ L) Hs) as (popped & Hsplit & _ & _ & S2).
  destruct (lk_anc _ _ _ _ L q Hq Hd (anc_prefix accA fedS P c s q L Hs Hq Hp)) as [H|H]; [left; exact H|right].
  fold stk1 in Hsplit. rewrite Hsplit in H. apply in_app_or in H. destruct H as [H|H]; [|exact H].
  exfalso. exact (S2 q H Hp).
Qed.

Lemma link_meta : sel s = false -> Link (accA ++ [s]) fedS (if st_is_dir s then s :: stk1 else stk1) (cp s).
Proof.
  intros Hsel.
  destruct (MetaOnlyP.step_facts sel accA c P s (lk_inv _ _ _ _ L) Hs) as (popped & Hsplit & S1 & _ & S2).
  fold stk1 in Hsplit, S1.
  assert (Hin1 : forall x, In x stk1 -> In x P) by (intros x Hx; rewrite Hsplit; apply in_or_app; right; exact Hx).
  pose proof Hs as (Hok & Hlt & Hpar).
  constructor.
  - apply (MetaOnlyP.inv_step sel accA c P s _ (lk_inv _ _ _ _ L) Hs). fold stk1.
    destruct (st_is_dir s) eqn:Ed; [right; right; auto|right; left; auto].
  - intros q Hq. apply in_or_app. left. apply (lk_sub _ _ _ _ L q Hq).
  - intros q x Hq Hx.
    assert (Hx' : x = s \/ In x stk1) by (destruct (st_is_dir s); [destruct Hx as [<-|Hx]; auto|auto]).
    destruct Hx' as [->|Hx']; [apply Hlt; apply (lk_sub _ _ _ _ L q Hq)|apply (lk_lt _ _ _ _ L q x Hq (Hin1 x Hx'))].
  - intros q Hq Hd Hp. apply in_app_or in Hq. destruct Hq as [Hq|[<-|[]]].
    + destruct (pending_anc q Hq Hd Hp) as [H|H]; [left; exact H|right]. destruct (st_is_dir s); [right; exact H|exact H].
    + right. rewrite Hd. left. reflexivity.
  - exact lk_par_step.
  - intros x Hx.
    assert (Hx' : x = s \/ In x stk1) by (destruct (st_is_dir s); [destruct Hx as [<-|Hx]; auto|auto]).
    destruct Hx' as [->|Hx']; [apply MetaOnlyP.prefix_refl|]. destruct (S1 x Hx') as (y & _ & E). exists y. exact E.
Qed.

Lemma link_fwd :
  Link (accA ++ [s]) (fedS ++ rev stk1 ++ [s]) [] (cp s)
  /\ cvalid fedS (rev stk1 ++ [s])
  /\ (forall x, In x stk1 -> st_is_dir x = true /\ In x accA).
Proof.
  destruct (MetaOnlyP.step_facts sel accA c P s (lk_inv _ _ _ _ L) Hs) as (popped & Hsplit & S1 & Htop & S2).
  fold stk1 in Hsplit, S1, Htop.
  assert (Hin1 : forall x, In x stk1 -> In x P) by (intros x Hx; rewrite Hsplit; apply in_or_app; right; exact Hx).
  assert (Hmem : forall x, In x stk1 -> st_is_dir x = true /\ In x accA).
  { intros x Hx. destruct (MetaOnlyP.inv_mem _ _ _ _ (lk_inv _ _ _ _ L) x (Hin1 x Hx)) as (A & _ & B). auto. }
  pose proof Hs as (Hok & Hlt & Hpar).
  split; [|split; [|exact Hmem]].
  - constructor.
    + apply (MetaOnlyP.inv_step sel accA c P s _ (lk_inv _ _ _ _ L) Hs). left. reflexivity.
    + intros q Hq. apply in_or_app. apply in_app_or in Hq. destruct Hq as [Hq|Hq]; [left; apply (lk_sub _ _ _ _ L q Hq)|].
      apply in_app_or in Hq. destruct Hq as [Hq|[<-|[]]]; [left|right; left; reflexivity].
      apply in_rev in Hq. apply (Hmem q Hq).
    + intros q x _ [].
    + intros q Hq Hd Hp. left. apply in_app_or in Hq. destruct Hq as [Hq|[<-|[]]].
      * destruct (pending_anc q Hq Hd Hp) as [H|H]; apply in_or_app; [left; exact H|right].
        apply in_or_app. left. apply in_rev. rewrite rev_involutive. exact H.
      * apply in_or_app. right. apply in_or_app. right. left. reflexivity.
    + exact lk_par_step.
    + intros x [].
  - apply (cvalid_app fedS (rev stk1) [s] fedS eq_refl).
    + apply cvalid_rev_chain.
      * apply (MetaOnlyP.chain_app_r popped). rewrite <- Hsplit. apply (MetaOnlyP.inv_chain _ _ _ _ (lk_inv _ _ _ _ L)).
      * intros x Hx. destruct (Hmem x Hx) as [A B]. split; [apply (MetaOnlyP.inv_okc _ _ _ _ (lk_inv _ _ _ _ L) x B)|exact A].
      * intros q x Hq Hx. apply (lk_lt _ _ _ _ L q x Hq (Hin1 x Hx)).
      * (* the bottom of what is replayed is the bottom of the stack: its parent was handed over *)
        intros x pre E.
        assert (HxP : In x P) by (apply Hin1; rewrite E; apply in_or_app; right; left; reflexivity).
        destruct (MetaOnlyP.inv_mem _ _ _ _ (lk_inv _ _ _ _ L) x HxP) as (HxA & _ & _).
        destruct (lk_par _ _ _ _ L x HxA) as [H|(q & Hq & E1 & E2)]; [left; exact H|right].
        assert (Hokx : PathP.okc (cp x)) by (apply (MetaOnlyP.inv_okc _ _ _ _ (lk_inv _ _ _ _ L) x HxA)).
        assert (Hokq : PathP.okc (cp q)) by (apply (MetaOnlyP.inv_okc _ _ _ _ (lk_inv _ _ _ _ L) q Hq)).
        assert (Hqc : is_prefix (cp q) c).
        { eapply prefix_trans; [|apply (lk_pre _ _ _ _ L x HxP)]. rewrite E1. apply MetaOnlyP.removelast_prefix. }
        destruct (lk_anc _ _ _ _ L q Hq E2 Hqc) as [H|H]; [exists q; auto|exfalso].
        pose proof (MetaOnlyP.removelast_len (cp x) (MetaOnlyP.okc_nonempty _ Hokx)) as Lx.
        pose proof (MetaOnlyP.removelast_len (cp q) (MetaOnlyP.okc_nonempty _ Hokq)) as Lq.
        rewrite Hsplit, E, app_assoc in H. apply in_app_or in H. destruct H as [H|[<-|[]]].
        -- assert (Hch : chain_ok ((popped ++ pre) ++ [x])).
           { rewrite <- app_assoc, <- E, <- Hsplit. apply (MetaOnlyP.inv_chain _ _ _ _ (lk_inv _ _ _ _ L)). }
           pose proof (MetaOnlyP.chain_app_prefix (popped ++ pre) [x] Hch q x H (or_introl eq_refl)) as Hp.
           apply MetaOnlyP.prefix_len in Hp. rewrite E1 in Lq, Hp. lia.
        -- rewrite <- E1 in Lx. lia.
    + cbn [MetaOnlyP.cvalid]. split; [|exact I]. split; [exact Hok|]. split.
      * intros q Hq. apply Hlt. apply in_app_or in Hq. destruct Hq as [Hq|Hq]; [apply (lk_sub _ _ _ _ L q Hq)|].
        apply in_rev in Hq. apply (Hmem q Hq).
      * destruct Hpar as [H|(q & Hq & E1 & E2)]; [left; exact H|right]. exists q. split; [|auto].
        assert (Hp : is_prefix (cp q) (cp s)) by (rewrite E1; apply MetaOnlyP.removelast_prefix).
        destruct (pending_anc q Hq E2 Hp) as [H|H]; apply in_or_app; [left; exact H|right].
        apply in_rev. rewrite rev_involutive. exact H.
Qed.

End Step.
End Link.


(* ================= bookkeeping: what the diff does not touch ================= *)
Lemma apply_change_keeps fl c idx kind p s st :
  r_vstk (apply_change fl c idx kind p s st) = r_vstk st
  /\ r_seen (apply_change fl c idx kind p s st) = r_seen st
  /\ r_closed (apply_change fl c idx kind p s st) = r_closed st.
Proof.
  unfold apply_change. destruct (f_rej fl p); [auto|]. cbv zeta.
  destruct (negb (live st)); [auto|].
  destruct (spend st) as [st1|] eqn:Es; [|simpl; auto].
  destruct (spend_core st st1 Es) as (Ef & (Ev & Ese & Et) & El & Ep & Eae & Efi & Eo & Edt & Ecl & _).
  cbn [r_fs set_tmps].
  match goal with |- context [dw_handle ?a ?b ?t ?k ?q ?z] => destruct (dw_handle a b t k q z) as [f' res] end.
  destruct res as [|async newdir]; [simpl; auto|].
  destruct newdir, async; simpl; auto;
    match goal with |- context [blookup ?a ?b] => destruct (blookup a b) end; simpl; auto.
Qed.

Lemma diff_feed_keeps fl c idx s : forall old st,
  r_vstk (diff_feed fl c idx s old st) = r_vstk st
  /\ r_seen (diff_feed fl c idx s old st) = r_seen st
  /\ r_closed (diff_feed fl c idx s old st) = r_closed st.
Proof.
  induction old as [|f1 rest IH]; intros st; cbn [diff_feed].
  - destruct (apply_change_keeps fl c idx 0 (st_path s) s (set_diff st [] [])) as (A & B & C). auto.
  - destruct (compare_path (st_path f1) (st_path s)).
    + destruct (same_file f1 (f_map fl s)); [auto|].
      match goal with |- context [apply_change fl c idx 1 ?p ?z ?t] =>
        destruct (apply_change_keeps fl c idx 1 p z t) as (A & B & C) end. auto.
    + destruct (suppressed (r_rmdir st) (st_path f1)).
      * destruct (IH (set_diff st rest (r_rmdir st))) as (A & B & C). auto.
      * destruct (apply_change_keeps fl c idx 2 (st_path f1) f1 (set_diff st rest (rm_prefix_of f1))) as (A & B & C).
        destruct (live (apply_change fl c idx 2 (st_path f1) f1 (set_diff st rest (rm_prefix_of f1)))); [|auto].
        destruct (IH (apply_change fl c idx 2 (st_path f1) f1 (set_diff st rest (rm_prefix_of f1)))) as (A' & B' & C').
        rewrite A', B', C'. auto.
    + destruct (apply_change_keeps fl c idx 0 (st_path s) s (set_diff st (f1 :: rest) [])) as (A & B & C). auto.
Qed.

(* ================= the receive loop of a metadata transfer ================= *)
Section Meta.
Variables (D root : N) (f0 : fs) (tmps0 : list bytes) (dl merge : bool) (fl : rfilter) (sel : stat -> bool).
Notation wf := (wf D).
Notation step := (step D).
Let c : ctx := {| c_root := root; c_cwd := D |}.
Let b0 : N := f_next f0.
Hypothesis W0 : wf f0.
Hypothesis Hmap_mode : forall s, st_mode (f_map fl s) = st_mode s.
Hypothesis Hmap_link : forall s, st_linkname (f_map fl s) = st_linkname s.
Hypothesis Hclosed : forall p q, ok_path p = true -> ok_path q = true ->
  f_rej fl p = true -> is_prefix (comps p) (comps q) -> f_rej fl q = true.
Hypothesis tmp_ok : forall t, tmpname tmps0 t -> okname t.
Hypothesis Hunused : tmp_unused D f0 tmps0.
Notation cleanp := (clean_path tmps0).
Notation cp := MetaOnlyP.cp.

(* the invariant of the loop with or without Merge *)
Definition Inv2 (st : rstate) (acc : list vitem) : Prop :=
  if merge then MInv D f0 tmps0 fl st acc else NInv D f0 tmps0 fl st acc.

Lemma Inv2_gbase st acc : Inv2 st acc -> GBase D f0 tmps0 st acc.
Proof. unfold Inv2. destruct merge; intros H; apply H. Qed.

Lemma Inv2_files st acc files next : Inv2 st acc -> Inv2 (set_valid st (r_vstk st) (r_seen st) files next) acc.
Proof. unfold Inv2. destruct merge; intros H; [apply MInv_files|apply NInv_files]; auto. Qed.

Lemma Inv2_stop st acc o : Inv2 st acc -> o <> Running -> Inv2 (set_out st o) acc.
Proof.
  unfold Inv2. destruct merge; intros H Ho.
  - destruct H as [[G A] Hold]. apply (MInv_stop D f0 tmps0 fl st); auto.
  - apply NInv_stop; auto.
Qed.

Lemma Inv2_wait st acc idx : Inv2 st acc -> Inv2 (maybe_wait c dl idx st) acc.
Proof.
  unfold Inv2, c. destruct merge; intros H.
  - destruct H as [G Hold]. split; [eapply maybe_wait_inv; eauto|]. rewrite maybe_wait_old. exact Hold.
  - eapply maybe_wait_ninv; eauto.
Qed.

Lemma Inv2_other st acc idx pk : Inv2 st acc -> (forall s, pk <> PStat (Some s)) ->
  Inv2 (recv_packet fl c dl idx pk st) acc.
Proof.
  unfold Inv2, c. destruct merge; intros H Hpk.
  - eapply recv_packet_inv_other; eauto.
  - eapply recv_packet_ninv_other; eauto.
Qed.

Lemma Inv2_dead st acc : GBase D f0 tmps0 st acc -> live st = false -> (merge = true -> r_old st = []) -> Inv2 st acc.
Proof.
  unfold Inv2. intros G L Ho. destruct merge.
  - split; [split; [exact G|intros H; congruence]|auto].
  - split; [split; [exact G|intros H; congruence]|intros H; congruence].
Qed.

Lemma Inv2_old st acc : Inv2 st acc -> merge = true -> r_old st = [].
Proof. unfold Inv2. intros H E. rewrite E in H. apply H. Qed.

(* one entry handed to the walker *)
Lemma feed_one_inv idx x st acc :
  Inv2 st acc -> r_closed st = false -> cleanp (st_path x) -> link_ok fl x -> ok_path (st_path x) = true ->
  spec_ok (map citem_of acc) (citem_of (item_of x)) ->
  forall sn', hl_step (r_seen st) x = Some sn' ->
  Inv2 (feed_one fl c idx x st) (acc ++ [item_of x])
  /\ r_closed (feed_one fl c idx x st) = false
  /\ r_seen (feed_one fl c idx x st) = sn'.
Proof.
  intros M Hcl Hclean Hlk Hok Hspec sn' Eh.
  pose proof (Inv2_gbase st acc M) as G.
  assert (Hv : exists v', vstep (r_vstk st) (item_of x) = Some v').
  { pose proof (vstep_refines (r_vstk st) (item_of x) (g_R D f0 tmps0 st acc G) Hok) as Hr.
    destruct (vstep (r_vstk st) (item_of x)) as [v'|]; [eauto|]. exfalso.
    apply (cvstep_complete _ _ _ (g_vinv D f0 tmps0 st acc G) (okitem_names (item_of x) Hok) Hspec). exact Hr. }
  destruct Hv as [v' Ev].
  unfold feed_one, ghost_step. rewrite Ev, Eh.
  set (st1 := set_valid st v' sn' (r_files st) (r_next st)).
  assert (Hlive1 : live st1 = live st) by reflexivity.
  unfold Inv2 in *. destruct merge eqn:Em.
  - destruct (feed_merge D root f0 tmps0 fl Hmap_mode Hmap_link Hclosed tmp_ok idx x st acc v' sn' (r_files st) (r_next st)
                M Hclean Hlk Ev Eh) as (G1 & Eold & M1).
    fold st1 in G1, Eold, M1. change {| c_root := root; c_cwd := D |} with c in M1.
    destruct (live st1) eqn:L1.
    + split; [exact M1|]. destruct (diff_feed_keeps fl c idx x (r_old st1) st1) as (A & B & C). rewrite B, C. auto.
    + split; [|auto]. split; [split; [exact G1|intros H; congruence]|exact Eold].
  - destruct (feed_nomerge D root f0 tmps0 W0 fl Hmap_mode Hmap_link Hclosed tmp_ok Hunused idx x st acc v' sn' (r_files st) (r_next st)
                M Hclean Hlk Ev Eh) as (G1 & M1).
    fold st1 in G1, M1. change {| c_root := root; c_cwd := D |} with c in M1.
    destruct (live st1) eqn:L1.
    + split; [apply M1; [congruence|exact Hcl]|].
      destruct (diff_feed_keeps fl c idx x (r_old st1) st1) as (A & B & C). rewrite B, C. auto.
    + split; [|auto]. split; [split; [exact G1|intros H; congruence]|intros H; congruence].
Qed.

(* ---- the stat-level and the item-level form of "acceptable after" ---- *)
Lemma step_ok_spec acc x : MetaOnlyP.step_ok acc x ->
  spec_ok (map citem_of (map item_of acc)) (citem_of (item_of x)).
Proof.
  unfold MetaOnlyP.step_ok, MetaOnlyP.cp. intros (Hok & Hlt & Hpar).
  split; [cbn; apply MetaOnlyP.okc_nonempty; exact Hok|]. split.
  - intros q Hq. apply in_map_iff in Hq. destruct Hq as (it & <- & Hit). apply in_map_iff in Hit.
    destruct Hit as (y & <- & Hy). cbn. apply (Hlt y Hy).
  - destruct Hpar as [H|(q & Hq & E1 & E2)]; [left; exact H|right].
    exists (citem_of (item_of q)). split; [apply in_map, in_map; exact Hq|]. cbn. auto.
Qed.

Lemma spec_step_ok accA s : ok_path (st_path s) = true ->
  spec_ok (map citem_of (map item_of accA)) (citem_of (item_of s)) -> MetaOnlyP.step_ok accA s.
Proof.
  unfold MetaOnlyP.step_ok, MetaOnlyP.cp. intros Hok (_ & Hlt & Hpar). split; [apply ok_path_okc; exact Hok|]. split.
  - intros q Hq. apply (Hlt (citem_of (item_of q))). apply in_map, in_map. exact Hq.
  - destruct Hpar as [H|(q & Hq & E1 & _ & E3)]; [left; exact H|right].
    apply in_map_iff in Hq. destruct Hq as (it & <- & Hit). apply in_map_iff in Hit. destruct Hit as (y & <- & Hy).
    exists y. cbn in E1, E3. auto.
Qed.

Lemma cvalid_split acc l1 : forall l2 acc', acc' = acc ->
  MetaOnlyP.cvalid acc' (l1 ++ l2) -> MetaOnlyP.cvalid acc l1 /\ MetaOnlyP.cvalid (acc ++ l1) l2.
Proof.
  revert acc. induction l1 as [|x l1 IH]; intros acc l2 acc' -> H.
  - rewrite app_nil_r. split; [exact I|exact H].
  - cbn [app MetaOnlyP.cvalid] in *. destruct H as [Hx H]. destruct (IH (acc ++ [x]) l2 _ eq_refl H) as [A B].
    split; [split; auto|]. rewrite <- app_assoc in B. exact B.
Qed.

Lemma okc_ok (p : bytes) : PathP.okc (comps p) -> ok_path p = true.
Proof. intros H. rewrite <- (joinc_comps p). apply okc_ok_path. exact H. Qed.

Lemma feed_all_app idx l1 l2 st : feed_all fl c idx (l1 ++ l2) st = feed_all fl c idx l2 (feed_all fl c idx l1 st).
Proof. unfold feed_all. apply fold_left_app. Qed.

(* pending directories handed to the walker, bottom first *)
Lemma feed_dirs_inv idx : forall ds st fed,
  Inv2 st (map item_of fed) -> r_closed st = false -> MetaOnlyP.cvalid fed ds ->
  (forall x, In x ds -> st_is_dir x = true /\ cleanp (st_path x) /\ ok_path (st_path x) = true) ->
  Inv2 (feed_all fl c idx ds st) (map item_of (fed ++ ds))
  /\ r_closed (feed_all fl c idx ds st) = false /\ r_seen (feed_all fl c idx ds st) = r_seen st.
Proof.
  induction ds as [|x r IH]; intros st fed M Hcl Hv Hds.
  - rewrite app_nil_r. cbn. auto.
  - destruct Hv as [Hx Hv]. destruct (Hds x (or_introl eq_refl)) as (Hd & Hc & Hok).
    assert (Eh : hl_step (r_seen st) x = Some (r_seen st)) by (unfold hl_step; rewrite Hd; reflexivity).
    assert (Hlk : link_ok fl x).
    { intros Hhb. exfalso. unfold hardlink_branch in Hhb. unfold st_is_dir in Hd. rewrite Hd in Hhb. discriminate. }
    destruct (feed_one_inv idx x st (map item_of fed) M Hcl Hc Hlk Hok (step_ok_spec fed x Hx) _ Eh) as (M1 & C1 & S1).
    assert (E : map item_of fed ++ [item_of x] = map item_of (fed ++ [x])) by (rewrite map_app; reflexivity).
    rewrite E in M1.
    assert (Hds' : forall y, In y r -> st_is_dir y = true /\ cleanp (st_path y) /\ ok_path (st_path y) = true)
      by (intros y Hy; apply Hds; right; exact Hy).
    destruct (IH _ (fed ++ [x]) M1 C1 Hv Hds') as (M2 & C2 & S2).
    rewrite <- app_assoc in M2. cbn [app] in M2.
    change (feed_all fl c idx (x :: r) st) with (feed_all fl c idx r (feed_one fl c idx x st)).
    split; [exact M2|]. split; [exact C2|]. rewrite S2, S1. reflexivity.
Qed.

(* ---- the invariant of the loop ---- *)
Definition MI (m : mstate) : Prop := exists fedS,
  Inv2 (m_st m) (map item_of fedS)
  /\ (running (m_st m) = true ->
      exists accA cpos, R (m_vstk m) /\ Inv (map ce (m_vstk m)) (map citem_of (map item_of accA))
        /\ Link sel accA fedS (m_stk m) cpos
        /\ (forall q, In q accA -> cleanp (st_path q))).

Lemma running_set_out st o : o <> Running -> running (set_out st o) = false.
Proof. intros H. unfold running. cbn. destruct o; congruence. Qed.

Lemma mrecv_stat_inv idx s m : MI m -> running (m_st m) = true -> cleanp (st_path s) -> link_ok fl s ->
  MI (mrecv_stat fl c sel idx s m).
Proof.
  intros (fedS & M & Hrun') Hrun Hcl Hlk. destruct (Hrun' Hrun) as (accA & cpos & HR & HV & HL & Hclean).
  unfold mrecv_stat. set (st := m_st m) in *.
  destruct (is_listing s).
  { exists fedS. cbn [m_st mset]. split; [apply Inv2_files; exact M|]. intros _. exists accA, cpos. cbn [m_vstk m_stk mset]. auto. }
  set (files := if sel s && mode_is_regular (st_mode s) then bset (st_path s) (r_next st) (r_files st) else r_files st).
  set (st0 := set_valid st (r_vstk st) (r_seen st) files (r_next st + 1)).
  assert (M0 : Inv2 st0 (map item_of fedS)) by (apply Inv2_files; exact M).
  assert (Hfail : forall v stk buf k, k <> Running ->
            MI {| m_st := set_out st0 k; m_vstk := v; m_stk := stk; m_buf := buf |}).
  { intros v stk buf k Hk. exists fedS. cbn [m_st]. split; [apply Inv2_stop; auto|].
    intros Hr. rewrite running_set_out in Hr; [discriminate|exact Hk]. }
  destruct (vstep (m_vstk m) (item_of s)) as [v'|] eqn:Ev; [|apply Hfail; discriminate].
  pose proof (vstep_ok_path _ _ _ Ev) as Hok. change (vpath (item_of s)) with (st_path s) in Hok.
  pose proof (vstep_refines (m_vstk m) (item_of s) HR Hok) as Hr. rewrite Ev in Hr. destruct Hr as [Hcv HR'].
  destruct (cvstep_sound _ _ _ _ HV (okitem_names (item_of s) Hok) Hcv) as [Hspec HV'].
  pose proof (spec_step_ok accA s Hok Hspec) as Hstep.
  assert (HV2 : Inv (map ce v') (map citem_of (map item_of (accA ++ [s])))) by (rewrite !map_app; exact HV').
  assert (Hclean' : forall q, In q (accA ++ [s]) -> cleanp (st_path q)).
  { intros q Hq. apply in_app_or in Hq. destruct Hq as [Hq|[<-|[]]]; auto. }
  set (stk1 := MetaOnly.mpop (dir (st_path s)) (m_stk m)).
  destruct (sel s) eqn:Esel.
  - (* handed to the walker, after its pending parents *)
    destruct (hl_step (r_seen st) s) as [sn'|] eqn:Eh; [|apply Hfail; discriminate].
    destruct (link_fwd sel accA fedS (m_stk m) cpos s HL Hstep) as (HL' & Hcv' & Hmem). fold stk1 in HL', Hcv', Hmem.
    destruct (is_dead st0 && negb (r_closed st0)); [apply Hfail; discriminate|].
    destruct (r_closed st0) eqn:Ecl; [apply Hfail; discriminate|].
    destruct (cvalid_split fedS (rev stk1) [s] fedS eq_refl Hcv') as [Hv1 [Hv2 _]].
    assert (Hdirs : forall x, In x (rev stk1) -> st_is_dir x = true /\ cleanp (st_path x) /\ ok_path (st_path x) = true).
    { intros x Hx. apply in_rev in Hx. destruct (Hmem x Hx) as [A B]. split; [exact A|]. split; [apply Hclean; exact B|].
      apply okc_ok. apply (MetaOnlyP.inv_okc _ _ _ _ (lk_inv _ _ _ _ _ HL) x B). }
    destruct (feed_dirs_inv idx (rev stk1) st0 fedS M0 Ecl Hv1 Hdirs) as (M1 & C1 & S1).
    assert (Eh' : hl_step (r_seen (feed_all fl c idx (rev stk1) st0)) s = Some sn') by (rewrite S1; exact Eh).
    destruct (feed_one_inv idx s _ (map item_of (fedS ++ rev stk1)) M1 C1 Hcl Hlk Hok (step_ok_spec _ s Hv2) sn' Eh') as (M2 & C2 & S2).
    exists (fedS ++ rev stk1 ++ [s]). cbn [m_st m_vstk m_stk]. rewrite feed_all_app. split.
    + assert (E : map item_of (fedS ++ rev stk1) ++ [item_of s] = map item_of (fedS ++ rev stk1 ++ [s])).
      { rewrite app_assoc, (map_app item_of (fedS ++ rev stk1) [s]). reflexivity. }
      rewrite <- E. exact M2.
    + intros _. exists (accA ++ [s]), (cp s). auto.
  - (* only recorded *)
    exists fedS. cbn [m_st m_vstk m_stk]. split; [exact M0|].
    intros _. exists (accA ++ [s]), (cp s). split; [exact HR'|]. split; [exact HV2|]. split; [|exact Hclean'].
    apply (link_meta sel accA fedS (m_stk m) cpos s HL Hstep Esel).
Qed.

Lemma mrecv_packet_inv idx pk m : MI m -> clean_packet tmps0 fl pk -> MI (mrecv_packet fl c dl sel idx pk m).
Proof.
  intros HM Hc. unfold mrecv_packet. destruct (running (m_st m)) eqn:Hrun; cbn [negb]; [|exact HM].
  destruct pk as [[s|]|id d| | |].
  - destruct Hc as [Hcl Hlk]. destruct (mrecv_stat_inv idx s m HM Hrun Hcl Hlk) as (fedS & M & Hr).
    exists fedS. cbn [m_st mset]. split; [apply Inv2_wait; exact M|].
    intros Hrun2. cbn [m_vstk m_stk mset]. apply Hr.
    unfold maybe_wait in Hrun2. revert Hrun2.
    destruct ((running (m_st (mrecv_stat fl c sel idx s m)) || match r_out (m_st (mrecv_stat fl c sel idx s m)) with Drained _ => true | _ => false end)
              && negb (is_dead (m_st (mrecv_stat fl c sel idx s m)))); [|auto].
    destruct (r_closed (m_st (mrecv_stat fl c sel idx s m)) && negb (r_waited (m_st (mrecv_stat fl c sel idx s m)))); [|auto].
    destruct (r_asyncerr (m_st (mrecv_stat fl c sel idx s m))); [auto|].
    destruct (is_nil (r_pipes (m_st (mrecv_stat fl c sel idx s m)))); [|auto].
    destruct (spend (m_st (mrecv_stat fl c sel idx s m))) as [st1|] eqn:Es; [|intros H; rewrite running_set_out in H; [discriminate|discriminate]].
    destruct (spend_core _ _ Es) as (_ & _ & _ & _ & _ & _ & _ & _ & _ & _ & _ & _ & Eout).
    unfold running. cbn. rewrite Eout. auto.
  - destruct HM as (fedS & M & Hr). exists fedS. cbn [m_st mset].
    split; [apply Inv2_other; [exact M|intros s; discriminate]|]. intros _. cbn [m_vstk m_stk mset]. apply Hr. exact Hrun.
  - destruct HM as (fedS & M & Hr). exists fedS. cbn [m_st mset].
    split; [apply Inv2_other; [exact M|intros s; discriminate]|]. intros _. cbn [m_vstk m_stk mset]. apply Hr. exact Hrun.
  - destruct HM as (fedS & M & Hr). exists fedS. cbn [m_st mset].
    split; [apply Inv2_other; [exact M|intros s; discriminate]|]. intros _. cbn [m_vstk m_stk mset]. apply Hr. exact Hrun.
  - destruct HM as (fedS & M & Hr). exists fedS. cbn [m_st mset].
    split; [apply Inv2_other; [exact M|intros s; discriminate]|]. intros _. cbn [m_vstk m_stk mset]. apply Hr. exact Hrun.
  - destruct HM as (fedS & M & Hr). exists fedS. cbn [m_st mset].
    split; [apply Inv2_other; [exact M|intros s; discriminate]|]. intros _. cbn [m_vstk m_stk mset]. apply Hr. exact Hrun.
Qed.

Lemma mrecv_loop_inv : forall pks idx m, MI m -> Forall (clean_packet tmps0 fl) pks ->
  MI (mrecv_loop fl c dl sel idx pks m).
Proof.
  induction pks as [|pk pks IH]; intros idx m HM Hc; cbn [mrecv_loop]; [exact HM|].
  inversion Hc; subst. apply IH; auto. apply mrecv_packet_inv; auto.
Qed.

Lemma MI_init budget :
  MI {| m_st := rstate_init f0 D merge tmps0 budget; m_vstk := vinit; m_stk := []; m_buf := [] |}.
Proof.
  exists []. cbn [m_st m_vstk m_stk map]. split.
  - unfold Inv2. destruct merge; [apply MInv_init; auto|apply NInv_init; auto].
  - intros _. exists [], []. split; [constructor; [left; reflexivity|constructor]|]. split; [apply inv_init|].
    split; [apply link_init|intros q []].
Qed.

Theorem recv_meta_step pks budget :
  Forall (clean_packet tmps0 fl) pks ->
  step TAll b0 f0 (r_fs (recv_run_opt f0 root D dl merge (Some sel) fl tmps0 pks budget)).
Proof.
  intros Hc. unfold recv_run_opt. fold c.
  destruct (mrecv_loop_inv pks 0 _ (MI_init budget) Hc) as (fedS & M & _).
  set (m := mrecv_loop fl c dl sel 0 pks _) in *.
  pose proof (Inv2_gbase _ _ M) as G.
  apply (step_trans D TAll b0 f0 (r_fs (m_st m))); [apply G|].
  apply (epilogue_step D root b0). 
  - apply (g_wf D f0 tmps0 _ _ G).
  - apply (g_next D f0 tmps0 _ _ G).
Qed.

End Meta.
