(* C01 — composition Walk -> Diff -> AbsDest: the listing that the walk model of C09
   (Model/Walk.v: fs.Walk / mkstat / setUnixOpt transcribed) produces for ANY well-formed tree,
   paired with the contents of the inodes, satisfies the hypotheses of the convergence theorems:
   strictly ascending, ancestor-closed, canonical hard links ([wf_entries]).
   Hypotheses on the tree, beyond wf_tree: [ino_consistent] (C09: st_nlink counts every name)
   and [inode_coherent] (two non-directory names with one inode number show the same lstat
   record: one inode — this contains C09's one_fs). *)
From Coq Require Import List NArith Lia Bool Sorting.Sorted.
From FS Require Import Sx Model.Path Model.Stat Model.Tree Model.Walk Model.Diff Model.AbsDest Model.ConvergeA
  Proofs.Lex Proofs.PathP Proofs.DiffP Proofs.WalkP Proofs.AbsDestP Proofs.ReceiveP Proofs.ConvergeP.
Import ListNotations.
Open Scope N_scope.
Open Scope bool_scope.

(* lstat of two non-directory names of one inode gives one record *)
Definition inode_coherent (t : tree) : Prop :=
  forall cs1 r1 cs2 r2, tree_at t cs1 r1 -> tree_at t cs2 r2 ->
    is_dir r1 = false -> is_dir r2 = false -> l_ino r1 = l_ino r2 -> r1 = r2.

(* the walk, every Stat paired with the bytes of its inode ([cont]: contents per lstat record;
   records of different inodes differ in l_ino / l_dev) *)
Fixpoint scanE (cont : lrec -> bytes) (seen : list (N * bytes)) (l : list (bytes * lrec)) : list (stat * bytes) :=
  match l with
  | [] => []
  | (p, r) :: l' => let (st, seen') := mkstat p r seen in (st, cont r) :: scanE cont seen' l'
  end.
Definition walk_entries (cont : lrec -> bytes) (t : tree) : list (stat * bytes) :=
  scanE cont [] (entries_root (sort_tree t)).

Lemma scanE_fst cont l : forall seen, map fst (scanE cont seen l) = scan seen l.
Proof.
  induction l as [|[p r] l IH]; intros seen; simpl; [reflexivity|].
  destruct (mkstat p r seen) as [st seen']. simpl. rewrite IH. reflexivity.
Qed.

Lemma walk_entries_fst cont t : map fst (walk_entries cont t) = walk t.
Proof. apply scanE_fst. Qed.

Lemma scanE_in cont l : forall seen st bb, In (st, bb) (scanE cont seen l) ->
  exists r, In (st_path st, r) l /\ bb = cont r.
Proof.
  induction l as [|[p r] l IH]; intros seen st bb Hin; simpl in Hin; [destruct Hin|].
  destruct (mkstat p r seen) as [st0 seen'] eqn:Em. destruct Hin as [E|Hin].
  - inversion E; subst. exists r. split; auto. left.
    pose proof (mkstat_path p r seen) as Hp. rewrite Em in Hp. simpl in Hp. rewrite Hp. reflexivity.
  - destruct (IH _ _ _ Hin) as (r' & Hr' & Eb). exists r'. split; auto. right; auto.
Qed.

Lemma mode_dir_nosock x : mode_is_dir (N.ldiff x ModeSocket) = mode_is_dir x.
Proof.
  unfold mode_is_dir, has_bits. f_equal. f_equal.
  apply N.bits_inj. intros n. rewrite !N.land_spec, N.ldiff_spec.
  change ModeDir with (2 ^ 31). rewrite N.pow2_bits_eqb.
  destruct (N.eqb_spec 31 n) as [<-|Hn].
  - change (N.testbit ModeSocket 31) with false. simpl. rewrite !andb_true_r. reflexivity.
  - rewrite !andb_false_r. reflexivity.
Qed.

(* ---- separators in joined names ---- *)
Lemma app_sep_split (n q r0 m : bytes) :
  nosep n -> q ++ sep :: r0 = n ++ sep :: m ->
  (q = n /\ r0 = m) \/ (exists q', q = n ++ sep :: q' /\ m = q' ++ sep :: r0).
Proof.
  revert q. induction n as [|a n IH]; intros q Hn E.
  - destruct q as [|b q]; simpl in E.
    + left. inversion E; auto.
    + right. inversion E; subst. exists q. auto.
  - destruct q as [|b q]; simpl in E.
    + inversion E; subst. exfalso. apply Hn. left; reflexivity.
    + inversion E; subst. destruct (IH q) as [[-> ->]|(q' & -> & ->)]; auto.
      * intros Hin. apply Hn. right; auto.
      * right. exists q'. auto.
Qed.

Lemma joinc_cons n cs : cs <> [] -> joinc (n :: cs) = n ++ sep :: joinc cs.
Proof. destruct cs; [congruence|reflexivity]. Qed.

Lemma joinc_sep_split cs : forall q r0, Forall nosep cs -> joinc cs = q ++ sep :: r0 ->
  exists cs1 cs2, cs = cs1 ++ cs2 /\ cs1 <> [] /\ cs2 <> [] /\ q = joinc cs1.
Proof.
  induction cs as [|n cs IH]; intros q r0 Hns E.
  - simpl in E. destruct q; discriminate.
  - inversion Hns as [|? ? Hn Hns']; subst. destruct cs as [|n2 cs'].
    + simpl in E. exfalso. apply Hn. rewrite E. apply in_or_app. right; left; reflexivity.
    + rewrite joinc_cons in E by discriminate. symmetry in E.
      destruct (app_sep_split n q r0 _ Hn E) as [[-> _]|(q' & -> & E')].
      * exists [n], (n2 :: cs'). repeat split; auto; discriminate.
      * destruct (IH q' r0 Hns' E') as (cs1 & cs2 & Ecs & H1 & H2 & ->).
        exists (n :: cs1), cs2. rewrite Ecs. repeat split; auto; try discriminate.
        rewrite joinc_cons; auto.
Qed.

(* a node with something below it is a directory *)
Lemma tree_at_parent_dir : forall cs1 t n rest r, wf_tree t -> tree_at t (cs1 ++ n :: rest) r ->
  exists r1, tree_at t cs1 r1 /\ is_dir r1 = true.
Proof.
  induction cs1 as [|c cs1 IH]; intros t n rest r Hwf Hat.
  - destruct t as [r0 kids]. simpl in Hat. apply tree_at_cons_inv in Hat. destruct Hat as (k & Hk & _).
    exists r0. split; [constructor|]. inversion Hwf; subst.
    destruct (is_dir r0) eqn:Ed; auto. rewrite (H1 eq_refl) in Hk. destruct Hk.
  - destruct t as [r0 kids]. simpl in Hat. apply tree_at_cons_inv in Hat. destruct Hat as (k & Hk & Hat).
    inversion Hwf; subst. rewrite Forall_forall in H4. specialize (H4 _ Hk). simpl in H4.
    destruct (IH k n rest r H4 Hat) as (r1 & H1' & Hd). exists r1. split; auto.
    econstructor; eauto.
Qed.

Section WalkWf.
Variable cont : lrec -> bytes.
Variable t : tree.
Hypothesis Hwf : wf_tree t.
Hypothesis Hic : ino_consistent t.
Hypothesis Hco : inode_coherent t.

Lemma coherent_one_fs : one_fs t.
Proof. intros cs1 r1 cs2 r2 A1 A2 D1 D2 Ei. rewrite (Hco _ _ _ _ A1 A2 D1 D2 Ei). reflexivity. Qed.

Lemma walk_node st : In st (walk t) -> exists cs r, cs <> [] /\ tree_at t cs r /\ st_path st = joinc cs.
Proof.
  intros Hin. destruct (walk_complete_once_proof t Hwf) as [Hc _].
  destruct (proj1 (Hc (st_path st)) (in_map st_path _ _ Hin)) as (cs & r & Hne & Ep & Hat). eauto.
Qed.

Lemma walk_is_dir st cs r : In st (walk t) -> cs <> [] -> tree_at t cs r -> st_path st = joinc cs ->
  st_is_dir st = is_dir r.
Proof.
  intros Hin Hne Hat Ep. destruct (walk_stat_proof t Hwf st Hin cs r Hne Hat Ep) as (Em & _).
  unfold st_is_dir. rewrite Em, mode_dir_nosock. reflexivity.
Qed.

Lemma walk_sorted_listing : sorted (walk t).
Proof.
  pose proof (walk_sorted_proof t Hwf) as HS. unfold sorted.
  induction (walk t) as [|s l IH]; [constructor|].
  simpl in HS. inversion HS; subst. constructor; auto.
  rewrite Forall_forall in *. intros b Hb. apply H2. apply in_map; auto.
Qed.

Lemma walk_closed_listing : closed (walk t).
Proof.
  intros s Hs q r0 Ep. destruct (walk_node s Hs) as (cs & r & Hne & Hat & Ej).
  rewrite Ej in Ep. pose proof (tree_at_nosep t cs r Hwf Hat) as Hns.
  destruct (joinc_sep_split cs q r0 Hns Ep) as (cs1 & cs2 & -> & H1 & H2 & ->).
  destruct cs2 as [|n rest]; [congruence|].
  destruct (tree_at_parent_dir cs1 t n rest r Hwf Hat) as (r1 & Hat1 & Hd1).
  destruct (walk_complete_once_proof t Hwf) as [Hc _].
  assert (Hin : In (joinc cs1) (map st_path (walk t))) by (apply Hc; exists cs1, r1; auto).
  apply in_map_iff in Hin. destruct Hin as (s1 & E1 & Hs1). exists s1. split; auto. split; auto.
  rewrite (walk_is_dir s1 cs1 r1 Hs1 H1 Hat1 E1). exact Hd1.
Qed.

Lemma walk_entry_node st bb : In (st, bb) (walk_entries cont t) ->
  In st (walk t) /\ exists cs r, cs <> [] /\ tree_at t cs r /\ st_path st = joinc cs /\ bb = cont r.
Proof.
  intros Hin. split; [rewrite <- (walk_entries_fst cont t); apply (in_map fst _ _ Hin)|].
  apply scanE_in in Hin. destruct Hin as (r & Hr & Eb). apply entries_in in Hr.
  destruct Hr as (cs & Hne & Ep & Hat). exists cs, r. auto.
Qed.

Lemma walk_links_canon : links_canon (walk_entries cont t).
Proof.
  intros sb bb Hin Hl. destruct (walk_entry_node sb bb Hin) as (Hsb & cs & r & Hne & Hat & Ep & Eb).
  destruct (is_hardlink_reg _ Hl) as [Hreg Hln].
  assert (Hd : is_dir r = false).
  { rewrite <- (walk_is_dir sb cs r Hsb Hne Hat Ep). apply is_node_not_dir; auto. }
  destruct (walk_stat_proof t Hwf sb Hsb cs r Hne Hat Ep) as (Em & Eu & Eg & Es & Emt & Ex & Ema & Emi & _).
  assert (Hsym : is_symlink r = false).
  { unfold is_symlink. rewrite <- mode_symlink_nosock, <- Em.
    unfold is_node in Hreg. rewrite !andb_true_iff, !negb_true_iff in Hreg. tauto. }
  destruct (walk_hardlinks_proof t Hwf coherent_one_fs Hic sb Hsb cs r Hne Hat Ep Hd)
    as (cs0 & r0 & Hne0 & Hat0 & Hd0 & Ei0 & _ & Hleast & Eln).
  rewrite Hsym in Eln.
  destruct (bytes_eqb (joinc cs0) (joinc cs)) eqn:Ecs; [congruence|]. apply bytes_eqb_neq in Ecs.
  assert (Er : r0 = r) by (apply (Hco _ _ _ _ Hat0 Hat); auto). subst r0.
  assert (Hlt : compare_path (joinc cs0) (joinc cs) = Lt).
  { destruct (Hleast cs r Hne Hat Hd eq_refl) as [E|E]; auto. congruence. }
  (* the entry of the first name *)
  destruct (walk_complete_once_proof t Hwf) as [Hc _].
  assert (Hin0 : In (joinc cs0) (map st_path (walk t))) by (apply Hc; exists cs0, r; auto).
  rewrite <- (walk_entries_fst cont t), map_map in Hin0. apply in_map_iff in Hin0.
  destruct Hin0 as ([st0 b0] & E0 & Hin0). simpl in E0.
  destruct (walk_entry_node st0 b0 Hin0) as (Hst0 & cs' & r' & Hne' & Hat' & Ep' & Eb').
  rewrite E0 in Ep'.
  destruct (node_unique t cs0 r cs' r' Hwf Hne0 Hne' Hat0 Hat' Ep') as [<- <-].
  destruct (walk_stat_proof t Hwf st0 Hst0 cs0 r Hne0 Hat0 E0) as (Em0 & Eu0 & Eg0 & Es0 & Emt0 & Ex0 & Ema0 & Emi0 & _).
  destruct (walk_hardlinks_proof t Hwf coherent_one_fs Hic st0 Hst0 cs0 r Hne0 Hat0 E0 Hd)
    as (cs00 & r00 & Hne00 & Hat00 & Hd00 & Ei00 & _ & Hleast00 & Eln0).
  rewrite Hsym in Eln0.
  assert (E00 : cs00 = cs0).
  { destruct (Hleast00 cs0 r Hne0 Hat0 Hd eq_refl) as [E|E]; auto.
    destruct (Hleast cs00 r00 Hne00 Hat00 Hd00 Ei00) as [E'|E']; auto.
    exfalso. eapply compare_path_asym; eauto. }
  subst cs00. rewrite bytes_eqb_refl in Eln0.
  exists st0, b0. split; auto. split; [congruence|]. split; [rewrite E0; rewrite Ep; exact Hlt|].
  split; [rewrite (is_node_cong st0 sb); auto; congruence|]. split; auto.
  split; [|congruence].
  unfold link_meta_eq. rewrite Em, Eu, Eg, Es, Emt, Ema, Emi, Ex, Em0, Eu0, Eg0, Es0, Emt0, Ema0, Emi0, Ex0. tauto.
Qed.

Theorem walk_views_are_wf_proof :
  wf_entries (walk_entries cont t) /\ map fst (walk_entries cont t) = walk t.
Proof.
  split; [|apply walk_entries_fst]. split.
  - rewrite walk_entries_fst. split; [apply walk_sorted_listing|apply walk_closed_listing].
  - apply walk_links_canon.
Qed.

End WalkWf.
