(* C13 for SEVERAL sources (wildcard matches): every match whose landing path does not collide
   with the landing path of another match arrives as a faithful copy of its source tree.
   The specification side: what [overlay_srcs] does at and below the landing path of the i-th
   source, when no other source lands above, at or below it. *)
From Coq Require Import List NArith Bool Lia.
From FS Require Import Sx Model.Path Model.SymMode Model.Copier Model.CopySpec Proofs.Lex
  Proofs.CopierP Proofs.CopyOpsP Proofs.CopyDentP Proofs.CopyLinkP Proofs.CopyNodeP Proofs.CopyMkdirP Proofs.CopyConflictP
  Proofs.CopyTopP Proofs.CopyThmP Proofs.CopyFaithP.
Import ListNotations.
Open Scope N_scope.
Open Scope bool_scope.


Lemma apart_b_spec L1 L2 : apart_b L1 L2 = true <-> apart L1 L2.
Proof.
  unfold apart_b, apart. rewrite andb_true_iff, !negb_true_iff. split; intros [A B]; split.
  - intros r E. rewrite E, is_prefix_app in A. discriminate.
  - intros r E. rewrite E, is_prefix_app in B. discriminate.
  - destruct (is_prefix L1 L2) eqn:E; auto. apply is_prefix_true in E. destruct E as (r & E). destruct (A r E).
  - destruct (is_prefix L2 L1) eqn:E; auto. apply is_prefix_true in E. destruct E as (r & E). destruct (B r E).
Qed.

Lemma in_prefixes : forall rest pre p, In p (prefixes pre rest) -> exists r1 r2, rest = r1 ++ r2 /\ p = pre ++ r1.
Proof.
  induction rest as [|c rest IH]; intros pre p; cbn [prefixes].
  - intros [<-|[]]. exists [], []. split; [reflexivity|symmetry; apply app_nil_r].
  - intros [<-|H].
    + exists [], (c :: rest). split; [reflexivity|symmetry; apply app_nil_r].
    + destruct (IH _ _ H) as (r1 & r2 & -> & ->). exists (c :: r1), r2. rewrite <- app_assoc. auto.
Qed.

Lemma make_dirs_frame o r : forall pre V V1, make_dirs o pre r V = inl V1 ->
  forall p, ~ In p (prefixes pre r) -> V1 p = V p.
Proof.
  induction r as [|c r IH]; intros pre V V1.
  - rewrite make_dirs_nil. destruct (V pre) as [e|]; [|discriminate].
    destruct (negb (is_dir (x_d e))); [discriminate|]. intro H; inversion H; subst. auto.
  - rewrite make_dirs_cons. destruct (V pre) as [e|] eqn:Ep; [|discriminate].
    destruct (negb (is_dir (x_d e))); [discriminate|]. cbn [prefixes].
    destruct (V (pre ++ [c])) eqn:En; intros H p Hp.
    + apply (IH _ _ _ H). intro; apply Hp; right; auto.
    + rewrite (IH _ _ _ H p) by (intro; apply Hp; right; auto).
      assert (p <> pre ++ [c]) by (intros ->; apply Hp; right; destruct r; simpl; auto).
      assert (p <> pre) by (intros ->; apply Hp; left; auto).
      rewrite xupd_other, touch_other; auto.
Qed.

Lemma apart_below L1 L2 rel : apart L1 L2 -> strip_prefix L2 (L1 ++ rel) = None /\ forall x, L2 <> (L1 ++ rel) ++ x.
Proof.
  intros [A B]. split.
  - apply strip_prefix_none. intros r E. apply app_eq_app in E. destruct E as (l & [(E1 & E2)|(E1 & E2)]).
    + apply (B l). auto.
    + apply (A l). auto.
  - intros x E. rewrite <- app_assoc in E. apply (A _ E).
Qed.

Section Wild.
  Variable o : copts.
  Variable sroot : snode.
  Hypothesis Hsrc : wf_src sroot.
  Notation multi := (multi_of sroot).

  (* one source: what it leaves alone *)
  Lemma overlay_one_frame ms sn src D0 V r1 :
    overlay_one o ms multi sn src D0 V = inl r1 ->
    exists L, xr_landings r1 = [L] /\
      forall p, strip_prefix L p = None -> (forall x, L <> p ++ x) -> xr_view r1 p = V p.
  Proof.
    unfold overlay_one. destruct (spec_resolve V (clean D0)) as [D|]; [|discriminate].
    set (L := landing o sn src D V).
    set (target := if o_dircontents o && is_dir (sdent sn) && negb (x_exists (V D)) then L else parent L).
    destruct (make_dirs o [] target V) as [V1|] eqn:EM; [|discriminate].
    destruct (if o_replace o then None else first_conflict V1 L sn); [discriminate|].
    intro H; inversion H; subst r1; clear H. cbn [xr_view xr_landings].
    exists L. split; auto. intros p Hs Hp.
    assert (HV1 : V1 p = V p).
    { apply (make_dirs_frame _ _ _ _ _ EM). intro Hin. apply in_prefixes in Hin.
      destruct Hin as (r1 & r2 & E1 & E2). simpl in E2. subst p.
      unfold target in E1. destruct (_ && _ && _).
      - apply (Hp r2); auto.
      - destruct (path_snoc_cases L) as [E0|(P & a & E0)].
        + rewrite E0 in E1. simpl in E1. destruct r1; [|discriminate]. rewrite E0 in Hs. discriminate.
        + rewrite E0, parent_snoc in E1. apply (Hp (r2 ++ [a])). rewrite E0, E1, <- app_assoc. auto. }
    assert (HV2 : overlay_at o ms multi sn L V1 p = V p).
    { unfold overlay_at. rewrite Hs. auto. }
    clearbody target. clearbody L.
    destruct (path_snoc_cases L) as [E0|(P & a & E0)].
    - rewrite E0 in Hs. discriminate.
    - assert (HT : touch o (parent L) (overlay_at o ms multi sn L V1) p = V p).
      { rewrite touch_other; auto. intros ->. rewrite E0, parent_snoc in Hp. apply (Hp [a]). auto. }
      destruct L as [|l0 L0]; [destruct P; discriminate|].
      destruct (_ && _); auto.
  Qed.

  (* later sources that land apart from p's subtree leave p alone *)
  Lemma overlay_srcs_frame ms D0 : forall srcs V r, overlay_srcs o sroot ms D0 srcs V = inl r ->
    forall p, (forall j Lj, nth_error (xr_landings r) j = Some Lj -> strip_prefix Lj p = None /\ forall x, Lj <> p ++ x) ->
    xr_view r p = V p.
  Proof.
    induction srcs as [|s rest IH]; intros V r; cbn [overlay_srcs].
    - intro H; inversion H; subst. auto.
    - destruct (s_resolve sroot (rooted s)) as [sn|[]]; try discriminate.
      destruct (overlay_one o ms multi sn s D0 V) as [r1|] eqn:E1; [|discriminate].
      destruct (overlay_srcs o sroot ms D0 rest (xr_view r1)) as [r2|] eqn:E2; [|discriminate].
      intro H; inversion H; subst r; clear H. cbn [xr_view xr_landings]. intros p Hp.
      destruct (overlay_one_frame _ _ _ _ _ _ E1) as (L1 & EL1 & F1). rewrite EL1 in Hp.
      rewrite (IH _ _ E2 p).
      + destruct (Hp 0%nat L1 eq_refl). apply F1; auto.
      + intros j Lj Hj. apply (Hp (S j) Lj). auto.
  Qed.

  (* the shape of one source's result at and below its landing path *)
  Lemma overlay_one_at ms sn src D0 V r0 L :
    s_resolve sroot (rooted src) = inl sn ->
    overlay_one o ms multi sn src D0 V = inl r0 -> xr_landings r0 = [L] ->
    (L = [] -> x_isdir (V []) = true) ->
    exists V1 target,
      make_dirs o [] target V = inl V1 /\
      xr_merged r0 = [is_dir (sdent sn) && x_isdir (V1 L)] /\
      xr_paths r0 = prefixes [] target ++ s_paths L sn /\
      (L = [] -> is_dir (sdent sn) = true /\ x_isdir (V1 []) = true) /\
      (forall p, xr_view r0 p = res o ms multi sn L true V1 p) /\
      xr_notifs r0 = node_notifs V1 true L sn.
  Proof.
    intros Eres. unfold overlay_one. destruct (spec_resolve V (clean D0)) as [D|] eqn:ED; [|discriminate].
    set (L' := landing o sn src D V).
    set (target := if o_dircontents o && is_dir (sdent sn) && negb (x_exists (V D)) then L' else parent L').
    destruct (make_dirs o [] target V) as [V1|] eqn:EM; [|discriminate].
    destruct (if o_replace o then None else first_conflict V1 L' sn) eqn:EC; [discriminate|].
    intro H; inversion H; subst r0. clear H. cbn [xr_view xr_notifs xr_landings xr_merged xr_paths].
    intro H. assert (HL : L' = L) by (inversion H; reflexivity). clear H. intro Hr1.
    assert (HL0 : L' = [] -> is_dir (sdent sn) = true).
    { intro EL. assert (Hr : x_isdir (V []) = true) by (apply Hr1; rewrite <- HL; exact EL).
      unfold L', landing in EL.
      destruct ((negb (o_dircontents o) && is_dir (sdent sn) && x_exists (V D)) || (negb (is_dir (sdent sn)) && x_isdir (V D))) eqn:Ec.
      - destruct (rev (rooted src)) as [|b t] eqn:Er; [|exfalso; revert EL; apply snoc_ne_nil].
        assert (rooted src = []) as Hr0 by (rewrite <- (rev_involutive (rooted src)), Er; auto).
        rewrite Hr0 in Eres. destruct Hsrc as [_ Hdir]. destruct sroot; simpl in Eres. inversion Eres; subst. auto.
      - subst D. rewrite Hr in Ec. destruct (is_dir (sdent sn)); auto.
        rewrite orb_false_iff in Ec. destruct Ec as [_ Ec]. discriminate. }
    clearbody target. clearbody L'. subst L'.
    exists V1, target. split; auto. split; auto. split; auto.
    split; [intro E0; split; auto; eapply make_dirs_mono; eauto|].
    split; auto.
    intro p. unfold res. destruct L as [|l0 L0]; auto.
    rewrite (HL0 eq_refl), (make_dirs_mono o _ _ _ _ EM [] (Hr1 eq_refl)). auto.
  Qed.

  Lemma overlay_one_lens ms sn src D0 V r1 :
    overlay_one o ms multi sn src D0 V = inl r1 -> exists L m, xr_landings r1 = [L] /\ xr_merged r1 = [m].
  Proof.
    unfold overlay_one. destruct (spec_resolve V (clean D0)) as [D|]; [|discriminate].
    destruct (make_dirs o [] _ V) as [V1|]; [|discriminate].
    destruct (if o_replace o then None else first_conflict V1 _ sn); [discriminate|].
    intro H; inversion H; subst r1; clear H. cbn [xr_merged xr_landings]. eauto.
  Qed.

  (* the i-th source of a list of sources *)
  Lemma overlay_srcs_nth ms D0 : forall srcs V r, overlay_srcs o sroot ms D0 srcs V = inl r ->
    forall i s, nth_error srcs i = Some s ->
    exists sn Vi ri L m,
      s_resolve sroot (rooted s) = inl sn /\
      overlay_one o ms multi sn s D0 Vi = inl ri /\
      xr_landings ri = [L] /\ xr_merged ri = [m] /\
      nth_error (xr_landings r) i = Some L /\ nth_error (xr_merged r) i = Some m /\
      incl (xr_paths ri) (xr_paths r) /\
      ((forall j Lj, j <> i -> nth_error (xr_landings r) j = Some Lj -> apart L Lj) ->
       forall rel, Vi (L ++ rel) = V (L ++ rel) /\ xr_view r (L ++ rel) = xr_view ri (L ++ rel)).
  Proof.
    induction srcs as [|s0 rest IH]; intros V r; cbn [overlay_srcs].
    - intros _ [|i] s; discriminate.
    - destruct (s_resolve sroot (rooted s0)) as [sn0|e] eqn:Er0; [|destruct e; discriminate].
      destruct (overlay_one o ms multi sn0 s0 D0 V) as [r1|] eqn:E1; [|discriminate].
      destruct (overlay_srcs o sroot ms D0 rest (xr_view r1)) as [r2|] eqn:E2; [|discriminate].
      intro H; inversion H; subst r; clear H. cbn [xr_view xr_landings xr_merged xr_paths].
      destruct (overlay_one_lens _ _ _ _ _ _ E1) as (L1 & m1 & EL1 & Em1). rewrite EL1, Em1.
      intros [|i] s Hs.
      + simpl in Hs. inversion Hs; subst s0. clear Hs.
        exists sn0, V, r1, L1, m1. do 7 (split; [solve [auto using incl_appl, incl_refl]|]).
        intros Hap rel. split; auto.
        apply (overlay_srcs_frame _ _ _ _ _ E2). intros j Lj Hj.
        assert (A : apart L1 Lj) by (apply (Hap (S j)); [discriminate|exact Hj]).
        destruct (apart_below _ _ rel A). auto.
      + simpl in Hs. destruct (IH _ _ E2 i s Hs) as (sn & Vi & ri & L & m & A1 & A2 & A3 & A4 & A5 & A6 & A7 & A8).
        exists sn, Vi, ri, L, m. do 7 (split; [solve [auto using incl_appr]|]).
        intros Hap rel.
        assert (Hap' : forall j Lj, j <> i -> nth_error (xr_landings r2) j = Some Lj -> apart L Lj).
        { intros j Lj Hne Hj. apply (Hap (S j)); auto. }
        destruct (A8 Hap' rel) as [B1 B2]. split; auto. rewrite B1.
        destruct (overlay_one_frame _ _ _ _ _ _ E1) as (L1' & EL1' & F1). rewrite EL1 in EL1'. inversion EL1'; subst L1'.
        assert (A : apart L L1) by (apply (Hap 0%nat); [discriminate|reflexivity]).
        destruct (apart_below _ _ rel A). apply F1; auto.
  Qed.

  (* the specification at and below the landing path of the i-th source, when it lands apart from
     the others *)
  Lemma overlay_all_nth V0 src dst r srcs i s sn L m :
    x_isdir (xview_of V0 []) = true -> overlay_all o sroot V0 src dst = inl r ->
    (if o_wild o then resolve_wild sroot src else inl [src]) = inl srcs ->
    nth_error srcs i = Some s -> s_resolve sroot (rooted s) = inl sn ->
    nth_error (xr_landings r) i = Some L -> nth_error (xr_merged r) i = Some m ->
    (forall j Lj, j <> i -> nth_error (xr_landings r) j = Some Lj -> apart L Lj) ->
    exists X1 eps ms Vi V1 target,
      ((ensure_arg dst = [] /\ X1 = xview_of V0 /\ eps = []) \/
       (ensure_arg dst <> [] /\ exists ep, spec_resolve (xview_of V0) (ensure_arg dst) = inl ep /\
                                           make_dirs o [] ep (xview_of V0) = inl X1 /\ eps = prefixes [] ep)) /\
      parse_of o = Some ms /\
      (forall rel, Vi (L ++ rel) = X1 (L ++ rel)) /\
      make_dirs o [] target Vi = inl V1 /\
      m = is_dir (sdent sn) && x_isdir (V1 L) /\
      incl (eps ++ prefixes [] target ++ s_paths L sn) (xr_paths r) /\
      (L = [] -> is_dir (sdent sn) = true /\ x_isdir (V1 []) = true) /\
      (forall rel, xr_view r (L ++ rel) = res o ms multi sn L true V1 (L ++ rel)).
  Proof.
    intros Hroot Eo Hsrcs Hi Hs HL Hm Hap. unfold overlay_all in Eo.
    assert (Core : forall X1 ms r0, x_isdir (X1 []) = true ->
      overlay_srcs o sroot ms dst srcs X1 = inl r0 ->
      nth_error (xr_landings r0) i = Some L -> nth_error (xr_merged r0) i = Some m ->
      (forall j Lj, j <> i -> nth_error (xr_landings r0) j = Some Lj -> apart L Lj) ->
      exists Vi V1 target,
        (forall rel, Vi (L ++ rel) = X1 (L ++ rel)) /\
        make_dirs o [] target Vi = inl V1 /\
        m = is_dir (sdent sn) && x_isdir (V1 L) /\
        incl (prefixes [] target ++ s_paths L sn) (xr_paths r0) /\
        (L = [] -> is_dir (sdent sn) = true /\ x_isdir (V1 []) = true) /\
        (forall rel, xr_view r0 (L ++ rel) = res o ms multi sn L true V1 (L ++ rel))).
    { intros X1 ms r0 Hr1 E0 HL0 Hm0 Hap0.
      destruct (overlay_srcs_nth ms dst _ _ _ E0 i s Hi) as (sn' & Vi & ri & L' & m' & A1 & A2 & A3 & A4 & A5 & A6 & A7 & A8).
      rewrite Hs in A1. inversion A1; subst sn'. rewrite HL0 in A5. inversion A5; subst L'.
      rewrite Hm0 in A6. inversion A6; subst m'.
      specialize (A8 Hap0).
      assert (HrV : L = [] -> x_isdir (Vi []) = true).
      { intros ->. destruct (A8 []) as [B _]. simpl in B. rewrite B. auto. }
      destruct (overlay_one_at ms sn s dst Vi ri L Hs A2 A3 HrV) as (V1 & target & C1 & C2 & C3 & C4 & C5 & C6).
      exists Vi, V1, target. split; [intro rel; apply A8|]. split; auto.
      split; [rewrite A4 in C2; inversion C2; auto|].
      split; [rewrite <- C3; auto|]. split; auto.
      intro rel. destruct (A8 rel) as [_ B]. rewrite B. apply C5. }
    destruct (ensure_arg dst) as [|c0 e0] eqn:Een.
    - destruct (parse_of o) as [ms|] eqn:Ep; unfold parse_of in Ep; rewrite Ep in Eo; [|discriminate].
      rewrite Hsrcs in Eo. destruct srcs as [|s0 srcs']; [destruct i; discriminate|].
      destruct (overlay_srcs o sroot ms dst (s0 :: srcs') (xview_of V0)) as [r0|] eqn:E0; [|discriminate].
      inversion Eo; subst r; clear Eo. cbn [xr_view xr_notifs xr_landings xr_merged xr_paths] in *.
      destruct (Core _ ms r0 Hroot E0 HL Hm Hap) as (Vi & V1 & target & A1 & A2 & A3 & A4 & A5 & A6).
      exists (xview_of V0), [], ms, Vi, V1, target. do 7 (split; auto).
    - destruct (spec_resolve (xview_of V0) (c0 :: e0)) as [ep|] eqn:ESR; [|discriminate].
      destruct (make_dirs o [] ep (xview_of V0)) as [X1|] eqn:EM; [|discriminate].
      destruct (parse_of o) as [ms|] eqn:Ep; unfold parse_of in Ep; rewrite Ep in Eo; [|discriminate].
      rewrite Hsrcs in Eo. destruct srcs as [|s0 srcs']; [destruct i; discriminate|].
      destruct (overlay_srcs o sroot ms dst (s0 :: srcs') X1) as [r0|] eqn:E0; [|discriminate].
      inversion Eo; subst r; clear Eo. cbn [xr_view xr_notifs xr_landings xr_merged xr_paths] in *.
      pose proof (make_dirs_mono o _ _ _ _ EM [] Hroot) as Hr1.
      destruct (Core _ ms r0 Hr1 E0 HL Hm Hap) as (Vi & V1 & target & A1 & A2 & A3 & A4 & A5 & A6).
      exists X1, (prefixes [] ep), ms, Vi, V1, target.
      split; [right; split; [discriminate|]; exists ep; auto|].
      do 4 (split; auto). split; [apply incl_app; [apply incl_appl, incl_refl|apply incl_appr; auto]|]. split; auto.
  Qed.
End Wild.

(* destination paths of the non-directories of all sources, in copy order *)
Fixpoint nd_paths_all (Ls : list (list (list N))) (sns : list snode) : list (list (list N)) :=
  match Ls, sns with
  | L :: Ls', sn :: sns' => nd_paths L sn ++ nd_paths_all Ls' sns'
  | _, _ => []
  end.

Section C13Wild.
  Variable o : copts.
  Variable sroot : snode.
  Hypothesis Hsrc : wf_src sroot.
  Hypothesis Hlc : links_consistent sroot.
  Notation multi := (multi_of sroot).

  (* the facts about the i-th source over an empty destination that the C13 proofs need *)
  Lemma empty_nth fs src dst r ms srcs i s sn L m :
    empty_dst fs -> overlay_all o sroot (view_of_fs fs) src dst = inl r -> parse_of o = Some ms ->
    (if o_wild o then resolve_wild sroot src else inl [src]) = inl srcs ->
    nth_error srcs i = Some s -> s_resolve sroot (rooted s) = inl sn ->
    nth_error (xr_landings r) i = Some L -> nth_error (xr_merged r) i = Some m ->
    (forall j Lj, j <> i -> nth_error (xr_landings r) j = Some Lj -> apart L Lj) ->
    exists V1,
      m = is_dir (sdent sn) && x_isdir (V1 L) /\
      (L = [] -> is_dir (sdent sn) = true /\ x_isdir (V1 []) = true) /\
      (forall rel, xr_view r (L ++ rel) = res o ms multi sn L true V1 (L ++ rel)) /\
      (forall rel e, V1 (L ++ rel) = Some e -> L ++ rel = [] \/ fresh_dir_like (x_d e)) /\
      (forall rel, V1 (L ++ rel) <> None -> L ++ rel = [] \/ In (L ++ rel) (xr_paths r)).
  Proof.
    intros (Hfs & Hemp) Eo Hp Hsrcs Hi Hs HL Hm Hap.
    destruct (inv_init o fs Hfs) as (_ & Hroot & _).
    destruct (overlay_all_nth o sroot Hsrc _ src dst r srcs i s sn L m Hroot Eo Hsrcs Hi Hs HL Hm Hap)
      as (X1 & eps & ms' & Vi & V1 & target & B1 & B2 & B3 & B4 & B5 & B6 & B7 & B8).
    rewrite Hp in B2. inversion B2; subst ms'.
    set (X0 := xview_of (view_of_fs fs)) in *.
    assert (H0 : forall p e, X0 p = Some e -> p = []).
    { intros p e. unfold X0, xview_of, view_of_fs. destruct (path_dec p []) as [->|Hn]; auto.
      rewrite (Hemp p Hn). discriminate. }
    assert (H1 : forall p e, X1 p = Some e -> p = [] \/ fresh_dir_like (x_d e)).
    { destruct B1 as [(_ & -> & _)|(_ & ep & _ & EM & _)]; intros p e Hpe.
      - left. eapply H0; eauto.
      - destruct (make_dirs_shape _ _ _ _ _ EM p e Hpe) as [(e0 & A & _)|F]; auto. left. eapply H0; eauto. }
    assert (D1 : forall p, X1 p <> None -> p = [] \/ In p eps).
    { destruct B1 as [(_ & -> & ->)|(_ & ep & _ & EM & ->)]; intros p Hpn.
      - left. destruct (X0 p) eqn:E; [eapply H0; eauto|congruence].
      - destruct (make_dirs_dom _ _ _ _ _ EM p Hpn) as [A|A]; auto.
        left. destruct (X0 p) eqn:E; [eapply H0; eauto|congruence]. }
    exists V1. split; auto. split; auto. split; auto. split.
    - intros rel e Hpe. destruct (make_dirs_shape _ _ _ _ _ B4 _ e Hpe) as [(e0 & A & B)|F]; auto.
      rewrite <- B. rewrite B3 in A. eapply H1; eauto.
    - intros rel Hpn. destruct (make_dirs_dom _ _ _ _ _ B4 _ Hpn) as [A|A].
      + rewrite B3 in A. destruct (D1 _ A); auto. right. apply B6. apply in_or_app. auto.
      + right. apply B6. apply in_or_app. right. apply in_or_app. auto.
  Qed.

  (* C13 for wildcard sources: the i-th match, landing apart from the other matches, arrives as a
     faithful copy of its source tree (and with the source's inode partition when the exact
     partition is available: no link groups, or a literal source) *)
  Theorem copy_into_empty_faithful_wild_proof fs src dst r ms srcs i s sn L m :
    empty_dst fs -> overlay_all o sroot (view_of_fs fs) src dst = inl r -> parse_of o = Some ms ->
    (if o_wild o then resolve_wild sroot src else inl [src]) = inl srcs ->
    nth_error srcs i = Some s -> s_resolve sroot (rooted s) = inl sn ->
    nth_error (xr_landings r) i = Some L -> nth_error (xr_merged r) i = Some m ->
    (forall j Lj, j <> i -> nth_error (xr_landings r) j = Some Lj -> apart L Lj) ->
    landing_clear r sn L ->
    exists st', copy_top o sel_all sroot fs src dst = (st', None) /\
      (forall rel, iso_at o ms m sn L (view_of_fs (c_fs st')) rel = true) /\
      (no_link_groups sroot \/ o_wild o = false -> tree_iso o ms m sn L (view_of_fs (c_fs st'))).
  Proof.
    intros Hemp Eo Hp Hsrcs Hi Hs HL Hm Hap Hclear.
    destruct (empty_nth fs src dst r ms srcs i s sn L m Hemp Eo Hp Hsrcs Hi Hs HL Hm Hap)
      as (V1 & Hm' & B7 & B8 & H2 & D2).
    destruct Hemp as (Hfs & Hemp).
    destruct (copy_overlay_links_proof o sroot Hsrc Hlc fs src dst r Hfs Eo) as (st' & E1 & VM & _).
    exists st'. split; auto.
    pose proof (s_resolve_wf_src sroot Hsrc _ _ Hs) as Hwfn.
    assert (Hiso : forall rel, iso_at o ms m sn L (view_of_fs (c_fs st')) rel = true).
    { intro rel. unfold iso_at.
      pose proof (VM (L ++ rel)) as Hma. unfold match_at in Hma. rewrite B8 in Hma.
      destruct (s_lookup sn rel) as [s1|] eqn:Es.
      - rewrite (res_at_source o sroot ms sn L V1 rel s1 B7 Es) in Hma.
        destruct (view_of_fs (c_fs st') (L ++ rel)) as [[i1 d]|]; [|discriminate].
        destruct (dent_match_dm o _ _ Hma) as (Hdm & Hk).
        pose proof (wf_s_dent _ (s_lookup_wf _ _ _ Hwfn Es)) as Hwd.
        unfold copied in Hdm, Hk.
        destruct (V1 (L ++ rel)) as [e|] eqn:EV.
        + destruct (is_dir (sdent s1) && is_dir (x_d e)) eqn:Eb.
          * apply andb_true_iff in Eb as [Ed Ed'].
            destruct rel as [|a rel].
            -- simpl in Es. inversion Es; subst s1. rewrite app_nil_r in *.
               rewrite Hm'. unfold x_isdir. rewrite EV, Ed, Ed'. cbn [andb].
               unfold faithful_top_merged. cbn [x_d x_known] in *. rewrite (Hk eq_refl). cbn [set_mtime d_mtime].
               rewrite N.eqb_refl, andb_true_r. destruct Hdm as (Hmode & _).
               rewrite (is_dir_ftype d (set_mtime (info_time o (sdent sn)) (x_d e))); auto. apply ftype_mode; auto.
            -- destruct (H2 _ _ EV) as [E0|F]; [exfalso; destruct L; discriminate|].
               eapply faithful_merged_fresh; eauto.
          * assert (Hf : faithful_dent o ms (sdent s1) d = true) by (eapply faithful_new_entry; eauto; apply Hk; auto).
            destruct rel; auto. simpl in Es. inversion Es; subst s1. rewrite app_nil_r in *.
            rewrite Hm'. unfold x_isdir. rewrite EV. destruct (is_dir (sdent sn)); auto. cbn [andb] in *. rewrite Eb. auto.
        + assert (Hf : faithful_dent o ms (sdent s1) d = true) by (eapply faithful_new_entry; eauto; apply Hk; auto).
          destruct rel; auto. simpl in Es. inversion Es; subst s1. rewrite app_nil_r in *.
          rewrite Hm'. unfold x_isdir. rewrite EV, andb_false_r. auto.
      - assert (Hrel : rel <> []) by (intro; subst; destruct sn; discriminate).
        assert (EV : V1 (L ++ rel) = None).
        { destruct (V1 (L ++ rel)) eqn:E; auto. exfalso.
          destruct (D2 rel) as [E0|Hin]; [congruence| |].
          - apply app_eq_nil in E0 as [_ E0]. auto.
          - apply (Hclear rel Hrel Hin). auto. }
        rewrite (res_at_nonsource o sroot ms sn L V1 rel B7 Es EV) in Hma.
        destruct (view_of_fs (c_fs st') (L ++ rel)) as [[i1 d]|]; [discriminate|auto]. }
    split; auto. intro Hex. split; auto.
    destruct (copy_overlay_partial_proof o sroot Hsrc Hlc Hex fs src dst r Hfs Eo) as (st'' & E1' & (_ & VK) & _).
    rewrite E1 in E1'. inversion E1'; subst st''. clear E1'.
    intros r1 r2. unfold part_at.
    destruct (s_lookup sn r1) as [s1|] eqn:E1s; auto. destruct (s_lookup sn r2) as [s2|] eqn:E2s; auto.
    destruct (view_of_fs (c_fs st') (L ++ r1)) as [[i1 d1]|] eqn:EV1; auto.
    destruct (view_of_fs (c_fs st') (L ++ r2)) as [[i2 d2]|] eqn:EV2; auto.
    destruct (is_reg (sdent s1) && is_reg (sdent s2)) eqn:Ereg; auto.
    apply andb_true_iff in Ereg as [Er1 Er2].
    pose proof (VK (L ++ r1) (L ++ r2)) as HK. unfold keys_at in HK. rewrite EV1, EV2, !B8 in HK.
    rewrite (res_at_source o sroot ms sn L V1 r1 s1 B7 E1s), (res_at_source o sroot ms sn L V1 r2 s2 B7 E2s) in HK.
    pose proof (VM (L ++ r1)) as HM1. unfold match_at in HM1. rewrite EV1, B8, (res_at_source o sroot ms sn L V1 r1 s1 B7 E1s) in HM1.
    pose proof (VM (L ++ r2)) as HM2. unfold match_at in HM2. rewrite EV2, B8, (res_at_source o sroot ms sn L V1 r2 s2 B7 E2s) in HM2.
    destruct (type_facts (sdent s1)) as (TR1 & _). destruct (TR1 Er1) as (_ & _ & C1).
    destruct (type_facts (sdent s2)) as (TR2 & _). destruct (TR2 Er2) as (_ & _ & C2).
    assert (Nd1 : is_dir (sdent s1) = false) by (unfold is_dir; unfold is_reg in Er1; apply N.eqb_eq in Er1; rewrite Er1; reflexivity).
    assert (Nd2 : is_dir (sdent s2) = false) by (unfold is_dir; unfold is_reg in Er2; apply N.eqb_eq in Er2; rewrite Er2; reflexivity).
    assert (Ec1 : forall old top p, copied o ms multi s1 old top p = new_entry o ms multi s1 p).
    { intros old top p. unfold copied. rewrite Nd1. destruct old; auto. }
    assert (Ec2 : forall old top p, copied o ms multi s2 old top p = new_entry o ms multi s2 p).
    { intros old top p. unfold copied. rewrite Nd2. destruct old; auto. }
    rewrite Ec1 in HK, HM1. rewrite Ec2 in HK, HM2.
    assert (Hd1 : is_dir d1 = false).
    { destruct (dent_match_dm o _ _ HM1) as (Hdm & _). rewrite (dm_is_dir _ _ _ Hdm), new_entry_d. apply ne_d_nondir; auto. }
    assert (Hd2 : is_dir d2 = false).
    { destruct (dent_match_dm o _ _ HM2) as (Hdm & _). rewrite (dm_is_dir _ _ _ Hdm), new_entry_d. apply ne_d_nondir; auto. }
    rewrite Hd1, Hd2 in HK. cbn [orb] in HK.
    rewrite !new_entry_key_gen, Er1, Er2 in HK. cbn [andb] in HK.
    apply Bool.eqb_prop in HK. rewrite HK. clear HK.
    destruct (multi (sino s1)) eqn:M1, (multi (sino s2)) eqn:M2; cbn [ikey_eqb].
    - destruct (N.eqb (sino s1) (sino s2)); reflexivity.
    - destruct (N.eqb (sino s1) (sino s2)) eqn:E; auto. apply N.eqb_eq in E. rewrite E in M1. congruence.
    - destruct (N.eqb (sino s1) (sino s2)) eqn:E; auto. apply N.eqb_eq in E. rewrite E in M1. congruence.
    - destruct (path_eqb (L ++ r1) (L ++ r2)) eqn:Epp.
      + apply path_eqb_eq in Epp. apply app_inv_head in Epp. subst r2. rewrite E1s in E2s. inversion E2s; subst.
        rewrite N.eqb_refl. reflexivity.
      + destruct (N.eqb (sino s1) (sino s2)) eqn:E; auto. apply N.eqb_eq in E. exfalso.
        assert (r1 <> r2) by (intro; subst; rewrite path_eqb_refl in Epp; discriminate).
        rewrite (multi_of_two sroot _ sn r1 r2 s1 s2 Hs Hwfn H E1s E2s Nd1 Nd2 E) in M1. discriminate.
  Qed.

  (* the requested owner / mode / time on the entries of the i-th match, on any destination *)
  Theorem copy_options_applied_wild_proof fs src dst r ms srcs i s sn L m :
    wf_fs fs -> overlay_all o sroot (view_of_fs fs) src dst = inl r -> parse_of o = Some ms ->
    (if o_wild o then resolve_wild sroot src else inl [src]) = inl srcs ->
    nth_error srcs i = Some s -> s_resolve sroot (rooted s) = inl sn ->
    nth_error (xr_landings r) i = Some L -> nth_error (xr_merged r) i = Some m ->
    (forall j Lj, j <> i -> nth_error (xr_landings r) j = Some Lj -> apart L Lj) ->
    exists st', copy_top o sel_all sroot fs src dst = (st', None) /\
      (forall rel s1, s_lookup sn rel = Some s1 -> (rel = [] -> m = false) ->
         exists i1 d, view_of_fs (c_fs st') (L ++ rel) = Some (i1, d) /\
           d_uid d = fst (info_owner o (sdent s1)) /\ d_gid d = snd (info_owner o (sdent s1)) /\
           (is_lnk (sdent s1) = false -> perm12 d = info_mode o ms (sdent s1)) /\
           d_mtime d = info_time o (sdent s1) /\ ftype d = copy_type (sdent s1)) /\
      (forall p e, xr_view r p = Some e -> x_mk e = true ->
         exists i1 d, view_of_fs (c_fs st') p = Some (i1, d) /\
           (forall u g, o_chown o = Some (u, g) -> d_uid d = u /\ d_gid d = g) /\
           (forall t, o_utime o = Some t -> d_mtime d = t)).
  Proof.
    intros Hfs Eo Hp Hsrcs Hi Hs HL Hm Hap.
    destruct (topg o sroot Hsrc Hlc fs src dst Hfs) as (sdof & HT). rewrite Eo in HT.
    destruct HT as (st' & E1 & I & S & _ & MT & (cr & Hg) & _).
    exists st'. split; auto.
    destruct (inv_init o fs Hfs) as (_ & Hroot & _).
    destruct (overlay_all_nth o sroot Hsrc _ src dst r srcs i s sn L m Hroot Eo Hsrcs Hi Hs HL Hm Hap)
      as (X1 & eps & ms' & Vi & V1 & target & B1 & B2 & B3 & B4 & B5 & B6 & B7 & B8).
    rewrite Hp in B2. inversion B2; subst ms'.
    split.
    - intros rel s1 Es Htop.
      pose proof (B8 rel) as Ex. rewrite (res_at_source o sroot ms sn L V1 rel s1 B7 Es) in Ex.
      destruct (inv_x_some _ _ _ _ _ I Ex) as (i1 & Hi1 & Hdm & _).
      exists i1, (inodes (c_fs st') i1). split; [unfold view_of_fs; rewrite Hi1; auto|].
      eapply (copied_options o ms multi s1 (V1 (L ++ rel)) (match rel with [] => true | _ => false end)); eauto.
      destruct rel; [|discriminate]. intros _. simpl in Es. inversion Es; subst s1. rewrite app_nil_r.
      specialize (Htop eq_refl). rewrite B5 in Htop. unfold x_isdir in Htop. destruct (V1 L); auto.
    - intros p e Hpe Hmk. destruct (inv_x_some _ _ _ _ _ I Hpe) as (i1 & Hi1 & Hdm & _).
      exists i1, (inodes (c_fs st') i1). split; [unfold view_of_fs; rewrite Hi1; auto|].
      pose proof (Hg p) as Hgp. unfold Gp in Hgp. rewrite Hpe in Hgp. destruct Hgp as [G1 G2].
      destruct (G2 (G1 Hmk)) as (_ & _ & K2). destruct Hdm as (_ & A2 & A3 & _). split.
      + intros u g Hc. destruct (K2 u g Hc). split; congruence.
      + intros t Ht. eapply MT; eauto.
  Qed.

  Lemma overlay_srcs_notifs ms D0 : forall srcs V r sns, overlay_srcs o sroot ms D0 srcs V = inl r ->
    Forall2 (fun s sn => s_resolve sroot (rooted s) = inl sn) srcs sns ->
    length (xr_landings r) = length srcs /\
    map fst (filter (fun pb => negb (snd pb)) (xr_notifs r)) = nd_paths_all (xr_landings r) sns.
  Proof.
    induction srcs as [|s0 rest IH]; intros V r sns; cbn [overlay_srcs].
    - intro H; inversion H; subst. intro F; inversion F; subst. auto.
    - intros H F. inversion F as [|? sn0 ? sns' Hs0 F']; subst. rewrite Hs0 in H.
      destruct (overlay_one o ms multi sn0 s0 D0 V) as [r1|] eqn:E1; [|discriminate].
      destruct (overlay_srcs o sroot ms D0 rest (xr_view r1)) as [r2|] eqn:E2; [|discriminate].
      inversion H; subst r; clear H. cbn [xr_landings xr_notifs].
      destruct (IH _ _ _ E2 F') as [A1 A2].
      unfold overlay_one in E1. destruct (spec_resolve V (clean D0)) as [D|]; [|discriminate].
      destruct (make_dirs o [] _ V) as [V1|]; [|discriminate].
      destruct (if o_replace o then None else first_conflict V1 _ sn0); [discriminate|].
      inversion E1; subst r1; clear E1. cbn [xr_landings xr_notifs app length nd_paths_all].
      split; [congruence|]. rewrite filter_app_, map_app, notifs_nondirs, A2. auto.
  Qed.

  (* a directory is only ever notified with the path of a source directory of some match *)
  Lemma overlay_srcs_notifs_dirs ms D0 : forall srcs V r sns, overlay_srcs o sroot ms D0 srcs V = inl r ->
    Forall2 (fun s sn => s_resolve sroot (rooted s) = inl sn) srcs sns ->
    forall q, In (q, true) (xr_notifs r) ->
    exists j Lj snj rel s1, nth_error (xr_landings r) j = Some Lj /\ nth_error sns j = Some snj /\
      q = Lj ++ rel /\ s_lookup snj rel = Some s1 /\ is_dir (sdent s1) = true.
  Proof.
    induction srcs as [|s0 rest IH]; intros V r sns; cbn [overlay_srcs].
    - intro H; inversion H; subst. intros _ q [].
    - intros H F. inversion F as [|? sn0 ? sns' Hs0 F']; subst. rewrite Hs0 in H.
      destruct (overlay_one o ms multi sn0 s0 D0 V) as [r1|] eqn:E1; [|discriminate].
      destruct (overlay_srcs o sroot ms D0 rest (xr_view r1)) as [r2|] eqn:E2; [|discriminate].
      inversion H; subst r; clear H. cbn [xr_landings xr_notifs].
      unfold overlay_one in E1. destruct (spec_resolve V (clean D0)) as [D|]; [|discriminate].
      destruct (make_dirs o [] _ V) as [V1|]; [|discriminate].
      destruct (if o_replace o then None else first_conflict V1 _ sn0); [discriminate|].
      inversion E1; subst r1; clear E1. cbn [xr_landings xr_notifs app] in *.
      intros q Hq. apply in_app_or in Hq. destruct Hq as [Hq|Hq].
      + pose proof (s_resolve_wf_src sroot Hsrc _ _ Hs0) as Hwf.
        destruct (notifs_dirs _ _ Hwf _ _ _ Hq) as (rel & s1 & A & B & C).
        exists 0%nat. eexists. exists sn0, rel, s1. repeat split; eauto.
      + destruct (IH _ _ _ E2 F' q Hq) as (j & Lj & snj & rel & s1 & A & B & C & D' & E').
        exists (S j), Lj, snj, rel, s1. repeat split; auto.
  Qed.

  (* notifications for wildcard sources: one per source non-directory, match by match, in order *)
  Theorem notifier_exact_wild_proof fs src dst r srcs sns :
    wf_fs fs -> overlay_all o sroot (view_of_fs fs) src dst = inl r ->
    (if o_wild o then resolve_wild sroot src else inl [src]) = inl srcs ->
    Forall2 (fun s sn => s_resolve sroot (rooted s) = inl sn) srcs sns ->
    exists st', copy_top o sel_all sroot fs src dst = (st', None) /\
      length (xr_landings r) = length srcs /\
      map fst (filter (fun pb => negb (snd pb)) (rev (c_notifs st'))) = nd_paths_all (xr_landings r) sns /\
      (forall q, In (q, true) (rev (c_notifs st')) ->
         exists j Lj snj rel s1, nth_error (xr_landings r) j = Some Lj /\ nth_error sns j = Some snj /\
           q = Lj ++ rel /\ s_lookup snj rel = Some s1 /\ is_dir (sdent s1) = true).
  Proof.
    intros Hfs Eo Hsrcs F.
    destruct (copy_overlay_links_proof o sroot Hsrc Hlc fs src dst r Hfs Eo) as (st' & E1 & _ & _ & EN).
    exists st'. split; auto. rewrite EN. clear EN E1.
    cut ((length (xr_landings r) = length srcs /\
          map fst (filter (fun pb => negb (snd pb)) (xr_notifs r)) = nd_paths_all (xr_landings r) sns) /\
         (forall q, In (q, true) (xr_notifs r) ->
            exists j Lj snj rel s1, nth_error (xr_landings r) j = Some Lj /\ nth_error sns j = Some snj /\
              q = Lj ++ rel /\ s_lookup snj rel = Some s1 /\ is_dir (sdent s1) = true)); [tauto|].
    unfold overlay_all in Eo.
    destruct (match ensure_arg dst with [] => _ | _ => _ end) as [[X1 eps]|]; [|discriminate].
    destruct (match o_modestr o with [] => _ | _ => _ end) as [ms|]; [|discriminate].
    rewrite Hsrcs in Eo. destruct srcs as [|s0 srcs']; [discriminate|].
    destruct (overlay_srcs o sroot ms dst (s0 :: srcs') X1) as [r0|] eqn:E0; [|discriminate].
    inversion Eo; subst r; clear Eo. cbn [xr_landings xr_notifs].
    split; [eapply overlay_srcs_notifs; eauto|eapply overlay_srcs_notifs_dirs; eauto].
  Qed.
End C13Wild.

(* ---- backslash escapes: on backslash-free components the escape-aware functions of
   resolve_wild are the plain ones (has_wild / split_wild / glob), which is what the
   source-equivalence theorems splitWildcards_src_eq / copy_containsWildcards_src_eq speak about *)
Lemma has_wild_e_plain c : existsb (N.eqb ch_bsl) c = false -> has_wild_e c = has_wild c.
Proof.
  unfold has_wild. induction c as [|x r IH]; auto. cbn [existsb has_wild_e].
  intro H. apply orb_false_iff in H as [H1 H2]. rewrite N.eqb_sym, H1, (IH H2). reflexivity.
Qed.

Lemma split_wild_e_plain cs : forallb (fun c => negb (existsb (N.eqb ch_bsl) c)) cs = true ->
  split_wild_e cs = split_wild cs.
Proof.
  induction cs as [|c r IH]; auto. cbn [forallb split_wild_e split_wild].
  intro H. apply andb_true_iff in H as [H1 H2]. apply negb_true_iff in H1.
  rewrite (has_wild_e_plain c H1), (IH H2). reflexivity.
Qed.

Lemma glob_e_plain : forall pat, existsb (N.eqb ch_bsl) pat = false -> forall name, glob_e pat name = glob pat name.
Proof.
  induction pat as [|c pr IH]; auto. cbn [existsb]. intro H. apply orb_false_iff in H as [H1 H2].
  specialize (IH H2). intro name. cbn [glob_e glob]. rewrite (N.eqb_sym c ch_bsl), H1.
  destruct (N.eqb c ch_star).
  - induction name as [|x n IHn]; [rewrite IH; reflexivity|]. rewrite IH, IHn. reflexivity.
  - destruct name; auto. rewrite IH. reflexivity.
Qed.

(* the escape rules themselves, on the shapes of the seeded change: an escaped metacharacter does
   not make a component a pattern, a real one after it does *)
Example has_wild_e_examples :
  has_wild_e [92; 91; 42] = true /\ has_wild_e [120; 92; 63; 63] = true /\
  has_wild_e [92; 91] = false /\ has_wild_e [97; 92; 42] = false /\ has_wild_e [92; 92; 42] = true /\
  glob_e [92; 91; 42] [91; 97; 98] = true /\ glob_e [120; 92; 63; 63] [120; 63; 122] = true /\
  glob_e [120; 92; 63; 63] [120; 121; 122] = false.
Proof. vm_compute. repeat split. Qed.

(* ---- landing_clear: what is left of it ---- *)
Lemma s_paths_spec : forall n, wf_s n -> forall p q, In q (s_paths p n) ->
  exists rel s, q = p ++ rel /\ s_lookup n rel = Some s.
Proof.
  induction n as [nm ino sd kids IH] using snode_ind2. intros Hwf p q. cbn [s_paths].
  apply wf_s_unfold in Hwf. destruct Hwf as (_ & _ & Hnd & Hall).
  intros [<-|H]; [exists [], (SNode nm ino sd kids); rewrite app_nil_r; auto|].
  assert (G : forall l, Forall wf_s l ->
                Forall (fun n => wf_s n -> forall p q, In q (s_paths p n) ->
                          exists rel s, q = p ++ rel /\ s_lookup n rel = Some s) l ->
                In q ((fix go (l : list snode) := match l with [] => [] | k :: r => s_paths (p ++ [sname k]) k ++ go r end) l) ->
                exists k rel s, In k l /\ q = (p ++ [sname k]) ++ rel /\ s_lookup k rel = Some s).
  { induction l as [|k r IHr]; intros HW HF Hin; [destruct Hin|].
    inversion HF as [|? ? Hk Hr]; inversion HW as [|? ? Hw1 Hw2]; subst.
    apply in_app_or in Hin. destruct Hin as [Hin|Hin].
    - destruct (Hk Hw1 _ _ Hin) as (rel & s & A & B). exists k, rel, s. split; [left|]; auto.
    - destruct (IHr Hw2 Hr Hin) as (k' & rel & s & A & B). exists k', rel, s. split; [right|]; auto. }
  destruct (G kids Hall IH H) as (k & rel & s & A & B & C).
  exists (sname k :: rel), s. split; [rewrite B, <- app_assoc; auto|].
  cbn [s_lookup skids]. rewrite (find_kid_in_nodup _ Hnd _ A). auto.
Qed.

Lemma below_not_prefix (L rel t : list (list N)) : rel <> [] -> L <> (L ++ rel) ++ t.
Proof.
  intros Hr E. rewrite <- app_assoc in E. rewrite <- (app_nil_r L) in E at 1. apply app_inv_head in E.
  symmetry in E. apply app_eq_nil in E. destruct E. auto.
Qed.

Section Clear.
  Variable o : copts.
  Variable sroot : snode.
  Hypothesis Hsrc : wf_src sroot.

  (* one literal source: the directories made for the copy proper (prefixes of the target) and the
     source's own paths never violate landing_clear; what remains is the ensure path of dst
     (ensureDstPath): it is enough that the resolved ensure path is a prefix of the landing path *)
  Lemma landing_clear_of_prefix V0 src dst r sn L :
    o_wild o = false -> x_isdir (xview_of V0 []) = true -> overlay_all o sroot V0 src dst = inl r ->
    s_resolve sroot (rooted src) = inl sn -> xr_landings r = [L] ->
    (ensure_arg dst <> [] -> forall ep, spec_resolve (xview_of V0) (ensure_arg dst) = inl ep -> exists t, L = ep ++ t) ->
    landing_clear r sn L.
  Proof.
    intros Hw Hroot Eo Hs HL Hens.
    destruct (overlay_all_single o sroot Hsrc _ src dst r Hw Hroot Eo)
      as (X1 & eps & ms' & sn' & D & V1 & B1 & B2 & B3 & B4 & B5 & B6 & B7 & B8 & B9 & B10 & B11 & B12).
    rewrite Hs in B3. inversion B3; subst sn'. rewrite HL in B10. inversion B10 as [HL']. rewrite <- HL' in *. clear HL' B10.
    pose proof (s_resolve_wf_src sroot Hsrc _ _ Hs) as Hwfn.
    intros rel Hrel Hin. rewrite B12 in Hin.
    apply in_app_or in Hin. destruct Hin as [Hin|Hin].
    - exfalso. destruct B1 as [(_ & _ & ->)|(Hne & ep & E1 & _ & ->)]; [destruct Hin|].
      destruct (Hens Hne ep E1) as (t & Et).
      apply in_prefixes in Hin. destruct Hin as (r1 & r2 & E2 & E3). simpl in E3.
      apply (below_not_prefix L rel (r2 ++ t) Hrel). rewrite E3, app_assoc, <- E2. exact Et.
    - apply in_app_or in Hin. destruct Hin as [Hin|Hin].
      + exfalso. apply in_prefixes in Hin. destruct Hin as (r1 & r2 & E2 & E3). simpl in E3.
        destruct (o_dircontents o && is_dir (sdent sn) && negb (x_exists (X1 D))).
        * apply (below_not_prefix L rel r2 Hrel). rewrite E3. exact E2.
        * destruct (path_snoc_cases L) as [E0|(P & a & E0)].
          -- rewrite E0 in E2. simpl in E2. destruct r1; [|discriminate]. rewrite E0 in E3. simpl in E3. subst rel. auto.
          -- rewrite E0, parent_snoc in E2. apply (below_not_prefix L rel (r2 ++ [a]) Hrel).
             rewrite E3, app_assoc, <- E2. exact E0.
      + destruct (s_paths_spec _ Hwfn _ _ Hin) as (rel' & s & E & Es). apply app_inv_head in E. subst rel'. congruence.
  Qed.
End Clear.

(* C13 for one literal source with landing_clear discharged: it is enough that the resolved
   ensure path of dst is a prefix of the landing path *)
Theorem copy_into_empty_faithful_ensure_proof o sroot (Hsrc : wf_src sroot) (Hlc : links_consistent sroot)
  fs src dst r ms sn L m :
  o_wild o = false -> empty_dst fs ->
  overlay_all o sroot (view_of_fs fs) src dst = inl r ->
  parse_of o = Some ms -> s_resolve sroot (rooted src) = inl sn ->
  xr_landings r = [L] -> xr_merged r = [m] ->
  (ensure_arg dst <> [] -> forall ep, spec_resolve (xview_of (view_of_fs fs)) (ensure_arg dst) = inl ep -> exists t, L = ep ++ t) ->
  exists st', copy_top o sel_all sroot fs src dst = (st', None) /\
              tree_iso o ms m sn L (view_of_fs (c_fs st')).
Proof.
  intros Hw Hemp Eo Hp Hs HL Hm Hens.
  eapply copy_into_empty_faithful_proof; eauto.
  destruct Hemp as (Hfs & _). destruct (inv_init o fs Hfs) as (_ & Hroot & _).
  eapply landing_clear_of_prefix; eauto.
Qed.

