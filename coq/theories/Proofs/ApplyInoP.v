(* C01 — generic facts about AbsDest.apply_all (any change list): framing (a change at p only
   touches paths at or below p), the entry a change leaves at its own path (a hard link: the
   metadata of the inode it joins, AbsDest.link_stat), and two
   invariants of the inode classes:
     ino_lt      every class in the map is below the counter,
     nonlink_inj two different paths whose stats are not hard links never share a class.
   For a list of changes in strictly ascending path order this yields what the final map holds
   at the path of every change ([changed_final]). *)
From Coq Require Import List NArith Lia Bool Sorting.Sorted.
From FS Require Import Sx Model.Path Model.Stat Model.Diff Model.AbsDest
  Proofs.Lex Proofs.PathP Proofs.DiffP Proofs.AbsDestP.
Import ListNotations.
Open Scope N_scope.
Open Scope bool_scope.

Definition ino_lt (D : dmap) (n : N) : Prop := forall p e, alookup p D = Some e -> de_ino e < n.

Definition nonlink_inj (D : dmap) : Prop :=
  forall p q e1 e2, p <> q -> alookup p D = Some e1 -> alookup q D = Some e2 ->
  is_hardlink (de_stat e1) = false -> is_hardlink (de_stat e2) = false -> de_ino e1 <> de_ino e2.

Section Gen.
Variable src : bytes -> bytes.

Lemma apply_all_noerr : forall cs D n D' n' dn,
  apply_all src cs D n = (D', n', dn, false) -> dn = cs.
Proof.
  intros cs D n D' n' dn E. destruct (apply_all_spec src (fun b => b) (fun _ => []) _ _ _ _ _ _ _ E) as [(rest & -> & Hr) _].
  rewrite (Hr eq_refl), app_nil_r. reflexivity.
Qed.

Lemma apply_all_split : forall pre c post D n D' n' dn,
  apply_all src (pre ++ c :: post) D n = (D', n', dn, false) ->
  exists D1 n1 D2 n2,
    apply_all src pre D n = (D1, n1, pre, false) /\ apply_map src D1 n1 c = Some (D2, n2) /\
    apply_all src post D2 n2 = (D', n', post, false).
Proof.
  induction pre as [|x pre IH]; intros c post D n D' n' dn E.
  - simpl in E. destruct (apply_map src D n c) as [[D2 n2]|] eqn:Ea.
    + destruct (apply_all src post D2 n2) as [[[D3 n3] dn3] e3] eqn:Er. inversion E; subst.
      exists D, n, D2, n2. split; [reflexivity|]. split; auto.
      rewrite (apply_all_noerr _ _ _ _ _ _ Er) in Er. exact Er.
    + inversion E.
  - simpl in E. destruct (apply_map src D n x) as [[Dx nx]|] eqn:Ea; [|inversion E].
    destruct (apply_all src (pre ++ c :: post) Dx nx) as [[[D3 n3] dn3] e3] eqn:Er. inversion E; subst.
    destruct (IH _ _ _ _ _ _ _ Er) as (D1 & n1 & D2 & n2 & H1 & H2 & H3).
    exists D1, n1, D2, n2. split; [|auto]. simpl. rewrite Ea, H1. reflexivity.
Qed.

(* ---- framing ---- *)
Lemma apply_map_frame D n c D' n' x :
  apply_map src D n c = Some (D', n') -> at_or_below (ch_path c) x = false -> alookup x D' = alookup x D.
Proof.
  destruct c as [[k p] [st|]]; unfold ch_path; simpl fst; simpl snd; intros E Hx.
  - assert (Hpx : p <> x).
    { intros ->. unfold at_or_below in Hx. rewrite bytes_eqb_refl in Hx. discriminate. }
    assert (Hrm : forall M : dmap, alookup x (aremove_if (at_or_below p) M) = alookup x M).
    { intros M. rewrite alookup_aremove_if, Hx. reflexivity. }
    destruct k; simpl in E.
    + (* add *)
      destruct (alookup p D) as [o|] eqn:Eo.
      * destruct (st_is_dir st && st_is_dir (de_stat o)).
        { inversion E; subst. apply alookup_aset_other; auto. }
        destruct (is_hardlink st).
        { destruct (alookup (st_linkname st) D) as [t|]; [|discriminate].
          destruct (st_is_dir (de_stat t)); [discriminate|]. inversion E; subst.
          rewrite alookup_aset_other; auto. destruct (Bool.eqb _ _); auto. }
        inversion E; subst. rewrite alookup_aset_other; auto. destruct (Bool.eqb _ _); auto.
      * destruct (is_hardlink st).
        { destruct (alookup (st_linkname st) D) as [t|]; [|discriminate].
          destruct (st_is_dir (de_stat t)); [discriminate|]. inversion E; subst.
          rewrite alookup_aset_other; auto. }
        inversion E; subst. rewrite alookup_aset_other; auto.
    + (* modify *)
      destruct (alookup p D) as [o|] eqn:Eo; [|discriminate].
      destruct (st_is_dir st && st_is_dir (de_stat o)).
      { inversion E; subst. apply alookup_aset_other; auto. }
      destruct (is_hardlink st).
      { destruct (alookup (st_linkname st) D) as [t|]; [|discriminate].
        destruct (st_is_dir (de_stat t)); [discriminate|]. inversion E; subst.
        rewrite alookup_aset_other; auto. destruct (Bool.eqb _ _); auto. }
      inversion E; subst. rewrite alookup_aset_other; auto. destruct (Bool.eqb _ _); auto.
    + inversion E; subst. apply Hrm.
  - destruct k; simpl in E; try discriminate. inversion E; subst.
    rewrite alookup_aremove_if, Hx. reflexivity.
Qed.

Lemma apply_all_frame : forall cs D n D' n' dn x,
  apply_all src cs D n = (D', n', dn, false) ->
  (forall c, In c cs -> compare_path x (ch_path c) = Lt) -> alookup x D' = alookup x D.
Proof.
  induction cs as [|c cs IH]; intros D n D' n' dn x E Hlt.
  - simpl in E. inversion E; subst. reflexivity.
  - simpl in E. destruct (apply_map src D n c) as [[D1 n1]|] eqn:Ea; [|inversion E].
    destruct (apply_all src cs D1 n1) as [[[D2 n2] dn2] e2] eqn:Er. inversion E; subst.
    rewrite (IH _ _ _ _ _ x Er); [|intros c' Hc'; apply Hlt; right; auto].
    eapply apply_map_frame; eauto.
    destruct (at_or_below (ch_path c) x) eqn:Ab; auto.
    apply at_or_below_le in Ab. exfalso. apply Ab, Hlt. left; auto.
Qed.

(* ---- what one change leaves at its own path ---- *)
Lemma apply_map_at D n k p st D' n' :
  k <> KDelete -> apply_map src D n (k, p, Some st) = Some (D', n') ->
  exists e, alookup p D' = Some e /\ (is_hardlink st = false -> de_stat e = st) /\
    ((st_is_dir st = true /\ n' = n /\
      exists o, alookup p D = Some o /\ st_is_dir (de_stat o) = true /\ de_ino e = de_ino o /\ de_bytes e = de_bytes o)
     \/ (is_hardlink st = true /\ n' = n /\
         exists t, alookup (st_linkname st) D = Some t /\ st_is_dir (de_stat t) = false /\
                   de_ino e = de_ino t /\ de_bytes e = de_bytes t /\
                   (* a new name shows the metadata of the inode it joins, not the stat as sent *)
                   de_stat e = link_stat (de_stat t) st)
     \/ (is_hardlink st = false /\ n' = n + 1 /\ de_ino e = n /\
         de_bytes e = (if wants_content st then src p else []) /\
         (st_is_dir st = true -> forall o, alookup p D = Some o -> st_is_dir (de_stat o) = false))).
Proof.
  intros Hd E.
  assert (Hbody :
    match alookup p D with
    | Some o =>
        if st_is_dir st && st_is_dir (de_stat o) then
          Some (aset p {| de_stat := st; de_bytes := de_bytes o; de_ino := de_ino o |} D, n)
        else
          let D1 := if Bool.eqb (st_is_dir (de_stat o)) (st_is_dir st) then D
                    else aremove_if (at_or_below p) D in
          if is_hardlink st then
            match alookup (st_linkname st) D with
            | Some t => if st_is_dir (de_stat t) then None
                        else Some (aset p {| de_stat := link_stat (de_stat t) st; de_bytes := de_bytes t; de_ino := de_ino t |} D1, n)
            | None => None
            end
          else Some (aset p {| de_stat := st; de_bytes := if wants_content st then src p else [];
                               de_ino := n |} D1, n + 1)
    | None =>
          if is_hardlink st then
            match alookup (st_linkname st) D with
            | Some t => if st_is_dir (de_stat t) then None
                        else Some (aset p {| de_stat := link_stat (de_stat t) st; de_bytes := de_bytes t; de_ino := de_ino t |} D, n)
            | None => None
            end
          else Some (aset p {| de_stat := st; de_bytes := if wants_content st then src p else [];
                               de_ino := n |} D, n + 1)
    end = Some (D', n')).
  { destruct k; simpl in E; try (exfalso; apply Hd; reflexivity).
    - destruct (alookup p D); exact E.
    - destruct (alookup p D); [exact E|discriminate]. }
  clear E Hd.
  destruct (alookup p D) as [o|] eqn:Eo.
  - destruct (st_is_dir st && st_is_dir (de_stat o)) eqn:Edd.
    + inversion Hbody; subst. apply andb_true_iff in Edd. destruct Edd as [E1 E2].
      eexists. split; [apply alookup_aset_same|]. split; [reflexivity|]. left.
      split; auto. split; auto. exists o. simpl. auto.
    + cbv zeta in Hbody. destruct (is_hardlink st) eqn:Eh.
      * destruct (alookup (st_linkname st) D) as [t|] eqn:Et; [|discriminate].
        destruct (st_is_dir (de_stat t)) eqn:Etd; [discriminate|]. inversion Hbody; subst.
        eexists. split; [apply alookup_aset_same|]. split; [discriminate|]. right; left.
        split; auto. split; auto. exists t. simpl. auto.
      * inversion Hbody; subst.
        eexists. split; [apply alookup_aset_same|]. split; [reflexivity|]. right; right.
        simpl. repeat split; auto. intros Hsd o' Ho'. inversion Ho'; subst.
        rewrite Hsd in Edd. simpl in Edd. exact Edd.
  - destruct (is_hardlink st) eqn:Eh.
    + destruct (alookup (st_linkname st) D) as [t|] eqn:Et; [|discriminate].
      destruct (st_is_dir (de_stat t)) eqn:Etd; [discriminate|]. inversion Hbody; subst.
      eexists. split; [apply alookup_aset_same|]. split; [discriminate|]. right; left.
      split; auto. split; auto. exists t. simpl. auto.
    + inversion Hbody; subst.
      eexists. split; [apply alookup_aset_same|]. split; [reflexivity|]. right; right.
      simpl. repeat split; auto. intros _ o' Ho'. discriminate.
Qed.

(* every entry of the new map is the new entry at p or an entry of the old map *)
Lemma apply_map_old D n c D' n' x e :
  apply_map src D n c = Some (D', n') -> alookup x D' = Some e ->
  x = ch_path c \/ alookup x D = Some e.
Proof.
  intros E He. destruct (bytes_eqb (ch_path c) x) eqn:Ex; [left; symmetry; apply bytes_eqb_eq; auto|right].
  apply bytes_eqb_neq in Ex.
  destruct c as [[k p] [st|]]; unfold ch_path in Ex; simpl in Ex.
  - assert (Hset : forall v (M : dmap), alookup x (aset p v M) = alookup x M)
      by (intros; apply alookup_aset_other; auto).
    assert (Hrm : forall M : dmap, alookup x (aremove_if (at_or_below p) M) = Some e -> alookup x M = Some e).
    { intros M. rewrite alookup_aremove_if. destruct (at_or_below p x); [discriminate|auto]. }
    destruct k; simpl in E.
    + destruct (alookup p D) as [o|] eqn:Eo.
      * destruct (st_is_dir st && st_is_dir (de_stat o)).
        { inversion E; subst. rewrite Hset in He. exact He. }
        destruct (is_hardlink st).
        { destruct (alookup (st_linkname st) D) as [t|]; [|discriminate].
          destruct (st_is_dir (de_stat t)); [discriminate|]. inversion E; subst.
          rewrite Hset in He. destruct (Bool.eqb _ _); auto. }
        inversion E; subst. rewrite Hset in He. destruct (Bool.eqb _ _); auto.
      * destruct (is_hardlink st).
        { destruct (alookup (st_linkname st) D) as [t|]; [|discriminate].
          destruct (st_is_dir (de_stat t)); [discriminate|]. inversion E; subst.
          rewrite Hset in He. exact He. }
        inversion E; subst. rewrite Hset in He. exact He.
    + destruct (alookup p D) as [o|] eqn:Eo; [|discriminate].
      destruct (st_is_dir st && st_is_dir (de_stat o)).
      { inversion E; subst. rewrite Hset in He. exact He. }
      destruct (is_hardlink st).
      { destruct (alookup (st_linkname st) D) as [t|]; [|discriminate].
        destruct (st_is_dir (de_stat t)); [discriminate|]. inversion E; subst.
        rewrite Hset in He. destruct (Bool.eqb _ _); auto. }
      inversion E; subst. rewrite Hset in He. destruct (Bool.eqb _ _); auto.
    + inversion E; subst. apply Hrm; auto.
  - destruct k; simpl in E; try discriminate. inversion E; subst.
    rewrite alookup_aremove_if in He. destruct (at_or_below p x); [discriminate|auto].
Qed.

Lemma apply_map_delete D n p o D' n' :
  apply_map src D n (KDelete, p, o) = Some (D', n') -> D' = aremove_if (at_or_below p) D /\ n' = n.
Proof. destruct o; simpl; intros E; inversion E; auto. Qed.

(* ---- the invariants ---- *)
Lemma kdel_dec k : k = KDelete \/ k <> KDelete.
Proof. destruct k; [right|right|left]; congruence. Qed.

Lemma apply_map_mono D n c D' n' : apply_map src D n c = Some (D', n') -> n <= n'.
Proof.
  destruct c as [[k p] [st|]]; intros E.
  - destruct (kdel_dec k) as [->|Hk]; [apply apply_map_delete in E; destruct E; subst; lia|].
    destruct (apply_map_at _ _ _ _ _ _ _ Hk E) as (e & _ & _ & [(_ & -> & _)|[(_ & -> & _)|(_ & -> & _)]]); lia.
  - destruct k; simpl in E; try discriminate. inversion E; subst. lia.
Qed.

Lemma apply_map_gone D n p o D' n' :
  apply_map src D n (KDelete, p, o) = Some (D', n') -> alookup p D' = None.
Proof.
  intros E. apply apply_map_delete in E. destruct E as [-> _].
  rewrite alookup_aremove_if. unfold at_or_below. rewrite bytes_eqb_refl. reflexivity.
Qed.

Lemma apply_map_none_stat D n k p D' n' :
  apply_map src D n (k, p, None) = Some (D', n') -> k = KDelete.
Proof. destruct k; simpl; intros E; try discriminate. reflexivity. Qed.

Lemma apply_map_ino_lt D n c D' n' :
  apply_map src D n c = Some (D', n') -> ino_lt D n -> ino_lt D' n'.
Proof.
  intros E Hl x e He. pose proof (apply_map_mono _ _ _ _ _ E) as Hm.
  destruct (apply_map_old _ _ _ _ _ _ _ E He) as [->|Ho]; [|specialize (Hl _ _ Ho); lia].
  destruct c as [[k p] o]; unfold ch_path in He; simpl in He.
  destruct (kdel_dec k) as [->|Hk]; [rewrite (apply_map_gone _ _ _ _ _ _ E) in He; discriminate|].
  destruct o as [st|]; [|apply apply_map_none_stat in E; congruence].
  destruct (apply_map_at _ _ _ _ _ _ _ Hk E) as (e' & He' & _ & [(_ & -> & o & Ho & _ & Ei & _)|[(_ & -> & t & Ht & _ & Ei & _)|(_ & -> & Ei & _)]]);
    rewrite He in He'; inversion He'; subst e'; rewrite Ei.
  - apply (Hl _ _ Ho).
  - apply (Hl _ _ Ht).
  - lia.
Qed.

Lemma apply_map_nonlink_inj D n c D' n' :
  apply_map src D n c = Some (D', n') -> ino_lt D n -> nonlink_inj D -> nonlink_inj D'.
Proof.
  intros E Hl Hi x y e1 e2 Hxy H1 H2 L1 L2.
  assert (Hnew : forall z e, alookup z D' = Some e -> z = ch_path c -> is_hardlink (de_stat e) = false ->
            forall w e', w <> z -> alookup w D = Some e' -> is_hardlink (de_stat e') = false -> de_ino e <> de_ino e').
  { intros z e Hz -> Lz w e' Hw Hw' Lw.
    destruct c as [[k p] o]; unfold ch_path in *; simpl fst in *; simpl snd in *.
    destruct (kdel_dec k) as [->|Hk]; [rewrite (apply_map_gone _ _ _ _ _ _ E) in Hz; discriminate|].
    destruct o as [st|]; [|apply apply_map_none_stat in E; congruence].
    destruct (apply_map_at _ _ _ _ _ _ _ Hk E) as (e0 & He0 & Es & [(_ & _ & o & Ho & Hod & Ei & _)|[(Hh & _ & t & _ & _ & _ & _ & Est)|(_ & _ & Ei & _)]]);
      rewrite Hz in He0; inversion He0; subst e0.
    - rewrite Ei. apply (Hi p w o e'); auto.
      unfold is_hardlink, is_node. rewrite Hod. reflexivity.
    - rewrite Est, (link_stat_is_hardlink _ _ Hh) in Lz. congruence.
    - rewrite Ei. specialize (Hl _ _ Hw'). lia. }
  destruct (apply_map_old _ _ _ _ _ _ _ E H1) as [Ex|O1], (apply_map_old _ _ _ _ _ _ _ E H2) as [Ey|O2].
  - congruence.
  - apply (Hnew x e1 H1 Ex L1 y e2); auto.
  - intros Heq. apply (Hnew y e2 H2 Ey L2 x e1); auto.
  - apply (Hi x y); auto.
Qed.

Lemma apply_all_inv : forall cs D n D' n' dn e,
  apply_all src cs D n = (D', n', dn, e) -> ino_lt D n -> nonlink_inj D ->
  n <= n' /\ ino_lt D' n' /\ nonlink_inj D'.
Proof.
  induction cs as [|c cs IH]; intros D n D' n' dn e E Hl Hi.
  - simpl in E. inversion E; subst. split; [lia|auto].
  - simpl in E. destruct (apply_map src D n c) as [[D1 n1]|] eqn:Ea.
    + destruct (apply_all src cs D1 n1) as [[[D2 n2] dn2] e2] eqn:Er. inversion E; subst.
      destruct (IH _ _ _ _ _ _ Er (apply_map_ino_lt _ _ _ _ _ Ea Hl) (apply_map_nonlink_inj _ _ _ _ _ Ea Hl Hi))
        as (H1 & H2 & H3).
      pose proof (apply_map_mono _ _ _ _ _ Ea). split; [lia|auto].
    + inversion E; subst. split; [lia|auto].
Qed.

Lemma ssorted_mid {X} (R : X -> X -> Prop) pre c post :
  StronglySorted R (pre ++ c :: post) -> Forall (R c) post.
Proof.
  induction pre as [|x pre IH]; simpl; intros HS; apply StronglySorted_inv in HS; destruct HS as [HS HF]; auto.
Qed.

(* ---- the final map at the path of a change, for changes in ascending path order ---- *)
Lemma changed_final cs D n R nR dn k p st :
  StronglySorted clt cs -> apply_all src cs D n = (R, nR, dn, false) -> In (k, p, Some st) cs ->
  k <> KDelete ->
  exists e, alookup p R = Some e /\ (is_hardlink st = false -> de_stat e = st) /\
    (is_hardlink st = true -> compare_path (st_linkname st) p = Lt ->
       exists t, alookup (st_linkname st) R = Some t /\ st_is_dir (de_stat t) = false /\
                 de_ino e = de_ino t /\ de_bytes e = de_bytes t /\ de_stat e = link_stat (de_stat t) st) /\
    (is_hardlink st = false -> st_is_dir st = false ->
       de_bytes e = (if wants_content st then src p else [])).
Proof.
  intros HS E Hin Hk. apply in_split in Hin. destruct Hin as (pre & post & ->).
  destruct (apply_all_split _ _ _ _ _ _ _ _ E) as (D1 & n1 & D2 & n2 & E1 & Ea & E2).
  apply ssorted_mid in HS. rename HS into Hpost. rewrite Forall_forall in Hpost.
  assert (Hfr : forall x, x = p \/ compare_path x p = Lt -> alookup x R = alookup x D2).
  { intros x Hx. eapply apply_all_frame; [exact E2|]. intros c Hc. specialize (Hpost _ Hc).
    unfold clt, ch_path in Hpost. simpl in Hpost. destruct Hx as [->|Hx]; auto.
    eapply compare_path_trans; eauto. }
  destruct (apply_map_at _ _ _ _ _ _ _ Hk Ea) as (e & He & Es & Hc).
  exists e. rewrite (Hfr p (or_introl eq_refl)). split; auto. split; auto. split.
  - intros Hh Hlt. destruct Hc as [(Hd & _)|[(_ & _ & t & Ht & Htd & Ei & Eb & Est)|(Hn & _)]].
    + unfold is_hardlink, is_node in Hh. rewrite Hd in Hh. discriminate.
    + exists t. rewrite (Hfr _ (or_intror Hlt)).
      rewrite (apply_map_frame _ _ _ _ _ (st_linkname st) Ea); auto.
      unfold ch_path. simpl. destruct (at_or_below p (st_linkname st)) eqn:Ab; auto.
      apply at_or_below_le in Ab. congruence.
    + congruence.
  - intros Hh Hd. destruct Hc as [(Hd' & _)|[(Hh' & _)|(_ & _ & _ & Eb & _)]]; congruence.
Qed.

(* ---- an add/modify seen from the other paths, and when it succeeds ---- *)
Definition removes (D : dmap) (p : bytes) (st : stat) : bool :=
  match alookup p D with
  | Some o => negb (Bool.eqb (st_is_dir (de_stat o)) (st_is_dir st))
  | None => false
  end.

Lemma apply_map_others D n k p st D' n' x :
  k <> KDelete -> apply_map src D n (k, p, Some st) = Some (D', n') -> x <> p ->
  alookup x D' = if removes D p st && at_or_below p x then None else alookup x D.
Proof.
  intros Hk E Hx. unfold removes.
  assert (Hset : forall v (M : dmap), alookup x (aset p v M) = alookup x M)
    by (intros; apply alookup_aset_other; auto).
  assert (Hcase : forall o v, alookup p D = Some o -> (st_is_dir st && st_is_dir (de_stat o)) = false ->
            alookup x (aset p v (if Bool.eqb (st_is_dir (de_stat o)) (st_is_dir st) then D
                                 else aremove_if (at_or_below p) D))
            = if negb (Bool.eqb (st_is_dir (de_stat o)) (st_is_dir st)) && at_or_below p x then None else alookup x D).
  { intros o v Ho Hdd. rewrite Hset. destruct (Bool.eqb (st_is_dir (de_stat o)) (st_is_dir st)); simpl; auto.
    rewrite alookup_aremove_if. reflexivity. }
  destruct k; [| |congruence]; simpl in E.
  - destruct (alookup p D) as [o|] eqn:Eo.
    + destruct (st_is_dir st && st_is_dir (de_stat o)) eqn:Edd.
      * inversion E; subst. rewrite Hset. apply andb_true_iff in Edd. destruct Edd as [-> ->]. reflexivity.
      * destruct (is_hardlink st).
        { destruct (alookup (st_linkname st) D) as [t|]; [|discriminate].
          destruct (st_is_dir (de_stat t)); [discriminate|]. inversion E; subst. apply Hcase; auto. }
        inversion E; subst. apply Hcase; auto.
    + destruct (is_hardlink st).
      { destruct (alookup (st_linkname st) D) as [t|]; [|discriminate].
        destruct (st_is_dir (de_stat t)); [discriminate|]. inversion E; subst. rewrite Hset. reflexivity. }
      inversion E; subst. rewrite Hset. reflexivity.
  - destruct (alookup p D) as [o|] eqn:Eo; [|discriminate].
    destruct (st_is_dir st && st_is_dir (de_stat o)) eqn:Edd.
    + inversion E; subst. rewrite Hset. apply andb_true_iff in Edd. destruct Edd as [-> ->]. reflexivity.
    + destruct (is_hardlink st).
      { destruct (alookup (st_linkname st) D) as [t|]; [|discriminate].
        destruct (st_is_dir (de_stat t)); [discriminate|]. inversion E; subst. apply Hcase; auto. }
      inversion E; subst. apply Hcase; auto.
Qed.

Lemma apply_map_add_ok D n p st :
  (is_hardlink st = true -> exists t, alookup (st_linkname st) D = Some t /\ st_is_dir (de_stat t) = false) ->
  exists D' n', apply_map src D n (KAdd, p, Some st) = Some (D', n').
Proof.
  intros Hl. simpl. destruct (alookup p D) as [o|].
  - destruct (st_is_dir st && st_is_dir (de_stat o)); [eauto|].
    destruct (is_hardlink st); [|eauto]. destruct (Hl eq_refl) as (t & -> & ->). eauto.
  - destruct (is_hardlink st); [|eauto]. destruct (Hl eq_refl) as (t & -> & ->). eauto.
Qed.

(* ---- keys stay unique ---- *)
Definition nodup_keys (D : dmap) : Prop := NoDup (map fst D).

Lemma nodup_keys_remove f (D : dmap) : nodup_keys D -> nodup_keys (aremove_if f D).
Proof.
  unfold nodup_keys, aremove_if. induction D as [|[k v] D IH]; simpl; intros Hn; [constructor|].
  inversion Hn; subst. destruct (f k); simpl; auto. constructor; auto.
  intros Hin. apply in_map_iff in Hin. destruct Hin as ([k' v'] & E & Hin). simpl in E. subst k'.
  apply filter_In in Hin. destruct Hin as [Hin _]. apply H1. apply (in_map fst _ _ Hin).
Qed.

Lemma nodup_keys_aset p v (D : dmap) : nodup_keys D -> nodup_keys (aset p v D).
Proof.
  intros Hn. unfold aset, nodup_keys. simpl. constructor; [|apply nodup_keys_remove; auto].
  intros Hin. apply in_map_iff in Hin. destruct Hin as ([k' v'] & E & Hin). simpl in E. subst k'.
  apply filter_In in Hin. destruct Hin as [_ Hf]. simpl in Hf. rewrite bytes_eqb_refl in Hf. discriminate.
Qed.

Lemma apply_map_nodup_keys D n c D' n' :
  apply_map src D n c = Some (D', n') -> nodup_keys D -> nodup_keys D'.
Proof.
  intros E Hn. destruct c as [[k p] [st|]].
  - assert (H1 : forall v b, nodup_keys (aset p v (if b : bool then D else aremove_if (at_or_below p) D))).
    { intros v b. apply nodup_keys_aset. destruct b; auto. apply nodup_keys_remove; auto. }
    destruct k; simpl in E.
    + destruct (alookup p D) as [o|].
      * destruct (st_is_dir st && st_is_dir (de_stat o)); [inversion E; subst; apply nodup_keys_aset; auto|].
        destruct (is_hardlink st).
        { destruct (alookup (st_linkname st) D) as [t|]; [|discriminate].
          destruct (st_is_dir (de_stat t)); [discriminate|]. inversion E; subst. apply H1. }
        inversion E; subst. apply H1.
      * destruct (is_hardlink st).
        { destruct (alookup (st_linkname st) D) as [t|]; [|discriminate].
          destruct (st_is_dir (de_stat t)); [discriminate|]. inversion E; subst. apply nodup_keys_aset; auto. }
        inversion E; subst. apply nodup_keys_aset; auto.
    + destruct (alookup p D) as [o|]; [|discriminate].
      destruct (st_is_dir st && st_is_dir (de_stat o)); [inversion E; subst; apply nodup_keys_aset; auto|].
      destruct (is_hardlink st).
      { destruct (alookup (st_linkname st) D) as [t|]; [|discriminate].
        destruct (st_is_dir (de_stat t)); [discriminate|]. inversion E; subst. apply H1. }
      inversion E; subst. apply H1.
    + inversion E; subst. apply nodup_keys_remove; auto.
  - destruct k; simpl in E; try discriminate. inversion E; subst. apply nodup_keys_remove; auto.
Qed.

Lemma apply_all_nodup_keys : forall cs D n D' n' dn e,
  apply_all src cs D n = (D', n', dn, e) -> nodup_keys D -> nodup_keys D'.
Proof.
  induction cs as [|c cs IH]; intros D n D' n' dn e E Hn.
  - simpl in E. inversion E; subst. auto.
  - simpl in E. destruct (apply_map src D n c) as [[D1 n1]|] eqn:Ea.
    + destruct (apply_all src cs D1 n1) as [[[D2 n2] dn2] e2] eqn:Er. inversion E; subst.
      eapply IH; eauto. eapply apply_map_nodup_keys; eauto.
    + inversion E; subst. auto.
Qed.

Lemma nodup_keys_lookup (D : dmap) k v : nodup_keys D -> In (k, v) D -> alookup k D = Some v.
Proof.
  unfold nodup_keys. induction D as [|[k0 v0] D IH]; simpl; intros Hn Hin; [destruct Hin|].
  inversion Hn; subst. rewrite alookup_cons. destruct Hin as [E|Hin].
  - inversion E; subst. rewrite bytes_eqb_refl. reflexivity.
  - destruct (bytes_eqb k0 k) eqn:Ek; [|auto]. apply bytes_eqb_eq in Ek. subst.
    exfalso. apply H1. apply (in_map fst _ _ Hin).
Qed.

End Gen.
