(* C14 — system calls on a path "<dstRoot>/<real directories>/<name>" stay inside:
   they keep the invariant of FsCopyInvP.v and every chain that ends at or above the directory
   they work in. *)
From Coq Require Import List NArith Lia Bool ZifyN ZifyNat ZifyBool.
From FS Require Import Sx Model.Path Model.Fs Model.RootPath Model.CopyFs Model.CopyFsSpec
  Proofs.Lex Proofs.PathP Proofs.FsP Proofs.RootPathStrP Proofs.FsCopyFrameP Proofs.FsCopyInvP.
Import ListNotations.
Open Scope N_scope.
Open Scope bool_scope.

Local Opaque rfuel.

(* all chains that end at or above directory d survive *)
Definition above (d : N) (f f' : fs) : Prop :=
  forall a p e q, chain f a p e -> chain f e q d -> chain f' a p e.

Lemma above_refl d f : above d f f.
Proof. intros a p e q H _. exact H. Qed.

Lemma above_trans d f1 f2 f3 : is_dir f1 d = true -> above d f1 f2 -> above d f2 f3 -> above d f1 f3.
Proof.
  intros Hd A B a p e q H1 H2. apply (B a p e q); [apply (A a p e q); auto|].
  apply (A e q d []); auto. constructor; auto.
Qed.

(* an operation below d1, itself below d *)
Lemma above_mono d d1 q1 f f' : chain f d q1 d1 -> above d1 f f' -> above d f f'.
Proof. intros Hq A a p e q H1 H2. apply (A a p e (q ++ q1)); auto. eapply chain_app; eauto. Qed.

(* changes that keep all entries and directories keep all chains *)
Lemma chain_same f f' : (forall j, dents f' j = dents f j) -> (forall j, is_dir f j = true -> is_dir f' j = true) ->
  forall a p e, chain f a p e -> chain f' a p e.
Proof.
  intros Hs Hd a p e H. apply (chain_stable f f' (fun _ => False)); auto.
Qed.

(* ---------------- lookups along a chain ---------------- *)
Lemma walk_chain f a cs d : chain f a cs d -> Forall nm cs -> forall x, nm x ->
  forall fuel rt fl n res, walk fuel f rt a (cs ++ [x]) fl n = inl res ->
  (l_dir res = d /\ l_name res = x /\ l_ino res = blookup x (dents f d)) \/
  (fl = true /\ exists i, blookup x (dents f d) = Some i /\ is_link f i = true).
Proof.
  induction 1 as [d Hd|d y i cs e Hb Hi Hc IH]; intros Hcs x Hx fuel rt fl n res H.
  - destruct fuel as [|fuel]; [discriminate|]. simpl app in H. cbn [walk] in H.
    unfold dents. destruct (dir_of f d) as [[par ents]|] eqn:Ed; [|discriminate].
    destruct Hx as [(N1 & N2 & N3) _].
    apply bytes_eqb_neq in N2, N3. rewrite N2, N3 in H.
    destruct (blookup x ents) as [i|] eqn:Eb.
    + unfold is_link. destruct (get f i) as [[[p0 es|dd|t|ty rd] m]|] eqn:Eg; simpl in H.
      * inversion H; subst; left; auto.
      * inversion H; subst; left; auto.
      * destruct fl; simpl in H; [right; split; auto; exists i; rewrite Eg; auto|].
        inversion H; subst; left; auto.
      * inversion H; subst; left; auto.
      * inversion H; subst; left; auto.
    + simpl in H. inversion H; subst. left; auto.
  - destruct fuel as [|fuel]; [discriminate|]. simpl app in H. cbn [walk] in H.
    inversion Hcs as [|? ? Hy Hcs']; subst.
    pose proof (dents_some_dir _ _ _ _ Hb) as Hdd.
    unfold dents in Hb. destruct (dir_of f d) as [[par ents]|] eqn:Ed; [|discriminate].
    destruct Hy as [(N1 & N2 & N3) _]. apply bytes_eqb_neq in N2, N3. rewrite N2, N3 in H.
    rewrite Hb in H.
    replace (is_nil (cs ++ [x])) with false in H by (destruct cs; reflexivity).
    unfold is_dir, dir_of in Hi.
    destruct (get f i) as [[[p0 es|dd|t|ty rd] m]|]; try discriminate.
    simpl in H. eapply IH; eauto.
Qed.

(* such a lookup can only fail for lack of fuel, unless it follows a final symlink *)
Lemma walk_chain_err f a cs d : chain f a cs d -> Forall nm cs -> forall x, nm x ->
  forall fuel rt fl n e, walk fuel f rt a (cs ++ [x]) fl n = inr e ->
  e = ELOOP \/ (fl = true /\ exists i, blookup x (dents f d) = Some i /\ is_link f i = true).
Proof.
  induction 1 as [d Hd|d y i cs e0 Hb Hi Hc IH]; intros Hcs x Hx fuel rt fl n e H.
  - destruct fuel as [|fuel]; [inversion H; auto|]. simpl app in H. cbn [walk] in H.
    unfold dents. unfold is_dir in Hd. destruct (dir_of f d) as [[par ents]|] eqn:Ed; [|discriminate].
    destruct Hx as [(N1 & N2 & N3) _].
    apply bytes_eqb_neq in N2, N3. rewrite N2, N3 in H.
    destruct (blookup x ents) as [i|] eqn:Eb; [|simpl in H; discriminate].
    unfold is_link. destruct (get f i) as [[[p0 es|dd|t|ty rd] m]|] eqn:Eg; simpl in H; try discriminate.
    destruct fl; simpl in H; [|discriminate]. right. split; auto. exists i. rewrite Eg. auto.
  - destruct fuel as [|fuel]; [inversion H; auto|]. simpl app in H. cbn [walk] in H.
    inversion Hcs as [|? ? Hy Hcs']; subst.
    unfold dents in Hb. destruct (dir_of f d) as [[par ents]|] eqn:Ed; [|discriminate].
    destruct Hy as [(N1 & N2 & N3) _]. apply bytes_eqb_neq in N2, N3. rewrite N2, N3 in H.
    rewrite Hb in H.
    replace (is_nil (cs ++ [x])) with false in H by (destruct cs; reflexivity).
    unfold is_dir, dir_of in Hi.
    destruct (get f i) as [[[p0 es|dd|t|ty rd] m]|]; try discriminate.
    simpl in H. eapply IH; eauto.
Qed.

(* where the inode number a lookup returns comes from: a directory it stands in, or an entry *)
Lemma walk_ino_src fuel f : forall rt cur cs fl n r i,
  walk fuel f rt cur cs fl n = inl r -> l_ino r = Some i ->
  is_dir f i = true \/ exists j nme, blookup nme (dents f j) = Some i.
Proof.
  induction fuel as [|fuel IH]; intros rt cur cs fl n r i H Hi; [discriminate|].
  cbn [walk] in H. destruct (dir_of f cur) as [[par ents]|] eqn:Ed; [|discriminate].
  destruct cs as [|x rest].
  - inversion H; subst. simpl in Hi. inversion Hi; subst. left. unfold is_dir. rewrite Ed. reflexivity.
  - destruct (bytes_eqb x s_dot); [eapply IH; eauto|].
    destruct (bytes_eqb x s_dotdot); [eapply IH; eauto|].
    destruct (blookup x ents) as [i0|] eqn:Eb.
    + assert (Hsrc : blookup x (dents f cur) = Some i0) by (unfold dents; rewrite Ed; auto).
      assert (Hfin : @inl lres errno {| l_dir := cur; l_name := x; l_ino := Some i0 |} = inl r ->
                     is_dir f i = true \/ exists j nme, blookup nme (dents f j) = Some i).
      { intros E0. inversion E0; subst. simpl in Hi. inversion Hi; subst. right; eauto. }
      destruct (get f i0) as [[[p0 es|dd|t|ty rd] m]|].
      * destruct (is_nil rest); [eapply Hfin; eauto|eapply IH; eauto].
      * destruct (is_nil rest); [eapply Hfin; eauto|eapply IH; eauto].
      * destruct (is_nil rest && negb fl); [eapply Hfin; eauto|].
        destruct (N.leb max_symlinks n); [discriminate|]. destruct (is_nil t); [discriminate|]. eapply IH; eauto.
      * destruct (is_nil rest); [eapply Hfin; eauto|eapply IH; eauto].
      * destruct (is_nil rest); [eapply Hfin; eauto|eapply IH; eauto].
    + destruct (is_nil rest); [|discriminate]. inversion H; subst. simpl in Hi. discriminate.
Qed.

Lemma resolve_ino_src c f p fl i : resolve_ino c f p fl = inl i ->
  is_dir f i = true \/ exists j nme, blookup nme (dents f j) = Some i.
Proof.
  unfold resolve_ino, resolve. destruct p as [|a p]; [discriminate|].
  destruct (has_nul (a :: p)); [discriminate|].
  destruct (walk rfuel f (c_root c) _ _ _ 0) as [r|e] eqn:E; [|discriminate].
  destruct (ends_with_sep (a :: p)).
  - destruct (l_ino r) as [i0|] eqn:Ei; [|discriminate]. destruct (is_dir f i0); [|discriminate].
    rewrite Ei. intros H. inversion H; subst. eapply walk_ino_src; eauto.
  - destruct (l_ino r) as [i0|] eqn:Ei; [|discriminate]. intros H. inversion H; subst. eapply walk_ino_src; eauto.
Qed.

Section Safe.
  Variables (c : ctx) (f0 : fs) (dr : N) (dcs : list bytes).
  Let rt := c_root c.
  Let b := f_next f0.

  (* the standing facts: about the setting (dstRoot is "/dcs", a directory of the acyclic initial
     file system) and about the current file system *)
  Record Ctx (f : fs) : Prop := {
    cx_dcs : Forall nm dcs;
    cx_dnul : Forall nonul dcs;
    cx_ac : acyclic f0;
    cx_dr0 : is_dir f0 dr = true;
    cx_len : (length dcs < rfuel)%nat;
    cx_inv : Inv f0 dr f;
    cx_root : chain f rt dcs dr
  }.

  (* [tpath cs x]: the path "<dstRoot>/cs/x" *)
  Definition tpath (cs : list bytes) (x : bytes) : bytes := render (dcs ++ cs ++ [x]).

  Lemma resolve_tpath f cs d x fl r :
    Ctx f -> chain f dr cs d -> Forall nm cs -> Forall nonul cs -> nm x -> nonul x ->
    resolve c f (tpath cs x) fl = inl r ->
    (l_dir r = d /\ l_name r = x /\ l_ino r = blookup x (dents f d)) \/
    (fl = true /\ exists i, blookup x (dents f d) = Some i /\ is_link f i = true).
  Proof.
    intros C Hc Hcs Hnul Hx Hxn H. unfold tpath in H.
    pose proof (cx_dcs f C) as Hdcs. pose proof (cx_dnul f C) as Hdnul.
    rewrite resolve_render in H.
    - rewrite app_assoc in H. eapply (walk_chain f rt (dcs ++ cs) d); eauto.
      + eapply chain_app; eauto. apply (cx_root f C).
      + apply Forall_app; auto.
    - repeat (apply Forall_app; split; auto).
    - repeat (apply Forall_app; split; auto).
    - destruct dcs; [destruct cs|]; discriminate.
  Qed.

  Lemma resolve_tpath_err f cs d x fl e :
    Ctx f -> chain f dr cs d -> Forall nm cs -> Forall nonul cs -> nm x -> nonul x ->
    resolve c f (tpath cs x) fl = inr e ->
    e = ELOOP \/ (fl = true /\ exists i, blookup x (dents f d) = Some i /\ is_link f i = true).
  Proof.
    intros C Hc Hcs Hnul Hx Hxn H. unfold tpath in H.
    pose proof (cx_dcs f C) as Hdcs. pose proof (cx_dnul f C) as Hdnul.
    rewrite resolve_render in H.
    - rewrite app_assoc in H. eapply (walk_chain_err f rt (dcs ++ cs) d); eauto.
      + eapply chain_app; eauto. apply (cx_root f C).
      + apply Forall_app; auto.
    - repeat (apply Forall_app; split; auto).
    - repeat (apply Forall_app; split; auto).
    - destruct dcs; [destruct cs|]; discriminate.
  Qed.

  Lemma ctx_dr_SS f : Ctx f -> SS f0 dr dr.
  Proof. intros C. apply dr_SS. apply (cx_dr0 f C). Qed.

  Lemma ctx_dir_SS f cs d : Ctx f -> chain f dr cs d -> SS f0 dr d.
  Proof. intros C H. eapply chain_SS; eauto; [apply (cx_inv f C)|eapply ctx_dr_SS; eauto]. Qed.

  Lemma ctx_acyclic f : Ctx f -> acyclic f.
  Proof. intros C. eapply inv_acyclic; [apply (cx_inv f C)|apply (cx_ac f C)]. Qed.

  Lemma ctx_step f f' cs d : Ctx f -> chain f dr cs d -> Inv f0 dr f' -> above d f f' -> Ctx f'.
  Proof.
    intros C Hc I A. constructor; auto; try apply C. apply (A rt dcs dr cs); auto. apply (cx_root f C).
  Qed.

  (* ---- the three kinds of change ---- *)
  Lemma above_dents f f' d : acyclic f ->
    (forall j, j <> d -> dents f' j = dents f j) ->
    (forall j, is_dir f j = true -> is_dir f' j = true) -> above d f f'.
  Proof. intros Ha Hs Hd a p e q H1 H2. eapply chain_stable_below; eauto. Qed.

  Lemma eff_create f cs d r isdir k mode :
    Ctx f -> chain f dr cs d -> l_dir r = d -> blookup (l_name r) (dents f d) = None -> leaf_kind k ->
    okn (l_name r) ->
    let f' := fst (create_at f r isdir k mode) in
    Ctx f' /\ above d f f' /\ b <= f_next f /\
    blookup (l_name r) (dents f' d) = Some (f_next f) /\
    get f' (f_next f) = Some {| i_kind := k; i_meta := new_meta f d isdir mode |} /\
    is_dir f' (f_next f) = kind_dirb k /\
    (forall y, y <> l_name r -> blookup y (dents f' d) = blookup y (dents f d)).
  Proof.
    intros C Hc Hld Hnone Hleaf Hokn f'. subst d.
    pose proof (cx_inv f C) as I. pose proof (inv_fresh _ _ _ I) as Ha.
    pose proof (chain_end_dir _ _ _ _ Hc) as Hd.
    pose proof (ctx_dir_SS f cs _ C Hc) as Hs.
    pose proof (dir_lt_next f r Ha Hd) as Hlt.
    assert (I' : Inv f0 dr f') by (apply inv_create_at; auto).
    assert (Hdents := create_at_dents f r isdir k mode Ha Hd). fold f' in Hdents.
    assert (Hisdir := create_at_is_dir f r isdir k mode Ha Hd). fold f' in Hisdir.
    assert (A : above (l_dir r) f f').
    { apply above_dents; [apply ctx_acyclic; auto| |].
      - intros j Hj. rewrite (Hdents j Hleaf). apply N.eqb_neq in Hj. rewrite Hj.
        destruct (N.eqb_spec j (f_next f)) as [->|]; auto.
        symmetry. apply dents_nil_not_dir. unfold is_dir, dir_of. rewrite (Ha (f_next f)) by lia. reflexivity.
      - intros j Hj. rewrite Hisdir. destruct (N.eqb_spec j (f_next f)) as [->|]; auto.
        exfalso. apply is_dir_exists in Hj. apply Hj. apply Ha. lia. }
    split; [eapply ctx_step; eauto|]. split; auto. split; [apply (inv_next _ _ _ I)|].
    split; [|split; [|split]].
    - rewrite (Hdents _ Hleaf), N.eqb_refl, blookup_app, Hnone. simpl. rewrite bytes_eqb_refl. reflexivity.
    - apply create_at_new; auto.
    - rewrite Hisdir, N.eqb_refl. reflexivity.
    - intros y Hy. rewrite (Hdents _ Hleaf), N.eqb_refl, blookup_app.
      destruct (blookup y (dents f (l_dir r))); auto. simpl.
      apply bytes_eqb_neq in Hy. rewrite Hy. reflexivity.
  Qed.

  Lemma eff_del f cs d x :
    Ctx f -> chain f dr cs d ->
    let f' := del_ent f d x in
    Ctx f' /\ above d f f' /\ blookup x (dents f' d) = None /\
    (forall y, y <> x -> blookup y (dents f' d) = blookup y (dents f d)) /\
    (forall j, get f j <> None -> get f' j <> None) /\ f_next f' = f_next f.
  Proof.
    intros C Hc f'. pose proof (cx_inv f C) as I.
    pose proof (chain_end_dir _ _ _ _ Hc) as Hd.
    pose proof (ctx_dir_SS f cs _ C Hc) as Hs.
    assert (I' : Inv f0 dr f') by (apply inv_del_ent; auto).
    assert (Hdents := fun j => del_ent_dents f d x j Hd). fold f' in Hdents.
    assert (A : above d f f').
    { apply above_dents; [apply ctx_acyclic; auto| |].
      - intros j Hj. rewrite Hdents. apply N.eqb_neq in Hj. rewrite Hj. reflexivity.
      - intros j Hj. unfold f'. rewrite is_dir_del_ent. exact Hj. }
    split; [eapply ctx_step; eauto|]. split; auto. split; [|split; [|split]].
    - rewrite Hdents, N.eqb_refl. apply blookup_bremove_same. apply (inv_nodup _ _ _ I); auto.
    - intros y Hy. rewrite Hdents, N.eqb_refl. apply blookup_bremove_other; auto.
    - intros j Hj. pose proof (del_ent_tag f d x j) as Ht. fold f' in Ht.
      destruct (get f' j); [discriminate|]. destruct (get f j); [discriminate|congruence].
    - apply del_ent_next.
  Qed.

  Lemma eff_add f cs d x i :
    Ctx f -> chain f dr cs d -> is_dir f i = false -> blookup x (dents f d) = None -> okn x -> i < f_next f ->
    let f' := add_ent f d x i in
    Ctx f' /\ above d f f' /\ blookup x (dents f' d) = Some i /\
    (forall y, y <> x -> blookup y (dents f' d) = blookup y (dents f d)).
  Proof.
    intros C Hc Hi Hnone Hokn Hilt f'. pose proof (cx_inv f C) as I.
    pose proof (chain_end_dir _ _ _ _ Hc) as Hd.
    pose proof (ctx_dir_SS f cs _ C Hc) as Hs.
    assert (I' : Inv f0 dr f') by (apply inv_add_ent; auto).
    assert (Hdents := fun j => add_ent_dents f d x i j Hd). fold f' in Hdents.
    assert (A : above d f f').
    { apply above_dents; [apply ctx_acyclic; auto| |].
      - intros j Hj. rewrite Hdents. apply N.eqb_neq in Hj. rewrite Hj. reflexivity.
      - intros j Hj. unfold f'. rewrite is_dir_add_ent. exact Hj. }
    split; [eapply ctx_step; eauto|]. split; auto. split.
    - rewrite Hdents, N.eqb_refl, blookup_app, Hnone. simpl. rewrite bytes_eqb_refl. reflexivity.
    - intros y Hy. rewrite Hdents, N.eqb_refl, blookup_app.
      destruct (blookup y (dents f d)); auto. simpl. apply bytes_eqb_neq in Hy. rewrite Hy. reflexivity.
  Qed.

  Lemma eff_put f i n n' :
    Ctx f -> SS f0 dr i -> get f i = Some n -> same_shape n n' ->
    let f' := put f i n' in
    Ctx f' /\ (forall d, above d f f') /\ (forall j, dents f' j = dents f j) /\
    (forall j, is_dir f' j = is_dir f j) /\ (forall j, FsP.is_link f' j = FsP.is_link f j) /\
    f_next f' = f_next f /\ (forall j, get f j <> None -> get f' j <> None).
  Proof.
    intros C Hs Hg Hsh f'. pose proof (cx_inv f C) as I.
    assert (I' : Inv f0 dr f') by (eapply inv_put; eauto).
    assert (Htag : forall j, itag (get f' j) = itag (get f j)).
    { intros j. unfold f'. destruct (N.eq_dec j i) as [->|Hne]; [|rewrite get_put_other; auto].
      rewrite get_put_same, Hg. simpl. rewrite (same_shape_tag _ _ Hsh). reflexivity. }
    assert (Hdents : forall j, dents f' j = dents f j).
    { intros j. unfold f', dents, dir_of. destruct (N.eq_dec j i) as [->|Hne]; [|rewrite get_put_other; auto].
      rewrite get_put_same, Hg. unfold same_shape in Hsh.
      destruct n as [[p es|x|t|ty rd] m], n' as [[p' es'|x'|t'|ty' rd'] m']; simpl in *; try tauto.
      destruct Hsh; subst; reflexivity. }
    assert (Hisdir : forall j, is_dir f' j = is_dir f j).
    { intros j. specialize (Htag j). destruct (is_dir f' j) eqn:E1, (is_dir f j) eqn:E2; auto.
      - apply is_dir_tag in E1. rewrite Htag in E1. apply is_dir_tag in E1. congruence.
      - apply is_dir_tag in E2. rewrite <- Htag in E2. apply is_dir_tag in E2. congruence. }
    assert (A : forall d, above d f f').
    { intros d a p e q H1 _. apply (chain_same f f'); auto. intros j Hj. rewrite Hisdir. exact Hj. }
    split; [constructor; auto; try apply C; apply (A dr rt dcs dr []); [apply (cx_root f C)|constructor; eapply chain_end_dir; apply (cx_root f C)]|].
    split; auto. split; auto. split; auto. split; [|split].
    - intros j. specialize (Htag j).
      destruct (FsP.is_link f' j) eqn:E1, (FsP.is_link f j) eqn:E2; auto.
      + apply is_link_tag in E1. rewrite Htag in E1. apply is_link_tag in E1. congruence.
      + apply is_link_tag in E2. rewrite <- Htag in E2. apply is_link_tag in E2. congruence.
    - reflexivity.
    - intros j Hj. specialize (Htag j). destruct (get f' j); [discriminate|]. destruct (get f j); [discriminate|congruence].
  Qed.
End Safe.
