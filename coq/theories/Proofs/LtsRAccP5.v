(* Refinement LTS (receiver side) -> receiver acceptor, part 5: the writer goroutines
   (DiskWriter.requestAsyncFileData -> asyncDataFunc). *)
From Coq Require Import List NArith Bool Arith PeanoNat Lia ZifyBool.
From FS Require Import Model.Lts Proofs.LtsInv Proofs.LtsSafe Proofs.LtsTerm Proofs.LtsC08 Proofs.LtsTok
     Proofs.LtsContent Proofs.LtsContent2 Proofs.LtsContent3 Proofs.LtsClean1 Proofs.LtsClean3 Proofs.LtsClean5.
From FS Require Import Sx Model.Path Model.Stat Model.AccEvents Model.ReceiverAcc Model.LtsRAcc
     Proofs.AccEventsP Proofs.LtsRAccP1 Proofs.LtsRAccP2 Proofs.LtsRAccP3 Proofs.LtsRAccP4.
Import ListNotations.
Local Open Scope nat_scope.

Lemma wsel_eq : forall c i id pc, wsel c i {| wr_id := id; wr_pc := pc |} = b2n (Nat.eqb i id && c pc).
Proof. reflexivity. Qed.

(* writer j moves from pc to pc' *)
Lemma wsum_move : forall c i l j id pc pc',
  nth_error l j = Some {| wr_id := id; wr_pc := pc |} ->
  sumf (wsel c i) (set_nth j {| wr_id := id; wr_pc := pc' |} l) + b2n (Nat.eqb i id && c pc)
  = sumf (wsel c i) l + b2n (Nat.eqb i id && c pc').
Proof. intros. rewrite <- !wsel_eq. apply sumf_set_nth. assumption. Qed.

Lemma wsum_at : forall c l j id pc, nth_error l j = Some {| wr_id := id; wr_pc := pc |} -> c pc = true ->
  1 <= sumf (wsel c id) l.
Proof.
  intros c l j id pc E Hc. pose proof (sumf_ge_nth _ (wsel c id) _ _ _ E) as H.
  rewrite wsel_eq, Nat.eqb_refl, Hc in H. exact H.
Qed.

Section WFacts.
  Variable p : params.
  Variable st : state.
  Hypothesis W : forall id, wq p id st.

  (* the writer of id is unique: when it is at pc, the other classes are empty *)
  Lemma writer_classes : forall j id pc, nth_error (wrs st) j = Some {| wr_id := id; wr_pc := pc |} ->
    wsum cS id st = b2n (cS pc) /\ wsum cLk id st = b2n (cLk pc) /\ wsum cSd id st = b2n (cSd pc) /\
    wsum cW id st = b2n (cW pc) /\ wsum cN id st = b2n (cN pc) /\ wsum cD id st = b2n (cD pc).
  Proof.
    intros j id pc E. destruct (W id) as [WU _ _ _ _ _ _ _]. unfold wsum in *.
    rewrite wsum_split, wsum_cL_split in WU.
    destruct pc;
      [pose proof (wsum_at cS _ _ _ _ E eq_refl)|pose proof (wsum_at cLk _ _ _ _ E eq_refl)|pose proof (wsum_at cSd _ _ _ _ E eq_refl)
      |pose proof (wsum_at cW _ _ _ _ E eq_refl)|pose proof (wsum_at cN _ _ _ _ E eq_refl)|pose proof (wsum_at cD _ _ _ _ E eq_refl)];
      cbn; clear - WU H; lia.
  Qed.

  Lemma lock_facts : forall j id, nth_error (wrs st) j = Some {| wr_id := id; wr_pc := WR_Lock |} ->
    cnt id (rfiles st) = 0 /\ latec id st = 0.
  Proof.
    intros j id E. destruct (writer_classes _ _ _ E) as (HS & HLk & HSd & HW & HN & HD). cbn in *.
    destruct (W id) as [_ _ _ WQ WR _ _ _]. unfold wsum in *. rewrite wsum_cL_split in WR.
    unfold down in WQ. unfold latec.
    assert (B : b2n (is_file p id && (id <? rl_i st)) <= 1) by (destruct (is_file p id && (id <? rl_i st)); cbn; lia).
    clear - WQ WR HS HLk HSd HW HN HD B. lia.
  Qed.
End WFacts.

(* ---------- FKP / OPP when writer j moves ---------- *)
Section Moves.
  Variables st st' : state.
  Variables (j id : nat) (pc pc' : wrpc).
  Hypothesis E : nth_error (wrs st) j = Some {| wr_id := id; wr_pc := pc |}.
  Hypothesis Ew : wrs st' = set_nth j {| wr_id := id; wr_pc := pc' |} (wrs st).

  Lemma wsum_moved : forall c i, wsum c i st' + b2n (Nat.eqb i id && c pc) = wsum c i st + b2n (Nat.eqb i id && c pc').
  Proof. intros. unfold wsum. rewrite Ew. apply wsum_move. exact E. Qed.

  Lemma FKP_move_same : rfiles st' = rfiles st -> cLk pc = cLk pc' -> forall i, FKP st' i <-> FKP st i.
  Proof.
    intros Er Hc i. unfold FKP. rewrite Er. pose proof (wsum_moved cLk i) as H. rewrite Hc in H.
    clear - H. lia.
  Qed.

  Lemma OPP_move_same : completed st' = completed st -> rl_pc st' = rl_pc st ->
    cSd pc = cSd pc' -> cW pc = cW pc' -> forall i, OPP st' i <-> OPP st i.
  Proof.
    intros Ec Er H1 H2 i. unfold OPP, latec. rewrite Ec, Er.
    pose proof (wsum_moved cSd i) as A. pose proof (wsum_moved cW i) as B. rewrite H1 in A. rewrite H2 in B.
    clear - A B. split; intros [X Y]; (split; [lia|exact Y]).
  Qed.

  (* Send -> Wait: the request stays open *)
  Lemma OPP_move_sent : completed st' = completed st -> rl_pc st' = rl_pc st ->
    pc = WR_Send -> pc' = WR_Wait -> forall i, OPP st' i <-> OPP st i.
  Proof.
    intros Ec Er H1 H2 i. unfold OPP, latec. rewrite Ec, Er.
    pose proof (wsum_moved cSd i) as A. pose proof (wsum_moved cW i) as B. rewrite H1, H2 in A, B. cbn in A, B.
    rewrite !andb_true_r, !andb_false_r in *. cbn in A, B.
    clear - A B. split; intros [X Y]; (split; [lia|exact Y]).
  Qed.

  (* Start -> Lock: the id leaves files[] but is still not requested *)
  Lemma FKP_move_start : rfiles st' = remb id (rfiles st) -> memb id (rfiles st) = true ->
    pc = WR_Start -> pc' = WR_Lock -> forall i, FKP st' i <-> FKP st i.
  Proof.
    intros Er Hm H1 H2 i. unfold FKP. rewrite Er.
    pose proof (wsum_moved cLk i) as A. rewrite H1, H2 in A. cbn in A. rewrite andb_true_r, andb_false_r in A. cbn in A.
    destruct (Nat.eqb_spec i id).
    - subst i. pose proof (cnt_memb _ _ Hm) as C. rewrite cnt_remb_same. cbn in A. clear - A C. lia.
    - rewrite cnt_remb_other by assumption. cbn in A. clear - A. lia.
  Qed.

  (* Lock -> Send: the REQ goes out *)
  Lemma FKP_move_req : rfiles st' = rfiles st -> pc = WR_Lock -> pc' = WR_Send ->
    cnt id (rfiles st) = 0 -> wsum cLk id st = 1 -> forall i, FKP st' i <-> FKP st i /\ i <> id.
  Proof.
    intros Er H1 H2 C0 L1 i. unfold FKP. rewrite Er.
    pose proof (wsum_moved cLk i) as A. rewrite H1, H2 in A. cbn in A. rewrite andb_true_r, andb_false_r in A. cbn in A.
    destruct (Nat.eqb_spec i id).
    - subst i. cbn in A. clear - A C0 L1. split; [lia|intros [_ X]; congruence].
    - cbn in A. clear - A n. split; [intros X; split; [lia|exact n]|intros [X _]; lia].
  Qed.

  Lemma OPP_move_req : completed st' = completed st -> rl_pc st' = rl_pc st -> pc = WR_Lock -> pc' = WR_Send ->
    latec id st = 0 -> forall i, OPP st' i <-> OPP st i \/ i = id.
  Proof.
    intros Ec Er H1 H2 L0 i. unfold OPP, latec in *. rewrite Ec, Er.
    pose proof (wsum_moved cSd i) as A. pose proof (wsum_moved cW i) as B. rewrite H1, H2 in A, B. cbn in A, B.
    rewrite ?andb_true_r, ?andb_false_r in *. cbn in A, B.
    destruct (Nat.eqb_spec i id).
    - subst i. cbn in A. clear - A B L0. split; [intros _; right; reflexivity|intros _; split; [lia|exact L0]].
    - cbn in A. clear - A B n. split; [intros [X Y]; left; split; [lia|exact Y]|intros [[X Y]|X]; [split; [lia|exact Y]|contradiction]].
  Qed.

  (* Wait -> Notify: the terminator has been received *)
  Lemma OPP_move_done : completed st' = completed st -> rl_pc st' = rl_pc st -> pc = WR_Wait -> pc' = WR_Notify ->
    memb id (completed st) = true -> forall i, OPP st' i <-> OPP st i.
  Proof.
    intros Ec Er H1 H2 Hm i. unfold OPP, latec in *. rewrite Ec, Er.
    pose proof (wsum_moved cSd i) as A. pose proof (wsum_moved cW i) as B. rewrite H1, H2 in A, B. cbn in A, B.
    rewrite ?andb_true_r, ?andb_false_r in *. cbn in A, B. pose proof (cnt_memb _ _ Hm) as C.
    destruct (Nat.eqb_spec i id).
    - subst i. clear - C. split; intros [_ Y]; lia.
    - cbn in B. clear - A B. split; intros [X Y]; (split; [lia|exact Y]).
  Qed.
End Moves.

Lemma returned_writers_done : forall p st, reachable p st -> scal st -> do_pc st = DO_Done ->
  forallb wr_done (wrs st) = true.
Proof.
  intros p st R K D. destruct (inv_reachable _ _ R) as [_ _ _ (_ & _ & I33 & _) _ _ _].
  rewrite D in I33. destruct (I33 (k_re st K)) as [_ X]. exact X.
Qed.

Section RSimWriter.
  Variable p : Lts.params.
  Variable stats : list stat.
  Variable needs : bytes -> bool.
  Variable pay : nat -> nat -> bytes.
  Variable emsg smsg : bytes.
  Hypothesis Habs : rabs_ok p stats needs pay.

  Notation arun := (AccEvents.run (receiver_acc needs)).
  Notation evs := (receiver_events stats pay emsg smsg).

  Variables st st' : Lts.state.
  Variable a : rstate.
  Hypothesis R : reachable p st.
  Hypothesis K : scal st.
  Hypothesis W : forall id, wq p id st.
  Hypothesis K' : scal st'.
  Hypothesis HI : RI stats st a.

  Lemma writer_sim : forall j, step_writer p j st = Some st' ->
    exists a', arun a (evs st (LWriter j)) = Some a' /\ RI stats st' a'.
  Proof.
    intros j H. destruct HI as [Hi Hendm Hrl Herr Hfo Hret Hlive Hfiles Hopen].
    pose proof (k_rb st K) as Hrb. pose proof (k_ee st' K') as Hee'.
    unfold step_writer in H. cbn [receiver_events].
    destruct (nth_error (wrs st) j) as [[id pc]|] eqn:Ew; [|discriminate]. cbn [wr_id wr_pc] in *.
    destruct pc.
    - (* WR_Start *)
      exists a. split; [reflexivity|].
      destruct (memb id (rfiles st)) eqn:Hm; inv_some; subst st'; [|cbn in Hee'; discriminate].
      constructor; cbn; try assumption.
      + eapply keyed_iff; [|exact Hfiles]. intros i. symmetry.
        eapply (FKP_move_start st _ j id WR_Start WR_Lock Ew); try reflexivity. exact Hm.
      + eapply keyed_iff; [|exact Hopen]. intros i. symmetry.
        eapply (OPP_move_same st _ j id WR_Start WR_Lock Ew); reflexivity.
    - (* WR_Lock: the mutex is taken, SendMsg(REQ id) is called *)
      unfold lock_r in H. cbn in H. destruct (r_mu st); [discriminate|]. inv_some. subst st'.
      assert (Hrn : recv_ret st = None).
      { destruct (recv_ret st) eqn:Er; [|reflexivity]. destruct Hlive as [_ D]; [congruence|].
        pose proof (returned_writers_done p st R K D) as X. rewrite forallb_forall in X.
        apply nth_error_In in Ew. apply X in Ew. discriminate. }
      assert (Hr0 : r_ret a = None) by congruence.
      destruct (writer_classes p st W _ _ _ Ew) as (_ & HLk & HSd & HW & _). cbn in HLk, HSd, HW.
      destruct (lock_facts p st W _ _ Ew) as [HC HL].
      assert (HF : FKP st id) by (unfold FKP; rewrite HLk; clear; lia).
      destruct (keyed_lookup _ _ _ _ _ Hfiles HF) as (s & Hl & Hs).
      assert (Hw : wanted needs s = true).
      { destruct Habs as (_ & _ & Hk & _). rewrite <- (Hk id s Hs). pose proof (writer_needed p st R _ _ Ew) as X. cbn in X. rewrite X. reflexivity. }
      cbn [AccEvents.run]. unfold receiver_acc. rewrite Hr0, Hl, Hw.
      eexists. split; [reflexivity|].
      constructor; cbn; try assumption.
      + eapply keyed_remove; [exact Hfiles|].
        eapply (FKP_move_req st _ j id WR_Lock WR_Send Ew); try reflexivity; assumption.
      + eapply keyed_add; [exact Hopen| | |exact Logic.I].
        * unfold OPP. rewrite HSd, HW. clear. intros [X _]. lia.
        * eapply (OPP_move_req st _ j id WR_Lock WR_Send Ew); try reflexivity. exact HL.
    - (* WR_Send: SendMsg completes *)
      unfold send_r in H. rewrite Hrb in H. destruct (room_rs p st); [|discriminate]. inv_some. subst st'.
      exists a. split; [reflexivity|].
      constructor; cbn; try assumption.
      + eapply keyed_iff; [|exact Hfiles]. intros i. symmetry.
        eapply (FKP_move_same st _ j id WR_Send WR_Wait Ew); reflexivity.
      + eapply keyed_iff; [|exact Hopen]. intros i. symmetry.
        eapply (OPP_move_sent st _ j id WR_Send WR_Wait Ew); reflexivity.
    - (* WR_Wait *)
      destruct (memb id (completed st)) eqn:Hm; [|discriminate]. inv_some. subst st'.
      exists a. split; [reflexivity|].
      constructor; cbn; try assumption.
      + eapply keyed_iff; [|exact Hfiles]. intros i. symmetry.
        eapply (FKP_move_same st _ j id WR_Wait WR_Notify Ew); reflexivity.
      + eapply keyed_iff; [|exact Hopen]. intros i. symmetry.
        eapply (OPP_move_done st _ j id WR_Wait WR_Notify Ew); try reflexivity. exact Hm.
    - (* WR_Notify *)
      inv_some. subst st'. exists a. split; [reflexivity|].
      constructor; cbn; try assumption.
      + eapply keyed_iff; [|exact Hfiles]. intros i. symmetry.
        eapply (FKP_move_same st _ j id WR_Notify WR_Done Ew); reflexivity.
      + eapply keyed_iff; [|exact Hopen]. intros i. symmetry.
        eapply (OPP_move_same st _ j id WR_Notify WR_Done Ew); reflexivity.
    - discriminate.
  Qed.
End RSimWriter.
