(* Proofs about the walk model (Model/Walk.v).

   Plan (DESIGN A.3): everything is reduced to [rpr t], the list of (relative component path,
   lstat record) of all nodes of t in DFS order:
     rpr (T r kids) = ([], r) :: concat [ map (cons n) (rpr k) | (n,k) <- kids ].
   * entries_node / entries_root are [rpr] with components joined by '/'  (entries_rpr, entries_root_rpr);
   * membership in rpr is [tree_at]                                        (rpr_tree_at);
   * for a tree whose directories are strictly sorted bytewise, rpr is strictly ascending in the
     lexicographic order on component lists                                (rpr_sorted), which is
     ComparePath on the joined paths (PathP.compare_path_lex)             — "separator sorts lowest";
   * sort_tree produces such a tree with the same nodes                   (sort_tree_sorted, sort_tree_at);
   * the seenFiles map after a prefix of the sequence maps every inode to the first non-directory
     path carrying it                                                      (seen_after_first). *)
From Coq Require Import List NArith Bool Lia Sorting.Permutation Sorting.Sorted.
From FS Require Import Sx Model.Path Model.Stat Model.Tree Model.Walk Proofs.Lex Proofs.PathP.
Import ListNotations.
Open Scope N_scope.
Open Scope bool_scope.

(* ---------- induction principle for the nested tree type ---------- *)
Section TreeInd.
  Variable P : tree -> Prop.
  Hypothesis HT : forall r kids, Forall (fun nk => P (snd nk)) kids -> P (T r kids).
  Fixpoint tree_ind' (t : tree) : P t :=
    match t with
    | T r kids =>
      HT r kids
         ((fix go (l : list (bytes * tree)) : Forall (fun nk => P (snd nk)) l :=
             match l with
             | [] => Forall_nil _
             | nk :: l' => Forall_cons nk (tree_ind' (snd nk)) (go l')
             end) kids)
    end.
End TreeInd.

(* ---------- generic list facts ---------- *)
Lemma SS_app {A} (R : A -> A -> Prop) l1 l2 :
  StronglySorted R l1 -> StronglySorted R l2 -> (forall a b, In a l1 -> In b l2 -> R a b) ->
  StronglySorted R (l1 ++ l2).
Proof.
  induction l1 as [|x l1 IH]; intros H1 H2 H; simpl; auto.
  inversion H1; subst. constructor.
  - apply IH; auto. intros; apply H; simpl; auto.
  - apply Forall_app. split; auto. apply Forall_forall. intros b Hb. apply H; simpl; auto.
Qed.

Lemma SS_map {A B} (R : A -> A -> Prop) (R' : B -> B -> Prop) (f : A -> B) l :
  (forall a b, In a l -> In b l -> R a b -> R' (f a) (f b)) ->
  StronglySorted R l -> StronglySorted R' (map f l).
Proof.
  induction l as [|x l IH]; intros H HS; simpl; [constructor|].
  inversion HS; subst. constructor.
  - apply IH; auto. intros; apply H; simpl; auto.
  - apply Forall_forall. intros y Hy. apply in_map_iff in Hy. destruct Hy as (a & <- & Ha).
    apply H; simpl; auto. rewrite Forall_forall in H3. auto.
Qed.

Lemma SS_NoDup {A} (R : A -> A -> Prop) l :
  (forall x, ~ R x x) -> StronglySorted R l -> NoDup l.
Proof.
  intros Hirr. induction l as [|x l IH]; intros HS; constructor; inversion HS; subst; auto.
  intros Hin. rewrite Forall_forall in H2. apply (Hirr x). auto.
Qed.

Lemma SS_tl {A} (R : A -> A -> Prop) l : StronglySorted R l -> StronglySorted R (tl l).
Proof. destruct l; simpl; auto. intros H; inversion H; auto. Qed.

(* in a strictly sorted list the smaller of two members comes first *)
Lemma SS_split_lt {A} (R : A -> A -> Prop) l x y :
  (forall a b, R a b -> R b a -> False) -> (forall a, ~ R a a) ->
  StronglySorted R l -> In x l -> In y l -> R x y ->
  exists pre post, l = pre ++ y :: post /\ In x pre.
Proof.
  intros Hasym Hirr HS Hx Hy Hxy.
  apply in_split in Hy. destruct Hy as (pre & post & ->).
  exists pre, post. split; auto.
  apply in_app_or in Hx. destruct Hx as [Hx|[Hx|Hx]]; auto.
  - subst. exfalso. eapply Hirr; eauto.
  - exfalso. clear -Hasym HS Hx Hxy. induction pre as [|a pre IH]; simpl in HS.
    + inversion HS; subst. rewrite Forall_forall in H2. eapply Hasym; eauto.
    + inversion HS; subst. auto.
Qed.

Lemma map_flat_map {A B C} (g : B -> C) (f : A -> list B) l :
  map g (flat_map f l) = flat_map (fun a => map g (f a)) l.
Proof. induction l as [|a l IH]; simpl; auto. rewrite map_app, IH. reflexivity. Qed.

Lemma flat_map_ext_in {A B} (f g : A -> list B) l :
  (forall a, In a l -> f a = g a) -> flat_map f l = flat_map g l.
Proof.
  induction l as [|a l IH]; intros H; simpl; auto.
  rewrite H by (simpl; auto). rewrite IH; auto. intros; apply H; simpl; auto.
Qed.

(* ---------- lexicographic order on component lists ---------- *)
Lemma lex_cons n a m b : lex (n :: a) (m :: b) = match cmpb n m with Eq => lex a b | c => c end.
Proof. reflexivity. Qed.

Lemma lex_cons_same n a b : lex (n :: a) (n :: b) = lex a b.
Proof. rewrite lex_cons, cmpb_refl. reflexivity. Qed.

Lemma lex_nil_cons n a : lex [] (n :: a) = Lt.
Proof. reflexivity. Qed.

Lemma compare_path_joinc a b :
  a <> [] -> b <> [] -> Forall nosep a -> Forall nosep b ->
  compare_path (joinc a) (joinc b) = lex a b.
Proof. intros. rewrite compare_path_lex, !comps_joinc; auto. Qed.

Lemma joinc_inj a b :
  a <> [] -> b <> [] -> Forall nosep a -> Forall nosep b -> joinc a = joinc b -> a = b.
Proof. intros Ha Hb Hna Hnb E. rewrite <- (comps_joinc a), <- (comps_joinc b), E; auto. Qed.

Lemma path_lt_irrefl p : ~ path_lt p p.
Proof. unfold path_lt. rewrite compare_path_refl. discriminate. Qed.

Lemma path_lt_asym p q : path_lt p q -> path_lt q p -> False.
Proof. unfold path_lt. intros H1 H2. rewrite compare_path_opp, H1 in H2. discriminate. Qed.

(* ---------- insertion sort of a directory ---------- *)
Definition name_lt {A} (a b : bytes * A) : Prop := cmpb (fst a) (fst b) = Lt.

Lemma insert_kid_perm {A} (x : bytes * A) l : Permutation (insert_kid x l) (x :: l).
Proof.
  induction l as [|y l IH]; simpl; auto.
  destruct (cmp_bytes (fst x) (fst y)); auto.
  eapply perm_trans; [apply perm_skip, IH|apply perm_swap].
Qed.

Lemma isort_kids_perm {A} (l : list (bytes * A)) : Permutation (isort_kids l) l.
Proof.
  induction l as [|x l IH]; simpl; auto.
  eapply perm_trans; [apply insert_kid_perm|apply perm_skip; auto].
Qed.

Lemma insert_kid_sorted {A} (x : bytes * A) l :
  StronglySorted name_lt l -> ~ In (fst x) (map fst l) -> StronglySorted name_lt (insert_kid x l).
Proof.
  induction l as [|y l IH]; intros HS Hn; simpl.
  - constructor; constructor.
  - inversion HS as [|? ? HS' Hy]; subst. rewrite <- cmpb_is_cmp_bytes.
    destruct (cmpb (fst x) (fst y)) eqn:E.
    + exfalso. apply cmpb_eq in E. apply Hn. simpl. auto.
    + constructor; auto. constructor; [exact E|].
      rewrite Forall_forall in *. intros z Hz. unfold name_lt in *. eapply cmpb_trans; eauto.
    + constructor.
      * apply IH; auto. intro; apply Hn; simpl; auto.
      * rewrite Forall_forall in *. intros z Hz.
        apply (Permutation_in _ (insert_kid_perm x l)) in Hz. destruct Hz as [<-|Hz]; auto.
        unfold name_lt. rewrite cmpb_opp, E. reflexivity.
Qed.

Lemma isort_kids_sorted {A} (l : list (bytes * A)) :
  NoDup (map fst l) -> StronglySorted name_lt (isort_kids l).
Proof.
  induction l as [|x l IH]; intros H; simpl; [constructor|].
  inversion H; subst. apply insert_kid_sorted; auto.
  intro Hin. apply H2. eapply Permutation_in; [|exact Hin].
  apply Permutation_map, isort_kids_perm.
Qed.

Lemma isort_kids_in {A} (l : list (bytes * A)) x : In x (isort_kids l) <-> In x l.
Proof.
  split; apply Permutation_in; [apply isort_kids_perm|apply Permutation_sym, isort_kids_perm].
Qed.

(* ---------- tree_at ---------- *)
Lemma tree_at_cons_inv r kids n cs r' :
  tree_at (T r kids) (n :: cs) r' <-> exists k, In (n, k) kids /\ tree_at k cs r'.
Proof.
  split.
  - intros H. inversion H; subst. eauto.
  - intros (k & H1 & H2). econstructor; eauto.
Qed.

Lemma tree_at_nil_inv t r : tree_at t [] r <-> t_rec t = r.
Proof.
  split.
  - intros H. inversion H; subst. reflexivity.
  - destruct t; simpl; intros <-. constructor.
Qed.

Lemma NoDup_fst_fun {A B} (l : list (A * B)) a b1 b2 :
  NoDup (map fst l) -> In (a, b1) l -> In (a, b2) l -> b1 = b2.
Proof.
  induction l as [|[a' b'] l IH]; simpl; intros Hnd H1 H2; [contradiction|].
  inversion Hnd; subst.
  destruct H1 as [H1|H1], H2 as [H2|H2].
  - congruence.
  - inversion H1; subst. exfalso. apply H3. apply in_map_iff. exists (a, b2). auto.
  - inversion H2; subst. exfalso. apply H3. apply in_map_iff. exists (a, b1). auto.
  - auto.
Qed.

Lemma tree_at_fun t : wf_tree t -> forall cs r1 r2, tree_at t cs r1 -> tree_at t cs r2 -> r1 = r2.
Proof.
  induction t as [r kids IH] using tree_ind'. intros Hwf cs.
  inversion Hwf as [? ? _ _ Hnd Hk]; subst.
  destruct cs as [|n cs]; intros r1 r2 H1 H2.
  - apply tree_at_nil_inv in H1, H2. congruence.
  - apply tree_at_cons_inv in H1, H2. destruct H1 as (k1 & Hi1 & H1), H2 as (k2 & Hi2 & H2).
    assert (k1 = k2) by (eapply NoDup_fst_fun; eauto). subst k2.
    rewrite Forall_forall in IH, Hk. eapply (IH (n, k1)); eauto; apply (Hk (n, k1)); auto.
Qed.

(* names along a path of a well-formed tree are well formed *)
Lemma tree_at_names t : wf_tree t -> forall cs r, tree_at t cs r -> Forall wf_name cs.
Proof.
  induction t as [r kids IH] using tree_ind'. intros Hwf cs.
  inversion Hwf as [? ? _ Hn _ Hk]; subst.
  destruct cs as [|n cs]; intros r' H; [constructor|].
  apply tree_at_cons_inv in H. destruct H as (k & Hi & H).
  rewrite Forall_forall in IH, Hk, Hn. constructor.
  - apply (Hn (n, k)); auto.
  - eapply (IH (n, k)); eauto; apply (Hk (n, k)); auto.
Qed.

Lemma wf_name_nosep n : wf_name n -> nosep n.
Proof. intros (_ & H & _). exact H. Qed.

Lemma tree_at_nosep t cs r : wf_tree t -> tree_at t cs r -> Forall nosep cs.
Proof.
  intros Hwf H. eapply Forall_impl; [|eapply tree_at_names; eauto]. apply wf_name_nosep.
Qed.

Lemma tree_at_prefix t cs n r : tree_at t (cs ++ [n]) r -> exists r', tree_at t cs r'.
Proof.
  revert t. induction cs as [|c cs IH]; intros t H.
  - destruct t. eexists. constructor.
  - simpl in H. destruct t as [r0 kids]. apply tree_at_cons_inv in H. destruct H as (k & Hi & H).
    destruct (IH _ H) as [r' H']. exists r'. econstructor; eauto.
Qed.

(* ---------- rpr: relative component paths with records, DFS order ---------- *)
Fixpoint rpr (t : tree) : list (list bytes * lrec) :=
  match t with
  | T r kids =>
    ([], r) :: flat_map (fun nk => match nk with (n, k) => map (fun cr => (n :: fst cr, snd cr)) (rpr k) end) kids
  end.

Definition rpr_kids (kids : list (bytes * tree)) : list (list bytes * lrec) :=
  flat_map (fun nk => match nk with (n, k) => map (fun cr => (n :: fst cr, snd cr)) (rpr k) end) kids.

Lemma rpr_unfold r kids : rpr (T r kids) = ([], r) :: rpr_kids kids.
Proof. reflexivity. Qed.

Lemma rpr_kids_in kids c r :
  In (c, r) (rpr_kids kids) <-> exists n k c', c = n :: c' /\ In (n, k) kids /\ In (c', r) (rpr k).
Proof.
  unfold rpr_kids. rewrite in_flat_map. split.
  - intros ([n k] & Hi & H). apply in_map_iff in H. destruct H as ([c' r'] & E & H). simpl in E.
    inversion E; subst. exists n, k, c'. auto.
  - intros (n & k & c' & -> & Hi & H). exists (n, k). split; auto.
    apply in_map_iff. exists (c', r). auto.
Qed.

Lemma rpr_tree_at t : forall c r, In (c, r) (rpr t) <-> tree_at t c r.
Proof.
  induction t as [r0 kids IH] using tree_ind'. intros c r. rewrite rpr_unfold. simpl.
  rewrite rpr_kids_in. rewrite Forall_forall in IH. split.
  - intros [E|(n & k & c' & -> & Hi & H)].
    + inversion E; subst. constructor.
    + econstructor; eauto. apply (IH (n, k)); auto.
  - intros H. destruct c as [|n c'].
    + apply tree_at_nil_inv in H. simpl in H. subst. auto.
    + apply tree_at_cons_inv in H. destruct H as (k & Hi & H). right.
      exists n, k, c'. repeat split; auto. apply (IH (n, k)); auto.
Qed.

Lemma rpr_kids_nonnil kids c r : In (c, r) (rpr_kids kids) -> c <> [].
Proof. rewrite rpr_kids_in. intros (n & k & c' & -> & _). discriminate. Qed.

(* ---------- entries = rpr with joined components ---------- *)
Definition pjoin (p : bytes) (c : list bytes) : bytes := fold_left (fun acc n => acc ++ sep :: n) c p.

Lemma pjoin_joinc cs c : cs <> [] -> pjoin (joinc cs) c = joinc (cs ++ c).
Proof.
  revert cs. induction c as [|n c IH]; intros cs H; simpl.
  - rewrite app_nil_r. reflexivity.
  - unfold pjoin in *. rewrite <- joinc_snoc by auto. rewrite IH by (destruct cs; discriminate).
    rewrite <- app_assoc. reflexivity.
Qed.

Lemma entries_rpr t : forall p, entries_node p t = map (fun cr => (pjoin p (fst cr), snd cr)) (rpr t).
Proof.
  induction t as [r kids IH] using tree_ind'. intros p. rewrite rpr_unfold. simpl. f_equal.
  fold (rpr_kids kids). unfold rpr_kids. rewrite map_flat_map. apply flat_map_ext_in.
  intros [n k] Hi. rewrite Forall_forall in IH. rewrite (IH (n, k) Hi). rewrite map_map. reflexivity.
Qed.

Lemma entries_node_joinc cs t :
  cs <> [] -> entries_node (joinc cs) t = map (fun cr => (joinc (cs ++ fst cr), snd cr)) (rpr t).
Proof.
  intros H. rewrite entries_rpr. apply map_ext. intros [c r]. simpl. rewrite pjoin_joinc; auto.
Qed.

Lemma entries_root_rpr t :
  entries_root t = map (fun cr => (joinc (fst cr), snd cr)) (rpr_kids (t_kids t)).
Proof.
  destruct t as [r kids]. unfold entries_root, rpr_kids. simpl. rewrite map_flat_map.
  apply flat_map_ext_in. intros [n k] Hi.
  change n with (joinc [n]) at 1. rewrite entries_node_joinc by discriminate.
  rewrite map_map. reflexivity.
Qed.

(* ---------- sortedness of rpr for trees with sorted directories ---------- *)
Inductive sorted_tree : tree -> Prop :=
| sorted_T r kids :
    StronglySorted name_lt kids ->
    Forall (fun nk => nosep (fst nk)) kids ->
    Forall (fun nk => sorted_tree (snd nk)) kids ->
    sorted_tree (T r kids).

Definition clex (a b : list bytes * lrec) : Prop := lex (fst a) (fst b) = Lt.

Lemma rpr_kids_sorted kids :
  StronglySorted name_lt kids ->
  Forall (fun nk => StronglySorted clex (rpr (snd nk))) kids ->
  StronglySorted clex (rpr_kids kids).
Proof.
  induction kids as [|[n k] kids IHk]; intros HS HF; [constructor|].
  inversion HS as [|? ? HS' Hn]; subst. inversion HF as [|? ? Hk HF']; subst.
  unfold rpr_kids. simpl. apply SS_app.
  - eapply SS_map; [|exact Hk]. intros a b _ _ Hab. unfold clex in *. cbn [fst snd].
    rewrite lex_cons_same. exact Hab.
  - apply IHk; auto.
  - intros a b Ha Hb. apply in_map_iff in Ha. destruct Ha as ([ca ra] & <- & _).
    destruct b as [cb rb]. fold (rpr_kids kids) in Hb. apply rpr_kids_in in Hb.
    destruct Hb as (m & k' & c' & -> & Hi & _). unfold clex. cbn [fst snd].
    rewrite Forall_forall in Hn. specialize (Hn _ Hi). unfold name_lt in Hn. cbn [fst snd] in Hn.
    rewrite lex_cons, Hn. reflexivity.
Qed.

Lemma rpr_sorted t : sorted_tree t -> StronglySorted clex (rpr t).
Proof.
  induction t as [r kids IH] using tree_ind'. intros HS. inversion HS as [? ? Hs _ Hk]; subst.
  rewrite rpr_unfold. constructor.
  - apply rpr_kids_sorted; auto. rewrite Forall_forall in *. intros nk Hi. apply IH; auto.
  - apply Forall_forall. intros [c r'] Hi. apply rpr_kids_in in Hi.
    destruct Hi as (n & k & c' & -> & _). reflexivity.
Qed.

Lemma rpr_nosep t : sorted_tree t -> forall c r, In (c, r) (rpr t) -> Forall nosep c.
Proof.
  induction t as [r0 kids IH] using tree_ind'. intros HS c r. inversion HS as [? ? _ Hn Hk]; subst.
  rewrite rpr_unfold. simpl. intros [E|Hi].
  - inversion E; subst. constructor.
  - apply rpr_kids_in in Hi. destruct Hi as (n & k & c' & -> & Hi & H).
    rewrite Forall_forall in IH, Hn, Hk. constructor.
    + apply (Hn (n, k)); auto.
    + eapply (IH (n, k)); eauto; apply (Hk (n, k)); auto.
Qed.

(* paths below a common non-empty prefix cs are strictly ascending in ComparePath order *)
Lemma rpr_paths_sorted cs l :
  StronglySorted clex l ->
  (forall c r, In (c, r) l -> cs ++ c <> [] /\ Forall nosep (cs ++ c)) ->
  StronglySorted path_lt (map (fun cr => joinc (cs ++ fst cr)) l).
Proof.
  intros HS Hok. eapply SS_map; [|exact HS].
  intros [a ra] [b rb] Ha Hb Hab. unfold clex in Hab. simpl in *. unfold path_lt.
  destruct (Hok _ _ Ha), (Hok _ _ Hb).
  rewrite compare_path_joinc by auto. rewrite lex_app_same. exact Hab.
Qed.

(* ---------- sort_tree ---------- *)
Definition sort_kid (nk : bytes * tree) : bytes * tree := match nk with (n, k) => (n, sort_tree k) end.

Lemma sort_tree_unfold r kids : sort_tree (T r kids) = T r (isort_kids (map sort_kid kids)).
Proof. reflexivity. Qed.

Lemma map_fst_sort_kid kids : map fst (map sort_kid kids) = map fst kids.
Proof. rewrite map_map. apply map_ext. intros [n k]. reflexivity. Qed.

Lemma sort_tree_sorted t : wf_tree t -> sorted_tree (sort_tree t).
Proof.
  induction t as [r kids IH] using tree_ind'. intros Hwf.
  inversion Hwf as [? ? _ Hn Hnd Hk]; subst. rewrite sort_tree_unfold. constructor.
  - apply isort_kids_sorted. rewrite map_fst_sort_kid. exact Hnd.
  - apply Forall_forall. intros nk Hi. apply (proj1 (isort_kids_in _ _)) in Hi. apply in_map_iff in Hi.
    destruct Hi as ([n k] & <- & Hi). simpl. rewrite Forall_forall in Hn. apply wf_name_nosep. apply (Hn (n, k)); auto.
  - apply Forall_forall. intros nk Hi. apply (proj1 (isort_kids_in _ _)) in Hi. apply in_map_iff in Hi.
    destruct Hi as ([n k] & <- & Hi). simpl. rewrite Forall_forall in IH, Hk. apply (IH (n, k)); auto;
    apply (Hk (n, k)); auto.
Qed.

Lemma sort_tree_at t : forall cs r, tree_at (sort_tree t) cs r <-> tree_at t cs r.
Proof.
  induction t as [r0 kids IH] using tree_ind'. intros cs r. rewrite sort_tree_unfold.
  destruct cs as [|n cs].
  - rewrite !tree_at_nil_inv. reflexivity.
  - rewrite !tree_at_cons_inv. rewrite Forall_forall in IH. split.
    + intros (k' & Hi & H). apply (proj1 (isort_kids_in _ _)) in Hi. apply in_map_iff in Hi.
      destruct Hi as ([n0 k] & E & Hi). simpl in E. inversion E; subst.
      exists k. split; auto. apply (IH (n, k)); auto.
    + intros (k & Hi & H). exists (sort_tree k). split.
      * apply (proj2 (isort_kids_in _ _)). apply in_map_iff. exists (n, k). auto.
      * apply (IH (n, k)); auto.
Qed.

(* ---------- scan / mkstat ---------- *)
Lemma mkstat_path p r seen : st_path (fst (mkstat p r seen)) = p.
Proof.
  unfold mkstat, set_unix_opt.
  destruct (is_dir r); simpl; [reflexivity|].
  destruct (N.ltb 1 (l_nlink r)); [destruct (ilookup (l_ino r) seen)|];
    destruct (negb (N.eqb (N.land (l_mode r) S_IFBLK) 0) || negb (N.eqb (N.land (l_mode r) S_IFCHR) 0));
    simpl; destruct (is_symlink r); reflexivity.
Qed.

Lemma scan_paths l : forall seen, map st_path (scan seen l) = map fst l.
Proof.
  induction l as [|[p r] l IH]; intros seen; simpl; auto.
  destruct (mkstat p r seen) as [st seen'] eqn:E. simpl. rewrite IH. f_equal.
  change st with (fst (st, seen')). rewrite <- E. apply mkstat_path.
Qed.

Lemma scan_app pre : forall seen p r post,
  scan seen (pre ++ (p, r) :: post) =
  scan seen pre ++ fst (mkstat p r (seen_after seen pre)) :: scan (seen_after seen (pre ++ [(p, r)])) post.
Proof.
  induction pre as [|[q s] pre IH]; intros seen p r post; simpl.
  - destruct (mkstat p r seen); reflexivity.
  - destruct (mkstat q s seen) as [st seen'] eqn:E. simpl. rewrite IH. reflexivity.
Qed.

Lemma scan_in l : forall seen st, In st (scan seen l) ->
  exists pre p r post, l = pre ++ (p, r) :: post /\ st = fst (mkstat p r (seen_after seen pre)).
Proof.
  induction l as [|[p r] l IH]; intros seen st H; simpl in H; [contradiction|].
  destruct (mkstat p r seen) as [st0 seen'] eqn:E. destruct H as [<-|H].
  - exists [], p, r, l. simpl. rewrite E. auto.
  - destruct (IH _ _ H) as (pre & q & s & post & -> & ->).
    exists ((p, r) :: pre), q, s, post. simpl. rewrite E. auto.
Qed.

(* the stat of an entry, field by field; only Linkname of a non-symlink non-directory depends on seenFiles *)
Definition hl_name (r : lrec) (seen : list (N * bytes)) : bytes :=
  if N.ltb 1 (l_nlink r) then match ilookup (l_ino r) seen with Some old => old | None => [] end else [].

Lemma mkstat_fields p r seen :
  let st := fst (mkstat p r seen) in
  st_path st = p /\
  st_mode st = N.ldiff (go_mode (l_mode r)) ModeSocket /\
  st_uid st = l_uid r /\ st_gid st = l_gid r /\
  st_size st = (if is_dir r then 0 else l_size r) /\
  st_mtime st = l_mtime r /\
  st_xattrs st = load_xattr (l_xattrs r) /\
  st_devmajor st = (if is_dir r then 0 else
                    if negb (N.eqb (N.land (l_mode r) S_IFBLK) 0) || negb (N.eqb (N.land (l_mode r) S_IFCHR) 0)
                    then major (l_rdev r) else 0) /\
  st_devminor st = (if is_dir r then 0 else
                    if negb (N.eqb (N.land (l_mode r) S_IFBLK) 0) || negb (N.eqb (N.land (l_mode r) S_IFCHR) 0)
                    then minor (l_rdev r) else 0) /\
  st_linkname st = (if is_dir r then [] else if is_symlink r then l_target r else hl_name r seen).
Proof.
  unfold mkstat, set_unix_opt, hl_name.
  destruct (is_dir r); simpl; [repeat split; reflexivity|].
  destruct (N.ltb 1 (l_nlink r)); [destruct (ilookup (l_ino r) seen)|];
    destruct (negb (N.eqb (N.land (l_mode r) S_IFBLK) 0) || negb (N.eqb (N.land (l_mode r) S_IFCHR) 0));
    simpl; destruct (is_symlink r); simpl; repeat split; reflexivity.
Qed.

Lemma mkstat_seen p r seen :
  snd (mkstat p r seen) =
  if is_dir r then seen
  else if N.ltb 1 (l_nlink r) then
         match ilookup (l_ino r) seen with Some _ => seen | None => iinsert (l_ino r) p seen end
       else iinsert (l_ino r) p seen.
Proof.
  unfold mkstat, set_unix_opt.
  destruct (is_dir r); simpl; [reflexivity|].
  destruct (N.ltb 1 (l_nlink r)); [destruct (ilookup (l_ino r) seen)|]; reflexivity.
Qed.

(* ---------- the seenFiles invariant ---------- *)
(* path of the first non-directory entry of l with inode i *)
Fixpoint first_of (i : N) (l : list (bytes * lrec)) : option bytes :=
  match l with
  | [] => None
  | (p, r) :: l' => if negb (is_dir r) && N.eqb (l_ino r) i then Some p else first_of i l'
  end.

Lemma first_of_app i l1 l2 :
  first_of i (l1 ++ l2) = match first_of i l1 with Some q => Some q | None => first_of i l2 end.
Proof.
  induction l1 as [|[p r] l1 IH]; simpl; auto.
  destruct (negb (is_dir r) && N.eqb (l_ino r) i); auto.
Qed.

Lemma first_of_some i l q :
  first_of i l = Some q ->
  exists pre r post, l = pre ++ (q, r) :: post /\ is_dir r = false /\ l_ino r = i /\ first_of i pre = None.
Proof.
  induction l as [|[p r] l IH]; simpl; intros H; [discriminate|].
  destruct (negb (is_dir r) && N.eqb (l_ino r) i) eqn:E.
  - inversion H; subst. apply andb_true_iff in E. destruct E as [E1 E2].
    apply negb_true_iff in E1. apply N.eqb_eq in E2.
    exists [], r, l. simpl. auto.
  - destruct (IH H) as (pre & r' & post & -> & H1 & H2 & H3).
    exists ((p, r) :: pre), r', post. simpl. rewrite E. auto.
Qed.

Lemma first_of_none i l p r :
  first_of i l = None -> In (p, r) l -> is_dir r = false -> l_ino r <> i.
Proof.
  induction l as [|[q s] l IH]; simpl; intros H Hi Hd; [contradiction|].
  destruct (negb (is_dir s) && N.eqb (l_ino s) i) eqn:E; [discriminate|].
  destruct Hi as [Hi|Hi]; [|eauto].
  inversion Hi; subst. rewrite Hd in E. simpl in E. apply N.eqb_neq in E. exact E.
Qed.

(* nlink consistency of a sequence: an entry that shares its inode with an EARLIER non-directory has nlink > 1 *)
Definition seq_consistent (l : list (bytes * lrec)) : Prop :=
  forall pre p r post, l = pre ++ (p, r) :: post -> is_dir r = false ->
    first_of (l_ino r) pre <> None -> N.ltb 1 (l_nlink r) = true.

Lemma seen_after_snoc pre : forall seen p r,
  seen_after seen (pre ++ [(p, r)]) = snd (mkstat p r (seen_after seen pre)).
Proof.
  induction pre as [|[q s] pre IH]; intros seen p r; simpl; auto.
Qed.

Lemma seen_after_first l : seq_consistent l ->
  forall pre post, l = pre ++ post ->
  forall i, ilookup i (seen_after [] pre) = first_of i pre.
Proof.
  intros Hc pre. induction pre as [|[p r] pre IH] using rev_ind; intros post E i; [reflexivity|].
  rewrite <- app_assoc in E. simpl in E.
  rewrite seen_after_snoc, mkstat_seen, first_of_app. simpl.
  specialize (IH _ E). destruct (is_dir r) eqn:Hd; simpl.
  - rewrite IH. destruct (first_of i pre); reflexivity.
  - destruct (N.ltb 1 (l_nlink r)) eqn:Hn.
    + rewrite (IH (l_ino r)). destruct (first_of (l_ino r) pre) eqn:Hf.
      * rewrite IH. destruct (N.eqb (l_ino r) i) eqn:Ei.
        -- apply N.eqb_eq in Ei. subst i. rewrite Hf. reflexivity.
        -- destruct (first_of i pre); reflexivity.
      * unfold iinsert. simpl. rewrite N.eqb_sym. destruct (N.eqb (l_ino r) i) eqn:Ei.
        -- apply N.eqb_eq in Ei. subst i. rewrite Hf. reflexivity.
        -- rewrite IH. destruct (first_of i pre); reflexivity.
    + (* nlink <= 1: by consistency no earlier entry has this inode *)
      assert (Hf : first_of (l_ino r) pre = None).
      { destruct (first_of (l_ino r) pre) eqn:Hf; auto.
        exfalso. assert (N.ltb 1 (l_nlink r) = true) by (eapply Hc; eauto; congruence). congruence. }
      unfold iinsert. simpl. rewrite N.eqb_sym. destruct (N.eqb (l_ino r) i) eqn:Ei.
      * apply N.eqb_eq in Ei. subst i. rewrite Hf. reflexivity.
      * rewrite IH. destruct (first_of i pre); reflexivity.
Qed.

(* Linkname of the entry at a position, in terms of the first holder of its inode in the WHOLE sequence *)
Lemma scan_linkname l : seq_consistent l -> NoDup (map fst l) ->
  forall pre p r post, l = pre ++ (p, r) :: post -> is_dir r = false ->
  exists f, first_of (l_ino r) l = Some f /\
    st_linkname (fst (mkstat p r (seen_after [] pre))) =
      if is_symlink r then l_target r else if bytes_eqb f p then [] else f.
Proof.
  intros Hc Hnd pre p r post E Hd.
  pose proof (mkstat_fields p r (seen_after [] pre)) as F. cbv zeta in F.
  destruct F as (_ & _ & _ & _ & _ & _ & _ & _ & _ & F). rewrite F, Hd. clear F.
  unfold hl_name. rewrite (seen_after_first l Hc pre _ E).
  rewrite E, first_of_app. simpl. rewrite Hd, N.eqb_refl. simpl.
  destruct (first_of (l_ino r) pre) as [q|] eqn:Hf.
  - exists q. split; auto. destruct (is_symlink r); auto.
    assert (Hn : N.ltb 1 (l_nlink r) = true) by (eapply Hc; eauto; congruence). rewrite Hn.
    destruct (bytes_eqb q p) eqn:Eq; auto. exfalso. apply bytes_eqb_eq in Eq. subst q.
    apply first_of_some in Hf. destruct Hf as (pre1 & r1 & post1 & -> & _).
    rewrite E in Hnd. rewrite map_app in Hnd. simpl in Hnd. apply NoDup_remove_2 in Hnd.
    apply Hnd. apply in_or_app. left. rewrite map_app. apply in_or_app. right. simpl. auto.
  - exists p. split; auto. rewrite bytes_eqb_refl. destruct (is_symlink r); auto.
    destruct (N.ltb 1 (l_nlink r)); reflexivity.
Qed.

(* the first holder is a non-directory entry with that inode, and precedes every other one *)
Lemma first_of_least (R : bytes -> bytes -> Prop) l i f :
  StronglySorted R (map fst l) -> first_of i l = Some f ->
  (exists r, In (f, r) l /\ is_dir r = false /\ l_ino r = i) /\
  (forall q s, In (q, s) l -> is_dir s = false -> l_ino s = i -> q = f \/ R f q).
Proof.
  intros HS Hf. apply first_of_some in Hf. destruct Hf as (pre & r & post & -> & Hd & Hi & Hn). split.
  - exists r. split; auto. apply in_or_app. right. simpl. auto.
  - intros q s Hin Hds His. apply in_app_or in Hin. destruct Hin as [Hin|[Hin|Hin]].
    + exfalso. eapply first_of_none; eauto.
    + inversion Hin; auto.
    + right. rewrite map_app in HS. simpl in HS.
      assert (HS2 : StronglySorted R (f :: map fst post)).
      { clear -HS. induction (map fst pre) as [|a m IH]; simpl in HS; auto. inversion HS; auto. }
      inversion HS2; subst. rewrite Forall_forall in H2. apply H2. apply in_map_iff. exists (q, s). auto.
Qed.

(* ====================================================================================== *)
(* Top-level theorems about [walk]. *)

Lemma entries_in t p r :
  In (p, r) (entries_root (sort_tree t)) <-> exists cs, cs <> [] /\ p = joinc cs /\ tree_at t cs r.
Proof.
  rewrite entries_root_rpr, in_map_iff. split.
  - intros ([c r'] & E & Hi). simpl in E. inversion E; subst. exists c.
    split; [eapply rpr_kids_nonnil; eauto|]. split; auto.
    apply sort_tree_at. apply rpr_tree_at. destruct (sort_tree t) as [r0 kids]. rewrite rpr_unfold. right. exact Hi.
  - intros (cs & Hne & -> & Hat). exists (cs, r). split; auto.
    apply sort_tree_at in Hat. apply rpr_tree_at in Hat. destruct (sort_tree t) as [r0 kids].
    rewrite rpr_unfold in Hat. destruct Hat as [E|Hi]; [inversion E; congruence|exact Hi].
Qed.

Lemma entries_root_sorted t : sorted_tree t -> StronglySorted path_lt (map fst (entries_root t)).
Proof.
  intros HS. rewrite entries_root_rpr, map_map. cbn [fst].
  destruct t as [r kids]. cbn [t_kids].
  pose proof (rpr_sorted _ HS) as H. rewrite rpr_unfold in H. inversion H as [|? ? H1 H2]; subst.
  apply (rpr_paths_sorted [] (rpr_kids kids)); auto.
  intros c r' Hi. simpl. split; [eapply rpr_kids_nonnil; eauto|].
  eapply (rpr_nosep (T r kids)); eauto. rewrite rpr_unfold. right. eauto.
Qed.

Lemma entries_sorted t : wf_tree t -> StronglySorted path_lt (map fst (entries_root (sort_tree t))).
Proof. intros Hwf. apply entries_root_sorted, sort_tree_sorted, Hwf. Qed.

Theorem walk_sorted_proof t : wf_tree t -> StronglySorted path_lt (map st_path (walk t)).
Proof. intros Hwf. unfold walk. rewrite scan_paths. apply entries_sorted; auto. Qed.

Theorem walk_complete_once_proof t : wf_tree t ->
  (forall p, In p (map st_path (walk t)) <-> exists cs r, cs <> [] /\ p = joinc cs /\ tree_at t cs r)
  /\ NoDup (map st_path (walk t)).
Proof.
  intros Hwf. split.
  - intros p. unfold walk. rewrite scan_paths, in_map_iff. split.
    + intros ([p' r] & <- & Hi). apply entries_in in Hi. destruct Hi as (cs & ? & ? & ?). exists cs, r. auto.
    + intros (cs & r & Hne & -> & Hat). exists (joinc cs, r). split; auto. apply entries_in. exists cs; auto.
  - eapply SS_NoDup; [|apply walk_sorted_proof; auto]. apply path_lt_irrefl.
Qed.

Lemma map_split_at {A B} (f : A -> B) l pre y post :
  map f l = pre ++ y :: post ->
  exists l1 x l2, l = l1 ++ x :: l2 /\ map f l1 = pre /\ f x = y /\ map f l2 = post.
Proof.
  revert l. induction pre as [|b pre IH]; intros l H; simpl in H.
  - destruct l as [|x l]; [discriminate|]. simpl in H. inversion H; subst. exists [], x, l. auto.
  - destruct l as [|a l]; [discriminate|]. simpl in H. inversion H; subst.
    destruct (IH _ H2) as (l1 & x & l2 & -> & E1 & E2 & E3).
    exists (a :: l1), x, l2. simpl. rewrite E1. auto.
Qed.

Theorem walk_parent_first_proof t : wf_tree t ->
  forall cs n r, cs <> [] -> tree_at t (cs ++ [n]) r ->
  exists pre st post, walk t = pre ++ st :: post /\ st_path st = joinc (cs ++ [n])
                      /\ In (joinc cs) (map st_path pre).
Proof.
  intros Hwf cs n r Hne Hat.
  destruct (tree_at_prefix _ _ _ _ Hat) as [r' Hat'].
  destruct (walk_complete_once_proof t Hwf) as [Hc _].
  assert (Hne2 : cs ++ [n] <> []) by (destruct cs; discriminate).
  assert (Hchild : In (joinc (cs ++ [n])) (map st_path (walk t))) by (apply Hc; exists (cs ++ [n]), r; auto).
  assert (Hpar : In (joinc cs) (map st_path (walk t))) by (apply Hc; exists cs, r'; auto).
  assert (Hlt : path_lt (joinc cs) (joinc (cs ++ [n]))).
  { unfold path_lt. rewrite compare_path_joinc; auto.
    - apply lex_prefix_lt. discriminate.
    - eapply tree_at_nosep; eauto.
    - eapply tree_at_nosep; eauto. }
  destruct (SS_split_lt path_lt _ _ _ path_lt_asym path_lt_irrefl (walk_sorted_proof t Hwf) Hpar Hchild Hlt)
    as (pre & post & E & Hin).
  apply map_split_at in E. destruct E as (l1 & x & l2 & E & E1 & E2 & E3).
  exists l1, x, l2. rewrite E1. auto.
Qed.

(* every emitted stat comes from one position of the WalkDir sequence, which is a node of the tree *)
Lemma walk_entry t st : In st (walk t) ->
  exists pre p r post cs,
    entries_root (sort_tree t) = pre ++ (p, r) :: post /\
    st = fst (mkstat p r (seen_after [] pre)) /\
    cs <> [] /\ p = joinc cs /\ tree_at t cs r.
Proof.
  unfold walk. intros H. apply scan_in in H. destruct H as (pre & p & r & post & E & ->).
  assert (Hi : In (p, r) (entries_root (sort_tree t))) by (rewrite E; apply in_or_app; right; simpl; auto).
  apply entries_in in Hi. destruct Hi as (cs & Hne & -> & Hat).
  exists pre, (joinc cs), r, post, cs. auto.
Qed.

(* the node is determined by the path *)
Lemma node_unique t cs1 r1 cs2 r2 : wf_tree t ->
  cs1 <> [] -> cs2 <> [] -> tree_at t cs1 r1 -> tree_at t cs2 r2 -> joinc cs1 = joinc cs2 ->
  cs1 = cs2 /\ r1 = r2.
Proof.
  intros Hwf H1 H2 A1 A2 E.
  assert (cs1 = cs2) by (apply joinc_inj; auto; eapply tree_at_nosep; eauto).
  subst. split; auto. eapply tree_at_fun; eauto.
Qed.

Theorem walk_stat_proof t : wf_tree t ->
  forall st, In st (walk t) ->
  forall cs r, cs <> [] -> tree_at t cs r -> st_path st = joinc cs ->
    st_mode st = N.ldiff (go_mode (l_mode r)) ModeSocket /\
    st_uid st = l_uid r /\ st_gid st = l_gid r /\
    st_size st = (if is_dir r then 0 else l_size r) /\
    st_mtime st = l_mtime r /\
    st_xattrs st = load_xattr (l_xattrs r) /\
    st_devmajor st = (if is_dir r then 0 else
                      if negb (N.eqb (N.land (l_mode r) S_IFBLK) 0) || negb (N.eqb (N.land (l_mode r) S_IFCHR) 0)
                      then major (l_rdev r) else 0) /\
    st_devminor st = (if is_dir r then 0 else
                      if negb (N.eqb (N.land (l_mode r) S_IFBLK) 0) || negb (N.eqb (N.land (l_mode r) S_IFCHR) 0)
                      then minor (l_rdev r) else 0) /\
    (is_dir r = true -> st_linkname st = []) /\
    (is_dir r = false -> is_symlink r = true -> st_linkname st = l_target r).
Proof.
  intros Hwf st Hin cs r Hne Hat Hp.
  destruct (walk_entry _ _ Hin) as (pre & p & r' & post & cs' & E & -> & Hne' & -> & Hat').
  rewrite mkstat_path in Hp.
  destruct (node_unique t cs' r' cs r Hwf Hne' Hne Hat' Hat Hp) as [-> ->].
  pose proof (mkstat_fields (joinc cs) r (seen_after [] pre)) as F. cbv zeta in F.
  destruct F as (_ & F1 & F2 & F3 & F4 & F5 & F6 & F7 & F8 & F9).
  repeat (split; [assumption|]). split.
  - intros Hd. rewrite F9, Hd. reflexivity.
  - intros Hd Hs. rewrite F9, Hd, Hs. reflexivity.
Qed.

Lemma entries_consistent t : wf_tree t -> ino_consistent t -> seq_consistent (entries_root (sort_tree t)).
Proof.
  intros Hwf Hc pre p r post E Hd Hf.
  destruct (first_of (l_ino r) pre) as [q|] eqn:Hq; [|congruence].
  apply first_of_some in Hq. destruct Hq as (pre1 & r1 & post1 & Epre & Hd1 & Hi1 & _).
  assert (In1 : In (q, r1) (entries_root (sort_tree t))).
  { rewrite E, Epre. apply in_or_app. left. apply in_or_app. right. simpl. auto. }
  assert (In2 : In (p, r) (entries_root (sort_tree t))).
  { rewrite E. apply in_or_app. right. simpl. auto. }
  assert (Hneq : q <> p).
  { pose proof (entries_sorted t Hwf) as HS. apply SS_NoDup in HS; [|apply path_lt_irrefl].
    rewrite E, map_app in HS. simpl in HS. apply NoDup_remove_2 in HS. intro; subst q. apply HS.
    apply in_or_app. left. rewrite Epre, map_app. apply in_or_app. right. simpl. auto. }
  apply entries_in in In1, In2. destruct In1 as (cs1 & _ & -> & A1), In2 as (cs2 & _ & -> & A2).
  apply (Hc cs2 r cs1 r1); auto. congruence.
Qed.

Theorem walk_hardlinks_proof t : wf_tree t -> one_fs t -> ino_consistent t ->
  forall st, In st (walk t) ->
  forall cs r, cs <> [] -> tree_at t cs r -> st_path st = joinc cs -> is_dir r = false ->
  exists cs0 r0,
    cs0 <> [] /\ tree_at t cs0 r0 /\ is_dir r0 = false /\ l_ino r0 = l_ino r /\ l_dev r0 = l_dev r /\
    (forall cs1 r1, cs1 <> [] -> tree_at t cs1 r1 -> is_dir r1 = false -> l_ino r1 = l_ino r ->
                    cs1 = cs0 \/ path_lt (joinc cs0) (joinc cs1)) /\
    st_linkname st = (if is_symlink r then l_target r
                      else if bytes_eqb (joinc cs0) (joinc cs) then [] else joinc cs0).
Proof.
  intros Hwf Hfs Hc st Hin cs r Hne Hat Hp Hd.
  destruct (walk_entry _ _ Hin) as (pre & p & r' & post & cs' & E & -> & Hne' & -> & Hat').
  rewrite mkstat_path in Hp.
  destruct (node_unique t cs' r' cs r Hwf Hne' Hne Hat' Hat Hp) as [-> ->].
  pose proof (entries_sorted t Hwf) as HS.
  assert (Hnd : NoDup (map fst (entries_root (sort_tree t)))) by (eapply SS_NoDup; [apply path_lt_irrefl|exact HS]).
  destruct (scan_linkname _ (entries_consistent t Hwf Hc) Hnd pre (joinc cs) r post E Hd) as (f & Hf & Hl).
  destruct (first_of_least path_lt _ _ _ HS Hf) as ((r0 & Hi0 & Hd0 & Hino0) & Hleast).
  apply entries_in in Hi0. destruct Hi0 as (cs0 & Hne0 & -> & Hat0).
  exists cs0, r0. repeat (split; [assumption|]). split; [eapply Hfs; eauto|]. split; [|exact Hl].
  intros cs1 r1 Hne1 Hat1 Hd1 Hino1.
  assert (Hi1 : In (joinc cs1, r1) (entries_root (sort_tree t))) by (apply entries_in; exists cs1; auto).
  destruct (Hleast _ _ Hi1 Hd1 Hino1) as [Eq|Hlt]; [left|right; exact Hlt].
  eapply node_unique; eauto.
Qed.

(* ====================================================================================== *)
(* SubDirFS *)

Lemma mode_symlink_nosock x : mode_is_symlink (N.ldiff x ModeSocket) = mode_is_symlink x.
Proof.
  unfold mode_is_symlink, has_bits. f_equal. f_equal.
  apply N.bits_inj. intros n. rewrite !N.land_spec, N.ldiff_spec.
  change ModeSymlink with (2 ^ 27). rewrite N.pow2_bits_eqb.
  destruct (N.eqb_spec 27 n) as [<-|Hn].
  - change (N.testbit ModeSocket 27) with false. simpl. rewrite !andb_true_r. reflexivity.
  - rewrite !andb_false_r. reflexivity.
Qed.

Lemma seen_after_paths pre : forall i q, ilookup i (seen_after [] pre) = Some q -> In q (map fst pre).
Proof.
  induction pre as [|[p r] pre IH] using rev_ind; intros i q H; [discriminate|].
  rewrite seen_after_snoc, mkstat_seen in H. rewrite map_app, in_app_iff. simpl.
  destruct (is_dir r); [left; eauto|].
  destruct (N.ltb 1 (l_nlink r)); [destruct (ilookup (l_ino r) (seen_after [] pre)) eqn:E; [left; eauto|]|];
    unfold iinsert in H; simpl in H; (destruct (N.eqb i (l_ino r)); [inversion H; subst; auto|left; eauto]).
Qed.

Lemma wf_name_normal n : wf_name n -> normal n.
Proof. intros (H1 & _ & H3 & H4). repeat split; auto. Qed.

Lemma wf_names_okc cs : cs <> [] -> Forall wf_name cs -> okc cs.
Proof.
  intros Hne H. split; auto. split; eapply Forall_impl; try exact H.
  - apply wf_name_normal.
  - apply wf_name_nosep.
Qed.

Lemma join2_wf d cs : wf_name d -> cs <> [] -> Forall wf_name cs -> join2 d (joinc cs) = d ++ sep :: joinc cs.
Proof.
  intros Hd Hne Hcs.
  assert (Hok : okc (d :: cs)) by (apply wf_names_okc; [discriminate|constructor; auto]).
  destruct (okc_clean _ Hok) as [Hcl _]. rewrite joinc_cons in Hcl by auto.
  destruct (okc_first_byte cs (wf_names_okc cs Hne Hcs)) as (a & r & E & _).
  destruct d as [|x d]; [destruct Hd as (Hd & _); congruence|].
  rewrite E in *. exact Hcl.
Qed.

Lemma walk_path_shape t st : wf_tree t -> In st (walk t) ->
  exists cs, cs <> [] /\ Forall wf_name cs /\ st_path st = joinc cs.
Proof.
  intros Hwf Hin. destruct (walk_entry _ _ Hin) as (pre & p & r & post & cs & E & -> & Hne & -> & Hat).
  exists cs. rewrite mkstat_path. repeat split; auto. eapply tree_at_names; eauto.
Qed.

(* the Linkname of an entry that is not reported as a symlink is empty or the path of an earlier entry *)
Lemma walk_linkname_shape t st : wf_tree t -> In st (walk t) -> mode_is_symlink (st_mode st) = false ->
  st_linkname st = [] \/ exists cs0, cs0 <> [] /\ Forall wf_name cs0 /\ st_linkname st = joinc cs0.
Proof.
  intros Hwf Hin Hm. destruct (walk_entry _ _ Hin) as (pre & p & r & post & cs & E & -> & Hne & -> & Hat).
  pose proof (mkstat_fields (joinc cs) r (seen_after [] pre)) as F. cbv zeta in F.
  destruct F as (_ & F1 & _ & _ & _ & _ & _ & _ & _ & F9).
  rewrite F1, mode_symlink_nosock in Hm. fold (is_symlink r) in Hm. rewrite F9, Hm.
  destruct (is_dir r); auto. unfold hl_name.
  destruct (N.ltb 1 (l_nlink r)); auto.
  destruct (ilookup (l_ino r) (seen_after [] pre)) as [q|] eqn:El; auto.
  right. apply seen_after_paths in El. apply in_map_iff in El. destruct El as ([q' r1] & <- & Hi).
  assert (Hi' : In (q', r1) (entries_root (sort_tree t))) by (rewrite E; apply in_or_app; auto).
  apply entries_in in Hi'. destruct Hi' as (cs0 & Hne0 & -> & Hat0).
  exists cs0. repeat split; auto. eapply tree_at_names; eauto.
Qed.

Lemma sub_rewrite_prefix d t st : wf_name d -> wf_tree t -> In st (walk t) ->
  join2 d (st_path st) = d ++ sep :: st_path st /\ sub_rewrite d st = prefix_stat d st.
Proof.
  intros Hd Hwf Hin.
  destruct (walk_path_shape _ _ Hwf Hin) as (cs & Hne & Hcs & Hp).
  assert (Hj : join2 d (st_path st) = d ++ sep :: st_path st) by (rewrite Hp; apply join2_wf; auto).
  split; auto. unfold sub_rewrite, prefix_stat. rewrite Hj.
  destruct (st_linkname st) as [|a ln] eqn:El; auto.
  destruct (mode_is_symlink (st_mode st)) eqn:Em.
  - cbn [has_prefix is_abs]. rewrite andb_true_r, N.eqb_sym. destruct (N.eqb a sep); reflexivity.
  - destruct (walk_linkname_shape _ _ Hwf Hin Em) as [E0|(cs0 & Hne0 & Hcs0 & E0)]; [congruence|].
    rewrite El in E0. rewrite E0. rewrite join2_wf; auto.
Qed.

Definition sd_ok (d : subdir) : Prop :=
  wf_name (sd_name d) /\ st_is_dir (sd_stat d) = true /\ wf_tree (sd_tree d).

Lemma walk_sds_blocks l : Forall sd_ok l -> walk_sds l [] [] = (flat_map sd_block l, false).
Proof.
  induction l as [|d l IH]; intros H; [reflexivity|].
  inversion H as [|? ? (Hn & Hd & Hw) H']; subst. cbn [walk_sds flat_map].
  rewrite Hd. cbn [bytes_eqb negb andb]. rewrite (IH H'). f_equal. unfold sd_block. f_equal. f_equal.
  change (walk_at (sd_tree d) []) with (walk (sd_tree d)).
  apply map_ext_in. intros st Hin. destruct (sub_rewrite_prefix _ _ _ Hn Hw Hin) as [-> ->]. reflexivity.
Qed.

Lemma mem_bytes_in x l : mem_bytes x l = true <-> In x l.
Proof.
  induction l as [|y l IH]; simpl; [split; [discriminate|contradiction]|].
  rewrite orb_true_iff, IH, bytes_eqb_eq. split; intros [H|H]; auto.
Qed.

Lemma base_wf_name n : wf_name n -> base n = n.
Proof.
  intros H. apply (base_joinc [] n). apply wf_names_okc; [discriminate|constructor; auto].
Qed.

Lemma subdirs_ok_true l : forall seen,
  Forall (fun d => wf_name (sd_name d)) l -> NoDup (map sd_name l) ->
  (forall d, In d l -> ~ In (sd_name d) seen) -> subdirs_ok seen l = true.
Proof.
  induction l as [|d l IH]; intros seen Hw Hnd Hs; [reflexivity|].
  inversion Hw; subst. inversion Hnd; subst. cbn [subdirs_ok].
  rewrite base_wf_name, bytes_eqb_refl by auto.
  destruct (mem_bytes (sd_name d) seen) eqn:Em.
  - apply mem_bytes_in in Em. exfalso. eapply Hs; eauto. simpl; auto.
  - cbn [negb andb]. apply IH; auto. intros d' Hd' [Hin|Hin].
    + apply H3. rewrite Hin. apply in_map. auto.
    + eapply Hs; eauto. simpl; auto.
Qed.

Definition sd_key (d : subdir) : bytes * subdir := (sd_name d, d).
Definition sd_lt (a b : subdir) : Prop := cmp_bytes (sd_name a) (sd_name b) = Lt.

Lemma isort_sd_perm ds : Permutation (isort_sd ds) ds.
Proof.
  unfold isort_sd. eapply perm_trans; [apply Permutation_map, isort_kids_perm|].
  rewrite map_map. simpl. rewrite map_id. apply Permutation_refl.
Qed.

Lemma isort_sd_sorted ds : NoDup (map sd_name ds) -> StronglySorted sd_lt (isort_sd ds).
Proof.
  intros Hnd. unfold isort_sd.
  eapply SS_map; [|apply isort_kids_sorted; rewrite map_map; exact Hnd].
  intros [n1 d1] [n2 d2] H1 H2 Hlt. unfold name_lt in Hlt. simpl in *.
  apply (proj1 (isort_kids_in _ _)) in H1, H2. apply in_map_iff in H1, H2.
  destruct H1 as (? & E1 & _), H2 as (? & E2 & _). inversion E1; inversion E2; subst.
  unfold sd_lt. rewrite <- cmpb_is_cmp_bytes. exact Hlt.
Qed.

Lemma block_paths d : wf_name (sd_name d) ->
  map fst (sd_block d) = map (fun cr => joinc ([sd_name d] ++ fst cr)) (rpr (sort_tree (sd_tree d))).
Proof.
  intros Hn. unfold sd_block. cbn [map fst]. rewrite map_map. cbn [fst].
  rewrite <- (map_map st_path (fun p => sd_name d ++ sep :: p)).
  unfold walk. rewrite scan_paths, entries_root_rpr, map_map. cbn [fst].
  destruct (sort_tree (sd_tree d)) as [r kids]. rewrite rpr_unfold. cbn [map fst t_kids app joinc]. f_equal.
  rewrite map_map. apply map_ext_in. intros [c r'] Hi. cbn [fst].
  destruct c as [|c0 c]; [exfalso; eapply rpr_kids_nonnil; eauto|reflexivity].
Qed.

Lemma block_sorted d : sd_ok d -> StronglySorted path_lt (map fst (sd_block d)).
Proof.
  intros (Hn & _ & Hw). rewrite block_paths by auto.
  pose proof (sort_tree_sorted _ Hw) as HS.
  apply rpr_paths_sorted; [apply rpr_sorted; auto|].
  intros c r Hi. split; [discriminate|]. constructor; [apply wf_name_nosep; auto|]. eapply rpr_nosep; eauto.
Qed.

Lemma block_shape d a : sd_ok d -> In a (map fst (sd_block d)) ->
  exists c, a = joinc (sd_name d :: c) /\ Forall nosep (sd_name d :: c).
Proof.
  intros (Hn & _ & Hw) Hi. rewrite block_paths in Hi by auto. apply in_map_iff in Hi.
  destruct Hi as ([c r] & <- & Hi). exists c. split; [reflexivity|].
  constructor; [apply wf_name_nosep; auto|]. eapply rpr_nosep; eauto. apply sort_tree_sorted; auto.
Qed.

Lemma blocks_sorted l : StronglySorted sd_lt l -> Forall sd_ok l ->
  StronglySorted path_lt (map fst (flat_map sd_block l)).
Proof.
  induction l as [|d l IH]; intros HS Hok; [constructor|].
  inversion HS as [|? ? HS' Hlt]; subst. inversion Hok as [|? ? Hd Hok']; subst.
  cbn [flat_map]. rewrite map_app. apply SS_app; auto.
  - apply block_sorted; auto.
  - intros a b Ha Hb. destruct (block_shape _ _ Hd Ha) as (ca & -> & Hna).
    rewrite map_flat_map in Hb. apply in_flat_map in Hb. destruct Hb as (d2 & Hi2 & Hb).
    rewrite Forall_forall in Hok', Hlt.
    destruct (block_shape _ _ (Hok' _ Hi2) Hb) as (cb & -> & Hnb).
    unfold path_lt. rewrite compare_path_joinc by (auto; discriminate).
    rewrite lex_cons. specialize (Hlt _ Hi2). unfold sd_lt in Hlt.
    rewrite cmpb_is_cmp_bytes, Hlt. reflexivity.
Qed.

Theorem subdir_walk_prefixed_proof ds : sd_wf ds ->
  walk_subdirs ds [] = Some (flat_map sd_block (isort_sd ds), false)
  /\ Permutation (isort_sd ds) ds
  /\ StronglySorted (fun a b => cmp_bytes (sd_name a) (sd_name b) = Lt) (isort_sd ds)
  /\ StronglySorted path_lt (map fst (flat_map sd_block (isort_sd ds))).
Proof.
  intros [Hok Hnd].
  pose proof (isort_sd_perm ds) as Hp.
  assert (Hok' : Forall sd_ok (isort_sd ds)).
  { apply Forall_forall. intros d Hd. rewrite Forall_forall in Hok. apply Hok. eapply Permutation_in; eauto. }
  assert (Hnd' : NoDup (map sd_name (isort_sd ds))).
  { eapply Permutation_NoDup; [apply Permutation_sym, Permutation_map; exact Hp|exact Hnd]. }
  pose proof (isort_sd_sorted ds Hnd) as HS.
  repeat split; auto.
  - unfold walk_subdirs. rewrite subdirs_ok_true; auto.
    + cbn [cut_sep]. rewrite walk_sds_blocks; auto.
    + eapply Forall_impl; [|exact Hok']. intros d (H & _). exact H.
  - apply blocks_sorted; auto.
Qed.

(* ====================================================================================== *)
(* Walking a sub-target *)

Lemma sort_tree_wf t : wf_tree t -> wf_tree (sort_tree t).
Proof.
  induction t as [r kids IH] using tree_ind'. intros Hwf.
  inversion Hwf as [? ? Hd Hn Hnd Hk]; subst. rewrite sort_tree_unfold. constructor.
  - intros H. rewrite (Hd H). reflexivity.
  - apply Forall_forall. intros nk Hi. apply (proj1 (isort_kids_in _ _)) in Hi. apply in_map_iff in Hi.
    destruct Hi as ([n k] & <- & Hi). rewrite Forall_forall in Hn. apply (Hn (n, k)); auto.
  - eapply Permutation_NoDup; [apply Permutation_sym, Permutation_map, isort_kids_perm|].
    rewrite map_fst_sort_kid. exact Hnd.
  - apply Forall_forall. intros nk Hi. apply (proj1 (isort_kids_in _ _)) in Hi. apply in_map_iff in Hi.
    destruct Hi as ([n k] & <- & Hi). rewrite Forall_forall in IH, Hk. apply (IH (n, k)); auto;
    apply (Hk (n, k)); auto.
Qed.

Lemma find_kid_some n kids k : find_kid n kids = Some k -> In (n, k) kids.
Proof.
  induction kids as [|[m k'] kids IH]; simpl; intros H; [discriminate|].
  destruct (bytes_eqb n m) eqn:E; auto. apply bytes_eqb_eq in E. inversion H; subst. auto.
Qed.

Lemma find_kid_in n kids k : In (n, k) kids -> exists k', find_kid n kids = Some k'.
Proof.
  induction kids as [|[m k'] kids IH]; simpl; intros H; [contradiction|].
  destruct (bytes_eqb n m) eqn:E; eauto. destruct H as [H|H]; auto.
  inversion H; subst. rewrite bytes_eqb_refl in E. discriminate.
Qed.

Lemma lookup_at cs : forall t k, wf_tree t -> lookup t cs = Some k ->
  wf_tree k /\ forall c r, tree_at k c r <-> tree_at t (cs ++ c) r.
Proof.
  induction cs as [|n cs IH]; intros t k Hwf H; simpl in H.
  - inversion H; subst. split; auto. reflexivity.
  - destruct t as [r0 kids]. simpl in H. destruct (find_kid n kids) as [k1|] eqn:Ef; [|discriminate].
    apply find_kid_some in Ef. inversion Hwf as [? ? _ _ Hnd Hk]; subst.
    rewrite Forall_forall in Hk. destruct (IH k1 k (Hk _ Ef) H) as [Hwk Hiff]. split; auto.
    intros c r. rewrite Hiff. simpl. rewrite tree_at_cons_inv. split.
    + intros Hat. eauto.
    + intros (k' & Hi & Hat). assert (k' = k1) by (eapply NoDup_fst_fun; eauto). subst. exact Hat.
Qed.

Lemma lookup_some cs : forall t r, wf_tree t -> tree_at t cs r -> exists k, lookup t cs = Some k.
Proof.
  induction cs as [|n cs IH]; intros t r Hwf H; simpl; eauto.
  destruct t as [r0 kids]. apply tree_at_cons_inv in H. destruct H as (k & Hi & H). simpl.
  destruct (find_kid_in _ _ _ Hi) as [k' Ef]. rewrite Ef. apply find_kid_some in Ef.
  inversion Hwf as [? ? _ _ Hnd Hk]; subst. assert (k' = k) by (eapply NoDup_fst_fun; eauto). subst.
  rewrite Forall_forall in Hk. eapply IH; eauto. apply (Hk (n, k)); auto.
Qed.

Lemma lookup_sorted cs : forall t k, sorted_tree t -> lookup t cs = Some k -> sorted_tree k /\ Forall nosep cs.
Proof.
  induction cs as [|n cs IH]; intros t k HS H; simpl in H.
  - inversion H; subst. auto.
  - destruct t as [r0 kids]. simpl in H. destruct (find_kid n kids) as [k1|] eqn:Ef; [|discriminate].
    apply find_kid_some in Ef. inversion HS as [? ? _ Hn Hk]; subst. rewrite Forall_forall in Hn, Hk.
    destruct (IH k1 k (Hk _ Ef) H) as [H1 H2]. split; auto. constructor; auto. apply (Hn _ Ef).
Qed.

Theorem walk_at_sub_proof t target : wf_tree t ->
  target_comps target <> [] ->
  ((forall r, ~ tree_at t (target_comps target) r) -> walk_at t target = []) /\
  (forall r0, tree_at t (target_comps target) r0 ->
     StronglySorted path_lt (map st_path (walk_at t target)) /\
     (forall p, In p (map st_path (walk_at t target)) <->
                exists c r, p = joinc (target_comps target ++ c) /\ tree_at t (target_comps target ++ c) r) /\
     NoDup (map st_path (walk_at t target))).
Proof.
  intros Hwf Hne. unfold walk_at. remember (target_comps target) as cs eqn:Ecs. clear Ecs.
  destruct cs as [|c0 cs']; [congruence|]. remember (c0 :: cs') as cs.
  pose proof (sort_tree_wf t Hwf) as Hwfs. pose proof (sort_tree_sorted t Hwf) as Hss. split.
  - intros Hno. destruct (lookup (sort_tree t) cs) as [k|] eqn:El; auto.
    exfalso. destruct (lookup_at _ _ _ Hwfs El) as [_ Hiff].
    apply (Hno (t_rec k)). apply sort_tree_at. rewrite <- (app_nil_r cs). apply Hiff. apply tree_at_nil_inv. reflexivity.
  - intros r0 Hat. apply sort_tree_at in Hat. destruct (lookup_some _ _ _ Hwfs Hat) as [k El]. rewrite El.
    destruct (lookup_at _ _ _ Hwfs El) as [Hwk Hiff]. destruct (lookup_sorted _ _ _ Hss El) as [Hsk Hns].
    rewrite scan_paths, entries_node_joinc, map_map by auto. cbn [fst].
    assert (HS : StronglySorted path_lt (map (fun cr => joinc (cs ++ fst cr)) (rpr k))).
    { apply rpr_paths_sorted; [apply rpr_sorted; auto|]. intros c r Hi. split.
      - subst cs. discriminate.
      - apply Forall_app. split; auto. eapply rpr_nosep; eauto. }
    split; [exact HS|]. split; [|eapply SS_NoDup; [apply path_lt_irrefl|exact HS]].
    intros p. rewrite in_map_iff. split.
    + intros ([c r] & <- & Hi). exists c, r. split; auto. apply sort_tree_at, Hiff, rpr_tree_at. exact Hi.
    + intros (c & r & -> & Hat'). exists (c, r). split; auto. apply rpr_tree_at, Hiff, sort_tree_at. exact Hat'.
Qed.

(* ====================================================================================== *)
(* The shared view model (Model/Tree.v): walk_root of a view whose sibling lists are strictly
   sorted bytewise by name is strictly ascending in protocol path order. *)

Section NodeInd.
  Variable P : node -> Prop.
  Hypothesis HN : forall name st content kids, Forall P kids -> P (Node name st content kids).
  Fixpoint node_ind' (n : node) : P n :=
    match n with
    | Node a s c kids =>
      HN a s c kids
         ((fix go (l : list node) : Forall P l :=
             match l with
             | [] => Forall_nil _
             | k :: l' => Forall_cons k (node_ind' k) (go l')
             end) kids)
    end.
End NodeInd.

Definition vname_lt (a b : node) : Prop := cmp_bytes (node_name a) (node_name b) = Lt.

(* names non-empty and without separator, siblings strictly ascending bytewise (what MemFS /
   os.ReadDir order is) *)
Inductive wf_vnode : node -> Prop :=
| wf_vn name st c kids :
    name <> [] -> ~ In sep name -> StronglySorted vname_lt kids -> Forall wf_vnode kids ->
    wf_vnode (Node name st c kids).
Definition wf_view (roots : list node) : Prop := StronglySorted vname_lt roots /\ Forall wf_vnode roots.

Definition dummy_rec : lrec :=
  {| l_mode := 0; l_uid := 0; l_gid := 0; l_size := 0; l_mtime := 0; l_rdev := 0; l_ino := 0; l_nlink := 0;
     l_target := []; l_xattrs := []; l_dev := 0 |}.
Fixpoint tok (n : node) : bytes * tree :=
  match n with Node name _ _ kids => (name, T dummy_rec (map tok kids)) end.

Lemma tok_fst n : fst (tok n) = node_name n.
Proof. destruct n; reflexivity. Qed.

Lemma walk_node_unfold dir name st c kids :
  walk_node dir (Node name st c kids) =
  (set_path st (child_path dir name), c) :: walk_forest (child_path dir name) kids.
Proof.
  cbn [walk_node]. f_equal. induction kids as [|k kids IH]; [reflexivity|]. cbn [walk_forest]. rewrite <- IH. reflexivity.
Qed.

Definition vpath (e : entry) : bytes := st_path (fst e).

Lemma child_path_nonempty dir name : name <> [] -> child_path dir name <> [].
Proof. unfold child_path. destruct dir; auto. discriminate. Qed.

Lemma view_node_paths n : wf_vnode n -> forall dir,
  map vpath (walk_node dir n) = map fst (entries_node (child_path dir (node_name n)) (snd (tok n))).
Proof.
  induction n as [name st c kids IH] using node_ind'. intros Hwf dir.
  inversion Hwf as [? ? ? ? Hne _ _ Hk]; subst.
  rewrite walk_node_unfold. cbn [tok snd node_name entries_node map fst]. f_equal.
  pose proof (child_path_nonempty dir name Hne) as Hp. remember (child_path dir name) as p. clear Heqp Hwf.
  induction kids as [|k kids IHk]; [reflexivity|].
  inversion IH as [|? ? IH1 IH2]; subst. inversion Hk as [|? ? Hk1 Hk2]; subst.
  cbn [walk_forest map flat_map]. rewrite !map_app. rewrite (IHk IH2 Hk2). f_equal.
  rewrite (IH1 Hk1 p). destruct (tok k) as [m t] eqn:E.
  assert (m = node_name k) by (rewrite <- tok_fst, E; reflexivity). subst m. cbn [snd].
  unfold child_path. destruct p; [congruence|reflexivity].
Qed.

Lemma view_forest_paths roots : Forall wf_vnode roots ->
  map vpath (walk_root roots) = map fst (entries_root (T dummy_rec (map tok roots))).
Proof.
  unfold walk_root, entries_root. cbn [t_kids].
  induction roots as [|k roots IH]; intros H; [reflexivity|]. inversion H; subst.
  cbn [walk_forest map flat_map]. rewrite !map_app, IH by auto. f_equal.
  rewrite view_node_paths by auto. destruct (tok k) as [m t] eqn:E.
  assert (m = node_name k) by (rewrite <- tok_fst, E; reflexivity). subst m. reflexivity.
Qed.

Lemma tok_sorted_list l :
  StronglySorted vname_lt l -> Forall (fun k => ~ In sep (node_name k)) l ->
  Forall (fun k => sorted_tree (snd (tok k))) l ->
  sorted_tree (T dummy_rec (map tok l)).
Proof.
  intros HS Hn Hk. constructor.
  - eapply SS_map; [|exact HS]. intros a b _ _ Hab. unfold name_lt, vname_lt in *.
    rewrite !tok_fst, cmpb_is_cmp_bytes. exact Hab.
  - apply Forall_forall. intros nk Hi. apply in_map_iff in Hi. destruct Hi as (k & <- & Hi).
    rewrite tok_fst. rewrite Forall_forall in Hn. apply Hn; auto.
  - apply Forall_forall. intros nk Hi. apply in_map_iff in Hi. destruct Hi as (k & <- & Hi).
    rewrite Forall_forall in Hk. apply Hk; auto.
Qed.

Lemma wf_vnode_nosep k : wf_vnode k -> ~ In sep (node_name k).
Proof. intros H. inversion H; subst. assumption. Qed.

Lemma tok_sorted n : wf_vnode n -> sorted_tree (snd (tok n)).
Proof.
  induction n as [name st c kids IH] using node_ind'. intros Hwf.
  inversion Hwf as [? ? ? ? _ _ HS Hk]; subst. cbn [tok snd]. apply tok_sorted_list; auto.
  - eapply Forall_impl; [|exact Hk]. apply wf_vnode_nosep.
  - rewrite Forall_forall in *. intros k Hi. apply IH; auto.
Qed.

Theorem view_walk_sorted_proof roots : wf_view roots ->
  StronglySorted path_lt (map (fun e => st_path (fst e)) (walk_root roots))
  /\ NoDup (map (fun e => st_path (fst e)) (walk_root roots)).
Proof.
  intros [HS Hk].
  assert (H : StronglySorted path_lt (map vpath (walk_root roots))).
  { rewrite view_forest_paths by auto. apply entries_root_sorted. apply tok_sorted_list; auto.
    - eapply Forall_impl; [|exact Hk]. apply wf_vnode_nosep.
    - eapply Forall_impl; [|exact Hk]. apply tok_sorted. }
  split; [exact H|]. eapply SS_NoDup; [apply path_lt_irrefl|exact H].
Qed.

(* ---------- the executable sortedness check is the predicate of walk_sorted ---------- *)
Lemma all_lt_spec p l : all_lt p l = true <-> Forall (path_lt p) l.
Proof.
  induction l as [|q l IH]; simpl; [split; auto|].
  rewrite andb_true_iff, IH. unfold path_ltb, path_lt. split.
  - intros [H1 H2]. constructor; auto. destruct (compare_path p q); auto; discriminate.
  - intros H. inversion H; subst. split; auto. rewrite H2. reflexivity.
Qed.

Lemma sorted_b_spec l : sorted_b l = true <-> StronglySorted path_lt l.
Proof.
  induction l as [|p l IH]; simpl; [split; auto; constructor|].
  rewrite andb_true_iff, IH, all_lt_spec. split.
  - intros [H1 H2]. constructor; auto.
  - intros H. inversion H; subst. auto.
Qed.

(* ---------- the boolean well-formedness check implies wf_tree ---------- *)
Lemma mem_N_in x l : mem_N x l = true <-> In x l.
Proof.
  induction l as [|y l IH]; simpl; [split; [discriminate|contradiction]|].
  rewrite orb_true_iff, IH, N.eqb_eq. split; intros [H|H]; auto.
Qed.

Lemma wf_name_b_sound n : wf_name_b n = true -> wf_name n.
Proof.
  unfold wf_name_b. rewrite !andb_true_iff, !negb_true_iff. intros (((H1 & H2) & H3) & H4).
  apply bytes_eqb_neq in H1, H3, H4. repeat split; auto.
  intro Hin. apply mem_N_in in Hin. congruence.
Qed.

Lemma nodup_b_sound l : nodup_b l = true -> NoDup l.
Proof.
  induction l as [|x l IH]; simpl; intros H; constructor; apply andb_true_iff in H; destruct H as [H1 H2]; auto.
  intro Hin. apply mem_bytes_in in Hin. rewrite Hin in H1. discriminate.
Qed.

Lemma wf_tree_b_sound t : wf_tree_b t = true -> wf_tree t.
Proof.
  induction t as [r kids IH] using tree_ind'. cbn [wf_tree_b].
  rewrite !andb_true_iff. intros (((H1 & H2) & H3) & H4). constructor.
  - intros Hd. rewrite Hd in H1. destruct kids; [reflexivity|discriminate].
  - rewrite forallb_forall in H2. apply Forall_forall. intros nk Hi. apply wf_name_b_sound. auto.
  - apply nodup_b_sound. exact H3.
  - rewrite forallb_forall in H4. rewrite Forall_forall in *. intros [n k] Hi. apply (IH (n, k) Hi).
    apply (H4 (n, k) Hi).
Qed.

(* ---------- refutation of the hard-link rule across devices ---------- *)
(* Two devices below one root (e.g. two mounts), on each a regular file "f" with a second link "g":
   both inodes carry number 2, as two fresh file systems do.  seenFiles is keyed by st_ino alone. *)
Definition xrec (mode ino nlink dev : N) : lrec :=
  {| l_mode := mode; l_uid := 0; l_gid := 0; l_size := 8; l_mtime := 1; l_rdev := 0;
     l_ino := ino; l_nlink := nlink; l_target := []; l_xattrs := []; l_dev := dev |}.
Definition t_xdev : tree :=
  T (xrec 16877 1 4 38)
    [ ([109; 49], T (xrec 17407 1 2 39) [ ([102], T (xrec 33188 2 2 39) []); ([103], T (xrec 33188 2 2 39) []) ]);
      ([109; 50], T (xrec 17407 1 2 40) [ ([102], T (xrec 33188 2 2 40) []); ([103], T (xrec 33188 2 2 40) []) ]) ].

Theorem walk_hardlinks_cross_device_refuted_proof :
  exists t, wf_tree t /\ ino_consistent t /\
    exists st cs r cs0 r0,
      In st (walk t) /\ cs <> [] /\ tree_at t cs r /\ st_path st = joinc cs /\
      is_dir r = false /\ is_symlink r = false /\
      cs0 <> [] /\ tree_at t cs0 r0 /\ st_linkname st = joinc cs0 /\ l_dev r0 <> l_dev r.
Proof.
  exists t_xdev. split; [apply wf_tree_b_sound; vm_compute; reflexivity|]. split.
  - intros cs1 r1 cs2 r2 H1 _ _ Hd1 _ _. apply rpr_tree_at in H1. vm_compute in H1.
    repeat (destruct H1 as [H1|H1]; [inversion H1; subst; try reflexivity; vm_compute in Hd1; discriminate|]).
    contradiction.
  - exists (nth 4 (walk t_xdev) (fst (mkstat [] (xrec 0 0 0 0) []))).
    exists [[109; 50]; [102]], (xrec 33188 2 2 40), [[109; 49]; [102]], (xrec 33188 2 2 39).
    split; [vm_compute; auto 10|].
    split; [discriminate|].
    split; [apply rpr_tree_at; vm_compute; auto 10|].
    split; [vm_compute; reflexivity|].
    split; [vm_compute; reflexivity|].
    split; [vm_compute; reflexivity|].
    split; [discriminate|].
    split; [apply rpr_tree_at; vm_compute; auto 10|].
    split; [vm_compute; reflexivity|].
    vm_compute. discriminate.
Qed.

(* ---------- reported paths are clean relative paths, never the root ---------- *)
Theorem walk_paths_clean_proof t : wf_tree t ->
  forall p, In p (map st_path (walk t)) ->
    p <> [] /\ p <> s_dot /\ p <> s_dotdot /\ has_prefix s_dotdotsep p = false /\
    clean p = p /\ is_abs p = false.
Proof.
  intros Hwf p Hin. apply (proj1 (walk_complete_once_proof t Hwf)) in Hin.
  destruct Hin as (cs & r & Hne & -> & Hat).
  assert (Hok : okc cs) by (apply wf_names_okc; auto; eapply tree_at_names; eauto).
  destruct (okc_not_special _ Hok) as (H1 & H2 & H3 & H4). destruct (okc_clean _ Hok) as [H5 H6].
  repeat split; auto.
Qed.
