(* C01 — the executable convergence oracle of Model/Converge.v ([converged_o], what the harness
   evaluates on the snapshot of the real destination through [obs_of_raw]) is EQUIVALENT to the
   declarative relation of the property statement ([approx], [approx_merge]). *)
From Coq Require Import List NArith Bool.
From FS Require Import Sx Model.Path Model.Stat Model.Tree Model.Converge Proofs.Lex Proofs.DiffSpecP.
Import ListNotations.
Open Scope N_scope.
Open Scope bool_scope.

Lemma find_obs_some p l d : find_obs p l = Some d -> In d l /\ o_path d = p.
Proof.
  induction l as [|x l IH]; simpl; [discriminate|].
  destruct (bytes_eqb p (o_path x)) eqn:E.
  - intros H. inversion H; subst. apply bytes_eqb_eq in E. split; [left; reflexivity|congruence].
  - intros H. destruct (IH H). split; [right|]; assumption.
Qed.

Lemma find_obs_in l d : In d l -> exists d', find_obs (o_path d) l = Some d'.
Proof.
  induction l as [|x l IH]; simpl; [intros []|].
  intros [->|Hd].
  - rewrite bytes_eqb_refl. eauto.
  - destruct (bytes_eqb (o_path d) (o_path x)); eauto.
Qed.

Lemma find_entry_some p l e : find_entry p l = Some e -> In e l /\ st_path (fst e) = p.
Proof.
  induction l as [|x l IH]; simpl; [discriminate|].
  destruct (bytes_eqb p (st_path (fst x))) eqn:E.
  - intros H. inversion H; subst. apply bytes_eqb_eq in E. split; [left; reflexivity|congruence].
  - intros H. destruct (IH H). split; [right|]; assumption.
Qed.

Lemma find_entry_none p l : find_entry p l = None -> forall e, In e l -> st_path (fst e) <> p.
Proof.
  induction l as [|x l IH]; simpl; [intros _ e []|].
  destruct (bytes_eqb p (st_path (fst x))) eqn:E; [discriminate|].
  intros H e [<-|He].
  - apply bytes_eqb_neq in E. congruence.
  - apply IH; auto.
Qed.

Lemma find_entry_in l e : In e l -> exists e', find_entry (st_path (fst e)) l = Some e'.
Proof.
  intros He. destruct (find_entry (st_path (fst e)) l) eqn:E; eauto.
  exfalso. eapply find_entry_none; eauto.
Qed.

Lemma if_eqb_true_iff (a b : N) (X Y : bool) :
  (if N.eqb a b then X else Y) = true <-> (a = b -> X = true) /\ (a <> b -> Y = true).
Proof.
  destruct (N.eqb_spec a b); split; intuition.
Qed.

Lemma entry_matches_o_iff created s c d :
  entry_matches_o created s c d = true <-> entry_ok created s c d.
Proof.
  unfold entry_matches_o, entry_ok. cbv zeta.
  set (ty := unix_type_of_gomode (st_mode s)).
  split.
  - intros H.
    apply andb_true_iff in H; destruct H as [H H10]. apply andb_true_iff in H; destruct H as [H H9].
    apply andb_true_iff in H; destruct H as [H H8]. apply andb_true_iff in H; destruct H as [H H7].
    apply andb_true_iff in H; destruct H as [H H6]. apply andb_true_iff in H; destruct H as [H H5].
    apply andb_true_iff in H; destruct H as [H H4]. apply andb_true_iff in H; destruct H as [H H3].
    apply andb_true_iff in H; destruct H as [H1 H2].
    apply bytes_eqb_eq in H1. apply N.eqb_eq in H2, H4, H5.
    split; [auto|]. split; [auto|].
    split. { intros Hn. apply orb_true_iff in H3. rewrite !N.eqb_eq in H3. destruct H3; [contradiction|auto]. }
    split; [auto|]. split; [auto|].
    split. { intros Hn. apply N.eqb_neq in Hn. rewrite Hn in H6. apply N.eqb_eq in H6. auto. }
    split. { intros Hd Hc. apply N.eqb_eq in Hd. rewrite Hd, Hc in H6. simpl in H6. apply N.eqb_eq in H6. auto. }
    split. { intros Hr. apply N.eqb_eq in Hr. rewrite Hr in H7. apply bytes_eqb_eq in H7. auto. }
    split. { intros Hl. apply N.eqb_eq in Hl. rewrite Hl in H8. apply bytes_eqb_eq in H8. auto. }
    split.
    + intros Hcb.
      assert (Ht : N.eqb ty S_IFCHR || N.eqb ty S_IFBLK = true)
        by (apply orb_true_iff; rewrite !N.eqb_eq; exact Hcb).
      rewrite Ht in H9. apply andb_true_iff in H9. rewrite !N.eqb_eq in H9. destruct H9; auto.
    + intros Hc Hrd.
      assert (Ht : N.eqb ty S_IFREG || N.eqb ty S_IFDIR = true)
        by (apply orb_true_iff; rewrite !N.eqb_eq; exact Hrd).
      rewrite Hc, Ht in H10. simpl in H10. symmetry. apply xattrs_eqb_eq; auto.
  - intros (H1 & H2 & H3 & H4 & H5 & H6 & H7 & H8 & H9 & H10 & H11).
    rewrite (proj2 (bytes_eqb_eq (st_path s) (o_path d)) (eq_sym H1)).
    rewrite (proj2 (N.eqb_eq ty (o_type d)) (eq_sym H2)).
    rewrite (proj2 (N.eqb_eq (st_uid s) (o_uid d)) (eq_sym H4)).
    rewrite (proj2 (N.eqb_eq (st_gid s) (o_gid d)) (eq_sym H5)). simpl andb.
    assert (E3 : N.eqb ty S_IFLNK || N.eqb (unix_perm_of_gomode (st_mode s)) (o_perm d) = true).
    { destruct (N.eqb_spec ty S_IFLNK); [reflexivity|]. simpl. apply N.eqb_eq. symmetry; auto. }
    rewrite E3. simpl andb.
    assert (E6 : (if N.eqb ty S_IFDIR then negb created || N.eqb (st_mtime s) (o_mtime d)
                  else N.eqb (st_mtime s) (o_mtime d)) = true).
    { destruct (N.eqb_spec ty S_IFDIR).
      - destruct created; simpl; auto. apply N.eqb_eq. symmetry; auto.
      - apply N.eqb_eq. symmetry; auto. }
    rewrite E6. simpl andb.
    assert (E7 : (if N.eqb ty S_IFREG then bytes_eqb c (o_content d) else true) = true).
    { destruct (N.eqb_spec ty S_IFREG); auto. apply bytes_eqb_eq. symmetry; auto. }
    rewrite E7. simpl andb.
    assert (E8 : (if N.eqb ty S_IFLNK then bytes_eqb (st_linkname s) (o_target d) else true) = true).
    { destruct (N.eqb_spec ty S_IFLNK); auto. apply bytes_eqb_eq. symmetry; auto. }
    rewrite E8. simpl andb.
    assert (E9 : (if N.eqb ty S_IFCHR || N.eqb ty S_IFBLK
                  then N.eqb (st_devmajor s) (o_major d) && N.eqb (st_devminor s) (o_minor d) else true) = true).
    { destruct (N.eqb ty S_IFCHR || N.eqb ty S_IFBLK) eqn:Ht; auto.
      apply orb_true_iff in Ht. rewrite !N.eqb_eq in Ht. destruct (H10 Ht) as [-> ->].
      rewrite !N.eqb_refl. reflexivity. }
    rewrite E9. simpl andb.
    destruct created; simpl; auto.
    destruct (N.eqb ty S_IFREG || N.eqb ty S_IFDIR) eqn:Ht; auto.
    apply orb_true_iff in Ht. rewrite !N.eqb_eq in Ht. apply xattrs_eqb_eq. symmetry. auto.
Qed.

Lemma prior_unchanged_o_iff ps c d : prior_unchanged_o ps c d = true <-> prior_ok ps c d.
Proof.
  unfold prior_unchanged_o, prior_ok. cbv zeta.
  set (ty := unix_type_of_gomode (st_mode ps)).
  rewrite !andb_true_iff, !if_eqb_true_iff, !N.eqb_eq, orb_true_iff, !N.eqb_eq.
  split.
  - intros [[[[[H1 H2] H3] H4] [H5 _]] [H6 _]].
    split; [auto|]. split; [intros Hn; destruct H2; [contradiction|auto]|].
    split; [auto|]. split; [auto|]. split.
    + intros Hr. specialize (H5 Hr). apply andb_true_iff in H5. rewrite bytes_eqb_eq, N.eqb_eq in H5.
      destruct H5; auto.
    + intros Hl. symmetry. apply bytes_eqb_eq; auto.
  - intros (H1 & H2 & H3 & H4 & H5 & H6). repeat split; auto.
    + destruct (N.eq_dec ty S_IFLNK); [left; auto|right; symmetry; auto].
    + intros Hr. destruct (H5 Hr) as [-> ->]. rewrite bytes_eqb_refl, N.eqb_refl. reflexivity.
    + intros Hl. apply bytes_eqb_eq. symmetry; auto.
Qed.

Lemma links_ok_o_iff src dest :
  (forall e, In e src -> exists d, find_obs (st_path (fst e)) dest = Some d) ->
  (links_ok_o src dest = true <-> link_partition src dest).
Proof.
  intros Hall. unfold links_ok_o, link_partition. rewrite forallb_forall. split.
  - intros H e1 e2 d1 d2 H1 H2 R1 R2 F1 F2.
    assert (I1 : In e1 (filter (fun e => is_linkable (fst e)) src)) by (apply filter_In; auto).
    assert (I2 : In e2 (filter (fun e => is_linkable (fst e)) src)) by (apply filter_In; auto).
    specialize (H _ I1). rewrite forallb_forall in H. specialize (H _ I2). rewrite F1, F2 in H.
    apply eqb_prop in H. split; intros E.
    + apply bytes_eqb_eq. rewrite H. apply N.eqb_eq; auto.
    + apply N.eqb_eq. rewrite <- H. apply bytes_eqb_eq; auto.
  - intros H e1 I1. rewrite forallb_forall. intros e2 I2.
    apply filter_In in I1, I2. destruct I1 as [H1 R1], I2 as [H2 R2].
    destruct (Hall _ H1) as [d1 F1], (Hall _ H2) as [d2 F2]. rewrite F1, F2.
    specialize (H e1 e2 d1 d2 H1 H2 R1 R2 F1 F2).
    destruct (bytes_eqb (group_rep (fst e1)) (group_rep (fst e2))) eqn:Eg.
    + apply bytes_eqb_eq in Eg. apply H in Eg. rewrite Eg, N.eqb_refl. reflexivity.
    + destruct (N.eqb_spec (o_ino d1) (o_ino d2)) as [Ei|Ei]; [|reflexivity].
      apply H in Ei. apply bytes_eqb_eq in Ei. congruence.
Qed.

(* fresh / dirty mode: oracle = specification *)
Theorem oracle_iff_proof prior src dest :
  converged_o false prior src dest = true <-> approx prior src dest.
Proof.
  unfold converged_o, approx. simpl negb. simpl andb. rewrite !andb_true_iff, !forallb_forall. split.
  - intros [[[H1 H2] _] H3].
    assert (Hent : forall s c, In (s, c) src -> exists d, find_obs (st_path s) dest = Some d /\
                     entry_ok (inode_created prior src s) s c d).
    { intros s c Hin. specialize (H1 _ Hin). simpl in H1.
      destruct (find_obs (st_path s) dest) as [d|]; [|discriminate]. exists d. split; auto.
      apply entry_matches_o_iff; auto. }
    assert (Hall : forall e, In e src -> exists d, find_obs (st_path (fst e)) dest = Some d).
    { intros [s c] Hin. destruct (Hent s c Hin) as (d & Hd & _). eauto. }
    split; [|split; auto].
    + intros p. split.
      * intros [d Hd]. apply find_obs_some in Hd. destruct Hd as [Hd Ep]. specialize (H2 _ Hd).
        rewrite Ep in H2. destruct (find_entry p src) as [e|] eqn:Ee; [|discriminate].
        apply find_entry_some in Ee. exists e. auto.
      * intros (e & He & Ep). subst p. apply Hall; auto.
    + apply links_ok_o_iff; auto.
  - intros (Hp & Hent & Hl).
    assert (Hall : forall e, In e src -> exists d, find_obs (st_path (fst e)) dest = Some d).
    { intros [s c] Hin. destruct (Hent s c Hin) as (d & Hd & _). eauto. }
    split; [split; [split|reflexivity]|].
    + intros [s c] Hin. destruct (Hent s c Hin) as (d & Hd & Hok). simpl. rewrite Hd.
      apply entry_matches_o_iff; auto.
    + intros d Hd. destruct (find_obs_in _ _ Hd) as [d' Hd'].
      destruct (proj1 (Hp (o_path d)) (ex_intro _ d' Hd')) as (e & He & Ep).
      destruct (find_entry_in _ _ He) as [e' He']. rewrite Ep in He'. rewrite He'. reflexivity.
    + apply links_ok_o_iff; auto.
Qed.

(* merge mode: oracle = specification *)
Theorem oracle_merge_iff_proof prior src dest :
  converged_o true prior src dest = true <-> approx_merge prior src dest.
Proof.
  unfold converged_o, approx_merge. simpl negb. simpl orb. rewrite !andb_true_iff, !forallb_forall. split.
  - intros [[[H1 H2] H3] H4].
    assert (Hent : forall s c, In (s, c) src -> exists d, find_obs (st_path s) dest = Some d /\
                     entry_ok (inode_created prior src s) s c d).
    { intros s c Hin. specialize (H1 _ Hin). simpl in H1.
      destruct (find_obs (st_path s) dest) as [d|]; [|discriminate]. exists d. split; auto.
      apply entry_matches_o_iff; auto. }
    assert (Hall : forall e, In e src -> exists d, find_obs (st_path (fst e)) dest = Some d).
    { intros [s c] Hin. destruct (Hent s c Hin) as (d & Hd & _). eauto. }
    split; [auto|]. split; [|split].
    + intros d Hd. specialize (H2 _ Hd). destruct (find_entry (o_path d) src) as [e|] eqn:Ee.
      * left. apply find_entry_some in Ee. exists e. auto.
      * right. simpl in H2. apply andb_true_iff in H2. destruct H2 as [Hk Hpr]. split; auto.
        destruct (find_entry (o_path d) prior) as [[ps c]|]; [|discriminate].
        exists ps, c. split; auto. apply prior_unchanged_o_iff; auto.
    + intros e He Hk. specialize (H3 _ He). rewrite Hk in H3. simpl in H3.
      destruct (find_obs (st_path (fst e)) dest) as [d|]; [eauto|discriminate].
    + apply links_ok_o_iff; auto.
  - intros (Hent & H2 & H3 & Hl).
    assert (Hall : forall e, In e src -> exists d, find_obs (st_path (fst e)) dest = Some d).
    { intros [s c] Hin. destruct (Hent s c Hin) as (d & Hd & _). eauto. }
    split; [split; [split|]|].
    + intros [s c] Hin. destruct (Hent s c Hin) as (d & Hd & Hok). simpl. rewrite Hd.
      apply entry_matches_o_iff; auto.
    + intros d Hd. destruct (find_entry (o_path d) src) as [e|] eqn:Ee; auto.
      destruct (H2 _ Hd) as [(e & He & Ep)|(Hk & ps & c & Hf & Hok)].
      * exfalso. eapply find_entry_none; eauto.
      * simpl. rewrite Hk, Hf. simpl. apply prior_unchanged_o_iff; auto.
    + intros e He. destruct (kept_in_merge src (st_path (fst e))) eqn:Hk; auto. simpl.
      destruct (H3 _ He Hk) as [d Hd]. rewrite Hd. reflexivity.
    + apply links_ok_o_iff; auto.
Qed.

(* the raw snapshot is judged through the projection, by definition *)
Lemma converged_is_converged_o merge prior src dest :
  converged merge prior src dest = converged_o merge prior src (map obs_of_raw dest).
Proof. reflexivity. Qed.

(* ---- st_mode type of a Go mode ---- *)
Lemma unix_type_dir m : unix_type_of_gomode m = S_IFDIR <-> mode_is_dir m = true.
Proof.
  unfold unix_type_of_gomode, mode_is_dir.
  destruct (has_bits m ModeDir); [tauto|].
  destruct (has_bits m ModeSymlink); [split; discriminate|].
  destruct (has_bits m ModeNamedPipe); [split; discriminate|].
  destruct (has_bits m ModeSocket); [split; discriminate|].
  destruct (has_bits m ModeDevice); [destruct (has_bits m ModeCharDevice); split; discriminate|].
  split; discriminate.
Qed.

Lemma unix_type_reg m : unix_type_of_gomode m = S_IFREG ->
  has_bits m ModeDir = false /\ has_bits m ModeSymlink = false /\ has_bits m ModeNamedPipe = false
  /\ has_bits m ModeDevice = false.
Proof.
  unfold unix_type_of_gomode.
  destruct (has_bits m ModeDir); [discriminate|].
  destruct (has_bits m ModeSymlink); [discriminate|].
  destruct (has_bits m ModeNamedPipe); [discriminate|].
  destruct (has_bits m ModeSocket); [discriminate|].
  destruct (has_bits m ModeDevice); [destruct (has_bits m ModeCharDevice); discriminate|].
  auto.
Qed.
