(* C05 — the receiver's Filter (ReceiveOpt.Filter = DiskWriterOpt.Filter; Model/AbsDest.v,
   receive_abs_f).  A transfer through a filter that never skips and keeps path, type bits and
   link name ([filter_ok]) is, as far as the DESTINATION, the requests and the failure flag are
   concerned, the unfiltered transfer of the source with every stat rewritten by the filter
   ([filter_entries]); the notifications are the images of the changes AS RECEIVED (stat as
   sent, header of the stat as sent).  Hence notify_exact / notify_digest with a filter. *)
From Coq Require Import List NArith Lia Bool Sorting.Sorted.
From FS Require Import Sx Model.Path Model.Stat Model.Diff Model.AbsDest
  Proofs.Lex Proofs.PathP Proofs.DiffP Proofs.DiffSpecP Proofs.AbsDestP Proofs.ReceiveP.
Import ListNotations.
Open Scope N_scope.
Open Scope bool_scope.

Notation idf := (fun s : stat => s).

(* ---------------------------------------------------------------- small facts *)
Lemma filter_map_filter_map {X Y Z} (f : X -> option Y) (g : Y -> option Z) l :
  filter_map g (filter_map f l) = filter_map (fun x => match f x with Some y => g y | None => None end) l.
Proof.
  induction l as [|x l IH]; [reflexivity|]. simpl. destruct (f x) as [y|]; simpl; [|exact IH].
  destruct (g y); rewrite IH; reflexivity.
Qed.

Lemma emit_map (f : change -> change) o r :
  match emit o r with Some l => Some (map f l) | None => None end
  = emit (option_map f o) (match r with Some l => Some (map f l) | None => None end).
Proof. destruct r as [l|]; [|reflexivity]. destruct o; reflexivity. Qed.

Section Filt.
Variable wf : bytes -> stat -> bool * stat.
Hypothesis Hok : filter_ok wf.
Notation F := (filter_stat wf).

Lemma F_path s : st_path (F s) = st_path s.
Proof. unfold filter_stat. apply (proj2 (Hok (st_path s) s)). reflexivity. Qed.
Lemma F_is_dir s : st_is_dir (F s) = st_is_dir s.
Proof. unfold filter_stat. apply (proj2 (Hok (st_path s) s)). reflexivity. Qed.
Lemma F_special s : is_special (F s) = is_special s.
Proof. unfold filter_stat. apply (proj2 (Hok (st_path s) s)). reflexivity. Qed.
Lemma F_symlink s : mode_is_symlink (st_mode (F s)) = mode_is_symlink (st_mode s).
Proof. unfold filter_stat. apply (proj2 (Hok (st_path s) s)). reflexivity. Qed.
Lemma F_linkname s : st_linkname (F s) = st_linkname s.
Proof. unfold filter_stat. apply (proj2 (Hok (st_path s) s)). reflexivity. Qed.
Lemma wf_total p s : fst (wf p s) = true.
Proof. apply (proj1 (Hok p s)). Qed.

Lemma F_is_reg s : is_reg (F s) = is_reg s.
Proof. unfold is_reg. rewrite F_is_dir, F_special, F_symlink. reflexivity. Qed.
Lemma F_is_node s : is_node (F s) = is_node s.
Proof. unfold is_node. rewrite F_is_dir, F_symlink. reflexivity. Qed.
Lemma F_is_hardlink s : is_hardlink (F s) = is_hardlink s.
Proof. unfold is_hardlink. rewrite F_is_node, F_linkname. reflexivity. Qed.
Lemma F_wants_content s : wants_content (F s) = wants_content s.
Proof. unfold wants_content. rewrite F_is_reg, F_linkname. reflexivity. Qed.

(* the change as the writer executes it *)
Definition restat (c : change) : change :=
  match c with
  | (KDelete, _, _) => c
  | (k, p, Some st) => (k, p, Some (F st))
  | (_, _, None) => c
  end.

(* ---------------------------------------------------------------- the differ *)
(* the differ with the filter, seen by the writer, is the plain differ on the filtered source *)
Lemma diff_loop_filter d : forall fuel rm A B,
  match diff_loop F d fuel rm A B with Some l => Some (map restat l) | None => None end
  = diff_loop idf d fuel rm A (map F B).
Proof.
  induction fuel as [|f IH]; intros rm A B; [reflexivity|].
  destruct A as [|a A'], B as [|b B']; cbn [diff_loop map].
  - reflexivity.
  - unfold step_add. rewrite emit_map, IH. cbn [option_map restat map]. rewrite F_path. reflexivity.
  - unfold step_del. destruct (under_rm rm (st_path a)); rewrite emit_map, IH; reflexivity.
  - rewrite F_path. destruct (compare_path (st_path a) (st_path b)).
    + unfold step_mod. cbv zeta. rewrite emit_map, IH. cbn [map]. f_equal.
      destruct (same_file d a (F b)); cbn [option_map restat]; [reflexivity|]. rewrite F_path. reflexivity.
    + unfold step_del. destruct (under_rm rm (st_path a)); rewrite emit_map, IH; reflexivity.
    + unfold step_add. rewrite emit_map, IH. cbn [option_map restat map]. rewrite F_path. reflexivity.
Qed.

Lemma diff_filter d A B : map restat (diff F d A B) = diff idf d A (map F B).
Proof.
  unfold diff, diff_opt. pose proof (diff_loop_filter d (diff_fuel A B) [] A B) as E.
  assert (Ef : diff_fuel A (map F B) = diff_fuel A B) by (unfold diff_fuel; rewrite map_length; reflexivity).
  rewrite Ef, <- E. destruct (diff_loop F d (diff_fuel A B) [] A B); reflexivity.
Qed.

(* every change of the differ names the path of its stat *)
Lemma diff_change_path d A B k p st : sorted A -> sorted B -> closed B ->
  In (k, p, Some st) (diff F d A B) -> p = st_path st.
Proof.
  intros HsA HsB HcB Hin. apply (diff_changes_exact_proof F d A B HsA HsB HcB F_is_dir) in Hin.
  destruct k; simpl in Hin.
  - destruct Hin as (_ & E & _). symmetry. exact E.
  - destruct Hin as (_ & E & _). symmetry. exact E.
  - destruct Hin.
Qed.

Lemma filter_change_restat c :
  (forall k p st, c = (k, p, Some st) -> p = st_path st) -> filter_change wf c = Some (restat c).
Proof.
  destruct c as [[k p] [st|]]; intros Hp.
  - destruct k; cbn [filter_change restat]; rewrite wf_total; try reflexivity;
      rewrite (Hp _ _ _ eq_refl); reflexivity.
  - destruct k; cbn [filter_change restat]; rewrite ?wf_total; reflexivity.
Qed.

(* ---------------------------------------------------------------- the writer *)
Section Writer.
Variable src : bytes -> bytes.

Lemma apply_all_f_spec : forall cs D n,
  apply_all src (filter_map (filter_change wf) cs) D n
  = let '(D', n', done, e) := apply_all_f wf src cs D n in (D', n', filter_map (filter_change wf) done, e).
Proof.
  induction cs as [|c cs IH]; intros D n; [reflexivity|].
  cbn [filter_map apply_all_f]. destruct (filter_change wf c) as [c'|] eqn:Ec; [|apply IH].
  cbn [apply_all]. destruct (apply_map src D n c') as [[D1 n1]|]; [|reflexivity].
  rewrite IH. destruct (apply_all_f wf src cs D1 n1) as [[[D2 n2] dn] e].
  cbn [filter_map]. rewrite Ec. reflexivity.
Qed.

(* a filter that never skips: without an error every change was executed *)
Lemma apply_all_f_noerr : forall cs D n D' n' done,
  (forall c, In c cs -> filter_change wf c <> None) ->
  apply_all_f wf src cs D n = (D', n', done, false) -> done = cs.
Proof.
  induction cs as [|c cs IH]; intros D n D' n' done Hall E; cbn [apply_all_f] in E.
  - inversion E; reflexivity.
  - destruct (filter_change wf c) as [c'|] eqn:Ec; [|exfalso; apply (Hall c); [left; auto|exact Ec]].
    destruct (apply_map src D n c') as [[D1 n1]|]; [|inversion E].
    destruct (apply_all_f wf src cs D1 n1) as [[[D2 n2] dn] e] eqn:Er. inversion E; subst.
    f_equal. eapply IH; eauto. intros x Hx. apply Hall. right; auto.
Qed.
End Writer.

Lemma apply_map_ext src1 src2 D n c : (forall p, src1 p = src2 p) -> apply_map src1 D n c = apply_map src2 D n c.
Proof.
  intros E. destruct c as [[k p] [st|]]; [|reflexivity]. destruct k; cbn [apply_map]; rewrite ?(E p); reflexivity.
Qed.

Lemma apply_all_ext src1 src2 : (forall p, src1 p = src2 p) ->
  forall cs D n, apply_all src1 cs D n = apply_all src2 cs D n.
Proof.
  intros E. induction cs as [|c cs IH]; intros D n; [reflexivity|].
  cbn [apply_all]. rewrite (apply_map_ext src1 src2 D n c E).
  destruct (apply_map src2 D n c) as [[D1 n1]|]; [|reflexivity]. rewrite IH. reflexivity.
Qed.

(* ---------------------------------------------------------------- the filtered source *)
Lemma efind_filter_entries p B :
  efind p (filter_entries wf B) = option_map (fun e => (F (fst e), snd e)) (efind p B).
Proof.
  unfold efind, filter_entries. induction B as [|e B IH]; [reflexivity|].
  cbn [map find fst]. rewrite F_path. destruct (bytes_eqb (st_path (fst e)) p); [reflexivity|exact IH].
Qed.

Lemma src_of_filter_entries B p : src_of (filter_entries wf B) p = src_of B p.
Proof. unfold src_of. rewrite efind_filter_entries. destruct (efind p B); reflexivity. Qed.

Lemma fst_filter_entries B : map fst (filter_entries wf B) = map F (map fst B).
Proof. unfold filter_entries. rewrite !map_map. reflexivity. Qed.

Lemma sorted_filter L : sorted L -> sorted (map F L).
Proof.
  induction 1 as [|a L HS IH HF]; simpl; constructor; auto.
  rewrite Forall_forall in *. intros y Hy. apply in_map_iff in Hy. destruct Hy as (x & <- & Hx).
  unfold plt. rewrite !F_path. apply (HF x Hx).
Qed.

Lemma closed_filter L : closed L -> closed (map F L).
Proof.
  intros HC s Hs q r Ep. apply in_map_iff in Hs. destruct Hs as (s0 & <- & Hs0). rewrite F_path in Ep.
  destruct (HC s0 Hs0 q r Ep) as (t & Ht & Et & Hd). exists (F t).
  split; [apply in_map; auto|]. rewrite F_path, F_is_dir. auto.
Qed.

Lemma wf_listing_filter L : wf_listing L -> wf_listing (map F L).
Proof. intros [H1 H2]. split; [apply sorted_filter|apply closed_filter]; auto. Qed.

Lemma links_ok_filter B : links_ok B -> links_ok (filter_entries wf B).
Proof.
  intros HL sb bb Hin Hl. unfold filter_entries in Hin. apply in_map_iff in Hin.
  destruct Hin as ([sb0 bb0] & E & Hin0). cbn [fst snd] in E. inversion E; subst sb bb. clear E.
  rewrite F_is_hardlink in Hl. destruct (HL sb0 bb0 Hin0 Hl) as (st & bt & Ht & Ep & Hlt & Hr & Hrr & Eb).
  exists (F st), bt. split; [unfold filter_entries; apply in_map_iff; exists (st, bt); auto|].
  rewrite !F_path, F_linkname, F_is_node, !F_is_reg. auto.
Qed.

(* ---------------------------------------------------------------- the reduction *)
Section Red.
Variable H : bytes -> bytes.
Variable hdr : stat -> bytes.
Variable d : differ.
Variables A B : list entry.
Notation LA := (map fst A).
Notation LB := (map fst B).
Notation B' := (filter_entries wf B).

(* destination, requests and failure flag of the filtered transfer are those of the plain
   transfer of the filtered source; the writer executed the changes of that transfer; the
   notifications are the images of the changes as received *)
Theorem receive_abs_f_reduce m :
  wf_listing LA -> wf_listing LB ->
  let r := receive_abs_f wf H hdr m d A B in
  let r' := receive_abs H hdr m d A B' in
  ds_map r = ds_map r' /\ ds_err r = ds_err r' /\ ds_reqs r = ds_reqs r' /\
  map restat (ds_changes r) = ds_changes r' /\
  ds_notifs r = map (notif_of (src_of B) H hdr) (ds_changes r) /\
  (ds_err r = false -> ds_changes r = diff F d (match m with Fresh => LA | Merge => [] end) LB).
Proof.
  intros HwA HwB. cbv zeta. unfold receive_abs_f, receive_abs.
  set (LA' := match m with Fresh => LA | Merge => [] end).
  set (cs := diff F d LA' LB).
  assert (HsA' : sorted LA') by (unfold LA'; destruct m; [apply HwA|constructor]).
  assert (Hcs : forall c, In c cs -> filter_change wf c = Some (restat c)).
  { intros c Hc. apply filter_change_restat. intros k p st ->.
    apply (diff_change_path d LA' LB k p st HsA' (proj1 HwB) (proj2 HwB) Hc). }
  assert (Efm : filter_map (filter_change wf) cs = diff idf d LA' (map fst B')).
  { rewrite fst_filter_entries, <- diff_filter. fold cs. clear -Hcs.
    induction cs as [|c l IH]; [reflexivity|]. cbn [filter_map map].
    rewrite (Hcs c (or_introl eq_refl)), IH; [reflexivity|]. intros x Hx. apply Hcs. right; auto. }
  rewrite <- Efm.
  rewrite (apply_all_ext (src_of B') (src_of B) (src_of_filter_entries B)).
  rewrite (apply_all_f_spec (src_of B) cs (dest_of A) (N.of_nat (length A))).
  destruct (apply_all_f wf (src_of B) cs (dest_of A) (N.of_nat (length A))) as [[[D n] dn] e] eqn:E.
  cbn [ds_map ds_err ds_reqs ds_changes ds_notifs].
  (* the executed changes are changes of the differ *)
  assert (Hdn : forall c, In c dn -> In c cs).
  { clear -E. revert D n dn e E. generalize (dest_of A), (N.of_nat (length A)).
    induction cs as [|c l IH]; intros D0 n0 D n dn e E; cbn [apply_all_f] in E.
    - inversion E; subst. intros c [].
    - destruct (filter_change wf c) as [c'|].
      + destruct (apply_map (src_of B) D0 n0 c') as [[D1 n1]|]; [|inversion E; subst; intros x []].
        destruct (apply_all_f wf (src_of B) l D1 n1) as [[[D2 n2] dn2] e2] eqn:Er. inversion E; subst.
        intros x [<-|Hx]; [left; auto|right; eapply IH; eauto].
      + intros x Hx. right. eapply IH; eauto. }
  assert (Erestat : filter_map (filter_change wf) dn = map restat dn).
  { clear -Hdn Hcs. induction dn as [|c l IH]; [reflexivity|]. cbn [filter_map map].
    rewrite (Hcs c (Hdn c (or_introl eq_refl))), IH; [reflexivity|]. intros x Hx. apply Hdn. right; auto. }
  split; [reflexivity|]. split; [reflexivity|]. split.
  - unfold req_of_f. rewrite filter_map_filter_map. reflexivity.
  - split; [symmetry; exact Erestat|]. split; [reflexivity|].
    intros ->. eapply apply_all_f_noerr; [|exact E]. intros c Hc. rewrite (Hcs c Hc). discriminate.
Qed.

Hypothesis HwA : wf_listing LA.
Hypothesis HwB : wf_listing LB.
Hypothesis Hlinks : links_ok B.
Hypothesis Hfaith : identity_faithful d A B'.     (* same identity key AFTER the filter => same bytes *)

Notation r := (receive_abs_f wf H hdr Fresh d A B).
Notation nof := (notif_of (src_of B) H hdr).

Lemma HwB' : wf_listing (map fst B').
Proof. rewrite fst_filter_entries. apply wf_listing_filter; auto. Qed.

(* no failure, the destination holds the FILTERED source, the writer got exactly the diff *)
Theorem receive_f_fresh_proof :
  ds_err r = false /\
  ds_changes r = diff F d LA LB /\
  (forall p, view_equiv_w (alookup p (ds_map r)) (efind p B')).
Proof.
  destruct (receive_abs_f_reduce Fresh HwA HwB) as (Em & Ee & _ & _ & _ & Ec). cbv zeta in *.
  destruct (receive_fresh_weak H hdr d A B' HwA HwB' (links_ok_filter B Hlinks) Hfaith) as (He & _ & Hv & _).
  cbv zeta in He, Hv. rewrite <- Ee in He. split; [exact He|]. split; [apply Ec; exact He|].
  intros p. rewrite Em. apply Hv.
Qed.

(* C05 notify_exact with a filter: the notifications are exactly the images — stat AS SENT —
   of the changes of the specification for the differ with that filter *)
Theorem notify_exact_f_proof :
  ds_err r = false /\
  ds_notifs r = map nof (diff F d LA LB) /\
  (forall n, In n (ds_notifs r) <-> exists c, spec_change F d LA LB c /\ n = nof c) /\
  NoDup (map notif_path (ds_notifs r)).
Proof.
  destruct receive_f_fresh_proof as (He & Ec & _).
  destruct (receive_abs_f_reduce Fresh HwA HwB) as (_ & _ & _ & _ & En & _). cbv zeta in En.
  rewrite Ec in En. destruct HwA as [HsA HcA]. destruct HwB as [HsB HcB].
  split; auto. split; auto. rewrite En. split.
  - intros n. rewrite in_map_iff. split.
    + intros (c & <- & Hc). exists c. split; auto. apply (diff_changes_exact_proof F d LA LB); auto. apply F_is_dir.
    + intros (c & Hc & ->). exists c. split; auto. apply (diff_changes_exact_proof F d LA LB); auto. apply F_is_dir.
  - rewrite map_map. rewrite (map_ext _ ch_path (notif_of_path H hdr B)). apply diff_nodup_proof; auto. apply F_is_dir.
Qed.

(* C05 notify_digest with a filter: the digest is the hash of the header of the stat AS SENT
   followed by the bytes the destination finally holds (the destination's stat is the filtered one) *)
Theorem notify_digest_f_proof k p st dg :
  In (k, p, Some (st, dg)) (ds_notifs r) ->
  exists e, alookup p (ds_map r) = Some e /\
            dg = H (hdr st ++ (if wants_content st then de_bytes e else [])) /\
            (is_hardlink st = false -> same_file DMetadata (de_stat e) (F st) = true).
Proof.
  intros Hin. destruct notify_exact_f_proof as (_ & _ & Hex & _). apply Hex in Hin.
  destruct Hin as (c & Hc & En). destruct receive_f_fresh_proof as (_ & _ & Hview).
  destruct HwB as [HsB HcB].
  assert (Hb : In st LB -> st_path st = p -> dg = AbsDest.digest H hdr st (src_of B p) ->
            exists e, alookup p (ds_map r) = Some e /\ dg = H (hdr st ++ (if wants_content st then de_bytes e else [])) /\
                      (is_hardlink st = false -> same_file DMetadata (de_stat e) (F st) = true)).
  { intros Hst Ep Edg. specialize (Hview p). destruct (B_efind B HsB st Hst) as (bb & HinB & Ef).
    rewrite efind_filter_entries in Hview. rewrite <- Ep in Hview at 2. rewrite Ef in Hview. cbn [option_map fst snd] in Hview.
    destruct (alookup p (ds_map r)) as [e|]; [|destruct Hview]. destruct Hview as (Hkey & _ & Hbytes).
    exists e. split; auto. split; [|rewrite F_is_hardlink in Hkey; exact Hkey].
    rewrite Edg. unfold AbsDest.digest. destruct (wants_content st) eqn:Ew; auto.
    rewrite Hbytes.
    - rewrite <- Ep. rewrite (src_at B HsB st bb HinB). reflexivity.
    - rewrite F_is_reg. unfold wants_content in Ew. apply andb_true_iff in Ew. tauto. }
  destruct c as [[kc pc] [sc|]]; destruct kc; simpl in Hc, En; try tauto; inversion En; subst.
  - destruct Hc as (Hst & Ep & _). eapply Hb; eauto.
  - destruct Hc as (Hst & Ep & _). eapply Hb; eauto.
Qed.

(* C02 with a filter: the transfer reaches the fixpoint OF THE FILTERED COMPARISON.  After a
   transfer through the filter the destination, listed again, shows at every path the identity
   key of the FILTERED source entry — what landed is what the differ compares with — so a second
   synchronisation of the unchanged source through the same filter hands nothing to the writer:
   no request, no notification, nothing touched.  ([links_meta] on the filtered source: the
   filter treats the names of one inode alike.) *)
Theorem resync_after_transfer_noop_f_proof :
  links_meta B' ->
  let A' := dest_listing B (ds_map r) in
  receive_abs_f wf H hdr Fresh DMetadata A' B =
  {| ds_map := dest_of A'; ds_reqs := []; ds_notifs := []; ds_changes := []; ds_err := false |}.
Proof.
  intros Hm. cbv zeta.
  destruct (receive_abs_f_reduce Fresh HwA HwB) as (Em & _). cbv zeta in Em.
  destruct (receive_fresh_proof H hdr d A B' HwA HwB' (links_ok_filter B Hlinks) Hfaith Hm) as (_ & _ & Hv & _).
  cbv zeta in Hv. rewrite <- Em in Hv.
  set (R := ds_map r) in *. destruct HwB as [HsB HcB].
  assert (Hent : forall sb bb, In (sb, bb) B ->
            exists x, alookup (st_path sb) R = Some x /\ same_file DMetadata (de_stat x) (F sb) = true).
  { intros sb bb Hin. specialize (Hv (st_path sb)). rewrite efind_filter_entries in Hv.
    pose proof (efind_in_sorted B (sb, bb) HsB Hin) as Ef. simpl in Ef. rewrite Ef in Hv. cbn [option_map fst snd] in Hv.
    destruct (alookup (st_path sb) R) as [x|]; [|destruct Hv]. exists x. split; auto. apply Hv. }
  unfold receive_abs_f.
  rewrite (resync_noop_gen F DMetadata (map fst (dest_listing B R)) (map fst B)); [reflexivity|].
  unfold dest_listing. rewrite map_map.
  assert (X : forall l, (forall e, In e l -> In e B) ->
            Forall2 (fun a b => st_path a = st_path b /\ same_file DMetadata a (F b) = true)
              (map (fun e => fst (match alookup (st_path (fst e)) R with
                                  | Some x => (set_path (de_stat x) (st_path (fst e)), de_bytes x)
                                  | None => e end)) l) (map fst l)).
  { induction l as [|[sb bb] l IH]; intros Hl; cbn [map fst snd]; constructor.
    - destruct (Hent sb bb (Hl _ (or_introl eq_refl))) as (x & Hx & Hs). rewrite Hx. cbn [fst].
      split; [reflexivity|]. rewrite same_file_set_path. exact Hs.
    - apply IH. intros e He. apply Hl. right; auto. }
  apply X. auto.
Qed.

End Red.
End Filt.

(* the filter that does nothing *)
Definition wf_id (p : bytes) (s : stat) : bool * stat := (true, s).
Lemma wf_id_ok : filter_ok wf_id.
Proof. intros p s. split; [reflexivity|]. intros _. cbn. auto. Qed.

(* a umask-022 filter, for the examples of Properties/C05.v *)
Definition umask22 (p : bytes) (s : stat) : bool * stat :=
  (true, {| st_path := st_path s; st_mode := N.ldiff (st_mode s) 18; st_uid := st_uid s; st_gid := st_gid s;
            st_size := st_size s; st_mtime := st_mtime s; st_linkname := st_linkname s;
            st_devmajor := st_devmajor s; st_devminor := st_devminor s; st_xattrs := st_xattrs s |}).
Lemma umask22_ok : filter_ok umask22.
Proof.
  intros p s. split; [reflexivity|]. intros _. cbn [umask22 snd st_path st_linkname].
  assert (Hb : forall mask, N.land mask 18 = 0 -> has_bits (N.ldiff (st_mode s) 18) mask = has_bits (st_mode s) mask).
  { intros mask Hm. unfold has_bits. f_equal. f_equal. apply N.bits_inj. intros i.
    rewrite !N.land_spec, N.ldiff_spec.
    assert (Hi : N.testbit mask i && N.testbit 18 i = false).
    { rewrite <- N.land_spec, Hm. apply N.bits_0. }
    destruct (N.testbit (st_mode s) i), (N.testbit mask i), (N.testbit 18 i); simpl in *; congruence. }
  split; [reflexivity|]. unfold st_is_dir, mode_is_dir, is_special, mode_is_symlink. cbn [st_mode].
  rewrite !Hb by reflexivity. auto.
Qed.
