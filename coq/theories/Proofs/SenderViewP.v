(* C11 — the sender's view of a filtered source (Model/SenderView.v): the STAT stream passes
   both validators of the receiver; who represents a link group; walk and Open agree; the
   transfer converges to the filtered view. *)
From Coq Require Import List NArith Bool Lia Sorting.Sorted.
From FS Require Model.Walk Proofs.WalkP.
From FS Require Import Sx Model.Path Model.Stat Model.Tree Model.Pattern Model.FilterWalk
  Model.Hardlinks Model.Validator Model.Diff Model.SenderView
  Proofs.Lex Proofs.PathP Proofs.PatternP Proofs.FilterP Proofs.PruneP Proofs.RefP Proofs.NaiveRefP
  Proofs.FlatRefP Proofs.ValidatorP Proofs.DiffP Proofs.HardlinksP Proofs.RefValidP Proofs.TrimP.
Import ListNotations.
Open Scope bool_scope.

(* ---------- wf_links is inherited by key-preserving sub-sequences ---------- *)
Lemma rsub_map_r {A B C} (R : A -> C -> Prop) (f : B -> C) l' l :
  rsub (fun x e => R x (f e)) l' l -> rsub R l' (map f l).
Proof. induction 1; cbn [map]; [apply rs_nil|apply rs_skip|apply rs_keep]; auto. Qed.

Lemma existsb_false_rel {A B} (f' : A -> bool) (f : B -> bool) la lb :
  (forall a, In a la -> exists b, In b lb /\ f' a = f b) -> existsb f lb = false -> existsb f' la = false.
Proof.
  intros H E. destruct (existsb f' la) eqn:E'; auto.
  apply existsb_exists in E'. destruct E' as (a & Ha & Hfa). destruct (H a Ha) as (b & Hb & Eab).
  assert (existsb f lb = true) by (apply existsb_exists; exists b; split; congruence). congruence.
Qed.

Lemma forallb_true_rel {A B} (f' : A -> bool) (f : B -> bool) la lb :
  (forall a, In a la -> exists b, In b lb /\ f' a = f b) -> forallb f lb = true -> forallb f' la = true.
Proof.
  intros H E. apply forallb_forall. intros a Ha. destruct (H a Ha) as (b & Hb & ->).
  rewrite forallb_forall in E. auto.
Qed.

Lemma keq_plain s' s : keq s' s -> hl_plain s' = hl_plain s.
Proof. intros (_ & H1 & H2 & _). unfold hl_plain. rewrite H1, H2. reflexivity. Qed.
Lemma keq_link s' s : keq s' s -> has_link s' = has_link s.
Proof. intros (_ & _ & _ & H). unfold has_link. rewrite H. reflexivity. Qed.
Lemma keq_dir s' s : keq s' s -> st_is_dir s' = st_is_dir s.
Proof. intros (_ & H1 & _). exact H1. Qed.

Lemma wf_links_from_rsub l' l : rsub keq l' l -> forall bf' bf,
  (forall b', In b' bf' -> exists b, In b bf /\ keq b' b) ->
  wf_links_from bf l = true -> wf_links_from bf' l' = true.
Proof.
  induction 1 as [|y l' l Hs IH|x y l' l Hxy Hs IH]; intros bf' bf Hbf H.
  - reflexivity.
  - cbn [wf_links_from] in H. apply andb_true_iff in H. destruct H as [_ H].
    apply (IH bf' (bf ++ [y])); auto.
    intros b' Hb'. destruct (Hbf b' Hb') as (b & Hb & Hk). exists b. split; auto. apply in_or_app; auto.
  - cbn [wf_links_from] in H |- *.
    apply andb_true_iff in H. destruct H as [H Hrest].
    apply andb_true_iff in H. destruct H as [H Hlink].
    apply andb_true_iff in H. destruct H as [Hfresh Hne].
    pose proof Hxy as (Ep & _ & _ & El).
    rewrite (keq_plain _ _ Hxy), (keq_link _ _ Hxy), Ep, El.
    assert (Hl'l : forall a', In a' l' -> exists a, In a l /\ keq a' a) by (apply rsub_in; auto).
    apply andb_true_iff. split; [apply andb_true_iff; split; [apply andb_true_iff; split|]|].
    + apply negb_true_iff. apply negb_true_iff in Hfresh.
      eapply existsb_false_rel; [|exact Hfresh].
      intros b' Hb'. destruct (Hbf b' Hb') as (b & Hb & Hk). exists b. split; auto.
      rewrite (proj1 Hk). reflexivity.
    + exact Hne.
    + destruct (hl_plain y && has_link y); [|reflexivity].
      apply andb_true_iff in Hlink. destruct Hlink as [Hlink H3].
      apply andb_true_iff in Hlink. destruct Hlink as [H1 H2].
      rewrite H1. cbn [andb]. apply andb_true_iff. split.
      * eapply forallb_true_rel; [|exact H2].
        intros b' Hb'. destruct (Hbf b' Hb') as (b & Hb & Hk). exists b. split; auto.
        rewrite (proj1 Hk), (keq_plain _ _ Hk), (keq_link _ _ Hk). reflexivity.
      * apply negb_true_iff. apply negb_true_iff in H3.
        eapply existsb_false_rel; [|exact H3].
        intros a' Ha'. destruct (Hl'l a' Ha') as (a & Ha & Hk). exists a. split; auto.
        rewrite (proj1 Hk). reflexivity.
    + apply (IH (bf' ++ [x]) (bf ++ [y])); auto.
      intros b' Hb'. apply in_app_or in Hb'. destruct Hb' as [Hb'|[<-|[]]].
      * destruct (Hbf b' Hb') as (b & Hb & Hk). exists b. split; auto. apply in_or_app; auto.
      * exists y. split; auto. apply in_or_app. right. left. reflexivity.
Qed.

Lemma wf_links_rsub l' (E : list Tree.entry) : rsub keqe l' E -> wf_links (map fst E) = true -> wf_links l' = true.
Proof.
  intros Hs H. unfold wf_links in *. eapply wf_links_from_rsub; [exact (rsub_map_r keq fst l' E Hs)| |exact H].
  intros b' [].
Qed.

(* ---------- rewriting that keeps path and mode keeps a listing well-formed ---------- *)
Section Shape.
Variable g : stat -> stat.
Hypothesis Hg : forall s, st_path (g s) = st_path s /\ st_mode (g s) = st_mode s.

Lemma shape_items l : items (map g l) = items l.
Proof.
  unfold items. rewrite map_map. apply map_ext. intros s. unfold item_of, st_is_dir.
  destruct (Hg s) as [-> ->]. reflexivity.
Qed.

Lemma shape_sorted l : sorted l -> sorted (map g l).
Proof.
  unfold sorted. induction 1 as [|a l _ IH HF]; cbn [map]; constructor; auto.
  rewrite Forall_map. eapply Forall_impl; [|exact HF]. intros b Hb. unfold plt in *.
  rewrite (proj1 (Hg a)), (proj1 (Hg b)). exact Hb.
Qed.

Lemma shape_closed l : closed l -> closed (map g l).
Proof.
  intros HC s' Hin q r E. apply in_map_iff in Hin. destruct Hin as (s & <- & Hs).
  rewrite (proj1 (Hg s)) in E. destruct (HC s Hs q r E) as (t & Ht & Ep & Hd).
  exists (g t). split; [apply in_map; auto|]. unfold st_is_dir in *.
  destruct (Hg t) as [-> ->]. auto.
Qed.
End Shape.

Lemma reset_spec_entry_shape whole s :
  st_path (reset_spec_entry whole s) = st_path s /\ st_mode (reset_spec_entry whole s) = st_mode s.
Proof.
  unfold reset_spec_entry. destruct (negb (hl_plain s)); [auto|].
  destruct (first_rep whole (orig_rep s)); [|auto]. destruct (bytes_eqb _ _); auto.
Qed.

(* ---------- who represents a link group after filtering ---------- *)
Lemma wf_links_from_fresh l : forall bf, wf_links_from bf l = true ->
  forall t b, In t l -> In b bf -> st_path b <> st_path t.
Proof.
  induction l as [|s l IH]; intros bf H t b Ht Hb; [destruct Ht|].
  cbn [wf_links_from] in H. apply andb_true_iff in H. destruct H as [H Hrest].
  apply andb_true_iff in H. destruct H as [H _]. apply andb_true_iff in H. destruct H as [Hfresh _].
  apply negb_true_iff in Hfresh. destruct Ht as [<-|Ht].
  - apply (existsb_path_false _ _ Hfresh); auto.
  - apply (IH _ Hrest t b Ht). apply in_or_app; auto.
Qed.

Lemma wf_links_from_split pre : forall bf s post, wf_links_from bf (pre ++ s :: post) = true ->
  forall t, In t post -> st_path t <> st_path s.
Proof.
  induction pre as [|x pre IH]; intros bf s post H t Ht; cbn [app] in H;
    cbn [wf_links_from] in H; apply andb_true_iff in H; destruct H as [_ Hrest].
  - intros E. apply (wf_links_from_fresh _ _ Hrest t s Ht); [apply in_or_app; right; left; reflexivity|auto].
  - eapply IH; eauto.
Qed.

Lemma Forall2_map_r {A B} (P : A -> B -> Prop) (f : A -> B) l : (forall a, In a l -> P a (f a)) -> Forall2 P l (map f l).
Proof. induction l as [|a l IH]; intros H; cbn [map]; constructor; [apply H; left; auto|apply IH; intros; apply H; right; auto]. Qed.

(* l: the listing the filters leave.  s: a link member whose link name k names no entry of l
   (the first member of the group was filtered out) and which is the first entry of l with that
   link name.  Then s is emitted with EMPTY link name and otherwise unchanged (in particular with
   the size the walk reported for it), everything before it is untouched in number, and every
   later member of the group is emitted naming s. *)
Theorem reset_representative_proof l : wf_links l = true ->
  forall pre s post k,
  l = pre ++ s :: post -> hl_plain s = true -> st_linkname s = k -> k <> [] ->
  (forall t, In t l -> st_path t <> k) ->
  (forall t, In t pre -> hl_plain t = true -> st_linkname t <> k) ->
  exists pre' post',
    hardlink_reset l = pre' ++ set_linkname s [] :: post' /\ length pre' = length pre /\
    st_size (set_linkname s []) = st_size s /\
    Forall2 (fun t t' => hl_plain t = true -> st_linkname t = k -> t' = set_linkname t (st_path s)) post post'.
Proof.
  intros Hwf pre s post k El Hp Hk Hne Hgone Hfirst.
  rewrite (reset_eq_spec_proof l Hwf). unfold reset_spec.
  set (f := reset_spec_entry l).
  assert (Hor : forall t, hl_plain t = true -> In t l -> (orig_rep t = k <-> st_linkname t = k)).
  { intros t _ Ht. unfold orig_rep. destruct (st_linkname t) eqn:E; [|tauto].
    split; intros X; [exfalso; eapply Hgone; eauto|congruence]. }
  assert (Hs_in : In s l) by (rewrite El; apply in_or_app; right; left; reflexivity).
  assert (Hfr : first_rep l k = Some (st_path s)).
  { rewrite El, first_rep_app.
    rewrite (first_rep_none pre k).
    - cbn [first_rep]. rewrite Hp. cbn [andb].
      assert (E : orig_rep s = k) by (apply Hor; auto). rewrite E, bytes_eqb_refl. reflexivity.
    - intros b Hb Hpb E. apply (Hfirst b Hb Hpb). apply Hor; auto. rewrite El. apply in_or_app; auto. }
  exists (map f pre), (map f post). split; [|split; [apply map_length|split; [reflexivity|]]].
  - rewrite El at 1. rewrite map_app. cbn [map]. f_equal. f_equal.
    unfold f, reset_spec_entry. rewrite Hp. cbn [negb].
    assert (E : orig_rep s = k) by (apply Hor; auto). rewrite E, Hfr, bytes_eqb_refl. reflexivity.
  - apply Forall2_map_r. intros t Ht Hpt Hkt.
    assert (Ht_in : In t l) by (rewrite El; apply in_or_app; right; right; auto).
    unfold f, reset_spec_entry. rewrite Hpt. cbn [negb].
    assert (E : orig_rep t = k) by (apply Hor; auto). rewrite E, Hfr.
    assert (Hd : bytes_eqb (st_path s) (st_path t) = false).
    { apply bytes_eqb_neq. intros X. unfold wf_links in Hwf. rewrite El in Hwf.
      apply (wf_links_from_split _ _ _ _ Hwf t Ht). auto. }
    rewrite Hd. reflexivity.
Qed.

(* ---------- which non-directories the reference reports ---------- *)
Lemma NoDup_map_inj_in {A B} (f : A -> B) l : NoDup (map f l) ->
  forall a b, In a l -> In b l -> f a = f b -> a = b.
Proof.
  induction l as [|x l IH]; intros H a b Ha Hb E; [destruct Ha|].
  cbn [map] in H. inversion H as [|? ? Hx Hl]; subst.
  destruct Ha as [<-|Ha], Hb as [<-|Hb]; auto.
  - exfalso. apply Hx. rewrite E. apply in_map; auto.
  - exfalso. apply Hx. rewrite <- E. apply in_map; auto.
Qed.

Section RefFiles.
Variable V : bytes -> bool.
Variable mapfn : bytes -> stat -> mres * stat.
Hypothesis Hshape : map_keeps_shape mapfn.

Notation out n := (fst (fst n)).

Lemma ref_forest_in kids : forall b p s, In s (fst (ref_forest V mapfn b p kids)) ->
  exists k, In k kids /\ In s (out (ref_node V mapfn b p k)).
Proof.
  induction kids as [|k r IH]; intros b p s Hin; [destruct Hin|].
  cbn [ref_forest] in Hin. destruct (ref_node V mapfn b p k) as [[e f] cut] eqn:Ek.
  destruct cut; cbn [fst] in Hin.
  - exists k. split; [left; auto|]. rewrite Ek. exact Hin.
  - destruct (ref_forest V mapfn b p r) as [e' f'] eqn:Er. cbn [fst] in Hin.
    apply in_app_or in Hin. destruct Hin as [Hin|Hin].
    + exists k. split; [left; auto|]. rewrite Ek. exact Hin.
    + destruct (IH b p s) as (k' & Hk' & Hs); [rewrite Er; exact Hin|]. exists k'. split; [right|]; auto.
Qed.

(* a reported non-directory is selected by the verdict *)
Lemma ref_nondir_selected : forall n b dir s, In s (out (ref_node V mapfn b dir n)) ->
  st_is_dir s = false -> V (st_path s) = true.
Proof.
  induction n as [name st ct kids IH] using node_ind2. intros b dir s Hin Hnd.
  rewrite ref_node_eq in Hin. cbv zeta in Hin.
  set (p := child_path dir name) in *. set (st' := set_path st p) in *.
  assert (Hb : forall b' isd, In s (fst (ref_below V mapfn b' isd p kids)) -> V (st_path s) = true).
  { intros b' isd Hx. unfold ref_below in Hx. destruct isd; [|destruct Hx].
    destruct (ref_forest_in _ _ _ _ Hx) as (k & Hk & Hs). rewrite Forall_forall in IH. eapply IH; eauto. }
  assert (Hpath : st_path (snd (mapfn p st')) = p) by (rewrite (proj1 (Hshape p st')); reflexivity).
  assert (Hdir : st_is_dir (snd (mapfn p st')) = st_is_dir st) by (exact (proj1 (proj2 (Hshape p st')))).
  destruct (V p) eqn:EV.
  - destruct (fst (mapfn p st')); cbn [fst] in Hin.
    + apply in_app_or in Hin. destruct Hin as [Hin|Hin]; [|eapply Hb; eauto].
      destruct b; [destruct Hin|]. destruct Hin as [<-|[]]. rewrite Hpath. exact EV.
    + eapply Hb; eauto.
    + destruct Hin.
  - cbn [fst] in Hin. apply in_app_or in Hin. destruct Hin as [Hin|Hin]; [|eapply Hb; eauto].
    match type of Hin with In _ (if ?c then _ else _) => destruct c eqn:Ec end; [|destruct Hin].
    destruct Hin as [<-|[]]. exfalso.
    apply andb_true_iff in Ec. destruct Ec as [Ec _]. apply andb_true_iff in Ec. destruct Ec as [Ec _].
    unfold ref_below in Ec. rewrite Hdir in Hnd. rewrite Hnd in Ec. discriminate.
Qed.

Lemma reference_nondir_selected view s : In s (reference V mapfn view) -> st_is_dir s = false -> V (st_path s) = true.
Proof.
  intros Hin Hnd. unfold reference in Hin. destruct (ref_forest_in _ _ _ _ Hin) as (k & _ & Hs).
  eapply ref_nondir_selected; eauto.
Qed.

(* a map function that never drops: every selected entry is reported *)
Hypothesis Hkeep : forall p s, fst (mapfn p s) = MKeep.

Lemma ref_nocut n b dir : snd (ref_node V mapfn b dir n) = false.
Proof.
  destruct n as [name st ct kids]. rewrite ref_node_eq. cbv zeta. rewrite Hkeep.
  destruct (V _); reflexivity.
Qed.

Lemma ref_forest_in_conv kids : forall b p k s, In k kids -> In s (out (ref_node V mapfn b p k)) ->
  In s (fst (ref_forest V mapfn b p kids)).
Proof.
  induction kids as [|k0 r IH]; intros b p k s Hk Hs; [destruct Hk|].
  cbn [ref_forest]. pose proof (ref_nocut k0 b p) as Hc.
  destruct (ref_node V mapfn b p k0) as [[e f] cut] eqn:Ek. cbn [snd] in Hc. subst cut.
  destruct (ref_forest V mapfn b p r) as [e' f'] eqn:Er. cbn [fst].
  apply in_or_app. destruct Hk as [<-|Hk].
  - left. rewrite Ek in Hs. exact Hs.
  - right. specialize (IH b p k s Hk Hs). rewrite Er in IH. exact IH.
Qed.

Lemma walk_forest_in p kids (e : Tree.entry) : In e (walk_forest p kids) -> exists k, In k kids /\ In e (walk_node p k).
Proof.
  induction kids as [|k r IH]; intros Hin; [destruct Hin|]. cbn [walk_forest] in Hin.
  apply in_app_or in Hin. destruct Hin as [Hin|Hin].
  - exists k. split; [left|]; auto.
  - destruct (IH Hin) as (k' & Hk' & He). exists k'. split; [right|]; auto.
Qed.

Lemma ref_selected_reported : forall n, wf_source_node n = true -> forall dir (e : Tree.entry),
  In e (walk_node dir n) -> V (st_path (fst e)) = true ->
  exists s, In s (out (ref_node V mapfn false dir n)) /\ st_path s = st_path (fst e).
Proof.
  induction n as [name st ct kids IH] using node_ind2. intros Hwf dir e Hin HV.
  apply wf_source_node_inv in Hwf. destruct Hwf as (_ & Hdk & _ & Hk).
  rewrite walk_node_eq in Hin. rewrite ref_node_eq. cbv zeta.
  set (p := child_path dir name) in *. set (st' := set_path st p) in *. rewrite Hkeep.
  assert (Hpath : st_path (snd (mapfn p st')) = p) by (rewrite (proj1 (Hshape p st')); reflexivity).
  destruct Hin as [<-|Hin].
  - change (V p = true) in HV. rewrite HV. cbn [fst app].
    exists (snd (mapfn p st')). split; [left; reflexivity|exact Hpath].
  - destruct (walk_forest_in _ _ _ Hin) as (k & Hkin & Hek).
    assert (Hisd : st_is_dir st = true) by (destruct Hdk as [H|H]; [exact H|subst kids; destruct Hkin]).
    rewrite forallb_forall in Hk. rewrite Forall_forall in IH.
    destruct (IH k Hkin (Hk k Hkin) p e Hek HV) as (s & Hs & Eps).
    assert (Hb : In s (fst (ref_below V mapfn false (st_is_dir st) p kids))).
    { unfold ref_below. rewrite Hisd. eapply ref_forest_in_conv; eauto. }
    exists s. split; [|exact Eps].
    destruct (V p); cbn [fst orb]; apply in_or_app; right; exact Hb.
Qed.

Lemma reference_selected_reported view (e : Tree.entry) : wf_source view = true ->
  In e (walk_root view) -> V (st_path (fst e)) = true ->
  exists s, In s (reference V mapfn view) /\ st_path s = st_path (fst e).
Proof.
  unfold wf_source. intros Hwf Hin HV. apply andb_true_iff in Hwf. destruct Hwf as [_ Hk].
  destruct (walk_forest_in _ _ _ Hin) as (k & Hkin & Hek). rewrite forallb_forall in Hk.
  destruct (ref_selected_reported k (Hk k Hkin) [] e Hek HV) as (s & Hs & Eps).
  exists s. split; auto. unfold reference. eapply ref_forest_in_conv; eauto.
Qed.
End RefFiles.

(* ---------- the filtered walk is the reference filter of the trimmed view ---------- *)
Section Sender.
Variable pmatch : bytes -> bytes -> bool.
Variable mapfn : bytes -> stat -> mres * stat.
Variable c : cfg.
Hypothesis Hshape : map_keeps_shape mapfn.
Hypothesis Hdirs : map_never_drops_dirs mapfn.

Notation fw := (filter_walk pmatch mapfn c).
Notation sv := (sender_view pmatch mapfn c).

Lemma fw_trim view : wf_source view = true ->
  fw view = reference (keep_incr pmatch c) mapfn (trim pmatch c view).
Proof. apply filter_walk_trim_reference. Qed.

Lemma fw_wf_listing view : wf_source view = true ->
  wf_listing (fw view) /\ (forall s, In s (fw view) -> ok_path (st_path s) = true).
Proof.
  intros Hwf. rewrite (fw_trim view Hwf). apply reference_wf_listing; auto. apply trim_wf_source; auto.
Qed.

Lemma fw_rsub_gen (K : stat -> stat -> Prop) (HK : forall p s, K (snd (mapfn p s)) s) view :
  wf_source view = true -> rsub (fun s' (e : Tree.entry) => K s' (fst e)) (fw view) (walk_root view).
Proof.
  intros Hwf. rewrite (fw_trim view Hwf).
  eapply rsub_trans_eq; [apply (reference_rsub_gen (keep_incr pmatch c) mapfn K HK)|apply trim_walk_root].
Qed.

Lemma fw_rsub view : wf_source view = true -> rsub keqe (fw view) (walk_root view).
Proof. exact (fw_rsub_gen keq Hshape view). Qed.

Lemma fw_wf_links view : wf_source view = true -> source_links_ok view = true -> wf_links (fw view) = true.
Proof. intros Hwf Hl. eapply wf_links_rsub; [apply fw_rsub; auto|exact Hl]. Qed.

Lemma sv_spec view : wf_source view = true -> source_links_ok view = true ->
  sv view = map (reset_spec_entry (fw view)) (fw view).
Proof. intros Hwf Hl. unfold sender_view. rewrite reset_eq_spec_proof by (apply fw_wf_links; auto). reflexivity. Qed.

Lemma sv_wf_listing view : wf_source view = true -> source_links_ok view = true ->
  wf_listing (sv view) /\ (forall s, In s (sv view) -> ok_path (st_path s) = true).
Proof.
  intros Hwf Hl. rewrite (sv_spec view Hwf Hl). destruct (fw_wf_listing view Hwf) as [[HS HC] Hok].
  split; [split|].
  - apply shape_sorted; auto. apply reset_spec_entry_shape.
  - apply shape_closed; auto. apply reset_spec_entry_shape.
  - intros s' Hin. apply in_map_iff in Hin. destruct Hin as (s & <- & Hs).
    rewrite (proj1 (reset_spec_entry_shape _ s)). auto.
Qed.

Theorem filtered_stream_valid_proof view :
  wf_source view = true -> source_links_ok view = true ->
  run_validator (items (sv view)) = None /\ hardlink_check (sv view) = None.
Proof.
  intros Hwf Hl. split.
  - destruct (sv_wf_listing view Hwf Hl) as [Hw Hok]. apply listing_passes_validator; auto.
  - unfold sender_view. apply reset_links_valid_proof. apply fw_wf_links; auto.
Qed.

(* ---------- a reported non-directory can be opened ----------
   no hypothesis on the matcher, none on what the map function drops: the entry is selected by
   the incremental verdict, which under no-late-shadow is the verdict Open computes *)
Lemma all_paths_node_in (Q : bytes -> bool) : forall n dir, all_paths_node Q dir n = true ->
  forall e : Tree.entry, In e (walk_node dir n) -> Q (st_path (fst e)) = true.
Proof.
  induction n as [name st ct kids IH] using node_ind2. intros dir H e Hin.
  cbn [all_paths_node] in H. apply andb_true_iff in H. destruct H as [HQ Hk].
  rewrite walk_node_eq in Hin. destruct Hin as [<-|Hin]; [exact HQ|].
  destruct (walk_forest_in _ _ _ Hin) as (k & Hkin & Hek).
  rewrite forallb_forall in Hk. rewrite Forall_forall in IH. eapply IH; eauto.
Qed.

Lemma all_paths_in (Q : bytes -> bool) view : all_paths Q view = true ->
  forall e : Tree.entry, In e (walk_root view) -> Q (st_path (fst e)) = true.
Proof.
  unfold all_paths. intros H e Hin. destruct (walk_forest_in _ _ _ Hin) as (k & Hkin & Hek).
  rewrite forallb_forall in H. eapply all_paths_node_in; eauto.
Qed.

Lemma reported_file_opens view : wf_source view = true -> all_paths (nls_path pmatch c) view = true ->
  forall s, In s (fw view) -> st_is_dir s = false -> filter_open pmatch c (st_path s) = true.
Proof.
  intros Hwf Hn s Hin Hnd.
  destruct (rsub_in _ _ _ (fw_rsub view Hwf) s Hin) as (e & He & Hk).
  pose proof (all_paths_in _ view (all_paths_keep_view pmatch c view (wf_source_strict view Hwf) Hn) e He) as Heq.
  cbv beta in Heq. apply eqb_prop in Heq. rewrite <- (proj1 Hk) in Heq.
  unfold filter_open. rewrite <- Heq.
  rewrite (fw_trim view Hwf) in Hin. eapply reference_nondir_selected; eauto.
Qed.

(* ---------- walk and Open agree on the files of the source ---------- *)
Section Naive.
Hypothesis Hsem : prefix_semantics pmatch.
Hypothesis Hsafe : cfg_star_safe c = true.

Lemma fw_naive_reference view : wf_source view = true -> all_paths (nls_path pmatch c) view = true ->
  fw view = reference (keep_naive pmatch c) mapfn view.
Proof.
  intros Hwf Hn. apply (filter_walk_naive_reference_proof pmatch c mapfn view Hsem Hsafe); auto.
  apply wf_source_strict; auto.
Qed.

Lemma source_file_entry view q : source_file view q = true ->
  exists e : Tree.entry, In e (walk_root view) /\ st_path (fst e) = q /\ st_is_dir (fst e) = false.
Proof.
  unfold source_file. intros H. apply existsb_exists in H. destruct H as (e & He & Hx).
  apply andb_true_iff in Hx. destruct Hx as [H1 H2]. apply bytes_eqb_eq in H1. apply negb_true_iff in H2.
  exists e. auto.
Qed.

Theorem walk_open_agree_proof view :
  (forall p s, fst (mapfn p s) = MKeep) ->
  wf_source view = true -> all_paths (nls_path pmatch c) view = true ->
  forall q, source_file view q = true -> reported pmatch mapfn c view q = filter_open pmatch c q.
Proof.
  intros Hkeep Hwf Hn q Hq. unfold reported. rewrite (fw_naive_reference view Hwf Hn). unfold filter_open.
  destruct (source_file_entry view q Hq) as (e & He & Epe & Hnd).
  destruct (keep_naive pmatch c q) eqn:EV.
  - apply existsb_exists.
    destruct (reference_selected_reported (keep_naive pmatch c) mapfn Hshape Hkeep view e Hwf He) as (s & Hs & Eps);
      [rewrite Epe; exact EV|].
    exists s. split; auto. rewrite Eps, Epe. apply bytes_eqb_refl.
  - destruct (existsb _ _) eqn:Ex; auto. exfalso.
    apply existsb_exists in Ex. destruct Ex as (s & Hs & Eq). apply bytes_eqb_eq in Eq.
    destruct (rsub_in _ _ _ (reference_rsub (keep_naive pmatch c) mapfn Hshape view) s Hs) as (e' & He' & Hk).
    assert (Ee : e' = e).
    { apply (NoDup_map_inj_in (fun x : Tree.entry => st_path (fst x)) (walk_root view)); auto.
      - exact (proj2 (WalkP.view_walk_sorted_proof view (wf_source_walkp view Hwf))).
      - rewrite Epe, <- Eq. symmetry. exact (proj1 Hk). }
    subst e'.
    assert (Hsd : st_is_dir s = false) by (rewrite (keq_dir _ _ Hk); exact Hnd).
    pose proof (reference_nondir_selected _ _ Hshape view s Hs Hsd) as X. rewrite Eq in X. congruence.
Qed.
End Naive.

End Sender.
