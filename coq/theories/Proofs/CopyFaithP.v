(* C13 — the copy is the source: into an empty destination every source entry arrives as a
   faithful copy ([faithful_dent]) and nothing else appears below the landing path; on any
   destination every copied entry carries the requested owner / mode / time; notifications. *)
From Coq Require Import List NArith Bool Lia ZifyN ZifyNat ZifyBool.
From FS Require Import Sx Model.Path Model.SymMode Model.Copier Model.CopySpec Proofs.Lex
  Proofs.CopierP Proofs.CopyOpsP Proofs.CopyDentP Proofs.CopyLinkP Proofs.CopyNodeP Proofs.CopyMkdirP Proofs.CopyConflictP
  Proofs.CopyTopP Proofs.CopyThmP.
Import ListNotations.
Open Scope N_scope.
Open Scope bool_scope.

Lemma copy_type_fmt sd : N.land (copy_type sd) S_IFMT = copy_type sd.
Proof. unfold copy_type. destruct (is_sock sd); [reflexivity|apply ftype_idem]. Qed.
Lemma copy_type_all sd : N.land (copy_type sd) allBits = 0.
Proof. unfold copy_type. destruct (is_sock sd); [reflexivity|]. unfold ftype. apply land_fmt_all. Qed.

(* a directory as mkdir leaves it, up to owner, permission bits and time *)
Definition fresh_dir_like (d : dent) : Prop :=
  is_dir d = true /\ d_rdev d = 0 /\ d_target d = [] /\ d_xattrs d = [] /\ d_content d = [].

Section Faith.
  Variable o : copts.
  Variable ms : option (list bitcmd).
  Variable multi : N -> bool.
  Notation copied := (copied o ms multi).
  Notation new_entry := (new_entry o ms multi).

  Lemma eqb_of_eq a b : a = b -> N.eqb a b = true. Proof. intros ->. apply N.eqb_refl. Qed.
  Lemma beqb_of_eq a b : a = b -> bytes_eqb a b = true. Proof. intros ->. apply bytes_eqb_refl. Qed.
  Lemma xeqb_of_eq a b : a = b -> xattrs_eqb a b = true. Proof. intros ->. apply xattrs_eqb_refl. Qed.

  (* the fields of a faithful copy *)
  Lemma faithful_of_fields sd d :
    d_mode d = N.lor (copy_type sd) (if is_lnk sd then perm12 sd else info_mode o ms sd) ->
    d_uid d = fst (info_owner o sd) -> d_gid d = snd (info_owner o sd) -> d_mtime d = info_time o sd ->
    d_rdev d = (if is_dev sd then d_rdev sd else 0) -> d_target d = d_target sd -> d_xattrs d = d_xattrs sd ->
    d_content d = (if is_reg sd then d_content sd else []) ->
    faithful_dent o ms sd d = true.
  Proof.
    intros Hm Hu Hg Ht Hr Htg Hx Hc. unfold faithful_dent.
    assert (Hp : N.land (if is_lnk sd then perm12 sd else info_mode o ms sd) allBits =
                 (if is_lnk sd then perm12 sd else info_mode o ms sd)).
    { destruct (is_lnk sd); [apply perm12_idem|apply info_mode_idem]. }
    assert (Hf : N.land (if is_lnk sd then perm12 sd else info_mode o ms sd) S_IFMT = 0).
    { rewrite <- Hp. apply land_all_fmt. }
    unfold ftype, perm12 at 1. rewrite Hm.
    rewrite (ftype_mk _ _ (copy_type_fmt sd) Hf), (perm_mk _ _ (copy_type_all sd) Hp).
    rewrite !N.eqb_refl, (eqb_of_eq _ _ Hu), (eqb_of_eq _ _ Hg), (eqb_of_eq _ _ Ht), (eqb_of_eq _ _ Hr),
      (beqb_of_eq _ _ Htg), (xeqb_of_eq _ _ Hx), (beqb_of_eq _ _ Hc). reflexivity.
  Qed.

  Lemma faithful_new_entry s p d : dm o d (new_entry s p) -> d_mtime d = info_time o (sdent s) ->
    faithful_dent o ms (sdent s) d = true.
  Proof.
    intros (A1 & A2 & A3 & _ & A5 & A6 & A7 & A8) Ht. unfold CopySpec.new_entry in *.
    cbn [x_d d_mode d_uid d_gid d_rdev d_target d_xattrs d_content] in *.
    apply faithful_of_fields; auto.
  Qed.

  Lemma faithful_merged_fresh sd d0 d k m : wf_dent sd -> is_dir sd = true -> fresh_dir_like d0 ->
    dm o d {| x_d := merged_d o ms sd d0; x_known := true; x_key := k; x_mk := m |} ->
    d_mtime d = info_time o sd -> faithful_dent o ms sd d = true.
  Proof.
    intros (Hz & Hl & Htg & Hx) Hd (F1 & F2 & F3 & F4 & F5) (A1 & A2 & A3 & _ & A5 & A6 & A7 & A8) Ht.
    unfold merged_d in *.
    cbn [x_d set_xattrs set_mtime set_perm set_owner d_mode d_uid d_gid d_rdev d_target d_xattrs d_content] in *.
    destruct (type_facts sd) as (_ & _ & TD). destruct (TD Hd) as (C1 & C2 & C3 & C4 & C5).
    apply faithful_of_fields; auto.
    - rewrite A1, C2, C5, info_mode_idem.
      change (ftype (set_owner (fst (info_owner o sd)) (snd (info_owner o sd)) d0)) with (ftype d0).
      unfold is_dir in F1. apply N.eqb_eq in F1. rewrite F1. auto.
    - rewrite C3. congruence.
    - rewrite Htg by auto. congruence.
    - rewrite A7, F4. apply merge_nil; auto.
    - rewrite C1. congruence.
  Qed.

  (* every copied entry carries the requested owner, mode (symlinks excepted) and time *)
  Lemma copied_options s old top p d e :
    copied s old top p = e -> (top = true -> match old with Some eo => is_dir (sdent s) && is_dir (x_d eo) = false | None => True end) ->
    dm o d e -> (x_known e = true -> d_mtime d = d_mtime (x_d e)) ->
    d_uid d = fst (info_owner o (sdent s)) /\ d_gid d = snd (info_owner o (sdent s)) /\
    (is_lnk (sdent s) = false -> perm12 d = info_mode o ms (sdent s)) /\
    d_mtime d = info_time o (sdent s) /\ ftype d = copy_type (sdent s).
  Proof.
    intros <- Htop (A1 & A2 & A3 & _) Hk. unfold CopySpec.copied in *.
    set (sd := sdent s) in *.
    assert (Hnew : d_mode d = d_mode (x_d (new_entry s p)) -> d_uid d = d_uid (x_d (new_entry s p)) ->
                   d_gid d = d_gid (x_d (new_entry s p)) -> d_mtime d = d_mtime (x_d (new_entry s p)) ->
                   d_uid d = fst (info_owner o sd) /\ d_gid d = snd (info_owner o sd) /\
                   (is_lnk sd = false -> perm12 d = info_mode o ms sd) /\
                   d_mtime d = info_time o sd /\ ftype d = copy_type sd).
    { unfold CopySpec.new_entry. fold sd. cbn [x_d d_mode d_uid d_gid d_mtime]. intros B1 B2 B3 B4.
      split; auto. split; auto. split; [|split; auto].
      - intro El. unfold perm12. rewrite B1, El. apply perm_mk; [apply copy_type_all|apply info_mode_idem].
      - unfold ftype. rewrite B1. apply ftype_mk; [apply copy_type_fmt|].
        destruct (is_lnk sd); [rewrite <- perm12_idem|rewrite <- info_mode_idem]; apply land_all_fmt. }
    destruct old as [eo|]; [|apply Hnew; auto; apply Hk; reflexivity].
    destruct (is_dir sd && is_dir (x_d eo)) eqn:Eb; [|apply Hnew; auto; apply Hk; reflexivity].
    destruct top; [specialize (Htop eq_refl); congruence|].
    cbn [x_d x_known set_xattrs set_mtime set_perm set_owner d_mode d_uid d_gid d_mtime] in *.
    apply andb_true_iff in Eb as [Ed Ed']. rewrite info_mode_idem in A1.
    destruct (type_facts sd) as (_ & _ & TD). destruct (TD Ed) as (C1 & C2 & C3 & C4 & C5).
    split; auto. split; auto. split; [|split; [apply Hk; auto|]].
    - intros _. unfold perm12. rewrite A1. apply perm_mk; [apply land_fmt_all|apply info_mode_idem].
    - unfold ftype. rewrite A1. rewrite ftype_mk.
      + change (ftype (set_owner (fst (info_owner o sd)) (snd (info_owner o sd)) (x_d eo))) with (ftype (x_d eo)).
        unfold is_dir in Ed'. apply N.eqb_eq in Ed'. rewrite Ed', C5. auto.
      + apply land_idem2.
      + rewrite <- info_mode_idem. apply land_all_fmt.
  Qed.
End Faith.

(* ------------------------------------------------------------------ specification side *)
Lemma xattrs_eqb_eq a : forall b, xattrs_eqb a b = true -> a = b.
Proof.
  induction a as [|[k v] a IH]; intros [|[k' v'] b]; simpl; try discriminate; auto.
  intro H. apply andb_true_iff in H as [H H3]. apply andb_true_iff in H as [H1 H2].
  apply bytes_eqb_eq in H1, H2. subst. f_equal. auto.
Qed.

Lemma dent_match_dm o d e : dent_match d e = true ->
  dm o d e /\ (x_known e = true -> d_mtime d = d_mtime (x_d e)).
Proof.
  unfold dent_match. intro H. repeat (apply andb_true_iff in H as [H ?]).
  apply N.eqb_eq in H, H5, H6, H3. apply bytes_eqb_eq in H2, H0. apply xattrs_eqb_eq in H1.
  assert (Hk : x_known e = true -> d_mtime d = d_mtime (x_d e)).
  { intro K. rewrite K in H4. cbn [negb orb] in H4. apply N.eqb_eq; auto. }
  split; auto. unfold dm. repeat split; auto.
  intro K. apply Hk. unfold eff_known in K. apply andb_true_iff in K as [K _]. auto.
Qed.

Lemma made_dir_fresh o p par : fresh_dir_like (x_d (made_dir o p par)).
Proof.
  split; [apply made_dir_isdir|]. unfold made_dir.
  destruct (match o_chown o with Some ug => ug | None => _ end) as [u g]. cbn [x_d d_rdev d_target d_xattrs d_content]. auto.
Qed.

Lemma make_dirs_shape o r : forall pre V V1, make_dirs o pre r V = inl V1 ->
  forall p e, V1 p = Some e -> (exists e0, V p = Some e0 /\ x_d e0 = x_d e) \/ fresh_dir_like (x_d e).
Proof.
  induction r as [|c r IH]; intros pre V V1.
  - rewrite make_dirs_nil. destruct (V pre) as [e|]; [|discriminate].
    destruct (negb (is_dir (x_d e))); [discriminate|]. intro H; inversion H; subst. eauto.
  - rewrite make_dirs_cons. destruct (V pre) as [e|]; [|discriminate].
    destruct (negb (is_dir (x_d e))); [discriminate|].
    destruct (V (pre ++ [c])) eqn:En; intros H p e1 Hp.
    + eapply IH; eauto.
    + destruct (IH _ _ _ H p e1 Hp) as [(e0 & A & B)|F]; auto.
      destruct (path_dec p (pre ++ [c])) as [->|Hn].
      * rewrite xupd_same in A. inversion A; subst. right. rewrite <- B. apply made_dir_fresh.
      * rewrite xupd_other in A by auto. destruct (path_dec p pre) as [->|Hn2].
        -- rewrite touch_same in A. destruct (V pre) as [ep|]; [|discriminate]. simpl in A. inversion A; subst.
           left. exists ep. rewrite <- B, touched_d. auto.
        -- rewrite touch_other in A by auto. eauto.
Qed.

Lemma make_dirs_dom o r : forall pre V V1, make_dirs o pre r V = inl V1 ->
  forall p, V1 p <> None -> V p <> None \/ In p (prefixes pre r).
Proof.
  induction r as [|c r IH]; intros pre V V1.
  - rewrite make_dirs_nil. destruct (V pre) as [e|]; [|discriminate].
    destruct (negb (is_dir (x_d e))); [discriminate|]. intro H; inversion H; subst. auto.
  - rewrite make_dirs_cons. destruct (V pre) as [e|] eqn:Ep; [|discriminate].
    destruct (negb (is_dir (x_d e))); [discriminate|]. cbn [prefixes].
    destruct (V (pre ++ [c])) eqn:En; intros H p Hp.
    + destruct (IH _ _ _ H p Hp); auto. right. right. auto.
    + destruct (IH _ _ _ H p Hp) as [A|A]; [|right; right; auto].
      destruct (path_dec p (pre ++ [c])) as [->|Hn].
      * right. right. destruct r; simpl; auto.
      * rewrite xupd_other in A by auto. destruct (path_dec p pre) as [->|Hn2].
        -- left. congruence.
        -- rewrite touch_other in A by auto. auto.
Qed.

Section Single.
  Variable o : copts.
  Variable sroot : snode.
  Hypothesis Hsrc : wf_src sroot.
  Notation multi := (multi_of sroot).

  Definition parse_of : option (option (list bitcmd)) :=
    match o_modestr o with [] => Some None | s => option_map Some (parse_mode s) end.

  (* the structure of the specification for one literal source *)
  Lemma overlay_all_single V0 src dst r :
    o_wild o = false -> x_isdir (xview_of V0 []) = true -> overlay_all o sroot V0 src dst = inl r ->
    exists X1 eps ms sn D V1,
      ((ensure_arg dst = [] /\ X1 = xview_of V0 /\ eps = []) \/
       (ensure_arg dst <> [] /\ exists ep, spec_resolve (xview_of V0) (ensure_arg dst) = inl ep /\
                                           make_dirs o [] ep (xview_of V0) = inl X1 /\ eps = prefixes [] ep)) /\
      parse_of = Some ms /\ s_resolve sroot (rooted src) = inl sn /\ spec_resolve X1 (clean dst) = inl D /\
      let L := landing o sn src D X1 in
      let target := if o_dircontents o && is_dir (sdent sn) && negb (x_exists (X1 D)) then L else parent L in
      make_dirs o [] target X1 = inl V1 /\
      (o_replace o = false -> first_conflict V1 L sn = None) /\
      (L = [] -> is_dir (sdent sn) = true /\ x_isdir (V1 []) = true) /\
      (forall p, xr_view r p = res o ms multi sn L true V1 p) /\
      xr_notifs r = node_notifs V1 true L sn /\ xr_landings r = [L] /\
      xr_merged r = [is_dir (sdent sn) && x_isdir (V1 L)] /\
      xr_paths r = eps ++ prefixes [] target ++ s_paths L sn.
  Proof.
    intros Hw Hroot. unfold overlay_all. rewrite Hw.
    assert (Core : forall X1 eps ms r0, x_isdir (X1 []) = true ->
      overlay_srcs o sroot ms dst [src] X1 = inl r0 ->
      exists sn D V1,
        s_resolve sroot (rooted src) = inl sn /\ spec_resolve X1 (clean dst) = inl D /\
        let L := landing o sn src D X1 in
        let target := if o_dircontents o && is_dir (sdent sn) && negb (x_exists (X1 D)) then L else parent L in
        make_dirs o [] target X1 = inl V1 /\
        (o_replace o = false -> first_conflict V1 L sn = None) /\
        (L = [] -> is_dir (sdent sn) = true /\ x_isdir (V1 []) = true) /\
        (forall p, xr_view r0 p = res o ms multi sn L true V1 p) /\
        xr_notifs r0 = node_notifs V1 true L sn /\ xr_landings r0 = [L] /\
        xr_merged r0 = [is_dir (sdent sn) && x_isdir (V1 L)] /\
        eps ++ xr_paths r0 = eps ++ prefixes [] target ++ s_paths L sn).
    { intros X1 eps ms r0 Hr1. cbn [overlay_srcs].
      destruct (s_resolve sroot (rooted src)) as [sn|[]] eqn:Eres; try discriminate.
      unfold overlay_one. destruct (spec_resolve X1 (clean dst)) as [D|] eqn:ED; [|discriminate].
      set (L := landing o sn src D X1).
      set (target := if o_dircontents o && is_dir (sdent sn) && negb (x_exists (X1 D)) then L else parent L).
      destruct (make_dirs o [] target X1) as [V1|] eqn:EM; [|discriminate].
      destruct (if o_replace o then None else first_conflict V1 L sn) eqn:EC; [discriminate|].
      intro H. inversion H; subst r0. clear H. cbn [xr_view xr_notifs xr_landings xr_merged xr_paths].
      exists sn, D, V1. split; auto. split; auto. split; auto.
      split; [intro Hr; rewrite Hr in EC; auto|].
      assert (HL0 : L = [] -> is_dir (sdent sn) = true).
      { intro EL. unfold L, landing in EL.
        destruct ((negb (o_dircontents o) && is_dir (sdent sn) && x_exists (X1 D)) || (negb (is_dir (sdent sn)) && x_isdir (X1 D))) eqn:Ec.
        - destruct (rev (rooted src)) as [|b t] eqn:Er; [|exfalso; revert EL; apply snoc_ne_nil].
          assert (rooted src = []) as Hr0 by (rewrite <- (rev_involutive (rooted src)), Er; auto).
          rewrite Hr0 in Eres. destruct Hsrc as [_ Hdir]. destruct sroot; simpl in Eres. inversion Eres; subst. auto.
        - subst D. rewrite Hr1 in Ec. destruct (is_dir (sdent sn)); auto.
          rewrite orb_false_iff in Ec. destruct Ec as [_ Ec]. discriminate. }
      split; [intro E0; split; auto; eapply make_dirs_mono; eauto|].
      split; [|rewrite !app_nil_r; auto].
      intro p. unfold res. change (landing o sn src D X1) with L. clearbody L.
      destruct L as [|l0 L0]; auto.
      rewrite (HL0 eq_refl), (make_dirs_mono o _ _ _ _ EM [] Hr1). auto. }
    destruct (ensure_arg dst) as [|c0 e0] eqn:Een.
    - destruct parse_of as [ms|] eqn:Ep; unfold parse_of in Ep; rewrite Ep; [|discriminate].
      destruct (overlay_srcs o sroot ms dst [src] (xview_of V0)) as [r0|] eqn:E0; [|discriminate].
      intro H; inversion H; subst r; clear H. cbn [xr_view xr_notifs xr_landings xr_merged xr_paths].
      destruct (Core _ [] ms r0 Hroot E0) as (sn & D & V1 & A1 & A2 & A3 & A4 & A4' & A5 & A6 & A7 & A8 & A9).
      exists (xview_of V0), [], ms, sn, D, V1. cbv zeta. spl; auto.
    - destruct (spec_resolve (xview_of V0) (c0 :: e0)) as [ep|] eqn:ESR; [|discriminate].
      destruct (make_dirs o [] ep (xview_of V0)) as [X1|] eqn:EM; [|discriminate].
      destruct parse_of as [ms|] eqn:Ep; unfold parse_of in Ep; rewrite Ep; [|discriminate].
      destruct (overlay_srcs o sroot ms dst [src] X1) as [r0|] eqn:E0; [|discriminate].
      intro H; inversion H; subst r; clear H. cbn [xr_view xr_notifs xr_landings xr_merged xr_paths].
      pose proof (make_dirs_mono o _ _ _ _ EM [] Hroot) as Hr1.
      destruct (Core _ (prefixes [] ep) ms r0 Hr1 E0) as (sn & D & V1 & A1 & A2 & A3 & A4 & A4' & A5 & A6 & A7 & A8 & A9).
      exists X1, (prefixes [] ep), ms, sn, D, V1. cbv zeta. spl; eauto.
      right. split; [discriminate|]. exists ep. auto.
  Qed.
End Single.

(* ------------------------------------------------------------------ notifications *)
(* destination paths of the non-directories of a source node, in copy order *)
Fixpoint nd_paths (p : list (list N)) (n : snode) {struct n} : list (list (list N)) :=
  match n with
  | SNode _ _ sd kids =>
    if is_dir sd then
      (fix go (l : list snode) : list (list (list N)) :=
         match l with [] => [] | k :: r => nd_paths (p ++ [sname k]) k ++ go r end) kids
    else [p]
  end.

Lemma filter_app_ {A} (f : A -> bool) l1 l2 : filter f (l1 ++ l2) = filter f l1 ++ filter f l2.
Proof. induction l1; simpl; auto. destruct (f a); simpl; rewrite IHl1; auto. Qed.

Lemma notifs_nondirs V : forall n top p,
  map fst (filter (fun pb => negb (snd pb)) (node_notifs V top p n)) = nd_paths p n.
Proof.
  induction n as [nm ino sd kids IH] using snode_ind2. intros top p. cbn [node_notifs nd_paths].
  destruct (is_dir sd); auto. rewrite filter_app_, map_app.
  assert (E : map fst (filter (fun pb : list (list N) * bool => negb (snd pb)) (if top && x_isdir (V p) then [] else [(p, true)])) = []).
  { destruct (top && x_isdir (V p)); auto. }
  rewrite E. simpl. induction kids as [|k r IHr]; auto. inversion IH as [|? ? Hk Hr]; subst.
  rewrite filter_app_, map_app, Hk, IHr; auto.
Qed.

Lemma find_kid_in_nodup l : NoDup (map sname l) -> forall k, In k l -> find_kid (sname k) l = Some k.
Proof.
  induction l as [|x r IH]; intros Hnd k Hin; [destruct Hin|]. simpl in Hnd. inversion Hnd as [|? ? Hni Hnd']; subst.
  simpl. destruct Hin as [->|Hin]; [rewrite bytes_eqb_refl; auto|].
  destruct (bytes_eqb (sname x) (sname k)) eqn:E; [|auto].
  apply bytes_eqb_eq in E. exfalso. apply Hni. rewrite E. apply in_map. auto.
Qed.

Lemma notifs_dirs V : forall n, wf_s n -> forall top p q, In (q, true) (node_notifs V top p n) ->
  exists rel s, q = p ++ rel /\ s_lookup n rel = Some s /\ is_dir (sdent s) = true.
Proof.
  induction n as [nm ino sd kids IH] using snode_ind2. intros Hwf top p q. cbn [node_notifs].
  apply wf_s_unfold in Hwf. destruct Hwf as (_ & _ & Hnd & Hall).
  destruct (is_dir sd) eqn:Hd; [|intros [H|[]]; inversion H].
  intro H. apply in_app_or in H. destruct H as [H|H].
  - destruct (top && x_isdir (V p)); [destruct H|]. destruct H as [H|[]]. inversion H; subst.
    exists [], (SNode nm ino sd kids). rewrite app_nil_r. auto.
  - assert (G : forall l, Forall wf_s l ->
                Forall (fun n => wf_s n -> forall top p q, In (q, true) (node_notifs V top p n) ->
                          exists rel s, q = p ++ rel /\ s_lookup n rel = Some s /\ is_dir (sdent s) = true) l ->
                In (q, true) ((fix go (l : list snode) := match l with [] => [] | k :: r => node_notifs V false (p ++ [sname k]) k ++ go r end) l) ->
                exists k rel s, In k l /\ q = (p ++ [sname k]) ++ rel /\ s_lookup k rel = Some s /\ is_dir (sdent s) = true).
    { induction l as [|k r IHr]; intros HW HF Hin; [destruct Hin|].
      inversion HF as [|? ? Hk Hr]; inversion HW as [|? ? Hw1 Hw2]; subst.
      apply in_app_or in Hin. destruct Hin as [Hin|Hin].
      - destruct (Hk Hw1 _ _ _ Hin) as (rel & s & A & B & C). exists k, rel, s. split; [left|]; auto.
      - destruct (IHr Hw2 Hr Hin) as (k' & rel & s & A & B). exists k', rel, s. split; [right|]; auto. }
    destruct (G kids Hall IH H) as (k & rel & s & A & B & C & D).
    exists (sname k :: rel), s. split; [rewrite B, <- app_assoc; auto|]. split; auto.
    cbn [s_lookup skids]. rewrite (find_kid_in_nodup _ Hnd _ A). auto.
Qed.

Lemma nd_paths_spec : forall n, wf_s n -> forall p q, In q (nd_paths p n) ->
  exists rel s, q = p ++ rel /\ s_lookup n rel = Some s /\ is_dir (sdent s) = false.
Proof.
  induction n as [nm ino sd kids IH] using snode_ind2. intros Hwf p q. cbn [nd_paths].
  apply wf_s_unfold in Hwf. destruct Hwf as (_ & _ & Hnd & Hall).
  destruct (is_dir sd) eqn:Hd.
  2:{ intros [<-|[]]. exists [], (SNode nm ino sd kids). rewrite app_nil_r. auto. }
  intro H.
  assert (G : forall l, Forall wf_s l ->
                Forall (fun n => wf_s n -> forall p q, In q (nd_paths p n) ->
                          exists rel s, q = p ++ rel /\ s_lookup n rel = Some s /\ is_dir (sdent s) = false) l ->
                In q ((fix go (l : list snode) := match l with [] => [] | k :: r => nd_paths (p ++ [sname k]) k ++ go r end) l) ->
                exists k rel s, In k l /\ q = (p ++ [sname k]) ++ rel /\ s_lookup k rel = Some s /\ is_dir (sdent s) = false).
  { induction l as [|k r IHr]; intros HW HF Hin; [destruct Hin|].
    inversion HF as [|? ? Hk Hr]; inversion HW as [|? ? Hw1 Hw2]; subst.
    apply in_app_or in Hin. destruct Hin as [Hin|Hin].
    - destruct (Hk Hw1 _ _ Hin) as (rel & s & A & B & C). exists k, rel, s. split; [left|]; auto.
    - destruct (IHr Hw2 Hr Hin) as (k' & rel & s & A & B). exists k', rel, s. split; [right|]; auto. }
  destruct (G kids Hall IH H) as (k & rel & s & A & B & C & D).
  exists (sname k :: rel), s. split; [rewrite B, <- app_assoc; auto|]. split; auto.
  cbn [s_lookup skids]. rewrite (find_kid_in_nodup _ Hnd _ A). auto.
Qed.

Lemma nd_paths_complete : forall n, wf_s n -> forall p rel s,
  s_lookup n rel = Some s -> is_dir (sdent s) = false -> In (p ++ rel) (nd_paths p n).
Proof.
  induction n as [nm ino sd kids IH] using snode_ind2. intros Hwf p rel s. cbn [nd_paths].
  apply wf_s_unfold in Hwf. destruct Hwf as (_ & Hk & Hnd & Hall).
  destruct rel as [|a rel].
  - simpl. intro H; inversion H; subst. cbn [sdent]. intros ->. rewrite app_nil_r. left; auto.
  - cbn [s_lookup skids]. destruct (find_kid a kids) as [k|] eqn:Ef; [|discriminate]. intros Hs Hd.
    destruct (is_dir sd) eqn:Hdd; [|rewrite (Hk eq_refl) in Ef; discriminate].
    pose proof (find_kid_in _ _ _ Ef) as Hin. pose proof (find_kid_name _ _ _ Ef) as Hn. subst a.
    rewrite Forall_forall in IH, Hall.
    pose proof (IH k Hin (Hall k Hin) (p ++ [sname k]) rel s Hs Hd) as Hi. rewrite <- app_assoc in Hi. simpl in Hi.
    clear - Hin Hi. induction kids as [|x r IHr]; [destruct Hin|].
    apply in_or_app. destruct Hin as [->|Hin]; auto.
Qed.

(* ------------------------------------------------------------------ C13 *)
Definition empty_dst (fs : fsys) : Prop := wf_fs fs /\ forall p, p <> [] -> names fs p = None.

(* every path the call may create above the target that lies below the landing path is a path of
   the source (false e.g. for dst = "a/x/.." with dir-contents: MkdirAll makes a/x, the copy lands in a) *)
Definition landing_clear (r : xres) (sn : snode) (L : list (list N)) : Prop :=
  forall rel, rel <> [] -> In (L ++ rel) (xr_paths r) -> s_lookup sn rel <> None.

Section C13.
  Variable o : copts.
  Variable sroot : snode.
  Hypothesis Hsrc : wf_src sroot.
  Hypothesis Hlc : links_consistent sroot.
  Notation multi := (multi_of sroot).

  Lemma res_at_source ms sn L V1 rel s :
    (L = [] -> is_dir (sdent sn) = true /\ x_isdir (V1 []) = true) ->
    s_lookup sn rel = Some s ->
    res o ms multi sn L true V1 (L ++ rel) =
    Some (copied o ms multi s (V1 (L ++ rel)) (match rel with [] => true | _ => false end) (L ++ rel)).
  Proof.
    intros HL Hs. unfold res.
    assert (E : ov o ms multi sn L true V1 (L ++ rel) =
                Some (copied o ms multi s (V1 (L ++ rel)) (match rel with [] => true | _ => false end) (L ++ rel))).
    { unfold ov. rewrite strip_prefix_app, Hs. auto. }
    destruct (path_snoc_cases L) as [->|(P & a & ->)].
    - destruct (HL eq_refl) as [-> ->]. auto.
    - destruct (_ && _); auto. rewrite parent_snoc, touch_other; auto. rewrite <- app_assoc. apply snoc_ne_self.
  Qed.

  Lemma res_at_nonsource ms sn L V1 rel :
    (L = [] -> is_dir (sdent sn) = true /\ x_isdir (V1 []) = true) ->
    s_lookup sn rel = None -> V1 (L ++ rel) = None ->
    res o ms multi sn L true V1 (L ++ rel) = None.
  Proof.
    intros HL Hs Hv. unfold res.
    assert (E : ov o ms multi sn L true V1 (L ++ rel) = None).
    { unfold ov. rewrite strip_prefix_app, Hs. destruct (shadowed sn rel); auto. }
    assert (rel <> []) by (intro; subst; destruct sn; discriminate).
    destruct (path_snoc_cases L) as [->|(P & a & ->)].
    - destruct (HL eq_refl) as [-> ->]. auto.
    - destruct (_ && _); auto. rewrite parent_snoc, touch_other; auto. rewrite <- app_assoc. apply snoc_ne_self.
  Qed.

  Lemma s_resolve_wf_src src sn : s_resolve sroot (rooted src) = inl sn -> wf_s sn.
  Proof. destruct Hsrc. eapply s_resolve_wf; eauto. Qed.

  Lemma s_lookup_wf : forall rel n s, wf_s n -> s_lookup n rel = Some s -> wf_s s.
  Proof.
    induction rel as [|a rel IH]; intros [nm ino d kids] s Hwf; simpl.
    - intro H; inversion H; subst; auto.
    - destruct (find_kid a kids) as [k|] eqn:E; [|discriminate]. apply IH.
      apply wf_s_unfold in Hwf. destruct Hwf as (_ & _ & _ & Hall).
      rewrite Forall_forall in Hall. apply Hall. eapply find_kid_in; eauto.
  Qed.
  Lemma wf_s_dent s : wf_s s -> wf_dent (sdent s).
  Proof. destruct s. intro H. apply wf_s_unfold in H. cbn [sdent]. tauto. Qed.

  (* C13: into an empty destination the tree below the landing path is the source tree *)
  Theorem copy_into_empty_faithful_partial_proof fs src dst r ms sn L m :
    o_wild o = false -> empty_dst fs ->
    overlay_all o sroot (view_of_fs fs) src dst = inl r ->
    parse_of o = Some ms -> s_resolve sroot (rooted src) = inl sn ->
    xr_landings r = [L] -> xr_merged r = [m] -> landing_clear r sn L ->
    exists st', copy_top o sel_all sroot fs src dst = (st', None) /\
                forall rel, iso_at o ms m sn L (view_of_fs (c_fs st')) rel = true.
  Proof.
    intros Hw (Hfs & Hemp) Eo Hp Hs HL Hm Hclear.
    destruct (copy_overlay_partial_proof o sroot Hsrc Hlc (or_intror Hw) fs src dst r Hfs Eo) as (st' & E1 & (VM & _) & _).
    exists st'. split; auto.
    destruct (inv_init o fs Hfs) as (_ & Hroot & _).
    destruct (overlay_all_single o sroot Hsrc _ src dst r Hw Hroot Eo)
      as (X1 & eps & ms' & sn' & D & V1 & B1 & B2 & B3 & B4 & B5 & B6 & B7 & B8 & B9 & B10 & B11 & B12).
    rewrite Hp in B2. inversion B2; subst ms'. rewrite Hs in B3. inversion B3; subst sn'.
    rewrite HL in B10. inversion B10 as [HL']. rewrite <- HL' in *. clear HL'.
    rewrite Hm in B11. inversion B11 as [Hm']. clear B10 B11.
    set (target := if o_dircontents o && is_dir (sdent sn) && negb (x_exists (X1 D)) then L else parent L) in *.
    set (X0 := xview_of (view_of_fs fs)) in *.
    assert (H0 : forall p e, X0 p = Some e -> p = []).
    { intros p e. unfold X0, xview_of, view_of_fs. destruct (path_dec p []) as [->|Hn]; auto.
      rewrite (Hemp p Hn). discriminate. }
    assert (H1 : forall p e, X1 p = Some e -> p = [] \/ fresh_dir_like (x_d e)).
    { destruct B1 as [(_ & -> & _)|(_ & ep & _ & EM & _)]; intros p e Hpe.
      - left. eapply H0; eauto.
      - destruct (make_dirs_shape _ _ _ _ _ EM p e Hpe) as [(e0 & A & _)|F]; auto. left. eapply H0; eauto. }
    assert (H2 : forall p e, V1 p = Some e -> p = [] \/ fresh_dir_like (x_d e)).
    { intros p e Hpe. destruct (make_dirs_shape _ _ _ _ _ B5 p e Hpe) as [(e0 & A & B)|F]; auto.
      rewrite <- B. eapply H1; eauto. }
    assert (D1 : forall p, X1 p <> None -> p = [] \/ In p eps).
    { destruct B1 as [(_ & -> & ->)|(_ & ep & _ & EM & ->)]; intros p Hpn.
      - left. destruct (X0 p) eqn:E; [eapply H0; eauto|congruence].
      - destruct (make_dirs_dom _ _ _ _ _ EM p Hpn) as [A|A]; auto.
        left. destruct (X0 p) eqn:E; [eapply H0; eauto|congruence]. }
    assert (D2 : forall p, V1 p <> None -> p = [] \/ In p (xr_paths r)).
    { intros p Hpn. rewrite B12. destruct (make_dirs_dom _ _ _ _ _ B5 p Hpn) as [A|A].
      - destruct (D1 p A); auto. right. apply in_or_app. auto.
      - right. apply in_or_app. right. apply in_or_app. auto. }
    pose proof (s_resolve_wf_src _ _ Hs) as Hwfn.
    intro rel. unfold iso_at.
    pose proof (VM (L ++ rel)) as Hma. unfold match_at in Hma. rewrite B8 in Hma.
    destruct (s_lookup sn rel) as [s|] eqn:Es.
    - rewrite (res_at_source ms sn L V1 rel s B7 Es) in Hma.
      destruct (view_of_fs (c_fs st') (L ++ rel)) as [[i d]|]; [|discriminate].
      destruct (dent_match_dm o _ _ Hma) as (Hdm & Hk).
      pose proof (wf_s_dent _ (s_lookup_wf _ _ _ Hwfn Es)) as Hwd.
      unfold copied in Hdm, Hk.
      destruct (V1 (L ++ rel)) as [e|] eqn:EV.
      + destruct (is_dir (sdent s) && is_dir (x_d e)) eqn:Eb.
        * apply andb_true_iff in Eb as [Ed Ed'].
          destruct rel as [|a rel].
          -- (* the landing directory itself, merged *)
             simpl in Es. inversion Es; subst s. rewrite app_nil_r in *.
             unfold x_isdir. rewrite EV, Ed, Ed'. cbn [andb].
             unfold faithful_top_merged. cbn [x_d x_known] in *. rewrite (Hk eq_refl). cbn [set_mtime d_mtime].
             rewrite N.eqb_refl, andb_true_r. destruct Hdm as (Hmode & _).
             rewrite (is_dir_ftype d (set_mtime (info_time o (sdent sn)) (x_d e))); auto. apply ftype_mode; auto.
          -- destruct (H2 _ _ EV) as [E0|F]; [exfalso; destruct L; discriminate|].
             eapply faithful_merged_fresh; eauto.
        * assert (Hf : faithful_dent o ms (sdent s) d = true) by (eapply faithful_new_entry; eauto; apply Hk; auto).
          destruct rel; auto. simpl in Es. inversion Es; subst s. rewrite app_nil_r in *.
          unfold x_isdir. rewrite EV. destruct (is_dir (sdent sn)); auto. cbn [andb] in *. rewrite Eb. auto.
      + assert (Hf : faithful_dent o ms (sdent s) d = true) by (eapply faithful_new_entry; eauto; apply Hk; auto).
        destruct rel; auto. simpl in Es. inversion Es; subst s. rewrite app_nil_r in *.
        unfold x_isdir. rewrite EV, andb_false_r. auto.
    - assert (Hrel : rel <> []) by (intro; subst; destruct sn; discriminate).
      assert (EV : V1 (L ++ rel) = None).
      { destruct (V1 (L ++ rel)) eqn:E; auto. exfalso.
        destruct (D2 (L ++ rel)) as [E0|Hin]; [congruence| |].
        - apply app_eq_nil in E0 as [_ E0]. auto.
        - apply (Hclear rel Hrel Hin). auto. }
      rewrite (res_at_nonsource ms sn L V1 rel B7 Es EV) in Hma.
      destruct (view_of_fs (c_fs st') (L ++ rel)) as [[i d]|]; [discriminate|auto].
  Qed.

  (* C13: every copied entry carries the requested owner, mode and time; directories made above
     the target carry the requested owner and time *)
  Theorem copy_options_applied_partial_proof fs src dst r ms sn L m :
    o_wild o = false -> wf_fs fs ->
    overlay_all o sroot (view_of_fs fs) src dst = inl r ->
    parse_of o = Some ms -> s_resolve sroot (rooted src) = inl sn ->
    xr_landings r = [L] -> xr_merged r = [m] ->
    exists st', copy_top o sel_all sroot fs src dst = (st', None) /\
      (forall rel s, s_lookup sn rel = Some s -> (rel = [] -> m = false) ->
         exists i d, view_of_fs (c_fs st') (L ++ rel) = Some (i, d) /\
           d_uid d = fst (info_owner o (sdent s)) /\ d_gid d = snd (info_owner o (sdent s)) /\
           (is_lnk (sdent s) = false -> perm12 d = info_mode o ms (sdent s)) /\
           d_mtime d = info_time o (sdent s) /\ ftype d = copy_type (sdent s)) /\
      (forall p e, xr_view r p = Some e -> x_mk e = true ->
         exists i d, view_of_fs (c_fs st') p = Some (i, d) /\
           (forall u g, o_chown o = Some (u, g) -> d_uid d = u /\ d_gid d = g) /\
           (forall t, o_utime o = Some t -> d_mtime d = t)).
  Proof.
    intros Hw Hfs Eo Hp Hs HL Hm.
    destruct (top o sroot Hsrc Hlc (or_intror Hw) fs src dst Hfs) as (sdof & HT). rewrite Eo in HT.
    destruct HT as (st' & E1 & I & S & _ & MT & (cr & Hg) & _).
    exists st'. split; auto.
    destruct (inv_init o fs Hfs) as (_ & Hroot & _).
    destruct (overlay_all_single o sroot Hsrc _ src dst r Hw Hroot Eo)
      as (X1 & eps & ms' & sn' & D & V1 & B1 & B2 & B3 & B4 & B5 & B6 & B7 & B8 & B9 & B10 & B11 & B12).
    rewrite Hp in B2. inversion B2; subst ms'. rewrite Hs in B3. inversion B3; subst sn'.
    rewrite HL in B10. inversion B10 as [HL']. rewrite <- HL' in *. clear HL'.
    rewrite Hm in B11. inversion B11 as [Hm']. clear B10 B11.
    split.
    - intros rel s Es Htop.
      pose proof (B8 (L ++ rel)) as Ex. rewrite (res_at_source ms sn L V1 rel s B7 Es) in Ex.
      destruct (inv_x_some _ _ _ _ _ I Ex) as (i & Hi & Hdm & _).
      exists i, (inodes (c_fs st') i). split; [unfold view_of_fs; rewrite Hi; auto|].
      eapply (copied_options o ms multi s (V1 (L ++ rel)) (match rel with [] => true | _ => false end)); eauto.
      destruct rel; [|discriminate]. intros _. simpl in Es. inversion Es; subst s. rewrite app_nil_r.
      specialize (Htop eq_refl). unfold x_isdir in Htop. destruct (V1 L); auto.
    - intros p e Hpe Hmk. destruct (inv_x_some _ _ _ _ _ I Hpe) as (i & Hi & Hdm & _).
      exists i, (inodes (c_fs st') i). split; [unfold view_of_fs; rewrite Hi; auto|].
      pose proof (Hg p) as Hgp. unfold Gp in Hgp. rewrite Hpe in Hgp. destruct Hgp as [G1 G2].
      destruct (G2 (G1 Hmk)) as (_ & _ & K2). destruct Hdm as (_ & A2 & A3 & _). split.
      + intros u g Hc. destruct (K2 u g Hc). split; congruence.
      + intros t Ht. eapply MT; eauto.
  Qed.

  (* C13: the change notifier is called exactly once for every non-directory written, with its
     destination path (and for directories only with paths of source directories) *)
  Theorem notifier_exact_partial_proof fs src dst r ms sn L :
    o_wild o = false -> wf_fs fs ->
    overlay_all o sroot (view_of_fs fs) src dst = inl r ->
    parse_of o = Some ms -> s_resolve sroot (rooted src) = inl sn -> xr_landings r = [L] ->
    exists st', copy_top o sel_all sroot fs src dst = (st', None) /\
      map fst (filter (fun pb => negb (snd pb)) (rev (c_notifs st'))) = nd_paths L sn /\
      (forall q, In q (nd_paths L sn) <->
                 exists rel s, q = L ++ rel /\ s_lookup sn rel = Some s /\ is_dir (sdent s) = false) /\
      (forall q, In (q, true) (rev (c_notifs st')) ->
                 exists rel s, q = L ++ rel /\ s_lookup sn rel = Some s /\ is_dir (sdent s) = true).
  Proof.
    intros Hw Hfs Eo Hp Hs HL.
    destruct (copy_overlay_partial_proof o sroot Hsrc Hlc (or_intror Hw) fs src dst r Hfs Eo) as (st' & E1 & _ & EN).
    exists st'. split; auto.
    destruct (inv_init o fs Hfs) as (_ & Hroot & _).
    destruct (overlay_all_single o sroot Hsrc _ src dst r Hw Hroot Eo)
      as (X1 & eps & ms' & sn' & D & V1 & B1 & B2 & B3 & B4 & B5 & B6 & B7 & B8 & B9 & B10 & B11 & B12).
    rewrite Hs in B3. inversion B3; subst sn'.
    rewrite HL in B10. inversion B10 as [HL']. rewrite <- HL' in *. clear HL'.
    pose proof (s_resolve_wf_src _ _ Hs) as Hwfn.
    rewrite EN, B9. split; [apply notifs_nondirs|]. split.
    - intro q. split.
      + apply nd_paths_spec; auto.
      + intros (rel & s & -> & A & B). eapply nd_paths_complete; eauto.
    - intros q. apply notifs_dirs; auto.
  Qed.
End C13.

Lemma copied_known' o ms multi s old top p : x_known (copied o ms multi s old top p) = true.
Proof.
  unfold copied, new_entry. destruct old as [e|]; auto.
  destruct (is_dir (sdent s) && is_dir (x_d e)); auto. destruct top; auto.
Qed.

(* ------------------------------------------------------------------ C15: always-replace, the source wins *)
Section Wins.
  Variable o : copts.
  Variable sroot : snode.
  Hypothesis Hsrc : wf_src sroot.
  Hypothesis Hlc : links_consistent sroot.
  Notation multi := (multi_of sroot).

  Lemma faithful_ftype ms sd d : faithful_dent o ms sd d = true -> ftype d = copy_type sd.
  Proof.
    unfold faithful_dent. intro H. repeat (apply andb_true_iff in H as [H _]). apply N.eqb_eq. auto.
  Qed.

  (* after a successful copy every source entry is at its destination path with the source's
     type; a source non-directory is there as a faithful copy, whatever was there before *)
  Theorem source_entries_present_partial_proof fs src dst r ms sn L :
    o_wild o = false -> wf_fs fs ->
    overlay_all o sroot (view_of_fs fs) src dst = inl r ->
    parse_of o = Some ms -> s_resolve sroot (rooted src) = inl sn -> xr_landings r = [L] ->
    exists st', copy_top o sel_all sroot fs src dst = (st', None) /\
      forall rel s, s_lookup sn rel = Some s ->
        exists i d, view_of_fs (c_fs st') (L ++ rel) = Some (i, d) /\ ftype d = copy_type (sdent s) /\
                    (is_dir (sdent s) = false -> faithful_dent o ms (sdent s) d = true).
  Proof.
    intros Hw Hfs Eo Hp Hs HL.
    destruct (top o sroot Hsrc Hlc (or_intror Hw) fs src dst Hfs) as (sdof & HT). rewrite Eo in HT.
    destruct HT as (st' & E1 & I & S & _).
    exists st'. split; auto.
    destruct (inv_init o fs Hfs) as (_ & Hroot & _).
    destruct (overlay_all_single o sroot Hsrc _ src dst r Hw Hroot Eo)
      as (X1 & eps & ms' & sn' & D & V1 & B1 & B2 & B3 & B4 & B5 & B6 & B7 & B8 & B9 & B10 & B11 & B12).
    rewrite Hp in B2. inversion B2; subst ms'. rewrite Hs in B3. inversion B3; subst sn'.
    rewrite HL in B10. inversion B10 as [HL']. rewrite <- HL' in *. clear HL' B10.
    intros rel s Es.
    pose proof (B8 (L ++ rel)) as Ex. rewrite (res_at_source o sroot ms sn L V1 rel s B7 Es) in Ex.
    destruct (inv_x_some _ _ _ _ _ I Ex) as (i & Hi & Hdm & _).
    exists i, (inodes (c_fs st') i). split; [unfold view_of_fs; rewrite Hi; auto|].
    pose proof (S _ _ _ Hi Ex (copied_known' _ _ _ _ _ _ _)) as Ht.
    unfold copied in Hdm, Ht.
    destruct (V1 (L ++ rel)) as [e|] eqn:EV.
    - destruct (is_dir (sdent s) && is_dir (x_d e)) eqn:Eb.
      + apply andb_true_iff in Eb as [Ed Ed']. split; [|congruence].
        destruct (type_facts (sdent s)) as (_ & _ & TD). destruct (TD Ed) as (_ & _ & _ & _ & C5). rewrite C5.
        unfold is_dir in Ed'. apply N.eqb_eq in Ed'. rewrite <- Ed'. destruct Hdm as (Hm & _).
        destruct (match rel with [] => true | _ :: _ => false end); cbn [x_d] in Hm.
        * apply ftype_mode; auto.
        * rewrite (ftype_mode _ _ Hm). unfold merged_d. rewrite ftype_set_xattrs, ftype_set_mtime, ftype_set_perm. reflexivity.
      + assert (Hf : faithful_dent o ms (sdent s) (inodes (c_fs st') i) = true) by (eapply faithful_new_entry; eauto).
        split; auto. eapply faithful_ftype; eauto.
    - assert (Hf : faithful_dent o ms (sdent s) (inodes (c_fs st') i) = true) by (eapply faithful_new_entry; eauto).
      split; auto. eapply faithful_ftype; eauto.
  Qed.

  Theorem always_replace_source_wins_partial_proof fs src dst ms sn :
    o_replace o = true -> o_wild o = false -> wf_fs fs ->
    parse_of o = Some ms -> s_resolve sroot (rooted src) = inl sn ->
    (forall cls p bef, overlay_all o sroot (view_of_fs fs) src dst <> inr (XConflict cls p bef)) /\
    (forall r L, overlay_all o sroot (view_of_fs fs) src dst = inl r -> xr_landings r = [L] ->
       exists st', copy_top o sel_all sroot fs src dst = (st', None) /\
         forall rel s, s_lookup sn rel = Some s ->
           exists i d, view_of_fs (c_fs st') (L ++ rel) = Some (i, d) /\ ftype d = copy_type (sdent s) /\
                       (is_dir (sdent s) = false -> faithful_dent o ms (sdent s) d = true)).
  Proof.
    intros Hr Hw Hfs Hp Hs. split.
    - intros cls p bef. apply always_replace_never_conflicts_proof; auto.
    - intros r L Eo HL. eapply source_entries_present_partial_proof; eauto.
  Qed.
End Wins.

(* ------------------------------------------------------------------ the inode partition *)
Lemma count_N_app i l1 l2 : count_N i (l1 ++ l2) = (count_N i l1 + count_N i l2)%nat.
Proof. induction l1 as [|j r IH]; simpl; auto. destruct (N.eqb i j); simpl; rewrite IH; auto. Qed.

Fixpoint kids_inos (l : list snode) : list N := match l with [] => [] | k :: r => s_inos k ++ kids_inos r end.
Lemma s_inos_unfold nm i d kids : s_inos (SNode nm i d kids) = (if is_dir d then [] else [i]) ++ kids_inos kids.
Proof. cbn [s_inos]. f_equal. Qed.

Lemma count_kid i k l : In k l -> (count_N i (s_inos k) <= count_N i (kids_inos l))%nat.
Proof.
  induction l as [|x r IH]; [intros []|]. intros [->|H]; simpl; rewrite count_N_app; [lia|]. specialize (IH H). lia.
Qed.
Lemma count_two_kids i k1 k2 l : In k1 l -> In k2 l -> sname k1 <> sname k2 ->
  (count_N i (s_inos k1) + count_N i (s_inos k2) <= count_N i (kids_inos l))%nat.
Proof.
  induction l as [|x r IH]; intros H1 H2 Hne; [destruct H1|]. simpl. rewrite count_N_app.
  destruct H1 as [->|H1], H2 as [->|H2]; try congruence.
  - pose proof (count_kid i k2 r H2). lia.
  - pose proof (count_kid i k1 r H1). lia.
  - specialize (IH H1 H2 Hne). lia.
Qed.

Lemma count_one : forall r n s, s_lookup n r = Some s -> is_dir (sdent s) = false ->
  (1 <= count_N (sino s) (s_inos n))%nat.
Proof.
  induction r as [|a r IH]; intros [nm i d kids] s.
  - cbn [s_lookup]. intro H; inversion H; subst. cbn [sdent sino]. intros Hd. rewrite s_inos_unfold, Hd. simpl. rewrite N.eqb_refl. lia.
  - cbn [s_lookup skids]. destruct (find_kid a kids) as [k|] eqn:E; [|discriminate]. intros Hs Hd.
    rewrite s_inos_unfold, count_N_app. pose proof (IH k s Hs Hd). pose proof (count_kid (sino s) k kids (find_kid_in _ _ _ E)). lia.
Qed.

Lemma count_two : forall n, wf_s n -> forall r1 r2 s1 s2, r1 <> r2 ->
  s_lookup n r1 = Some s1 -> s_lookup n r2 = Some s2 ->
  is_dir (sdent s1) = false -> is_dir (sdent s2) = false -> sino s1 = sino s2 ->
  (2 <= count_N (sino s1) (s_inos n))%nat.
Proof.
  induction n as [nm i d kids IH] using snode_ind2. intros Hwf r1 r2 s1 s2 Hne H1 H2 Hd1 Hd2 Hi.
  apply wf_s_unfold in Hwf. destruct Hwf as (_ & Hk & Hnd & Hall).
  destruct r1 as [|a1 t1], r2 as [|a2 t2]; try congruence.
  - simpl in H1. inversion H1; subst s1. cbn [sdent] in Hd1. rewrite (Hk Hd1) in H2. simpl in H2. discriminate.
  - simpl in H2. inversion H2; subst s2. cbn [sdent] in Hd2. rewrite (Hk Hd2) in H1. simpl in H1. discriminate.
  - cbn [s_lookup skids] in H1, H2.
    destruct (find_kid a1 kids) as [k1|] eqn:E1; [|discriminate].
    destruct (find_kid a2 kids) as [k2|] eqn:E2; [|discriminate].
    rewrite s_inos_unfold, count_N_app.
    destruct (list_eq_dec N.eq_dec a1 a2) as [->|Hna].
    + rewrite E1 in E2. inversion E2; subst k2.
      rewrite Forall_forall in IH, Hall. pose proof (find_kid_in _ _ _ E1) as Hin.
      assert (t1 <> t2) by congruence.
      pose proof (IH k1 Hin (Hall k1 Hin) t1 t2 s1 s2 H H1 H2 Hd1 Hd2 Hi).
      pose proof (count_kid (sino s1) k1 kids Hin). lia.
    + pose proof (count_one _ _ _ H1 Hd1). pose proof (count_one _ _ _ H2 Hd2). rewrite <- Hi in H0.
      pose proof (count_two_kids (sino s1) k1 k2 kids (find_kid_in _ _ _ E1) (find_kid_in _ _ _ E2)).
      rewrite (find_kid_name _ _ _ E1), (find_kid_name _ _ _ E2) in H3. specialize (H3 Hna). lia.
Qed.

Lemma count_resolve i : forall p n sn, s_resolve n p = inl sn -> (count_N i (s_inos sn) <= count_N i (s_inos n))%nat.
Proof.
  induction p as [|a p IH]; intros [nm j d kids] sn; cbn [s_resolve sdent skids].
  - intro H; inversion H; subst. lia.
  - destruct (is_dir d); [|discriminate]. destruct (find_kid a kids) as [k|] eqn:E; [|discriminate]. intro H.
    specialize (IH _ _ H). rewrite s_inos_unfold, count_N_app.
    pose proof (count_kid i k kids (find_kid_in _ _ _ E)). lia.
Qed.

Lemma multi_of_two sroot p sn r1 r2 s1 s2 :
  s_resolve sroot p = inl sn -> wf_s sn -> r1 <> r2 ->
  s_lookup sn r1 = Some s1 -> s_lookup sn r2 = Some s2 ->
  is_dir (sdent s1) = false -> is_dir (sdent s2) = false -> sino s1 = sino s2 ->
  multi_of sroot (sino s1) = true.
Proof.
  intros Hr Hwf Hne H1 H2 Hd1 Hd2 Hi.
  pose proof (count_two sn Hwf r1 r2 s1 s2 Hne H1 H2 Hd1 Hd2 Hi).
  pose proof (count_resolve (sino s1) _ _ _ Hr). unfold multi_of.
  destruct (count_N (sino s1) (s_inos sroot)) as [|[|n]]; try lia; auto.
Qed.

Lemma new_entry_key_gen o ms multi s T :
  x_key (new_entry o ms multi s T) = if is_reg (sdent s) && multi (sino s) then KSrc (sino s) else KNew T.
Proof. reflexivity. Qed.

Section C13Full.
  Variable o : copts.
  Variable sroot : snode.
  Hypothesis Hsrc : wf_src sroot.
  Hypothesis Hlc : links_consistent sroot.
  Notation multi := (multi_of sroot).

  (* C13: into an empty destination the tree below the landing path is the source tree,
     including the inode partition of the regular files (link groups are reproduced) *)
  Theorem copy_into_empty_faithful_proof fs src dst r ms sn L m :
    o_wild o = false -> empty_dst fs ->
    overlay_all o sroot (view_of_fs fs) src dst = inl r ->
    parse_of o = Some ms -> s_resolve sroot (rooted src) = inl sn ->
    xr_landings r = [L] -> xr_merged r = [m] -> landing_clear r sn L ->
    exists st', copy_top o sel_all sroot fs src dst = (st', None) /\
                tree_iso o ms m sn L (view_of_fs (c_fs st')).
  Proof.
    intros Hw Hemp Eo Hp Hs HL Hm Hclear.
    destruct (copy_into_empty_faithful_partial_proof o sroot Hsrc Hlc fs src dst r ms sn L m Hw Hemp Eo Hp Hs HL Hm Hclear)
      as (st' & E1 & Hiso).
    exists st'. split; auto. split; auto.
    destruct Hemp as (Hfs & _).
    destruct (copy_overlay_partial_proof o sroot Hsrc Hlc (or_intror Hw) fs src dst r Hfs Eo) as (st'' & E1' & (VM & VK) & _).
    rewrite E1 in E1'. inversion E1'; subst st''. clear E1'.
    destruct (inv_init o fs Hfs) as (_ & Hroot & _).
    destruct (overlay_all_single o sroot Hsrc _ src dst r Hw Hroot Eo)
      as (X1 & eps & ms' & sn' & D & V1 & B1 & B2 & B3 & B4 & B5 & B6 & B7 & B8 & B9 & B10 & B11 & B12).
    rewrite Hp in B2. inversion B2; subst ms'. rewrite Hs in B3. inversion B3; subst sn'.
    rewrite HL in B10. inversion B10 as [HL']. rewrite <- HL' in *. clear HL' B10.
    pose proof (s_resolve_wf_src sroot Hsrc _ _ Hs) as Hwfn.
    intros r1 r2. unfold part_at.
    destruct (s_lookup sn r1) as [s1|] eqn:E1s; auto. destruct (s_lookup sn r2) as [s2|] eqn:E2s; auto.
    destruct (view_of_fs (c_fs st') (L ++ r1)) as [[i1 d1]|] eqn:EV1; auto.
    destruct (view_of_fs (c_fs st') (L ++ r2)) as [[i2 d2]|] eqn:EV2; auto.
    destruct (is_reg (sdent s1) && is_reg (sdent s2)) eqn:Ereg; auto.
    apply andb_true_iff in Ereg as [Er1 Er2].
    pose proof (VK (L ++ r1) (L ++ r2)) as HK. unfold keys_at in HK. rewrite EV1, EV2, !B8 in HK.
    rewrite (res_at_source o sroot ms sn L V1 r1 s1 B7 E1s), (res_at_source o sroot ms sn L V1 r2 s2 B7 E2s) in HK.
    pose proof (VM (L ++ r1)) as HM1. unfold match_at in HM1. rewrite EV1, B8, (res_at_source o sroot ms sn L V1 r1 s1 B7 E1s) in HM1.
    pose proof (VM (L ++ r2)) as HM2. unfold match_at in HM2. rewrite EV2, B8, (res_at_source o sroot ms sn L V1 r2 s2 B7 E2s) in HM2.
    destruct (type_facts (sdent s1)) as (TR1 & _). destruct (TR1 Er1) as (_ & _ & C1).
    destruct (type_facts (sdent s2)) as (TR2 & _). destruct (TR2 Er2) as (_ & _ & C2).
    assert (Nd1 : is_dir (sdent s1) = false) by (unfold is_dir; unfold is_reg in Er1; apply N.eqb_eq in Er1; rewrite Er1; reflexivity).
    assert (Nd2 : is_dir (sdent s2) = false) by (unfold is_dir; unfold is_reg in Er2; apply N.eqb_eq in Er2; rewrite Er2; reflexivity).
    assert (Ec1 : forall old top p, copied o ms multi s1 old top p = new_entry o ms multi s1 p).
    { intros old top p. unfold copied. rewrite Nd1. destruct old; auto. }
    assert (Ec2 : forall old top p, copied o ms multi s2 old top p = new_entry o ms multi s2 p).
    { intros old top p. unfold copied. rewrite Nd2. destruct old; auto. }
    rewrite Ec1 in HK, HM1. rewrite Ec2 in HK, HM2.
    assert (Hd1 : is_dir d1 = false).
    { destruct (dent_match_dm o _ _ HM1) as (Hdm & _). rewrite (dm_is_dir _ _ _ Hdm), new_entry_d. apply ne_d_nondir; auto. }
    assert (Hd2 : is_dir d2 = false).
    { destruct (dent_match_dm o _ _ HM2) as (Hdm & _). rewrite (dm_is_dir _ _ _ Hdm), new_entry_d. apply ne_d_nondir; auto. }
    rewrite Hd1, Hd2 in HK. cbn [orb] in HK.
    rewrite !new_entry_key_gen, Er1, Er2 in HK. cbn [andb] in HK.
    apply Bool.eqb_prop in HK. rewrite HK. clear HK.
    destruct (multi (sino s1)) eqn:M1, (multi (sino s2)) eqn:M2; cbn [ikey_eqb].
    - destruct (N.eqb (sino s1) (sino s2)); reflexivity.
    - destruct (N.eqb (sino s1) (sino s2)) eqn:E; auto. apply N.eqb_eq in E. rewrite E in M1. congruence.
    - destruct (N.eqb (sino s1) (sino s2)) eqn:E; auto. apply N.eqb_eq in E. rewrite E in M1. congruence.
    - destruct (path_eqb (L ++ r1) (L ++ r2)) eqn:Ep.
      + apply path_eqb_eq in Ep. apply app_inv_head in Ep. subst r2. rewrite E1s in E2s. inversion E2s; subst.
        rewrite N.eqb_refl. reflexivity.
      + destruct (N.eqb (sino s1) (sino s2)) eqn:E; auto. apply N.eqb_eq in E. exfalso.
        assert (r1 <> r2) by (intro; subst; rewrite path_eqb_refl in Ep; discriminate).
        rewrite (multi_of_two sroot _ sn r1 r2 s1 s2 Hs Hwfn H E1s E2s Nd1 Nd2 E) in M1. discriminate.
  Qed.
End C13Full.
