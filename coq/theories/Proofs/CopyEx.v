(* C13 / C15 — concrete trees and file systems for the non-vacuity examples of the property
   files (definitions and the well-formedness of the examples only). *)
From Coq Require Import List NArith Bool Lia.
From FS Require Import Sx Model.Path Model.SymMode Model.Copier Model.CopySpec Proofs.Lex
  Proofs.CopierP Proofs.CopyOpsP Proofs.CopyNodeP Proofs.CopyTopP Proofs.CopyThmP.
Import ListNotations.
Open Scope N_scope.
Open Scope bool_scope.

Definition exd (mode uid gid mtime : N) (tg : list N) (x : list (list N * list N)) (ct : list N) : dent :=
  {| d_mode := mode; d_uid := uid; d_gid := gid; d_mtime := mtime; d_rdev := 0; d_target := tg;
     d_xattrs := x; d_content := ct |}.
Definition ex_rootd : dent := exd (S_IFDIR + 493) 0 0 1500 [] [] [].

Definition n_a : list N := [97].  Definition n_d : list N := [100]. Definition n_f : list N := [102].
Definition n_g : list N := [103]. Definition n_l : list N := [108]. Definition n_p : list N := [112].
Definition n_x : list N := [120]. Definition n_y : list N := [121].
Definition s_slash : list N := [47].

(* source:  d/ (02755 7:8, xattr u=\001)  d/f (0640 "hi")  d/l -> f   p (fifo) *)
Definition ex_src : snode :=
  SNode [] 0 ex_rootd
    [ SNode n_d 1 (exd (S_IFDIR + 1517) 7 8 1000 [] [([117], [1])] [])
        [ SNode n_f 2 (exd (S_IFREG + 416) 7 9 5000000001 [] [] [104; 105]) [];
          SNode n_l 3 (exd (S_IFLNK + 511) 0 0 77 n_f [] []) [] ];
      SNode n_p 4 (exd (S_IFIFO + 420) 1 1 9 [] [] []) [] ].

(* a source with a link group:  d/f, d/g and h are three names of inode 7 *)
Definition ex_lnkd : dent := exd (S_IFREG + 416) 7 9 5000000001 [] [([117], [1])] [104; 105].
Definition n_h : list N := [104].
Definition ex_src_links : snode :=
  SNode [] 0 ex_rootd
    [ SNode n_d 1 (exd (S_IFDIR + 493) 0 0 1000 [] [] [])
        [ SNode n_f 7 ex_lnkd []; SNode n_g 7 ex_lnkd []; SNode n_x 8 (exd (S_IFREG + 420) 0 0 3 [] [] [120]) [] ];
      SNode n_h 7 ex_lnkd [] ].

(* what is put into the destination first:  d/ (0700)  d/f/ (a DIRECTORY)  d/f/x  d/g ("old") *)
Definition ex_dsttree : snode :=
  SNode [] 0 ex_rootd
    [ SNode n_d 1 (exd (S_IFDIR + 448) 0 0 2000 [] [([97], [2])] [])
        [ SNode n_f 2 (exd (S_IFDIR + 493) 0 0 2001 [] [] [])
            [ SNode n_x 3 (exd (S_IFREG + 420) 0 0 2002 [] [] [120]) [] ];
          SNode n_g 4 (exd (S_IFREG + 420) 0 0 2003 [] [] [111; 108; 100]) [] ] ].

Definition fs_empty : fsys :=
  {| names := fun p => match p with [] => Some 0 | _ => None end; inodes := fun _ => ex_rootd; next := 1; dom := [[]] |}.

Definition o_plain : copts :=
  {| o_chown := None; o_mode := None; o_modestr := []; o_utime := None; o_dircontents := false;
     o_replace := false; o_wild := false; o_umask := 18 |}.
Definition o_replace_on : copts :=
  {| o_chown := None; o_mode := None; o_modestr := []; o_utime := None; o_dircontents := false;
     o_replace := true; o_wild := false; o_umask := 18 |}.
(* chown 100:200, mode 0700, utime 42 *)
Definition o_all : copts :=
  {| o_chown := Some (100, 200); o_mode := Some 448; o_modestr := []; o_utime := Some 42; o_dircontents := false;
     o_replace := false; o_wild := false; o_umask := 18 |}.
Definition o_dc : copts :=
  {| o_chown := None; o_mode := None; o_modestr := []; o_utime := None; o_dircontents := true;
     o_replace := false; o_wild := false; o_umask := 18 |}.

(* the populated destination: ex_dsttree copied into the empty file system *)
Definition ex_dst : fsys := c_fs (fst (copy_top o_plain sel_all ex_dsttree fs_empty [] s_slash)).

Lemma fs_empty_wf : wf_fs fs_empty.
Proof.
  unfold wf_fs, fs_empty; simpl. split; [|split; [|split]].
  - intros [|? ?] i H; inversion H; subst; reflexivity.
  - intros p a i H. destruct p; simpl in H; discriminate.
  - intros [|? ?] [|? ?] i H1 H2 _; try discriminate. auto.
  - exists 0. split; reflexivity.
Qed.
Lemma fs_empty_empty : forall p, p <> [] -> names fs_empty p = None.
Proof. intros [|? ?] H; [congruence|reflexivity]. Qed.

Ltac hyp_compute := let H := fresh in intro H; vm_compute in H; first [discriminate H | vm_compute; reflexivity | (exfalso; revert H; simpl; intuition discriminate)].
Ltac wf_dent_tac :=
  unfold wf_dent; split; [hyp_compute|]; split; [hyp_compute|]; split; [hyp_compute|];
  simpl; repeat split; repeat constructor.
Ltac wf_node :=
  apply wf_s_unfold; split; [wf_dent_tac|];
  split; [first [reflexivity|hyp_compute]|];
  split; [simpl; repeat constructor; hyp_compute|repeat (first [apply Forall_nil|apply Forall_cons])].
Lemma ex_src_wf : wf_src ex_src /\ no_link_groups ex_src.
Proof.
  split; [split; [|reflexivity]|].
  - unfold ex_src. repeat wf_node.
  - apply no_link_groups_of_nodup. vm_compute. repeat constructor; simpl; intuition discriminate.
Qed.
Lemma ex_dsttree_wf : wf_src ex_dsttree /\ no_link_groups ex_dsttree.
Proof.
  split; [split; [|reflexivity]|].
  - unfold ex_dsttree. repeat wf_node.
  - apply no_link_groups_of_nodup. vm_compute. repeat constructor; simpl; intuition discriminate.
Qed.

Lemma ex_dst_wf : wf_fs ex_dst.
Proof.
  destruct ex_dsttree_wf as [A B]. unfold ex_dst.
  destruct (copy_top o_plain sel_all ex_dsttree fs_empty [] s_slash) as [st' e] eqn:E.
  assert (e = None) by (apply (f_equal snd) in E; vm_compute in E; congruence). subst e.
  eapply (copy_preserves_wf_proof o_plain ex_dsttree A (links_consistent_nolinks _ B)); eauto. apply fs_empty_wf.
Qed.

Lemma ex_src_links_wf : wf_src ex_src_links /\ links_consistent ex_src_links.
Proof.
  split; [split; [|reflexivity]|].
  - unfold ex_src_links. repeat wf_node.
  - exists (fun _ => ex_lnkd). unfold ex_src_links.
    repeat (apply cons_s_unfold; split; [intros H1 H2; first [reflexivity | vm_compute in H1; discriminate H1 | vm_compute in H2; discriminate H2]|];
            repeat (first [apply Forall_nil|apply Forall_cons])).
Qed.

(* ---- the former finding hardlink-first-copy-overwritten (repaired by forgetLinkSources) ----
   d1/f1 (AAA) and d2/f2 are one inode; d2/f1 (BBB) is another file.  Copy "d*/f?" (wildcards)
   to "/": d1/f1 -> /f1 is recorded as the copy of the link group, d2/f1 replaces /f1 (the record
   is forgotten), d2/f2 is copied afresh and reads AAA. *)
Definition n_d1 : list N := [100; 49]. Definition n_d2 : list N := [100; 50].
Definition n_f1 : list N := [102; 49]. Definition n_f2 : list N := [102; 50].
Definition ex_A : dent := exd (S_IFREG + 420) 0 0 10 [] [] [65; 65; 65].
Definition ex_B : dent := exd (S_IFREG + 420) 0 0 11 [] [] [66; 66; 66].
Definition ex_stale_src : snode :=
  SNode [] 0 ex_rootd
    [ SNode n_d1 1 (exd (S_IFDIR + 493) 0 0 5 [] [] []) [ SNode n_f1 3 ex_A [] ];
      SNode n_d2 2 (exd (S_IFDIR + 493) 0 0 6 [] [] []) [ SNode n_f1 4 ex_B []; SNode n_f2 3 ex_A [] ] ].
Definition o_wild_on : copts :=
  {| o_chown := None; o_mode := None; o_modestr := []; o_utime := None; o_dircontents := false;
     o_replace := false; o_wild := true; o_umask := 18 |}.
Definition stale_pat : list N := [100; 42; 47; 102; 63].   (* "d*/f?" *)

Ltac cons_tac :=
  repeat (apply cons_s_unfold; split; [intros H1 H2; first [reflexivity | vm_compute in H1; discriminate H1 | vm_compute in H2; discriminate H2]|];
          repeat (first [apply Forall_nil|apply Forall_cons])).

Lemma ex_stale_src_wf : wf_src ex_stale_src /\ links_consistent ex_stale_src.
Proof.
  split; [split; [|reflexivity]|].
  - unfold ex_stale_src. repeat wf_node.
  - exists (fun _ => ex_A). unfold ex_stale_src. cons_tac.
Qed.

(* ---- the residual of that repair: a link group spread over two inodes ----
   d1/f2, f and f2 are one inode.  Copy "*" with wildcards and dir-contents to "/": the contents
   of d1 -> /f2 (recorded), f -> /f linked to /f2, f2 -> /f2 replaces it: the record is forgotten
   although /f survives, /f2 is copied afresh.  Every dentry is right; /f and /f2, one group in
   the source, are two inodes. *)
Definition ex_split_src : snode :=
  SNode [] 0 ex_rootd
    [ SNode n_d1 1 (exd (S_IFDIR + 493) 0 0 5 [] [] []) [ SNode n_f2 3 ex_A [] ];
      SNode n_f 3 ex_A []; SNode n_f2 3 ex_A [] ].
Definition o_wild_dc : copts :=
  {| o_chown := None; o_mode := None; o_modestr := []; o_utime := None; o_dircontents := true;
     o_replace := false; o_wild := true; o_umask := 18 |}.
Definition star_pat : list N := [42].

Lemma ex_split_src_wf : wf_src ex_split_src /\ links_consistent ex_split_src.
Proof.
  split; [split; [|reflexivity]|].
  - unfold ex_split_src. repeat wf_node.
  - exists (fun _ => ex_A). unfold ex_split_src. cons_tac.
Qed.

(* the exact inode partition ("same group <-> same inode") is false of the model for wildcard
   sources with a link group, although every dentry matches *)
Lemma copy_overlay_partition_refuted_proof :
  exists o sroot fs src dst,
    wf_src sroot /\ links_consistent sroot /\ wf_fs fs /\
    match overlay_all o sroot (view_of_fs fs) src dst with
    | inl r =>
      let V := view_of_fs (c_fs (fst (copy_top o sel_all sroot fs src dst))) in
      snd (copy_top o sel_all sroot fs src dst) = None /\
      ~ (forall p q, keys_at V (xr_view r) p q = true)
    | inr _ => False
    end.
Proof.
  exists o_wild_dc, ex_split_src, fs_empty, star_pat, s_slash.
  split; [apply ex_split_src_wf|]. split; [apply ex_split_src_wf|]. split; [apply fs_empty_wf|].
  destruct (overlay_all o_wild_dc ex_split_src (view_of_fs fs_empty) star_pat s_slash) as [r|x] eqn:E.
  - cbv zeta. split; [vm_compute; reflexivity|]. intros HK. specialize (HK [n_f] [n_f2]).
    assert (Hb : match overlay_all o_wild_dc ex_split_src (view_of_fs fs_empty) star_pat s_slash with
                 | inl r0 => keys_at (view_of_fs (c_fs (fst (copy_top o_wild_dc sel_all ex_split_src fs_empty star_pat s_slash)))) (xr_view r0) [n_f] [n_f2]
                 | inr _ => true end = false) by (vm_compute; reflexivity).
    rewrite E in Hb. congruence.
  - assert (Hb : match overlay_all o_wild_dc ex_split_src (view_of_fs fs_empty) star_pat s_slash with
                 | inl _ => true | inr _ => false end = true) by (vm_compute; reflexivity).
    rewrite E in Hb. discriminate.
Qed.
