(* The hard-link rule for sub-target walks (walk_at) and inside SubDirFS (walk_subdirs).

   fs.Walk creates ONE seenFiles map per call, so a sub-target walk knows only the inode groups of
   the walked sub-sequence: the first member (in walk order = protocol path order) of a group
   AMONG THE ENTRIES AT OR BELOW THE TARGET is reported as the file itself — also when the group has
   an earlier member outside the target — and the later ones name it.  subDirFS.Walk calls the inner
   FS.Walk once per sub-root (again one map per call) and puts the mount name in front of the link
   names.  Both are instances of the sequence lemmas of WalkP (scan_linkname, first_of_least). *)
From Coq Require Import List NArith Bool Lia Sorting.Permutation Sorting.Sorted.
From FS Require Import Sx Model.Path Model.Stat Model.Tree Model.Walk Proofs.Lex Proofs.PathP Proofs.WalkP.
Import ListNotations.
Open Scope N_scope.
Open Scope bool_scope.

(* nlink consistency of any duplicate-free sequence of nodes of a consistent tree *)
Lemma seq_consistent_of_nodes t l : wf_tree t -> ino_consistent t ->
  NoDup (map fst l) ->
  (forall p r, In (p, r) l -> exists cs, cs <> [] /\ p = joinc cs /\ tree_at t cs r) ->
  seq_consistent l.
Proof.
  intros Hwf Hc Hnd Hnodes pre p r post E Hd Hf.
  destruct (first_of (l_ino r) pre) as [q|] eqn:Hq; [|congruence].
  apply first_of_some in Hq. destruct Hq as (pre1 & r1 & post1 & Epre & Hd1 & Hi1 & _).
  assert (In1 : In (q, r1) l).
  { rewrite E, Epre. apply in_or_app. left. apply in_or_app. right. simpl. auto. }
  assert (In2 : In (p, r) l).
  { rewrite E. apply in_or_app. right. simpl. auto. }
  assert (Hneq : q <> p).
  { rewrite E, map_app in Hnd. simpl in Hnd. apply NoDup_remove_2 in Hnd. intro; subst q. apply Hnd.
    apply in_or_app. left. rewrite Epre, map_app. apply in_or_app. right. simpl. auto. }
  apply Hnodes in In1, In2. destruct In1 as (cs1 & _ & -> & A1), In2 as (cs2 & _ & -> & A2).
  apply (Hc cs2 r cs1 r1); auto. congruence.
Qed.

(* the WalkDir sequence of a sub-target: exactly the nodes at or below it *)
Lemma entries_at_in t cs k : wf_tree t -> cs <> [] -> lookup (sort_tree t) cs = Some k ->
  forall p r, In (p, r) (entries_node (joinc cs) k) <->
              exists c, p = joinc (cs ++ c) /\ tree_at t (cs ++ c) r.
Proof.
  intros Hwf Hne El p r.
  destruct (lookup_at _ _ _ (sort_tree_wf t Hwf) El) as [_ Hiff].
  rewrite entries_node_joinc by auto. rewrite in_map_iff. split.
  - intros ([c r'] & E & Hi). cbn [fst snd] in E. inversion E; subst. exists c. split; auto.
    apply sort_tree_at, Hiff, rpr_tree_at. exact Hi.
  - intros (c & -> & Hat). exists (c, r). split; auto. apply rpr_tree_at, Hiff, sort_tree_at. exact Hat.
Qed.

Lemma entries_at_sorted t cs k : wf_tree t -> cs <> [] -> lookup (sort_tree t) cs = Some k ->
  StronglySorted path_lt (map fst (entries_node (joinc cs) k)).
Proof.
  intros Hwf Hne El.
  destruct (lookup_sorted _ _ _ (sort_tree_sorted t Hwf) El) as [Hsk Hns].
  rewrite entries_node_joinc, map_map by auto. cbn [fst].
  apply rpr_paths_sorted; [apply rpr_sorted; auto|]. intros c r Hi. split.
  - destruct cs; [congruence|discriminate].
  - apply Forall_app. split; auto. eapply rpr_nosep; eauto.
Qed.

Lemma app_nonnil {A} (a b : list A) : a <> [] -> a ++ b <> [].
Proof. destruct a; [congruence|discriminate]. Qed.

Theorem walk_at_hardlinks_proof t target : wf_tree t -> one_fs t -> ino_consistent t ->
  target_comps target <> [] ->
  forall st, In st (walk_at t target) ->
  forall c r, tree_at t (target_comps target ++ c) r ->
    st_path st = joinc (target_comps target ++ c) -> is_dir r = false ->
  exists c0 r0,
    tree_at t (target_comps target ++ c0) r0 /\ is_dir r0 = false /\
    l_ino r0 = l_ino r /\ l_dev r0 = l_dev r /\
    (forall c1 r1, tree_at t (target_comps target ++ c1) r1 -> is_dir r1 = false -> l_ino r1 = l_ino r ->
                   c1 = c0 \/ path_lt (joinc (target_comps target ++ c0)) (joinc (target_comps target ++ c1))) /\
    st_linkname st = (if is_symlink r then l_target r
                      else if bytes_eqb (joinc (target_comps target ++ c0)) (joinc (target_comps target ++ c))
                           then [] else joinc (target_comps target ++ c0)).
Proof.
  intros Hwf Hfs Hc Hne st Hin c r Hat Hp Hd. unfold walk_at in Hin.
  remember (target_comps target) as cs eqn:Ecs. clear Ecs target.
  destruct cs as [|n0 cs']; [congruence|]. remember (n0 :: cs') as cs eqn:Ecs.
  destruct (lookup (sort_tree t) cs) as [k|] eqn:El; [|contradiction].
  pose proof (entries_at_in t cs k Hwf Hne El) as Hmem.
  pose proof (entries_at_sorted t cs k Hwf Hne El) as HS.
  remember (entries_node (joinc cs) k) as l eqn:El'. clear El'.
  apply scan_in in Hin. destruct Hin as (pre & p & r' & post & E & ->).
  rewrite mkstat_path in Hp.
  assert (Hi : In (p, r') l) by (rewrite E; apply in_or_app; right; simpl; auto).
  apply Hmem in Hi. destruct Hi as (c' & -> & Hat').
  destruct (node_unique t (cs ++ c') r' (cs ++ c) r Hwf (app_nonnil _ _ Hne) (app_nonnil _ _ Hne) Hat' Hat Hp)
    as [Ec ->].
  apply app_inv_head in Ec. subst c'.
  assert (Hnd : NoDup (map fst l)) by (eapply SS_NoDup; [apply path_lt_irrefl|exact HS]).
  assert (Hsc : seq_consistent l).
  { apply (seq_consistent_of_nodes t); auto. intros q s Hq. apply Hmem in Hq. destruct Hq as (c1 & -> & Hq).
    exists (cs ++ c1). split; [apply app_nonnil; auto|]. auto. }
  destruct (scan_linkname _ Hsc Hnd pre (joinc (cs ++ c)) r post E Hd) as (f & Hf & Hl).
  destruct (first_of_least path_lt _ _ _ HS Hf) as ((r0 & Hi0 & Hd0 & Hino0) & Hleast).
  apply Hmem in Hi0. destruct Hi0 as (c0 & -> & Hat0).
  exists c0, r0. repeat (split; [assumption|]). split; [eapply Hfs; eauto|]. split; [|exact Hl].
  intros c1 r1 Hat1 Hd1 Hino1.
  assert (Hi1 : In (joinc (cs ++ c1), r1) l) by (apply Hmem; exists c1; auto).
  destruct (Hleast _ _ Hi1 Hd1 Hino1) as [Eq|Hlt]; [left|right; exact Hlt].
  destruct (node_unique t (cs ++ c1) r1 (cs ++ c0) r0 Hwf (app_nonnil _ _ Hne) (app_nonnil _ _ Hne) Hat1 Hat0 Eq)
    as [Ec _].
  apply app_inv_head in Ec. exact Ec.
Qed.

(* ---------- SubDirFS ---------- *)

Lemma app_sep_inj (a b x y : bytes) :
  ~ In sep a -> ~ In sep b -> a ++ sep :: x = b ++ sep :: y -> a = b /\ x = y.
Proof.
  revert b. induction a as [|u a IH]; intros b Ha Hb E; destruct b as [|v b]; simpl in E.
  - inversion E. auto.
  - inversion E; subst. exfalso. apply Hb. simpl; auto.
  - inversion E; subst. exfalso. apply Ha. simpl; auto.
  - inversion E; subst. destruct (IH b) as [-> ->]; auto.
    + intro. apply Ha. simpl; auto.
    + intro. apply Hb. simpl; auto.
Qed.

Lemma NoDup_map_inj {A B} (f : A -> B) l a b :
  NoDup (map f l) -> In a l -> In b l -> f a = f b -> a = b.
Proof.
  induction l as [|x l IH]; intros Hnd Ha Hb E; [contradiction|].
  simpl in Hnd. inversion Hnd as [|? ? Hx Hnd']; subst.
  destruct Ha as [->|Ha], Hb as [->|Hb]; auto.
  - exfalso. apply Hx. rewrite E. apply in_map. exact Hb.
  - exfalso. apply Hx. rewrite <- E. apply in_map. exact Ha.
Qed.

Lemma prefix_stat_path d st : st_path (prefix_stat d st) = d ++ sep :: st_path st.
Proof.
  unfold prefix_stat. destruct (st_linkname st); [reflexivity|].
  destruct (mode_is_symlink (st_mode st)); [destruct (is_abs (n :: l))|]; reflexivity.
Qed.

Theorem subdir_walk_hardlinks_proof ds : sd_wf ds ->
  forall cbs err, walk_subdirs ds [] = Some (cbs, err) ->
  forall d, In d ds -> one_fs (sd_tree d) -> ino_consistent (sd_tree d) ->
  forall st cs r, In (sd_name d ++ sep :: joinc cs, st) cbs ->
    cs <> [] -> tree_at (sd_tree d) cs r -> is_dir r = false ->
  st_path st = sd_name d ++ sep :: joinc cs /\
  exists cs0 r0,
    cs0 <> [] /\ tree_at (sd_tree d) cs0 r0 /\ is_dir r0 = false /\ l_ino r0 = l_ino r /\ l_dev r0 = l_dev r /\
    (forall cs1 r1, cs1 <> [] -> tree_at (sd_tree d) cs1 r1 -> is_dir r1 = false -> l_ino r1 = l_ino r ->
                    cs1 = cs0 \/ path_lt (joinc cs0) (joinc cs1)) /\
    st_linkname st =
      (if is_symlink r then
         (if is_abs (l_target r) then clean (sep :: sd_name d ++ sep :: l_target r) else l_target r)
       else if bytes_eqb (joinc cs0) (joinc cs) then [] else sd_name d ++ sep :: joinc cs0).
Proof.
  intros Hsd cbs err Hw d Hd Hfs Hc st cs r Hin Hne Hat Hdir.
  destruct (subdir_walk_prefixed_proof ds Hsd) as (Hw' & Hperm & _ & _).
  rewrite Hw' in Hw. inversion Hw; subst cbs err. clear Hw Hw'.
  destruct Hsd as [Hok Hnd]. rewrite Forall_forall in Hok.
  apply in_flat_map in Hin. destruct Hin as (d' & Hd' & Hin).
  assert (Hd'' : In d' ds) by (eapply Permutation_in; eauto).
  destruct (Hok _ Hd) as ((_ & Hns & _ & _) & _ & Hwf).
  destruct (Hok _ Hd'') as ((_ & Hns' & _ & _) & _ & _).
  unfold sd_block in Hin. destruct Hin as [E|Hin].
  - exfalso. inversion E as [[E1 E2]]. apply Hns'. rewrite E1. apply in_or_app. right. simpl; auto.
  - apply in_map_iff in Hin. destruct Hin as (st0 & E & Hin0). inversion E as [[E1 E2]]. clear E.
    apply app_sep_inj in E1; auto. destruct E1 as [En Ep]. subst st.
    assert (d' = d) by (eapply (NoDup_map_inj sd_name); eauto). subst d'. clear Hd'' Hd' Hns' En.
    split; [rewrite prefix_stat_path, Ep; reflexivity|].
    destruct (walk_hardlinks_proof _ Hwf Hfs Hc st0 Hin0 cs r Hne Hat Ep Hdir)
      as (cs0 & r0 & Hne0 & Hat0 & Hd0 & Hi0 & Hdev0 & Hleast & Hl).
    exists cs0, r0. repeat (split; [assumption|]).
    destruct (walk_stat_proof _ Hwf st0 Hin0 cs r Hne Hat Ep) as (Hm & _).
    assert (Hsym : mode_is_symlink (st_mode st0) = is_symlink r).
    { rewrite Hm, mode_symlink_nosock. reflexivity. }
    unfold prefix_stat. rewrite Hsym, Hl.
    destruct (is_symlink r).
    + destruct (l_target r) as [|a ln].
      * cbn [is_abs st_linkname set_path]. exact Hl.
      * destruct (is_abs (a :: ln)); cbn [st_linkname set_path set_linkname]; [reflexivity|exact Hl].
    + destruct (bytes_eqb (joinc cs0) (joinc cs)).
      * cbn [st_linkname set_path]. exact Hl.
      * destruct (okc_first_byte cs0 (wf_names_okc cs0 Hne0 (tree_at_names _ Hwf _ _ Hat0))) as (a & q & -> & _).
        reflexivity.
Qed.
