(* dev_major/dev_minor decode the kernel's encoding of (major, minor) — what makes them "the" device numbers. *)
From Coq Require Import NArith ZArith Lia ZifyN.
From FS Require Import Model.DevNum.
Open Scope N_scope.

Ltac Zify.zify_post_hook ::= Z.div_mod_to_equations.

Lemma decode_encode : forall major minor, major < 4096 -> minor < 1048576 ->
  dev_major (encode_dev major minor) = major /\ dev_minor (encode_dev major minor) = minor.
Proof.
  intros major minor Hm Hn. unfold dev_major, dev_minor, encode_dev. split; lia.
Qed.
