(* C03 — lemmas about the file-system model L9 (Model/Fs.v):
   association lists, the inode table, "real" walks (no symlink met), the characterisation
   of [walk] on normal components ([walk_rres]), so that the frame lemmas of FsFrameP.v never
   unfold the fuelled functions. *)
From Coq Require Import List NArith Bool Lia ZifyN ZifyNat ZifyBool.
From FS Require Import Sx Model.Path Model.Fs Proofs.Lex Proofs.PathP.
Import ListNotations.
Open Scope N_scope.
Open Scope bool_scope.

(* ---------------- association lists ---------------- *)
Lemma alookup_aset_same {A} k (v : A) l : alookup k (aset k v l) = Some v.
Proof.
  induction l as [|[k' v'] l IH]; simpl.
  - rewrite N.eqb_refl. reflexivity.
  - destruct (N.eqb k k') eqn:E; simpl.
    + rewrite N.eqb_refl. reflexivity.
    + rewrite E. exact IH.
Qed.

Lemma alookup_aset_other {A} k k' (v : A) l : k <> k' -> alookup k (aset k' v l) = alookup k l.
Proof.
  intros H. induction l as [|[k2 v2] l IH]; simpl.
  - apply N.eqb_neq in H. rewrite H. reflexivity.
  - destruct (N.eqb k' k2) eqn:E; simpl.
    + apply N.eqb_eq in E. subst k2. apply N.eqb_neq in H. rewrite H. reflexivity.
    + destruct (N.eqb k k2); auto.
Qed.

Lemma bytes_eqb_false a b : a <> b -> bytes_eqb a b = false.
Proof. intros H. apply bytes_eqb_neq. exact H. Qed.

Lemma blookup_In {A} k (v : A) l : blookup k l = Some v -> In (k, v) l.
Proof.
  induction l as [|[k' v'] l IH]; simpl; [discriminate|].
  destruct (bytes_eqb k k') eqn:E.
  - apply bytes_eqb_eq in E. subst. intros H. inversion H. left. reflexivity.
  - intros H. right. auto.
Qed.

Lemma blookup_None_notin {A} k (l : list (bytes * A)) : blookup k l = None -> ~ In k (map fst l).
Proof.
  induction l as [|[k' v'] l IH]; simpl; [tauto|].
  destruct (bytes_eqb k k') eqn:E; [discriminate|].
  apply bytes_eqb_neq in E. intros H [H1|H1]; [congruence|]. apply IH; auto.
Qed.

Lemma notin_blookup_None {A} k (l : list (bytes * A)) : ~ In k (map fst l) -> blookup k l = None.
Proof.
  induction l as [|[k' v'] l IH]; simpl; [reflexivity|].
  intros H. rewrite bytes_eqb_false by (intro; subst; apply H; left; reflexivity).
  apply IH. intro; apply H; right; auto.
Qed.

Lemma In_blookup_nodup {A} k (v : A) l : NoDup (map fst l) -> In (k, v) l -> blookup k l = Some v.
Proof.
  induction l as [|[k' v'] l IH]; simpl; [tauto|].
  intros Hnd [H|H].
  - inversion H; subst. rewrite bytes_eqb_refl. reflexivity.
  - inversion Hnd as [|? ? Hni Hnd']; subst.
    rewrite bytes_eqb_false.
    + apply IH; auto.
    + intro; subst. apply Hni. change k' with (fst (k', v)). apply in_map. exact H.
Qed.

Lemma blookup_app {A} k (l1 l2 : list (bytes * A)) :
  blookup k (l1 ++ l2) = match blookup k l1 with Some v => Some v | None => blookup k l2 end.
Proof.
  induction l1 as [|[k' v'] l1 IH]; simpl; [reflexivity|].
  destruct (bytes_eqb k k'); auto.
Qed.

Lemma blookup_bset_same {A} k (v : A) l : blookup k (bset k v l) = Some v.
Proof.
  induction l as [|[k' v'] l IH]; simpl.
  - rewrite bytes_eqb_refl. reflexivity.
  - destruct (bytes_eqb k k') eqn:E; simpl.
    + rewrite bytes_eqb_refl. reflexivity.
    + rewrite E. exact IH.
Qed.

Lemma blookup_bset_other {A} k k' (v : A) l : k <> k' -> blookup k (bset k' v l) = blookup k l.
Proof.
  intros H. induction l as [|[k2 v2] l IH]; simpl.
  - rewrite bytes_eqb_false by auto. reflexivity.
  - destruct (bytes_eqb k' k2) eqn:E; simpl.
    + apply bytes_eqb_eq in E. subst k2. rewrite bytes_eqb_false by auto. reflexivity.
    + destruct (bytes_eqb k k2); auto.
Qed.

Lemma blookup_bremove_other {A} k k' (l : list (bytes * A)) : k <> k' -> blookup k (bremove k' l) = blookup k l.
Proof.
  intros H. induction l as [|[k2 v2] l IH]; simpl; [reflexivity|].
  destruct (bytes_eqb k' k2) eqn:E; simpl.
  - apply bytes_eqb_eq in E. subst k2. rewrite bytes_eqb_false by auto. reflexivity.
  - destruct (bytes_eqb k k2); auto.
Qed.

Lemma bremove_In {A} k (l : list (bytes * A)) x : In x (bremove k l) -> In x l.
Proof.
  induction l as [|[k2 v2] l IH]; simpl; [tauto|].
  destruct (bytes_eqb k k2); simpl; intuition.
Qed.

Lemma bremove_fst_In {A} k (l : list (bytes * A)) x : In x (map fst (bremove k l)) -> In x (map fst l).
Proof.
  induction l as [|[k2 v2] l IH]; simpl; [tauto|].
  destruct (bytes_eqb k k2); simpl; intuition.
Qed.

Lemma bremove_nodup {A} k (l : list (bytes * A)) : NoDup (map fst l) -> NoDup (map fst (bremove k l)).
Proof.
  induction l as [|[k2 v2] l IH]; simpl; intros H; [constructor|].
  inversion H; subst. destruct (bytes_eqb k k2); simpl; auto.
  constructor; auto. intro Hin. apply bremove_fst_In in Hin. auto.
Qed.

Lemma blookup_bremove_same {A} k (l : list (bytes * A)) : NoDup (map fst l) -> blookup k (bremove k l) = None.
Proof.
  induction l as [|[k2 v2] l IH]; simpl; intros H; [reflexivity|].
  inversion H; subst. destruct (bytes_eqb k k2) eqn:E; simpl.
  - apply bytes_eqb_eq in E. subst. apply notin_blookup_None. auto.
  - rewrite E. auto.
Qed.

Lemma bset_fst {A} k (v : A) l : forall x, In x (map fst (bset k v l)) -> x = k \/ In x (map fst l).
Proof.
  induction l as [|[k2 v2] l IH]; simpl; intros x H.
  - destruct H as [H|[]]; auto.
  - destruct (bytes_eqb k k2) eqn:E; simpl in H.
    + apply bytes_eqb_eq in E. subst. destruct H; auto.
    + destruct H as [H|H]; auto. apply IH in H. tauto.
Qed.

Lemma bset_nodup {A} k (v : A) l : NoDup (map fst l) -> NoDup (map fst (bset k v l)).
Proof.
  induction l as [|[k2 v2] l IH]; simpl; intros H.
  - constructor; [simpl; tauto|constructor].
  - inversion H; subst. destruct (bytes_eqb k k2) eqn:E; simpl.
    + apply bytes_eqb_eq in E. subst. constructor; auto.
    + constructor; auto. intro Hin. apply bset_fst in Hin. destruct Hin as [Hin|Hin]; auto.
      subst. rewrite bytes_eqb_refl in E. discriminate.
Qed.

Lemma bset_In {A} k (v : A) l x : In x (bset k v l) -> x = (k, v) \/ In x l.
Proof.
  induction l as [|[k2 v2] l IH]; simpl; intros H.
  - destruct H as [H|[]]; auto.
  - destruct (bytes_eqb k k2); simpl in H; destruct H as [H|H]; auto.
    apply IH in H. tauto.
Qed.

Lemma NoDup_snoc {A} (l : list A) x : NoDup l -> ~ In x l -> NoDup (l ++ [x]).
Proof.
  induction l as [|a l IH]; simpl; intros Hnd Hni.
  - constructor; [simpl; tauto|constructor].
  - inversion Hnd; subst. constructor.
    + intro Hin. apply in_app_or in Hin. destruct Hin as [Hin|[Hin|[]]]; [auto|].
      subst. apply Hni. left. reflexivity.
    + apply IH; auto.
Qed.

Lemma aset_aset {A} k (a b : A) l : aset k b (aset k a l) = aset k b l.
Proof.
  induction l as [|[k' v'] l IH]; simpl.
  - rewrite N.eqb_refl. reflexivity.
  - destruct (N.eqb k k') eqn:E; simpl.
    + rewrite N.eqb_refl. reflexivity.
    + rewrite E, IH. reflexivity.
Qed.

Lemma bremove_notin {A} k (l : list (bytes * A)) : NoDup (map fst l) -> ~ In k (map fst (bremove k l)).
Proof.
  induction l as [|[k2 v2] l IH]; simpl; intros H; [tauto|].
  inversion H; subst. destruct (bytes_eqb k k2) eqn:E; simpl.
  - apply bytes_eqb_eq in E. subst. auto.
  - intros [H1|H1]; [subst; rewrite bytes_eqb_refl in E; discriminate|]. apply IH; auto.
Qed.

(* ---------------- the inode table ---------------- *)
Lemma get_put_same f i n : get (put f i n) i = Some n.
Proof. unfold get, put. simpl. apply alookup_aset_same. Qed.
Lemma get_put_other f i j n : j <> i -> get (put f i n) j = get f j.
Proof. intros H. unfold get, put. simpl. apply alookup_aset_other. exact H. Qed.
Lemma next_put f i n : f_next (put f i n) = f_next f. Proof. reflexivity. Qed.
Lemma put_put f i a b : put (put f i a) i b = put f i b.
Proof. unfold put. simpl. rewrite aset_aset. reflexivity. Qed.

Lemma get_alloc_new f n : get (fst (alloc f n)) (snd (alloc f n)) = Some n.
Proof. unfold alloc, get. simpl. apply alookup_aset_same. Qed.
Lemma get_alloc_other f n j : j <> f_next f -> get (fst (alloc f n)) j = get f j.
Proof. intros H. unfold alloc, get. simpl. apply alookup_aset_other. exact H. Qed.
Lemma alloc_snd f n : snd (alloc f n) = f_next f. Proof. reflexivity. Qed.
Lemma next_alloc f n : f_next (fst (alloc f n)) = f_next f + 1. Proof. reflexivity. Qed.

(* the constructor of an inode's kind never changes *)
Definition ktag (k : ikind) : N :=
  match k with KDir _ _ => 0 | KFile _ => 1 | KLink _ => 2 | KSpecial _ _ => 3 end.
Definition itag (o : option inode) : option N := option_map (fun n => ktag (i_kind n)) o.

Definition is_link (f : fs) (i : N) : bool :=
  match get f i with Some {| i_kind := KLink _ |} => true | _ => false end.

Lemma dir_of_tag f i p es : dir_of f i = Some (p, es) -> itag (get f i) = Some 0.
Proof.
  unfold dir_of. destruct (get f i) as [[k m]|]; [|discriminate]. destruct k; try discriminate. reflexivity.
Qed.
Lemma tag_dir_of f i : itag (get f i) = Some 0 -> exists p es, dir_of f i = Some (p, es).
Proof.
  unfold dir_of. destruct (get f i) as [[k m]|]; [|discriminate]. destruct k; try discriminate. eauto.
Qed.
Lemma is_link_tag f i : is_link f i = true <-> itag (get f i) = Some 2.
Proof.
  unfold is_link. destruct (get f i) as [[k m]|]; simpl; [|split; discriminate].
  destruct k; simpl; split; congruence.
Qed.
Lemma is_dir_dir_of f i : is_dir f i = true <-> exists p es, dir_of f i = Some (p, es).
Proof.
  unfold is_dir. destruct (dir_of f i) as [[p es]|]; split; intros H; eauto; try discriminate.
  destruct H as (? & ? & ?). discriminate.
Qed.

(* entries of a directory (nil for anything else) *)
Definition ents (f : fs) (i : N) : list (bytes * N) :=
  match dir_of f i with Some (_, es) => es | None => [] end.
Lemma dir_of_ents f i p es : dir_of f i = Some (p, es) -> ents f i = es.
Proof. unfold ents. intros ->. reflexivity. Qed.

(* ---------------- real walks ---------------- *)
(* follow directory entries only; every inode passed must be a directory *)
Fixpoint rwalk (f : fs) (i : N) (cs : list bytes) : option N :=
  match cs with
  | [] => Some i
  | c :: r =>
    match dir_of f i with
    | Some (_, es) => match blookup c es with Some j => rwalk f j r | None => None end
    | None => None
    end
  end.

Lemma rwalk_app f i a b : rwalk f i (a ++ b) = match rwalk f i a with Some j => rwalk f j b | None => None end.
Proof.
  revert i; induction a as [|c a IH]; intros i; simpl; [reflexivity|].
  destruct (dir_of f i) as [[p es]|]; [|reflexivity].
  destruct (blookup c es); auto.
Qed.

Lemma rwalk_snoc f i a c j :
  rwalk f i (a ++ [c]) = Some j <-> exists d, rwalk f i a = Some d /\ blookup c (ents f d) = Some j /\ is_dir f d = true.
Proof.
  rewrite rwalk_app. split.
  - destruct (rwalk f i a) as [d|]; [|discriminate]. simpl.
    destruct (dir_of f d) as [[p es]|] eqn:Ed; [|discriminate].
    destruct (blookup c es) eqn:E; [|discriminate]. intros H; inversion H; subst.
    exists d. unfold ents, is_dir. rewrite Ed. auto.
  - intros (d & -> & H & Hd). simpl. unfold ents, is_dir in *.
    destruct (dir_of f d) as [[p es]|]; [|discriminate]. rewrite H. reflexivity.
Qed.

(* what [walk] computes when it never meets a symlink it has to follow *)
Fixpoint rres (f : fs) (cur : N) (cs : list bytes) : lres + errno :=
  match dir_of f cur with
  | None => inr ENOTDIR
  | Some (_, es) =>
    match cs with
    | [] => inl {| l_dir := cur; l_name := []; l_ino := Some cur |}
    | c :: rest =>
      match blookup c es with
      | None => if is_nil rest then inl {| l_dir := cur; l_name := c; l_ino := None |} else inr ENOENT
      | Some i => if is_nil rest then inl {| l_dir := cur; l_name := c; l_ino := Some i |} else rres f i rest
      end
    end
  end.

(* no entry met along [cs] (from directory [i]) is a symlink; a missing entry or a
   non-directory in the way ends the walk (ENOENT / ENOTDIR) and is harmless *)
Fixpoint safe (f : fs) (i : N) (cs : list bytes) : Prop :=
  match cs with
  | [] => True
  | c :: r =>
    match dir_of f i with
    | Some (_, es) =>
      match blookup c es with
      | Some j => is_link f j = false /\ safe f j r
      | None => True
      end
    | None => True
    end
  end.

Lemma safe_app f i a b : safe f i (a ++ b) <-> safe f i a /\ (forall j, rwalk f i a = Some j -> safe f j b).
Proof.
  revert i; induction a as [|c a IH]; intros i; simpl.
  - split.
    + intros H; split; auto. intros j Hj. inversion Hj; subst; auto.
    + intros [_ H]. apply H. reflexivity.
  - destruct (dir_of f i) as [[p es]|].
    2:{ split; [intros _; split; auto; discriminate|auto]. }
    destruct (blookup c es) as [j|].
    2:{ split; [intros _; split; auto; discriminate|auto]. }
    rewrite IH. tauto.
Qed.

Lemma safe_prefix f i a b : safe f i (a ++ b) -> safe f i a.
Proof. intros H. apply safe_app in H. tauto. Qed.

Definition normalc (c : bytes) : Prop := normal c.

Lemma normal_not_dot c : normal c -> bytes_eqb c s_dot = false /\ bytes_eqb c s_dotdot = false.
Proof. intros (H1 & H2 & H3). split; apply bytes_eqb_neq; auto. Qed.

(* the fuelled lookup on normal components, never following: either out of fuel or [rres] *)
Lemma walk_rres fuel f root : forall cur cs follow nsym,
  Forall normal cs ->
  (safe f cur cs \/ (follow = false /\ safe f cur (removelast cs))) ->
  walk fuel f root cur cs follow nsym = rres f cur cs \/ walk fuel f root cur cs follow nsym = inr ELOOP.
Proof.
  induction fuel as [|fuel IH]; intros cur cs follow nsym Hn Hs; [right; reflexivity|].
  simpl. destruct cs as [|c rest].
  - left. simpl. destruct (dir_of f cur) as [[p es]|]; reflexivity.
  - inversion Hn as [|? ? Hc Hrest]; subst.
    destruct (normal_not_dot c Hc) as [E1 E2].
    cbn [rres]. destruct (dir_of f cur) as [[p es]|] eqn:Ed; [|left; reflexivity].
    rewrite E1, E2.
    destruct (blookup c es) as [i|] eqn:Eb; [|left; reflexivity].
    assert (Hsafe : (is_nil rest = true /\ follow = false) \/ (is_link f i = false /\ (safe f i rest \/ (follow = false /\ safe f i (removelast rest))))).
    { destruct Hs as [Hs|[Hf Hs]].
      - simpl in Hs. rewrite Ed, Eb in Hs. right. tauto.
      - destruct rest as [|c2 rest2]; [left; auto|].
        right. change (removelast (c :: c2 :: rest2)) with (c :: removelast (c2 :: rest2)) in Hs.
        simpl in Hs. rewrite Ed, Eb in Hs. simpl. tauto. }
    destruct Hsafe as [[Hnil Hf]|[Hl Hs']].
    + rewrite Hnil, Hf. simpl.
      destruct (get f i) as [[k m]|]; [destruct k|]; left; reflexivity.
    + assert (Hk : match get f i with Some {| i_kind := KLink _ |} => False | _ => True end).
      { unfold is_link in Hl. destruct (get f i) as [[k m]|]; auto. destruct k; auto. discriminate. }
      destruct (get f i) as [[k m]|] eqn:Eg.
      * destruct k; try contradiction;
          (destruct (is_nil rest) eqn:En; [left; reflexivity|apply IH; auto]).
      * destruct (is_nil rest) eqn:En; [left; reflexivity|apply IH; auto].
Qed.

(* reading off a successful [rres] *)
Lemma rres_inv f : forall cs cur r, cs <> [] -> rres f cur cs = inl r ->
  exists pre c, cs = pre ++ [c] /\ rwalk f cur pre = Some (l_dir r) /\ is_dir f (l_dir r) = true
                /\ l_name r = c /\ l_ino r = blookup c (ents f (l_dir r)).
Proof.
  induction cs as [|c rest IH]; intros cur r Hne H; [congruence|].
  cbn [rres] in H. destruct (dir_of f cur) as [[p es]|] eqn:Ed; [|discriminate].
  assert (Hdir : is_dir f cur = true) by (unfold is_dir; rewrite Ed; reflexivity).
  assert (He : ents f cur = es) by (apply (dir_of_ents _ _ _ _ Ed)).
  destruct (blookup c es) as [i|] eqn:Eb.
  - destruct rest as [|c2 rest2].
    + simpl in H. injection H as <-. exists [], c. simpl. rewrite He. auto.
    + simpl in H. destruct (IH i r ltac:(discriminate) H) as (pre & c' & E & Hw & Hd & Hn & Hi).
      exists (c :: pre), c'. rewrite E. split; [reflexivity|]. split; auto.
      simpl. rewrite Ed, Eb. exact Hw.
  - destruct rest as [|c2 rest2]; [|discriminate].
    simpl in H. injection H as <-. exists [], c. simpl. rewrite He. auto.
Qed.
