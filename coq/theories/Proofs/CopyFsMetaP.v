(* C14 — the metadata calls of the copier model: chown, utimes and xattrs never follow a final symlink;
   chmod (which follows) is issued only behind a "not a symlink" guard. *)
From Coq Require Import List NArith Bool.
From FS Require Import Sx Model.Path Model.Fs Model.RootPath Model.CopyFs Model.CopyFsSpec Model.CopyFsMeta
  Proofs.FsP Proofs.FsCopyFrameP.
Import ListNotations.
Open Scope N_scope.

Lemma lchown_nofollow c f p u g f' r : sys_lchown c f p u g = (f', r) -> nofollow_call c f p f'.
Proof.
  intros H. destruct (sys_lchown_inv _ _ _ _ _ _ _ H) as [[-> _]|(i & n & m & E & _ & _ & ->)]; [left; auto|].
  right. exists i. split; auto. intros j Hj. apply get_put_other; auto.
Qed.
Lemma utimens_nofollow c f p t f' r : sys_utimens c f p t = (f', r) -> nofollow_call c f p f'.
Proof.
  intros H. destruct (sys_utimens_inv _ _ _ _ _ _ H) as [[-> _]|(i & n & m & E & _ & _ & ->)]; [left; auto|].
  right. exists i. split; auto. intros j Hj. apply get_put_other; auto.
Qed.
Lemma lsetxattr_nofollow c f p k v f' r : sys_lsetxattr c f p k v = (f', r) -> nofollow_call c f p f'.
Proof.
  intros H. destruct (sys_lsetxattr_inv _ _ _ _ _ _ _ H) as [[-> _]|(i & n & m & E & _ & _ & ->)]; [left; auto|].
  right. exists i. split; auto. intros j Hj. apply get_put_other; auto.
Qed.

Lemma copy_file_info_of_link c o fi name : kind_is_link fi = true ->
  forall s, copy_file_info c o fi name s = copy_file_info_link c o fi name s.
Proof.
  intros H s. unfold copy_file_info, copy_file_info_link. rewrite H.
  destruct (match o_chown o with Some ug => ug | None => (m_uid (i_meta fi), m_gid (i_meta fi)) end) as [u g].
  unfold bind, ret. destruct (sys (fun f => sys_lchown c f name u g) s) as [s1 [a|e]]; [|reflexivity].
  destruct (expect_ok a s1) as [s2 [[]|e]]; reflexivity.
Qed.

(* chmod on an existing destination directory (copyDirectoryOnly with overwrite): only after Lstat said
   "directory"; a symlink there is reported, nothing is changed *)
Lemma copy_directory_only_link c dst fi ow s i t m :
  snd (sys_lstat c (s_fs s) dst) = RStat i {| i_kind := KLink t; i_meta := m |} ->
  exists e, copy_directory_only c dst fi ow s =
            ({| s_fs := s_fs s; s_links := s_links s; s_parents := s_parents s; s_reads := s_reads s |}, inr e).
Proof.
  intros H. unfold copy_directory_only, lstat_opt, bind, sys.
  pose proof (sys_lstat_fs c (s_fs s) dst) as Hf.
  destruct (sys_lstat c (s_fs s) dst) as [f1 r1]. cbn [fst snd] in *. subst f1 r1.
  cbn. eexists. reflexivity.
Qed.

Theorem metadata_calls_nofollow_proof :
  (forall c f p u g f' r, sys_lchown c f p u g = (f', r) -> nofollow_call c f p f') /\
  (forall c f p t f' r, sys_utimens c f p t = (f', r) -> nofollow_call c f p f') /\
  (forall c f p k v f' r, sys_lsetxattr c f p k v = (f', r) -> nofollow_call c f p f') /\
  (forall c o fi name, kind_is_link fi = true ->
     forall s, copy_file_info c o fi name s = copy_file_info_link c o fi name s) /\
  (forall c dst fi ow s i t m,
     snd (sys_lstat c (s_fs s) dst) = RStat i {| i_kind := KLink t; i_meta := m |} ->
     exists e, copy_directory_only c dst fi ow s =
               ({| s_fs := s_fs s; s_links := s_links s; s_parents := s_parents s; s_reads := s_reads s |}, inr e)).
Proof.
  split; [exact lchown_nofollow|]. split; [exact utimens_nofollow|]. split; [exact lsetxattr_nofollow|].
  split; [exact copy_file_info_of_link|exact copy_directory_only_link].
Qed.
