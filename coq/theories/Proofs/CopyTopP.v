(* C14 — MkdirAll, prepareTargetDir and Copy's loop: from the RootPath results (symlink-free
   below dstRoot) to the targets of copy_rec. *)
From Coq Require Import List NArith Lia Bool ZifyN ZifyNat ZifyBool.
From FS Require Import Sx Model.Path Model.Fs Model.RootPath Model.CopyFs Model.CopyFsSpec
  Proofs.Lex Proofs.PathP Proofs.FsP Proofs.RootPathStrP Proofs.FsCopyFrameP Proofs.FsCopyInvP
  Proofs.FsCopySafeP Proofs.FsCopyLinksP Proofs.FsCopySysP Proofs.CopyFsP Proofs.CopyRecP.
Import ListNotations.
Open Scope N_scope.
Open Scope bool_scope.

Local Opaque rfuel.

(* ---- chains and the vocabulary of Model/RootPath.v ---- *)
Lemma chain_plain_dir f : forall cs a e, chain f a cs e -> plain_dir f a cs = Some e.
Proof.
  induction 1 as [d Hd|d x i cs e Hb Hi Hc IH].
  - unfold plain_dir. cbn [plain_lookup]. unfold is_dir in Hd.
    destruct (dir_of f d) as [[p es]|] eqn:E; [|discriminate]. cbn [l_ino]. unfold is_dir. rewrite E. reflexivity.
  - unfold plain_dir in *. cbn [plain_lookup]. unfold dents in Hb.
    destruct (dir_of f d) as [[p es]|] eqn:E; [|discriminate]. rewrite Hb.
    unfold is_dir, dir_of in Hi. destruct (get f i) as [[[p0 es0|?|?|? ?] m]|] eqn:Eg; try discriminate.
    destruct cs as [|y cs].
    + inversion Hc; subst. cbn [is_nil l_ino]. unfold is_dir, dir_of. rewrite Eg. reflexivity.
    + cbn [is_nil]. exact IH.
Qed.

Lemma plain_dir_chain f : forall cs a e, plain_dir f a cs = Some e -> chain f a cs e.
Proof.
  induction cs as [|x cs IH]; intros a e H; unfold plain_dir in H; cbn [plain_lookup] in H.
  - destruct (dir_of f a) as [[p es]|] eqn:E; [|discriminate]. cbn [l_ino] in H.
    destruct (is_dir f a) eqn:Ed; inversion H; subst. constructor; auto.
  - destruct (dir_of f a) as [[p es]|] eqn:E; [|discriminate].
    destruct (blookup x es) as [i|] eqn:Eb.
    + assert (Hb : blookup x (dents f a) = Some i) by (unfold dents; rewrite E; auto).
      destruct (get f i) as [[[p0 es0|dd|t|ty rd] m]|] eqn:Eg.
      * assert (Hi : is_dir f i = true) by (unfold is_dir, dir_of; rewrite Eg; reflexivity).
        destruct cs as [|y cs].
        -- cbn [is_nil l_ino] in H. rewrite Hi in H. inversion H; subst. econstructor; eauto; constructor; auto.
        -- cbn [is_nil] in H. econstructor; eauto.
      * destruct cs as [|y cs]; cbn [is_nil l_ino] in H.
        -- unfold is_dir, dir_of in H. rewrite Eg in H. discriminate.
        -- cbn [plain_lookup] in H. unfold dir_of in H. rewrite Eg in H. discriminate.
      * rewrite andb_false_r in H. discriminate.
      * destruct cs as [|y cs]; cbn [is_nil l_ino] in H.
        -- unfold is_dir, dir_of in H. rewrite Eg in H. discriminate.
        -- cbn [plain_lookup] in H. unfold dir_of in H. rewrite Eg in H. discriminate.
      * destruct cs as [|y cs]; cbn [is_nil l_ino] in H.
        -- unfold is_dir, dir_of in H. rewrite Eg in H. discriminate.
        -- cbn [plain_lookup] in H. unfold dir_of in H. rewrite Eg in H. discriminate.
    + destruct (is_nil cs); cbn [l_ino] in H; discriminate.
Qed.

(* a successful lookup along a symlink-free path that ends on a directory is a chain *)
Lemma link_free_walk_chain f : forall fuel cs a rt fl n r i,
  link_free f a cs = true -> Forall nm cs -> is_dir f a = true ->
  walk fuel f rt a cs fl n = inl r -> l_ino r = Some i -> is_dir f i = true -> chain f a cs i.
Proof.
  induction fuel as [|fuel IH]; intros cs a rt fl n r i Hlf Hcs Ha H Hi Hd; [discriminate|].
  cbn [walk] in H. destruct (dir_of f a) as [[par ents]|] eqn:Ed; [|discriminate].
  destruct cs as [|x rest].
  - inversion H; subst. simpl in Hi. inversion Hi; subst. constructor; auto.
  - inversion Hcs as [|? ? Hx Hrest]; subst. destruct Hx as [(N1 & N2 & N3) _].
    apply bytes_eqb_neq in N2, N3. rewrite N2, N3 in H.
    cbn [link_free] in Hlf. rewrite Ed in Hlf.
    destruct (blookup x ents) as [i0|] eqn:Eb.
    + assert (Hb : blookup x (dents f a) = Some i0) by (unfold dents; rewrite Ed; auto).
      destruct (get f i0) as [[[p0 es0|dd|t|ty rd] m]|] eqn:Eg; try discriminate.
      * assert (Hi0 : is_dir f i0 = true) by (unfold is_dir, dir_of; rewrite Eg; reflexivity).
        destruct rest as [|y rest].
        -- simpl in H. inversion H; subst. simpl in Hi. inversion Hi; subst. econstructor; eauto. constructor; auto.
        -- cbn [is_nil] in H. econstructor; eauto.
      * destruct rest as [|y rest]; cbn [is_nil] in H.
        -- inversion H; subst. simpl in Hi. inversion Hi; subst. unfold is_dir, dir_of in Hd. rewrite Eg in Hd. discriminate.
        -- destruct fuel; [discriminate|]. cbn [walk] in H. unfold dir_of in H. rewrite Eg in H. discriminate.
      * destruct rest as [|y rest]; cbn [is_nil] in H.
        -- inversion H; subst. simpl in Hi. inversion Hi; subst. unfold is_dir, dir_of in Hd. rewrite Eg in Hd. discriminate.
        -- destruct fuel; [discriminate|]. cbn [walk] in H. unfold dir_of in H. rewrite Eg in H. discriminate.
      * destruct rest as [|y rest]; cbn [is_nil] in H.
        -- inversion H; subst. simpl in Hi. inversion Hi; subst. unfold is_dir, dir_of in Hd. rewrite Eg in Hd. discriminate.
        -- destruct fuel; [discriminate|]. cbn [walk] in H. unfold dir_of in H. rewrite Eg in H. discriminate.
    + destruct (is_nil rest); [|discriminate]. inversion H; subst. simpl in Hi. discriminate.
Qed.

(* walking a chain first *)
Lemma walk_chain_prefix f : forall p a m, chain f a p m -> Forall nm p -> forall rest, rest <> [] ->
  forall fuel rt fl n, walk (length p + fuel) f rt a (p ++ rest) fl n = walk fuel f rt m rest fl n.
Proof.
  induction 1 as [d Hd|d x i cs e Hb Hi Hc IH]; intros Hp rest Hne fuel rt fl n; [reflexivity|].
  inversion Hp as [|? ? Hx Hcs]; subst. destruct Hx as [(N1 & N2 & N3) _].
  apply bytes_eqb_neq in N2, N3.
  simpl length. simpl app. cbn [plus walk]. unfold dents in Hb.
  destruct (dir_of f d) as [[par ents]|] eqn:Ed; [|discriminate]. rewrite N2, N3, Hb.
  unfold is_dir, dir_of in Hi. destruct (get f i) as [[[p0 es0|?|?|? ?] m]|] eqn:Eg; try discriminate.
  replace (is_nil (cs ++ rest)) with false by (destruct cs; [destruct rest; [congruence|reflexivity]|reflexivity]).
  apply IH; auto.
Qed.

(* a chain walked with enough fuel reaches its end *)
Lemma walk_chain_full f : forall p a m, chain f a p m -> Forall nm p -> p <> [] ->
  forall fuel rt fl n, (length p <= fuel)%nat ->
  exists r, walk fuel f rt a p fl n = inl r /\ l_ino r = Some m.
Proof.
  induction 1 as [d Hd|d x i cs e Hb Hi Hc IH]; intros Hp Hne fuel rt fl n Hf; [congruence|].
  inversion Hp as [|? ? Hx Hcs]; subst. destruct Hx as [(N1 & N2 & N3) _].
  apply bytes_eqb_neq in N2, N3.
  destruct fuel as [|fuel]; [simpl in Hf; lia|]. cbn [walk]. unfold dents in Hb.
  destruct (dir_of f d) as [[par ents]|] eqn:Ed; [|discriminate]. rewrite N2, N3, Hb.
  unfold is_dir, dir_of in Hi. destruct (get f i) as [[[p0 es0|?|?|? ?] m]|] eqn:Eg; try discriminate.
  destruct cs as [|y cs].
  - inversion Hc; subst. cbn [is_nil]. eexists. split; reflexivity.
  - cbn [is_nil]. apply IH; auto; [discriminate|simpl in *; lia].
Qed.
