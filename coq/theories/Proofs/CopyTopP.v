(* C13 / C15 — Copy (prepareTargetDir, MkdirAll, copier.copy per source, wildcards,
   fixCreatedParentDirs) against [overlay_all]. *)
From Coq Require Import List NArith Bool Lia ZifyN ZifyNat ZifyBool.
From FS Require Import Sx Model.Path Model.SymMode Model.Copier Model.CopySpec Proofs.Lex
  Proofs.CopierP Proofs.CopyOpsP Proofs.CopyDentP Proofs.CopyLinkP Proofs.CopyNodeP Proofs.CopyMkdirP Proofs.CopyConflictP.
Import ListNotations.
Open Scope N_scope.
Open Scope bool_scope.

Definition xerr_cls (x : xerr) : N :=
  match x with XConflict c _ _ => c | XOther c => c | XScope => 99 end.

Lemma xerr_of_cls e : e = EScope \/ e = EOther -> xerr_cls (xerr_of e) = err_cls e.
Proof. intros [->| ->]; reflexivity. Qed.

Lemma s_resolve_wf : forall p n sn, wf_s n -> s_resolve n p = inl sn -> wf_s sn.
Proof.
  induction p as [|a p IH]; intros [nm ino d kids] sn Hwf; simpl.
  - intro H; inversion H; subst; auto.
  - destruct (is_dir d); [|discriminate]. destruct (find_kid a kids) as [k|] eqn:E; [|discriminate].
    apply IH. apply wf_s_unfold in Hwf. destruct Hwf as (_ & _ & _ & Hall).
    rewrite Forall_forall in Hall. apply Hall. eapply find_kid_in; eauto.
Qed.
Lemma s_resolve_err : forall p n e, s_resolve n p = inr e -> e = EScope \/ e = EOther.
Proof.
  induction p as [|a p IH]; intros [nm ino d kids] e; simpl; [discriminate|].
  destruct (is_dir d).
  - destruct (find_kid a kids); [apply IH|]. intro H; inversion H; auto.
  - destruct (is_lnk d); intro H; inversion H; auto.
Qed.

Lemma s_resolve_cons multi sdof : forall p n sn, cons_s multi sdof n -> s_resolve n p = inl sn -> cons_s multi sdof sn.
Proof.
  induction p as [|a p IH]; intros [nm ino d kids] sn Hc; simpl.
  - intro H; inversion H; subst; auto.
  - destruct (is_dir d); [|discriminate]. destruct (find_kid a kids) as [k|] eqn:E; [|discriminate].
    apply IH. apply cons_s_unfold in Hc. destruct Hc as (_ & Hall).
    rewrite Forall_forall in Hall. apply Hall. eapply find_kid_in; eauto.
Qed.

Lemma first_conflict_is_conflict V : forall n p c, first_conflict V p n = Some c ->
  exists cls q e, c = XConflict cls q (Some e).
Proof.
  induction n as [nm ino sd kids IH] using snode_ind2. intros p c. cbn [first_conflict].
  destruct (V p) as [e|]; [|discriminate].
  destruct (_ && _); [intro H; inversion H; eauto|]. destruct (_ && _); [intro H; inversion H; eauto|].
  destruct (is_dir sd); [|discriminate].
  induction kids as [|k r IHr]; [discriminate|]. inversion IH as [|? ? Hk Hr]; subst.
  destruct (first_conflict V (p ++ [sname k]) k) eqn:E; auto. intro H; inversion H; subst. eapply Hk; eauto.
Qed.

Section Top.
  Variable o : copts.
  Variable selected : list (list N) -> bool.
  Hypothesis Hsel : forall p, selected p = true.
  Variable sroot : snode.
  Hypothesis Hwf : wf_s sroot.
  Hypothesis Hrootdir : is_dir (sdent sroot) = true.
  Variable sdof : N -> dent.
  Hypothesis Hcons : cons_s (multi_of sroot) sdof sroot.
  Variable S : Prop.     (* exact-partition mode (CopyLinkP.v) *)
  Notation Inv := (Inv o).
  Notation touch := (touch o).
  Notation G := (G o).
  Notation multi := (multi_of sroot).

  Lemma G_mk X X1 cr0 cr : G X cr0 -> mk_new o cr X1 -> mk_old cr X X1 -> G X1 (cr0 ++ cr).
  Proof.
    intros Hg Hn Ho q. unfold Gp. destruct (X1 q) as [e|] eqn:E; auto. split.
    - intro Hm. apply in_or_app. destruct (Ho q e E) as [Hin|(e0 & A1 & A2 & A3 & A4)]; auto.
      left. specialize (Hg q). rewrite A1 in Hg. apply Hg. congruence.
    - intro Hin. assert (Hc : In q cr \/ (~ In q cr /\ In q cr0)).
      { destruct (in_dec (list_eq_dec (list_eq_dec N.eq_dec)) q cr); auto. apply in_app_or in Hin. tauto. }
      destruct Hc as [Hc|[Hnc Hc]].
      + destruct (Hn q Hc) as (e' & B1 & B2 & B3 & B4). rewrite E in B1. inversion B1; subst. auto.
      + destruct (Ho q e E) as [Hin'|(e0 & A1 & A2 & A3 & A4)]; [contradiction|].
        specialize (Hg q). rewrite A1 in Hg. destruct Hg as [_ Hg]. destruct (Hg Hc) as [K1 K2].
        rewrite <- A2, <- A3. auto.
  Qed.

  Lemma make_dirs_mono r : forall pre V V1, make_dirs o pre r V = inl V1 ->
    forall q, x_isdir (V q) = true -> x_isdir (V1 q) = true.
  Proof.
    induction r as [|c r IH]; intros pre V V1.
    - rewrite make_dirs_nil. destruct (V pre) as [e|]; [|discriminate].
      destruct (negb (is_dir (x_d e))); [discriminate|]. intro H; inversion H; auto.
    - rewrite make_dirs_cons. destruct (V pre) as [e|]; [|discriminate].
      destruct (negb (is_dir (x_d e))); [discriminate|].
      destruct (V (pre ++ [c])) eqn:En; intros H q Hq.
      + eapply IH; eauto.
      + eapply IH; eauto. destruct (path_dec q (pre ++ [c])) as [->|Hn].
        * rewrite xupd_same. unfold x_isdir. apply made_dir_isdir.
        * rewrite xupd_other, touch_isdir; auto.
  Qed.

  Lemma res_root_dir ms sn L tp X : x_isdir (X []) = true -> (L = [] -> is_dir (sdent sn) = true) ->
    x_isdir (res o ms multi sn L tp X []) = true.
  Proof.
    intros HX HL. destruct (path_snoc_cases L) as [->|(P & a & ->)].
    - unfold res. rewrite (HL eq_refl), HX. cbn [andb]. rewrite ov_at_T. unfold copied.
      unfold x_isdir in HX. destruct (X []) as [e|]; [|discriminate]. rewrite (HL eq_refl), HX. cbn [andb].
      destruct tp; unfold x_isdir; cbn [x_d]; auto.
      rewrite <- HX. apply is_dir_ftype. rewrite ftype_set_xattrs, ftype_set_mtime, ftype_set_perm. auto.
    - unfold res. rewrite parent_snoc.
      assert (Hu : strip_prefix (P ++ [a]) [] = None).
      { apply strip_prefix_none. intros r E. symmetry in E. apply app_eq_nil in E as [E _]. revert E. apply snoc_ne_nil. }
      destruct (_ && _); [|rewrite touch_isdir]; rewrite ov_unrel; auto.
  Qed.

  (* ---- one source ---- *)
  Definition PCall (im : list (N * (list (list N) * N))) : Prop := forall T, PC T im.

  Definition one_ok (ms : option (list bitcmd)) (st : cstate) (cr0 : list (list (list N))) (res : xres + xerr)
             (out : cstate * option err * list (list (list N))) : Prop :=
    match res with
    | inl r => exists st' cr, out = (st', None, cr) /\ Inv (c_fs st') (xr_view r) /\ x_isdir (xr_view r []) = true /\
                 G (xr_view r) (cr0 ++ cr) /\ c_notifs st' = rev (xr_notifs r) ++ c_notifs st /\
                 Lk o ms multi sdof S (c_fs st') (xr_view r) (c_imap st')
    | inr xe =>
      exists st' e cr, out = (st', Some e, cr) /\ err_cls e = xerr_cls xe /\
        match xe with
        | XConflict _ p bef => exists X', Inv (c_fs st') X' /\ X' p = bef /\ bef <> None /\ G X' (cr0 ++ cr) /\
                                          Lk o ms multi sdof S (c_fs st') X' (c_imap st')
        | _ => True
        end
    end.

  Lemma copy_one_spec ms dst src st X cr0 sn :
    Inv (c_fs st) X -> Lk o ms multi sdof S (c_fs st) X (c_imap st) -> (S -> PCall (c_imap st)) ->
    x_isdir (X []) = true -> G X cr0 -> s_resolve sroot (rooted src) = inl sn ->
    one_ok ms st cr0 (overlay_one o ms multi sn src dst X) (copy_one o selected sroot ms dst src st).
  Proof.
    intros I L0 Hpc Hroot Hg Hres. unfold copy_one, overlay_one. rewrite Hres.
    rewrite (root_path_spec o _ _ (clean dst) I).
    destruct (root_path (c_fs st) (clean dst)) as [D|e] eqn:ERP; cbn [map_res].
    2:{ pose proof (root_path_err _ _ _ ERP) as He. unfold one_ok.
        exists st, e, []. split; auto. split; [symmetry; apply xerr_of_cls; auto|].
        destruct He as [-> | ->]; exact Logic.I. }
    pose proof (root_path_not_lnk o _ _ _ _ I Hroot ERP) as Hnl. unfold notlnk in Hnl.
    pose proof (inv_lstat _ _ _ D I) as HL.
    assert (Hwfn : wf_s sn) by (eapply s_resolve_wf; eauto).
    assert (Hcsn : cons_s multi sdof sn) by (eapply s_resolve_cons; eauto).
    assert (Elnk : match lstat (c_fs st) D with Some d => is_lnk d | None => false end = false).
    { destruct (lstat (c_fs st) D); auto. }
    rewrite Elnk.
    set (L := landing o sn src D X).
    assert (EL : (if (negb (o_dircontents o) && is_dir (sdent sn) && match lstat (c_fs st) D with Some _ => true | None => false end)
                     || (negb (is_dir (sdent sn)) && match lstat (c_fs st) D with Some d => is_dir d | None => false end)
                  then join_base D src else D) = L).
    { unfold L, landing, join_base, x_exists, x_isdir.
      destruct (lstat (c_fs st) D) as [d|], (X D) as [e|]; try contradiction; auto.
      rewrite (dm_is_dir _ _ _ HL). auto. }
    rewrite EL.
    assert (Eex : match lstat (c_fs st) D with Some _ => true | None => false end = x_exists (X D)).
    { unfold x_exists. destruct (lstat (c_fs st) D), (X D); try contradiction; auto. }
    rewrite Eex.
    set (target := if o_dircontents o && is_dir (sdent sn) && negb (x_exists (X D)) then L else parent L).
    pose proof (mkdir_all_spec o ms multi sdof S target st X I L0 Hroot) as HM.
    destruct (make_dirs o [] target X) as [X1|xe] eqn:EMD.
    2:{ destruct HM as (st1 & e & E1 & E2 & E3 & E4 & _). rewrite E1. unfold one_ok.
        exists st1, e, []. split; auto. subst xe. split; [symmetry; apply xerr_of_cls; auto|].
        destruct E3 as [-> | ->]; exact Logic.I. }
    destruct HM as (st1 & cr & E1 & I1 & R1 & N1 & O1 & L1). rewrite E1.
    pose proof (make_dirs_final_dir o target [] X X1 EMD) as Hfd. simpl in Hfd.
    pose proof (make_dirs_mono _ _ _ _ EMD [] Hroot) as Hroot1.
    pose proof (G_mk _ _ _ _ Hg N1 O1) as Hg1.
    destruct R1 as (R1a & R1b & R1c).
    (* the landing path is usable *)
    assert (HLdir : L = [] -> is_dir (sdent sn) = true).
    { intro HL0. unfold L, landing in HL0.
      destruct ((negb (o_dircontents o) && is_dir (sdent sn) && x_exists (X D)) || (negb (is_dir (sdent sn)) && x_isdir (X D))) eqn:Ec.
      - destruct (rev (rooted src)) as [|b t] eqn:Er; [|exfalso; revert HL0; apply snoc_ne_nil].
        assert (rooted src = []) as Hr0 by (rewrite <- (rev_involutive (rooted src)), Er; auto).
        rewrite Hr0 in Hres. destruct sroot; simpl in Hres. inversion Hres; subst. auto.
      - subst D. rewrite Hroot in Ec. destruct (is_dir (sdent sn)); auto.
        rewrite orb_false_iff in Ec. destruct Ec as [_ Ec]. discriminate. }
    assert (Htok : tok X1 L (sdent sn)).
    { destruct (path_snoc_cases L) as [HL0|(P & a & HLs)].
      - left. rewrite HL0 in *. auto.
      - right. exists P, a. split; auto. unfold target in Hfd. rewrite HLs in Hfd.
        destruct (o_dircontents o && is_dir (sdent sn) && negb (x_exists (X D))).
        + apply (all_prefix_dirs o _ _ [] [a] P I1); [discriminate|]. simpl.
          unfold x_isdir in Hfd. destruct (X1 (P ++ [a])); [discriminate|discriminate].
        + rewrite parent_snoc in Hfd. auto. }
    destruct (if o_replace o then None else first_conflict X1 L sn) as [c|] eqn:EC.
    - (* conflict *)
      destruct (o_replace o) eqn:Er; [discriminate|].
      destruct (first_conflict_is_conflict _ _ _ _ EC) as (cls & q & be & ->).
      assert (Hpc1 : S -> PC L (c_imap st1)) by (intro HS; rewrite R1a; apply Hpc; auto).
      destruct (copy_node_conflict o ms multi selected Hsel sdof S sn Hwfn Hcsn [] L false st1 X1 cls q (Some be) I1 L1 Hpc1 Htok Er EC)
        as (st' & e & X' & F1 & F2 & F3 & F4 & F5 & F6 & F7).
      rewrite F1. unfold one_ok.
      exists st', e, cr. split; [reflexivity|]. split; [auto|]. exists X'. split; [auto|]. split; [auto|]. split; auto.
    - (* success *)
      assert (Hpc1 : S -> PC L (c_imap st1)) by (intro HS; rewrite R1a; apply Hpc; auto).
      destruct (copy_node_ok o ms multi selected Hsel sdof S sn Hwfn Hcsn [] L false st1 X1 I1 L1 Hpc1 Htok)
        as (st' & F1 & F2 & FL & FM & F3).
      { intros Er. rewrite Er in EC. auto. }
      rewrite F1. unfold one_ok. cbn [negb xr_view xr_notifs] in *.
      assert (Eview : forall p, match L with
                                | [] => overlay_at o ms multi sn L X1
                                | _ :: _ => if is_dir (sdent sn) && x_isdir (X1 L) then overlay_at o ms multi sn L X1
                                            else touch (parent L) (overlay_at o ms multi sn L X1)
                                end p = res o ms multi sn L true X1 p).
      { intro p. unfold res. destruct L eqn:EL0; auto. rewrite (HLdir eq_refl), Hroot1. auto. }
      exists st', cr. split; [reflexivity|]. split; [eapply Inv_ext; eauto|]. split; [|split; [|split]].
      + rewrite Eview. apply res_root_dir; auto.
      + eapply G_ext; [exact Eview|]. apply G_res; auto.
      + rewrite F3. congruence.
      + eapply Lk_ext; [exact Eview|exact FL].
  Qed.
  (* ---- all sources ---- *)
  (* several sources are handled only for sources without link groups: then nothing is ever
     recorded in copier.inodes *)
  Lemma PCall_nil : PCall [].
  Proof. intros T s l i H. discriminate. Qed.
  Lemma PCall_nolinks ms fs X im : (forall i, multi i = false) -> Lk o ms multi sdof S fs X im -> PCall im.
  Proof.
    intros Hn L T s l i H. destruct (lk_rec _ _ _ _ _ _ _ _ L _ _ _ H) as (_ & Hm & _). rewrite Hn in Hm. discriminate.
  Qed.

  Lemma copy_srcs_spec ms dst : forall srcs st X cr0,
    (S -> (forall i, multi i = false) \/ (length srcs <= 1)%nat) ->
    Inv (c_fs st) X -> Lk o ms multi sdof S (c_fs st) X (c_imap st) -> (S -> PCall (c_imap st)) ->
    x_isdir (X []) = true -> G X cr0 ->
    one_ok ms st cr0 (overlay_srcs o sroot ms dst srcs X) (copy_srcs o selected sroot ms dst srcs st).
  Proof.
    induction srcs as [|s r IH]; intros st X cr0 Hmode I L0 Hpc Hroot Hg.
    - simpl. exists st, []. rewrite app_nil_r. spl; auto.
    - cbn [overlay_srcs copy_srcs].
      destruct (s_resolve sroot (rooted s)) as [sn|e] eqn:Eres.
      + pose proof (copy_one_spec ms dst s st X cr0 sn I L0 Hpc Hroot Hg Eres) as H1.
        destruct (overlay_one o ms multi sn s dst X) as [r1|xe].
        * destruct H1 as (st1 & cr1 & E1 & I1 & Hr1 & G1 & N1 & L1). rewrite E1.
          assert (Hrest : S -> r = [] \/ PCall (c_imap st1)).
          { intro HS. destruct (Hmode HS) as [Hn|Hlen]; [right; eapply PCall_nolinks; eauto|].
            left. destruct r; auto. simpl in Hlen. lia. }
          destruct r as [|s2 r2].
          -- simpl. exists st1, (cr1 ++ []). cbn [xr_view xr_notifs]. rewrite !app_nil_r. spl; auto.
          -- assert (Hpc1 : S -> PCall (c_imap st1)).
             { intro HS. destruct (Hrest HS) as [H|H]; [discriminate|auto]. }
             assert (Hmode' : S -> (forall i, multi i = false) \/ (length (s2 :: r2) <= 1)%nat).
             { intro HS. destruct (Hmode HS) as [Hn|Hlen]; auto. simpl in Hlen. lia. }
             specialize (IH st1 (xr_view r1) (cr0 ++ cr1) Hmode' I1 L1 Hpc1 Hr1 G1).
             destruct (overlay_srcs o sroot ms dst (s2 :: r2) (xr_view r1)) as [r2'|xe].
             ++ destruct IH as (st2 & cr2 & E2 & I2 & Hr2 & G2 & N2 & L2). rewrite E2.
                exists st2, (cr1 ++ cr2). cbn [xr_view xr_notifs]. rewrite app_assoc.
                split; auto. split; auto. split; auto. split; auto.
                split; [rewrite N2, N1, rev_app_distr, app_assoc; auto|auto].
             ++ destruct IH as (st2 & e & cr2 & E2 & C2 & K2). rewrite E2.
                exists st2, e, (cr1 ++ cr2). split; auto. split; auto.
                destruct xe; auto. rewrite app_assoc. auto.
        * destruct H1 as (st1 & e & cr1 & E1 & C1 & K1). rewrite E1. exists st1, e, cr1. auto.
      + unfold copy_one. rewrite Eres. pose proof (s_resolve_err _ _ _ Eres) as He.
        destruct He as [-> | ->]; exists st; eexists; exists []; spl; auto.
  Qed.

  (* ---- fixCreatedParentDirs ---- *)
  Definition strict (fs : fsys) (X : xview) : Prop :=
    forall q i e, names fs q = Some i -> X q = Some e -> x_known e = true -> d_mtime (inodes fs i) = d_mtime (x_d e).

  Definition mk_timed (fs : fsys) (X : xview) : Prop :=
    forall q i e t, names fs q = Some i -> X q = Some e -> x_mk e = true -> o_utime o = Some t -> d_mtime (inodes fs i) = t.

  Lemma fix_created_ok ms cr st X : Inv (c_fs st) X -> Lk o ms multi sdof S (c_fs st) X (c_imap st) -> G X cr ->
    Inv (c_fs (fix_created o cr st)) X /\ strict (c_fs (fix_created o cr st)) X /\ same_rest (fix_created o cr st) st /\
    mk_timed (c_fs (fix_created o cr st)) X /\
    Lk o ms multi sdof S (c_fs (fix_created o cr st)) X (c_imap (fix_created o cr st)).
  Proof.
    intros I L0 Hg. unfold fix_created. destruct (o_utime o) as [t|] eqn:Eu.
    - set (step := fun s d => match upd_path d (set_mtime t) (c_fs s) with Some f => with_fs s f | None => s end).
      assert (Gen : forall todo st0 (P : list (list N) -> Prop),
        Inv (c_fs st0) X -> Lk o ms multi sdof S (c_fs st0) X (c_imap st0) -> (forall q, In q todo -> In q cr) ->
        (forall q i, P q -> names (c_fs st0) q = Some i -> d_mtime (inodes (c_fs st0) i) = t) ->
        Inv (c_fs (fold_left step todo st0)) X /\
        (forall q i, P q \/ In q todo -> names (c_fs (fold_left step todo st0)) q = Some i ->
                     d_mtime (inodes (c_fs (fold_left step todo st0)) i) = t) /\
        same_rest (fold_left step todo st0) st0 /\
        Lk o ms multi sdof S (c_fs (fold_left step todo st0)) X (c_imap (fold_left step todo st0))).
      { induction todo as [|d todo IH]; intros st0 P I0 L1 Hsub HP.
        - simpl. split; auto. split; [|split; [apply same_rest_refl|auto]]. intros q i [Hq|[]]. intro Hn. eapply HP; eauto.
        - cbn [fold_left].
          destruct (names (c_fs st0) d) as [i|] eqn:En.
          + assert (Est : step st0 d = with_fs st0 (upd_inode i (set_mtime t) (c_fs st0))) by (unfold step, upd_path; rewrite En; auto).
            rewrite Est.
            destruct (i_some _ _ _ I0 _ _ En) as (e & E1 & E2 & E3).
            pose proof (Hg d) as Hgd. unfold Gp in Hgd. rewrite E1 in Hgd. destruct Hgd as [_ Hgd].
            destruct (Hgd (Hsub d (or_introl eq_refl))) as [K1 K2].
            assert (Hall : forall p ep, names (c_fs st0) p = Some i -> X p = Some ep -> d_mtime (x_d ep) = t).
            { intros p ep Hp Hep. destruct K1 as [K1|(s0 & K1)].
              - rewrite K1 in E3. destruct E3 as [_ Hu]. apply Hu in Hp. subst p. rewrite E1 in Hep. inversion Hep; subst.
                apply (proj1 K2). auto.
              - destruct (lk_grp _ _ _ _ _ _ _ _ L1 _ _ _ E1 K1) as (_ & B3 & _ & _ & B5).
                destruct (B5 _ _ En Hp) as (e1 & A1 & A2). rewrite Hep in A1. inversion A1; subst e1.
                destruct (lk_grp _ _ _ _ _ _ _ _ L1 _ _ _ Hep A2) as (_ & A3 & _).
                rewrite A3, <- B3. apply (proj1 K2). auto. }
            assert (I1 : Inv (upd_inode i (set_mtime t) (c_fs st0)) X).
            { eapply (inv_upd o _ X X i (set_mtime t) I0); auto.
              intros p ep Hp Hep. exists ep. split; auto. split; auto.
              destruct (i_some _ _ _ I0 _ _ Hp) as (ep' & F1 & F2 & _). rewrite Hep in F1. inversion F1; subst ep'.
              destruct F2 as (B1 & B2 & B3 & B4 & B5 & B6 & B7 & B8).
              unfold dm. cbn [set_mtime d_mode d_uid d_gid d_mtime d_rdev d_target d_xattrs d_content].
              repeat split; auto. intros _. symmetry. eapply Hall; eauto. }
            assert (L2 : Lk o ms multi sdof S (upd_inode i (set_mtime t) (c_fs st0)) X (c_imap st0)).
            { eapply Lk_names_ext; [|exact L1]. reflexivity. }
            destruct (IH (with_fs st0 (upd_inode i (set_mtime t) (c_fs st0))) (fun q => P q \/ q = d)) as (J1 & J2 & J3 & J4); auto.
            { intros q Hq. apply Hsub. right; auto. }
            { intros q i' Hq. cbn [with_fs c_fs upd_inode names inodes]. intro Hn.
              destruct (N.eqb i' i) eqn:Ei; [reflexivity|]. destruct Hq as [Hq| ->]; [eapply HP; eauto|].
              rewrite En in Hn. inversion Hn; subst. rewrite N.eqb_refl in Ei. discriminate. }
            split; auto. split; [|split; auto].
            intros q i' Hq. apply J2. destruct Hq as [Hq|[<-|Hq]]; auto.
          + assert (Est : step st0 d = st0) by (unfold step, upd_path; rewrite En; auto).
            rewrite Est.
            destruct (IH st0 (fun q => P q \/ q = d)) as (J1 & J2 & J3 & J4); auto.
            { intros q Hq. apply Hsub. right; auto. }
            { intros q i' [Hq| ->]; [eapply HP; eauto|]. congruence. }
            split; auto. split; auto.
            intros q i' Hq. apply J2. destruct Hq as [Hq|[<-|Hq]]; auto. }
      destruct (Gen cr st (fun _ => False) I L0) as (J1 & J2 & J3 & J4); auto; [intros q i []|].
      split; auto. split; [|split; auto].
      2:{ split; auto. intros q i e t' Hn HX Hm Hu. rewrite Eu in Hu. inversion Hu; subst t'.
          pose proof (Hg q) as Hgq. unfold Gp in Hgq. rewrite HX in Hgq. destruct Hgq as [G1 _].
          apply (J2 q i); auto. }
      intros q i e Hn HX Hk. destruct (i_some _ _ _ J1 _ _ Hn) as (e' & E1 & E2 & _). rewrite HX in E1. inversion E1; subst e'.
      destruct (eff_known o e) eqn:Ee.
      + apply E2; auto.
      + unfold eff_known in Ee. rewrite Hk in Ee. cbn [andb] in Ee. apply negb_false_iff in Ee.
        apply andb_true_iff in Ee as [Em _].
        pose proof (Hg q) as Hgq. unfold Gp in Hgq. rewrite HX in Hgq. destruct Hgq as [G1 G2].
        destruct (G2 (G1 Em)) as [_ K2]. rewrite (proj1 K2 t Eu). apply (J2 q i); auto.
    - split; auto. split; [|split; [apply same_rest_refl|split; [intros q i e t' _ _ _ Hu; congruence|auto]]].
      intros q i e Hn HX Hk. destruct (i_some _ _ _ I _ _ Hn) as (e' & E1 & E2 & _). rewrite HX in E1. inversion E1; subst e'.
      apply E2. unfold eff_known, utset. rewrite Eu, Hk, andb_false_r. auto.
  Qed.

  (* ---- Copy ---- *)
  Definition wf_fs (fs : fsys) : Prop :=
    (forall p i, names fs p = Some i -> i < next fs) /\
    (forall p a i, names fs (p ++ [a]) = Some i -> exists j, names fs p = Some j /\ is_dir (inodes fs j) = true) /\
    (forall p q i, names fs p = Some i -> names fs q = Some i -> is_dir (inodes fs i) = true -> p = q) /\
    (exists i, names fs [] = Some i /\ is_dir (inodes fs i) = true).

  Lemma lk_init ms fs : Lk o ms multi sdof S fs (xview_of (view_of_fs fs)) [].
  Proof.
    assert (Hk : forall p e s, xview_of (view_of_fs fs) p = Some e -> x_key e = KSrc s -> False).
    { intros p e s H1 H2. unfold xview_of, view_of_fs in H1. destruct (names fs p); [|discriminate].
      inversion H1; subst. discriminate. }
    split.
    - constructor.
    - intros s l i H. discriminate.
    - intros s l i p H. discriminate.
    - intros p e s H1 H2. exfalso. eapply Hk; eauto.
    - intros _ p e s H1 H2. exfalso. eapply Hk; eauto.
  Qed.

  Lemma inv_init fs : wf_fs fs -> Inv fs (xview_of (view_of_fs fs)) /\ x_isdir (xview_of (view_of_fs fs) []) = true /\
                                  G (xview_of (view_of_fs fs)) [].
  Proof.
    intros (A & B & C & (r & Hr & Hrd)). split; [|split].
    - split; auto.
      + intros p H. unfold xview_of, view_of_fs. rewrite H. auto.
      + intros p i H. unfold xview_of, view_of_fs. rewrite H. eexists. split; [reflexivity|].
        split; [|reflexivity]. unfold dm. cbn [x_d]. repeat split; auto.
    - unfold x_isdir, xview_of, view_of_fs. rewrite Hr. auto.
    - intro q. unfold Gp, xview_of, view_of_fs. destruct (names fs q); auto. cbn [x_mk]. split; [discriminate|intros []].
  Qed.

  Lemma resolve_wild_err src e : resolve_wild sroot src = inr e -> e = EScope \/ e = EOther.
  Proof.
    unfold resolve_wild.
    destruct (split_wild_e _) as [p1 p2]. destruct (existsb has_unsupported_e _); [intro H; inversion H; auto|].
    destruct p2; [discriminate|]. destruct (s_resolve sroot _) eqn:E; [discriminate|].
    intro H; inversion H; subst. eapply s_resolve_err; eauto.
  Qed.

  Definition the_ms : option (list bitcmd) :=
    match (match o_modestr o with [] => Some None | s => option_map Some (parse_mode s) end) with
    | Some ms => ms | None => None end.

  Definition top_ok (res : xres + xerr) (out : R) : Prop :=
    match res with
    | inl r => exists st', out = (st', None) /\ Inv (c_fs st') (xr_view r) /\ strict (c_fs st') (xr_view r) /\
                           rev (c_notifs st') = xr_notifs r /\
                           mk_timed (c_fs st') (xr_view r) /\ (exists cr, G (xr_view r) cr) /\
                           x_isdir (xr_view r []) = true /\
                           Lk o the_ms multi sdof S (c_fs st') (xr_view r) (c_imap st')
    | inr xe => exists st' e, out = (st', Some e) /\ err_cls e = xerr_cls xe /\
        match xe with
        | XConflict _ p bef => exists X', Inv (c_fs st') X' /\ strict (c_fs st') X' /\ X' p = bef /\ bef <> None
        | _ => True
        end
    end.

  Theorem copy_top_ok fs src dst : wf_fs fs -> (S -> (forall i, multi i = false) \/ o_wild o = false) ->
    top_ok (overlay_all o sroot (view_of_fs fs) src dst) (copy_top o selected sroot fs src dst).
  Proof.
    intros Hfs Hmode. destruct (inv_init fs Hfs) as (I0 & Hroot0 & G0).
    pose proof (lk_init the_ms fs) as L00.
    unfold copy_top, overlay_all. fold (ensure_arg dst).
    set (X0 := xview_of (view_of_fs fs)) in *.
    set (st0 := {| c_fs := fs; c_imap := []; c_notifs := []; c_split := false |}).
    (* ensureDstPath *)
    match goal with |- top_ok match ?sp with _ => _ end _ => set (SP := sp) end.
    match goal with |- top_ok _ (match ?en with _ => _ end) => set (EN := en) end.
    assert (Ens : match SP with
                  | inl (X1, _) => exists st1 cr1,
                      EN = (st1, None, cr1) /\ Inv (c_fs st1) X1 /\ x_isdir (X1 []) = true /\ G X1 cr1 /\ same_rest st1 st0 /\
                      Lk o the_ms multi sdof S (c_fs st1) X1 (c_imap st1)
                  | inr xe => exists st1 e,
                      EN = (st1, Some e, []) /\ err_cls e = xerr_cls xe /\ same_rest st1 st0 /\
                      match xe with XConflict _ _ _ => False | _ => True end
                  end).
    { unfold SP, EN. clear SP EN.
destruct (ensure_arg dst) as [|c0 e0] eqn:Een.
      - exists st0, []. spl; auto; apply same_rest_refl.
      - rewrite <- Een. rewrite (root_path_spec o fs X0 (ensure_arg dst) I0).
        destruct (root_path fs (ensure_arg dst)) as [ep|e] eqn:ERP; cbn [map_res].
        + pose proof (mkdir_all_spec o the_ms multi sdof S ep st0 X0 I0 L00 Hroot0) as HM.
          destruct (make_dirs o [] ep X0) as [X1|xe] eqn:EMD.
          * destruct HM as (st1 & cr1 & E1 & I1 & R1 & N1 & O1 & L1). exists st1, cr1.
            split; auto. split; auto. split; [eapply make_dirs_mono; eauto|]. split; [|split; auto].
            apply (G_mk X0 X1 [] cr1 G0 N1 O1).
          * destruct HM as (st1 & e & E1 & E2 & E3 & E4 & _). exists st1, e. subst xe.
            split; auto. split; [symmetry; apply xerr_of_cls; auto|]. split; auto.
            destruct E3 as [-> | ->]; exact Logic.I.
        + pose proof (root_path_err _ _ _ ERP) as He. exists st0, e.
          split; auto. split; [symmetry; apply xerr_of_cls; auto|]. split; [apply same_rest_refl|].
          destruct He as [-> | ->]; exact Logic.I. }
    clearbody SP EN. destruct SP as [[X1 eps]|xe].
    2:{ destruct Ens as (st1 & e & E1 & C1 & _ & K1). rewrite E1. unfold top_ok.
        exists st1, e. split; auto. split; auto. destruct xe; auto. contradiction. }
    destruct Ens as (st1 & cr1 & E1 & I1 & Hroot1 & G1 & (M1 & N1 & _) & L1). rewrite E1.
    (* ModeStr *)
    destruct (match o_modestr o with [] => Some None | _ :: _ => option_map Some (parse_mode (o_modestr o)) end) as [ms|] eqn:Ems.
    2:{ assert (Ems' : match o_modestr o with [] => Some None | s :: l => option_map Some (parse_mode (s :: l)) end = None).
        { destruct (o_modestr o); auto. }
        rewrite Ems'. unfold top_ok. eexists; eexists. split; [reflexivity|]. split; auto. }
    assert (Ems' : match o_modestr o with [] => Some None | s :: l => option_map Some (parse_mode (s :: l)) end = Some ms).
    { destruct (o_modestr o); auto. }
    rewrite Ems'.
    (* wildcards *)
    destruct (if o_wild o then resolve_wild sroot src else inl [src]) as [srcs|e] eqn:Ew.
    2:{ assert (He : e = EScope \/ e = EOther).
        { destruct (o_wild o); [eapply resolve_wild_err; eauto|discriminate]. }
        unfold top_ok. destruct He as [-> | ->]; eexists; eexists; (split; [reflexivity|]); (split; [reflexivity|exact Logic.I]). }
    destruct srcs as [|s0 srcs].
    { unfold top_ok. eexists; eexists. split; [reflexivity|]. split; [reflexivity|]. auto. }
    assert (Hms : the_ms = ms) by (unfold the_ms; rewrite Ems'; auto).
    rewrite Hms in *.
    assert (Hmode2 : S -> (forall i, multi i = false) \/ (length (s0 :: srcs) <= 1)%nat).
    { intro HS. destruct (Hmode HS) as [Hn|Hw]; auto. right. rewrite Hw in Ew. inversion Ew; subst. simpl. auto. }
    assert (Hpc1 : S -> PCall (c_imap st1)) by (intros _; rewrite M1; apply PCall_nil).
    pose proof (copy_srcs_spec ms dst (s0 :: srcs) st1 X1 cr1 Hmode2 I1 L1 Hpc1 Hroot1 G1) as HS.
    destruct (overlay_srcs o sroot ms dst (s0 :: srcs) X1) as [r|xe].
    - destruct HS as (st2 & cr2 & E2 & I2 & Hr2 & G2 & N2 & L2). rewrite E2.
      destruct (fix_created_ok ms (cr1 ++ cr2) st2 (xr_view r) I2 L2 G2) as (J1 & J2 & (J3 & J4 & J5) & J6 & J7).
      unfold top_ok. rewrite Hms. cbn [xr_view xr_notifs]. eexists. split; [reflexivity|]. split; auto. split; auto.
      split; [rewrite J4, N2, N1; unfold st0; cbn [c_notifs]; rewrite app_nil_r, rev_involutive; reflexivity|].
      split; [auto|]. split; [eauto|]. split; auto.
    - destruct HS as (st2 & e & cr2 & E2 & C2 & K2). rewrite E2.
      unfold top_ok. eexists; eexists. split; [reflexivity|]. split; auto.
      destruct xe as [cls p bef| |]; auto.
      destruct K2 as (X' & K1 & K3 & K4 & K5 & K6).
      destruct (fix_created_ok ms (cr1 ++ cr2) st2 X' K1 K6 K5) as (J1 & J2 & (J3 & J4 & J5) & _).
      exists X'. auto.
  Qed.
End Top.
