(* Refinement LTS (sender side) -> sender acceptor, part 4: the worker goroutines. *)
From Coq Require Import List NArith Bool Arith PeanoNat Lia ZifyN ZifyNat ZifyBool Permutation.
From FS Require Import Model.Lts Proofs.LtsInv.
From FS Require Import Sx Model.Path Model.Stat Model.Tree Model.AccEvents Model.SenderAcc Model.LtsAcc
     Proofs.AccEventsP Proofs.LtsAccP1 Proofs.LtsAccP2 Proofs.LtsAccP3.
Import ListNotations.
Local Open Scope nat_scope.

Arguments tasks : simpl never.
Arguments skipn : simpl never.
Arguments concat : simpl never.
Arguments nth : simpl never.

Lemma tasks_worker : forall st j w, nth_error (wks st) j = Some w ->
  exists A B, tasks st = A ++ wk_task w ++ B /\
    forall w' st1, rq_pc st1 = rq_pc st -> pipe st1 = pipe st -> wks st1 = set_nth j w' (wks st) ->
      tasks st1 = A ++ wk_task w' ++ B.
Proof.
  intros st j w H. destruct (wks_tasks_split _ _ _ H) as (l1 & l2 & E & F & G).
  exists (rq_task (rq_pc st) ++ pipe_tasks (pipe st) ++ flat_map wk_task l1), (flat_map wk_task l2). split.
  - unfold tasks. rewrite E, G, <- !app_assoc. reflexivity.
  - intros w' st1 E1 E2 E3. unfold tasks. rewrite E1, E2, E3, F, G, <- !app_assoc. reflexivity.
Qed.

(* a worker takes the head of the pipeline *)
Lemma tasks_pop : forall st j h r st1, nth_error (wks st) j = Some WK_Idle -> pipe st = h :: r ->
  rq_pc st1 = rq_pc st -> pipe st1 = r -> wks st1 = set_nth j (WK_Ctx h) (wks st) ->
  Permutation (tasks st) (tasks st1).
Proof.
  intros st j h r st1 H Ep E1 E2 E3. destruct (wks_tasks_split _ _ _ H) as (l1 & l2 & E & F & G).
  unfold tasks. rewrite E1, E2, E3, F, Ep, E, !G. cbn [pipe_tasks map wk_task app].
  apply Permutation_app_head. fold (pipe_tasks r). rewrite !app_assoc.
  apply Permutation_middle.
Qed.

Lemma wdone_other : forall (l : list wkpc) j w w',
  nth_error l j = Some w -> w' <> WK_Done ->
  (exists j', nth_error (set_nth j w' l) j' = Some WK_Done) -> exists j', nth_error l j' = Some WK_Done.
Proof.
  intros l j w w' H Hn [j' Hj]. rewrite (nth_error_set_nth _ l j j' w' w H) in Hj.
  destruct (j =? j'); [inversion Hj; congruence|eauto].
Qed.

Lemma unrequested_nupdate : forall a k f id,
  unrequested (set_req a (nupdate k f (s_req a))) id = unrequested a id.
Proof.
  intros. unfold unrequested. cbn.
  pose proof (nlookup_nupdate_keys _ k (N.of_nat id) f (s_req a)) as H.
  destruct (nlookup (N.of_nat id) (nupdate k f (s_req a))), (nlookup (N.of_nat id) (s_req a)); try reflexivity.
  - exfalso. apply (proj1 H); congruence.
  - exfalso. apply (proj2 H); congruence.
Qed.

Lemma nlookup_nupdate_none : forall A k k2 (f : A) m, nlookup k2 m = None -> nlookup k2 (nupdate k f m) = None.
Proof.
  intros. pose proof (nlookup_nupdate_keys _ k k2 f m) as Hk.
  destruct (nlookup k2 (nupdate k f m)) eqn:E; [|reflexivity]. exfalso. apply (proj1 Hk); congruence.
Qed.

Lemma sending_mono : forall (m : list (N * fstatus)) (T T' : list (nat * stage)) (Bad Bad' : Prop),
  (forall n rem, nlookup n m = Some (Sending rem) -> (exists id, n = N.of_nat id /\ In id (map fst T)) \/ Bad) ->
  (forall id, In id (map fst T) -> In id (map fst T')) -> (Bad -> Bad') ->
  forall n rem, nlookup n m = Some (Sending rem) -> (exists id, n = N.of_nat id /\ In id (map fst T')) \/ Bad'.
Proof.
  intros m T T' Bad Bad' H HT HB n rem Hn. destruct (H n rem Hn) as [(id & E & Hin)|Hb]; [left; exists id; auto|right; auto].
Qed.

Lemma keys_restage : forall (A B : list (nat * stage)) h s s',
  map fst (A ++ (h, s) :: B) = map fst (A ++ (h, s') :: B).
Proof. intros. rewrite !map_app. reflexivity. Qed.

Lemma keys_remove : forall (A B : list (nat * stage)) t id,
  In id (map fst (A ++ B)) -> In id (map fst (A ++ t :: B)).
Proof. intros A B t id. rewrite !map_app, !in_app_iff. cbn. tauto. Qed.

Lemma sending_update : forall (m : list (N * fstatus)) (A B : list (nat * stage)) h s s' f (Bad : Prop),
  (forall n rem, nlookup n m = Some (Sending rem) -> (exists id, n = N.of_nat id /\ In id (map fst (A ++ (h, s) :: B))) \/ Bad) ->
  forall n rem, nlookup n (nupdate (N.of_nat h) f m) = Some (Sending rem) ->
    (exists id, n = N.of_nat id /\ In id (map fst (A ++ (h, s') :: B))) \/ Bad.
Proof.
  intros m A B h s s' f Bad H n rem Hn. destruct (N.eq_dec n (N.of_nat h)) as [E|E].
  - left. exists h. split; [exact E|]. rewrite map_app, in_app_iff. right. left. reflexivity.
  - rewrite nlookup_nupdate_other in Hn by exact E. rewrite (keys_restage A B h s' s). eapply H; eauto.
Qed.

Ltac mono_w st := destruct (sw_pc st) as [|[]|[]|]; intuition auto.
Ltac mono_r st := destruct (rq_pc st) as [| | | | |[]|[]|]; intuition auto.

Ltac unf_w :=
  unfold walker_rel, req_rel, files_rel, acc_k, reg, rq_live, lts_bad, rq_failed, setw, s_fail in *.

Section SimW.
  Variable p : Lts.params.
  Variable exp : list Tree.entry.
  Variable ch : nat -> list bytes.
  Variable emsg rmsg : bytes.
  Variable fprog : N.
  Hypothesis Habs : abs_ok p exp ch.

  Notation arun := (AccEvents.run (sender_acc exp)).
  Notation evs := (sender_events exp ch emsg rmsg fprog).
  Notation INV := (inv p exp ch).

  Lemma worker_sim : forall st st' a j, INV st a -> step_worker p j st = Some st' ->
    exists a', arun a (evs st (LWorker j)) = Some a' /\ INV st' a'.
  Proof.
    intros st st' a j HI H.
    destruct (send_ret st) eqn:Eret.
    { destruct (returned_quiet _ _ _ _ _ _ HI Eret) as (_ & _ & Hq).
      unfold step_worker in H. destruct (nth_error (wks st) j) eqn:Ew; [|discriminate].
      rewrite forallb_forall in Hq. apply nth_error_In in Ew. apply Hq in Ew. destruct w; discriminate. }
    destruct HI as [Hb HI]. rewrite Eret in HI. li_destruct HI. destruct Hwalk as [Hle Hw].
    unfold step_worker in H. cbn [sender_events].
    destruct (nth_error (wks st) j) as [w|] eqn:Ew; [|discriminate].
    destruct (tasks_worker _ _ _ Ew) as (A & B & HT & HT').
    destruct w.
    - (* WK_Idle *)
      exists a. split; [reflexivity|].
      destruct (pipe st) as [|h r] eqn:Ep.
      + destruct (pipe_closed st) eqn:Ecl; [|discriminate]. inv_some. subst st'.
        assert (ET : tasks (setw j WK_Done st) = tasks st).
        { rewrite HT. apply (HT' WK_Done); unfold setw; cbn; auto. }
        split; [exact Hb|]. cbn. rewrite Eret.
        constructor; rewrite ?ET; unf_w; cbn; rewrite ?Ep, ?Ecl, ?length_set_nth; fin.
      + inv_some. subst st'.
        assert (PT : Permutation (tasks st) (tasks (setw j (WK_Ctx h) (set_pipe r st))))
          by (eapply tasks_pop; eauto; unfold setw; cbn; auto).
        split; [exact Hb|]. cbn. rewrite Eret.
        constructor; unf_w; cbn; rewrite ?Ep, ?length_set_nth; fin.
        * eapply tasks_ok_perm; [exact PT|exact Htasks].
        * eapply sending_mono; [exact Hsend| |auto].
          intros id Hin. eapply Permutation_in; [apply Permutation_map; exact PT|exact Hin].
        * intros Hex. eapply wdone_other in Hex; eauto; [|discriminate].
          destruct (Hwdone Hex) as [[E _]|E]; [discriminate E|right; exact E].
    - (* WK_Ctx h *)
      exists a. split; [reflexivity|].
      destruct (s_cancel st) eqn:Ec; inv_some; subst st'.
      + (* cancelled: the worker returns ctx.Err() *)
        cbn [wk_task app] in HT.
        assert (ET : tasks (s_fail (setw j WK_Done st)) = A ++ B)
          by (apply (HT' WK_Done); unfold setw, s_fail; cbn; auto).
        rewrite HT in Htasks, Hsend.
        split; [exact Hb|]. cbn. rewrite Eret.
        constructor; rewrite ?ET; unf_w; cbn; rewrite ?length_set_nth; fin.
        * mono_w st.
        * mono_r st.
        * eapply tasks_ok_remove; exact Htasks.
      + assert (ET : tasks (setw j (WK_Open h) st) = tasks st)
          by (rewrite HT; apply (HT' (WK_Open h)); unfold setw; cbn; auto).
        split; [exact Hb|]. cbn. rewrite Eret.
        constructor; rewrite ?ET; unf_w; cbn; rewrite ?length_set_nth; fin.
        intros Hex. eapply wdone_other in Hex; eauto; discriminate.
    - (* WK_Open h *)
      exists a. split; [reflexivity|]. inv_some. subst st'.
      cbn [wk_task app] in HT.
      assert (ET : tasks (setw j (WK_Read h 0) st) = A ++ (h, AtRead 0) :: B)
        by (apply (HT' (WK_Read h 0)); unfold setw; cbn; auto).
      rewrite HT in Htasks, Hsend.
      split; [exact Hb|]. cbn. rewrite Eret.
      constructor; rewrite ?ET; unf_w; cbn; rewrite ?length_set_nth; fin.
      + eapply tasks_ok_restage; [exact Htasks|]. cbn. intros f Hf. split; [lia|exact Hf].
      + rewrite (keys_restage A B h (AtRead 0) Full). exact Hsend.
      + intros Hex. eapply wdone_other in Hex; eauto; discriminate.
    - (* WK_Read h c *)
      exists a. split; [reflexivity|].
      cbn [wk_task app] in HT. rewrite HT in Htasks, Hsend.
      assert (Hch : chunks_of p h = length (ch h)) by apply Habs.
      destruct (Nat.ltb_spec c (chunks_of p h)) as [Hlt|Hge]; inv_some; subst st'.
      + assert (ET : tasks (setw j (WK_Lock h c) st) = A ++ (h, AtLock c) :: B)
          by (apply (HT' (WK_Lock h c)); unfold setw; cbn; auto).
        split; [exact Hb|]. cbn. rewrite Eret.
        constructor; rewrite ?ET; unf_w; cbn; rewrite ?length_set_nth; fin.
        * eapply tasks_ok_restage; [exact Htasks|]. cbn. intros f [_ Hf]. split; [lia|exact Hf].
        * rewrite (keys_restage A B h (AtLock c) (AtRead c)). exact Hsend.
        * intros Hex. eapply wdone_other in Hex; eauto; discriminate.
      + assert (ET : tasks (setw j (WK_LockFin h) st) = A ++ (h, AtFin) :: B)
          by (apply (HT' (WK_LockFin h)); unfold setw; cbn; auto).
        split; [exact Hb|]. cbn. rewrite Eret.
        constructor; rewrite ?ET; unf_w; cbn; rewrite ?length_set_nth; fin.
        * eapply tasks_ok_restage; [exact Htasks|]. cbn. intros f [Hc Hf].
          rewrite skipn_all2 in Hf by lia. exact Hf.
        * rewrite (keys_restage A B h AtFin (AtRead c)). exact Hsend.
        * intros Hex. eapply wdone_other in Hex; eauto; discriminate.
    - (* WK_Lock h c: the mutex is taken, SendMsg(DATA) is called *)
      unfold lock_s in H. cbn in H. destruct (s_mu st); [discriminate|]. inv_some. subst st'.
      cbn [wk_task app] in HT. rewrite HT in Htasks, Hsend.
      destruct (tasks_ok_lookup _ _ _ _ _ _ Htasks) as (f & Hl & Hc & Hf). subst f.
      assert (Hne : nth c (ch h) [] <> []) by (apply (proj1 (proj2 (proj2 (proj2 (proj2 Habs)))) h); apply nth_In; exact Hc).
      rewrite (skipn_nth_cons _ (ch h) c [] Hc) in Hl. rewrite concat_cons in Hl.
      cbn [AccEvents.run]. unfold sender_acc. rewrite Hret, Hfin, Hl.
      destruct (nth c (ch h) []) as [|b d] eqn:Ed; [congruence|]. rewrite strip_prefix_app.
      eexists. split; [reflexivity|].
      assert (ET : tasks (set_s_mu (Some (GWorker j)) (setw j (WK_Send h c) st)) = A ++ (h, AtSend c) :: B)
        by (apply (HT' (WK_Send h c)); unfold setw; cbn; auto).
      split; [exact Hb|]. cbn. rewrite Eret.
      constructor; rewrite ?ET; unf_w; cbn; rewrite ?length_set_nth, ?map_fst_nupdate; fin.
      + intros Hl'. destruct (Hfiles Hl') as [HF HG]. split.
        * intros id. rewrite unrequested_nupdate. apply HF.
        * intros id Hid. apply nlookup_nupdate_none. apply HG. exact Hid.
      + eapply tasks_ok_replace; [exact Htasks|]. cbn. split; [exact Hc|reflexivity].
      + eapply sending_update; exact Hsend.
      + intros Hex. eapply wdone_other in Hex; eauto; discriminate.
    - (* WK_Send h c: SendMsg completes *)
      unfold send_s in H. rewrite Hb in H. destruct (room_sr p st); [|discriminate]. inv_some. subst st'.
      exists a. split; [reflexivity|].
      cbn [wk_task app] in HT. rewrite HT in Htasks, Hsend.
      assert (ET : tasks (setw j (WK_Read h (S c)) (set_s_mu None (set_buf_sr (buf_sr st ++ [Lts.PData h]) st))) = A ++ (h, AtRead (S c)) :: B)
        by (apply (HT' (WK_Read h (S c))); unfold setw; cbn; auto).
      split; [exact Hb|]. cbn. rewrite Eret.
      constructor; rewrite ?ET; unf_w; cbn; rewrite ?length_set_nth; fin.
      + eapply tasks_ok_restage; [exact Htasks|]. cbn. intros f [Hc Hf]. split; [lia|exact Hf].
      + rewrite (keys_restage A B h (AtRead (S c)) (AtSend c)). exact Hsend.
      + intros Hex. eapply wdone_other in Hex; eauto; discriminate.
    - (* WK_LockFin h: SendMsg(DATA, empty) is called *)
      unfold lock_s in H. cbn in H. destruct (s_mu st); [discriminate|]. inv_some. subst st'.
      cbn [wk_task app] in HT. rewrite HT in Htasks, Hsend.
      destruct (tasks_ok_lookup _ _ _ _ _ _ Htasks) as (f & Hl & Hf). cbn in Hf. subst f.
      cbn [AccEvents.run]. unfold sender_acc. rewrite Hret, Hfin, Hl. cbn [is_nil].
      eexists. split; [reflexivity|].
      assert (ET : tasks (set_s_mu (Some (GWorker j)) (setw j (WK_SendFin h) st)) = A ++ (h, AtSendFin) :: B)
        by (apply (HT' (WK_SendFin h)); unfold setw; cbn; auto).
      split; [exact Hb|]. cbn. rewrite Eret.
      constructor; rewrite ?ET; unf_w; cbn; rewrite ?length_set_nth, ?map_fst_nupdate; fin.
      + intros Hl'. destruct (Hfiles Hl') as [HF HG]. split.
        * intros id. rewrite unrequested_nupdate. apply HF.
        * intros id Hid. apply nlookup_nupdate_none. apply HG. exact Hid.
      + eapply tasks_ok_replace; [exact Htasks|]. cbn. reflexivity.
      + eapply sending_update; exact Hsend.
      + intros Hex. eapply wdone_other in Hex; eauto; discriminate.
    - (* WK_SendFin h: SendMsg completes, the worker is idle again *)
      unfold send_s in H. rewrite Hb in H. destruct (room_sr p st); [|discriminate]. inv_some. subst st'.
      exists a. split; [reflexivity|].
      cbn [wk_task app] in HT. rewrite HT in Htasks, Hsend.
      assert (ET : tasks (setw j WK_Idle (set_s_mu None (set_buf_sr (buf_sr st ++ [Lts.PDataEnd h]) st))) = A ++ B)
        by (apply (HT' WK_Idle); unfold setw; cbn; auto).
      split; [exact Hb|]. cbn. rewrite Eret.
      constructor; rewrite ?ET; unf_w; cbn; rewrite ?length_set_nth; fin.
      + eapply tasks_ok_remove; exact Htasks.
      + intros n rem Hn. destruct (Hsend n rem Hn) as [(id & En & Hin)|Hbad]; [|right; exact Hbad].
        left. exists id. split; [exact En|].
        rewrite map_app, in_app_iff in Hin. cbn in Hin. rewrite map_app, in_app_iff.
        destruct Hin as [Hin|[Hin|Hin]]; auto.
        exfalso. subst id n. destruct (tasks_ok_lookup _ _ _ _ _ _ Htasks) as (f & Hl & Hf). cbn in Hf. congruence.
      + intros Hex. eapply wdone_other in Hex; eauto; discriminate.
    - (* WK_Done *) discriminate.
  Qed.
End SimW.
