(* C14 — each system call of the copier on a target path "<dstRoot>/cs/x", where cs are real
   directories ending in d: it keeps Ctx and every chain ending at or above d. *)
From Coq Require Import List NArith Lia Bool ZifyN ZifyNat ZifyBool.
From FS Require Import Sx Model.Path Model.Fs Model.RootPath Model.CopyFs Model.CopyFsSpec
  Proofs.Lex Proofs.PathP Proofs.FsP Proofs.RootPathStrP Proofs.FsCopyFrameP Proofs.FsCopyInvP
  Proofs.FsCopySafeP Proofs.FsCopyLinksP.
Import ListNotations.
Open Scope N_scope.
Open Scope bool_scope.

Section Sys.
  Variables (c : ctx) (f0 : fs) (dr : N) (dcs : list bytes).
  Notation Ctx := (Ctx c f0 dr dcs).
  Notation tpath := (tpath dcs).
  Notation SS := (SS f0 dr).
  Let b := f_next f0.

  (* a target: the current file system, the real-directory chain cs from dstRoot to d, the name x *)
  Record Tgt (f : fs) (cs : list bytes) (d : N) (x : bytes) : Prop := {
    tg_ctx : Ctx f;
    tg_chain : chain f dr cs d;
    tg_cs : Forall nm cs;
    tg_csnul : Forall nonul cs;
    tg_x : nm x;
    tg_xnul : nonul x
  }.

  Definition absent (f : fs) (d : N) (x : bytes) : Prop :=
    match blookup x (dents f d) with None => True | Some i => get f i = None end.

  Lemma tgt_resolve_nf f cs d x r : Tgt f cs d x -> resolve c f (tpath cs x) false = inl r ->
    l_dir r = d /\ l_name r = x /\ l_ino r = blookup x (dents f d).
  Proof.
    intros T H. destruct (resolve_tpath c f0 dr dcs f cs d x false r) as [G|[G _]]; try apply T; auto.
    discriminate.
  Qed.

  Lemma tgt_inv f cs d x : Tgt f cs d x -> Inv f0 dr f.
  Proof. intros T. apply (cx_inv c f0 dr dcs f). apply T. Qed.

  Lemma tgt_okn f cs d x : Tgt f cs d x -> okn x.
  Proof. intros T. split; apply T. Qed.

  Lemma tgt_step f f' cs d x : Tgt f cs d x -> Ctx f' -> above d f f' -> Tgt f' cs d x.
  Proof.
    intros T C A. constructor; try apply T; auto.
    apply (A dr cs d []); [apply T|]. constructor. eapply chain_end_dir. apply T.
  Qed.

  Lemma tgt_dir f cs d x : Tgt f cs d x -> is_dir f d = true.
  Proof. intros T. eapply chain_end_dir. apply T. Qed.

  Lemma tgt_SS f cs d x : Tgt f cs d x -> SS d.
  Proof. intros T. eapply ctx_dir_SS; apply T. Qed.

  (* ---- reads ---- *)
  Lemma t_lstat f cs d x : Tgt f cs d x ->
    match snd (sys_lstat c f (tpath cs x)) with
    | RStat i n => blookup x (dents f d) = Some i /\ get f i = Some n
    | RErr ENOENT => absent f d x
    | _ => True
    end.
  Proof.
    intros T. unfold sys_lstat, resolve_ino.
    destruct (resolve c f (tpath cs x) false) as [r|e] eqn:E.
    - destruct (tgt_resolve_nf f cs d x r T E) as (H1 & H2 & H3).
      unfold absent. rewrite <- H3. destruct (l_ino r) as [i|]; simpl; auto.
      destruct (get f i) eqn:Eg; simpl; auto.
    - destruct (resolve_tpath_err c f0 dr dcs f cs d x false e) as [->|[G _]]; try apply T; auto.
      + simpl. exact I.
      + discriminate.
  Qed.

  (* ---- creation ---- *)
  Definition created (f f' : fs) (d : N) (x : bytes) (nw : N) : Prop :=
    nw = f_next f /\ b <= nw /\ blookup x (dents f' d) = Some nw /\ get f nw = None.

  Lemma t_create_at f cs d x r isdir k mode :
    Tgt f cs d x -> l_dir r = d -> l_name r = x -> blookup x (dents f d) = None -> leaf_kind k ->
    let f' := fst (create_at f r isdir k mode) in
    Ctx f' /\ above d f f' /\ created f f' d x (f_next f) /\
    get f' (f_next f) = Some {| i_kind := k; i_meta := new_meta f d isdir mode |}.
  Proof.
    intros T H1 H2 H3 Hleaf f'.
    destruct (eff_create c f0 dr dcs f cs d r isdir k mode) as (C' & A & Hb & Hbl & Hg & _); try apply T; auto.
    { rewrite H2. exact H3. }
    { rewrite H2. eapply tgt_okn; eauto. }
    rewrite H2 in Hbl. split; [exact C'|]. split; [exact A|]. split; [|exact Hg].
    unfold created. split; [reflexivity|]. split; [exact Hb|]. split; [exact Hbl|].
    apply (inv_fresh f0 dr f (tgt_inv _ _ _ _ T)). lia.
  Qed.

  Lemma t_create f cs d x r isdir k mode :
    Tgt f cs d x -> resolve c f (tpath cs x) false = inl r -> l_ino r = None -> leaf_kind k ->
    let f' := fst (create_at f r isdir k mode) in
    Ctx f' /\ above d f f' /\ created f f' d x (f_next f) /\
    get f' (f_next f) = Some {| i_kind := k; i_meta := new_meta f d isdir mode |}.
  Proof.
    intros T E Hn Hleaf. destruct (tgt_resolve_nf f cs d x r T E) as (H1 & H2 & H3).
    rewrite Hn in H3. symmetry in H3. apply (t_create_at f cs d x r isdir k mode T); auto.
  Qed.

  (* outcome of a call that reports ROk or an errno *)
  Definition outcome (res : result) (P : Prop) : Prop := (exists e, res = RErr e) \/ (res = ROk /\ P).

  Lemma t_mkdir f cs d x mode f' res : Tgt f cs d x -> sys_mkdir c f (tpath cs x) mode = (f', res) ->
    Ctx f' /\ above d f f' /\
    outcome res (created f f' d x (f_next f) /\ is_dir f' (f_next f) = true).
  Proof.
    intros T H. destruct (sys_mkdir_inv _ _ _ _ _ _ H) as [[-> He]|(r & E & Hn & -> & ->)].
    - split; [apply T|]. split; [apply above_refl|]. left; auto.
    - destruct (t_create f cs d x r true (KDir (l_dir r) []) (N.land mode mkdir_mask) T E Hn eq_refl) as (C' & A & Hc & Hg).
      split; [exact C'|]. split; [exact A|]. right. split; auto. split; [exact Hc|]. unfold is_dir, dir_of. rewrite Hg. reflexivity.
  Qed.

  (* the new inode of a non-directory creation is not a directory; it is a symlink only for symlink(2) *)
  Lemma t_mknod f cs d x typ mode rdev f' res : Tgt f cs d x ->
    sys_mknod c f (tpath cs x) typ mode rdev = (f', res) ->
    Ctx f' /\ above d f f' /\
    outcome res (created f f' d x (f_next f) /\ FsP.is_link f' (f_next f) = false).
  Proof.
    intros T H. destruct (sys_mknod_inv _ _ _ _ _ _ _ _ H) as [[-> He]|(r & a & b0 & E & Hn & -> & ->)].
    - split; [apply T|]. split; [apply above_refl|]. left; auto.
    - destruct (t_create f cs d x r false (KSpecial a b0) (N.land mode perm_mask) T E Hn I) as (C' & A & Hc & Hg).
      split; [exact C'|]. split; [exact A|]. right. split; auto. split; [exact Hc|]. unfold FsP.is_link. rewrite Hg. reflexivity.
  Qed.

  Lemma t_mknod_reg f cs d x mode f' res : Tgt f cs d x ->
    sys_mknod_reg c f (tpath cs x) mode = (f', res) ->
    Ctx f' /\ above d f f' /\
    outcome res (created f f' d x (f_next f) /\ FsP.is_link f' (f_next f) = false).
  Proof.
    intros T H. destruct (sys_mknod_reg_inv _ _ _ _ _ _ H) as [[-> He]|(r & E & Hn & -> & ->)].
    - split; [apply T|]. split; [apply above_refl|]. left; auto.
    - destruct (t_create f cs d x r false (KFile []) (N.land mode perm_mask) T E Hn I) as (C' & A & Hc & Hg).
      split; [exact C'|]. split; [exact A|]. right. split; auto. split; [exact Hc|]. unfold FsP.is_link. rewrite Hg. reflexivity.
  Qed.

  Lemma t_symlink f cs d x t f' res : Tgt f cs d x ->
    sys_symlink c f t (tpath cs x) = (f', res) ->
    Ctx f' /\ above d f f' /\ outcome res (created f f' d x (f_next f)).
  Proof.
    intros T H. destruct (sys_symlink_inv _ _ _ _ _ _ H) as [[-> He]|(r & E & Hn & -> & ->)].
    - split; [apply T|]. split; [apply above_refl|]. left; auto.
    - destruct (t_create f cs d x r false (KLink t) 511 T E Hn I) as (C' & A & Hc & Hg).
      split; [exact C'|]. split; [exact A|]. right. split; auto.
  Qed.

  (* open(O_CREAT) follows a final symlink: safe when the name is absent *)
  Lemma t_open_creat f cs d x mode f' res : Tgt f cs d x -> absent f d x ->
    sys_open_wronly c f (tpath cs x) true mode = (f', res) ->
    Ctx f' /\ above d f f' /\
    (forall i, res = RFd i -> i = f_next f /\ created f f' d x i /\ FsP.is_link f' i = false /\
                              exists m, get f' i = Some {| i_kind := KFile []; i_meta := m |}).
  Proof.
    intros T Hab H.
    assert (Hres : forall r, resolve c f (tpath cs x) true = inl r ->
                   l_dir r = d /\ l_name r = x /\ l_ino r = blookup x (dents f d)).
    { intros r E. destruct (resolve_tpath c f0 dr dcs f cs d x true r) as [G|(_ & i & Hb & Hl)]; try apply T; auto.
      exfalso. unfold absent in Hab. rewrite Hb in Hab. unfold FsP.is_link in Hl. rewrite Hab in Hl. discriminate. }
    destruct (sys_open_wronly_inv _ _ _ _ _ _ _ H) as [[-> Hr]|[(r & i & dd & E & Hi & Hg & _ & -> & ->)|(r & E & Hn & _ & -> & ->)]].
    - split; [apply T|]. split; [apply above_refl|]. intros i Hi. exfalso. eapply Hr; eauto.
    - exfalso. destruct (Hres r E) as (_ & _ & H3). unfold absent in Hab. rewrite <- H3, Hi in Hab. congruence.
    - destruct (Hres r E) as (K1 & K2 & K3). rewrite Hn in K3. symmetry in K3.
      destruct (t_create_at f cs d x r false (KFile []) (N.land mode perm_mask) T K1 K2 K3 I) as (C' & A & Hc & Hg).
      split; auto. split; auto. intros i Hi. inversion Hi; subst i. split; [reflexivity|]. split; [exact Hc|]. split.
      + unfold FsP.is_link. rewrite Hg. reflexivity.
      + eexists. exact Hg.
  Qed.

  (* ---- removal ---- *)
  Lemma t_del f cs d x : Tgt f cs d x ->
    let f' := del_ent f d x in
    Ctx f' /\ above d f f' /\ blookup x (dents f' d) = None.
  Proof.
    intros T f'. destruct (eff_del c f0 dr dcs f cs d x) as (C' & A & Hb & _); try apply T. auto.
  Qed.

  Lemma t_unlink f cs d x f' res : Tgt f cs d x -> sys_unlink c f (tpath cs x) = (f', res) ->
    Ctx f' /\ above d f f' /\ outcome res (blookup x (dents f' d) = None).
  Proof.
    intros T H. destruct (sys_unlink_inv _ _ _ _ _ H) as [[-> He]|(r & i & E & Hi & Hd & -> & ->)].
    - split; [apply T|]. split; [apply above_refl|]. left; auto.
    - destruct (tgt_resolve_nf f cs d x r T E) as (H1 & H2 & H3). rewrite H1, H2.
      destruct (t_del f cs d x T) as (C' & A & Hb). split; auto. split; auto. right; auto.
  Qed.

  Lemma t_rmdir f cs d x f' res : Tgt f cs d x -> sys_rmdir c f (tpath cs x) = (f', res) ->
    Ctx f' /\ above d f f' /\ outcome res (blookup x (dents f' d) = None).
  Proof.
    intros T H. destruct (sys_rmdir_inv _ _ _ _ _ H) as [[-> He]|(r & i & E & Hi & Hd & -> & ->)].
    - split; [apply T|]. split; [apply above_refl|]. left; auto.
    - destruct (tgt_resolve_nf f cs d x r T E) as (H1 & H2 & H3). rewrite H1, H2.
      destruct (t_del f cs d x T) as (C' & A & Hb). split; auto. split; auto. right; auto.
  Qed.

  Lemma t_remove_all f cs d x f' res : Tgt f cs d x -> sys_remove_all c f (tpath cs x) = (f', res) ->
    Ctx f' /\ above d f f' /\ outcome res (blookup x (dents f' d) = None).
  Proof.
    intros T H. unfold sys_remove_all in H.
    destruct (tpath cs x) as [|a p] eqn:Ep; [unfold tpath, render in Ep; discriminate|].
    destruct (ends_with_dot (a :: p)).
    { injection H as <- <-. split; [apply T|]. split; [apply above_refl|]. left; eauto. }
    rewrite <- Ep in H.
    destruct (resolve c f (tpath cs x) false) as [r|e] eqn:E.
    - destruct (tgt_resolve_nf f cs d x r T E) as (H1 & H2 & H3).
      destruct (l_ino r) as [i|] eqn:Ei.
      + destruct (is_nil (l_name r)) eqn:En.
        * injection H as <- <-. split; [apply T|]. split; [apply above_refl|]. left; eauto.
        * injection H as <- <-. rewrite H1, H2. destruct (t_del f cs d x T) as (C' & A & Hb).
          split; auto. split; auto. right; auto.
      + injection H as <- <-. split; [apply T|]. split; [apply above_refl|]. right. split; auto.
    - destruct (resolve_tpath_err c f0 dr dcs f cs d x false e) as [->|[G _]]; try apply T; auto; [|discriminate].
      injection H as <- <-. split; [apply T|]. split; [apply above_refl|]. left; eauto.
  Qed.

  (* ---- metadata of the inode the name stands for: an SS inode, and not a symlink when the
          call follows ---- *)
  Definition names_ss (f : fs) (d : N) (x : bytes) (i : N) : Prop :=
    blookup x (dents f d) = Some i /\ SS i.

  Definition meta_post (f f' : fs) : Prop :=
    Ctx f' /\ (forall d, above d f f') /\ (forall j, dents f' j = dents f j) /\
    (forall j, is_dir f' j = is_dir f j) /\ (forall j, FsP.is_link f' j = FsP.is_link f j) /\
    f_next f' = f_next f /\ (forall j, get f j <> None -> get f' j <> None) /\ grows f f'.

  Lemma meta_post_refl f : Ctx f -> meta_post f f.
  Proof. intros C. split; [exact C|]. split; [intros d; apply above_refl|]. repeat split; auto. Qed.

  Lemma meta_post_trans f1 f2 f3 : meta_post f1 f2 -> meta_post f2 f3 -> meta_post f1 f3.
  Proof.
    intros (C2 & A2 & D2 & I2 & L2 & N2 & G2 & W2) (C3 & A3 & D3 & I3 & L3 & N3 & G3 & W3).
    split; auto. split; [|split; [|split; [|split; [|split; [|split; [|eapply grows_trans; eauto]]]]]].
    - intros d a p e q H1 H2. apply (chain_same f1 f3); auto.
      + intros j. rewrite D3, D2. reflexivity.
      + intros j Hj. rewrite I3, I2. exact Hj.
    - intros j. rewrite D3, D2. reflexivity.
    - intros j. rewrite I3, I2. reflexivity.
    - intros j. rewrite L3, L2. reflexivity.
    - congruence.
    - auto.
  Qed.

  Lemma names_ss_meta f f' d x i : names_ss f d x i -> meta_post f f' -> names_ss f' d x i.
  Proof. intros [H1 H2] (_ & _ & D & _). split; auto. rewrite D. exact H1. Qed.

  (* ---- what persists: [grows] for creations and links, [shrinks] for removals ---- *)
  Lemma tgt_alloc f cs d x : Tgt f cs d x -> alloc_ok f.
  Proof. intros T. apply (inv_fresh f0 dr f). eapply tgt_inv; eauto. Qed.

  Lemma g_create f cs d x r isdir k mode : Tgt f cs d x -> resolve c f (tpath cs x) false = inl r -> leaf_kind k ->
    grows f (fst (create_at f r isdir k mode)).
  Proof.
    intros T E Hl. destruct (tgt_resolve_nf f cs d x r T E) as (H1 & _).
    apply grows_create_at; auto; [eapply tgt_alloc; eauto|rewrite H1; eapply tgt_dir; eauto].
  Qed.

  Lemma g_mkdir f cs d x mode f' res : Tgt f cs d x -> sys_mkdir c f (tpath cs x) mode = (f', res) -> grows f f'.
  Proof.
    intros T H. destruct (sys_mkdir_inv _ _ _ _ _ _ H) as [[-> _]|(r & E & Hn & -> & ->)]; [apply grows_refl|].
    eapply g_create; eauto. reflexivity.
  Qed.
  Lemma g_mknod f cs d x typ mode rdev f' res : Tgt f cs d x -> sys_mknod c f (tpath cs x) typ mode rdev = (f', res) -> grows f f'.
  Proof.
    intros T H. destruct (sys_mknod_inv _ _ _ _ _ _ _ _ H) as [[-> _]|(r & a & b0 & E & Hn & -> & ->)]; [apply grows_refl|].
    eapply g_create; eauto. exact I.
  Qed.
  Lemma g_mknod_reg f cs d x mode f' res : Tgt f cs d x -> sys_mknod_reg c f (tpath cs x) mode = (f', res) -> grows f f'.
  Proof.
    intros T H. destruct (sys_mknod_reg_inv _ _ _ _ _ _ H) as [[-> _]|(r & E & Hn & -> & ->)]; [apply grows_refl|].
    eapply g_create; eauto. exact I.
  Qed.
  Lemma g_symlink f cs d x t f' res : Tgt f cs d x -> sys_symlink c f t (tpath cs x) = (f', res) -> grows f f'.
  Proof.
    intros T H. destruct (sys_symlink_inv _ _ _ _ _ _ H) as [[-> _]|(r & E & Hn & -> & ->)]; [apply grows_refl|].
    eapply g_create; eauto. exact I.
  Qed.
  Lemma g_link f cs d x first f' res : Tgt f cs d x -> sys_link c f first (tpath cs x) = (f', res) -> grows f f'.
  Proof.
    intros T H. destruct (sys_link_inv _ _ _ _ _ _ H) as [[-> _]|(i & r & E1 & E & Hn & Hd & -> & ->)]; [apply grows_refl|].
    destruct (tgt_resolve_nf f cs d x r T E) as (H1 & _). apply grows_add_ent. rewrite H1. eapply tgt_dir; eauto.
  Qed.
  Lemma g_open_creat f cs d x mode f' res : Tgt f cs d x -> absent f d x ->
    sys_open_wronly c f (tpath cs x) true mode = (f', res) -> grows f f'.
  Proof.
    intros T Hab H.
    destruct (sys_open_wronly_inv _ _ _ _ _ _ _ H) as [[-> _]|[(r & i & dd & E & Hi & Hg & _ & -> & ->)|(r & E & Hn & _ & -> & ->)]];
      try apply grows_refl.
    destruct (resolve_tpath c f0 dr dcs f cs d x true r) as [(K1 & _)|(_ & i & Hb & Hl)]; try apply T; auto.
    - apply grows_create_at; [eapply tgt_alloc; eauto|rewrite K1; eapply tgt_dir; eauto|exact I].
    - exfalso. unfold absent in Hab. rewrite Hb in Hab. unfold FsP.is_link in Hl. rewrite Hab in Hl. discriminate.
  Qed.

  (* ---- the ghost invariant [keeps_new] ---- *)
  Notation keeps_new := (keeps_new dr b).

  Lemma tgt_next f cs d x : Tgt f cs d x -> b <= f_next f.
  Proof. intros T. apply (inv_next f0 dr f). eapply tgt_inv; eauto. Qed.

  Lemma k_create f cs d x r isdir k mode : Tgt f cs d x -> l_dir r = d -> leaf_kind k ->
    keeps_new f (fst (create_at f r isdir k mode)).
  Proof.
    intros T H1 Hl. apply kn_create_at; auto; [eapply tgt_alloc; eauto|rewrite H1; eapply tgt_dir; eauto|eapply tgt_next; eauto].
  Qed.

  Lemma k_mkdir f cs d x mode f' res : Tgt f cs d x -> sys_mkdir c f (tpath cs x) mode = (f', res) -> keeps_new f f'.
  Proof.
    intros T H. destruct (sys_mkdir_inv _ _ _ _ _ _ H) as [[-> _]|(r & E & Hn & -> & ->)]; [apply keeps_new_refl|].
    destruct (tgt_resolve_nf f cs d x r T E) as (H1 & _). eapply k_create; eauto. reflexivity.
  Qed.
  Lemma k_mknod f cs d x typ mode rdev f' res : Tgt f cs d x -> sys_mknod c f (tpath cs x) typ mode rdev = (f', res) -> keeps_new f f'.
  Proof.
    intros T H. destruct (sys_mknod_inv _ _ _ _ _ _ _ _ H) as [[-> _]|(r & a & b0 & E & Hn & -> & ->)]; [apply keeps_new_refl|].
    destruct (tgt_resolve_nf f cs d x r T E) as (H1 & _). eapply k_create; eauto. exact I.
  Qed.
  Lemma k_mknod_reg f cs d x mode f' res : Tgt f cs d x -> sys_mknod_reg c f (tpath cs x) mode = (f', res) -> keeps_new f f'.
  Proof.
    intros T H. destruct (sys_mknod_reg_inv _ _ _ _ _ _ H) as [[-> _]|(r & E & Hn & -> & ->)]; [apply keeps_new_refl|].
    destruct (tgt_resolve_nf f cs d x r T E) as (H1 & _). eapply k_create; eauto. exact I.
  Qed.
  Lemma k_symlink f cs d x t f' res : Tgt f cs d x -> sys_symlink c f t (tpath cs x) = (f', res) -> keeps_new f f'.
  Proof.
    intros T H. destruct (sys_symlink_inv _ _ _ _ _ _ H) as [[-> _]|(r & E & Hn & -> & ->)]; [apply keeps_new_refl|].
    destruct (tgt_resolve_nf f cs d x r T E) as (H1 & _). eapply k_create; eauto. exact I.
  Qed.
  Lemma k_open_creat f cs d x mode f' res : Tgt f cs d x -> absent f d x ->
    sys_open_wronly c f (tpath cs x) true mode = (f', res) -> keeps_new f f'.
  Proof.
    intros T Hab H.
    destruct (sys_open_wronly_inv _ _ _ _ _ _ _ H) as [[-> _]|[(r & i & dd & E & Hi & Hg & _ & -> & ->)|(r & E & Hn & _ & -> & ->)]];
      try apply keeps_new_refl.
    destruct (resolve_tpath c f0 dr dcs f cs d x true r) as [(K1 & _)|(_ & i & Hb & Hl)]; try apply T; auto.
    - eapply k_create; eauto. exact I.
    - exfalso. unfold absent in Hab. rewrite Hb in Hab. unfold FsP.is_link in Hl. rewrite Hab in Hl. discriminate.
  Qed.
  (* link(2): the linked inode must be one the copier created *)
  Lemma k_link f cs d x first f' res : Tgt f cs d x ->
    (forall i, resolve_ino c f first false = inl i -> b <= i) ->
    sys_link c f first (tpath cs x) = (f', res) -> keeps_new f f'.
  Proof.
    intros T Hnew H. destruct (sys_link_inv _ _ _ _ _ _ H) as [[-> _]|(i & r & E1 & E & Hn & Hd & -> & ->)]; [apply keeps_new_refl|].
    destruct (tgt_resolve_nf f cs d x r T E) as (H1 & _). rewrite H1.
    apply kn_add_ent; auto. eapply tgt_dir; eauto.
  Qed.
  Lemma k_del f cs d x : Tgt f cs d x -> keeps_new f (del_ent f d x).
  Proof. intros T. apply kn_del_ent. apply (inv_nodup f0 dr f); [eapply tgt_inv; eauto|eapply tgt_SS; eauto]. Qed.
  Lemma k_unlink f cs d x f' res : Tgt f cs d x -> sys_unlink c f (tpath cs x) = (f', res) -> keeps_new f f'.
  Proof.
    intros T H. destruct (sys_unlink_inv _ _ _ _ _ H) as [[-> _]|(r & i & E & Hi & Hd & -> & ->)]; [apply keeps_new_refl|].
    destruct (tgt_resolve_nf f cs d x r T E) as (H1 & H2 & _). rewrite H1, H2. eapply k_del; eauto.
  Qed.
  Lemma k_rmdir f cs d x f' res : Tgt f cs d x -> sys_rmdir c f (tpath cs x) = (f', res) -> keeps_new f f'.
  Proof.
    intros T H. destruct (sys_rmdir_inv _ _ _ _ _ H) as [[-> _]|(r & i & E & Hi & Hd & -> & ->)]; [apply keeps_new_refl|].
    destruct (tgt_resolve_nf f cs d x r T E) as (H1 & H2 & _). rewrite H1, H2. eapply k_del; eauto.
  Qed.
  Lemma k_remove_all f cs d x f' res : Tgt f cs d x -> sys_remove_all c f (tpath cs x) = (f', res) -> keeps_new f f'.
  Proof.
    intros T H. destruct (sys_remove_all_inv _ _ _ _ _ H) as [->|(r & i & E & Hi & Hd & -> & ->)]; [apply keeps_new_refl|].
    destruct (tgt_resolve_nf f cs d x r T E) as (H1 & H2 & _). rewrite H1, H2. eapply k_del; eauto.
  Qed.
  Lemma k_meta f f' : meta_post f f' -> keeps_new f f'.
  Proof. intros (_ & _ & D & I & _). apply kn_same; auto. Qed.

  Lemma s_del f cs d x : Tgt f cs d x -> shrinks f (del_ent f d x) d x.
  Proof.
    intros T. apply shrinks_del_ent. apply (inv_nodup f0 dr f); [eapply tgt_inv; eauto|eapply tgt_SS; eauto].
  Qed.
  Lemma s_unlink f cs d x f' res : Tgt f cs d x -> sys_unlink c f (tpath cs x) = (f', res) -> shrinks f f' d x.
  Proof.
    intros T H. destruct (sys_unlink_inv _ _ _ _ _ H) as [[-> _]|(r & i & E & Hi & Hd & -> & ->)];
      [apply grows_shrinks, grows_refl|].
    destruct (tgt_resolve_nf f cs d x r T E) as (H1 & H2 & _). rewrite H1, H2. eapply s_del; eauto.
  Qed.
  Lemma s_rmdir f cs d x f' res : Tgt f cs d x -> sys_rmdir c f (tpath cs x) = (f', res) -> shrinks f f' d x.
  Proof.
    intros T H. destruct (sys_rmdir_inv _ _ _ _ _ H) as [[-> _]|(r & i & E & Hi & Hd & -> & ->)];
      [apply grows_shrinks, grows_refl|].
    destruct (tgt_resolve_nf f cs d x r T E) as (H1 & H2 & _). rewrite H1, H2. eapply s_del; eauto.
  Qed.
  Lemma s_remove_all f cs d x f' res : Tgt f cs d x -> sys_remove_all c f (tpath cs x) = (f', res) -> shrinks f f' d x.
  Proof.
    intros T H. destruct (sys_remove_all_inv _ _ _ _ _ H) as [->|(r & i & E & Hi & Hd & -> & ->)];
      [apply grows_shrinks, grows_refl|].
    destruct (tgt_resolve_nf f cs d x r T E) as (H1 & H2 & _). rewrite H1, H2. eapply s_del; eauto.
  Qed.

  Lemma t_put f i n n' : Ctx f -> SS i -> get f i = Some n -> same_shape n n' -> meta_post f (put f i n').
  Proof.
    intros C Hs Hg Hsh. destruct (eff_put c f0 dr dcs f i n n' C Hs Hg Hsh) as (H1 & H2 & H3 & H4 & H5 & H6 & H7).
    repeat (split; [assumption|]). eapply grows_put; eauto.
  Qed.

  Lemma t_put_meta f i n m : Ctx f -> SS i -> get f i = Some n -> meta_post f (put f i (set_meta n m)).
  Proof.
    intros C Hs Hg. apply (t_put f i n); auto.
    unfold same_shape. destruct n as [[p es|x|t|ty rd] m0]; simpl; auto.
  Qed.

  Lemma tgt_ino_nf f cs d x i : Tgt f cs d x -> resolve_ino c f (tpath cs x) false = inl i ->
    blookup x (dents f d) = Some i.
  Proof.
    intros T H. unfold resolve_ino in H. destruct (resolve c f (tpath cs x) false) as [r|e] eqn:E; [|discriminate].
    destruct (tgt_resolve_nf f cs d x r T E) as (_ & _ & H3). rewrite <- H3.
    destruct (l_ino r); inversion H; auto.
  Qed.

  Lemma tgt_ino_fl f cs d x i j : Tgt f cs d x -> blookup x (dents f d) = Some j -> FsP.is_link f j = false ->
    resolve_ino c f (tpath cs x) true = inl i -> i = j.
  Proof.
    intros T Hb Hl H. unfold resolve_ino in H. destruct (resolve c f (tpath cs x) true) as [r|e] eqn:E; [|discriminate].
    destruct (resolve_tpath c f0 dr dcs f cs d x true r) as [(_ & _ & H3)|(_ & k & Hk & Hkl)]; try apply T; auto.
    - rewrite Hb in H3. rewrite H3 in H. inversion H; auto.
    - rewrite Hb in Hk. inversion Hk; subst. congruence.
  Qed.

  Lemma t_lchown f cs d x i u g f' res : Tgt f cs d x -> names_ss f d x i ->
    sys_lchown c f (tpath cs x) u g = (f', res) -> meta_post f f'.
  Proof.
    intros T [Hb Hs] H. destruct (sys_lchown_inv _ _ _ _ _ _ _ H) as [[-> _]|(j & n & m & E & Hg & -> & ->)].
    - apply meta_post_refl. apply T.
    - rewrite (tgt_ino_nf f cs d x j T E) in Hb. inversion Hb; subst. apply t_put_meta; auto. apply T.
  Qed.

  Lemma t_utimens f cs d x i t f' res : Tgt f cs d x -> names_ss f d x i ->
    sys_utimens c f (tpath cs x) t = (f', res) -> meta_post f f'.
  Proof.
    intros T [Hb Hs] H. destruct (sys_utimens_inv _ _ _ _ _ _ H) as [[-> _]|(j & n & m & E & Hg & -> & ->)].
    - apply meta_post_refl. apply T.
    - rewrite (tgt_ino_nf f cs d x j T E) in Hb. inversion Hb; subst. apply t_put_meta; auto. apply T.
  Qed.

  Lemma t_lsetxattr f cs d x i k v f' res : Tgt f cs d x -> names_ss f d x i ->
    sys_lsetxattr c f (tpath cs x) k v = (f', res) -> meta_post f f'.
  Proof.
    intros T [Hb Hs] H. destruct (sys_lsetxattr_inv _ _ _ _ _ _ _ H) as [[-> _]|(j & n & m & E & Hg & -> & ->)].
    - apply meta_post_refl. apply T.
    - rewrite (tgt_ino_nf f cs d x j T E) in Hb. inversion Hb; subst. apply t_put_meta; auto. apply T.
  Qed.

  Lemma t_chmod f cs d x i mode f' res : Tgt f cs d x -> names_ss f d x i -> FsP.is_link f i = false ->
    sys_chmod c f (tpath cs x) mode = (f', res) -> meta_post f f'.
  Proof.
    intros T [Hb Hs] Hl H. destruct (sys_chmod_inv _ _ _ _ _ _ H) as [[-> _]|(j & n & m & E & Hg & -> & ->)].
    - apply meta_post_refl. apply T.
    - rewrite (tgt_ino_fl f cs d x j i T Hb Hl E). apply t_put_meta; auto. apply T.
      rewrite <- (tgt_ino_fl f cs d x j i T Hb Hl E). exact Hg.
  Qed.

  (* ---- an open descriptor of a new regular file ---- *)
  Lemma t_fd_truncate f i : Ctx f -> b <= i -> meta_post f (fd_truncate f i).
  Proof.
    intros C Hi. unfold fd_truncate. destruct (get f i) as [[[p es|x|t|ty rd] m]|] eqn:E; try (apply meta_post_refl; auto).
    eapply (t_put f i); [exact C|right; auto|exact E|exact I].
  Qed.

  Lemma t_fd_pwrite f i off data f' res : Ctx f -> b <= i -> fd_pwrite f i off data = (f', res) -> meta_post f f'.
  Proof.
    intros C Hi H. unfold fd_pwrite in H. destruct (get f i) as [[[p es|x|t|ty rd] m]|] eqn:E;
      try (inversion H; subst; apply meta_post_refl; auto).
    destruct data; inversion H; subst; [apply meta_post_refl; auto|].
    eapply (t_put f i); [exact C|right; auto|exact E|exact I].
  Qed.

  (* ---- link(2): the new name is the target; the old path may lead anywhere ---- *)
  Lemma t_link f cs d x first f' res : Tgt f cs d x -> sys_link c f first (tpath cs x) = (f', res) ->
    Ctx f' /\ above d f f' /\
    outcome res (exists i, resolve_ino c f first false = inl i /\ blookup x (dents f' d) = Some i /\
                           f' = add_ent f d x i).
  Proof.
    intros T H. destruct (sys_link_inv _ _ _ _ _ _ H) as [[-> He]|(i & r & E1 & E & Hn & Hd & -> & ->)].
    - split; [apply T|]. split; [apply above_refl|]. left; auto.
    - destruct (tgt_resolve_nf f cs d x r T E) as (H1 & H2 & H3). rewrite Hn in H3. symmetry in H3.
      rewrite H1, H2.
      destruct (eff_add c f0 dr dcs f cs d x i) as (C' & A & Hb & _); try apply T; auto.
      { eapply tgt_okn; eauto. }
      { destruct (resolve_ino_src _ _ _ _ _ E1) as [Hx|(j & nme & Hx)]; [congruence|].
        eapply (inv_target f0 dr f); eauto. eapply tgt_inv; eauto. }
      split; auto. split; auto. right. split; auto. exists i. auto.
  Qed.
End Sys.
