(* C14 — each system call of the copier on a target path "<dstRoot>/cs/x", where cs are real
   directories ending in d: it keeps Ctx and every chain ending at or above d. *)
From Coq Require Import List NArith Lia Bool ZifyN ZifyNat ZifyBool.
From FS Require Import Sx Model.Path Model.Fs Model.RootPath Model.CopyFs Model.CopyFsSpec
  Proofs.Lex Proofs.PathP Proofs.FsP Proofs.RootPathStrP Proofs.FsCopyFrameP Proofs.FsCopyInvP
  Proofs.FsCopySafeP.
Import ListNotations.
Open Scope N_scope.
Open Scope bool_scope.

Section Sys.
  Variables (c : ctx) (f0 : fs) (dr : N) (dcs : list bytes).
  Notation Ctx := (Ctx c f0 dr dcs).
  Notation tpath := (tpath dcs).
  Notation SS := (SS f0 dr).
  Let b := f_next f0.

  (* a target: the current file system, the real-directory chain cs from dstRoot to d, the name x *)
  Record Tgt (f : fs) (cs : list bytes) (d : N) (x : bytes) : Prop := {
    tg_ctx : Ctx f;
    tg_chain : chain f dr cs d;
    tg_cs : Forall nm cs;
    tg_csnul : Forall nonul cs;
    tg_x : nm x;
    tg_xnul : nonul x
  }.

  Definition absent (f : fs) (d : N) (x : bytes) : Prop :=
    match blookup x (dents f d) with None => True | Some i => get f i = None end.

  Lemma tgt_resolve_nf f cs d x r : Tgt f cs d x -> resolve c f (tpath cs x) false = inl r ->
    l_dir r = d /\ l_name r = x /\ l_ino r = blookup x (dents f d).
  Proof.
    intros T H. destruct (resolve_tpath c f0 dr dcs f cs d x false r) as [G|[G _]]; try apply T; auto.
    discriminate.
  Qed.

  Lemma tgt_inv f cs d x : Tgt f cs d x -> Inv f0 dr f.
  Proof. intros T. apply (cx_inv c f0 dr dcs f). apply T. Qed.

  Lemma tgt_okn f cs d x : Tgt f cs d x -> okn x.
  Proof. intros T. split; apply T. Qed.

  Lemma tgt_step f f' cs d x : Tgt f cs d x -> Ctx f' -> above d f f' -> Tgt f' cs d x.
  Proof.
    intros T C A. constructor; try apply T; auto.
    apply (A dr cs d []); [apply T|]. constructor. eapply chain_end_dir. apply T.
  Qed.

  Lemma tgt_dir f cs d x : Tgt f cs d x -> is_dir f d = true.
  Proof. intros T. eapply chain_end_dir. apply T. Qed.

  Lemma tgt_SS f cs d x : Tgt f cs d x -> SS d.
  Proof. intros T. eapply ctx_dir_SS; apply T. Qed.

  (* ---- reads ---- *)
  Lemma t_lstat f cs d x : Tgt f cs d x ->
    match snd (sys_lstat c f (tpath cs x)) with
    | RStat i n => blookup x (dents f d) = Some i /\ get f i = Some n
    | RErr ENOENT => absent f d x
    | _ => True
    end.
  Proof.
    intros T. unfold sys_lstat, resolve_ino.
    destruct (resolve c f (tpath cs x) false) as [r|e] eqn:E.
    - destruct (tgt_resolve_nf f cs d x r T E) as (H1 & H2 & H3).
      unfold absent. rewrite <- H3. destruct (l_ino r) as [i|]; simpl; auto.
      destruct (get f i) eqn:Eg; simpl; auto.
    - destruct (resolve_tpath_err c f0 dr dcs f cs d x false e) as [->|[G _]]; try apply T; auto.
      + simpl. exact I.
      + discriminate.
  Qed.

  (* ---- creation ---- *)
  Definition created (f f' : fs) (d : N) (x : bytes) (nw : N) : Prop :=
    nw = f_next f /\ b <= nw /\ blookup x (dents f' d) = Some nw /\ get f nw = None.

  Lemma t_create_at f cs d x r isdir k mode :
    Tgt f cs d x -> l_dir r = d -> l_name r = x -> blookup x (dents f d) = None -> leaf_kind k ->
    let f' := fst (create_at f r isdir k mode) in
    Ctx f' /\ above d f f' /\ created f f' d x (f_next f) /\
    get f' (f_next f) = Some {| i_kind := k; i_meta := new_meta f d isdir mode |}.
  Proof.
    intros T H1 H2 H3 Hleaf f'.
    destruct (eff_create c f0 dr dcs f cs d r isdir k mode) as (C' & A & Hb & Hbl & Hg & _); try apply T; auto.
    { rewrite H2. exact H3. }
    { rewrite H2. eapply tgt_okn; eauto. }
    rewrite H2 in Hbl. split; [exact C'|]. split; [exact A|]. split; [|exact Hg].
    unfold created. split; [reflexivity|]. split; [exact Hb|]. split; [exact Hbl|].
    apply (inv_fresh f0 dr f (tgt_inv _ _ _ _ T)). lia.
  Qed.

  Lemma t_create f cs d x r isdir k mode :
    Tgt f cs d x -> resolve c f (tpath cs x) false = inl r -> l_ino r = None -> leaf_kind k ->
    let f' := fst (create_at f r isdir k mode) in
    Ctx f' /\ above d f f' /\ created f f' d x (f_next f) /\
    get f' (f_next f) = Some {| i_kind := k; i_meta := new_meta f d isdir mode |}.
  Proof.
    intros T E Hn Hleaf. destruct (tgt_resolve_nf f cs d x r T E) as (H1 & H2 & H3).
    rewrite Hn in H3. symmetry in H3. apply (t_create_at f cs d x r isdir k mode T); auto.
  Qed.

  Lemma t_mkdir f cs d x mode f' res : Tgt f cs d x -> sys_mkdir c f (tpath cs x) mode = (f', res) ->
    Ctx f' /\ above d f f' /\
    (res = ROk -> created f f' d x (f_next f) /\ is_dir f' (f_next f) = true).
  Proof.
    intros T H. destruct (sys_mkdir_inv _ _ _ _ _ _ H) as [[-> Hr]|(r & E & Hn & -> & ->)].
    - split; [apply T|]. split; [apply above_refl|]. intros; congruence.
    - destruct (t_create f cs d x r true (KDir (l_dir r) []) (N.land mode mkdir_mask) T E Hn eq_refl) as (C' & A & Hc & Hg).
      split; [exact C'|]. split; [exact A|]. intros _. split; [exact Hc|]. unfold is_dir, dir_of. rewrite Hg. reflexivity.
  Qed.

  (* the new inode of a non-directory creation is not a directory; it is a symlink only for symlink(2) *)
  Lemma t_mknod f cs d x typ mode rdev f' res : Tgt f cs d x ->
    sys_mknod c f (tpath cs x) typ mode rdev = (f', res) ->
    Ctx f' /\ above d f f' /\
    (res = ROk -> created f f' d x (f_next f) /\ FsP.is_link f' (f_next f) = false).
  Proof.
    intros T H. destruct (sys_mknod_inv _ _ _ _ _ _ _ _ H) as [[-> Hr]|(r & a & b0 & E & Hn & -> & ->)].
    - split; [apply T|]. split; [apply above_refl|]. intros; congruence.
    - destruct (t_create f cs d x r false (KSpecial a b0) (N.land mode perm_mask) T E Hn I) as (C' & A & Hc & Hg).
      split; [exact C'|]. split; [exact A|]. intros _. split; [exact Hc|]. unfold FsP.is_link. rewrite Hg. reflexivity.
  Qed.

  Lemma t_mknod_reg f cs d x mode f' res : Tgt f cs d x ->
    sys_mknod_reg c f (tpath cs x) mode = (f', res) ->
    Ctx f' /\ above d f f' /\
    (res = ROk -> created f f' d x (f_next f) /\ FsP.is_link f' (f_next f) = false).
  Proof.
    intros T H. destruct (sys_mknod_reg_inv _ _ _ _ _ _ H) as [[-> Hr]|(r & E & Hn & -> & ->)].
    - split; [apply T|]. split; [apply above_refl|]. intros; congruence.
    - destruct (t_create f cs d x r false (KFile []) (N.land mode perm_mask) T E Hn I) as (C' & A & Hc & Hg).
      split; [exact C'|]. split; [exact A|]. intros _. split; [exact Hc|]. unfold FsP.is_link. rewrite Hg. reflexivity.
  Qed.

  Lemma t_symlink f cs d x t f' res : Tgt f cs d x ->
    sys_symlink c f t (tpath cs x) = (f', res) ->
    Ctx f' /\ above d f f' /\ (res = ROk -> created f f' d x (f_next f)).
  Proof.
    intros T H. destruct (sys_symlink_inv _ _ _ _ _ _ H) as [[-> Hr]|(r & E & Hn & -> & ->)].
    - split; [apply T|]. split; [apply above_refl|]. intros; congruence.
    - destruct (t_create f cs d x r false (KLink t) 511 T E Hn I) as (C' & A & Hc & Hg).
      split; [exact C'|]. split; [exact A|]. intros _. exact Hc.
  Qed.

  (* open(O_CREAT) follows a final symlink: safe when the name is absent *)
  Lemma t_open_creat f cs d x mode f' res : Tgt f cs d x -> absent f d x ->
    sys_open_wronly c f (tpath cs x) true mode = (f', res) ->
    Ctx f' /\ above d f f' /\
    (forall i, res = RFd i -> i = f_next f /\ created f f' d x i /\ FsP.is_link f' i = false /\
                              exists m, get f' i = Some {| i_kind := KFile []; i_meta := m |}).
  Proof.
    intros T Hab H.
    assert (Hres : forall r, resolve c f (tpath cs x) true = inl r ->
                   l_dir r = d /\ l_name r = x /\ l_ino r = blookup x (dents f d)).
    { intros r E. destruct (resolve_tpath c f0 dr dcs f cs d x true r) as [G|(_ & i & Hb & Hl)]; try apply T; auto.
      exfalso. unfold absent in Hab. rewrite Hb in Hab. unfold FsP.is_link in Hl. rewrite Hab in Hl. discriminate. }
    destruct (sys_open_wronly_inv _ _ _ _ _ _ _ H) as [[-> Hr]|[(r & i & dd & E & Hi & Hg & _ & -> & ->)|(r & E & Hn & _ & -> & ->)]].
    - split; [apply T|]. split; [apply above_refl|]. intros i Hi. exfalso. eapply Hr; eauto.
    - exfalso. destruct (Hres r E) as (_ & _ & H3). unfold absent in Hab. rewrite <- H3, Hi in Hab. congruence.
    - destruct (Hres r E) as (K1 & K2 & K3). rewrite Hn in K3. symmetry in K3.
      destruct (t_create_at f cs d x r false (KFile []) (N.land mode perm_mask) T K1 K2 K3 I) as (C' & A & Hc & Hg).
      split; auto. split; auto. intros i Hi. inversion Hi; subst i. split; [reflexivity|]. split; [exact Hc|]. split.
      + unfold FsP.is_link. rewrite Hg. reflexivity.
      + eexists. exact Hg.
  Qed.
End Sys.
