(* Proofs about the FollowLinks model (Model/FollowLinks.v). *)
From Coq Require Import List NArith Bool Lia Arith.
From FS Require Import Sx Model.Path Model.Stat Model.Tree Model.FollowLinks Proofs.Lex Proofs.PathP.
Import ListNotations.
Open Scope N_scope.
Open Scope bool_scope.

(* ------------------------------------------------------------------ bytewise order *)
Lemma cb_eq a b : cmp_bytes a b = Eq <-> a = b.
Proof. rewrite <- cmpb_is_cmp_bytes. apply cmpb_eq. Qed.
Lemma cb_refl a : cmp_bytes a a = Eq. Proof. apply cb_eq; auto. Qed.
Lemma cb_opp a b : cmp_bytes b a = CompOpp (cmp_bytes a b).
Proof. rewrite <- !cmpb_is_cmp_bytes. apply cmpb_opp. Qed.
Lemma cb_trans a b c : cmp_bytes a b = Lt -> cmp_bytes b c = Lt -> cmp_bytes a c = Lt.
Proof. rewrite <- !cmpb_is_cmp_bytes. apply cmpb_trans. Qed.
Lemma cb_gt_lt a b : cmp_bytes a b = Gt -> cmp_bytes b a = Lt.
Proof. intros H. rewrite cb_opp, H. reflexivity. Qed.
Lemma cb_lt_gt a b : cmp_bytes a b = Lt -> cmp_bytes b a = Gt.
Proof. intros H. rewrite cb_opp, H. reflexivity. Qed.

Lemma cb_app_same d a b : cmp_bytes (d ++ a) (d ++ b) = cmp_bytes a b.
Proof. induction d as [|x d IH]; [reflexivity|]. simpl. rewrite N.compare_refl. exact IH. Qed.

Lemma cb_nil_le s : cmp_bytes [] s <> Gt.
Proof. destruct s; simpl; congruence. Qed.

(* a <= s < a ++ t  implies  a is a prefix of s *)
Lemma cb_between_prefix a s t :
  cmp_bytes a s <> Gt -> cmp_bytes s (a ++ t) = Lt -> exists y, s = a ++ y.
Proof.
  revert s; induction a as [|h a IH]; intros s H1 H2; [exists s; reflexivity|].
  destruct s as [|x s]; [simpl in H1; congruence|].
  simpl in H1, H2. destruct (N.compare h x) eqn:E.
  - apply N.compare_eq in E. subst x. rewrite N.compare_refl in H2.
    destruct (IH s H1 H2) as [y ->]. exists y. reflexivity.
  - rewrite N.compare_antisym, E in H2. simpl in H2. discriminate.
  - congruence.
Qed.

Lemma mem_In x l : mem x l = true <-> In x l.
Proof.
  induction l as [|y l IH]; simpl; [split; [discriminate|tauto]|].
  rewrite orb_true_iff, IH, bytes_eqb_eq. split; intros [H|H]; auto.
Qed.
Lemma mem_false x l : mem x l = false <-> ~ In x l.
Proof. rewrite <- mem_In. destruct (mem x l); split; congruence. Qed.

(* ------------------------------------------------------------------ sort.Strings *)
(* strictly ascending: every element is below all later ones *)
Fixpoint ssorted (l : list bytes) : Prop :=
  match l with
  | [] => True
  | a :: r => (forall b, In b r -> cmp_bytes a b = Lt) /\ ssorted r
  end.

Lemma sorted_b_ssorted l : ssorted l -> sorted_b l = true.
Proof.
  induction l as [|a r IH]; intros H; [reflexivity|].
  destruct H as [Ha Hr]. destruct r as [|b r]; [reflexivity|].
  cbn [sorted_b]. rewrite (Ha b (or_introl eq_refl)). apply IH; auto.
Qed.

Lemma ssorted_sorted_b l : sorted_b l = true -> ssorted l.
Proof.
  induction l as [|a r IH]; intros H; [exact I|].
  destruct r as [|b r]; [split; [intros ? []|exact I]|].
  cbn [sorted_b] in H. destruct (cmp_bytes a b) eqn:E; try discriminate.
  specialize (IH H). split; auto.
  intros c [<-|Hc]; auto. destruct IH as [Hb _]. eapply cb_trans; eauto.
Qed.

Lemma insert_sorted_In x l z : In z (insert_sorted x l) <-> z = x \/ In z l.
Proof.
  induction l as [|y r IH]; simpl; [intuition|].
  destruct (cmp_bytes x y); simpl; try rewrite IH; intuition.
Qed.

Lemma insert_sorted_ssorted x l : ~ In x l -> ssorted l -> ssorted (insert_sorted x l).
Proof.
  induction l as [|y r IH]; intros Hn Hs; [simpl; split; [intros ? []|exact I]|].
  destruct Hs as [Hy Hr]. simpl. destruct (cmp_bytes x y) eqn:E.
  - apply cb_eq in E. subst y. exfalso. apply Hn. left; reflexivity.
  - split; [|split; auto]. intros b [<-|Hb]; auto. eapply cb_trans; eauto.
  - split.
    + intros b Hb. apply insert_sorted_In in Hb. destruct Hb as [->|Hb]; auto. apply cb_gt_lt; auto.
    + apply IH; auto. intro; apply Hn; right; auto.
Qed.

Lemma sort_bytes_In l z : In z (sort_bytes l) <-> In z l.
Proof.
  induction l as [|x l IH]; simpl; [tauto|]. unfold sort_bytes in *. simpl.
  rewrite insert_sorted_In, IH. intuition.
Qed.

Lemma sort_bytes_ssorted l : NoDup l -> ssorted (sort_bytes l).
Proof.
  induction 1 as [|x l Hn Hd IH]; [exact I|].
  change (sort_bytes (x :: l)) with (insert_sorted x (sort_bytes l)).
  apply insert_sorted_ssorted; auto. rewrite sort_bytes_In. exact Hn.
Qed.

(* ------------------------------------------------------------------ dedupePaths *)
Lemma inside_split a b : inside a b = true -> exists r, b = a ++ sep :: r.
Proof.
  unfold inside. intros H. apply has_prefix_app in H. destruct H as [r ->].
  exists r. rewrite <- app_assoc. reflexivity.
Qed.

Lemma inside_lt a b : inside a b = true -> cmp_bytes a b = Lt.
Proof.
  intros H. apply inside_split in H. destruct H as [r ->].
  rewrite <- (app_nil_r a) at 1. rewrite cb_app_same. reflexivity.
Qed.

(* the output is a sub-sequence of the input *)
Lemma dedupe_from_In kept l out : dedupe_from kept l = Some out -> forall x, In x out -> In x l.
Proof.
  revert kept out; induction l as [|s r IH]; intros kept out H x Hx.
  - simpl in H. inversion H; subst. destruct Hx.
  - simpl in H. destruct (bytes_eqb s s_dot); [discriminate|].
    destruct (existsb (fun o => inside o s) kept).
    + right. eapply IH; eauto.
    + destruct (dedupe_from (s :: kept) r) as [o|] eqn:E; [|discriminate]. simpl in H. inversion H; subst.
      destruct Hx as [<-|Hx]; [left; auto|right; eapply IH; eauto].
Qed.

Lemma dedupe_from_ssorted kept l out : ssorted l -> dedupe_from kept l = Some out -> ssorted out.
Proof.
  revert kept out; induction l as [|s r IH]; intros kept out Hs H.
  - simpl in H. inversion H; subst. exact I.
  - destruct Hs as [Hs1 Hs2]. simpl in H. destruct (bytes_eqb s s_dot); [discriminate|].
    destruct (existsb (fun o => inside o s) kept); [eapply IH; eauto|].
    destruct (dedupe_from (s :: kept) r) as [o|] eqn:E; [|discriminate]. simpl in H. inversion H; subst.
    split; [|eapply IH; eauto]. intros b Hb. apply Hs1. eapply dedupe_from_In; eauto.
Qed.

Lemma dedupe_from_dot kept l : In s_dot l -> dedupe_from kept l = None.
Proof.
  revert kept; induction l as [|s r IH]; intros kept H; [destruct H|].
  simpl. destruct (bytes_eqb s s_dot) eqn:E; [reflexivity|].
  destruct H as [H|H]; [subst s; rewrite bytes_eqb_refl in E; discriminate|].
  destruct (existsb (fun o => inside o s) kept); [apply IH; auto|]. rewrite IH by auto. reflexivity.
Qed.

Lemma dedupe_from_nodot kept l : ~ In s_dot l -> exists out, dedupe_from kept l = Some out.
Proof.
  revert kept; induction l as [|s r IH]; intros kept H; [eexists; reflexivity|].
  simpl. destruct (bytes_eqb s s_dot) eqn:E.
  - apply bytes_eqb_eq in E. subst. exfalso. apply H. left; auto.
  - assert (Hr : ~ In s_dot r) by (intro; apply H; right; auto).
    destruct (existsb (fun o => inside o s) kept); [apply IH; auto|].
    destruct (IH (s :: kept) Hr) as [o ->]. eexists; reflexivity.
Qed.

(* every input element is inside an element kept earlier, or kept, or inside a kept one *)
Lemma dedupe_from_covers kept l out :
  dedupe_from kept l = Some out ->
  forall x, In x l ->
    (exists o, In o kept /\ inside o x = true) \/ exists e, In e out /\ (e = x \/ inside e x = true).
Proof.
  revert kept out; induction l as [|s r IH]; intros kept out H x Hx; [destruct Hx|].
  simpl in H. destruct (bytes_eqb s s_dot); [discriminate|].
  destruct (existsb (fun o => inside o s) kept) eqn:Ep.
  - destruct Hx as [<-|Hx]; [|eapply IH; eauto].
    left. apply existsb_exists in Ep. exact Ep.
  - destruct (dedupe_from (s :: kept) r) as [o|] eqn:E; [|discriminate]. simpl in H. inversion H; subst.
    destruct Hx as [<-|Hx]; [right; exists s; split; [left|]; auto|].
    destruct (IH (s :: kept) o E x Hx) as [(o' & [<-|Ho] & Hi)|(e & He & Hc)].
    + right. exists s. split; [left; auto|right; auto].
    + left. exists o'. auto.
    + right. exists e. split; [right; auto|auto].
Qed.

Definition pairwise_min (l : list bytes) : Prop := forall a b, In a l -> In b l -> inside a b = false.

Lemma inside_irrefl a : inside a a = false.
Proof. destruct (inside a a) eqn:E; auto. apply inside_lt in E. rewrite cb_refl in E. discriminate. Qed.

Lemma dedupe_from_minimal kept l out :
  ssorted l -> dedupe_from kept l = Some out ->
  (forall a b, In a kept -> In b out -> inside a b = false) /\ pairwise_min out.
Proof.
  revert kept out; induction l as [|s r IH]; intros kept out Hs H.
  - simpl in H. inversion H; subst. split; [intros ? ? ? []|intros ? ? []].
  - destruct Hs as [Hs1 Hs2]. simpl in H. destruct (bytes_eqb s s_dot); [discriminate|].
    destruct (existsb (fun o => inside o s) kept) eqn:Ep; [apply (IH kept out); auto|].
    destruct (dedupe_from (s :: kept) r) as [o|] eqn:E; [|discriminate]. simpl in H. inversion H; subst. clear H.
    destruct (IH (s :: kept) o Hs2 E) as [IH1 IH2].
    assert (Hor : forall b, In b o -> In b r) by (intros; eapply dedupe_from_In; eauto).
    split.
    + intros a b Ha [Hb|Hb]; [subst b|apply IH1; auto; right; auto].
      destruct (inside a s) eqn:Ea; auto.
      assert (existsb (fun o => inside o s) kept = true) by (apply existsb_exists; eauto). congruence.
    + intros a b [Ha|Ha] [Hb|Hb].
      * subst a b. apply inside_irrefl.
      * subst a. apply IH1; auto. left; auto.
      * subst b. destruct (inside a s) eqn:Ea; auto. apply inside_lt in Ea.
        pose proof (Hs1 a (Hor a Ha)) as Hlt. apply cb_lt_gt in Hlt. congruence.
      * apply IH2; auto.
Qed.

Lemma minimal_b_pairwise l : pairwise_min l -> minimal_b l = true.
Proof.
  intros H. unfold minimal_b. apply forallb_forall. intros a Ha. apply forallb_forall. intros b Hb.
  rewrite (H a b Ha Hb). reflexivity.
Qed.
