(* Proofs about the FollowLinks model (Model/FollowLinks.v). *)
From Coq Require Import List NArith Bool Lia Arith.
From FS Require Import Sx Model.Path Model.Stat Model.Tree Model.FollowLinks Proofs.Lex Proofs.PathP.
Import ListNotations.
Open Scope N_scope.
Open Scope bool_scope.

(* ------------------------------------------------------------------ bytewise order *)
Lemma cb_eq a b : cmp_bytes a b = Eq <-> a = b.
Proof. rewrite <- cmpb_is_cmp_bytes. apply cmpb_eq. Qed.
Lemma cb_refl a : cmp_bytes a a = Eq. Proof. apply cb_eq; auto. Qed.
Lemma cb_opp a b : cmp_bytes b a = CompOpp (cmp_bytes a b).
Proof. rewrite <- !cmpb_is_cmp_bytes. apply cmpb_opp. Qed.
Lemma cb_trans a b c : cmp_bytes a b = Lt -> cmp_bytes b c = Lt -> cmp_bytes a c = Lt.
Proof. rewrite <- !cmpb_is_cmp_bytes. apply cmpb_trans. Qed.
Lemma cb_gt_lt a b : cmp_bytes a b = Gt -> cmp_bytes b a = Lt.
Proof. intros H. rewrite cb_opp, H. reflexivity. Qed.
Lemma cb_lt_gt a b : cmp_bytes a b = Lt -> cmp_bytes b a = Gt.
Proof. intros H. rewrite cb_opp, H. reflexivity. Qed.

Lemma cb_app_same d a b : cmp_bytes (d ++ a) (d ++ b) = cmp_bytes a b.
Proof. induction d as [|x d IH]; [reflexivity|]. simpl. rewrite N.compare_refl. exact IH. Qed.

Lemma cb_nil_le s : cmp_bytes [] s <> Gt.
Proof. destruct s; simpl; congruence. Qed.

(* a <= s < a ++ t  implies  a is a prefix of s *)
Lemma cb_between_prefix a s t :
  cmp_bytes a s <> Gt -> cmp_bytes s (a ++ t) = Lt -> exists y, s = a ++ y.
Proof.
  revert s; induction a as [|h a IH]; intros s H1 H2; [exists s; reflexivity|].
  destruct s as [|x s]; [simpl in H1; congruence|].
  simpl in H1, H2. destruct (N.compare h x) eqn:E.
  - apply N.compare_eq in E. subst x. rewrite N.compare_refl in H2.
    destruct (IH s H1 H2) as [y ->]. exists y. reflexivity.
  - rewrite N.compare_antisym, E in H2. simpl in H2. discriminate.
  - congruence.
Qed.

Lemma mem_In x l : mem x l = true <-> In x l.
Proof.
  induction l as [|y l IH]; simpl; [split; [discriminate|tauto]|].
  rewrite orb_true_iff, IH, bytes_eqb_eq. split; intros [H|H]; auto.
Qed.
Lemma mem_false x l : mem x l = false <-> ~ In x l.
Proof. rewrite <- mem_In. destruct (mem x l); split; congruence. Qed.

(* ------------------------------------------------------------------ sort.Strings *)
(* strictly ascending: every element is below all later ones *)
Fixpoint ssorted (l : list bytes) : Prop :=
  match l with
  | [] => True
  | a :: r => (forall b, In b r -> cmp_bytes a b = Lt) /\ ssorted r
  end.

Lemma sorted_b_ssorted l : ssorted l -> sorted_b l = true.
Proof.
  induction l as [|a r IH]; intros H; [reflexivity|].
  destruct H as [Ha Hr]. destruct r as [|b r]; [reflexivity|].
  cbn [sorted_b]. rewrite (Ha b (or_introl eq_refl)). apply IH; auto.
Qed.

Lemma ssorted_sorted_b l : sorted_b l = true -> ssorted l.
Proof.
  induction l as [|a r IH]; intros H; [exact I|].
  destruct r as [|b r]; [split; [intros ? []|exact I]|].
  cbn [sorted_b] in H. destruct (cmp_bytes a b) eqn:E; try discriminate.
  specialize (IH H). split; auto.
  intros c [<-|Hc]; auto. destruct IH as [Hb _]. eapply cb_trans; eauto.
Qed.

Lemma insert_sorted_In x l z : In z (insert_sorted x l) <-> z = x \/ In z l.
Proof.
  induction l as [|y r IH]; simpl; [intuition|].
  destruct (cmp_bytes x y); simpl; try rewrite IH; intuition.
Qed.

Lemma insert_sorted_ssorted x l : ~ In x l -> ssorted l -> ssorted (insert_sorted x l).
Proof.
  induction l as [|y r IH]; intros Hn Hs; [simpl; split; [intros ? []|exact I]|].
  destruct Hs as [Hy Hr]. simpl. destruct (cmp_bytes x y) eqn:E.
  - apply cb_eq in E. subst y. exfalso. apply Hn. left; reflexivity.
  - split; [|split; auto]. intros b [<-|Hb]; auto. eapply cb_trans; eauto.
  - split.
    + intros b Hb. apply insert_sorted_In in Hb. destruct Hb as [->|Hb]; auto. apply cb_gt_lt; auto.
    + apply IH; auto. intro; apply Hn; right; auto.
Qed.

Lemma sort_bytes_In l z : In z (sort_bytes l) <-> In z l.
Proof.
  induction l as [|x l IH]; simpl; [tauto|]. unfold sort_bytes in *. simpl.
  rewrite insert_sorted_In, IH. intuition.
Qed.

Lemma sort_bytes_ssorted l : NoDup l -> ssorted (sort_bytes l).
Proof.
  induction 1 as [|x l Hn Hd IH]; [exact I|].
  change (sort_bytes (x :: l)) with (insert_sorted x (sort_bytes l)).
  apply insert_sorted_ssorted; auto. rewrite sort_bytes_In. exact Hn.
Qed.

(* ------------------------------------------------------------------ dedupePaths *)
Lemma inside_split a b : inside a b = true -> exists r, b = a ++ sep :: r.
Proof.
  unfold inside. intros H. apply has_prefix_app in H. destruct H as [r ->].
  exists r. rewrite <- app_assoc. reflexivity.
Qed.

Lemma inside_lt a b : inside a b = true -> cmp_bytes a b = Lt.
Proof.
  intros H. apply inside_split in H. destruct H as [r ->].
  rewrite <- (app_nil_r a) at 1. rewrite cb_app_same. reflexivity.
Qed.

(* the output is a sub-sequence of the input *)
Lemma dedupe_from_In kept l out : dedupe_from kept l = Some out -> forall x, In x out -> In x l.
Proof.
  revert kept out; induction l as [|s r IH]; intros kept out H x Hx.
  - simpl in H. inversion H; subst. destruct Hx.
  - simpl in H. destruct (bytes_eqb s s_dot); [discriminate|].
    destruct (existsb (fun o => inside o s) kept).
    + right. eapply IH; eauto.
    + destruct (dedupe_from (s :: kept) r) as [o|] eqn:E; [|discriminate]. simpl in H. inversion H; subst.
      destruct Hx as [<-|Hx]; [left; auto|right; eapply IH; eauto].
Qed.

Lemma dedupe_from_ssorted kept l out : ssorted l -> dedupe_from kept l = Some out -> ssorted out.
Proof.
  revert kept out; induction l as [|s r IH]; intros kept out Hs H.
  - simpl in H. inversion H; subst. exact I.
  - destruct Hs as [Hs1 Hs2]. simpl in H. destruct (bytes_eqb s s_dot); [discriminate|].
    destruct (existsb (fun o => inside o s) kept); [eapply IH; eauto|].
    destruct (dedupe_from (s :: kept) r) as [o|] eqn:E; [|discriminate]. simpl in H. inversion H; subst.
    split; [|eapply IH; eauto]. intros b Hb. apply Hs1. eapply dedupe_from_In; eauto.
Qed.

Lemma dedupe_from_dot kept l : In s_dot l -> dedupe_from kept l = None.
Proof.
  revert kept; induction l as [|s r IH]; intros kept H; [destruct H|].
  simpl. destruct (bytes_eqb s s_dot) eqn:E; [reflexivity|].
  destruct H as [H|H]; [subst s; rewrite bytes_eqb_refl in E; discriminate|].
  destruct (existsb (fun o => inside o s) kept); [apply IH; auto|]. rewrite IH by auto. reflexivity.
Qed.

Lemma dedupe_from_nodot kept l : ~ In s_dot l -> exists out, dedupe_from kept l = Some out.
Proof.
  revert kept; induction l as [|s r IH]; intros kept H; [eexists; reflexivity|].
  simpl. destruct (bytes_eqb s s_dot) eqn:E.
  - apply bytes_eqb_eq in E. subst. exfalso. apply H. left; auto.
  - assert (Hr : ~ In s_dot r) by (intro; apply H; right; auto).
    destruct (existsb (fun o => inside o s) kept); [apply IH; auto|].
    destruct (IH (s :: kept) Hr) as [o ->]. eexists; reflexivity.
Qed.

(* every input element is inside an element kept earlier, or kept, or inside a kept one *)
Lemma dedupe_from_covers kept l out :
  dedupe_from kept l = Some out ->
  forall x, In x l ->
    (exists o, In o kept /\ inside o x = true) \/ exists e, In e out /\ (e = x \/ inside e x = true).
Proof.
  revert kept out; induction l as [|s r IH]; intros kept out H x Hx; [destruct Hx|].
  simpl in H. destruct (bytes_eqb s s_dot); [discriminate|].
  destruct (existsb (fun o => inside o s) kept) eqn:Ep.
  - destruct Hx as [<-|Hx]; [|eapply IH; eauto].
    left. apply existsb_exists in Ep. exact Ep.
  - destruct (dedupe_from (s :: kept) r) as [o|] eqn:E; [|discriminate]. simpl in H. inversion H; subst.
    destruct Hx as [<-|Hx]; [right; exists s; split; [left|]; auto|].
    destruct (IH (s :: kept) o E x Hx) as [(o' & [<-|Ho] & Hi)|(e & He & Hc)].
    + right. exists s. split; [left; auto|right; auto].
    + left. exists o'. auto.
    + right. exists e. split; [right; auto|auto].
Qed.

Definition pairwise_min (l : list bytes) : Prop := forall a b, In a l -> In b l -> inside a b = false.

Lemma inside_irrefl a : inside a a = false.
Proof. destruct (inside a a) eqn:E; auto. apply inside_lt in E. rewrite cb_refl in E. discriminate. Qed.

Lemma dedupe_from_minimal kept l out :
  ssorted l -> dedupe_from kept l = Some out ->
  (forall a b, In a kept -> In b out -> inside a b = false) /\ pairwise_min out.
Proof.
  revert kept out; induction l as [|s r IH]; intros kept out Hs H.
  - simpl in H. inversion H; subst. split; [intros ? ? ? []|intros ? ? []].
  - destruct Hs as [Hs1 Hs2]. simpl in H. destruct (bytes_eqb s s_dot); [discriminate|].
    destruct (existsb (fun o => inside o s) kept) eqn:Ep; [apply (IH kept out); auto|].
    destruct (dedupe_from (s :: kept) r) as [o|] eqn:E; [|discriminate]. simpl in H. inversion H; subst. clear H.
    destruct (IH (s :: kept) o Hs2 E) as [IH1 IH2].
    assert (Hor : forall b, In b o -> In b r) by (intros; eapply dedupe_from_In; eauto).
    split.
    + intros a b Ha [Hb|Hb]; [subst b|apply IH1; auto; right; auto].
      destruct (inside a s) eqn:Ea; auto.
      assert (existsb (fun o => inside o s) kept = true) by (apply existsb_exists; eauto). congruence.
    + intros a b [Ha|Ha] [Hb|Hb].
      * subst a b. apply inside_irrefl.
      * subst a. apply IH1; auto. left; auto.
      * subst b. destruct (inside a s) eqn:Ea; auto. apply inside_lt in Ea.
        pose proof (Hs1 a (Hor a Ha)) as Hlt. apply cb_lt_gt in Hlt. congruence.
      * apply IH2; auto.
Qed.

Lemma minimal_b_pairwise l : pairwise_min l -> minimal_b l = true.
Proof.
  intros H. unfold minimal_b. apply forallb_forall. intros a Ha. apply forallb_forall. intros b Hb.
  rewrite (H a b Ha Hb). reflexivity.
Qed.

(* ------------------------------------------------------------------ tree facts *)
Lemma find_kid_In c kids k : find_kid c kids = Some k -> In k kids /\ node_name k = c.
Proof.
  induction kids as [|a kids IH]; simpl; [discriminate|].
  destruct (bytes_eqb (node_name a) c) eqn:E.
  - intros H; inversion H; subst. split; [left; auto|apply bytes_eqb_eq; auto].
  - intros H. destruct (IH H). split; [right|]; auto.
Qed.

Lemma node_links_eq n : node_links n = node_link n :: forest_links (node_kids n).
Proof.
  destruct n as [a s c kids]. reflexivity.
Qed.

Lemma node_cpaths_eq dirc n :
  node_cpaths dirc n = (dirc ++ [node_name n]) :: forest_cpaths (dirc ++ [node_name n]) (node_kids n).
Proof.
  destruct n as [a s c kids]. simpl. f_equal.
  induction kids as [|k r IH]; [reflexivity|]. simpl. rewrite IH. reflexivity.
Qed.

Lemma forest_links_incl k kids : In k kids -> incl (node_links k) (forest_links kids).
Proof.
  induction kids as [|a kids IH]; intros H x Hx; [destruct H|]. simpl. apply in_or_app.
  destruct H as [->|H]; [left; auto|right; apply IH; auto].
Qed.

Lemma forest_cpaths_incl dirc k kids : In k kids -> incl (node_cpaths dirc k) (forest_cpaths dirc kids).
Proof.
  induction kids as [|a kids IH]; intros H x Hx; [destruct H|]. simpl. apply in_or_app.
  destruct H as [->|H]; [left; auto|right; apply IH; auto].
Qed.

Lemma lookup_link kids cs n : lookup kids cs = Some n -> In (node_link n) (forest_links kids).
Proof.
  revert kids; induction cs as [|c r IH]; intros kids H; [discriminate|].
  simpl in H. destruct (find_kid c kids) as [k|] eqn:E; [|discriminate].
  apply find_kid_In in E. destruct E as [Hk _].
  apply (forest_links_incl k kids Hk). rewrite node_links_eq.
  destruct r as [|c2 r]; [inversion H; subst; left; auto|]. right. apply IH. exact H.
Qed.

Lemma lookup_cpath kids cs n dirc : lookup kids cs = Some n -> In (dirc ++ cs) (forest_cpaths dirc kids).
Proof.
  revert kids dirc; induction cs as [|c r IH]; intros kids dirc H; [discriminate|].
  simpl in H. destruct (find_kid c kids) as [k|] eqn:E; [|discriminate].
  apply find_kid_In in E. destruct E as [Hk Hn].
  apply (forest_cpaths_incl dirc k kids Hk). rewrite node_cpaths_eq, Hn.
  destruct r as [|c2 r]; [left; auto|]. right.
  replace (dirc ++ c :: c2 :: r) with ((dirc ++ [c]) ++ c2 :: r) by (rewrite <- app_assoc; reflexivity).
  apply IH. exact H.
Qed.

Lemma norm_clamp_forall (P : bytes -> Prop) cs : Forall P cs -> Forall P (norm_clamp cs).
Proof. intros H. unfold norm_clamp. apply Forall_rev. apply fold_cstep_forall; auto. Qed.

Lemma filter_len_le {A} (p q : A -> bool) l :
  (forall x, q x = true -> p x = true) -> (length (filter q l) <= length (filter p l))%nat.
Proof.
  intros H. induction l as [|a l IH]; simpl; [lia|].
  destruct (q a) eqn:Eq; [rewrite (H a Eq); simpl; lia|]. destruct (p a); simpl; lia.
Qed.

Lemma filter_len_lt {A} (p q : A -> bool) l k :
  (forall x, q x = true -> p x = true) -> In k l -> p k = true -> q k = false ->
  (length (filter q l) < length (filter p l))%nat.
Proof.
  intros H Hin Hp Hq. induction l as [|a l IH]; [destruct Hin|]. simpl.
  destruct Hin as [->|Hin].
  - rewrite Hp, Hq. simpl. pose proof (filter_len_le p q l H). lia.
  - specialize (IH Hin). destruct (q a) eqn:Eq; [rewrite (H a Eq); simpl; lia|]. destruct (p a); simpl; lia.
Qed.

(* ------------------------------------------------------------------ invariants of the resolver *)
Definition sub (R R' : list bytes) : Prop := forall x, mem x R = true -> mem x R' = true.
Lemma sub_refl R : sub R R. Proof. intros x H; exact H. Qed.
Lemma sub_trans A B C : sub A B -> sub B C -> sub A C. Proof. intros H1 H2 x H. auto. Qed.
Lemma sub_cons k R : sub R (k :: R). Proof. intros x H. simpl. rewrite H. apply orb_true_r. Qed.

Lemma resolved_note_revisit h e st : resolved (note_revisit h e st) = resolved st.
Proof. unfold note_revisit. destruct (h && negb (mem_exp e (g_expanded st))); reflexivity. Qed.

Section Resolver.
Variable gmatch : bytes -> bytes -> bool.
Variable view : list node.

(* monotonicity and duplicate-freedom of [resolved] *)
Definition mono_rec (rec : rec_t) : Prop :=
  forall st p st', rec st p = Ok st' ->
    sub (resolved st) (resolved st') /\ (NoDup (resolved st) -> NoDup (resolved st')).

Lemma each_target_mono rec rest ts : mono_rec rec -> mono_rec (fun st _ => each_target rec rest ts st).
Proof.
  intros Hrec. induction ts as [|t ts IH]; intros st p st' H; simpl in H.
  - inversion H; subst. split; [apply sub_refl|auto].
  - destruct (rec st (norm_clamp (t ++ rest))) as [st1|] eqn:E; [|discriminate].
    destruct (Hrec _ _ _ E) as [H1 H2]. destruct (IH st1 p st' H) as [H3 H4].
    split; [eapply sub_trans; eauto|auto].
Qed.

Lemma loop_mono rec : mono_rec rec -> forall cur, mono_rec (fun st p => loop gmatch view rec cur p st).
Proof.
  intros Hrec cur st p. revert cur st. induction p as [|c rest IH]; intros cur st st' H.
  - simpl in H. inversion H; subst. split; [apply sub_refl|auto].
  - cbn [loop] in H.
    set (k := key (cur ++ [c])) in *. set (ts := read_symlink gmatch view cur c) in *.
    destruct (mem k (resolved st)) eqn:Em.
    + destruct (is_nil rest || negb (is_nil ts)) eqn:Eo; cbn [andb] in H.
      * inversion H; subst. rewrite resolved_note_revisit. split; [apply sub_refl|auto].
      * apply orb_false_iff in Eo. destruct Eo as [E1 E2]. rewrite E2, E1 in H. apply (IH _ _ _ H).
    + rewrite andb_false_r in H.
      assert (Hadd : sub (resolved st) (k :: resolved st) /\ (NoDup (resolved st) -> NoDup (k :: resolved st))).
      { split; [apply sub_cons|]. intros Hd. constructor; auto. apply mem_false; auto. }
      destruct (negb (is_nil ts)) eqn:Eh.
      * destruct (each_target_mono rec rest ts Hrec _ [] _ H) as [H1 H2]. cbn [add_expanded add_resolved resolved] in H1, H2.
        destruct Hadd. split; [eapply sub_trans; eauto|auto].
      * destruct (is_nil rest); [inversion H; subst; exact Hadd|]. apply (IH _ _ _ H).
Qed.

Lemma append_mono fuel : mono_rec (append gmatch view fuel).
Proof.
  induction fuel as [|f IH]; intros st p st' H; [discriminate|].
  cbn [append] in H. destruct p as [|c r].
  - inversion H; subst. cbn [add_call resolved]. destruct (mem s_dot (resolved st)) eqn:E; [split; [apply sub_refl|auto]|].
    split; [apply sub_cons|]. intros Hd. constructor; auto. apply mem_false; auto.
  - apply (loop_mono (append gmatch view f) IH [] (add_call (c :: r) st) (c :: r) st' H).
Qed.

Lemma follow_reqs_mono fuel reqs st st' :
  follow_reqs gmatch view fuel st reqs = Ok st' ->
  sub (resolved st) (resolved st') /\ (NoDup (resolved st) -> NoDup (resolved st')).
Proof.
  revert st; induction reqs as [|r rs IH]; intros st H; simpl in H.
  - inversion H; subst. split; [apply sub_refl|auto].
  - destruct (append gmatch view fuel st (norm_clamp (comps r))) as [st1|] eqn:E; [|discriminate].
    destruct (append_mono _ _ _ _ E) as [H1 H2]. destruct (IH _ H) as [H3 H4].
    split; [eapply sub_trans; eauto|auto].
Qed.

Lemma follow_state_nodup fuel reqs st : follow_state gmatch view fuel reqs = Ok st -> NoDup (resolved st).
Proof. intros H. apply follow_reqs_mono in H. destruct H as [_ H]. apply H. constructor. Qed.

(* ---- sorted, minimal, nil exactly when "." was resolved ---- *)
Lemma finish_sorted_minimal st l : NoDup (resolved st) -> finish st = Some l ->
  sorted_b l = true /\ minimal_b l = true.
Proof.
  intros Hd H. unfold finish, dedupe_paths in H.
  pose proof (sort_bytes_ssorted _ Hd) as Hs. split.
  - apply sorted_b_ssorted. eapply dedupe_from_ssorted; eauto.
  - apply minimal_b_pairwise. eapply dedupe_from_minimal; eauto.
Qed.

Lemma finish_none_iff st : finish st = None <-> In s_dot (resolved st).
Proof.
  unfold finish, dedupe_paths. split.
  - intros H. destruct (in_dec (list_eq_dec N.eq_dec) s_dot (resolved st)) as [Hi|Hn]; auto.
    destruct (dedupe_from_nodot [] (sort_bytes (resolved st))) as [o Ho]; [rewrite sort_bytes_In; auto|congruence].
  - intros H. apply dedupe_from_dot. apply sort_bytes_In. exact H.
Qed.

(* every resolved key is in the result or strictly inside one of its elements *)
Lemma finish_covers st l : finish st = Some l ->
  forall x, In x (resolved st) -> exists e, In e l /\ (e = x \/ inside e x = true).
Proof.
  intros H x Hx. unfold finish, dedupe_paths in H.
  destruct (dedupe_from_covers [] _ _ H x) as [(o & [] & _)|He]; [apply sort_bytes_In; auto|exact He].
Qed.

Lemma finish_subset st l : finish st = Some l -> forall x, In x l -> In x (resolved st).
Proof.
  intros H x Hx. unfold finish, dedupe_paths in H. apply sort_bytes_In. eapply dedupe_from_In; eauto.
Qed.

End Resolver.

(* ------------------------------------------------------------------ termination *)
(* Measure (DESIGN A.8): candidate keys not yet in [resolved].  A recursive call of
   append is made only after a key with a non-nil target list was inserted; such a
   key is an entry of the view, or a directory of the view (or the root) extended by
   one wildcard component, and every component that can ever appear comes from a
   request or a link target ([comp_pool]); the component loop is structural. *)
Section Termination.
Variable gmatch : bytes -> bytes -> bool.
Variable view : list node.
Variable reqs : list bytes.

Definition PC (p : list bytes) : Prop := Forall (fun c => In c (comp_pool view reqs)) p.

Lemma link_target_PC dirc l : PC dirc -> In l (forest_links view) -> PC (link_target dirc l).
Proof.
  intros Hd Hl. unfold link_target. apply norm_clamp_forall. apply Forall_app. split.
  - destruct (is_abs l); [constructor|exact Hd].
  - apply Forall_forall. intros c Hc. unfold comp_pool. apply in_or_app. right.
    apply in_flat_map. exists l. auto.
Qed.

Lemma read_symlink1_PC dirc name : PC dirc -> Forall PC (read_symlink1 view dirc name).
Proof.
  intros Hd. unfold read_symlink1, stat_node. destruct (lookup view (dirc ++ [name])) as [n|] eqn:E; [|constructor].
  destruct (node_is_symlink n); [|constructor]. constructor; [|constructor].
  apply link_target_PC; auto. eapply lookup_link; eauto.
Qed.

Lemma read_symlink_PC dirc c : PC dirc -> Forall PC (read_symlink gmatch view dirc c).
Proof.
  intros Hd. unfold read_symlink. destruct (contains_wildcards c); [|apply read_symlink1_PC; auto].
  destruct (read_dir view dirc) as [kids|]; [|constructor].
  induction kids as [|k kids IH]; [constructor|]. simpl. apply Forall_app. split; [|exact IH].
  destruct (gmatch c (node_name k)); [apply read_symlink1_PC; auto|constructor].
Qed.

Lemma read_symlink_cand cur c :
  In c (comp_pool view reqs) -> read_symlink gmatch view cur c <> [] ->
  In (key (cur ++ [c])) (cand_keys view reqs).
Proof.
  intros Hc. unfold read_symlink, cand_keys. destruct (contains_wildcards c).
  - destruct (read_dir view cur) as [kids|] eqn:E; [|congruence]. intros _.
    apply in_or_app. right. apply in_flat_map. exists cur. split.
    + unfold read_dir in E. destruct cur as [|c0 cur0]; [left; reflexivity|]. right.
      destruct (lookup view (c0 :: cur0)) as [n|] eqn:El; [|discriminate].
      apply (lookup_cpath view (c0 :: cur0) n [] El).
    + apply (in_map (fun c1 => key (cur ++ [c1]))). exact Hc.
  - intros H. apply in_or_app. left. apply in_map.
    unfold read_symlink1, stat_node in H. destruct (lookup view (cur ++ [c])) as [n|] eqn:El; [|congruence].
    apply (lookup_cpath view (cur ++ [c]) n [] El).
Qed.

Definition M (R : list bytes) : nat :=
  length (filter (fun k => negb (mem k R)) (cand_keys view reqs)).

Lemma M_mono R R' : sub R R' -> (M R' <= M R)%nat.
Proof.
  intros H. unfold M. apply filter_len_le. intros x Hx.
  destruct (mem x R) eqn:E; auto. rewrite (H x E) in Hx. discriminate.
Qed.

Lemma M_add k R : In k (cand_keys view reqs) -> mem k R = false -> (M (k :: R) < M R)%nat.
Proof.
  intros Hk Hm. unfold M. apply (filter_len_lt _ _ _ k); auto.
  - intros x Hx. simpl in Hx. destruct (mem x R); [rewrite orb_true_r in Hx; discriminate|reflexivity].
  - rewrite Hm. reflexivity.
  - simpl. rewrite bytes_eqb_refl. reflexivity.
Qed.

Definition good_rec (f : nat) (rec : rec_t) : Prop :=
  forall st p, PC p -> (M (resolved st) < f)%nat ->
    exists st', rec st p = Ok st' /\ sub (resolved st) (resolved st').

Lemma each_target_ok f rec rest ts st :
  good_rec f rec -> PC rest -> Forall PC ts -> (M (resolved st) < f)%nat ->
  exists st', each_target rec rest ts st = Ok st' /\ sub (resolved st) (resolved st').
Proof.
  intros Hrec Hrest. revert st. induction ts as [|t ts IH]; intros st Hts HM; simpl.
  - exists st. split; [reflexivity|apply sub_refl].
  - inversion Hts as [|? ? Ht Hts']; subst.
    destruct (Hrec st (norm_clamp (t ++ rest))) as (st1 & E1 & S1); auto.
    { apply norm_clamp_forall. apply Forall_app. split; auto. }
    rewrite E1. destruct (IH st1 Hts') as (st2 & E2 & S2).
    { pose proof (M_mono _ _ S1). lia. }
    exists st2. split; [exact E2|eapply sub_trans; eauto].
Qed.

Lemma loop_ok f rec : good_rec f rec -> forall p cur st,
  PC cur -> PC p -> (M (resolved st) <= f)%nat ->
  exists st', loop gmatch view rec cur p st = Ok st' /\ sub (resolved st) (resolved st').
Proof.
  intros Hrec. induction p as [|c rest IH]; intros cur st Hcur Hp HM.
  - exists st. split; [reflexivity|apply sub_refl].
  - inversion Hp as [|? ? Hc Hrest]; subst. cbn [loop].
    set (k := key (cur ++ [c])). set (ts := read_symlink gmatch view cur c).
    assert (Hcur' : PC (cur ++ [c])) by (apply Forall_app; split; auto).
    destruct (mem k (resolved st)) eqn:Em.
    + destruct (is_nil rest || negb (is_nil ts)) eqn:Eo; cbn [andb].
      * eexists. split; [reflexivity|]. rewrite resolved_note_revisit. apply sub_refl.
      * apply orb_false_iff in Eo. destruct Eo as [E1 E2]. rewrite E2, E1. apply IH; auto.
    + rewrite andb_false_r. destruct (negb (is_nil ts)) eqn:Eh.
      * assert (Hk : In k (cand_keys view reqs)).
        { apply read_symlink_cand; auto. fold ts. destruct ts; [discriminate|congruence]. }
        pose proof (M_add k (resolved st) Hk Em) as Hlt.
        destruct (each_target_ok f rec rest ts (add_expanded (cur, c, rest) (add_resolved k st)) Hrec Hrest)
          as (st' & E & S).
        { apply read_symlink_PC; auto. }
        { cbn [add_expanded add_resolved resolved]. lia. }
        exists st'. split; [exact E|]. eapply sub_trans; [apply (sub_cons k)|exact S].
      * destruct (is_nil rest).
        -- eexists. split; [reflexivity|]. apply sub_cons.
        -- apply IH; auto.
Qed.

Lemma append_ok fuel : good_rec fuel (append gmatch view fuel).
Proof.
  induction fuel as [|f IH]; intros st p Hp HM; [lia|].
  cbn [append]. destruct p as [|c r].
  - eexists. split; [reflexivity|]. cbn [add_call resolved]. destruct (mem s_dot (resolved st)); [apply sub_refl|apply sub_cons].
  - apply (loop_ok f (append gmatch view f) IH (c :: r) [] (add_call (c :: r) st)); auto; [constructor|cbn [add_call resolved]; lia].
Qed.

Lemma follow_reqs_ok fuel rs st :
  (forall r, In r rs -> In r reqs) -> (M (resolved st) < fuel)%nat ->
  exists st', follow_reqs gmatch view fuel st rs = Ok st'.
Proof.
  revert st; induction rs as [|r rs IH]; intros st Hin HM; simpl; [eauto|].
  destruct (append_ok fuel st (norm_clamp (comps r))) as (st1 & E & S); auto.
  { apply norm_clamp_forall. apply Forall_forall. intros c Hc. unfold comp_pool. apply in_or_app. left.
    apply in_flat_map. exists r. split; auto. apply Hin. left; auto. }
  rewrite E. apply IH; [intros; apply Hin; right; auto|]. pose proof (M_mono _ _ S). lia.
Qed.

Lemma follow_state_terminates :
  exists st, follow_state gmatch view (fuel_bound view reqs) reqs = Ok st.
Proof.
  apply follow_reqs_ok; auto. unfold fuel_bound, M. cbn [st0 resolved].
  pose proof (filter_len_le (fun _ => true) (fun k => negb (mem k [])) (cand_keys view reqs) (fun _ _ => eq_refl)).
  assert (length (filter (fun _ : bytes => true) (cand_keys view reqs)) = length (cand_keys view reqs)).
  { induction (cand_keys view reqs); simpl; auto. }
  lia.
Qed.

End Termination.

(* ------------------------------------------------------------------ a request for the root gives nil *)
Section RootRequest.
Variable gmatch : bytes -> bytes -> bool.
Variable view : list node.

Lemma append_root fuel st st' :
  append gmatch view fuel st [] = Ok st' -> mem s_dot (resolved st') = true.
Proof.
  destruct fuel as [|f]; [discriminate|]. cbn [append]. intros H. inversion H; subst. cbn [add_call resolved].
  destruct (mem s_dot (resolved st)) eqn:E; [exact E|]. simpl. reflexivity.
Qed.

Lemma follow_reqs_root fuel rs st st' r :
  In r rs -> norm_clamp (comps r) = [] -> follow_reqs gmatch view fuel st rs = Ok st' ->
  mem s_dot (resolved st') = true.
Proof.
  revert st; induction rs as [|r0 rs IH]; intros st Hin Hr H; [destruct Hin|].
  simpl in H. destruct (append gmatch view fuel st (norm_clamp (comps r0))) as [st1|] eqn:E; [|discriminate].
  destruct Hin as [->|Hin].
  - rewrite Hr in E. apply append_root in E.
    destruct (follow_reqs_mono gmatch view fuel rs st1 st' H) as [S _]. apply S. exact E.
  - eapply IH; eauto.
Qed.
End RootRequest.

(* ------------------------------------------------------------------ statements used by Properties/C18.v *)
Lemma follow_terminates_proof :
  forall gmatch view reqs, follow_links gmatch view (fuel_bound view reqs) reqs <> OutOfFuel.
Proof.
  intros gmatch view reqs. unfold follow_links, follow_links_opt.
  destruct (follow_state_terminates gmatch view reqs) as [st ->].
  destruct (finish st); discriminate.
Qed.

Lemma result_sorted_minimal_proof :
  forall gmatch view fuel reqs,
    (forall l, follow_links gmatch view fuel reqs = Ok l -> sorted_b l = true /\ minimal_b l = true) /\
    (forall st, follow_state gmatch view fuel reqs = Ok st ->
       (In s_dot (resolved st) <-> follow_links_opt gmatch view fuel reqs = Ok None)) /\
    (forall r l, In r reqs -> norm_clamp (comps r) = [] ->
       follow_links gmatch view fuel reqs = Ok l -> l = []).
Proof.
  intros gmatch view fuel reqs. unfold follow_links, follow_links_opt. split; [|split].
  - intros l. destruct (follow_state gmatch view fuel reqs) as [st|] eqn:E; [|discriminate].
    destruct (finish st) as [o|] eqn:Ef; intros H; inversion H; subst; [|split; reflexivity].
    eapply finish_sorted_minimal; eauto. eapply follow_state_nodup; eauto.
  - intros st E. rewrite E. split.
    + intros Hd. apply finish_none_iff in Hd. rewrite Hd. reflexivity.
    + intros Hn. apply finish_none_iff. destruct (finish st); [discriminate|reflexivity].
  - intros r l Hin Hr. destruct (follow_state gmatch view fuel reqs) as [st|] eqn:E; [|discriminate].
    unfold follow_state in E. pose proof (follow_reqs_root gmatch view fuel reqs st0 st r Hin Hr E) as Hm.
    apply mem_In in Hm. apply finish_none_iff in Hm. rewrite Hm. intros H; inversion H; reflexivity.
Qed.

Lemma result_covers_resolved_proof :
  forall gmatch view fuel reqs st l,
    follow_state gmatch view fuel reqs = Ok st -> follow_links_opt gmatch view fuel reqs = Ok (Some l) ->
    (forall x, In x (resolved st) -> exists e, In e l /\ (e = x \/ inside e x = true)) /\
    (forall e, In e l -> In e (resolved st)).
Proof.
  intros gmatch view fuel reqs st l Hs H. unfold follow_links_opt in H. rewrite Hs in H.
  inversion H as [Hf]. split; [eapply finish_covers; eauto|eapply finish_subset; eauto].
Qed.

(* the glue's fuel is the proved bound *)
Lemma length_flat_map_const {A B} (f : A -> list B) (l : list A) k :
  (forall a, length (f a) = k) -> length (flat_map f l) = (length l * k)%nat.
Proof.
  intros H. induction l as [|a l IH]; [reflexivity|]. cbn [flat_map length]. rewrite app_length, H, IH. reflexivity.
Qed.

Lemma fuel_bound_fast_eq_proof view reqs : fuel_bound_fast view reqs = fuel_bound view reqs.
Proof.
  unfold fuel_bound_fast, fuel_bound, cand_keys. rewrite app_length, map_length.
  rewrite (length_flat_map_const _ _ (length (comp_pool view reqs))); [reflexivity|].
  intros d. apply map_length.
Qed.
