(* C03 — the receive loop with the old content of the destination walked and diffed
   (ReceiveOpt.Merge off): the invariant of the old listing.  Entries of the initial walk that
   have not been passed yet resolve as they did at the start; entries below a removed or
   replaced directory are skipped for as long as the removed-directory prefix stands. *)
From Coq Require Import List Arith NArith Bool Lia ZifyN ZifyNat ZifyBool Sorting.Sorted.
From FS Require Import Sx Model.Path Model.Stat Model.Validator Model.Fs Model.DiskWriterFs.
From FS Require Import Proofs.Lex Proofs.PathP Proofs.ValidatorP Proofs.FsP Proofs.FsReachP Proofs.FsFrameP
     Proofs.FsSysP Proofs.FsTreeP Proofs.DwP Proofs.RecvP Proofs.OldListP.
Import ListNotations.
Open Scope N_scope.
Open Scope bool_scope.

(* ---------------- order facts on path strings ---------------- *)
Lemma prefix_cmp a b : is_prefix (comps a) (comps b) -> compare_path a b <> Gt.
Proof. intros H. rewrite compare_path_lex. apply prefix_le. exact H. Qed.

Lemma cmp_lt_not_prefix a b : compare_path a b = Lt -> ~ is_prefix (comps b) (comps a).
Proof. intros H P. apply prefix_cmp in P. rewrite compare_path_opp, H in P. simpl in P. congruence. Qed.

Lemma cmp_lt_ne a b : compare_path a b = Lt -> a <> b.
Proof. intros H E. subst. rewrite compare_path_refl in H. discriminate. Qed.

Lemma cmp_le_lt_trans a b c : compare_path a b <> Gt -> compare_path b c = Lt -> compare_path a c = Lt.
Proof.
  intros H1 H2. destruct (compare_path a b) eqn:E; try congruence.
  - apply compare_path_eq in E. subst. exact H2.
  - apply (compare_path_trans a b c); auto.
Qed.

(* strictly below: the components of X are a proper prefix *)
Definition below (X q : bytes) : Prop := exists y, y <> [] /\ comps q = comps X ++ y.

Lemma below_prefix X q : below X q -> is_prefix (comps X) (comps q).
Proof. intros (y & _ & E). exists y. exact E. Qed.

Lemma below_lt X q : below X q -> compare_path X q = Lt.
Proof.
  intros (y & Hy & E). rewrite compare_path_lex, E. apply lex_prefix_lt. exact Hy.
Qed.

(* X < p < q with q below X: then p is below X too *)
Lemma between_below X p q : compare_path X p = Lt -> compare_path p q = Lt -> below X q -> below X p.
Proof.
  intros H1 H2 (y & Hy & E). rewrite compare_path_lex in H1, H2. rewrite E in H2.
  destruct (lex_between_prefix _ _ _ H1 H2) as [z Hz]. exists z. split; auto.
  intro; subst z. rewrite app_nil_r in Hz. rewrite Hz, lex_refl in H1. discriminate.
Qed.

Lemma suppressed_below X q : suppressed (X ++ [sep]) q = true -> below X q.
Proof. apply suppressed_prefix. Qed.

Lemma below_suppressed X q : ok_path X = true -> ok_path q = true -> below X q -> suppressed (X ++ [sep]) q = true.
Proof. intros HX Hq (y & Hy & E). apply (prefix_suppressed X q y); auto. Qed.

Lemma suppressed_nil q : suppressed [] q = false.
Proof. reflexivity. Qed.

Lemma prefix_proper_below X q : ok_path X = true -> is_prefix (comps X) (comps q) -> X <> q -> below X q.
Proof.
  intros _ [y E] Hne. exists y. split; auto. intro; subst y. rewrite app_nil_r in E. apply Hne.
  apply comps_inj. symmetry. exact E.
Qed.

Lemma SS_in_lt {A} (R : A -> A -> Prop) (l1 l2 : list A) x y :
  StronglySorted R (l1 ++ l2) -> In x l1 -> In y l2 -> R x y.
Proof.
  induction l1 as [|a l1 IH]; intros HS Hx Hy; [destruct Hx|].
  simpl in HS. inversion HS as [|? ? HS' Hall]; subst. destruct Hx as [<-|Hx].
  - rewrite Forall_forall in Hall. apply Hall. apply in_or_app. right. exact Hy.
  - apply IH; auto.
Qed.

Lemma SS_app_r {A} (R : A -> A -> Prop) (l1 l2 : list A) : StronglySorted R (l1 ++ l2) -> StronglySorted R l2.
Proof. induction l1 as [|a l1 IH]; intros H; auto. simpl in H. inversion H; subst. auto. Qed.

Lemma SS_cons_lt {A} (R : A -> A -> Prop) a (l : list A) y : StronglySorted R (a :: l) -> In y l -> R a y.
Proof. intros H Hy. inversion H as [|? ? _ Hall]; subst. rewrite Forall_forall in Hall. auto. Qed.

Lemma chain_all_prefixes stk : chain stk -> forall d l rest, stk = (d, l) :: rest ->
  forall a, is_prefix a d -> exists l', In (a, l') stk.
Proof.
  induction 1 as [l0|d0 l0 rest0 l' Hc IH Hl]; intros d l rest E a Hp; inversion E; subst.
  - destruct Hp as [y Hy]. destruct a; [|discriminate]. exists l. left. reflexivity.
  - destruct Hp as [y Hy].
    destruct y as [|y0 y'] using rev_ind.
    + rewrite app_nil_r in Hy. subst a. exists l. left. reflexivity.
    + rewrite app_assoc in Hy. apply app_inj_tail in Hy. destruct Hy as [Hy _].
      destruct (IH d0 l0 rest0 eq_refl a) as [l2 H2]; [exists y'; auto|]. exists l2. right. exact H2.
Qed.

Lemma chain_prefix_in stk : chain stk -> forall d0 l0, In (d0, l0) stk ->
  forall a, is_prefix a d0 -> exists l', In (a, l') stk.
Proof.
  induction 1 as [lr|d1 lr rest1 l2 Hc1 IH1 Hl1]; intros d0 l0 Hin a Ha.
  - destruct Hin as [Ein|[]]. injection Ein as <- <-. destruct Ha as [z Hz]. destruct a; [|discriminate].
    exists lr. left. reflexivity.
  - destruct Hin as [Ein|Hin].
    + injection Ein as <- <-. apply (chain_all_prefixes _ (chain_push _ _ _ _ Hc1 Hl1) _ _ _ eq_refl a Ha).
    + destruct (IH1 d0 l0 Hin a Ha) as [l' H']. exists l'. right. exact H'.
Qed.

Section RecvOld.
Variables (D root : N) (f0 : fs) (tmps0 : list bytes) (dl : bool).
Notation reach := (reach D).
Notation wf := (wf D).
Notation step := (step D).

Let c : ctx := {| c_root := root; c_cwd := D |}.
Let b0 : N := f_next f0.

Hypothesis W0 : wf f0.
Variable fl : rfilter.
Hypothesis Hmap_mode : forall s, st_mode (f_map fl s) = st_mode s.
Hypothesis Hmap_link : forall s, st_linkname (f_map fl s) = st_linkname s.
Hypothesis Hclosed : forall p q, ok_path p = true -> ok_path q = true ->
  f_rej fl p = true -> is_prefix (comps p) (comps q) -> f_rej fl q = true.
Hypothesis tmp_ok : forall t, tmpname tmps0 t -> okname t.
Hypothesis Hunused : tmp_unused D f0 tmps0.

Let L0 : list stat := old_listing f0 D.
Let OF : old_facts D f0 L0 := old_listing_facts D f0 W0.

Notation GB := (GBase D f0 tmps0).
Notation cleanp := (clean_path tmps0).

Lemma old_entry s : In s L0 ->
  ok_path (st_path s) = true /\ cleanp (st_path s)
  /\ exists i, rwalk f0 D (comps (st_path s)) = Some i /\ st_is_dir s = is_dir f0 i /\ get f0 i <> None
                /\ (is_link f0 i = true -> mode_is_symlink (st_mode s) = true).
Proof.
  intros Hin. destruct (of_entry D f0 L0 OF s Hin) as [Hok Hi]. split; auto. split; [|exact Hi].
  intros t Ht Hc. destruct (of_names D f0 L0 OF s t Hin Hc) as (d & Rd & Hb). apply Hb. apply (Hunused d t Rd Ht).
Qed.

(* the removed-directory prefix: nothing accepted lies at or below the removed entry as a directory *)
Definition rm_ok (rm : bytes) (acc : list vitem) (rest : list stat) : Prop :=
  rm = [] \/ exists X, rm = X ++ [sep] /\ ok_path X = true
     /\ (forall s, In s rest -> compare_path X (st_path s) = Lt)
     /\ (forall it, In it acc -> vpath it = X -> visdir it = false)
     /\ (exists it, In it acc /\ compare_path X (vpath it) <> Gt).

Definition prist (f : fs) (rm : bytes) (rest : list stat) : Prop :=
  forall s, In s rest -> suppressed rm (st_path s) = false ->
    rwalk f D (comps (st_path s)) = rwalk f0 D (comps (st_path s)).

Lemma rm_ok_sub rm acc rest rest' : (forall s, In s rest' -> In s rest) -> rm_ok rm acc rest -> rm_ok rm acc rest'.
Proof.
  intros H [->|(X & E & A & B & C0 & E2)]; [left; reflexivity|right].
  exists X. repeat split; auto.
Qed.

(* no accepted path is below a dead entry *)
Lemma dead_not_below stk acc X p :
  Inv (map ce stk) (map citem_of acc) ->
  (exists l, In (removelast (comps p), l) (map ce stk)) ->
  (forall it, In it acc -> vpath it = X -> visdir it = false) ->
  ok_path p = true -> below X p -> False.
Proof.
  intros HI [l Hl] Hdead Hok (y & Hy & E).
  assert (Hpre : is_prefix (comps X) (removelast (comps p))).
  { rewrite E. destruct y as [|y0 y'] using rev_ind; [congruence|].
    rewrite app_assoc, removelast_last. exists y'. reflexivity. }
  pose proof (inv_chain _ _ HI) as Hc.
  (* the parent directory of p is on the stack, hence so is every prefix of it *)
  assert (Hstk : exists l', In (comps X, l') (map ce stk)).
  { apply (chain_prefix_in _ Hc _ _ Hl _ Hpre). }
  destruct Hstk as [l' Hl'].
  assert (HXne : comps X <> []) by apply comps_nonempty.
  destruct (inv_dirs _ _ HI _ _ Hl' HXne) as (q & Hq & Eq & _ & Hdir).
  apply in_map_iff in Hq. destruct Hq as (it' & <- & Hit'). cbn [ipath isdir citem_of] in Eq, Hdir.
  apply comps_inj in Eq. rewrite (Hdead it' Hit' Eq) in Hdir. discriminate.
Qed.

(* in a sorted listing the entries below a passed entry X come first *)
Lemma not_supp_rest rm acc f1 rest :
  StronglySorted plt (f1 :: rest) -> (forall s, In s (f1 :: rest) -> ok_path (st_path s) = true) ->
  rm_ok rm acc (f1 :: rest) -> suppressed rm (st_path f1) = false ->
  forall s, In s rest -> suppressed rm (st_path s) = false.
Proof.
  intros HS Hok [->|(X & -> & HX & Hgt & _)] Hf1 s Hs; [reflexivity|].
  destruct (suppressed (X ++ [sep]) (st_path s)) eqn:E; auto. exfalso.
  apply suppressed_below in E.
  assert (H1 : compare_path X (st_path f1) = Lt) by (apply Hgt; left; reflexivity).
  assert (H2 : compare_path (st_path f1) (st_path s) = Lt) by (apply (SS_cons_lt plt f1 rest s HS Hs)).
  pose proof (between_below X (st_path f1) (st_path s) H1 H2 E) as Hb.
  rewrite (below_suppressed X (st_path f1) HX (Hok f1 (or_introl eq_refl)) Hb) in Hf1. discriminate.
Qed.


Lemma rwalk_app_dir f j a b i : rwalk f j (a ++ b) = Some i -> b <> [] ->
  exists k, rwalk f j a = Some k /\ is_dir f k = true.
Proof.
  rewrite rwalk_app. destruct (rwalk f j a) as [k|]; [|discriminate]. intros H Hb. exists k. split; auto.
  destruct b as [|c0 r]; [congruence|]. simpl in H. unfold is_dir. destruct (dir_of f k); [reflexivity|discriminate].
Qed.

(* a delete registers no file *)
Lemma apply_change_del_pipes idx p s st : r_pipes (apply_change fl c idx 2 p s st) = r_pipes st.
Proof.
  change (apply_change fl c idx 2 p s st) with (if f_rej fl p then st else apply_change0 c idx 2 p s st).
  destruct (f_rej fl p); [reflexivity|]. unfold apply_change0. destruct (negb (live st)); [reflexivity|].
  destruct (spend st) as [st1|] eqn:Es; [|reflexivity].
  destruct (spend_core st st1 Es) as (_ & _ & _ & Ep & _).
  cbn [r_fs set_tmps].
  destruct (dw_handle c (r_fs st1) (hd default_tmp (r_tmps st1)) 2 p s) as [f' res] eqn:Edw.
  destruct res as [|async newdir]; [simpl; exact Ep|].
  assert (Ha : async = false).
  { destruct async; auto. pose proof (dw_handle_delete_res c (r_fs st1) (hd default_tmp (r_tmps st1)) p s true newdir) as H.
    rewrite Edw in H. specialize (H eq_refl). discriminate. }
  subst async. destruct newdir; simpl; exact Ep.
Qed.

(* inode kinds are those of the initial file system *)
Lemma base_tag st acc i : GB st acc -> i < b0 -> itag (get (r_fs st) i) = itag (get f0 i).
Proof. intros G Hi. apply (st_tag _ _ _ _ _ (g_step D f0 tmps0 st acc G) i Hi). Qed.

Lemma base_is_dir st acc i : GB st acc -> i < b0 -> is_dir (r_fs st) i = is_dir f0 i.
Proof. intros G Hi. apply (is_dir_step D TAll b0 f0 (r_fs st) i (g_step D f0 tmps0 st acc G) Hi). Qed.

Lemma base_is_link st acc i : GB st acc -> i < b0 -> is_link (r_fs st) i = is_link f0 i.
Proof. intros G Hi. apply (is_link_step D TAll b0 f0 (r_fs st) i (g_step D f0 tmps0 st acc G) Hi). Qed.

Lemma old_ino_lt s i : In s L0 -> rwalk f0 D (comps (st_path s)) = Some i -> i < b0.
Proof.
  intros _ Hw. apply (reach_lt D f0 i W0). apply (rwalk_reach D f0 _ D i (reach_refl D f0) Hw).
Qed.


(* ---------------- a directory kept as a directory: the change touches no entry ---------------- *)
Definition inplace_pre (st : rstate) (p : bytes) : Prop :=
  ok_path p = true /\ safe (r_fs st) D (removelast (comps p))
  /\ exists dd i, rwalk (r_fs st) D (removelast (comps p)) = Some dd
                  /\ blookup (last (comps p) []) (ents (r_fs st) dd) = Some i
                  /\ is_dir (r_fs st) i = true /\ get (r_fs st) i <> None.

Lemma apply_change_inplace idx kind p s st acc :
  GB st acc -> N.eqb kind 2 = false -> mode_is_dir (st_mode s) = true ->
  (live st = true -> inplace_pre st p) ->
  let st' := apply_change fl c idx kind p s st in
  GB st' acc /\ same_diff st st' /\ (live st' = true -> live st = true)
  /\ exists b, b0 <= b /\ step TNone b (r_fs st) (r_fs st').
Proof.
  intros G Hk Hdir0 Hpre. cbv zeta.
  change (apply_change fl c idx kind p s st)
    with (if f_rej fl p then st else apply_change0 c idx kind p (if N.eqb kind 2 then s else f_map fl s) st).
  pose proof (g_wf D f0 tmps0 st acc G) as Wg. pose proof (g_next D f0 tmps0 st acc G) as Hb.
  assert (Hsame : exists b, b0 <= b /\ step TNone b (r_fs st) (r_fs st)).
  { exists b0. split; [lia|]. apply step_refl; auto. }
  destruct (f_rej fl p).
  { split; [exact G|]. split; [unfold same_diff; repeat split; reflexivity|]. split; [auto|exact Hsame]. }
  rewrite Hk.
  assert (Hdir : mode_is_dir (st_mode (f_map fl s)) = true) by (rewrite Hmap_mode; exact Hdir0).
  generalize dependent (f_map fl s). clear Hdir0 s. intros s Hdir.
  unfold apply_change0.
  destruct (live st) eqn:L; cbn [negb].
  2:{ split; [exact G|]. split; [unfold same_diff; repeat split; reflexivity|]. split; [intros H; congruence|exact Hsame]. }
  destruct (Hpre eq_refl) as (Hok & Hsafe & Hex).
  destruct (spend st) as [st1|] eqn:Es.
  2:{ split; [|split; [repeat split|split; [intros L'; rewrite live_set_out in L'; [discriminate|discriminate]|exact Hsame]]].
      apply (GBase_quiet D f0 tmps0 st _ acc b0 G); try (unfold b0; lia); simpl.
      - apply step_refl; auto.
      - repeat split.
      - apply G. }
  destruct (spend_core st st1 Es) as (Ef & (Ev & Ese & Et) & El & Ep & Eae & Efi & Eo & Edt & Ecl & Ewa & Erm & Ede & Eout).
  cbn [r_fs set_tmps]. rewrite Ef.
  destruct (dw_inplace_quiet D c (r_fs st) (hd default_tmp (r_tmps st1)) kind p s Wg eq_refl Hok Hsafe Hk Hdir Hex) as [S Ha].
  destruct (dw_handle c (r_fs st) (hd default_tmp (r_tmps st1)) kind p s) as [f' res] eqn:Edw. cbn [fst snd] in S, Ha.
  assert (Hnext : f_next (r_fs st) <= f_next f') by (apply (st_next _ _ _ _ _ S)).
  assert (Gs : FsReachP.step D TAll b0 f0 f').
  { apply (glob_step D f0 TNone (f_next (r_fs st)) (r_fs st)); auto. apply G. }
  assert (Hpk : forall id pp, In (id, pp) (r_pipes st) -> In (pp_path pp) (accpaths acc) /\ pipe_ok D f0 tmps0 f' pp).
  { intros id pp Hin. destruct (g_pipes D f0 tmps0 st acc G id pp Hin) as [A B]. split; auto.
    apply (quiet_pipe_ok D f0 tmps0 (f_next (r_fs st)) (r_fs st) f' pp Wg S B). }
  assert (Htl : forall t, In t (tl (r_tmps st1)) -> tmpname tmps0 t).
  { intros t Ht. apply (g_tmps D f0 tmps0 st acc G). rewrite <- Et. destruct (r_tmps st1); [destruct Ht|right; exact Ht]. }
  assert (Hq : exists b, b0 <= b /\ step TNone b (r_fs st) f') by (exists (f_next (r_fs st)); split; auto).
  destruct res as [|async newdir].
  - split; [|split; [cbn; repeat split; auto|split; [intros L'; rewrite live_set_dead in L'; discriminate|exact Hq]]].
    constructor; cbn; try (rewrite ?Ev, ?Ese; apply G); auto.
    rewrite Ep. exact Hpk.
  - assert (Easync : async = false) by (apply (Ha async newdir eq_refl)). subst async.
    set (st4 := if newdir
                then set_tmps (upd (set_tmps st1 (tl (r_tmps st1)) (r_dirtimes st1)) f')
                       (r_tmps (upd (set_tmps st1 (tl (r_tmps st1)) (r_dirtimes st1)) f'))
                       (bset p (st_mtime s) (r_dirtimes (upd (set_tmps st1 (tl (r_tmps st1)) (r_dirtimes st1)) f')))
                else upd (set_tmps st1 (tl (r_tmps st1)) (r_dirtimes st1)) f').
    assert (F4 : r_fs st4 = f' /\ r_vstk st4 = r_vstk st /\ r_seen st4 = r_seen st /\ r_pipes st4 = r_pipes st
                 /\ r_tmps st4 = tl (r_tmps st1) /\ r_old st4 = r_old st /\ r_rmdir st4 = r_rmdir st
                 /\ r_closed st4 = r_closed st /\ r_waited st4 = r_waited st).
    { unfold st4. destruct newdir; cbn; rewrite ?Ev, ?Ese, ?Ep, ?Eo, ?Erm, ?Ecl, ?Ewa; repeat split; auto. }
    destruct F4 as (F1 & F2 & F3 & F5 & F6 & F7 & F8 & F9 & F10).
    split; [|split; [|split; [auto|rewrite F1; exact Hq]]].
    + constructor; rewrite ?F1, ?F2, ?F3, ?F5, ?F6; try apply G; auto.
    + unfold same_diff. rewrite F2, F3, F7, F8, F9, F10. repeat split.
Qed.


(* ---------------- the invariant between packets ---------------- *)
Record OAlive (st : rstate) (acc : list vitem) : Prop := {
  o_suffix : exists done, L0 = done ++ r_old st
             /\ (r_closed st = false ->
                 forall s, In s done -> exists it0, In it0 acc /\ compare_path (st_path s) (vpath it0) <> Gt);
  o_gt : forall s it0, In s (r_old st) -> In it0 acc -> compare_path (vpath it0) (st_path s) = Lt;
  o_alive : r_closed st = false ->
       prist (r_fs st) (r_rmdir st) (r_old st) /\ rm_ok (r_rmdir st) acc (r_old st)
}.
Definition OInv (st : rstate) (acc : list vitem) : Prop := live st = true -> OAlive st acc.

Definition NInv (st : rstate) (acc : list vitem) : Prop := GInv D f0 tmps0 fl st acc /\ OInv st acc.

(* ================= one STAT of the stream against the unread old listing ================= *)
Section Feed.
Variables (stin : rstate) (acc : list vitem) (s2 : stat) (v' : list ventry) (seen' : list bytes) (idx : nat).
Let p : bytes := st_path s2.
Let it : vitem := item_of s2.
Let acc' : list vitem := acc ++ [it].

Hypothesis Hok : ok_path p = true.
Hypothesis Hclp : cleanp p.
Hypothesis Hspec : spec_ok (map citem_of acc) (citem_of it).
Hypothesis HI' : Inv (map ce v') (map citem_of acc').
Hypothesis Hparent : exists l, In (removelast (comps p), l) (map ce v').
Hypothesis Hacc : Forall (fun it0 => ok_path (vpath it0) = true /\ cleanp (vpath it0)) acc.
(* what the state before this STAT provides: the parent directory, the source of a hard link,
   the directories that stay on the stack and the seen list are reached without meeting a symlink *)
(* (nothing is claimed about what the filter rejects: it never reaches the disk) *)
Hypothesis Hpar0 : f_rej fl p = false -> removelast (comps p) = [] \/
  exists q, In q (accpaths acc) /\ comps q = removelast (comps p) /\ safe (r_fs stin) D (comps q).
Hypothesis Hlink0 : hardlink_branch s2 = true -> f_rej fl p = false ->
  In (st_linkname s2) (accpaths acc) /\ safe (r_fs stin) D (comps (st_linkname s2)).
(* the entry will be walked through (a directory) or named as a link source (no symlink) *)
Definition wanted : Prop :=
  st_is_dir s2 = true \/ (mode_is_symlink (st_mode s2) = false /\ is_nil (st_linkname s2) = true).
Hypothesis Hstack0 : forall ds l, In (ds, l) v' -> f_rej fl ds = false ->
  pcomps ds = [] \/ (exists q, In q (accpaths acc) /\ comps q = pcomps ds /\ safe (r_fs stin) D (comps q))
  \/ (ds = p /\ wanted).
Hypothesis Hseen0 : forall q, In q seen' -> f_rej fl q = false ->
  (In q (accpaths acc) /\ safe (r_fs stin) D (comps q)) \/ (q = p /\ wanted).
Hypothesis Hclosed0 : r_closed stin = false.

(* the removed-directory prefix while the entry is being diffed *)
Definition rmJ (rm : bytes) (old : list stat) : Prop :=
  rm = [] \/ exists X, rm = X ++ [sep] /\ ok_path X = true
     /\ (forall s, In s old -> compare_path X (st_path s) = Lt)
     /\ (forall it0, In it0 acc' -> vpath it0 = X -> visdir it0 = false)
     /\ compare_path X p = Lt.

Record J (st : rstate) (old done : list stat) : Prop := {
  j_base : GB st acc';
  j_vstk : r_vstk st = v';
  j_seen : r_seen st = seen';
  j_pipes : forall id pp, In (id, pp) (r_pipes st) -> In (pp_path pp) (accpaths acc);
  j_closed : r_closed st = false;
  j_old : r_old st = old;
  j_split : L0 = done ++ old;
  j_done : forall s, In s done -> compare_path (st_path s) p = Lt;
  j_gt : forall s it0, In s old -> In it0 acc -> compare_path (vpath it0) (st_path s) = Lt;
  j_live : live st = true ->
     (forall j t, reach (r_fs st) j -> tmpname tmps0 t -> blookup t (ents (r_fs st) j) = None)
     /\ (forall q, In q (accpaths acc) -> safe (r_fs stin) D (comps q) -> safe (r_fs st) D (comps q))
     /\ prist (r_fs st) (r_rmdir st) old
     /\ rmJ (r_rmdir st) old
}.

Lemma old_in st old done s : J st old done -> In s old -> In s L0.
Proof. intros Jv Hs. rewrite (j_split _ _ _ Jv). apply in_or_app. right. exact Hs. Qed.

Lemma old_sorted st old done : J st old done -> StronglySorted plt old.
Proof. intros Jv. apply (SS_app_r plt done old). rewrite <- (j_split _ _ _ Jv). apply (of_sorted D f0 L0 OF). Qed.

Lemma rmJ_rm_ok rm old : rmJ rm old -> rm_ok rm acc' old.
Proof.
  intros [->|(X & E & A & B & C0 & E2)]; [left; reflexivity|right]. exists X. repeat split; auto.
  exists it. split; [unfold acc'; apply in_or_app; right; left; reflexivity|].
  cbn [vpath it item_of]. fold p. rewrite E2. discriminate.
Qed.

Lemma accpaths_lt_p q : In q (accpaths acc) -> compare_path q p = Lt.
Proof.
  intros Hq. destruct Hspec as (_ & Hlt & _). unfold accpaths in Hq. apply in_map_iff in Hq. destruct Hq as (x & <- & Hx).
  rewrite compare_path_lex. apply (Hlt (citem_of x)). apply in_map. exact Hx.
Qed.

(* a skipped entry *)
Lemma suppressed_step st f1 rest done :
  J st (f1 :: rest) done -> compare_path (st_path f1) p = Lt ->
  J (set_diff st rest (r_rmdir st)) rest (done ++ [f1]).
Proof.
  intros Jv Hlt. pose proof (j_base _ _ _ Jv) as G. constructor; cbn [r_vstk r_seen r_pipes r_closed r_old set_diff r_fs r_rmdir].
  - apply (GBase_quiet D f0 tmps0 st _ acc' b0 G); try (unfold b0; lia); simpl.
    + apply step_refl; [apply (g_wf D f0 tmps0 st acc' G)|apply (g_next D f0 tmps0 st acc' G)].
    + repeat split.
    + apply G.
  - apply Jv.
  - apply Jv.
  - apply Jv.
  - apply Jv.
  - reflexivity.
  - rewrite (j_split _ _ _ Jv), <- app_assoc. reflexivity.
  - intros s Hs. apply in_app_or in Hs. destruct Hs as [Hs|[<-|[]]]; [apply (j_done _ _ _ Jv s Hs)|exact Hlt].
  - intros s it0 Hs. apply (j_gt _ _ _ Jv). right. exact Hs.
  - intros L. destruct (j_live _ _ _ Jv L) as (A1 & A2 & A3 & A4). split; auto. split; auto. split.
    + intros s Hs. apply A3. right. exact Hs.
    + destruct A4 as [->|(X & E & B1 & B2 & B3 & B4)]; [left; reflexivity|right].
      exists X. repeat split; auto. intros s Hs. apply B2. right. exact Hs.
Qed.


Lemma acc_clean q : In q (accpaths acc) -> ok_path q = true /\ cleanp q.
Proof. intros Hq. apply (In_accpaths_clean tmps0 acc q Hacc Hq). Qed.

Lemma live_set_diff st old rm : live (set_diff st old rm) = live st.
Proof. reflexivity. Qed.

(* an old entry that the stream does not have (it sorts before the current path): RemoveAll *)
Lemma delete_step st f1 rest done :
  J st (f1 :: rest) done -> compare_path (st_path f1) p = Lt ->
  suppressed (r_rmdir st) (st_path f1) = false ->
  J (apply_change fl c idx 2 (st_path f1) f1 (set_diff st rest (rm_prefix_of f1))) rest (done ++ [f1]).
Proof.
  intros Jv Hlt Hsup. pose proof (j_base _ _ _ Jv) as G.
  set (q1 := st_path f1) in *. set (st0 := set_diff st rest (rm_prefix_of f1)).
  assert (Hin1 : In f1 L0) by (apply (old_in st (f1 :: rest) done f1 Jv); left; reflexivity).
  destruct (old_entry f1 Hin1) as (Hok1 & Hcl1 & i1 & Hw1 & Hd1 & Hex1 & _).
  assert (G0 : GB st0 acc').
  { apply (GBase_quiet D f0 tmps0 st st0 acc' b0 G); try (unfold b0; lia); simpl.
    - apply step_refl; [apply (g_wf D f0 tmps0 st acc' G)|apply (g_next D f0 tmps0 st acc' G)].
    - repeat split.
    - apply G. }
  assert (HSS : StronglySorted plt (f1 :: rest)) by (apply (old_sorted st (f1 :: rest) done Jv)).
  assert (Hokall : forall s, In s (f1 :: rest) -> ok_path (st_path s) = true).
  { intros s Hs. apply (old_entry s (old_in st _ done s Jv Hs)). }
  assert (Hpre : live st0 = true -> f_rej fl q1 = false -> change_pre D tmps0 2 st0 q1 f1 acc').
  { intros L _. destruct (j_live _ _ _ Jv L) as (A1 & A2 & A3 & A4).
    unfold change_pre. cbn [r_fs st0 set_diff r_pipes].
    split; [exact Hok1|]. split; [exact Hcl1|]. split.
    - pose proof (A3 f1 (or_introl eq_refl) Hsup) as Hp. rewrite Hw1 in Hp.
      apply (rwalk_prefix_safe (r_fs st) (comps q1) D i1 Hp).
    - split; [exact A1|]. split; [discriminate|]. split; [|discriminate].
      intros id pp Hin. apply cmp_lt_not_prefix.
      pose proof (j_pipes _ _ _ Jv id pp Hin) as Hq. unfold accpaths in Hq. apply in_map_iff in Hq.
      destruct Hq as (x & Ex & Hx). rewrite <- Ex. apply (j_gt _ _ _ Jv f1 x (or_introl eq_refl) Hx). }
  assert (Hfree0 : live st0 = true -> forall j t, reach (r_fs st0) j -> tmpname tmps0 t -> blookup t (ents (r_fs st0) j) = None).
  { intros L. apply (j_live _ _ _ Jv L). }
  pose proof (apply_change_inv D root f0 tmps0 fl Hmap_mode Hmap_link Hclosed tmp_ok idx 2 q1 f1 st0 acc' G0 Hpre Hfree0) as X.
  change {| c_root := root; c_cwd := D |} with c in X. cbv zeta in X.
  set (st1 := apply_change fl c idx 2 q1 f1 st0) in *.
  destruct X as (G1 & (F1 & F2 & F3 & F4 & F5 & _) & Hpost).
  constructor.
  - exact G1.
  - rewrite F1. apply Jv.
  - rewrite F2. apply Jv.
  - unfold st1. rewrite apply_change_del_pipes. apply (j_pipes _ _ _ Jv).
  - rewrite F5. apply Jv.
  - rewrite F3. reflexivity.
  - rewrite (j_split _ _ _ Jv), <- app_assoc. reflexivity.
  - intros s Hs. apply in_app_or in Hs. destruct Hs as [Hs|[<-|[]]]; [apply (j_done _ _ _ Jv s Hs)|exact Hlt].
  - intros s it0 Hs. apply (j_gt _ _ _ Jv). right. exact Hs.
  - intros L1. destruct (Hpost L1) as (L0' & P1 & P2 & _).
    destruct (j_live _ _ _ Jv L0') as (A1 & A2 & A3 & A4).
    split; [exact P1|]. split; [|split].
    + intros q Hq Hs. refine (proj1 (P2 (comps q) _ _) _).
      * apply cmp_lt_not_prefix. unfold accpaths in Hq. apply in_map_iff in Hq. destruct Hq as (x & <- & Hx).
        apply (j_gt _ _ _ Jv f1 x (or_introl eq_refl) Hx).
      * apply (acc_clean q Hq).
      * apply (A2 q Hq Hs).
    + (* entries not yet passed resolve as at the start *)
      rewrite F4. cbn [r_rmdir st0 set_diff]. intros s Hs Hsup'.
      assert (Hins : In s L0) by (apply (old_in st _ done s Jv); right; exact Hs).
      destruct (old_entry s Hins) as (Hoks & Hcls & i' & Hws & _).
      assert (Hbefore : suppressed (r_rmdir st) (st_path s) = false).
      { apply (not_supp_rest (r_rmdir st) acc' f1 rest HSS Hokall (rmJ_rm_ok _ _ A4) Hsup s Hs). }
      rewrite <- (A3 s (or_intror Hs) Hbefore).
      refine (proj2 (P2 (comps (st_path s)) _ Hcls)).
      intros Hpfx.
      assert (Hne : q1 <> st_path s).
      { apply cmp_lt_ne. apply (SS_cons_lt plt f1 rest s HSS Hs). }
      pose proof (prefix_proper_below q1 (st_path s) Hok1 Hpfx Hne) as Hbelow.
      (* then f1 is a directory, and s is skipped *)
      destruct Hbelow as (y & Hy & Ey).
      assert (Hdir1 : st_is_dir f1 = true).
      { rewrite Ey in Hws. destruct (rwalk_app_dir f0 D (comps q1) y i' Hws Hy) as (k & Hk & Hkd).
        unfold q1 in Hk. rewrite Hw1 in Hk. inversion Hk; subst k. rewrite Hd1. exact Hkd. }
      unfold rm_prefix_of in Hsup'. rewrite Hdir1 in Hsup'. fold q1 in Hsup'.
      rewrite (below_suppressed q1 (st_path s) Hok1 Hoks) in Hsup'; [discriminate|].
      exists y. split; auto.
    + rewrite F4. cbn [r_rmdir st0 set_diff]. unfold rm_prefix_of. destruct (st_is_dir f1); [right|left; reflexivity].
      exists q1. split; [reflexivity|]. split; [exact Hok1|]. split; [|split].
      * intros s Hs. apply (SS_cons_lt plt f1 rest s HSS Hs).
      * intros it0 Hin0 E0. exfalso. unfold acc' in Hin0. apply in_app_or in Hin0. destruct Hin0 as [Hin0|[<-|[]]].
        -- pose proof (j_gt _ _ _ Jv f1 it0 (or_introl eq_refl) Hin0) as H. fold q1 in H. rewrite E0, compare_path_refl in H. discriminate.
        -- cbn [vpath it item_of] in E0. fold p in E0. rewrite E0, compare_path_refl in Hlt. discriminate.
      * exact Hlt.
Qed.


Lemma wanted_solid : wanted -> solid s2 = true.
Proof.
  unfold wanted, solid, st_is_dir. intros [H|[H1 H2]].
  - rewrite H. reflexivity.
  - rewrite H1, H2. cbn [negb andb]. rewrite orb_true_r. reflexivity.
Qed.

Lemma it_in_acc' : In it acc'.
Proof. unfold acc'. apply in_or_app. right. left. reflexivity. Qed.

Lemma p_in_accpaths' : In p (accpaths acc').
Proof. unfold acc'. rewrite accpaths_app. apply in_or_app. right. left. reflexivity. Qed.

(* what a state in which p has been handled must provide, given what the loop-head invariant kept *)
Lemma alive_after (st st' : rstate) :
  r_vstk st' = v' -> r_seen st' = seen' ->
  (forall j t, reach (r_fs st') j -> tmpname tmps0 t -> blookup t (ents (r_fs st') j) = None) ->
  (forall q, In q (accpaths acc) -> safe (r_fs stin) D (comps q) -> safe (r_fs st') D (comps q)) ->
  (wanted -> f_rej fl p = false -> safe (r_fs st') D (comps p)) ->
  alive_inv D tmps0 fl st'.
Proof.
  intros E1 E2 Htf Hkeep Hsol. constructor.
  - exact Htf.
  - intros ds l Hin Hrj. rewrite E1 in Hin. destruct (Hstack0 ds l Hin Hrj) as [E|[(q & Hq & Eq & Hs)|(E & Hso)]].
    + rewrite E. exact I.
    + rewrite <- Eq. apply Hkeep; auto.
    + subst ds. assert (E : pcomps p = comps p) by (apply pcomps_nonempty; intro E0; rewrite E0 in Hok; discriminate).
      rewrite E. apply Hsol; auto.
  - intros q Hin Hrj. rewrite E2 in Hin. destruct (Hseen0 q Hin Hrj) as [(Hq & Hs)|(-> & Hso)].
    + apply Hkeep; auto.
    + apply Hsol; auto.
Qed.

(* the path is new: everything still unread sorts after it *)
Lemma final_add st old done :
  J st old done -> (forall s, In s old -> compare_path p (st_path s) = Lt) ->
  NInv (apply_change fl c idx 0 p s2 (set_diff st old [])) acc'.
Proof.
  intros Jv Hgt. pose proof (j_base _ _ _ Jv) as G.
  set (st0 := set_diff st old []).
  assert (G0 : GB st0 acc').
  { apply (GBase_quiet D f0 tmps0 st st0 acc' b0 G); try (unfold b0; lia); simpl.
    - apply step_refl; [apply (g_wf D f0 tmps0 st acc' G)|apply (g_next D f0 tmps0 st acc' G)].
    - repeat split.
    - apply G. }
  assert (Hpre : live st0 = true -> f_rej fl p = false -> change_pre D tmps0 0 st0 p s2 acc').
  { intros L Hrj. destruct (j_live _ _ _ Jv L) as (A1 & A2 & A3 & A4).
    unfold change_pre. cbn [r_fs st0 set_diff r_pipes].
    split; [exact Hok|]. split; [exact Hclp|]. split.
    - destruct (Hpar0 Hrj) as [E|(q & Hq & Eq & Hs)]; [rewrite E; exact I|]. rewrite <- Eq. apply A2; auto.
    - split; [exact A1|]. split; [|split].
      + intros _ Hhb. destruct (Hlink0 Hhb Hrj) as [Hq Hs]. destruct (acc_clean _ Hq) as [Hokl _]. split; auto.
        pose proof (A2 _ Hq Hs) as Hs'. rewrite (split_comps _ Hokl) in Hs'. apply safe_prefix in Hs'. exact Hs'.
      + intros id pp Hin. apply cmp_lt_not_prefix. apply accpaths_lt_p. apply (j_pipes _ _ _ Jv id pp Hin).
      + intros _. apply p_in_accpaths'. }
  assert (Hfree0 : live st0 = true -> forall j t, reach (r_fs st0) j -> tmpname tmps0 t -> blookup t (ents (r_fs st0) j) = None).
  { intros L. apply (j_live _ _ _ Jv L). }
  pose proof (apply_change_inv D root f0 tmps0 fl Hmap_mode Hmap_link Hclosed tmp_ok idx 0 p s2 st0 acc' G0 Hpre Hfree0) as X.
  change {| c_root := root; c_cwd := D |} with c in X. cbv zeta in X.
  set (st1 := apply_change fl c idx 0 p s2 st0) in *.
  destruct X as (G1 & (F1 & F2 & F3 & F4 & F5 & _) & Hpost).
  assert (Hall_unsup : live st = true -> forall s, In s old -> suppressed (r_rmdir st) (st_path s) = false).
  { intros L s Hs. destruct (j_live _ _ _ Jv L) as (_ & _ & _ & A4).
    destruct A4 as [->|(X & E & B1 & B2 & B3 & B4)]; [reflexivity|]. rewrite E.
    destruct (suppressed (X ++ [sep]) (st_path s)) eqn:Es; auto. exfalso.
    apply suppressed_below in Es.
    apply (dead_not_below v' acc' X p HI' Hparent B3 Hok).
    apply (between_below X p (st_path s) B4 (Hgt s Hs) Es). }
  split.
  - (* the global invariant *)
    split; [exact G1|]. intros L1. destruct (Hpost L1) as (L0' & P1 & P2 & P3).
    destruct (j_live _ _ _ Jv L0') as (A1 & A2 & A3 & A4).
    apply (alive_after st st1).
    + rewrite F1. apply Jv.
    + rewrite F2. apply Jv.
    + exact P1.
    + intros q Hq Hs. refine (proj1 (P2 (comps q) _ _) _).
      * apply cmp_lt_not_prefix. apply accpaths_lt_p. exact Hq.
      * apply (acc_clean q Hq).
      * apply (A2 q Hq Hs).
    + intros Hw Hrj. apply P3; [discriminate|apply wanted_solid; exact Hw|exact Hrj].
  - (* the old listing *)
    intros L1. constructor.
    + exists done. rewrite F3. cbn [r_old st0 set_diff]. split; [apply Jv|].
      intros _ s Hs. exists it. split; [apply it_in_acc'|]. cbn [vpath it item_of]. fold p.
      rewrite (j_done _ _ _ Jv s Hs). discriminate.
    + rewrite F3. cbn [r_old st0 set_diff]. intros s it0 Hs Hin0. unfold acc' in Hin0.
      apply in_app_or in Hin0. destruct Hin0 as [Hin0|[<-|[]]]; [apply (j_gt _ _ _ Jv s it0 Hs Hin0)|].
      cbn [vpath it item_of]. fold p. apply (Hgt s Hs).
    + intros _. rewrite F3, F4. cbn [r_old r_rmdir st0 set_diff]. split; [|left; reflexivity].
      destruct (Hpost L1) as (L0' & P1 & P2 & P3).
      destruct (j_live _ _ _ Jv L0') as (A1 & A2 & A3 & A4).
      intros s Hs _.
      assert (Hins : In s L0) by (apply (old_in st old done s Jv Hs)).
      destruct (old_entry s Hins) as (Hoks & Hcls & _).
      rewrite <- (A3 s Hs (Hall_unsup L0' s Hs)).
      refine (proj2 (P2 (comps (st_path s)) _ Hcls)).
      intros Hpfx.
      (* an unread entry below the new path: its parent chain is in the listing, so p would be an entry *)
      assert (Hne : p <> st_path s) by (apply cmp_lt_ne; apply (Hgt s Hs)).
      destruct (prefix_proper_below p (st_path s) Hok Hpfx Hne) as (y & Hy & Ey).
      destruct (of_closed D f0 L0 OF s (comps p) y Hins Ey (comps_nonempty p) Hy) as (s' & Hs' & Es').
      apply comps_inj in Es'.
      rewrite (j_split _ _ _ Jv) in Hs'. apply in_app_or in Hs'. destruct Hs' as [Hd|Ho].
      * pose proof (j_done _ _ _ Jv s' Hd) as H. rewrite Es', compare_path_refl in H. discriminate.
      * pose proof (Hgt s' Ho) as H. rewrite Es', compare_path_refl in H. discriminate.
Qed.


Lemma same_file_mode a b : same_file a b = true -> st_mode a = st_mode b.
Proof.
  unfold same_file. intros H. repeat (apply andb_true_iff in H; destruct H as [H ?]).
  apply N.eqb_eq. assumption.
Qed.

Lemma safe_of_rwalk_nolink f cs i : rwalk f D cs = Some i -> is_link f i = false -> safe f D cs.
Proof.
  intros Hw Hl. destruct cs as [|c0 r0] using rev_ind; [exact I|].
  apply safe_app. split.
  - pose proof (rwalk_prefix_safe f (r0 ++ [c0]) D i Hw) as H. rewrite removelast_last in H. exact H.
  - intros j Hj. apply safe_unfold. apply rwalk_snoc in Hw. destruct Hw as (d & Hd & Hb & _).
    rewrite Hj in Hd. inversion Hd; subst d. rewrite Hb. split; [exact Hl|exact I].
Qed.

(* the stream has the path of the next old entry *)
Lemma final_eq st f1 rest done :
  J st (f1 :: rest) done -> st_path f1 = p ->
  let rm := if st_is_dir f1 && negb (st_is_dir s2) then st_path f1 ++ [sep] else [] in
  let st1 := set_diff st rest rm in
  NInv (if same_file f1 (f_map fl s2) then st1 else apply_change fl c idx 1 p s2 st1) acc'.
Proof.
  intros Jv Ep rm st1. pose proof (j_base _ _ _ Jv) as G.
  assert (Hin1 : In f1 L0) by (apply (old_in st (f1 :: rest) done f1 Jv); left; reflexivity).
  destruct (old_entry f1 Hin1) as (Hok1 & Hcl1 & i1 & Hw1 & Hd1 & Hex1 & Hlk1).
  rewrite Ep in Hw1.
  assert (Hi1 : i1 < b0) by (apply (old_ino_lt f1 i1 Hin1); rewrite Ep; exact Hw1).
  assert (HSS : StronglySorted plt (f1 :: rest)) by (apply (old_sorted st (f1 :: rest) done Jv)).
  assert (Hokall : forall s, In s (f1 :: rest) -> ok_path (st_path s) = true).
  { intros s Hs. apply (old_entry s (old_in st _ done s Jv Hs)). }
  assert (Hrest_gt : forall s, In s rest -> compare_path p (st_path s) = Lt).
  { intros s Hs. rewrite <- Ep. apply (SS_cons_lt plt f1 rest s HSS Hs). }
  assert (G1 : GB st1 acc').
  { apply (GBase_quiet D f0 tmps0 st st1 acc' b0 G); try (unfold b0; lia); simpl.
    - apply step_refl; [apply (g_wf D f0 tmps0 st acc' G)|apply (g_next D f0 tmps0 st acc' G)].
    - repeat split.
    - apply G. }
  (* while the writer is alive: nothing unread is skipped, the entry resolves as at the start *)
  assert (Hlive : live st = true ->
            (forall s, In s (f1 :: rest) -> suppressed (r_rmdir st) (st_path s) = false)
            /\ rwalk (r_fs st) D (comps p) = Some i1).
  { intros L. destruct (j_live _ _ _ Jv L) as (A1 & A2 & A3 & A4).
    assert (H1 : suppressed (r_rmdir st) (st_path f1) = false).
    { destruct A4 as [->|(X & E & B1 & B2 & B3 & B4)]; [reflexivity|]. rewrite E.
      destruct (suppressed (X ++ [sep]) (st_path f1)) eqn:Es; auto. exfalso.
      apply suppressed_below in Es. rewrite Ep in Es. apply (dead_not_below v' acc' X p HI' Hparent B3 Hok Es). }
    split.
    - intros s [<-|Hs]; auto. apply (not_supp_rest (r_rmdir st) acc' f1 rest HSS Hokall (rmJ_rm_ok _ _ A4) H1 s Hs).
    - pose proof (A3 f1 (or_introl eq_refl) H1) as H. rewrite Ep, Hw1 in H. exact H. }
  (* the old-listing part of the invariant, for any state that kept [rest] and [rm] *)
  assert (HO : forall st', r_old st' = rest -> r_rmdir st' = rm ->
            (live st' = true -> prist (r_fs st') rm rest) -> OInv st' acc').
  { intros st' E1 E2 Hp L. constructor.
    - exists (done ++ [f1]). rewrite E1. split; [rewrite (j_split _ _ _ Jv), <- app_assoc; reflexivity|].
      intros _ s Hs. exists it. split; [apply it_in_acc'|]. cbn [vpath it item_of]. fold p.
      apply in_app_or in Hs. destruct Hs as [Hs|[<-|[]]].
      + rewrite (j_done _ _ _ Jv s Hs). discriminate.
      + rewrite Ep, compare_path_refl. discriminate.
    - rewrite E1. intros s it0 Hs Hin0. unfold acc' in Hin0. apply in_app_or in Hin0.
      destruct Hin0 as [Hin0|[<-|[]]]; [apply (j_gt _ _ _ Jv s it0 (or_intror Hs) Hin0)|].
      cbn [vpath it item_of]. fold p. apply (Hrest_gt s Hs).
    - intros _. rewrite E1, E2. split; [apply Hp; exact L|].
      unfold rm. destruct (st_is_dir f1 && negb (st_is_dir s2)) eqn:Erm; [right|left; reflexivity].
      exists p. rewrite Ep. split; [reflexivity|]. split; [exact Hok|]. split; [exact Hrest_gt|]. split.
      + intros it0 Hin0 E0. unfold acc' in Hin0. apply in_app_or in Hin0. destruct Hin0 as [Hin0|[<-|[]]].
        * exfalso. assert (Hq : In (vpath it0) (accpaths acc)) by (unfold accpaths; apply in_map; exact Hin0).
          pose proof (accpaths_lt_p _ Hq) as H. rewrite E0, compare_path_refl in H. discriminate.
        * cbn [visdir it item_of]. apply andb_true_iff in Erm. destruct Erm as [_ Erm]. apply negb_true_iff in Erm. exact Erm.
      + exists it. split; [apply it_in_acc'|]. cbn [vpath it item_of]. fold p. rewrite compare_path_refl. discriminate. }
  destruct (same_file f1 (f_map fl s2)) eqn:Esame.
  - (* nothing to do *)
    pose proof (same_file_mode f1 _ Esame) as Emode. rewrite Hmap_mode in Emode.
    split; [|apply HO; auto].
    + split; [exact G1|]. intros L. assert (L0' : live st = true) by exact L.
      destruct (j_live _ _ _ Jv L0') as (A1 & A2 & A3 & A4). destruct (Hlive L0') as [_ Hwp].
      apply (alive_after st st1); cbn [r_vstk r_seen r_fs st1 set_diff]; try apply Jv; auto.
      intros [Hdir|[Hns _]] _.
      * apply (rwalk_dir_safe (r_fs st) (comps p) D i1 Hwp).
        rewrite (base_is_dir st acc' i1 G Hi1), <- Hd1. unfold st_is_dir in *. rewrite Emode. exact Hdir.
      * apply (safe_of_rwalk_nolink (r_fs st) (comps p) i1 Hwp).
        rewrite (base_is_link st acc' i1 G Hi1). destruct (is_link f0 i1) eqn:El; auto.
        pose proof (Hlk1 eq_refl) as H. rewrite Emode, Hns in H. discriminate.
    + intros L s Hs Hsup'. assert (L0' : live st = true) by exact L.
      destruct (j_live _ _ _ Jv L0') as (A1 & A2 & A3 & A4). destruct (Hlive L0') as [Hun _].
      apply (A3 s (or_intror Hs) (Hun s (or_intror Hs))).
  - (* the entry changed *)
    destruct (st_is_dir f1 && st_is_dir s2) eqn:Einp.
    + (* a directory stays a directory: its metadata is rewritten in place *)
      apply andb_true_iff in Einp. destruct Einp as [Ed1 Ed2].
      assert (Erm : rm = []) by (unfold rm; rewrite Ed1, Ed2; reflexivity).
      assert (Hinp : live st1 = true -> inplace_pre st1 p).
      { intros L. assert (L0' : live st = true) by exact L. destruct (Hlive L0') as [_ Hwp].
        unfold inplace_pre. cbn [r_fs st1 set_diff]. split; [exact Hok|]. split.
        - apply (rwalk_prefix_safe (r_fs st) (comps p) D i1 Hwp).
        - rewrite (split_comps p Hok) in Hwp. apply rwalk_snoc in Hwp. destruct Hwp as (dd & A & B & _).
          exists dd, i1. split; [exact A|]. split; [exact B|]. split.
          + rewrite (base_is_dir st acc' i1 G Hi1), <- Hd1. exact Ed1.
          + intro E. pose proof (base_tag st acc' i1 G Hi1) as Ht. rewrite E in Ht. simpl in Ht.
            destruct (get f0 i1); [discriminate|]. apply Hex1. reflexivity. }
      pose proof (apply_change_inplace idx 1 p s2 st1 acc' G1 eq_refl Ed2 Hinp) as X. cbv zeta in X.
      set (st2 := apply_change fl c idx 1 p s2 st1) in *.
      destruct X as (G2 & (F1 & F2 & F3 & F4 & F5 & F6) & Hl & b & Hb & S).
      pose proof (g_wf D f0 tmps0 st acc' G) as Wg.
      change (r_fs st1) with (r_fs st) in S.
      split.
      * split; [exact G2|]. intros L2. assert (L0' : live st = true) by (apply (Hl L2)).
        destruct (j_live _ _ _ Jv L0') as (A1 & A2 & A3 & A4). destruct (Hlive L0') as [_ Hwp].
        apply (alive_after st st2).
        -- rewrite F1. apply Jv.
        -- rewrite F2. apply Jv.
        -- intros j t Rj Ht. pose proof (quiet_reach D b _ _ j Wg S Rj) as Rj0.
           rewrite (quiet_blookup D b _ _ j t S (reach_lt D _ j Wg Rj0)). apply A1; auto.
        -- intros q Hq Hs. apply (quiet_safe D b (r_fs st)); auto.
        -- intros _ _. apply (rwalk_dir_safe (r_fs st2) (comps p) D i1).
           ++ rewrite (quiet_rwalk D b (r_fs st) (r_fs st2) (comps p) Wg S). exact Hwp.
           ++ rewrite (base_is_dir st2 acc' i1 G2 Hi1), <- Hd1. exact Ed1.
      * apply HO; [rewrite F3; reflexivity|rewrite F4; reflexivity|].
        intros L2 s Hs Hsup'. assert (L0' : live st = true) by (apply (Hl L2)).
        destruct (j_live _ _ _ Jv L0') as (A1 & A2 & A3 & A4). destruct (Hlive L0') as [Hun _].
        rewrite (quiet_rwalk D b (r_fs st) (r_fs st2) _ Wg S).
        apply (A3 s (or_intror Hs) (Hun s (or_intror Hs))).
    + (* replaced by a new entry made next to it *)
      assert (Hpre : live st1 = true -> f_rej fl p = false -> change_pre D tmps0 1 st1 p s2 acc').
      { intros L Hrj. assert (L0' : live st = true) by exact L.
        destruct (j_live _ _ _ Jv L0') as (A1 & A2 & A3 & A4). destruct (Hlive L0') as [_ Hwp].
        unfold change_pre. cbn [r_fs st1 set_diff r_pipes].
        split; [exact Hok|]. split; [exact Hclp|]. split.
        - apply (rwalk_prefix_safe (r_fs st) (comps p) D i1 Hwp).
        - split; [exact A1|]. split; [|split].
          + intros _ Hhb. destruct (Hlink0 Hhb Hrj) as [Hq Hs]. destruct (acc_clean _ Hq) as [Hokl _]. split; auto.
            pose proof (A2 _ Hq Hs) as Hs'. rewrite (split_comps _ Hokl) in Hs'. apply safe_prefix in Hs'. exact Hs'.
          + intros id pp Hin. apply cmp_lt_not_prefix. apply accpaths_lt_p. apply (j_pipes _ _ _ Jv id pp Hin).
          + intros _. apply p_in_accpaths'. }
      assert (Hfree1 : live st1 = true -> forall j t, reach (r_fs st1) j -> tmpname tmps0 t -> blookup t (ents (r_fs st1) j) = None).
      { intros L. apply (j_live _ _ _ Jv L). }
      pose proof (apply_change_inv D root f0 tmps0 fl Hmap_mode Hmap_link Hclosed tmp_ok idx 1 p s2 st1 acc' G1 Hpre Hfree1) as X.
      change {| c_root := root; c_cwd := D |} with c in X. cbv zeta in X.
      set (st2 := apply_change fl c idx 1 p s2 st1) in *.
      destruct X as (G2 & (F1 & F2 & F3 & F4 & F5 & _) & Hpost).
      split.
      * split; [exact G2|]. intros L2. destruct (Hpost L2) as (L1 & P1 & P2 & P3).
        assert (L0' : live st = true) by exact L1.
        destruct (j_live _ _ _ Jv L0') as (A1 & A2 & A3 & A4).
        apply (alive_after st st2).
        -- rewrite F1. apply Jv.
        -- rewrite F2. apply Jv.
        -- exact P1.
        -- intros q Hq Hs. refine (proj1 (P2 (comps q) _ _) _).
           ++ apply cmp_lt_not_prefix. apply accpaths_lt_p. exact Hq.
           ++ apply (acc_clean q Hq).
           ++ apply (A2 q Hq Hs).
        -- intros Hw Hrj. apply P3; [discriminate|apply wanted_solid; exact Hw|exact Hrj].
      * apply HO; [rewrite F3; reflexivity|rewrite F4; reflexivity|].
        intros L2 s Hs Hsup'. destruct (Hpost L2) as (L1 & P1 & P2 & P3).
        assert (L0' : live st = true) by exact L1.
        destruct (j_live _ _ _ Jv L0') as (A1 & A2 & A3 & A4). destruct (Hlive L0') as [Hun _].
        assert (Hins : In s L0) by (apply (old_in st _ done s Jv); right; exact Hs).
        destruct (old_entry s Hins) as (Hoks & Hcls & i' & Hws & _).
        rewrite <- (A3 s (or_intror Hs) (Hun s (or_intror Hs))).
        refine (proj2 (P2 (comps (st_path s)) _ Hcls)).
        intros Hpfx.
        assert (Hne : p <> st_path s) by (apply cmp_lt_ne; apply (Hrest_gt s Hs)).
        destruct (prefix_proper_below p (st_path s) Hok Hpfx Hne) as (y & Hy & Ey).
        assert (Hdir1 : st_is_dir f1 = true).
        { rewrite Ey in Hws. destruct (rwalk_app_dir f0 D (comps p) y i' Hws Hy) as (k & Hk & Hkd).
          rewrite Hw1 in Hk. inversion Hk; subst k. rewrite Hd1. exact Hkd. }
        rewrite Hdir1 in Einp. cbn [andb] in Einp.
        unfold rm in Hsup'. rewrite Hdir1, Einp, Ep in Hsup'. cbn [negb andb] in Hsup'.
        rewrite (below_suppressed p (st_path s) Hok Hoks) in Hsup'; [discriminate|].
        exists y. split; auto.
Qed.


(* the writer died while the old entries were being deleted *)
Lemma J_dead st old done : J st old done -> live st = false -> NInv st acc'.
Proof.
  intros Jv L. split.
  - split; [apply Jv|]. intros H. congruence.
  - intros H. congruence.
Qed.

Theorem diff_feed_inv : forall old st done, J st old done -> NInv (diff_feed fl c idx s2 old st) acc'.
Proof.
  induction old as [|f1 rest IH]; intros st done Jv; cbn [diff_feed].
  - apply (final_add st [] done Jv). intros s [].
  - fold p. destruct (compare_path (st_path f1) p) eqn:Ecmp.
    + apply compare_path_eq in Ecmp. apply (final_eq st f1 rest done Jv Ecmp).
    + destruct (suppressed (r_rmdir st) (st_path f1)) eqn:Es.
      * apply (IH _ (done ++ [f1])). apply suppressed_step; auto.
      * pose proof (delete_step st f1 rest done Jv Ecmp Es) as J1.
        destruct (live (apply_change fl c idx 2 (st_path f1) f1 (set_diff st rest (rm_prefix_of f1)))) eqn:L1.
        -- apply (IH _ (done ++ [f1]) J1).
        -- apply (J_dead _ rest (done ++ [f1]) J1 L1).
    + apply (final_add st (f1 :: rest) done Jv).
      assert (H1 : compare_path p (st_path f1) = Lt) by (rewrite compare_path_opp, Ecmp; reflexivity).
      intros s [<-|Hs]; [exact H1|].
      apply (compare_path_trans p (st_path f1) (st_path s) H1).
      apply (SS_cons_lt plt f1 rest s (old_sorted st (f1 :: rest) done Jv) Hs).
Qed.

End Feed.


(* ================= the end of the listing: whatever is still unread is deleted ================= *)
Section Flush.
Variables (stin : rstate) (acc : list vitem) (idx : nat).
Hypothesis Hacc : Forall (fun it0 => ok_path (vpath it0) = true /\ cleanp (vpath it0)) acc.

Definition rmF (rm : bytes) (old : list stat) : Prop :=
  rm = [] \/ exists X, rm = X ++ [sep] /\ ok_path X = true /\ (forall s, In s old -> compare_path X (st_path s) = Lt).

Record FJ (st : rstate) (old done : list stat) : Prop := {
  f_base : GB st acc;
  f_vstk : r_vstk st = r_vstk stin;
  f_seen : r_seen st = r_seen stin;
  f_closed : r_closed st = true;
  f_old : r_old st = old;
  f_split : L0 = done ++ old;
  f_gt : forall s it0, In s old -> In it0 acc -> compare_path (vpath it0) (st_path s) = Lt;
  f_live : live st = true ->
     (forall j t, reach (r_fs st) j -> tmpname tmps0 t -> blookup t (ents (r_fs st) j) = None)
     /\ (forall q, In q (accpaths acc) -> safe (r_fs stin) D (comps q) -> safe (r_fs st) D (comps q))
     /\ prist (r_fs st) (r_rmdir st) old
     /\ rmF (r_rmdir st) old
}.

Lemma rmF_rm_ok rm old : rmF rm old -> forall f1 rest, old = f1 :: rest ->
  StronglySorted plt (f1 :: rest) -> (forall s, In s (f1 :: rest) -> ok_path (st_path s) = true) ->
  suppressed rm (st_path f1) = false -> forall s, In s rest -> suppressed rm (st_path s) = false.
Proof.
  intros [->|(X & -> & HX & Hgt)] f1 rest -> HS Hok Hf1 s Hs; [reflexivity|].
  destruct (suppressed (X ++ [sep]) (st_path s)) eqn:E; auto. exfalso.
  apply suppressed_below in E.
  assert (H1 : compare_path X (st_path f1) = Lt) by (apply Hgt; left; reflexivity).
  assert (H2 : compare_path (st_path f1) (st_path s) = Lt) by (apply (SS_cons_lt plt f1 rest s HS Hs)).
  pose proof (between_below X (st_path f1) (st_path s) H1 H2 E) as Hb.
  rewrite (below_suppressed X (st_path f1) HX (Hok f1 (or_introl eq_refl)) Hb) in Hf1. discriminate.
Qed.

Lemma facc_clean q : In q (accpaths acc) -> ok_path q = true /\ cleanp q.
Proof. intros Hq. apply (In_accpaths_clean tmps0 acc q Hacc Hq). Qed.

Lemma fold_in st old done s : FJ st old done -> In s old -> In s L0.
Proof. intros Fv Hs. rewrite (f_split _ _ _ Fv). apply in_or_app. right. exact Hs. Qed.

Lemma fold_sorted st old done : FJ st old done -> StronglySorted plt old.
Proof. intros Fv. apply (SS_app_r plt done old). rewrite <- (f_split _ _ _ Fv). apply (of_sorted D f0 L0 OF). Qed.

Lemma flush_skip st f1 rest done :
  FJ st (f1 :: rest) done -> FJ (set_diff st rest (r_rmdir st)) rest (done ++ [f1]).
Proof.
  intros Fv. pose proof (f_base _ _ _ Fv) as G. constructor; cbn [r_vstk r_seen r_closed r_old set_diff r_fs r_rmdir].
  - apply (GBase_quiet D f0 tmps0 st _ acc b0 G); try (unfold b0; lia); simpl.
    + apply step_refl; [apply (g_wf D f0 tmps0 st acc G)|apply (g_next D f0 tmps0 st acc G)].
    + repeat split.
    + apply G.
  - apply Fv.
  - apply Fv.
  - apply Fv.
  - reflexivity.
  - rewrite (f_split _ _ _ Fv), <- app_assoc. reflexivity.
  - intros s it0 Hs. apply (f_gt _ _ _ Fv). right. exact Hs.
  - intros L. destruct (f_live _ _ _ Fv L) as (A1 & A2 & A3 & A4). split; auto. split; auto. split.
    + intros s Hs. apply A3. right. exact Hs.
    + destruct A4 as [->|(X & E & B1 & B2)]; [left; reflexivity|right].
      exists X. repeat split; auto. intros s Hs. apply B2. right. exact Hs.
Qed.

Lemma flush_delete st f1 rest done :
  FJ st (f1 :: rest) done -> suppressed (r_rmdir st) (st_path f1) = false ->
  FJ (apply_change fl c idx 2 (st_path f1) f1 (set_diff st rest (rm_prefix_of f1))) rest (done ++ [f1]).
Proof.
  intros Fv Hsup. pose proof (f_base _ _ _ Fv) as G.
  set (q1 := st_path f1) in *. set (st0 := set_diff st rest (rm_prefix_of f1)).
  assert (Hin1 : In f1 L0) by (apply (fold_in st (f1 :: rest) done f1 Fv); left; reflexivity).
  destruct (old_entry f1 Hin1) as (Hok1 & Hcl1 & i1 & Hw1 & Hd1 & Hex1 & _).
  assert (G0 : GB st0 acc).
  { apply (GBase_quiet D f0 tmps0 st st0 acc b0 G); try (unfold b0; lia); simpl.
    - apply step_refl; [apply (g_wf D f0 tmps0 st acc G)|apply (g_next D f0 tmps0 st acc G)].
    - repeat split.
    - apply G. }
  assert (HSS : StronglySorted plt (f1 :: rest)) by (apply (fold_sorted st (f1 :: rest) done Fv)).
  assert (Hokall : forall s, In s (f1 :: rest) -> ok_path (st_path s) = true).
  { intros s Hs. apply (old_entry s (fold_in st _ done s Fv Hs)). }
  assert (Hpre : live st0 = true -> f_rej fl q1 = false -> change_pre D tmps0 2 st0 q1 f1 acc).
  { intros L _. destruct (f_live _ _ _ Fv L) as (A1 & A2 & A3 & A4).
    unfold change_pre. cbn [r_fs st0 set_diff r_pipes].
    split; [exact Hok1|]. split; [exact Hcl1|]. split.
    - pose proof (A3 f1 (or_introl eq_refl) Hsup) as Hp. rewrite Hw1 in Hp.
      apply (rwalk_prefix_safe (r_fs st) (comps q1) D i1 Hp).
    - split; [exact A1|]. split; [discriminate|]. split; [|discriminate].
      intros id pp Hin. apply cmp_lt_not_prefix.
      destruct (g_pipes D f0 tmps0 st acc G id pp Hin) as [Hq _]. unfold accpaths in Hq. apply in_map_iff in Hq.
      destruct Hq as (x & Ex & Hx). rewrite <- Ex. apply (f_gt _ _ _ Fv f1 x (or_introl eq_refl) Hx). }
  assert (Hfree0 : live st0 = true -> forall j t, reach (r_fs st0) j -> tmpname tmps0 t -> blookup t (ents (r_fs st0) j) = None).
  { intros L. apply (f_live _ _ _ Fv L). }
  pose proof (apply_change_inv D root f0 tmps0 fl Hmap_mode Hmap_link Hclosed tmp_ok idx 2 q1 f1 st0 acc G0 Hpre Hfree0) as X.
  change {| c_root := root; c_cwd := D |} with c in X. cbv zeta in X.
  set (st1 := apply_change fl c idx 2 q1 f1 st0) in *.
  destruct X as (G1 & (F1 & F2 & F3 & F4 & F5 & _) & Hpost).
  constructor.
  - exact G1.
  - rewrite F1. apply Fv.
  - rewrite F2. apply Fv.
  - rewrite F5. apply Fv.
  - rewrite F3. reflexivity.
  - rewrite (f_split _ _ _ Fv), <- app_assoc. reflexivity.
  - intros s it0 Hs. apply (f_gt _ _ _ Fv). right. exact Hs.
  - intros L1. destruct (Hpost L1) as (L0' & P1 & P2 & _).
    destruct (f_live _ _ _ Fv L0') as (A1 & A2 & A3 & A4).
    split; [exact P1|]. split; [|split].
    + intros q Hq Hs. refine (proj1 (P2 (comps q) _ _) _).
      * apply cmp_lt_not_prefix. unfold accpaths in Hq. apply in_map_iff in Hq. destruct Hq as (x & <- & Hx).
        apply (f_gt _ _ _ Fv f1 x (or_introl eq_refl) Hx).
      * apply (facc_clean q Hq).
      * apply (A2 q Hq Hs).
    + rewrite F4. cbn [r_rmdir st0 set_diff]. intros s Hs Hsup'.
      assert (Hins : In s L0) by (apply (fold_in st _ done s Fv); right; exact Hs).
      destruct (old_entry s Hins) as (Hoks & Hcls & i' & Hws & _).
      assert (Hbefore : suppressed (r_rmdir st) (st_path s) = false).
      { apply (rmF_rm_ok (r_rmdir st) (f1 :: rest) A4 f1 rest eq_refl HSS Hokall Hsup s Hs). }
      rewrite <- (A3 s (or_intror Hs) Hbefore).
      refine (proj2 (P2 (comps (st_path s)) _ Hcls)).
      intros Hpfx.
      assert (Hne : q1 <> st_path s).
      { apply cmp_lt_ne. apply (SS_cons_lt plt f1 rest s HSS Hs). }
      destruct (prefix_proper_below q1 (st_path s) Hok1 Hpfx Hne) as (y & Hy & Ey).
      assert (Hdir1 : st_is_dir f1 = true).
      { rewrite Ey in Hws. destruct (rwalk_app_dir f0 D (comps q1) y i' Hws Hy) as (k & Hk & Hkd).
        unfold q1 in Hk. rewrite Hw1 in Hk. inversion Hk; subst k. rewrite Hd1. exact Hkd. }
      unfold rm_prefix_of in Hsup'. rewrite Hdir1 in Hsup'. fold q1 in Hsup'.
      rewrite (below_suppressed q1 (st_path s) Hok1 Hoks) in Hsup'; [discriminate|].
      exists y. split; auto.
    + rewrite F4. cbn [r_rmdir st0 set_diff]. unfold rm_prefix_of. destruct (st_is_dir f1); [right|left; reflexivity].
      exists q1. split; [reflexivity|]. split; [exact Hok1|].
      intros s Hs. apply (SS_cons_lt plt f1 rest s HSS Hs).
Qed.


Hypothesis Hstk0 : forall ds l, In (ds, l) (r_vstk stin) -> f_rej fl ds = false ->
  pcomps ds = [] \/ exists q, In q (accpaths acc) /\ comps q = pcomps ds /\ safe (r_fs stin) D (comps q).
Hypothesis Hsn0 : forall q, In q (r_seen stin) -> f_rej fl q = false -> In q (accpaths acc) /\ safe (r_fs stin) D (comps q).

Lemma flush_done st old done : FJ st old done -> (live st = true -> old = []) -> NInv st acc.
Proof.
  intros Fv Hnil. split.
  - split; [apply Fv|]. intros L. destruct (f_live _ _ _ Fv L) as (A1 & A2 & _). constructor.
    + exact A1.
    + intros ds l Hin Hrj. rewrite (f_vstk _ _ _ Fv) in Hin. destruct (Hstk0 ds l Hin Hrj) as [E|(q & Hq & Eq & Hs)].
      * rewrite E. exact I.
      * rewrite <- Eq. apply A2; auto.
    + intros q Hin Hrj. rewrite (f_seen _ _ _ Fv) in Hin. destruct (Hsn0 q Hin Hrj) as [Hq Hs]. apply A2; auto.
  - intros L. pose proof (f_closed _ _ _ Fv) as Hc. constructor.
    + exists done. rewrite (f_old _ _ _ Fv). split; [apply Fv|]. intros H. congruence.
    + rewrite (f_old _ _ _ Fv), (Hnil L). intros s it0 [].
    + intros H. congruence.
Qed.

Theorem diff_flush_inv : forall old st done, FJ st old done -> NInv (diff_flush fl c idx old st) acc.
Proof.
  induction old as [|f1 rest IH]; intros st done Fv; cbn [diff_flush].
  - apply (flush_done _ [] done); [|auto].
    pose proof (f_base _ _ _ Fv) as G. constructor; cbn [r_vstk r_seen r_closed r_old set_diff r_fs r_rmdir]; try apply Fv.
    + apply (GBase_quiet D f0 tmps0 st _ acc b0 G); try (unfold b0; lia); simpl.
      * apply step_refl; [apply (g_wf D f0 tmps0 st acc G)|apply (g_next D f0 tmps0 st acc G)].
      * repeat split.
      * apply G.
    + reflexivity.
  - destruct (suppressed (r_rmdir st) (st_path f1)) eqn:Es.
    + apply (IH _ (done ++ [f1])). apply flush_skip. exact Fv.
    + pose proof (flush_delete st f1 rest done Fv Es) as F1.
      destruct (live (apply_change fl c idx 2 (st_path f1) f1 (set_diff st rest (rm_prefix_of f1)))) eqn:L1.
      * apply (IH _ (done ++ [f1]) F1).
      * apply (flush_done _ rest (done ++ [f1]) F1). intros H. congruence.
Qed.

End Flush.

(* ================= packets ================= *)
Lemma NInv_stop' st acc o : GB st acc -> o <> Running -> NInv (set_out st o) acc.
Proof.
  intros G Ho.
  assert (L : live (set_out st o) = false) by (apply live_set_out; exact Ho).
  split; [split|].
  - apply (GBase_quiet D f0 tmps0 st _ acc b0 G); try (unfold b0; lia); simpl.
    + apply step_refl; [apply (g_wf D f0 tmps0 st acc G)|apply (g_next D f0 tmps0 st acc G)].
    + repeat split.
    + apply G.
  - intros L'. congruence.
  - intros L'. congruence.
Qed.

Lemma NInv_stop st acc o : NInv st acc -> o <> Running -> NInv (set_out st o) acc.
Proof. intros [[G _] _] Ho. apply NInv_stop'; auto. Qed.

Lemma OInv_quiet st st' acc b :
  wf (r_fs st) -> step TNone b (r_fs st) (r_fs st') ->
  r_old st' = r_old st -> r_rmdir st' = r_rmdir st -> r_closed st' = r_closed st ->
  (live st' = true -> live st = true) -> OInv st acc -> OInv st' acc.
Proof.
  intros W S E1 E2 E3 Hl O L. destruct (O (Hl L)) as [O1 O2 O3]. constructor.
  - rewrite E1, E3. exact O1.
  - rewrite E1. exact O2.
  - rewrite E1, E2, E3. intros Hc. destruct (O3 Hc) as [P Rm]. split; [|exact Rm].
    intros s Hs Hsup. rewrite (quiet_rwalk D b (r_fs st) (r_fs st') _ W S). apply (P s Hs Hsup).
Qed.

Lemma OInv_closed st st' acc :
  r_old st' = r_old st -> r_closed st' = true -> (live st' = true -> live st = true) -> OInv st acc -> OInv st' acc.
Proof.
  intros E1 E3 Hl O L. destruct (O (Hl L)) as [(done & Ed & _) O2 _]. constructor.
  - exists done. rewrite E1. split; [exact Ed|]. intros H. congruence.
  - rewrite E1. exact O2.
  - intros H. congruence.
Qed.

Lemma recv_data_same idx id d st :
  r_old (recv_data c idx id d st) = r_old st /\ r_rmdir (recv_data c idx id d st) = r_rmdir st
  /\ r_closed (recv_data c idx id d st) = r_closed st.
Proof.
  unfold recv_data. destruct (alookup id (r_pipes st)) as [pp|]; [|repeat split].
  destruct (pp_closed pp); [repeat split|].
  destruct (spend st) as [st1|] eqn:Es; [|repeat split].
  destruct (spend_core st st1 Es) as (_ & _ & _ & _ & _ & _ & Eo & _ & Ecl & _ & Erm & _).
  destruct (is_nil d).
  - destruct (r_asyncerr st1); [destruct (pp_fd pp); simpl; auto|].
    destruct (if has_bits (st_mode (pp_stat pp)) ModeSetuid || has_bits (st_mode (pp_stat pp)) ModeSetgid
              then sys_chmod c (r_fs st1) (pp_path pp) (unix_perm (st_mode (pp_stat pp))) else (r_fs st1, ROk)) as [f1 r1].
    destruct (if is_err r1 then (f1, r1) else sys_utimens c f1 (pp_path pp) (st_mtime (pp_stat pp))) as [f2 r2].
    simpl. auto.
  - destruct (match pp_fd pp with Some i => (r_fs st1, RFd i) | None => sys_open_wronly c (r_fs st1) (pp_path pp) false 0 end) as [f1 r].
    destruct r; simpl; auto. destruct (fd_pwrite f1 i (pp_off pp) d) as [f2 r2]. simpl. auto.
Qed.

Lemma recv_data_ninv idx id d st acc : NInv st acc -> NInv (recv_data c idx id d st) acc.
Proof.
  intros [G O]. destruct (recv_data_dq D root f0 tmps0 W0 fl Hclosed tmp_ok idx id d st acc G) as (G' & S & Hl).
  change {| c_root := root; c_cwd := D |} with c in G', S, Hl.
  destruct (recv_data_same idx id d st) as (E1 & E2 & E3).
  split; [exact G'|].
  apply (OInv_quiet st _ acc b0 (g_wf D f0 tmps0 st acc (proj1 G)) S E1 E2 E3 Hl O).
Qed.

Lemma maybe_wait_ninv idx st acc : NInv st acc -> NInv (maybe_wait c dl idx st) acc.
Proof.
  intros [G O]. split.
  - pose proof (maybe_wait_inv D root f0 tmps0 dl fl Hclosed tmp_ok idx st acc G) as X.
    change {| c_root := root; c_cwd := D |} with c in X. exact X.
  - unfold maybe_wait.
    destruct ((running st || match r_out st with Drained _ => true | _ => false end) && negb (is_dead st)); [|exact O].
    destruct (r_closed st && negb (r_waited st)) eqn:Ec; [|exact O].
    apply andb_true_iff in Ec. destruct Ec as [Ec _].
    destruct (r_asyncerr st).
    + intros L. rewrite live_set_dead in L. discriminate.
    + destruct (is_nil (r_pipes st)); [|exact O].
      destruct (spend st) as [st1|] eqn:Es.
      2:{ intros L. rewrite live_set_out in L; [discriminate|discriminate]. }
      destruct (spend_core st st1 Es) as (_ & _ & El & _ & _ & _ & Eo & _).
      apply (OInv_closed st _ acc); simpl; auto.
      intros L. rewrite <- El. exact L.
Qed.

Lemma cvstep_parent_new stk it stk' : cvstep stk it = Some stk' -> exists l, In (removelast (ipath it), l) stk'.
Proof.
  intros Hs. unfold cvstep in Hs.
  destruct (rev (ipath it)) as [|b rd] eqn:Er; [discriminate|].
  pose proof (rev_decomp _ _ _ Er) as Hp. rewrite Hp, removelast_last.
  destruct (cpop (rev rd) stk) as [|[d' l] rest]; [discriminate|].
  destruct (lex d' (rev rd)) eqn:El; try discriminate. apply lex_eq in El. subst d'.
  destruct (cmpb l b); try discriminate.
  inversion Hs. exists b. destruct (negb (del it) && isdir it); simpl; auto.
Qed.

Lemma hl_step_wanted seen s seen' : hl_step seen s = Some seen' ->
  forall q, In q seen' -> In q seen \/ (q = st_path s /\ wanted s).
Proof.
  unfold hl_step, wanted. destruct (st_is_dir s) eqn:Ed; cbn [orb].
  - intros H; inversion H; subst. auto.
  - destruct (mode_is_symlink (st_mode s)) eqn:Es.
    + intros H; inversion H; subst; auto.
    + destruct (is_nil (st_linkname s)) eqn:En; cbn [negb].
      * intros H; inversion H; subst. intros q [E|Hq]; auto.
      * destruct (mem_bytes (st_linkname s) seen); intros H; inversion H; subst; auto.
Qed.

Lemma stack_acc st acc ds l : GB st acc -> alive_inv D tmps0 fl st -> In (ds, l) (r_vstk st) -> f_rej fl ds = false ->
  pcomps ds = [] \/ exists q, In q (accpaths acc) /\ comps q = pcomps ds /\ safe (r_fs st) D (comps q).
Proof.
  intros G [A1 A2 A3] Hin Hrj. destruct (pcomps ds) as [|x r] eqn:E; [left; reflexivity|right].
  assert (Hin' : In (pcomps ds, l) (map ce (r_vstk st))) by (apply in_map_iff; exists (ds, l); split; auto).
  destruct (inv_dirs _ _ (g_vinv D f0 tmps0 st acc G) _ _ Hin') as (q & Hq & Eq & _); [rewrite E; discriminate|].
  apply in_map_iff in Hq. destruct Hq as (it' & <- & Hit'). cbn [ipath citem_of] in Eq.
  exists (vpath it'). split; [apply in_map; exact Hit'|]. split; [rewrite <- E; exact Eq|].
  rewrite Eq. apply (A2 ds l Hin Hrj).
Qed.

(* the same for an entry both validators have accepted, whatever the bookkeeping of ids (used by
   the metadata branch of the receive loop, Model/RecvMeta.v) *)
Lemma feed_nomerge idx s st acc v' seen' files next :
  NInv st acc -> cleanp (st_path s) -> link_ok fl s ->
  vstep (r_vstk st) (item_of s) = Some v' -> hl_step (r_seen st) s = Some seen' ->
  let st1 := set_valid st v' seen' files next in
  GB st1 (acc ++ [item_of s])
  /\ (live st = true -> r_closed st = false -> NInv (diff_feed fl c idx s (r_old st1) st1) (acc ++ [item_of s])).
Proof.
  intros [[G A] O] Hcl Hlk Ev Eh. cbv zeta.
  set (it := item_of s) in *.
  pose proof (vstep_ok_path _ _ _ Ev) as Hok. change (vpath it) with (st_path s) in Hok.
  pose proof (vstep_refines (r_vstk st) it (g_R D f0 tmps0 st acc G) Hok) as Hr. rewrite Ev in Hr. destruct Hr as [Hcv HR'].
  destruct (cvstep_sound _ _ _ _ (g_vinv D f0 tmps0 st acc G) (okitem_names it Hok) Hcv) as [Hspec HI'].
  change [citem_of it] with (map citem_of [it]) in HI'. rewrite <- map_app in HI'.
  destruct (cvstep_shape _ _ _ (inv_chain _ _ (g_vinv D f0 tmps0 st acc G)) Hcv) as [Hparent Hshape].
  pose proof (cvstep_parent_new _ _ _ Hcv) as Hpar'.
  cbn [ipath citem_of it item_of vpath] in Hparent, Hshape, Hpar'.
  assert (Hbase : forall st', r_fs st' = r_fs st -> r_vstk st' = v' -> r_pipes st' = r_pipes st -> r_tmps st' = r_tmps st ->
             (forall q, In q (r_seen st') -> In q (r_seen st) \/ q = st_path s) -> GB st' (acc ++ [it])).
  { intros st' E1 E2 E3 E4 E5. apply (GBase_ext D f0 tmps0 st st' acc it v'); auto. }
  destruct (hl_step_seen _ _ _ Eh) as [Hseen' Hlinkseen].
  set (st1 := set_valid st v' seen' files next).
  assert (G1 : GB st1 (acc ++ [it])).
  { apply Hbase; simpl; auto. intros q Hq. destruct (Hseen' q Hq) as [H|[H _]]; auto. }
  split; [exact G1|]. intros L Ecl'.
  assert (Ecl : r_closed st1 = false) by exact Ecl'.
  pose proof (A L) as AL. destruct AL as [A1 A2 A3]. destruct (O L) as [(done & Esplit & Hdone) O2 O3].
  specialize (Hdone Ecl'). destruct (O3 Ecl') as [Hprist Hrm].
  assert (Hlt : forall it0, In it0 acc -> compare_path (vpath it0) (st_path s) = Lt).
  { intros it0 Hit0. destruct Hspec as (_ & Hlt & _). rewrite compare_path_lex. apply (Hlt (citem_of it0)). apply in_map. exact Hit0. }
  assert (Ecs : comps (st_path s) = removelast (comps (st_path s)) ++ [last (comps (st_path s)) []]) by (apply split_comps; auto).
  assert (Hpar0 : f_rej fl (st_path s) = false -> removelast (comps (st_path s)) = [] \/
            exists q, In q (accpaths acc) /\ comps q = removelast (comps (st_path s)) /\ safe (r_fs st1) D (comps q)).
  { intros Hrj. destruct Hparent as [l Hl]. apply In_map_ce in Hl. destruct Hl as (ds & Hin & Eds).
    destruct (dir_accepted fl Hclosed (r_vstk st) ds l (st_path s) (g_R D f0 tmps0 st acc G) Hin Hok) as [E|E]; auto.
    { rewrite Eds. exists [last (comps (st_path s)) []]. rewrite <- Ecs. reflexivity. }
    { left. rewrite <- Eds. exact E. }
    destruct (stack_acc st acc ds l G (A L) Hin E) as [E'|(q & Hq & Eq & Hs)].
    - left. rewrite <- Eds. exact E'.
    - right. exists q. split; auto. split; [rewrite Eq; exact Eds|exact Hs]. }
  assert (Hlink0 : hardlink_branch s = true -> f_rej fl (st_path s) = false ->
            In (st_linkname s) (accpaths acc) /\ safe (r_fs st1) D (comps (st_linkname s))).
  { intros Hhb Hrj. pose proof (Hlinkseen Hhb) as Hin.
    split; [apply (g_seen D f0 tmps0 st acc G _ Hin)|apply (A3 _ Hin (Hlk Hhb Hrj))]. }
  assert (Hstack0 : forall ds l, In (ds, l) v' -> f_rej fl ds = false ->
            pcomps ds = [] \/ (exists q, In q (accpaths acc) /\ comps q = pcomps ds /\ safe (r_fs st1) D (comps q))
            \/ (ds = st_path s /\ wanted s)).
  { intros ds l Hin Hrj.
    assert (Hin' : In (pcomps ds, l) (map ce v')) by (apply in_map_iff; exists (ds, l); split; auto).
    destruct (Hshape _ _ Hin') as [(Hp & l' & Hl')|(E1 & E2 & _)].
    - apply In_map_ce in Hl'. destruct Hl' as (ds' & Hin2 & Eds). apply pcomps_inj_ok in Eds. subst ds'.
      destruct (stack_acc st acc ds l' G (A L) Hin2 Hrj) as [E|(q & Hq & Eq & Hs)].
      + left. exact E.
      + right. left. exists q. split; auto.
    - right. right. split; [|left; cbn [isdir citem_of it item_of visdir] in E2; exact E2].
      apply pcomps_inj_ok. rewrite E1. symmetry. apply pcomps_nonempty. intro E0. rewrite E0 in Hok. discriminate. }
  assert (Hseen0 : forall q, In q seen' -> f_rej fl q = false ->
            (In q (accpaths acc) /\ safe (r_fs st1) D (comps q)) \/ (q = st_path s /\ wanted s)).
  { intros q Hq Hrj. destruct (hl_step_wanted _ _ _ Eh q Hq) as [H|H]; [left|right; exact H].
    split; [apply (g_seen D f0 tmps0 st acc G _ H)|apply (A3 _ H Hrj)]. }
  pose proof (diff_feed_inv st1 acc s v' seen' idx Hok Hcl Hspec HI' Hpar'
                (g_acc D f0 tmps0 st acc G) Hpar0 Hlink0 Hstack0 Hseen0 Ecl (r_old st1) st1 done) as X.
  apply X. clear X.
  constructor.
  - exact G1.
  - reflexivity.
  - reflexivity.
  - intros id pp Hin. apply (g_pipes D f0 tmps0 st acc G id pp Hin).
  - exact Ecl.
  - reflexivity.
  - exact Esplit.
  - intros s' Hs'. destruct (Hdone s' Hs') as (it0 & Hit0 & Hle).
    apply (cmp_le_lt_trans _ (vpath it0)); auto.
  - exact O2.
  - intros _. split; [exact A1|]. split; [auto|]. split; [exact Hprist|].
    destruct Hrm as [E|(X & E & HX & Hgt & Hdead & (it1 & Hit1 & Hle))]; [left; exact E|right].
    assert (HXp : compare_path X (st_path s) = Lt) by (apply (cmp_le_lt_trans _ (vpath it1)); auto).
    exists X. split; [exact E|]. split; [exact HX|]. split; [exact Hgt|]. split; [|exact HXp].
    intros it0 Hit0 Ev0. apply in_app_or in Hit0. destruct Hit0 as [Hit0|[<-|[]]]; [apply Hdead; auto|].
    exfalso. apply (cmp_lt_ne _ _ HXp). symmetry. exact Ev0.
Qed.


Lemma recv_stat_ninv idx s st acc :
  NInv st acc -> running st = true -> cleanp (st_path s) -> link_ok fl s ->
  exists acc', NInv (recv_stat fl c idx s st) acc'.
Proof.
  intros M Hrun Hcl Hlk. pose proof M as [[G A] O]. unfold recv_stat.
  set (files := if mode_is_regular (st_mode s) then bset (st_path s) (r_next st) (r_files st) else r_files st).
  set (it := item_of s).
  destruct (vstep (r_vstk st) it) as [v'|] eqn:Ev.
  2:{ exists acc. apply NInv_stop'; [|discriminate].
      apply (GBase_quiet D f0 tmps0 st _ acc b0 G); try (unfold b0; lia); simpl.
      - apply step_refl; [apply (g_wf D f0 tmps0 st acc G)|apply (g_next D f0 tmps0 st acc G)].
      - repeat split.
      - apply G. }
  pose proof (vstep_ok_path _ _ _ Ev) as Hok. change (vpath it) with (st_path s) in Hok.
  pose proof (vstep_refines (r_vstk st) it (g_R D f0 tmps0 st acc G) Hok) as Hr. rewrite Ev in Hr. destruct Hr as [Hcv HR'].
  destruct (cvstep_sound _ _ _ _ (g_vinv D f0 tmps0 st acc G) (okitem_names it Hok) Hcv) as [Hspec HI'].
  change [citem_of it] with (map citem_of [it]) in HI'. rewrite <- map_app in HI'.
  exists (acc ++ [it]).
  destruct (hl_step (r_seen st) s) as [seen'|] eqn:Eh.
  2:{ apply NInv_stop'; [|discriminate]. apply (GBase_ext D f0 tmps0 st _ acc it v'); simpl; auto. }
  destruct (feed_nomerge idx s st acc v' seen' files (r_next st + 1) M Hcl Hlk Ev Eh) as (G1 & M1).
  set (st1 := set_valid (set_valid st (r_vstk st) (r_seen st) files (r_next st + 1)) v' seen' files (r_next st + 1)).
  change (set_valid st v' seen' files (r_next st + 1)) with st1 in G1, M1.
  destruct (r_closed st1) eqn:Ecl.
  { cbn [negb]. rewrite andb_false_r. apply NInv_stop'; [exact G1|discriminate]. }
  cbn [negb]. rewrite andb_true_r.
  destruct (is_dead st1) eqn:Edd; [apply NInv_stop'; [exact G1|discriminate]|].
  assert (Edd' : is_dead st = false) by exact Edd.
  apply M1; [unfold live; rewrite Hrun, Edd'; reflexivity|exact Ecl].
Qed.

Lemma flush_ninv idx st acc :
  NInv st acc -> live st = true -> r_closed st = false ->
  NInv (diff_flush fl c idx (r_old st) (set_flags st true (r_waited st))) acc.
Proof.
  intros [[G A] O] L Ecl. destruct (A L) as [A1 A2 A3]. destruct (O L) as [(done & Esplit & _) O2 O3].
  destruct (O3 Ecl) as [Hprist Hrm].
  set (st1 := set_flags st true (r_waited st)).
  assert (G1 : GB st1 acc).
  { apply (GBase_quiet D f0 tmps0 st st1 acc b0 G); try (unfold b0; lia); simpl.
    - apply step_refl; [apply (g_wf D f0 tmps0 st acc G)|apply (g_next D f0 tmps0 st acc G)].
    - repeat split.
    - apply G. }
  pose proof (diff_flush_inv st1 acc idx (g_acc D f0 tmps0 st acc G)) as X.
  apply (X ltac:(intros ds l Hin Hrj; apply (stack_acc st acc ds l G (A L) Hin Hrj))
     ltac:(intros q Hq Hrj; split; [apply (g_seen D f0 tmps0 st acc G _ Hq)|apply (A3 _ Hq Hrj)]) (r_old st) st1 done). clear X.
  constructor.
  - exact G1.
  - reflexivity.
  - reflexivity.
  - reflexivity.
  - reflexivity.
  - exact Esplit.
  - exact O2.
  - intros _. split; [exact A1|]. split; [auto|]. split; [exact Hprist|].
    destruct Hrm as [E|(X & E & HX & Hgt & _)]; [left; exact E|right]. exists X. auto.
Qed.

Lemma recv_packet_ninv idx pk st acc :
  NInv st acc -> clean_packet tmps0 fl pk -> exists acc', NInv (recv_packet fl c dl idx pk st) acc'.
Proof.
  intros M Hc. unfold recv_packet. destruct (running st) eqn:Hrun; cbn [negb]; [|exists acc; exact M].
  assert (X : exists acc', NInv (match pk with
                                 | PErr => set_out st (Failed idx)
                                 | PFin => set_out st (Drained idx)
                                 | POther => st
                                 | PStat None =>
                                   if r_closed st then set_out st (Panicked idx)
                                   else if is_dead st then set_out st (Failed idx)
                                   else diff_flush fl c idx (r_old st) (set_flags st true (r_waited st))
                                 | PStat (Some s) => recv_stat fl c idx s st
                                 | PData id d => recv_data c idx id d st
                                 end) acc').
  { destruct pk as [[s|]|id d| | |].
    - apply (recv_stat_ninv idx s st acc M Hrun (proj1 Hc) (proj2 Hc)).
    - exists acc. destruct (r_closed st) eqn:Ecl; [apply NInv_stop; auto; discriminate|].
      destruct (is_dead st) eqn:Ed; [apply NInv_stop; auto; discriminate|].
      apply flush_ninv; auto. unfold live. rewrite Hrun, Ed. reflexivity.
    - exists acc. apply recv_data_ninv. exact M.
    - exists acc. apply NInv_stop; auto; discriminate.
    - exists acc. apply NInv_stop; auto; discriminate.
    - exists acc. exact M. }
  destruct X as [acc' M']. exists acc'. apply maybe_wait_ninv. exact M'.
Qed.

(* packets other than a non-empty STAT accept nothing new *)
Lemma recv_packet_ninv_other idx pk st acc :
  NInv st acc -> (forall s, pk <> PStat (Some s)) -> NInv (recv_packet fl c dl idx pk st) acc.
Proof.
  intros M Hpk. unfold recv_packet. destruct (running st) eqn:Hrun; cbn [negb]; [|exact M].
  apply maybe_wait_ninv. destruct pk as [[s|]|id d| | |].
  - exfalso. apply (Hpk s). reflexivity.
  - destruct (r_closed st) eqn:Ecl; [apply NInv_stop; auto; discriminate|].
    destruct (is_dead st) eqn:Ed; [apply NInv_stop; auto; discriminate|].
    apply flush_ninv; auto. unfold live. rewrite Hrun, Ed. reflexivity.
  - apply recv_data_ninv. exact M.
  - apply NInv_stop; auto; discriminate.
  - apply NInv_stop; auto; discriminate.
  - exact M.
Qed.

Lemma NInv_files st acc files next :
  NInv st acc -> NInv (set_valid st (r_vstk st) (r_seen st) files next) acc.
Proof.
  intros [G O]. split.
  - apply (GInv_quiet D f0 tmps0 fl st _ acc b0 G); try (unfold b0; lia); simpl; auto.
    + apply step_refl; [apply (g_wf D f0 tmps0 st acc (proj1 G))|apply (g_next D f0 tmps0 st acc (proj1 G))].
    + repeat split.
    + apply (proj1 G).
  - apply (OInv_quiet st _ acc b0 (g_wf D f0 tmps0 st acc (proj1 G))); simpl; auto.
    apply step_refl; [apply (g_wf D f0 tmps0 st acc (proj1 G))|apply (g_next D f0 tmps0 st acc (proj1 G))].
Qed.

Lemma recv_loop_ninv : forall pks idx st acc,
  NInv st acc -> Forall (clean_packet tmps0 fl) pks -> exists acc', NInv (recv_loop fl c dl idx pks st) acc'.
Proof.
  induction pks as [|pk pks IH]; intros idx st acc M Hc; simpl; [exists acc; exact M|].
  inversion Hc; subst. destruct (recv_packet_ninv idx pk st acc M H1) as [acc1 M1].
  apply (IH (S idx) _ acc1 M1 H2).
Qed.

Lemma NInv_init budget : NInv (rstate_init f0 D false tmps0 budget) [].
Proof.
  split; [split|].
  - constructor; simpl.
    + apply step_refl; auto. unfold b0. lia.
    + constructor; [left; reflexivity|constructor].
    + apply inv_init.
    + constructor.
    + intros q [].
    + intros id pp [].
    + intros t Ht. right. exact Ht.
  - intros _. constructor; simpl.
    + exact Hunused.
    + intros d l [E|[]] _. inversion E; subst. exact I.
    + intros q [].
  - intros _. constructor; simpl.
    + exists []. split; [reflexivity|]. intros _ s [].
    + intros s it0 _ [].
    + intros _. split; [intros s _ _; reflexivity|left; reflexivity].
Qed.

Theorem recv_nomerge_step pks budget :
  Forall (clean_packet tmps0 fl) pks ->
  step TAll b0 f0 (r_fs (recv_run_f fl f0 root D dl false tmps0 pks budget)).
Proof.
  intros Hc. unfold recv_run_f.
  destruct (recv_loop_ninv pks 0 _ [] (NInv_init budget) Hc) as [acc [[G _] _]]. apply G.
Qed.

End RecvOld.
