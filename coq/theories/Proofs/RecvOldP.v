(* C03 — the receive loop with the old content of the destination walked and diffed
   (ReceiveOpt.Merge off): the invariant of the old listing.  Entries of the initial walk that
   have not been passed yet resolve as they did at the start; entries below a removed or
   replaced directory are skipped for as long as the removed-directory prefix stands. *)
From Coq Require Import List Arith NArith Bool Lia ZifyN ZifyNat ZifyBool Sorting.Sorted.
From FS Require Import Sx Model.Path Model.Stat Model.Validator Model.Fs Model.DiskWriterFs.
From FS Require Import Proofs.Lex Proofs.PathP Proofs.ValidatorP Proofs.FsP Proofs.FsReachP Proofs.FsFrameP
     Proofs.FsSysP Proofs.FsTreeP Proofs.DwP Proofs.RecvP Proofs.OldListP.
Import ListNotations.
Open Scope N_scope.
Open Scope bool_scope.

(* ---------------- order facts on path strings ---------------- *)
Lemma prefix_cmp a b : is_prefix (comps a) (comps b) -> compare_path a b <> Gt.
Proof. intros H. rewrite compare_path_lex. apply prefix_le. exact H. Qed.

Lemma cmp_lt_not_prefix a b : compare_path a b = Lt -> ~ is_prefix (comps b) (comps a).
Proof. intros H P. apply prefix_cmp in P. rewrite compare_path_opp, H in P. simpl in P. congruence. Qed.

Lemma cmp_lt_ne a b : compare_path a b = Lt -> a <> b.
Proof. intros H E. subst. rewrite compare_path_refl in H. discriminate. Qed.

Lemma cmp_le_lt_trans a b c : compare_path a b <> Gt -> compare_path b c = Lt -> compare_path a c = Lt.
Proof.
  intros H1 H2. destruct (compare_path a b) eqn:E; try congruence.
  - apply compare_path_eq in E. subst. exact H2.
  - apply (compare_path_trans a b c); auto.
Qed.

(* strictly below: the components of X are a proper prefix *)
Definition below (X q : bytes) : Prop := exists y, y <> [] /\ comps q = comps X ++ y.

Lemma below_prefix X q : below X q -> is_prefix (comps X) (comps q).
Proof. intros (y & _ & E). exists y. exact E. Qed.

Lemma below_lt X q : below X q -> compare_path X q = Lt.
Proof.
  intros (y & Hy & E). rewrite compare_path_lex, E. apply lex_prefix_lt. exact Hy.
Qed.

(* X < p < q with q below X: then p is below X too *)
Lemma between_below X p q : compare_path X p = Lt -> compare_path p q = Lt -> below X q -> below X p.
Proof.
  intros H1 H2 (y & Hy & E). rewrite compare_path_lex in H1, H2. rewrite E in H2.
  destruct (lex_between_prefix _ _ _ H1 H2) as [z Hz]. exists z. split; auto.
  intro; subst z. rewrite app_nil_r in Hz. rewrite Hz, lex_refl in H1. discriminate.
Qed.

Lemma suppressed_below X q : suppressed (X ++ [sep]) q = true -> below X q.
Proof. apply suppressed_prefix. Qed.

Lemma below_suppressed X q : ok_path X = true -> ok_path q = true -> below X q -> suppressed (X ++ [sep]) q = true.
Proof. intros HX Hq (y & Hy & E). apply (prefix_suppressed X q y); auto. Qed.

Lemma suppressed_nil q : suppressed [] q = false.
Proof. reflexivity. Qed.

Lemma prefix_proper_below X q : ok_path X = true -> is_prefix (comps X) (comps q) -> X <> q -> below X q.
Proof.
  intros _ [y E] Hne. exists y. split; auto. intro; subst y. rewrite app_nil_r in E. apply Hne.
  apply comps_inj. symmetry. exact E.
Qed.

Lemma SS_in_lt {A} (R : A -> A -> Prop) (l1 l2 : list A) x y :
  StronglySorted R (l1 ++ l2) -> In x l1 -> In y l2 -> R x y.
Proof.
  induction l1 as [|a l1 IH]; intros HS Hx Hy; [destruct Hx|].
  simpl in HS. inversion HS as [|? ? HS' Hall]; subst. destruct Hx as [<-|Hx].
  - rewrite Forall_forall in Hall. apply Hall. apply in_or_app. right. exact Hy.
  - apply IH; auto.
Qed.

Lemma SS_app_r {A} (R : A -> A -> Prop) (l1 l2 : list A) : StronglySorted R (l1 ++ l2) -> StronglySorted R l2.
Proof. induction l1 as [|a l1 IH]; intros H; auto. simpl in H. inversion H; subst. auto. Qed.

Lemma SS_cons_lt {A} (R : A -> A -> Prop) a (l : list A) y : StronglySorted R (a :: l) -> In y l -> R a y.
Proof. intros H Hy. inversion H as [|? ? _ Hall]; subst. rewrite Forall_forall in Hall. auto. Qed.

Lemma chain_all_prefixes stk : chain stk -> forall d l rest, stk = (d, l) :: rest ->
  forall a, is_prefix a d -> exists l', In (a, l') stk.
Proof.
  induction 1 as [l0|d0 l0 rest0 l' Hc IH Hl]; intros d l rest E a Hp; inversion E; subst.
  - destruct Hp as [y Hy]. destruct a; [|discriminate]. exists l. left. reflexivity.
  - destruct Hp as [y Hy].
    destruct y as [|y0 y'] using rev_ind.
    + rewrite app_nil_r in Hy. subst a. exists l. left. reflexivity.
    + rewrite app_assoc in Hy. apply app_inj_tail in Hy. destruct Hy as [Hy _].
      destruct (IH d0 l0 rest0 eq_refl a) as [l2 H2]; [exists y'; auto|]. exists l2. right. exact H2.
Qed.

Lemma chain_prefix_in stk : chain stk -> forall d0 l0, In (d0, l0) stk ->
  forall a, is_prefix a d0 -> exists l', In (a, l') stk.
Proof.
  induction 1 as [lr|d1 lr rest1 l2 Hc1 IH1 Hl1]; intros d0 l0 Hin a Ha.
  - destruct Hin as [Ein|[]]. injection Ein as <- <-. destruct Ha as [z Hz]. destruct a; [|discriminate].
    exists lr. left. reflexivity.
  - destruct Hin as [Ein|Hin].
    + injection Ein as <- <-. apply (chain_all_prefixes _ (chain_push _ _ _ _ Hc1 Hl1) _ _ _ eq_refl a Ha).
    + destruct (IH1 d0 l0 Hin a Ha) as [l' H']. exists l'. right. exact H'.
Qed.

Section RecvOld.
Variables (D root : N) (f0 : fs) (tmps0 : list bytes) (dl : bool).
Notation reach := (reach D).
Notation wf := (wf D).
Notation step := (step D).

Let c : ctx := {| c_root := root; c_cwd := D |}.
Let b0 : N := f_next f0.

Hypothesis W0 : wf f0.
Hypothesis tmp_ok : forall t, tmpname tmps0 t -> okname t.
Hypothesis Hunused : tmp_unused D f0 tmps0.

Let L0 : list stat := old_listing f0 D.
Let OF : old_facts D f0 L0 := old_listing_facts D f0 W0.

Notation GB := (GBase D f0 tmps0).
Notation cleanp := (clean_path tmps0).

Lemma old_entry s : In s L0 ->
  ok_path (st_path s) = true /\ cleanp (st_path s)
  /\ exists i, rwalk f0 D (comps (st_path s)) = Some i /\ st_is_dir s = is_dir f0 i /\ get f0 i <> None
                /\ (is_link f0 i = true -> mode_is_symlink (st_mode s) = true).
Proof.
  intros Hin. destruct (of_entry D f0 L0 OF s Hin) as [Hok Hi]. split; auto. split; [|exact Hi].
  intros t Ht Hc. destruct (of_names D f0 L0 OF s t Hin Hc) as (d & Rd & Hb). apply Hb. apply (Hunused d t Rd Ht).
Qed.

(* the removed-directory prefix: nothing accepted lies at or below the removed entry as a directory *)
Definition rm_ok (rm : bytes) (acc : list vitem) (rest : list stat) : Prop :=
  rm = [] \/ exists X, rm = X ++ [sep] /\ ok_path X = true
     /\ (forall s, In s rest -> compare_path X (st_path s) = Lt)
     /\ (forall it, In it acc -> vpath it = X -> visdir it = false)
     /\ (exists it, In it acc /\ compare_path X (vpath it) <> Gt).

Definition prist (f : fs) (rm : bytes) (rest : list stat) : Prop :=
  forall s, In s rest -> suppressed rm (st_path s) = false ->
    rwalk f D (comps (st_path s)) = rwalk f0 D (comps (st_path s)).

Lemma rm_ok_sub rm acc rest rest' : (forall s, In s rest' -> In s rest) -> rm_ok rm acc rest -> rm_ok rm acc rest'.
Proof.
  intros H [->|(X & E & A & B & C0 & E2)]; [left; reflexivity|right].
  exists X. repeat split; auto.
Qed.

(* no accepted path is below a dead entry *)
Lemma dead_not_below stk acc X p :
  Inv (map ce stk) (map citem_of acc) ->
  (exists l, In (removelast (comps p), l) (map ce stk)) ->
  (forall it, In it acc -> vpath it = X -> visdir it = false) ->
  ok_path p = true -> below X p -> False.
Proof.
  intros HI [l Hl] Hdead Hok (y & Hy & E).
  assert (Hpre : is_prefix (comps X) (removelast (comps p))).
  { rewrite E. destruct y as [|y0 y'] using rev_ind; [congruence|].
    rewrite app_assoc, removelast_last. exists y'. reflexivity. }
  pose proof (inv_chain _ _ HI) as Hc.
  (* the parent directory of p is on the stack, hence so is every prefix of it *)
  assert (Hstk : exists l', In (comps X, l') (map ce stk)).
  { apply (chain_prefix_in _ Hc _ _ Hl _ Hpre). }
  destruct Hstk as [l' Hl'].
  assert (HXne : comps X <> []) by apply comps_nonempty.
  destruct (inv_dirs _ _ HI _ _ Hl' HXne) as (q & Hq & Eq & _ & Hdir).
  apply in_map_iff in Hq. destruct Hq as (it' & <- & Hit'). cbn [ipath isdir citem_of] in Eq, Hdir.
  apply comps_inj in Eq. rewrite (Hdead it' Hit' Eq) in Hdir. discriminate.
Qed.

(* in a sorted listing the entries below a passed entry X come first *)
Lemma not_supp_rest rm acc f1 rest :
  StronglySorted plt (f1 :: rest) -> (forall s, In s (f1 :: rest) -> ok_path (st_path s) = true) ->
  rm_ok rm acc (f1 :: rest) -> suppressed rm (st_path f1) = false ->
  forall s, In s rest -> suppressed rm (st_path s) = false.
Proof.
  intros HS Hok [->|(X & -> & HX & Hgt & _)] Hf1 s Hs; [reflexivity|].
  destruct (suppressed (X ++ [sep]) (st_path s)) eqn:E; auto. exfalso.
  apply suppressed_below in E.
  assert (H1 : compare_path X (st_path f1) = Lt) by (apply Hgt; left; reflexivity).
  assert (H2 : compare_path (st_path f1) (st_path s) = Lt) by (apply (SS_cons_lt plt f1 rest s HS Hs)).
  pose proof (between_below X (st_path f1) (st_path s) H1 H2 E) as Hb.
  rewrite (below_suppressed X (st_path f1) HX (Hok f1 (or_introl eq_refl)) Hb) in Hf1. discriminate.
Qed.

End RecvOld.
