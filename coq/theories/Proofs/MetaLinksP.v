(* C19 — the last hypothesis of the metadata-only theorems discharged for every source the walk
   can produce: the receiver's hard-link validator accepts the stream of a canonical listing
   (links_canon: every link entry names an EARLIER node entry without Linkname), also after the
   listing-name entry was skipped, provided no entry depends on the skipped entry.  Together with
   receiver_accepts_wf and link_closed_accepts: every link-closed selection of a well-formed source
   is accepted (recv_accepts), which meta_transfer_converges / meta_req_ids / projection_wf /
   forwarded_valid take as their hypothesis. *)
From Coq Require Import List NArith Bool Lia Sorted.
From FS Require Import Sx Model.Path Model.Stat Model.Validator Model.Hardlinks Model.Diff Model.AbsDest
  Model.ConvergeA Model.MetaOnly
  Proofs.Lex Proofs.PathP Proofs.DiffP Proofs.MetaOnlyP Proofs.MetaAcceptP Proofs.MetaTransferP.
Import ListNotations.
Open Scope bool_scope.

(* ---- the hard-link validator accepts a sequence in which every link names an earlier
        plain non-link entry (or a path already seen) ---- *)
Lemma mem_bytes_cons_mono p q seen : mem_bytes p seen = true -> mem_bytes p (q :: seen) = true.
Proof. intros H. cbn [mem_bytes]. rewrite H. apply orb_true_r. Qed.

Lemma hl_run_sourced l : forall seen i,
  (forall pre x post, l = pre ++ x :: post -> hl_plain x = true -> has_link x = true ->
     mem_bytes (st_linkname x) seen = true \/
     exists u, In u pre /\ hl_plain u = true /\ has_link u = false /\ st_path u = st_linkname x) ->
  hl_run seen l i = None.
Proof.
  induction l as [|s r IH]; intros seen i H; [reflexivity|]. cbn [hl_run].
  assert (Hstep : exists seen', hl_step seen s = Some seen' /\
            (forall p, mem_bytes p seen = true -> mem_bytes p seen' = true) /\
            (hl_plain s = true -> has_link s = false -> mem_bytes (st_path s) seen' = true)).
  { unfold hl_step. destruct (hl_plain s) eqn:Ep; cbn [negb].
    - destruct (has_link s) eqn:El.
      + destruct (H [] s r eq_refl Ep El) as [Hm|(u & [] & _)]. rewrite Hm.
        exists seen. split; [reflexivity|]. split; [auto|discriminate].
      + exists (st_path s :: seen). split; [reflexivity|]. split; [intros p Hp; apply mem_bytes_cons_mono; exact Hp|].
        intros _ _. cbn [mem_bytes]. rewrite bytes_eqb_refl. reflexivity.
    - exists seen. split; [reflexivity|]. split; [auto|discriminate]. }
  destruct Hstep as (seen' & E & Hmono & Hself). rewrite E. apply IH.
  intros pre x post Er Hp Hl. destruct (H (s :: pre) x post) as [Hm|(u & Hu & Hpu & Hlu & Eu)]; auto.
  - rewrite Er. reflexivity.
  - destruct Hu as [<-|Hu].
    + left. rewrite <- Eu. apply Hself; auto.
    + right. exists u. auto.
Qed.

(* ---- in a sorted sequence an entry strictly below x lies before x ---- *)
Lemma sorted_before pre x post u :
  sorted (pre ++ x :: post) -> In u (pre ++ x :: post) -> plt u x -> In u pre.
Proof.
  intros Hs Hu Hlt. apply sorted_app_inv in Hs. destruct Hs as (_ & Hs2 & _).
  apply in_app_or in Hu. destruct Hu as [Hu|[<-|Hu]]; [exact Hu| |].
  - unfold plt in Hlt. rewrite compare_path_refl in Hlt. discriminate.
  - apply sorted_inv in Hs2. destruct Hs2 as [_ Hx]. specialize (Hx u Hu).
    pose proof (plt_trans _ _ _ Hx Hlt) as Hxx. unfold plt in Hxx. rewrite compare_path_refl in Hxx. discriminate.
Qed.

Lemma sorted_filter_keep (f : stat -> bool) L : sorted L -> sorted (filter f L).
Proof.
  induction L as [|a L IH]; intros H; [constructor|]. apply sorted_inv in H. destruct H as [H1 H2].
  cbn [filter]. destruct (f a); [|apply IH; exact H1].
  constructor; [apply IH; exact H1|]. apply Forall_forall. intros b Hb. apply filter_In in Hb. apply H2. tauto.
Qed.

Lemma is_node_plain s : is_node s = hl_plain s.
Proof. reflexivity. Qed.

Lemma has_link_nonempty s : has_link s = negb (is_empty (st_linkname s)).
Proof. unfold has_link. destruct (st_linkname s); reflexivity. Qed.

(* ---- canonical source listings pass the hard-link validator, with or without the skip ---- *)
Theorem canon_hardlink_check_proof B :
  sorted (map fst B) -> links_canon B -> hardlink_check (map fst B) = None.
Proof.
  intros Hs Hc. unfold hardlink_check. apply hl_run_sourced. intros pre x post E Hp Hl. right.
  assert (Hx : In x (map fst B)) by (rewrite E; apply in_or_app; right; left; reflexivity).
  apply in_map_iff in Hx. destruct Hx as ([sb bb] & Ex & Hin). cbn [fst] in Ex. subst sb.
  assert (Hh : is_hardlink x = true).
  { unfold is_hardlink. rewrite is_node_plain, Hp, <- has_link_nonempty, Hl. reflexivity. }
  destruct (Hc x bb Hin Hh) as (st & bt & Hst & Epath & Hlt & Hnode & Elink & _).
  exists st. split.
  - apply (sorted_before pre x post st); [rewrite <- E; exact Hs| |exact Hlt].
    rewrite <- E. apply in_map_iff. exists (st, bt). auto.
  - rewrite is_node_plain in Hnode. split; [exact Hnode|]. split; [|exact Epath].
    unfold has_link. rewrite Elink. reflexivity.
Qed.

Theorem canon_recv_hardlink_check_proof B :
  sorted (map fst B) -> links_canon B -> listing_dependents (map fst B) = false ->
  hardlink_check (recv_stream (map fst B)) = None.
Proof.
  intros Hs Hc Hnd. unfold hardlink_check. apply hl_run_sourced. intros pre x post E Hp Hl. right.
  assert (HsR : sorted (recv_stream (map fst B))) by (apply sorted_filter_keep; exact Hs).
  assert (HxR : In x (recv_stream (map fst B))) by (rewrite E; apply in_or_app; right; left; reflexivity).
  assert (Hx : In x (map fst B)) by (unfold recv_stream in HxR; apply filter_In in HxR; tauto).
  pose proof Hx as Hx'. apply in_map_iff in Hx'. destruct Hx' as ([sb bb] & Ex & Hin). cbn [fst] in Ex. subst sb.
  assert (Hh : is_hardlink x = true).
  { unfold is_hardlink. rewrite is_node_plain, Hp, <- has_link_nonempty, Hl. reflexivity. }
  destruct (Hc x bb Hin Hh) as (st & bt & Hst & Epath & Hlt & Hnode & Elink & _).
  (* the source is not the skipped entry: x would depend on it *)
  assert (Hnl : is_listing st = false).
  { unfold is_listing. destruct (bytes_eqb (st_path st) listing_name) eqn:Eb; [|reflexivity]. exfalso.
    apply bytes_eqb_eq in Eb. unfold listing_dependents in Hnd.
    assert (Hex : existsb (fun t => under listing_name (st_path t)
                       || (hl_plain t && bytes_eqb (st_linkname t) listing_name)) (map fst B) = true).
    { apply existsb_exists. exists x. split; [exact Hx|]. rewrite Hp, <- Epath, Eb, bytes_eqb_refl. apply orb_true_r. }
    rewrite Hex in Hnd. discriminate. }
  exists st. split.
  - apply (sorted_before pre x post st); [rewrite <- E; exact HsR| |exact Hlt].
    rewrite <- E. unfold recv_stream. apply filter_In. split; [|rewrite Hnl; reflexivity].
    apply in_map_iff. exists (st, bt). auto.
  - rewrite is_node_plain in Hnode. split; [exact Hnode|]. split; [|exact Epath].
    unfold has_link. rewrite Elink. reflexivity.
Qed.

(* ---- every link-closed selection of a well-formed source is accepted ---- *)
Theorem wf_source_accepts_proof sel B :
  wf_entries B -> (forall s, In s (map fst B) -> ok_path (st_path s) = true) ->
  listing_dependents (map fst B) = false ->
  link_closed sel (recv_stream (map fst B)) = true ->
  recv_accepts sel (map fst B) = true.
Proof.
  intros [Hw Hc] Hok Hnd Hlc. apply link_closed_accepts_proof.
  - apply receiver_accepts_wf_proof; assumption.
  - apply canon_recv_hardlink_check_proof; [exact (proj1 Hw)|exact Hc|exact Hnd].
  - exact Hlc.
Qed.

(* ... and conversely acceptance forces link-closedness (accepts_link_closed): for a well-formed
   source "accepted" and "link-closed" are the same condition on the selection *)
Theorem wf_source_accepts_iff_proof sel B :
  wf_entries B -> (forall s, In s (map fst B) -> ok_path (st_path s) = true) ->
  listing_dependents (map fst B) = false ->
  (recv_accepts sel (map fst B) = true <-> link_closed sel (recv_stream (map fst B)) = true).
Proof.
  intros Hw Hok Hnd. split.
  - apply accepts_link_closed_proof.
  - apply wf_source_accepts_proof; assumption.
Qed.

(* non-vacuity: a canonical listing with a link and the select-everything selection *)
